// gen translates a whitelisted set of pure Go functions of yandex/mysync into
// Lean 4 definitions.  It is deliberately tiny: int/bool expressions, len,
// builtin min/max, field access on the receiver, calls to other whitelisted
// methods, `:=`, if/else, switch (on a value or tagless), early return,
// `fmt.Errorf` / nil returns; helper functions / methods and all-scalar struct
// types of the same file are translated on demand (helpers tagged @[simp]).  Anything else is a loud failure (exit 2), never a skipped
// function.
//
//	gen -repo /repo -out /verif/lean/MysyncModel/Generated
package main

import (
	"crypto/sha256"
	"encoding/json"
	"flag"
	"fmt"
	"go/ast"
	"go/parser"
	"go/printer"
	"go/token"
	"os"
	"path/filepath"
	"sort"
	"strings"
)

type unit struct {
	file      string   // relative to repo
	module    string   // Lean module / namespace suffix
	recvType  string   // Go receiver type name ("" = plain funcs)
	structDef bool     // emit the receiver struct
	funcs     []string // whitelist, in dependency order
}

var units = []unit{
	{file: "internal/mysql/switch_helper.go", module: "SwitchHelper", recvType: "SwitchHelper", structDef: true,
		funcs: []string{"GetRequiredWaitSlaveCount", "GetFailoverQuorum", "CheckFailoverQuorum", "IsOptimizationPhaseAllowed"}},
	{file: "internal/mysql/data.go", module: "Version", recvType: "Version", structDef: true,
		funcs: []string{"CheckIfVersionReplicaStatus"}},
	{file: "internal/mysql/node.go", module: "ReplSettings", recvType: "ReplicationSettings", structDef: true,
		funcs: []string{"Equal", "CanBeOptimized"}},
}

type tr struct {
	fset   *token.FileSet
	consts map[string]string // package-level int constants -> literal
	recv   string            // receiver identifier
	lists  map[string]bool   // identifiers that are slices (len allowed)
	ptrs   map[string]bool   // identifiers that are pointers to the receiver struct
	errs   []string
	// on-demand translation of helpers and local struct types of the same file
	methods  map[string]*ast.FuncDecl   // methods of the unit's receiver type
	plain    map[string]*ast.FuncDecl   // plain functions of the file
	structs  map[string]*ast.StructType // struct types of the file
	recvType string
	emitted  map[string]bool // Lean names already emitted (or being emitted)
	defs     []string        // emitted Lean declarations, in dependency order
	api      map[string]bool // whitelisted function names (emitted under their own name, not @[simp])
}

func (t *tr) fail(n ast.Node, msg string, args ...any) string {
	pos := t.fset.Position(n.Pos())
	t.errs = append(t.errs, fmt.Sprintf("%s: %s", pos, fmt.Sprintf(msg, args...)))
	return "sorry_untranslatable"
}

func leanType(t *tr, e ast.Expr) string {
	switch x := e.(type) {
	case *ast.Ident:
		switch x.Name {
		case "int", "int64", "int32":
			return "Int"
		case "bool":
			return "Bool"
		case "string":
			return "String"
		case "error":
			return "Option String"
		}
		if st, ok := t.structs[x.Name]; ok && x.Name != t.recvType {
			t.ensureStruct(x.Name, st)
		}
		return x.Name
	case *ast.ArrayType:
		return "List " + leanType(t, x.Elt)
	case *ast.SelectorExpr:
		if id, ok := x.X.(*ast.Ident); ok && id.Name == "time" && x.Sel.Name == "Duration" {
			return "Int"
		}
	case *ast.StarExpr:
		return leanType(t, x.X)
	}
	return t.fail(e, "unsupported type %T", e)
}

func (t *tr) expr(e ast.Expr) string {
	switch x := e.(type) {
	case *ast.ParenExpr:
		return "(" + t.expr(x.X) + ")"
	case *ast.BasicLit:
		if x.Kind == token.INT {
			return "(" + x.Value + " : Int)"
		}
		if x.Kind == token.STRING {
			return x.Value
		}
		return t.fail(e, "unsupported literal %s", x.Value)
	case *ast.Ident:
		switch x.Name {
		case "true", "false":
			return x.Name
		case "nil":
			return "none"
		}
		if v, ok := t.consts[x.Name]; ok {
			return "(" + v + " : Int)"
		}
		return x.Name
	case *ast.SelectorExpr:
		if id, ok := x.X.(*ast.Ident); ok {
			return id.Name + "." + x.Sel.Name
		}
		if _, ok := x.X.(*ast.CallExpr); ok {
			return "(" + t.expr(x.X) + ")." + x.Sel.Name
		}
		return t.fail(e, "unsupported selector")
	case *ast.CompositeLit:
		id, ok := x.Type.(*ast.Ident)
		if !ok {
			return t.fail(e, "unsupported composite literal")
		}
		st, ok := t.structs[id.Name]
		if !ok {
			return t.fail(e, "composite literal of unknown type %s", id.Name)
		}
		t.ensureStruct(id.Name, st)
		var fields []string
		for _, el := range x.Elts {
			kv, ok := el.(*ast.KeyValueExpr)
			if !ok {
				return t.fail(e, "composite literal without field names")
			}
			fields = append(fields, kv.Key.(*ast.Ident).Name+" := "+t.expr(kv.Value))
		}
		return "({ " + strings.Join(fields, ", ") + " } : " + id.Name + ")"
	case *ast.UnaryExpr:
		switch x.Op {
		case token.NOT:
			return "(!" + t.expr(x.X) + ")"
		case token.SUB:
			return "(-" + t.expr(x.X) + ")"
		case token.AND:
			return t.expr(x.X)
		}
		return t.fail(e, "unsupported unary %s", x.Op)
	case *ast.BinaryExpr:
		l, r := t.expr(x.X), t.expr(x.Y)
		switch x.Op {
		case token.ADD:
			return "(" + l + " + " + r + ")"
		case token.SUB:
			return "(" + l + " - " + r + ")"
		case token.MUL:
			return "(" + l + " * " + r + ")"
		case token.QUO:
			return "(Int.tdiv " + l + " " + r + ")" // Go integer division truncates toward zero
		case token.REM:
			return "(Int.tmod " + l + " " + r + ")"
		case token.LSS:
			return "(decide (" + l + " < " + r + "))"
		case token.LEQ:
			return "(decide (" + l + " ≤ " + r + "))"
		case token.GTR:
			return "(decide (" + l + " > " + r + "))"
		case token.GEQ:
			return "(decide (" + l + " ≥ " + r + "))"
		case token.EQL:
			return "(" + l + " == " + r + ")"
		case token.NEQ:
			return "(" + l + " != " + r + ")"
		case token.LAND:
			return "(" + l + " && " + r + ")"
		case token.LOR:
			return "(" + l + " || " + r + ")"
		}
		return t.fail(e, "unsupported binary %s", x.Op)
	case *ast.CallExpr:
		switch f := x.Fun.(type) {
		case *ast.Ident:
			switch f.Name {
			case "len":
				if id, ok := x.Args[0].(*ast.Ident); ok && t.lists[id.Name] {
					return "(" + id.Name + ".length : Int)"
				}
				return t.fail(e, "len of non-parameter slice")
			case "min", "max":
				if len(x.Args) != 2 {
					return t.fail(e, "%s with %d args", f.Name, len(x.Args))
				}
				return "(" + f.Name + " " + t.expr(x.Args[0]) + " " + t.expr(x.Args[1]) + ")"
			}
			if fd, ok := t.plain[f.Name]; ok { // a plain helper function of the same file
				var args []string
				for _, a := range x.Args {
					args = append(args, t.expr(a))
				}
				name := t.ensureFunc(fd, false)
				return "(" + name + " " + strings.Join(args, " ") + ")"
			}
		case *ast.SelectorExpr:
			if id, ok := f.X.(*ast.Ident); ok {
				if id.Name == "fmt" && f.Sel.Name == "Errorf" {
					if lit, ok := x.Args[0].(*ast.BasicLit); ok {
						return "(some " + lit.Value + ")"
					}
				}
				if id.Name == t.recv { // call of another method of the receiver: whitelisted, or a helper translated on demand
					args := []string{t.recv}
					for _, a := range x.Args {
						args = append(args, t.expr(a))
					}
					name := f.Sel.Name
					if fd, ok := t.methods[name]; ok && !t.api[name] {
						name = t.ensureFunc(fd, true)
					}
					return "(" + name + " " + strings.Join(args, " ") + ")"
				}
			}
		}
		return t.fail(e, "unsupported call")
	}
	return t.fail(e, "unsupported expression %T", e)
}

func indent(n int) string { return strings.Repeat("  ", n) }

// stmts translates a statement list ending in returns into one expression.
func (t *tr) stmts(ss []ast.Stmt, depth int) string {
	if len(ss) == 0 {
		return "sorry_missing_return"
	}
	s, rest := ss[0], ss[1:]
	in := indent(depth)
	switch x := s.(type) {
	case *ast.ReturnStmt:
		if len(x.Results) != 1 {
			return t.fail(s, "return with %d results", len(x.Results))
		}
		return in + t.expr(x.Results[0])
	case *ast.AssignStmt:
		if x.Tok != token.DEFINE || len(x.Lhs) != 1 || len(x.Rhs) != 1 {
			return t.fail(s, "unsupported assignment")
		}
		return in + "let " + t.expr(x.Lhs[0]) + " := " + t.expr(x.Rhs[0]) + "\n" + t.stmts(rest, depth)
	case *ast.IfStmt:
		if x.Init != nil {
			return t.fail(s, "if with init")
		}
		thenS := append(append([]ast.Stmt{}, x.Body.List...), rest...)
		var elseS []ast.Stmt
		switch el := x.Else.(type) {
		case nil:
			elseS = rest
		case *ast.BlockStmt:
			elseS = append(append([]ast.Stmt{}, el.List...), rest...)
		case *ast.IfStmt:
			elseS = append([]ast.Stmt{el}, rest...)
		}
		if len(elseS) == 0 {
			return t.fail(s, "if without else at the end of a function")
		}
		return in + "if " + t.expr(x.Cond) + " then\n" + t.stmts(thenS, depth+1) + "\n" + in + "else\n" + t.stmts(elseS, depth+1)
	case *ast.SwitchStmt:
		if x.Init != nil {
			return t.fail(s, "unsupported switch form")
		}
		tag := ""
		if x.Tag != nil {
			tag = t.expr(x.Tag)
		}
		var out strings.Builder
		var def []ast.Stmt
		hasDef := false
		first := true
		for _, c := range x.Body.List {
			cc := c.(*ast.CaseClause)
			body := append(append([]ast.Stmt{}, cc.Body...), rest...)
			if cc.List == nil {
				def, hasDef = body, true
				continue
			}
			var conds []string
			for _, v := range cc.List {
				if x.Tag == nil {
					conds = append(conds, t.expr(v)) // tagless switch: the cases are conditions
				} else {
					conds = append(conds, "("+tag+" == "+t.expr(v)+")")
				}
			}
			kw := "else if "
			if first {
				kw, first = "if ", false
			}
			out.WriteString(in + kw + strings.Join(conds, " || ") + " then\n" + t.stmts(body, depth+1) + "\n")
		}
		if !hasDef {
			def = rest
		}
		out.WriteString(in + "else\n" + t.stmts(def, depth+1))
		return out.String()
	}
	return t.fail(s, "unsupported statement %T", s)
}

// ensureStruct emits a local struct type (once).
func (t *tr) ensureStruct(name string, st *ast.StructType) {
	if t.emitted["type:"+name] {
		return
	}
	t.emitted["type:"+name] = true
	var b strings.Builder
	fmt.Fprintf(&b, "structure %s where\n", name)
	for _, fl := range st.Fields.List {
		for _, n := range fl.Names {
			fmt.Fprintf(&b, "  %s : %s\n", n.Name, leanType(t, fl.Type))
		}
	}
	b.WriteString("  deriving Repr, DecidableEq\n")
	t.defs = append(t.defs, b.String())
}

// leanFuncName: a helper whose name is also a type name of the file gets a suffix.
func (t *tr) leanFuncName(name string) string {
	if _, clash := t.structs[name]; clash {
		return name + "_of"
	}
	return name
}

// ensureFunc translates a function (once) and returns its Lean name.  Helpers (not whitelisted) are tagged @[simp] so that
// the specification proofs see through them without naming them.
func (t *tr) ensureFunc(fd *ast.FuncDecl, isMethod bool) string {
	name := t.leanFuncName(fd.Name.Name)
	if t.emitted["func:"+name] {
		return name
	}
	t.emitted["func:"+name] = true
	savedRecv, savedLists := t.recv, t.lists
	defer func() { t.recv, t.lists = savedRecv, savedLists }()
	t.lists = map[string]bool{}
	t.recv = ""
	var params []string
	if isMethod && fd.Recv != nil {
		if len(fd.Recv.List[0].Names) > 0 {
			t.recv = fd.Recv.List[0].Names[0].Name
		} else {
			t.recv = "self"
		}
		params = append(params, fmt.Sprintf("(%s : %s)", t.recv, t.recvType))
	}
	for _, p := range fd.Type.Params.List {
		ty := leanType(t, p.Type)
		for _, n := range p.Names {
			if _, isArr := p.Type.(*ast.ArrayType); isArr {
				t.lists[n.Name] = true
			}
			params = append(params, fmt.Sprintf("(%s : %s)", n.Name, ty))
		}
	}
	if fd.Type.Results == nil || len(fd.Type.Results.List) != 1 {
		t.errs = append(t.errs, fmt.Sprintf("%s: need exactly one result", fd.Name.Name))
		return name
	}
	ret := leanType(t, fd.Type.Results.List[0].Type)
	body := t.stmts(fd.Body.List, 1) // may emit callees first
	attr := ""
	if !t.api[fd.Name.Name] {
		attr = "@[simp] "
	}
	t.defs = append(t.defs, fmt.Sprintf("%sdef %s %s : %s :=\n%s\n", attr, name, strings.Join(params, " "), ret, body))
	return name
}

func main() {
	repo := flag.String("repo", "/repo", "")
	out := flag.String("out", "", "")
	facts := flag.String("facts", "", "write structural facts (hashes of functions that the harness mirrors by hand) to this file")
	flag.Parse()
	if *facts != "" {
		writeFacts(*repo, *facts)
	}
	if *out == "" {
		fmt.Fprintln(os.Stderr, "need -out")
		os.Exit(2)
	}
	_ = os.MkdirAll(*out, 0o755)
	old, _ := filepath.Glob(filepath.Join(*out, "*.lean"))
	for _, f := range old {
		_ = os.Remove(f)
	}
	bad := false
	for _, u := range units {
		fset := token.NewFileSet()
		f, err := parser.ParseFile(fset, filepath.Join(*repo, u.file), nil, 0)
		if err != nil {
			fmt.Fprintln(os.Stderr, "gen:", err)
			os.Exit(2)
		}
		t := &tr{fset: fset, consts: map[string]string{}, methods: map[string]*ast.FuncDecl{}, plain: map[string]*ast.FuncDecl{},
			structs: map[string]*ast.StructType{}, recvType: u.recvType, emitted: map[string]bool{}, api: map[string]bool{}}
		for _, n := range u.funcs {
			t.api[n] = true
		}
		for _, d := range f.Decls {
			switch x := d.(type) {
			case *ast.GenDecl:
				if x.Tok == token.TYPE {
					for _, sp := range x.Specs {
						ts := sp.(*ast.TypeSpec)
						if st, ok := ts.Type.(*ast.StructType); ok {
							t.structs[ts.Name.Name] = st
						}
					}
				}
			case *ast.FuncDecl:
				if x.Recv == nil {
					t.plain[x.Name.Name] = x
				} else if len(x.Recv.List) == 1 {
					rt := ""
					switch r := x.Recv.List[0].Type.(type) {
					case *ast.StarExpr:
						if id, ok := r.X.(*ast.Ident); ok {
							rt = id.Name
						}
					case *ast.Ident:
						rt = r.Name
					}
					if rt == u.recvType {
						t.methods[x.Name.Name] = x
					}
				}
			}
		}
		// package-level integer constants of this file
		for _, d := range f.Decls {
			gd, ok := d.(*ast.GenDecl)
			if !ok || gd.Tok != token.CONST {
				continue
			}
			for _, sp := range gd.Specs {
				vs := sp.(*ast.ValueSpec)
				for i, n := range vs.Names {
					if i < len(vs.Values) {
						if lit, ok := vs.Values[i].(*ast.BasicLit); ok && lit.Kind == token.INT {
							t.consts[n.Name] = lit.Value
						}
					}
				}
			}
		}
		var b strings.Builder
		fmt.Fprintf(&b, "-- GENERATED by /verif/gen from %s — do not edit; regenerated on every check run.\nnamespace Gen.%s\n\n", u.file, u.module)
		if u.structDef {
			found := false
			for _, d := range f.Decls {
				gd, ok := d.(*ast.GenDecl)
				if !ok || gd.Tok != token.TYPE {
					continue
				}
				for _, sp := range gd.Specs {
					ts := sp.(*ast.TypeSpec)
					st, ok := ts.Type.(*ast.StructType)
					if ts.Name.Name != u.recvType || !ok {
						continue
					}
					found = true
					fmt.Fprintf(&b, "structure %s where\n", u.recvType)
					for _, fl := range st.Fields.List {
						for _, n := range fl.Names {
							fmt.Fprintf(&b, "  %s : %s\n", n.Name, leanType(t, fl.Type))
						}
					}
					b.WriteString("  deriving Repr, DecidableEq\n\n")
				}
			}
			if !found {
				fmt.Fprintf(os.Stderr, "gen: struct %s not found in %s\n", u.recvType, u.file)
				bad = true
			}
		}
		for _, name := range u.funcs {
			fd, ok := t.methods[name]
			isMethod := true
			if !ok {
				fd, ok = t.plain[name]
				isMethod = false
			}
			if !ok {
				fmt.Fprintf(os.Stderr, "gen: function %s.%s not found in %s\n", u.recvType, name, u.file)
				bad = true
				continue
			}
			t.ensureFunc(fd, isMethod)
		}
		for _, d := range t.defs {
			b.WriteString(d + "\n")
		}
		fmt.Fprintf(&b, "end Gen.%s\n", u.module)
		if len(t.errs) > 0 {
			sort.Strings(t.errs)
			for _, e := range t.errs {
				fmt.Fprintln(os.Stderr, "gen: untranslatable:", e)
			}
			bad = true
		}
		if err := os.WriteFile(filepath.Join(*out, u.module+".lean"), []byte(b.String()), 0o644); err != nil {
			fmt.Fprintln(os.Stderr, "gen:", err)
			os.Exit(2)
		}
	}
	if !genZkTiming(*repo, *out) {
		bad = true
	}
	if bad {
		os.Exit(2)
	}
}

// ---- the coordination client's time-outs -------------------------------------------------------------
// (*zk.Conn).setTimeouts of the go-zookeeper version /repo's go.mod requires: straight-line integer assignments,
// translated into one Lean definition that returns the two fields C03's timing lemma talks about.

func genZkTiming(repo, out string) bool {
	const mod = "github.com/go-zookeeper/zk"
	gm, err := os.ReadFile(filepath.Join(repo, "go.mod"))
	if err != nil {
		fmt.Fprintln(os.Stderr, "gen: zk timing:", err)
		return false
	}
	ver := ""
	for _, line := range strings.Split(string(gm), "\n") {
		f := strings.Fields(line)
		for i := range f {
			if f[i] == mod && i+1 < len(f) {
				ver = f[i+1]
			}
		}
	}
	if ver == "" {
		fmt.Fprintln(os.Stderr, "gen: zk timing: go.mod does not require", mod)
		return false
	}
	cache := os.Getenv("GOMODCACHE")
	if cache == "" {
		gp := os.Getenv("GOPATH")
		if gp == "" {
			home, _ := os.UserHomeDir()
			gp = filepath.Join(home, "go")
		}
		cache = filepath.Join(gp, "pkg", "mod")
	}
	file := filepath.Join(cache, mod+"@"+ver, "conn.go")
	fset := token.NewFileSet()
	f, err := parser.ParseFile(fset, file, nil, 0)
	if err != nil {
		fmt.Fprintln(os.Stderr, "gen: zk timing:", err)
		return false
	}
	var fd *ast.FuncDecl
	for _, d := range f.Decls {
		if x, ok := d.(*ast.FuncDecl); ok && x.Name.Name == "setTimeouts" && x.Recv != nil {
			fd = x
		}
	}
	if fd == nil || len(fd.Type.Params.List) != 1 || len(fd.Type.Params.List[0].Names) != 1 {
		fmt.Fprintln(os.Stderr, "gen: zk timing: (*Conn).setTimeouts(x) not found in", file)
		return false
	}
	param := fd.Type.Params.List[0].Names[0].Name
	recv := fd.Recv.List[0].Names[0].Name
	ok := true
	var ex func(e ast.Expr) string
	ex = func(e ast.Expr) string {
		switch x := e.(type) {
		case *ast.ParenExpr:
			return ex(x.X)
		case *ast.BasicLit:
			if x.Kind == token.INT {
				return "(" + x.Value + " : Int)"
			}
		case *ast.Ident:
			return x.Name
		case *ast.SelectorExpr:
			if id, isID := x.X.(*ast.Ident); isID {
				if id.Name == recv {
					return x.Sel.Name // a field assigned earlier in this function
				}
				if id.Name == "time" {
					switch x.Sel.Name {
					case "Nanosecond":
						return "(1 : Int)"
					case "Microsecond":
						return "(1000 : Int)"
					case "Millisecond":
						return "(1000000 : Int)"
					case "Second":
						return "(1000000000 : Int)"
					}
				}
			}
		case *ast.CallExpr:
			// conversions to an integer type
			if len(x.Args) == 1 {
				switch fn := x.Fun.(type) {
				case *ast.SelectorExpr:
					if id, isID := fn.X.(*ast.Ident); isID && id.Name == "time" && fn.Sel.Name == "Duration" {
						return ex(x.Args[0])
					}
				case *ast.Ident:
					if fn.Name == "int64" || fn.Name == "int32" || fn.Name == "int" {
						return ex(x.Args[0])
					}
				}
			}
		case *ast.BinaryExpr:
			l, r := ex(x.X), ex(x.Y)
			switch x.Op {
			case token.ADD:
				return "(" + l + " + " + r + ")"
			case token.SUB:
				return "(" + l + " - " + r + ")"
			case token.MUL:
				return "(" + l + " * " + r + ")"
			case token.QUO:
				return "(Int.tdiv " + l + " " + r + ")"
			}
		}
		ok = false
		fmt.Fprintf(os.Stderr, "gen: zk timing: untranslatable expression at %s\n", fset.Position(e.Pos()))
		return "0"
	}
	var b strings.Builder
	fmt.Fprintf(&b, "-- GENERATED by /verif/gen from %s@%s/conn.go (*Conn).setTimeouts — do not edit; regenerated on every check run.\nnamespace Gen.ZkTiming\n\n", mod, ver)
	b.WriteString("structure Timeouts where\n  recvTimeout : Int\n  pingInterval : Int\n  deriving Repr, DecidableEq\n\n")
	fmt.Fprintf(&b, "/-- durations in nanoseconds, the argument in milliseconds (as the server grants it) -/\ndef setTimeouts (%s : Int) : Timeouts :=\n", param)
	assigned := map[string]bool{}
	for _, st := range fd.Body.List {
		as, isAs := st.(*ast.AssignStmt)
		if !isAs || len(as.Lhs) != 1 || len(as.Rhs) != 1 || (as.Tok != token.ASSIGN && as.Tok != token.DEFINE) {
			ok = false
			fmt.Fprintf(os.Stderr, "gen: zk timing: unsupported statement at %s\n", fset.Position(st.Pos()))
			continue
		}
		name := ""
		switch l := as.Lhs[0].(type) {
		case *ast.Ident:
			name = l.Name
		case *ast.SelectorExpr:
			if id, isID := l.X.(*ast.Ident); isID && id.Name == recv {
				name = l.Sel.Name
			}
		}
		if name == "" {
			ok = false
			fmt.Fprintf(os.Stderr, "gen: zk timing: unsupported assignment target at %s\n", fset.Position(st.Pos()))
			continue
		}
		fmt.Fprintf(&b, "  let %s := %s\n", name, ex(as.Rhs[0]))
		assigned[name] = true
	}
	if !assigned["recvTimeout"] || !assigned["pingInterval"] {
		ok = false
		fmt.Fprintln(os.Stderr, "gen: zk timing: setTimeouts does not assign recvTimeout and pingInterval")
	}
	b.WriteString("  { recvTimeout := recvTimeout, pingInterval := pingInterval }\n\nend Gen.ZkTiming\n")
	if !ok {
		return false
	}
	if err := os.WriteFile(filepath.Join(out, "ZkTiming.lean"), []byte(b.String()), 0o644); err != nil {
		fmt.Fprintln(os.Stderr, "gen:", err)
		return false
	}
	return true
}

// ---- structural facts ------------------------------------------------------------------------------
// The harness mirrors a few functions by hand because they cannot run in the virtual-time bubble (the main
// loop of App.Run: lock file, signal handler; the construction of zkDCS in NewZookeeper: DNS, TCP, TLS).
// Their printed AST (comments stripped) is hashed; the check compares the hashes with /verif/expect_facts.json,
// so that an edit of these functions is noticed instead of silently leaving the harness copy behind.

var factFuncs = []struct{ file, recv, name string }{
	{"internal/app/app.go", "App", "Run"},
	{"internal/dcs/zk.go", "", "NewZookeeper"},
	{"internal/app/app.go", "App", "connectDCS"},
	{"internal/app/app.go", "App", "newDBCluster"},
}

func writeFacts(repo, out string) {
	res := map[string]string{}
	for _, ff := range factFuncs {
		fset := token.NewFileSet()
		f, err := parser.ParseFile(fset, filepath.Join(repo, ff.file), nil, 0)
		if err != nil {
			fmt.Fprintln(os.Stderr, "gen: facts:", err)
			os.Exit(2)
		}
		key := ff.name
		if ff.recv != "" {
			key = ff.recv + "." + ff.name
		}
		for _, d := range f.Decls {
			fd, ok := d.(*ast.FuncDecl)
			if !ok || fd.Name.Name != ff.name {
				continue
			}
			recv := ""
			if fd.Recv != nil && len(fd.Recv.List) == 1 {
				switch x := fd.Recv.List[0].Type.(type) {
				case *ast.StarExpr:
					if id, ok := x.X.(*ast.Ident); ok {
						recv = id.Name
					}
				case *ast.Ident:
					recv = x.Name
				}
			}
			if recv != ff.recv {
				continue
			}
			var b strings.Builder
			_ = printer.Fprint(&b, token.NewFileSet(), fd)
			res[key] = fmt.Sprintf("%x", sha256.Sum256([]byte(b.String())))
		}
		if _, ok := res[key]; !ok {
			res[key] = "MISSING"
		}
	}
	data, _ := json.MarshalIndent(res, "", " ")
	_ = os.WriteFile(out, data, 0o644)
}
