#!/bin/bash
# usage: seedrun.sh <seeded-dir-name> <PROP> [tier]   — applies the patch to /repo, runs the check, reverts
d=/verif/seeded/$1
git -C /repo apply $d/patch.diff || { echo "PATCH DOES NOT APPLY"; exit 2; }
(cd /repo && go build ./... ) || echo "BUILD FAILS"
cd /verif && VERIF_EVIDENCE_DIR=/verif/.work/seedev ./check $2 --tier ${3:-quick} > $d/check_output.txt 2>&1; rc=$?
git -C /repo checkout -- . 
echo "exit=$rc"; grep -E "^(VIOLATION|OK|KNOWN)" $d/check_output.txt | head -5
