#!/bin/bash
# usage: [VERIF_REPO=<tree>] mrun.sh <TestRegex> [seed] [pkg]   — development loop: one harness test, replay, summary
R=${VERIF_REPO:-/repo}
VERIF_REPO=$R python3 /verif/scripts/mkoverlay.py; cd /verif/lean && lake build replay 2>&1 | grep -E "error" -A5 | head -20
rm -f /verif/.work/m/t.jsonl; cd $R && VERIF_OUT=/verif/.work/m/t.jsonl VERIF_SEED=${2:-1} GOFLAGS=-mod=mod GOPROXY=off go test -overlay /verif/.work/m/overlay.json -tags verif -count=1 -vet=off -run "$1" ${3:-./internal/app/} 2>&1 | tail -15; wc -l /verif/.work/m/t.jsonl; /verif/lean/.lake/build/bin/replay /verif/.work/m/t.jsonl > /verif/.work/m/sum.json; python3 - <<'PY'
import json,re,collections
s=json.load(open('/verif/.work/m/sum.json'))
print({k:s[k] for k in ['lines','mismatches','violations','malformed','distinct','nontrivial']})
for m in s['first_mismatches'][:5]: print('MM',m[:700]); print()
for m in s['sigs'][:6]: print('SIG',m['sig'],m['count'],m['examples'][0][:900]); print()
print(s['tags'])
PY
