#!/bin/bash
# usage: evalmut.sh <PROP> [tier]  — takes /tmp/mut/<PROP>.{patch,demo.md,meta.json}, stores them under seeded/<PROP>-agent, runs the check on the mutated tree
p=$1; d=/verif/seeded/$p-agent; mkdir -p $d
cp /tmp/mut/$p.patch $d/patch.diff; cp /tmp/mut/$p.demo.md $d/demonstration.md 2>/dev/null; cp /tmp/mut/$p.meta.json $d/agent_meta.json 2>/dev/null
/verif/scripts/seedrun.sh $p-agent $p ${2:-quick}
