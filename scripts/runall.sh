#!/bin/bash
# usage: runall.sh [tier] [seed]  — every registered check on the current tree, one line each
cd "$(dirname "$0")/.."
ids=$(python3 -c "import json;print(' '.join(c['property_id'] for c in json.load(open('MANIFEST.json'))['checks']))")
for p in $ids; do VERIF_SEED=${2:-1} ./check $p --tier ${1:-quick} 2>&1 | grep -E "^(OK|VIOLATION|KNOWN-FINDING)" | cut -c1-260; done
