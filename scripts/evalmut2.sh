#!/bin/bash
# usage: evalmut2.sh <PROP> [check-id] [tier] — round-2 agent change in /tmp/mut2/<PROP> (left applied in that worktree): store artefacts, run the check against that tree
p=$1; c=${2:-$1}; d=/verif/seeded/$p-agent2; mkdir -p $d
cp /tmp/mut2/$p.patch $d/patch.diff; cp /tmp/mut2/$p.demo.md $d/demonstration.md 2>/dev/null; cp /tmp/mut2/$p.meta.json $d/agent_meta.json 2>/dev/null
( cd /tmp/mut2/$p && git diff --quiet && echo "WORKTREE HAS NO CHANGE" )
cd /verif && VERIF_REPO=/tmp/mut2/$p VERIF_EVIDENCE_DIR=/verif/.work/seedev2 ./check $c --tier ${3:-quick} > $d/check_output_$c.txt 2>&1; rc=$?
echo "exit=$rc"; grep -E "^(VIOLATION|OK)|^  C[0-9][0-9]:|^  broken" $d/check_output_$c.txt | head -4 | cut -c1-260
