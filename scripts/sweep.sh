#!/bin/bash
# usage: sweep.sh "<seeds>" [tier]  — every registered check for each seed on the current tree; evidence redirected
cd "$(dirname "$0")/.."
ids=$(python3 -c "import json;print(' '.join(c['property_id'] for c in json.load(open('MANIFEST.json'))['checks']))")
for s in $1; do for p in $ids; do
  VERIF_SEED=$s VERIF_EVIDENCE_DIR=$PWD/.work/sweepev ./check $p --tier ${2:-quick} 2>&1 | grep -E "^(OK|VIOLATION)" -A3 | grep -v "^KNOWN" | cut -c1-400
done; done
