import importlib.util, importlib.machinery, os
os.makedirs('/verif/.work/m', exist_ok=True)
loader = importlib.machinery.SourceFileLoader('check', '/verif/check')
spec = importlib.util.spec_from_loader('check', loader)
m = importlib.util.module_from_spec(spec); loader.exec_module(m)
m.write_overlay('/verif/.work/m')
