#!/bin/bash
# usage: evalmut3.sh <round-dir> <suffix> <PROP> [check-id] [tier]
#   agent change left applied in the worktree <round-dir>/<PROP>: store the artefacts as seeded/<PROP>-<suffix>, run the
#   check against that tree (VERIF_REPO), separate evidence directory per check so that several can run side by side
r=$1; s=$2; p=$3; c=${4:-$3}; d=/verif/seeded/$p-$s; mkdir -p $d
cp $r/$p.patch $d/patch.diff; cp $r/$p.demo.md $d/demonstration.md 2>/dev/null; cp $r/$p.meta.json $d/agent_meta.json 2>/dev/null
( cd $r/$p && git diff --quiet && echo "WORKTREE HAS NO CHANGE" )
cd /verif && VERIF_REPO=$r/$p VERIF_EVIDENCE_DIR=/verif/.work/seedev3/$p-$s ./check $c --tier ${5:-quick} > $d/check_output_$c.txt 2>&1; rc=$?
echo "$p-$s $c exit=$rc"; grep -E "^(VIOLATION|OK)|^  C[0-9][0-9]:|^  broken" $d/check_output_$c.txt | head -4 | cut -c1-260
