import json,sys
s=json.load(open('/verif/.work/m/sum.json'))
print({k:s[k] for k in ['lines','mismatches','violations','malformed','distinct','nontrivial']})
for g in s['sigs']: print('  SIG',g['sig'],g['count'])
n=int(sys.argv[1]) if len(sys.argv)>1 else 3
w=int(sys.argv[2]) if len(sys.argv)>2 else 900
for m in s['first_mismatches'][:n]: print('MM',m[:w]);print()
print(s['tags'])
