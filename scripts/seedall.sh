#!/bin/bash
# re-runs every seeded change against its property's check (and extra checks named in meta.json "also"), writes seeded/RESULTS.tsv
cd /verif
[ -n "$SEEDS" ] || : > seeded/RESULTS.tsv
for d in ${SEEDS:-seeded/*/}; do
  n=$(basename $d)
  [ -f $d/patch.diff ] || continue
  props=$(python3 -c "import json;m=json.load(open('$d/meta.json'));print(' '.join([m['property']]+m.get('also',[])))")
  for p in $props; do
    git -C /repo apply /verif/$d/patch.diff || { echo -e "$n\t$p\tPATCH-DOES-NOT-APPLY" >> seeded/RESULTS.tsv; continue; }
    VERIF_EVIDENCE_DIR=/verif/.work/seedev ./check $p > $d/check_output_$p.txt 2>&1; rc=$?
    git -C /repo checkout -- .
    line=$(grep -E "^(VIOLATION|OK)" $d/check_output_$p.txt | head -1 | cut -c1-120)
    sig=$(grep -E "^  C[0-9][0-9]:" $d/check_output_$p.txt | head -2 | sed 's/ x[0-9]*:.*//' | tr '\n' ';')
    echo -e "$n\t$p\texit=$rc\t$line\t$sig" >> seeded/RESULTS.tsv
  done
done
cat seeded/RESULTS.tsv
