#!/usr/bin/env python3
"""Write the prompt given to a fresh sub-agent that seeds a change (see DESIGN.md §10).

  mutprompt.py <round-dir> <kind> [ids...]      kind = break | harmless

The prompt contains the text of ONE property from properties.jsonl, the path of the agent's own scratch worktree and —
so that rounds do not repeat each other — one-sentence summaries of the changes earlier rounds made for that property.
Nothing else from /verif is given to the agent.
"""
import json, os, sys, glob

HERE = os.path.dirname(os.path.abspath(__file__))
ROOT = os.path.dirname(HERE)

def props():
    with open(os.path.join(ROOT, "properties.jsonl")) as f:
        return {p["id"]: p for p in map(json.loads, filter(str.strip, f))}

def earlier(pid):
    out = []
    for d in sorted(glob.glob(os.path.join(ROOT, "seeded", pid + "-agent*"))):
        try:
            out.append(json.load(open(os.path.join(d, "meta.json")))["summary"])
        except Exception:
            pass
    return out

BREAK = """Your task: make ONE small, realistic source change to the Go code of the worktree (the kind of slip that happens in a refactor, an optimisation, a "simplification", an off-by-one, a reordered pair of calls, a dropped check, a wrong comparison, a forgotten branch, a swapped argument, a stale variable, an error that is swallowed, a loop that stops early) that BREAKS this property, such that
  1. the code still compiles:  cd {wt} && GOFLAGS=-mod=mod GOPROXY=off go build ./...
  2. the existing unit tests still pass:  cd {wt} && GOFLAGS=-mod=mod GOPROXY=off go test -vet=off -count=1 ./internal/...   (the package ./tests needs docker and is not part of the suite — ignore it)
  3. the breakage needs something SPECIFIC to manifest — a particular input, configuration, timing, crash point or history — rather than breaking every run (a change that makes everything fail at once is not interesting);
  4. the diff is small (typically 1–15 lines) and looks like something that could pass a hurried code review. Do not add comments that give the bug away. Do not edit tests, docs or build files.
Read the anchored code first so that the change is in the mechanism the property depends on; changes in helper functions the mechanism calls (other files of the same packages) are welcome.

Deliverables (all required):
  a. leave the change applied (uncommitted) in the worktree, and write the diff to {base}.patch   ( cd {wt} && git diff > {base}.patch ) — the patch must contain ONLY the source change, no demo files;
  b. {base}.demo.md : a concrete demonstration that the property is now violated: the specific input / configuration / sequence of events, walked through the changed code line by line, ending in the state or output that contradicts the property; if you can, also a tiny Go test you ran in the worktree that exhibits it (paste its source and output into the file; delete the test file from the worktree afterwards so that the patch stays clean);
  c. {base}.meta.json : {{"property": "{pid}", "summary": one sentence, "files": [...], "trigger": what specific input/timing is needed, "why_tests_pass": one sentence}}.
Finish by confirming that build and unit tests pass with the change applied. In your final message give a 5-line summary of the change and its trigger.
"""

HARMLESS = """Your task: make ONE realistic, behaviour-PRESERVING source change to the Go code the property depends on — the kind of change a maintainer makes every week: extract a helper function, inline one, rename variables, invert an if/else, replace a loop by an equivalent one, reorder two INDEPENDENT statements that have no externally visible effect, rewrite an arithmetic or boolean expression into an equivalent one, add a log line, add an early return that is equivalent, change an internal data structure for an equivalent one.  The property must STILL HOLD after your change, for every input, and the externally visible behaviour of the daemon (the SQL statements it sends to MySQL and the operations it performs on ZooKeeper, their order and their arguments; the files it writes) must be unchanged except possibly for log output.
  1. the code still compiles:  cd {wt} && GOFLAGS=-mod=mod GOPROXY=off go build ./...
  2. the existing unit tests still pass:  cd {wt} && GOFLAGS=-mod=mod GOPROXY=off go test -vet=off -count=1 ./internal/...   (the package ./tests needs docker and is not part of the suite — ignore it)
  3. the diff is 5–40 lines, in the anchored mechanism (not in comments only, not in tests, docs or build files).
Read the anchored code first.

Deliverables (all required):
  a. leave the change applied (uncommitted) in the worktree, and write the diff to {base}.patch   ( cd {wt} && git diff > {base}.patch );
  b. {base}.demo.md : a short argument why behaviour is unchanged (case by case) and the property still holds;
  c. {base}.meta.json : {{"property": "{pid}", "summary": one sentence, "files": [...], "kind_of_rewrite": one phrase}}.
Finish by confirming that build and unit tests pass with the change applied. In your final message give a 3-line summary.
"""

def main():
    rdir, kind, ids = sys.argv[1], sys.argv[2], sys.argv[3:]
    P = props()
    for pid in ids or sorted(P):
        p = P[pid]
        wt, base = f"{rdir}/{pid}", f"{rdir}/{pid}"
        a = p["anchors"]
        mech = "; ".join(f"{m['name']} ({m['where']})" for m in a.get("mechanism", []))
        head = (f"You are a software engineer playing the role of a {'careless-but-plausible' if kind == 'break' else 'careful'} maintainer of the open-source project "
                f"yandex/mysync (a MySQL high-availability daemon in Go). You have your OWN scratch git worktree of the repository at {wt} "
                f"(a detached checkout). Work ONLY inside {wt} and the files {base}.* ; do not read or touch /repo, /verif or any other "
                f"directory (there is verification machinery elsewhere that you must not look at — the point of this exercise is an independent "
                f"change). No network is available.\n\nHere is one semantic property that users of mysync rely on:\n\n"
                f"ID: {pid}\nTitle: {p['title']}\nStatement: {p['statement']}\nQuantifier: {p['quantifier']}\n"
                f"Anchors (files): {', '.join(a.get('files', []))}\nMechanisms: {mech}\n\n\n")
        body = (BREAK if kind == "break" else HARMLESS).format(wt=wt, base=base, pid=pid)
        tail = ""
        if kind == "break":
            prev = earlier(pid)
            if prev:
                tail = ("\n\nIMPORTANT — be original: other engineers already tried the following changes for this property; do NOT repeat "
                        "them or close variants, pick a DIFFERENT clause of the property or a different mechanism / code path:\n" +
                        "\n".join(f'  - "{s}"' for s in prev) + "\n")
        os.makedirs(rdir, exist_ok=True)
        with open(f"{base}.prompt.txt", "w") as f:
            f.write(head + body + tail)
        print(f"{base}.prompt.txt")

if __name__ == "__main__":
    main()
