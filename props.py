"""Registry of the checks: which Lean theorem modules, which harness tests, what is trusted."""

COMMON_TRUSTED = [
    "T1 Lean 4.33 kernel; axioms limited to propext, Classical.choice, Quot.sound (audited by #print axioms on every run)",
    "T3 the correspondence check itself: Go harness (/verif/harness, overlaid into /repo's packages), trace format, Lean replay executable; M is validated against the code by sampling/enumeration, not proved equal to it",
]

PROPS = {
    "C12": {
        "lean": ["MysyncProofs.C12"],
        "go": [("internal/mysql", "^TestVerifC12$")],
        "level": "proof",
        "components": ["MysyncModel/Generated/SwitchHelper.lean (regenerated from internal/mysql/switch_helper.go by /verif/gen)"],
        "trusted": ["T2 the go/ast translator /verif/gen for the whitelisted functions (its output is compared with the Go methods on the whole grid on every run)",
                    "T7 Go int modelled as Int (list lengths and a config value; overflow unreachable)"],
        "rule": "grid n in 0..48 (thorough 0..256) x w in 0..26 (0..130) x SemiSync x p in {0,1,q-1,q,q+1,n,n+1}; distinct = distinct (n,w,ss,p); non-trivial = n >= 2 and w >= 1 (semi-sync really demanded)",
        "exhaustive_note": "the grid is enumerated completely; the unbounded claim is the theorem, the grid validates the translator",
        "assumptions": ["configured count w >= 0 (the property's own quantifier)"],
        "min_lines": 1000,
        "level_text": "Closed-form proof for all list sizes n and all configured counts w >= 0 (omega over the definitions REGENERATED from switch_helper.go on every run, plus a Finset pigeonhole corollary); the translator is validated against the real methods on the full grid. Proof is the right level: the quantifier is all integers.",
        "level_note": "Trusted: Lean kernel (+propext, Classical.choice, Quot.sound), the 300-line go/ast translator (validated per run on the grid), Go int modelled as Int. w < 0 is outside the property.",
        "technique": "Lean 4 proof (omega + Finset pigeonhole) over definitions regenerated from the Go source by a translator",
    },
}

PROPS["C13"] = {
    "lean": ["MysyncProofs.C13"],
    "go": [("internal/mysql/gtids", "^TestVerifC13"), ("internal/app", "^TestVerifC14$")],
    "level": "proof",
    "components": ["MysyncModel/Gtid.lean (intervalSliceMinus, mysqlGTIDSetMinus, GTIDDiff, IsSlaveBehindOrEqual, IsSlaveAhead, IsSplitBrained; go-mysql Contain/Equal/Update/String modelled)",
                   "MysyncModel/Select.lean (findMostRecentNodeAndDetectSplitbrain, detectSplitbrain)"],
    "trusted": ["T6 go-mysql library code is modelled, not verified: MysqlGTIDSet.{Contain,Equal,Update,String}, IntervalSlice.{Normalize,Contain}, ParseMysqlGTIDSet (the harness feeds the PARSED structure to the model and compares every library result too)",
                "two-level map[uuid]map[tag] modelled as one association list keyed by (uuid, tag) (validated on tagged sets)"],
    "rule": "all ordered pairs of GTID sets over small universes (quick: 2 keys x GNO 1-3 and 3 keys incl. a tagged one x GNO 1-2; thorough: 2x4, 3x3, 4x2) exhaustively, random gapped sets over 4 keys x GNO 1-20 with subset/superset/equal bias, random range-written sets with adjacent intervals; all pairs of interval lists over 7 (9) transaction numbers; lists of 0-5 positions (see C14). distinct = distinct input; non-trivial = both sets non-empty (lists: >= 2 positions)",
    "exhaustive_note": "the small universes are enumerated completely; they validate the model, the unbounded claim is the theorem",
    "assumptions": ["sets are what ParseGtidSet produces (normalised, non-empty interval lists): hypothesis WF, checked on every trace record"],
    "min_lines": 20000,
    "level_text": "Theorems for all well-formed GTID sets (any number of uuids, tags, intervals): Contain = set inclusion, behind/ahead, interval subtraction = set difference (two-pointer loop, by induction), GTIDDiff classification, split-brain soundness and completeness, most-recent = maximal element or split brain iff none exists. Correspondence: every function incl. the library ones compared with the model exhaustively on small universes and on random large sets, plus an independent bitset reference.",
    "level_note": "Trusted: Lean kernel; go-mysql's parser/Contain/Equal/Normalize are modelled and differential-checked, not verified; the Go harness and replay tool.",
    "technique": "Lean 4 proof (induction over interval lists / association lists) + exhaustive differential check of the model against the Go functions",
}
PROPS["C14"] = {
    "lean": ["MysyncProofs.C14"],
    "go": [("internal/app", "^TestVerifC14$")],
    "level": "proof",
    "components": ["MysyncModel/Select.lean (getMostPriorityNode, getMostDesirableNode with fuel, filterOutNodeFromPositions)"],
    "trusted": ["T8 float64 lags modelled as Int seconds (the code only compares and subtracts; harness lags are whole seconds)",
                "T6 go-mysql Contain/Equal modelled (see C13)"],
    "rule": "all lists of 0-2 (thorough 0-3) candidates over 4 sets x 4 lags around the bound x 3 priorities x 3 bounds, each with and without a from-host; random lists of 0-5 over 9 sets (chains and incomparable), 7 lags incl. unknown=99999999, priorities 0-3, bounds {0,1,60,100}. distinct = distinct (list, bound, from); non-trivial = at least two candidates",
    "assumptions": ["bound >= 0 (a negative priority_choice_max_lag makes the Go recursion non-terminating; the property excludes it)"],
    "min_lines": 20000,
    "level_text": "Theorems for all candidate lists and all non-negative bounds: termination of the recursion (fuel = length+1 never runs out), membership, error iff empty, never the from-host, top within bound is chosen, otherwise top or much fresher, top has maximal priority, ties prefer superset then lag, equal priorities coincide with most-recent. Correspondence: real getMostDesirableNode/getMostPriorityNode vs model exhaustively for short lists and randomly beyond.",
    "level_note": "Trusted: Lean kernel; float lag arithmetic modelled over Int; harness and replay tool.",
    "technique": "Lean 4 proof (fold invariants, well-founded recursion via fuel) + differential check against the Go functions",
}

_todo = "machinery for this property is not built yet in this round; planned per DESIGN.md §7/§10 (no claim is made until its check exists)"
NOT_APPLICABLE = {("C%02d" % i): _todo for i in range(1, 21)}
