"""Registry of the checks: which Lean theorem modules, which harness tests, what is trusted."""

COMMON_TRUSTED = [
    "T1 Lean 4.33 kernel; axioms limited to propext, Classical.choice, Quot.sound (audited by #print axioms on every run)",
    "T3 the correspondence check itself: Go harness (/verif/harness, overlaid into /repo's packages), trace format, Lean replay executable; M is validated against the code by sampling/enumeration, not proved equal to it",
]

PROPS = {
    "C12": {
        "lean": ["MysyncProofs.C12"],
        "go": [("internal/mysql", "^TestVerifC12$")],
        "level": "proof",
        "components": ["MysyncModel/Generated/SwitchHelper.lean (regenerated from internal/mysql/switch_helper.go by /verif/gen)"],
        "trusted": ["T2 the go/ast translator /verif/gen for the whitelisted functions (its output is compared with the Go methods on the whole grid on every run)",
                    "T7 Go int modelled as Int (list lengths and a config value; overflow unreachable)"],
        "rule": "grid n in 0..48 (thorough 0..256) x w in 0..26 (0..130) x SemiSync x p in {0,1,q-1,q,q+1,n,n+1}; distinct = distinct (n,w,ss,p); non-trivial = n >= 2 and w >= 1 (semi-sync really demanded)",
        "exhaustive_note": "the grid is enumerated completely; the unbounded claim is the theorem, the grid validates the translator",
        "assumptions": ["configured count w >= 0 (the property's own quantifier)"],
        "min_lines": 1000,
        "level_text": "Closed-form proof for all list sizes n and all configured counts w >= 0 (omega over the definitions REGENERATED from switch_helper.go on every run, plus a Finset pigeonhole corollary); the translator is validated against the real methods on the full grid. Proof is the right level: the quantifier is all integers.",
        "level_note": "Trusted: Lean kernel (+propext, Classical.choice, Quot.sound), the 300-line go/ast translator (validated per run on the grid), Go int modelled as Int. w < 0 is outside the property.",
        "technique": "Lean 4 proof (omega + Finset pigeonhole) over definitions regenerated from the Go source by a translator",
    },
}

PROPS["C13"] = {
    "lean": ["MysyncProofs.C13"],
    "go": [("internal/mysql/gtids", "^TestVerifC13"), ("internal/app", "^TestVerifC14$")],
    "level": "proof",
    "components": ["MysyncModel/Gtid.lean (intervalSliceMinus, mysqlGTIDSetMinus, GTIDDiff, IsSlaveBehindOrEqual, IsSlaveAhead, IsSplitBrained; go-mysql Contain/Equal/Update/String modelled)",
                   "MysyncModel/Select.lean (findMostRecentNodeAndDetectSplitbrain, detectSplitbrain)"],
    "trusted": ["T6 go-mysql library code is modelled, not verified: MysqlGTIDSet.{Contain,Equal,Update,String}, IntervalSlice.{Normalize,Contain}, ParseMysqlGTIDSet (the harness feeds the PARSED structure to the model and compares every library result too)",
                "two-level map[uuid]map[tag] modelled as one association list keyed by (uuid, tag) (validated on tagged sets)"],
    "rule": "all ordered pairs of GTID sets over small universes (quick: 2 keys x GNO 1-3 and 3 keys incl. a tagged one x GNO 1-2; thorough: 2x4, 3x3, 4x2) exhaustively, random gapped sets over 4 keys x GNO 1-20 with subset/superset/equal bias, random range-written sets with adjacent intervals; all pairs of interval lists over 7 (9) transaction numbers; lists of 0-5 positions (see C14). distinct = distinct input; non-trivial = both sets non-empty (lists: >= 2 positions) A disagreement between the implementation's set difference and the model's (proved to be the set difference) on a well-formed pair is reported as a violation, not only as a broken tie.",
    "exhaustive_note": "the small universes are enumerated completely; they validate the model, the unbounded claim is the theorem",
    "assumptions": ["sets are what ParseGtidSet produces (normalised, non-empty interval lists): hypothesis WF, checked on every trace record"],
    "min_lines": 20000,
    "level_text": "Theorems for all well-formed GTID sets (any number of uuids, tags, intervals): Contain = set inclusion, behind/ahead, interval subtraction = set difference (two-pointer loop, by induction), GTIDDiff classification, split-brain soundness and completeness, most-recent = maximal element or split brain iff none exists; Normalize (sort + merge) keeps exactly the numbers it was given for ANY interval list and Update is set union (executed ∪ retrieved is an upper bound of both), yields the normal form and keeps sets well-formed, so the relation theorems apply to joined positions. Correspondence: every function incl. the library ones compared with the model exhaustively on small universes and on random large sets, plus an independent bitset reference.",
    "level_note": "Trusted: Lean kernel; go-mysql's parser/Contain/Equal/Normalize are modelled and differential-checked, not verified; the Go harness and replay tool.",
    "technique": "Lean 4 proof (induction over interval lists / association lists) + exhaustive differential check of the model against the Go functions",
}
PROPS["C14"] = {
    "lean": ["MysyncProofs.C14"],
    "go": [("internal/app", "^TestVerifC14$"), ("internal/app", "^TestVerifC01$")],
    "level": "proof",
    "components": ["MysyncModel/Select.lean (getMostPriorityNode, getMostDesirableNode with fuel, filterOutNodeFromPositions)"],
    "trusted": ["T8 float64 lags (seconds) modelled as Int milliseconds (the code only compares and subtracts; harness lags and bounds have at most three decimal places, incl. fractional values around every threshold)",
                "T6 go-mysql Contain/Equal modelled (see C13)"],
    "rule": "(a) the pure functions: all lists of 0-2 (thorough 0-3) candidates over 4 sets x 4 lags around the bound x 3 priorities x 3 bounds, each with and without a from-host; random lists of 0-5 over 9 sets (chains and incomparable), 7 lags incl. unknown=99999999, priorities 0-3, bounds {0,1,60,100}. distinct = distinct (list, bound, from); non-trivial = at least two candidates; (b) on the 1 500 real performSwitchover runs of the C01 harness (all request kinds incl. a request taken up again after the recorded master already moved): the promoted host is never the host the request moves away from",
    "assumptions": ["bound >= 0 (a negative priority_choice_max_lag makes the Go recursion non-terminating; the property excludes it)"],
    "min_lines": 20000,
    "level_text": "Theorems for all candidate lists and all non-negative bounds: termination of the recursion (fuel = length+1 never runs out), membership, error iff empty, never the from-host, top within bound is chosen, otherwise top or much fresher, top has maximal priority, ties prefer superset then lag, equal priorities coincide with most-recent. Correspondence: real getMostDesirableNode/getMostPriorityNode vs model exhaustively for short lists and randomly beyond.",
    "level_note": "Trusted: Lean kernel; float lag arithmetic modelled over Int; harness and replay tool.",
    "technique": "Lean 4 proof (fold invariants, well-founded recursion via fuel) + differential check against the Go functions",
}

PROPS["C18"] = {
    "lean": ["MysyncProofs.C18"],
    "go": [("internal/app", "^TestVerifC18$")],
    "level": "proof",
    "components": ["MysyncModel/App/DiskGuard.lean (repairReadOnlyOnMaster: tally loop, replica counters, decision, low_space write)",
                   "MysyncModel/NodeState.lean (DiskState.Usage comparisons decided exactly)"],
    "trusted": ["T4 fake MySQL statement semantics for SET GLOBAL read_only/super_read_only",
                "T8 float64 usage 100*Used/Total compared exactly for integer percentages (harness reports Total=100)"],
    "rule": "master usage in {none,80,90,91,94,95,96} (thresholds 90/95) x 0-1 (thorough 0-2) replicas over {none,80,92,97} x counted/not x wait count 1-2 x current mode {rw, ro+super, ro} x keep-super switch exhaustively; random cells with up to 3 replicas, stale is_master flag, missing semi-sync state, semi-sync off, failing statements. distinct = distinct cell; non-trivial = a statement is expected or replicas are reported",
    "assumptions": ["thresholds are integer percentages in the harness"],
    "min_lines": 3000,
    "level_text": "Theorems over the model of repairReadOnlyOnMaster for all DCS views (any number of hosts, any map order): read-only iff master critical or too many running semi-sync replicas critical; statement kind and skip condition; writable only if read-only, nothing critical/grey and a normal replica exists; grey zone untouched; low_space follows; order independence of the tally. Correspondence: the REAL function runs against the fake master for every cell; statements and the low_space write are compared with the model's decision.",
    "level_note": "Trusted: Lean kernel; fake server semantics for the three read_only statements; harness/replay.",
    "technique": "Lean 4 proof over a decision model + exhaustive/random differential check of the real function against fake servers",
}

PROPS["C17"] = {
    "lean": ["MysyncProofs.C17"],
    "go": [("internal/app", "^TestVerifC17$")],
    "level": "proof",
    "components": ["MysyncModel/App/Offline.lean (repairSlaveOfflineMode, repairMasterOfflineMode, the three offline filters, getAvailabilityZone, the pass accumulator, the broken-replica rate limiter)"],
    "trusted": ["T4 fake MySQL semantics for offline_mode and startup-time statements", "T8 lags (float seconds in the code) carried as Int milliseconds, thresholds scaled alike; floor(100*x/total) modelled by Int division"],
    "rule": "random scenarios over 6 replicas in 3 zones x 14 percentages x 4 separators x 8 lag values around both thresholds x offline/online x broken x 5 resetup-status cases x 4 last-shutdown ages x failing statements; half call the inner function host by host with one shared pending map (exact action comparison), half run the whole real loop in Go map order (order-free monitors: eligibility, exact per-zone count allowed by the accumulating cap). distinct = distinct record; non-trivial = at least one action Lags in milliseconds with fractional values around both thresholds; whole passes include permanently broken replicas with an old or recent shutdown record (at most one taken offline per pass, none inside the interval).",
    "assumptions": ["virtual time does not advance inside one pass (fake servers answer instantly)"],
    "min_lines": 2000,
    "level_text": "Theorems over the model for all cluster states, all visiting orders, all percentages/separators: offline only if conditions + filter; cap respected incl. same-pass accumulation (induction over the pass); pct<=0 never, pct>=100 always; online only if; hysteresis; unknown lag untouched; broken rate limit; master kept online unless marked. Correspondence: the REAL repairSlaveOfflineMode/repairOfflineMode against fake servers and DCS.",
    "level_note": "Trusted: Lean kernel; fake server/DCS semantics; harness/replay.",
    "technique": "Lean 4 proof (fold invariant over the pass) + differential check of the real functions against fakes",
}

PROPS["C16"] = {
    "lean": ["MysyncProofs.C16"],
    "go": [("internal/app", "^TestVerifC16"),
           # the observation layer: the real getNodeState against the model Observe.lean (the cascade flag must survive every failed probe)
           ("internal/app", "^TestVerifObs$")],
    "level": "proof",
    "components": ["MysyncModel/App/Cascade.lean (findBestStreamFrom with explicit nil-dereference outcomes, repairCascadeNode as a decision over its call results)",
                   "MysyncModel/NodeState.lean (countHANodes, countRunningHASlaves, countAliveHASlavesWithinNodes, getDubiousHAHosts)",
                   "MysyncModel/GtidParse.lean (text form of GTID sets)"],
    "trusted": ["T4 fake MySQL semantics for STOP/START REPLICA, CHANGE REPLICATION SOURCE, SHOW REPLICA STATUS", "T6 GTID text parser modelled"],
    "rule": "findBestStreamFrom: ALL 343 stream_from maps over three cascade hosts with values in {absent, master, HA replica, c1, c2, c3, unregistered} x self x 12 (thorough 60) random health patterns (6 kinds per ancestor), plus malformed maps/cluster states; repairCascadeNode: random scenarios over replication state (running/stopped/temp error/permanent error/unknown) x current upstream x configured source incl. self and empty x ancestor health x GTID relation (behind/equal/ahead/diverged) x failing stop/change/uuid/status calls x timer. distinct = distinct record; non-trivial = configured source is set and is not the master (bsf) / some action taken (repair); plus 3000 observations of one server by the REAL getNodeState with one failing probe (error / dubious error / time-out, optionally the second ping failing too) x cascade or HA registration The topology is read through the real fetch; in a sixth of the repair runs one cascade record cannot be read (then nothing may be repaired).",
    "assumptions": ["a stream_from that names an unregistered host is a nil dereference in the code (reported under C20); theorems state the exact condition"],
    "min_lines": 10000,
    "level_text": "Theorems over the model for all finite topology maps incl. cycles and self-references: termination (fuel never runs out, pigeonhole over the map's values), never self, configured source when healthy or already streamed, nearest healthy ancestor else master, no panic when every source is registered; guarded move (fresh GTID read precedes, contained in candidate's snapshot, never when ahead/split-brained, never to itself); HA counters ignore cascade hosts. Correspondence: REAL findBestStreamFrom on all maps and REAL repairCascadeNode against fake servers.",
    "level_note": "Trusted: Lean kernel; fake server semantics; GTID parser model; harness/replay.",
    "technique": "Lean 4 proof (well-founded recursion via fuel + pigeonhole; decision-tree case analysis) + exhaustive differential check of the real functions",
}

_MGR_COMPONENTS = ["MysyncModel/App/Manager.lean (stateManager control skeleton, approveFailover, approveSwitchover, request bookkeeping; sub-procedures abstract)",
                   "MysyncModel/Generated/SwitchHelper.lean (regenerated quorum helpers)", "MysyncModel/NodeState.lean (HA counters)"]
_MGR_TRUSTED = ["T4 fake MySQL statement semantics; interface-level fake DCS (create-if-absent, set, delete, children)",
                "the observer that maps the event log of an iteration to the model's step vocabulary (harness/app/manager_test.go mgrObserve); log-only steps are not compared",
                "T9 manager_switchover off, external replication off, dev_mode off", "E8 one clock (virtual time of the synctest bubble)"]
PROPS["C05"] = {
    "lean": ["MysyncProofs.C05"],
    "go": [("internal/app", "^TestVerifC05$")],
    "level": "proof",
    "components": _MGR_COMPONENTS,
    "trusted": _MGR_TRUSTED,
    "rule": "random multi-tick histories (1-3 real stateManager iterations separated by 0/5/29/30/31 s of virtual time) over: 2-4 nodes, semi-sync on/off, w 1-2, failover on/off, delay 0/30 s, resetup on/off, master health record {ok, missing, ping failed, read-only fs, crash recovered} per tick, master reachable or not per tick, replicas {running, stopped, dead}, active list {full, master only, partial, absent}, maintenance {none, light acked/unacked, unreadable +- marker file}, pending request {none, failover-type, auto, unreadable}, last switch {none, auto 10 min / 2 h / exactly cooldown ago, manual, in progress, unreadable}, lock held/lost/disconnected, lost reply of the create, unregistered recorded master. distinct = distinct tick record; non-trivial = the iteration took at least one observable step; master health per tick incl. 'crash-recovered earlier and failing now'; the harness records since when the published record has been bad at every tick (ground truth for the delay gate)",
    "assumptions": ["E8: cooldown/delay time stamps come from one clock"],
    "min_lines": 2000,
    "level_text": "Theorems over the model of one manager iteration for ALL inputs: a failover request is filed only if every gate of the property is open (GatesOpen is written from the property text), it is the last step, the failure clock keeps the first bad evaluation of an unbroken bad run (history theorem by list induction), a suspicious master is inert. Correspondence: the REAL stateManager over multi-tick histories with virtual time hitting the delay/cooldown boundaries exactly; the gates are also evaluated as a monitor on every real filing.",
    "level_note": "Trusted: Lean kernel; fake MySQL/DCS; the step observer; sub-procedures of the iteration are abstract steps here (modelled under C04/C01/C10).",
    "technique": "Lean 4 proof over a decision-tree model of the manager iteration + differential check of the real stateManager with virtual time",
}
PROPS["C06"] = {
    "lean": ["MysyncProofs.C06"],
    # the failover-heavy iterations of the C05 sweep are where a request gets FILED (create-if-absent under a racing initiator)
    "go": [("internal/app", "^TestVerifC06$"), ("internal/app", "^TestVerifC05$")],
    "level": "proof",
    "components": _MGR_COMPONENTS + ["MysyncModel/App/SwitchLifecycle.lean (switch / last_switch / last_rejected_switch as a state machine: file, abort, manager tick)"],
    "trusted": _MGR_TRUSTED,
    "rule": "random multi-tick histories of the real stateManager with a pending request {manual switchover to a host, operator-forced failover, automatic failover} x age {now, 30 min, 31 min, zero initiated_at} x run_count 0-2 x max attempts {0,1,2,60} x real performSwitchover outcome {success, target refuses read-only, operator abort in the middle} x failing 'set switch' x light maintenance; every write/delete of the three keys is observed. distinct = distinct tick; non-trivial = an observable step; requests incl. worker requests without master_transition; attempts that fail after an operator abort; rejection inside the procedure; active list naming a removed host Plus a second initiator that files a request between the iteration's read of the request key and its own filing (a fifth of the runs), here and in the failover-heavy C05 sweep, which this check runs too.",
    "assumptions": ["coordination calls of the manager succeed (their failure is C07's subject), except the injected failing StartSwitchover write"],
    "min_lines": 1500,
    "level_text": "Theorems over the request state machine for all inputs: no overwrite (create-if-absent), time-out bound, attempt bound, approved once, each failure counted once, exactly one terminal outcome per iteration, only the lock holder touches a request, success needs a successful procedure, planned switchovers leave 'switch' within max-run_count+1 iterations. The time-out clause was FALSE on the pinned tree (FailSwitchover re-queued the request for ever) and was repaired by a fix: commit (known_findings.json). Monitors on the real code: pending past time-out / attempt limit, re-judged retry, miscounted failure, filing over a pending request, 'succeeded' without the recorded master being the promoted writable node.",
    "level_note": "Trusted: Lean kernel; fake MySQL/DCS; step observer; performSwitchover is abstract in this model (its outcome is an input), its own guarantees are C01.",
    "technique": "Lean 4 proof over a state-machine model of the request keys + differential check of the real stateManager/performSwitchover bookkeeping",
}
PROPS["C09"] = {
    "lean": ["MysyncProofs.C09"],
    "go": [("internal/app", "^TestVerifC09")],
    "level": "proof",
    "components": _MGR_COMPONENTS + ["MysyncModel/App/Maintenance.lean (stateCandidate, stateMaintenance, stateFirstRun, tryLeaveMaintenance, leaveMaintenance, enterMaintenance, getMasterHost)"],
    "trusted": _MGR_TRUSTED,
    "rule": "manager ticks under every maintenance record kind {light acked/unacked/should-leave, full acked/unacked, unreadable +- marker file} x pending requests x failing acknowledgement; handler runs (stateMaintenance / stateCandidate / stateFirstRun) after operator moves {none, master moved by hand, two masters, no alive master, dead replica, everybody a replica} x record kinds x lock x marker file x coordination outage. distinct = distinct record; non-trivial = an action was taken",
    "assumptions": ["hypothesis Observed: the cluster-level 'no process acts' statement is per daemon that has observed the acknowledged record; a daemon that loses the coordination service before observing it may still fence its LOCAL node (C08) - DESIGN §8-F"],
    "min_lines": 3000,
    "level_text": "Per-daemon theorems for all inputs: a manager reading an acknowledged full-maintenance record (or an unreadable one with the marker file) does nothing and pauses; entering only acknowledges; the paused handler is inert until a leave request; restart without coordination service stays paused; candidates follow only after acknowledgement and never for light mode; light mode never files a failover, parks failover-type requests, keeps planned switchovers and repairs; leaving succeeds iff exactly one alive master (recorded master := it, non-empty rebuilt list), otherwise mode kept, several masters raise the marker. Monitors on the real handlers: statements / master / active_nodes writes while paused, leave conditions against ground truth.",
    "level_note": "Trusted: Lean kernel; fakes; observer. The repair pass and list rebuild inside leaveMaintenance are abstract steps here (C10/C04).",
    "technique": "Lean 4 proof over decision models of the handlers + differential check of the real handlers with operator moves",
}

PROPS["C08"] = {
    "lean": ["MysyncProofs.C08"],
    "go": [("internal/app", "^TestVerifC08$")],
    "level": "proof",
    "components": ["MysyncModel/App/Lost.lean (stateLost, checkHAReplicasRunning incl. the local host in its own probe list, outcome classes of SetReadOnlyWithForce / IsWaitingSemiSyncAck / stopReplicationOnMaster as inputs)"],
    "trusted": ["T4 fake MySQL semantics (read_only, offline_mode, semi-sync variables, PROCESSLIST/KILL, lock wait timeout 1205, hanging statements)",
                "E8 virtual clock; probe time-outs take db_lost_check_timeout of virtual time"],
    "rule": "random 1-3 tick histories of the REAL stateLost with sleeps {0,24,25,26,29,30,31 s} (the 5 s probe time-out puts 25 s exactly on the 30 s delay) over: cluster size 1-4, local role {master, replica, non-HA host}, semi-sync on/off, wait count 1-2, per-replica condition {streaming, stopped, wrong source, not semi-sync, refusing, timing out}, fencing disabled, reconnect, read-only outcome {ok, 1205 for ever, deadline, other error, 1205 until semi-sync is off}, stuck-ack visible/not/unreadable, failing offline / semi-sync-off, failing local semi-sync status. distinct = distinct tick; non-trivial = the node was fenced Every third world has a registered cascade replica (not an HA node).",
    "assumptions": [],
    "min_lines": 2500,
    "level_text": "Theorems over the model for all inputs: reconnect -> candidate; exempt (single node, non-HA, disabled, live group) changes nothing; postponement only while some replica is UNREACHABLE and only within the delay from the first such iteration; refusing replicas never postpone; fenced after the delay; fencing = read-only request to the local node (forced on a master); stuck-commit handling order; semi-sync off / offline only in that case; timer cleared when safe. The model's action alphabet has no promotion / re-point / un-fence. Monitors on the real code: any remote statement or coordination write, un-fencing, fencing although exempt, not fencing without entitlement to postpone.",
    "level_note": "Trusted: Lean kernel; fake server semantics; harness/replay.",
    "technique": "Lean 4 proof over a decision model of stateLost + differential check of the real handler with virtual time",
}

PROPS["C04"] = {
    "lean": ["MysyncProofs.C04"],
    # "the list never contains hosts marked for recovery, even when an iteration is cut short": the marking itself happens in the
    # switchover procedure and in the stale-master repair (C01's and C10's harnesses, C04-prefixed monitor)
    "go": [("internal/app", "^TestVerifC04$"), ("internal/app", "^TestVerifC01$"), ("internal/app", "^TestVerifC10$")],
    "level": "proof",
    "components": ["MysyncModel/App/ActiveNodes.lean (calcActiveNodes incl. the NodeFailedAt timers, calcActiveNodesChanges incl. calcLagBytes and slaveReadPositions, updateActiveNodes in both adjust orders as a sequential procedure with a failure oracle, canShrinkActiveNodes, adjustSemiSyncOnMaster, enable/disableSemiSyncOnSlave, the semi-sync world with invariants (a) and (b))",
                   "MysyncModel/Generated/SwitchHelper.lean (regenerated)", "MysyncModel/GtidParse.lean, Gtid.lean"],
    "trusted": ["T4 fake MySQL semantics of the semi-sync variables (SET GLOBAL rpl_semi_sync_*), replication thread statements, SHOW BINARY LOGS",
                "observer c04trace mapping statement groups to the model's call vocabulary", "interface-level fake DCS"],
    "rule": "random transitions of a 2-6 node cluster (incl. an optional cascade replica): per replica {member or not before, semi-sync flag on/off} x situation {healthy, behind/equal/ahead, dead < delay, dead >= delay, dead without timer +- health lock, dubious, stopped, error, diverged, lost master, download lag with/without IO progress, marked for recovery} x master semi-sync state consistent or not with the old list x both adjust orders x configured count 1-3 x semi-sync off x a single failing call (9 statement kinds, either master ping) x failing publication / recovery listing. (a) and (b) are evaluated on EVERY PREFIX of the real call trace in the Lean semi-sync world (a crash point is a prefix). distinct = distinct record; non-trivial = the procedure issued at least one call Plus (C04-prefixed monitor \"a host marked for recovery is not left in the published list, whatever cut the iteration short\") the real switchovers of C01's harness and the repair passes of C10's harness, where a failing list update hits the marking of a stale master.",
    "assumptions": ["E1 exclusive control: only mysync changes semi-sync variables"],
    "min_lines": 2500,
    "level_text": "Theorems over the model: membership rule (who can be a member, never adds unreachable hosts, master always), download-lag gate, eviction needs a successful master ping, nothing on a failed first ping, publication last, failed enables are not published, (a)/(b) after a complete fault-free iteration (partial: (b) without data-lagging replicas). The crash-point / failed-call clause is FALSE on the pinned tree: five classes of breaker sites are proved as machine-checked witnesses in the model, reproduced on the real code by the prefix monitor, and recorded in known_findings.json (design-level, not patched). Any OTHER destruction of (a)/(b), any membership violation, any eviction without ping and any deviation of the real call trace from the model is an alarm.",
    "level_note": "Trusted: Lean kernel; fake server/DCS semantics; the trace observer. Known findings are matched by signature (invariant, breaker class), so a different breaker is still reported.",
    "technique": "Lean 4 proof + machine-checked counter-witnesses over a procedure model with failure oracle; prefix-closed invariant monitor on real traces",
}

PROPS["C01"] = {
    "lean": ["MysyncProofs.C01"],
    "go": [("internal/app", "^TestVerifC01$")],
    "level": "proof",
    "components": ["MysyncModel/App/Switchover.lean (performSwitchover at phase level: every external outcome an oracle input, crash = prefix; CheckAsyncSwitchAllowed)",
                   "MysyncModel/World/Env.lean (environment steps; E3 frozen totals is a lemma)", "MysyncModel/Select.lean, Gtid.lean (positions, most recent / split brain, desirable node)",
                   "MysyncModel/Generated/SwitchHelper.lean (regenerated quorum check)"],
    "trusted": ["T4 fake MySQL semantics (read_only, replication threads, CHANGE REPLICATION SOURCE, RESET REPLICA ALL, GTID progress when IO/SQL threads run)",
                "E1 exclusive control; E2 restart state", "the observer c01observe (event log -> phase steps); only SUCCESSFUL steps and lock re-checks are compared, oracle inputs are recovered from the recorded results, tie-breaks between equal positions are resolved by trying all arrival orders",
                "T9 force_switchover off, external replication off; the speed-up phase is abstract here (C19)"],
    "rule": "random real performSwitchover runs: 2-5 nodes, semi-sync (w 1-2) / plain / async mode, GTID histories with two source uuids, gaps, executed behind by 0-20 with retrieved-but-unapplied tails, diverged replicas, lags around the priority bound, priorities 0-2; request kinds {to a host, from the master, automatic failover, operator-forced failover, worker without transition}; master dead or hanging from the start, replicas dead, published list with or without the last host; one of: a failing/hanging/lost-reply statement (13 kinds, 1st or 2nd occurrence, any host), a node killed when a given statement kind first arrives, a scripted lock loss at the 1st/2nd re-check, a failing/lost coordination write. Ground-truth snapshots of all servers are taken at the first lock re-check and whenever SET GLOBAL read_only=0 arrives. distinct = distinct run; non-trivial = more than two observable steps; request kinds incl. automatic failover taken up again after the master key moved (`from` is no longer the recorded master); 60 % semi-sync / 20 % async mode with the allowed-lag exception (candidates with a broken SQL thread, varied repl_mon delay) / 20 % neither Since the round-3/4 seeded changes: a sixth of the runs have a slow server or a latency blip (servers and coordination service), a quarter of the replicas apply their relay log only seconds after the freeze (received ≠ applied while a lag is reported), a quarter of the runs start with leftovers in the optimisation registry, every second coordination tree carries old parent nodes, 20 s of settling time after the procedure returns.",
    "assumptions": ["E3 is proved in the environment model; that the fake servers implement it (a read-only server with stopped IO thread does not grow executed+retrieved) is part of T4"],
    "min_lines": 1000,
    "level_text": "Theorems for all oracle inputs (= all combinations of failing calls, all cluster shapes, all request kinds) and all crash prefixes: before any promotion the quorum re-count of FROZEN hosts against the published list passed, both lock re-checks passed in the right places, exactly the frozen hosts' positions were collected and have a maximum, the new master caught up (or the async escape, which needs async mode + automatic cause + positive allowed lag); semantic core promotion_safe: every frozen host's executed+retrieved set is contained in the promoted node's executed set (via the C13 maximal-element theorem and transitivity), with E3 proved as an environment lemma; promotion_safe_joined states it for the servers' own executed and retrieved sets (position = Update of the two, proved to be their union and well-formed); split brain aborts with the marker and nothing promoted; marker only on split brain. Monitors on real runs evaluate PromotionOK on ground-truth snapshots at the moment read_only=0 arrives.",
    "level_note": "Trusted: Lean kernel; fake server semantics; observer; tie-break search. The link 'collected position = ground-truth total' is checked by the monitor on every run, assumed (hpos/hcaught) in promotion_safe.",
    "technique": "Lean 4 proof over a phase-level oracle model (crash = prefix) + environment lemma + differential check and ground-truth promotion monitor on fault-injected real runs",
}

PROPS["C11"] = {
    "lean": ["MysyncProofs.C11"],
    "go": [("internal/app", "^TestVerifC11$"), ("internal/app", "^TestVerifC01$"),
           # 'while marked it is never in the published active list': every list the real updateActiveNodes publishes (C04's harness, C11-prefixed monitor)
           ("internal/app", "^TestVerifC04$"), ("internal/app", "^TestVerifC10$")],
    "level": "proof",
    "components": ["MysyncModel/App/Recovery.lean (checkRecovery incl. the stuck-commit timer, isSlavePermanentlyLost, SetRecovery write order, stale-master repair)",
                   "MysyncModel/App/Switchover.lean (marking before promotion)", "MysyncModel/App/ActiveNodes.lean (exclusion of marked hosts from the list)", "MysyncModel/GtidParse.lean, Gtid.lean"],
    "trusted": ["T4 fake MySQL semantics; fake DCS", "T6 GTID text parser modelled"],
    "rule": "REAL checkRecovery over: marked / not, resetup file, local status {running, stopped, error, not a replica, unreadable} x relation to the master's set {behind, equal, ahead, diverged} x read-only / not / unreadable x stuck commit {no, yes, unreadable} x stuck timer age {0, 30, 59, 60, 61 s} x recorded master {other host, this host, unregistered, absent} x failing master GTID read x failing clear; plus the C01 runs (old master marked before promotion unless confirmed clean by the procedure's own evidence). distinct = distinct record; non-trivial = an action was taken Plus the repair passes of C10's harness (a host claiming to be master beside the recorded one is marked in the same pass, whatever statement failed).",
    "assumptions": [],
    "min_lines": 4000,
    "level_text": "Theorems for all inputs: old master marked before promotion whenever not confirmed clean against the most recent position; stale master is fenced, re-pointed and marked in one pass; SetRecovery publishes the list without the host first; marked hosts are never members of a computed list (unless recorded master) and the promoted host is always listed; the mark is cleared only for a read-only replica not in error whose set is contained in the master's (set-level corollary via C13); ahead/error => resetup marker and mark kept; inert when unmarked or resetup pending. Monitors on the real code for the same clauses.",
    "level_note": "Trusted: Lean kernel; fakes; parser model. The panics the model predicts for an unregistered recorded master / stuck ex-master that is still recorded master are C20's subject.",
    "technique": "Lean 4 proof over decision models + differential check of the real checkRecovery / performSwitchover",
}
PROPS["C19"] = {
    "lean": ["MysyncProofs.C19"],
    "go": [("internal/app", "^TestVerifC19$"), ("internal/app", "^TestVerifC01$")],
    "level": "proof",
    "components": ["MysyncModel/App/Optimization.lean (Syncer.Sync: classification, disableNodes, balanceToSingleNode, syncNodeOptions as a procedure with failure oracle over a registry+settings world; Controller.DisableAll; isOptimizedDuringWaiting)",
                   "MysyncModel/Generated/ReplSettings.lean (Equal, CanBeOptimized regenerated from node.go)"],
    "trusted": ["T4 fake MySQL semantics of the two durability variables; fake DCS registry", "T2 translator for ReplicationSettings.Equal / CanBeOptimized",
                "observer c19trace (statement pairs -> restore / relax)"],
    "rule": "1-3 consecutive REAL Syncer.Sync calls over registries of 0-7 entries (five replicas, the master itself, a host that is no longer a cluster host) x status new/enabled x lag {unknown, 0, 59, 60, 119, 120, 500} x settings equal / relaxed x master with non-default settings x view without an entry x one failing call {either SET, settings read, registry delete}; plus every promotion of the C01 runs (ground-truth settings and registry when read_only=0 arrives). distinct = distinct record; non-trivial = at least one call",
    "assumptions": ["the view handed to Sync agrees with the servers (hypothesis Consistent)"],
    "min_lines": 2500,
    "level_text": "Theorems: at most one registered host differs from the master's settings after a fault-free sync; drop only after restore (any failing call, any prefix); failing restore drops nothing; lost / converged hosts are restored and dropped; at most one host relaxed per sync; DisableAll restores then drops and is complete; Wait's test returns at once unless status=enabled. The switchover clause was FALSE on the pinned tree (replica promoted relaxed and registered; reproduced 31/1500 runs) and was repaired by a fix: commit; it is now enforced by the promotion monitor.",
    "level_note": "Trusted: Lean kernel; fakes; observer; translator. The goroutine race of the speed-up phase itself is runtime behaviour: the fix joins the goroutine, the monitor checks the outcome on real concurrent runs in virtual time.",
    "technique": "Lean 4 proof over a procedure model with failure oracle + differential check of the real Syncer; ground-truth promotion monitor",
}

PROPS["C10"] = {
    "lean": ["MysyncProofs.C10"],
    "go": [("internal/app", "^TestVerifC10$"),
           # the master's semi-sync setting is brought to what the list implies by updateActiveNodes: C04's harness, C10-prefixed monitor
           ("internal/app", "^TestVerifC04$")],
    "level": "proof",
    "components": ["MysyncModel/App/Repair.lean (repairSlaveNode non-cascade part, performChangeMaster as one action, TryRepairReplication / MarkReplicationRunning / getSuitableAlgorithmType / cooldownPassed, finite abstraction absPass for convergence)",
                   "replay monitors on the real statement log: unregistered host, self-pointing, recorded master written, reset without entitlement, re-pointing elsewhere than the recorded master, convergence on fault-free 6-pass runs"],
    "trusted": ["T4 fake MySQL semantics of replication threads / errors (ClearErrOnStart = the environment's answer to START REPLICA)",
                "observer c10pass (statement log -> per-host action list)",
                "the finite abstraction Abs of one node (attempt budget abstracted to five classes; the unbounded budget is covered by the ranking-function theorems attempt_uses_budget / attempts_total_bounded)"],
    "rule": "1-6 consecutive REAL repair passes (repairOfflineMode + repairCluster) of a manager over 3-4 node worlds with decoy unregistered servers: replicas stopped / in temporary error / in permanent error / pointing to another host / claiming master / writable / offline, aggressive mode on-off, attempt limits 1-3, cooldown elapsed or not, one failing call per run in a quarter of the runs (faulted hosts are skipped by the comparison, not by the monitors). distinct = distinct record; non-trivial = at least one repair action Since the round-3/4 seeded changes: the manager runs on the master or on a replica; a host (also the manager's own) is taken out of the registry between two passes; a third of the faulty runs have a statement that fails EVERY time (error or lost reply); temporary SQL errors come back on every start in half of the cases; a focused family (aggressive mode, recurring error, lost replies inside the reset method, 8-11 passes); the resets the server executed are counted per host against attempt limit and cooldown.",
    "assumptions": ["cascade replicas are C16; master un-fencing is C17/C18", "convergence is claimed for fault-free passes with the cooldown elapsing between them (the property's own premise: 'in the absence of further faults')"],
    "min_lines": 1500,
    "level_text": "Theorems: re-point only to the recorded master and never to itself; configuration reset only if aggressive, non-permanent error, start attempts exhausted, reset attempts left, cooldown passed; permanently broken replication untouched; counters bounded and every attempt counted once; cooldown between attempts; stale master fenced, re-pointed and marked in one pass; ranking function for ANY attempt limit (at most budgetLeft attempts ever); convergence of the finite per-node abstraction to canonical-or-sink within four passes (whole table), canonical state stable.",
    "level_note": "Trusted: Lean kernel; fakes; observer; the per-node abstraction (tied to the code by the convergence monitor on real multi-pass runs). 'Never changes the recorded master' and 'never talks to an unregistered host' are facts about the action alphabet: enforced on the real code by monitors, not theorems.",
    "technique": "Lean 4 proof over a decision model + finite abstraction; differential check of real repair passes with raw-statement monitors",
}

_ZK_COMPONENTS = ["MysyncModel/Dcs/Zk.lean (ZooKeeper primitives: create/getData/setData/delete/getChildren with versions, ephemeral owners, session open/expiry; zkDCS.create/set/Get/Delete/GetChildren/makePath/AcquireLock/ReleaseLock/buildFullPath as programs over them)",
                  "MysyncModel/Replay/Zk.lean (history replay: every primitive of the fake ensemble against the model server, every client operation against the model program, lock cache, GetTree against a spec function)"]
_ZK_TRUSTED = ["T5 fake ZooKeeper ensemble (jute protocol over net.Pipe; create/delete/set error precedence as in ZooKeeper 3.x PrepRequestProcessor) — validated line by line against the model server, not against a real ZooKeeper (none available offline)",
               "go-zookeeper v1.0.4 is the REAL client library (sessions, reconnects, request queue); NewZookeeper's host provider / TLS / auth set-up is replaced by a hand-built zkDCS (same struct, same event goroutine)",
               "virtual time (testing/synctest) for the cache TTL, backoff and session time-outs"]
_ZK_RULE = ("histories of 8-27 operations by 1-3 REAL zkDCS clients on one fake ensemble: the ten operations over 8 keys with redundant-slash spellings and 5 value shapes; "
            "three modes: whole operations one after another / primitive-level interleaving chosen by the driver at a gate (with replies lost or requests dropped: 6%) / lock-only (acquire-release by 2-3 clients); "
            "between steps: session expiry after a cut (E5-respecting), connection cuts, short outages, values written behind mysync's back (unparsable, empty, foreign lock record); cache TTL 0 / 2 s / 30 s; one history in 12 with two clients of the same identity. "
            "distinct = distinct history; non-trivial = more than 3 operations and more than 5 primitives")

PROPS["C15"] = {
    "facts": ["NewZookeeper"],
    "lean": ["MysyncProofs.C15"],
    "go": [("internal/dcs", "^TestVerifC15$")],
    "level": "proof",
    "components": _ZK_COMPONENTS,
    "trusted": _ZK_TRUSTED,
    "rule": _ZK_RULE,
    "assumptions": ["whole-operation clauses are stated for an operation that runs with no other client in between; what holds under any interleaving is stated on the server steps (owner never changes, ephemerals belong to live sessions, well-formedness) and for set's version check",
                    "with at-least-once retries (reply lost, request re-sent by the wrapper) create can answer 'exists' for the caller's own earlier attempt: the key does exist at that moment (observation, DESIGN.md)"],
    "min_lines": 250,
    "level_text": "Theorems: path normal form (key depends only on the non-empty pieces; canonical spelling), tree well-formedness preserved by every primitive / expiry / session open, owner of an entry never changes (never silently ephemeral), ephemeral lifetime and re-creation by a later session, create-exists iff present, create/set/delete/get/children contracts, set creates every missing ancestor, lost update detected by the version check.",
    "level_note": "Trusted: Lean kernel; fake ensemble (T5); go-zookeeper is real code under test, not trusted. GetTree is checked against a spec function by the replay only (no theorem).",
    "technique": "Lean 4 proof over a server model + client programs as interaction trees; differential replay of real zkDCS histories (primitive-level interleavings in virtual time)",
}

PROPS["C03"] = {
    "facts": ["NewZookeeper"],
    "lean": ["MysyncProofs.C03", "MysyncProofs.C03Timing"],
    "go": [("internal/dcs", "^TestVerifC15$"), ("internal/app", "^TestVerifC05$"),
           # the two lock re-confirmations inside the switchover are observed on the real procedure (monitors C03:promotion-without-both-lock-reconfirmations, C03:lock-not-reconfirmed-after-the-freeze)
           ("internal/app", "^TestVerifC01$")],
    "level": "proof",
    "components": _ZK_COMPONENTS + ["MysyncModel/Dcs/LockSys.lean (N clients, one lock: global small-step system over the SAME programs, arbitrary interleaving, expiry, reconnect, cache with any TTL, lost replies and blind re-sends)",
                                    "MysyncModel/App/Manager.lean (stateManager: no lock, no step)"],
    "trusted": _ZK_TRUSTED + ["E5 (the server ends a session only after its client noticed the loss and while none of its operations is in flight) is an ASSUMPTION of told_true_means_holder / release_removes_only_own_lock: go-zookeeper's receive time-out (2/3 of the session time-out) vs. server expiry is runtime behaviour the model cannot exhibit; the counter-models without E5 are machine-checked",
                              "manager harness fakes (T4) for clause (ii)"],
    "rule": _ZK_RULE + "; plus every manager iteration of the C05 runs (lock held / not held / disconnected x all inputs) for 'only the holder acts' (monitors C03:action-without-lock, C03:cluster-wide-write-without-lock), plus every switchover run of the C01 harness (lock lost at either re-confirmation; monitors C03:promotion-without-both-lock-reconfirmations, C03:lock-not-reconfirmed-after-the-freeze)",
    "assumptions": ["distinct {hostname,pid} identities", "E5 for the first clause (partial: see level_note)",
                    "nobody but AcquireLock / ReleaseLock writes the lock key"],
    "min_lines": 2000,
    "level_text": "Theorems over the N-client system, all interleavings, any TTL: every 'true' (fresh or cached) goes to the process that holds the lock at that instant; the holder is unique; after a session loss no cache entry and not holder; ReleaseLock only ever deletes its own lock (true only since the fix: commit found by this check — every attempt re-reads the owner); TTL 0 never answers from the cache; an iteration without the lock takes no step; the maintenance handler leaves the mode (master key, repair, active list) only when told it holds the lock; the candidate handler only changes state. Counter-models without E5 (stale cache, delete sent on a later session) and the pre-fix blind re-sent delete are kernel-checked.",
    "level_note": "PARTIAL for the real-time part: whether a deployment satisfies E5 is decided by timers (client receive time-out vs. server-side expiry, process pauses), which no executable model exhibits. Clause (ii) for states other than Manager is enforced by monitors on real runs (action alphabet), not by a theorem.",
    "technique": "Lean 4 invariant proof over a global small-step system built from the programs that are differentially checked against the real client; monitors for ownership on real histories",
}

_SIM_COMPONENTS = ["harness/app/sim_test.go: N REAL daemons (real state handlers stateFirstRun/Manager/Candidate/Lost/Maintenance, real healthChecker / recoveryChecker / replicationLagChecker / stateFileHandler loops) in one virtual-time bubble over fake MySQL servers (wire protocol, replication, semi-sync acknowledgement, slave_net_timeout, restart configuration of the project's images) and an interface-level fake coordination service with sessions, ephemerals and the manager lock; per-daemon network identity (partitions), process death at a chosen external call, client workload that tries to write on every node each 0.5 s and places acknowledged transactions on exactly wait_for_slave_count replicas",
                   "MysyncModel/Proto/Cluster.lean (verdict predicates canonical / ackedPreserved, evaluated by the Lean replay on the ground truth of the fake servers; GTID containment is the verified one of C13)"]
_SIM_TRUSTED = ["T4 fake MySQL semantics incl. semi-sync acknowledgement rule and restart state; fake coordination service at interface level (the real zkDCS is covered by C15 / C03; it cannot be used here because mysync holds the Cluster mutex across coordination calls and synctest does not advance virtual time while a goroutine waits for a mutex)",
                "the main loop of App.Run is replicated in the harness (lock file, signal handler, NewZookeeper's TCP set-up cannot run in the bubble)",
                "virtual time: one schedule per (seed, configuration); real goroutine interleavings inside a tick are those the Go scheduler produces in the bubble"]

PROPS["C02"] = {
    "facts": ["App.Run", "App.connectDCS", "App.newDBCluster"],
    "lean": ["MysyncProofs.C02", "MysyncProofs.C02Safety", "MysyncProofs.C02Fault"],
    "go": [("internal/app", "^TestVerifSim$")],
    "level": "proof",
    "components": _SIM_COMPONENTS + ["MysyncProofs/C02.lean composes C04 (a,b), C12 and C01 into no_acked_loss_at_promotion",
                                      "MysyncModel/Proto/Safety.lean: protocol-level state machine (commit / replicate / failover with the enabling conditions the component properties establish); MysyncProofs/C02Safety.lean: induction over histories",
                                      "MysyncModel/Proto/SafetyFault.lean: the same machine WITH list changes (evictions of the faulty host, re-admissions) and faults / healings under the single-fault budget; MysyncProofs/C02Fault.lean"],
    "trusted": _SIM_TRUSTED,
    "rule": "fault grid: {crash of a MySQL server, network isolation of a host, death of a mysync process, loss of the coordination service by one host or by all, manual switchover to / from, no fault} x target host (master more often) x injection offset 0-5 s across the tick / health-check cycle x duration {3 s, 20 s, 90 s, until healing} x 2-4 HA nodes x with/without a cascade replica x wait count 1-2 x failover on/off x failover delay {0,10,30 s} x both semi-sync adjustment orders x with/without a lagging replica (asked to take over in a third of the requests); 40 s warm-up, fault, 6 virtual minutes of healing. distinct = distinct run; non-trivial = a fault or a request was injected",
    "assumptions": ["MySQL semi-sync time-out effectively infinite, wait_no_slave ON, AFTER_SYNC (the project's configuration)", "single fault per run (the property's budget)",
                    "Safety.lean: the published list does not change, any quorum-passing set may freeze; SafetyFault.lean: the list changes, at most one host is faulty at a time, the master fails only when every registered host is listed again, a host is admitted to the list only when it has every acknowledged transaction (the code does not enforce that: known finding C04, kernel-checked loss witness without it)"],
    "min_lines": 50,
    "level_text": "PARTIAL. Proved: every acknowledged transaction is executed by the promoted node (composition of C04, C12, C01 for any list size / counts / sets); over the protocol-level state machine (commits acknowledged under C04's guarantees, replication, failovers admitted by C01 / C12's conditions, regenerated quorum arithmetic, fixed published list) NO history of any length loses an acknowledged transaction, and every acknowledged transaction stays on a set of hosts that meets every quorum (acked_never_lost, acked_meets_every_quorum); the canonical predicate implies a single writable reachable HA node equal to the recorded master and all other reachable HA nodes read-only replicas of it; with two faults the quorum refuses. Decided on the real daemons by simulation: return to the canonical state after healing, acknowledged set on the final master, never two acknowledging nodes in one round, no flip-back of the acknowledging node. With list changes (SafetyFault.lean): under the single-fault budget no history of any length — commits, replication, evictions, re-admissions, failovers, switchovers, faults, healings — loses an acknowledged transaction, and in every converged state every acknowledged transaction is also on a listed replica (acked_never_lost_with_list_changes, acked_on_a_listed_replica_when_converged); without the join guard the machine loses a transaction (witness_loss_without_join_guard).",
    "level_note": "Convergence (fairness of the real loops, time-outs) and the end-to-end statement are NOT a theorem: no composed model of N daemons was built; the simulation explores one schedule per configuration and seed. Trusted: Lean kernel, fakes (T4), harness copy of Run's loop.",
    "technique": "Lean 4 proof of the safety composition + simulation of the real daemons with Lean-evaluated verdict predicates",
}

PROPS["C07"] = {
    "facts": ["App.Run", "App.connectDCS", "App.newDBCluster"],
    "lean": ["MysyncProofs.C07", "MysyncProofs.C07World"],
    # the real procedure run by run: master key last and after promotion, the list published at promotion (what a successor judges the request against)
    "go": [("internal/app", "^TestVerifC07$"), ("internal/app", "^TestVerifC01$"),
           # the manager iteration around the procedure: a request whose attempt did not reach its end stays in place for the next manager
           ("internal/app", "^TestVerifC06$")],
    "level": "proof",
    "components": _SIM_COMPONENTS + ["MysyncModel/App/Switchover.lean + SwitchLifecycle.lean (the procedure as an ordered step list over oracle outcomes; a crash is a prefix)",
                                         "MysyncModel/App/SwitchWorld.lean (effect of every step on a world of servers and coordination keys; the oracle inputs of the successor's run are read off the world the crash left behind)"],
    "trusted": _SIM_TRUSTED + ["process death = from the chosen external call on, nothing the process sends has any effect (its MySQL statements hang, its coordination session is cut and expires after the session time-out)"],
    "rule": "for 7 base scenarios (manual switchover to / from on 2-4 nodes, automatic failover after a master crash / isolation on 2-4 nodes): a dry run counts the external calls (SQL statements and coordination writes) the managing daemon makes between taking the request up and its terminal record; then the manager is killed after call i for every 12th i (thorough: every i), once with the same host restarted and once with another host taking over; healing 6 virtual minutes. distinct = distinct run; non-trivial = always Plus the 1 500 real performSwitchover runs of the C01 harness (master key last and after promotion; the list published at promotion contains every replica that follows the new master).",
    "assumptions": ["the successor has a working coordination service and servers (the property's 'next manager')"],
    "min_lines": 40,
    "level_text": "PARTIAL. Proved on the procedure model for every crash point (prefix) and all oracle outcomes: the recorded master is written last and only after the new master is writable; a crash before that leaves the old master key; a lost lock stops the procedure; at most one node is made writable; the request stays in place until a terminal record (hypothesis: the result keys do not already hold this very record). Proved on the world model for a planned switchover in a healed world, for EVERY cluster size, every configuration with a non-negative wait count and EVERY crash point k: the successor's run from the world the first k steps left behind ends with one writable master = the requested = the recorded one and every other server a read-only running replica of it (planned_switchover_is_resumable), and at no point of either run are two servers writable (never_two_writable). Decided on the real daemons by simulation at the sampled crash points for every request kind incl. failover: the successor finishes or rejects the request, the cluster is canonical, no acknowledged transaction is missing.",
    "level_note": "The world-model theorem covers planned switchovers with every server reachable and every call of the successor succeeding (the 'healed' world the property promises completion in), no client writes during the procedure. Failover (dead master) and runs in which calls of the successor fail are decided by the crash-point simulation only; that simulation found a real hole (known finding). Trusted as for C02.",
    "technique": "Lean 4 proof over the procedure model with crash = prefix + crash-point simulation of the real daemons",
}

PROPS["C20"] = {
    "facts": ["App.Run", "App.connectDCS", "App.newDBCluster"],
    "lean": ["MysyncProofs.C20"],
    "go": [("internal/app", "^TestVerifC20$"), ("internal/app", "^TestVerifSim$"),
           # every handler-level harness recovers panics of the real handler: they are C20 violations wherever they occur
           ("internal/app", "^TestVerifC05$"), ("internal/app", "^TestVerifC11$"), ("internal/app", "^TestVerifC16"), ("internal/app", "^TestVerifC01$"), ("internal/app", "^TestVerifObs$")],
    "level": "proof",
    "components": _SIM_COMPONENTS + ["explicit panic outcomes in Manager / Switchover / Recovery / ActiveNodes / Cascade models (each tied to the code by its own differential check, which compares the panic outcome too)"],
    "trusted": _SIM_TRUSTED + ["panic sites are identified by file:line of the first mysync frame below the panic"],
    "rule": "21 kinds of ill-formed contents / hostile environments applied to a running 2-4 node cluster (recorded master / active list / stream_from / request naming an unregistered host, hosts registered or removed while running, unparsable values in switch / master / active_nodes / maintenance / health / last_switch, a replica that is no replica, a master that reports a replication source, every statement failing / hanging, coordination service down), alone and together with one fault of the C02 catalogue; every loop of every daemon runs under recover(); goroutines before/after each run and open connections per server are counted; plus all runs of the C02 grid; plus every iteration of the manager (C05), recovery (C11), cascade (C16) and switchover (C01) harnesses, where a recovered panic of the real handler is reported as C20:panic-in-handler:<kind>. distinct = distinct run; non-trivial = always",
    "assumptions": [],
    "min_lines": 40,
    "level_text": "PARTIAL. Proved on the models: the exact conditions under which a manager iteration, the switchover procedure, the recovery check and the membership classification can die (none of them on inputs whose views are complete; never for an unregistered recorded master). Seven crash sites reachable from contents the property names were found on the pinned tree and repaired (fix: commits, known_findings.json). Decided on the real daemons: no recovered panic, no goroutine left behind, no accumulating connections in any simulated run.",
    "level_note": "Data races are NOT decided: no executable model of the logic exhibits one (DESIGN.md §not applicable in part); goroutine and connection accounting is runtime behaviour observed by the simulation only.",
    "technique": "Lean 4 characterisation theorems of the modelled panic sites + chaos simulation of the real daemons under recover()",
}

_todo = "machinery for this property is not built yet in this round; planned per DESIGN.md §7/§10 (no claim is made until its check exists)"
NOT_APPLICABLE = {("C%02d" % i): _todo for i in range(1, 21)}

# properties whose check exists in PROPS but is not yet claimed in MANIFEST.json (proofs in progress)
PENDING = set()
