"""Registry of the checks: which Lean theorem modules, which harness tests, what is trusted."""

COMMON_TRUSTED = [
    "T1 Lean 4.33 kernel; axioms limited to propext, Classical.choice, Quot.sound (audited by #print axioms on every run)",
    "T3 the correspondence check itself: Go harness (/verif/harness, overlaid into /repo's packages), trace format, Lean replay executable; M is validated against the code by sampling/enumeration, not proved equal to it",
]

PROPS = {
    "C12": {
        "lean": ["MysyncProofs.C12"],
        "go": [("internal/mysql", "^TestVerifC12$")],
        "level": "proof",
        "components": ["MysyncModel/Generated/SwitchHelper.lean (regenerated from internal/mysql/switch_helper.go by /verif/gen)"],
        "trusted": ["T2 the go/ast translator /verif/gen for the whitelisted functions (its output is compared with the Go methods on the whole grid on every run)",
                    "T7 Go int modelled as Int (list lengths and a config value; overflow unreachable)"],
        "rule": "grid n in 0..48 (thorough 0..256) x w in 0..26 (0..130) x SemiSync x p in {0,1,q-1,q,q+1,n,n+1}; distinct = distinct (n,w,ss,p); non-trivial = n >= 2 and w >= 1 (semi-sync really demanded)",
        "exhaustive_note": "the grid is enumerated completely; the unbounded claim is the theorem, the grid validates the translator",
        "assumptions": ["configured count w >= 0 (the property's own quantifier)"],
        "min_lines": 1000,
        "level_text": "Closed-form proof for all list sizes n and all configured counts w >= 0 (omega over the definitions REGENERATED from switch_helper.go on every run, plus a Finset pigeonhole corollary); the translator is validated against the real methods on the full grid. Proof is the right level: the quantifier is all integers.",
        "level_note": "Trusted: Lean kernel (+propext, Classical.choice, Quot.sound), the 300-line go/ast translator (validated per run on the grid), Go int modelled as Int. w < 0 is outside the property.",
        "technique": "Lean 4 proof (omega + Finset pigeonhole) over definitions regenerated from the Go source by a translator",
    },
}

_todo = "machinery for this property is not built yet in this round; planned per DESIGN.md §7/§10 (no claim is made until its check exists)"
NOT_APPLICABLE = {("C%02d" % i): _todo for i in range(1, 21)}
