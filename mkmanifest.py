#!/usr/bin/env python3
"""Regenerates MANIFEST.json from props.py so that the two never drift."""
import json, os, sys
sys.path.insert(0, os.path.dirname(os.path.abspath(__file__)))
from props import PROPS as _ALL, COMMON_TRUSTED, NOT_APPLICABLE, PENDING
PROPS = {k: v for k, v in _ALL.items() if k not in PENDING}

ids = [json.loads(l)["id"] for l in open(os.path.join(os.path.dirname(os.path.abspath(__file__)), "properties.jsonl"))]
checks = []
for pid in ids:
    if pid not in PROPS:
        continue
    s = PROPS[pid]
    checks.append({
        "property_id": pid,
        "quick_cmd": "./check %s --tier quick" % pid,
        "thorough_cmd": "./check %s --tier thorough" % pid,
        "evidence_file": "/verif/evidence/%s.json" % pid,
        "replay_cmd_template": "./check %s --replay {path}" % pid,
        "engine": "lean4-proof+correspondence",
        "level_claimed": {"category": s.get("level", "proof"), "text": s["level_text"], "design_ref": s.get("design_ref", "DESIGN.md §7 " + pid)},
        "level_note": s["level_note"],
        "technique": s.get("technique", "Lean 4 theorems over an executable model + differential correspondence with the real code"),
    })
na = [{"property_id": p, "reason": NOT_APPLICABLE[p]} for p in ids if p not in PROPS]
m = {
    "version": 1,
    "setup_cmd": "./check --setup",
    "hooks": {
        "guard": "verif",
        "enable": "no source commit in /repo: the harness files under /verif/harness carry `//go:build verif` and are compiled into /repo's packages with `go test -overlay <generated overlay.json> -tags verif` (see ./check, write_overlay)",
        "baseline_off_cmd": "cd /repo && GOFLAGS=-mod=mod go test -vet=off -count=1 $(GOFLAGS=-mod=mod go list ./... | grep -v '/tests$')",
        "source_commits": [],
        "add_only": True,
    },
    "engines": [{"name": "lean4-proof+correspondence", "path": "/verif/check", "serves_properties": [c["property_id"] for c in checks],
                 "kind_free_text": "Lean 4 (core + single Mathlib modules) theorems about an executable model; translator (gen/) regenerates the pure integer kernels from the Go source; Go harness overlaid into /repo runs the real code and a compiled Lean replayer compares it with the model and evaluates the property monitors"}],
    "checks": checks,
    "not_applicable": na,
    "notes": "See DESIGN.md. known_findings.json lists genuine defects (known / fixed).",
}
json.dump(m, open(os.path.join(os.path.dirname(os.path.abspath(__file__)), "MANIFEST.json"), "w"), indent=1)
print("MANIFEST.json: %d checks, %d not_applicable" % (len(checks), len(na)))
