/-
C18 — Disk-space guard: read-only at critical usage, hysteresis on return.
PROPERTY THEOREMS ONLY (helper lemmas: MysyncProofs/Lemmas/DiskGuardLemmas.lean).
Model: MysyncModel/App/DiskGuard.lean (`repairReadOnlyOnMaster`).
-/
import MysyncModel.App.DiskGuard
import MysyncProofs.Lemmas.DiskGuardLemmas

namespace C18
open NS DiskGuard

/-- the master's own record is at or above the critical level -/
def MasterCritical (cfg : Cfg) (m : String) (dcs : ClusterState) : Prop :=
  ∃ e ∈ dcs, e.2.isMaster = true ∧ m = e.1 ∧ ∃ d, e.2.disk = some d ∧ d.usageGe cfg.crit = true

/-- the master's own record is in the grey zone (above non-critical, below critical) -/
def MasterGrey (cfg : Cfg) (m : String) (dcs : ClusterState) : Prop :=
  ∃ e ∈ dcs, e.2.isMaster = true ∧ m = e.1 ∧ ∃ d, e.2.disk = some d ∧ d.usageGe cfg.crit = false ∧ d.usageGt cfg.notCrit = true

/-- so many running semi-sync replicas are at critical usage that the rest cannot satisfy the count -/
def ReplicasCritical (ms : NodeState) (t : Tally) : Prop :=
  t.running > 0 ∧ ∃ ss, ms.semiSync = some ss ∧ t.low > t.running - ss.waitSlaveCount

/-- Go's map iteration order is irrelevant: the accumulated counters are the same for every order -/
theorem tally_order_independent (cfg : Cfg) (m : String) (dcs dcs' : ClusterState) (h : dcs.Perm dcs') :
    tally cfg m dcs = tally cfg m dcs' := by
  exact DiskGuardLemmas.foldl_perm cfg m h {}

theorem tally_needRo_iff (cfg : Cfg) (m : String) (dcs : ClusterState) :
    (tally cfg m dcs).needRo = true ↔ MasterCritical cfg m dcs := by
  exact DiskGuardLemmas.tally_needRo cfg m dcs

theorem tally_mayWrite_iff (cfg : Cfg) (m : String) (dcs : ClusterState) :
    (tally cfg m dcs).mayWrite = false ↔ MasterGrey cfg m dcs := by
  exact DiskGuardLemmas.tally_mayWrite cfg m dcs

/-- counters are counts: no disk report ⇒ not counted; `low + normal ≤ running`, all non-negative -/
theorem tally_counts_sane (cfg : Cfg) (m : String) (dcs : ClusterState) :
    let t := tally cfg m dcs
    0 ≤ t.low ∧ 0 ≤ t.normal ∧ t.low + t.normal ≤ t.running := by
  exact DiskGuardLemmas.tally_sane cfg m dcs

/-- read-only is requested (statement or "already in that mode") exactly at critical usage of the
master or of too many running semi-sync replicas -/
theorem ro_iff_critical (cfg : Cfg) (m : String) (ms : NodeState) (dcs : ClusterState) :
    ((∃ s, decide_ cfg m ms dcs = .setReadOnly s) ∨ decide_ cfg m ms dcs = .alreadyReadOnly) ↔
    (MasterCritical cfg m dcs ∨ ReplicasCritical ms (tally cfg m dcs)) := by
  exact DiskGuardLemmas.ro_iff cfg m ms dcs

/-- the statement is super-read-only unless configured to keep super users writable, and it is
skipped iff the master is already in exactly that mode -/
theorem ro_statement_kind (cfg : Cfg) (m : String) (ms : NodeState) (dcs : ClusterState) :
    (∀ s, decide_ cfg m ms dcs = .setReadOnly s → s = !cfg.keepSuperWritable ∧
        ¬ (ms.isReadOnly = true ∧ cfg.keepSuperWritable ≠ ms.isSuperReadOnly)) ∧
    (decide_ cfg m ms dcs = .alreadyReadOnly → ms.isReadOnly = true ∧ cfg.keepSuperWritable ≠ ms.isSuperReadOnly) := by
  exact ⟨fun s h => DiskGuardLemmas.decide_setReadOnly cfg m ms dcs s h, DiskGuardLemmas.decide_alreadyReadOnly cfg m ms dcs⟩

/-- a read-only master is made writable only when nothing is critical, the master's usage is at or
below the non-critical level and, if running semi-sync replicas are reported, at least one of them
is too -/
theorem writable_only_if (cfg : Cfg) (m : String) (ms : NodeState) (dcs : ClusterState)
    (h : decide_ cfg m ms dcs = .setWritable) :
    ms.isReadOnly = true ∧ ¬ MasterCritical cfg m dcs ∧ ¬ MasterGrey cfg m dcs ∧
    ¬ ReplicasCritical ms (tally cfg m dcs) ∧
    ((tally cfg m dcs).running = 0 ∨ (tally cfg m dcs).normal ≥ 1) := by
  exact DiskGuardLemmas.setWritable_spec cfg m ms dcs h

/-- in between the mode is left untouched -/
theorem grey_zone_untouched (cfg : Cfg) (m : String) (ms : NodeState) (dcs : ClusterState)
    (hno : ¬ MasterCritical cfg m dcs) (hnr : ¬ ReplicasCritical ms (tally cfg m dcs))
    (hg : MasterGrey cfg m dcs ∨ ((tally cfg m dcs).running > 0 ∧ (tally cfg m dcs).normal = 0)) :
    decide_ cfg m ms dcs = .greyZone := by
  exact DiskGuardLemmas.greyZone_spec cfg m ms dcs hno hnr hg

/-- the low-space flag follows the last successful change -/
theorem low_space_follows (d : Decision) (ok : Bool) (v : Bool) :
    lowSpaceWrite d ok = some v ↔
      (ok = true ∧ (((∃ s, d = .setReadOnly s) ∧ v = true) ∨ (d = .setWritable ∧ v = false))) := by
  exact DiskGuardLemmas.lowSpaceWrite_spec d ok v

/-- with `not_critical ≤ critical` (what `Validate` enforces) a disk at or below the non-critical
level is never critical unless the two levels coincide and the usage sits exactly on them -/
theorem thresholds_sane (cfg : Cfg) (d : DiskState) (h : cfg.notCrit ≤ cfg.crit) (hlt : cfg.notCrit < cfg.crit)
    (hle : d.usageGt cfg.notCrit = false) : d.usageGe cfg.crit = false := by
  exact (fun _ => DiskGuardLemmas.thresholds d cfg.crit cfg.notCrit hlt hle) h

-- non-vacuity
private def cfg0 : Cfg := ⟨true, false, 95, 90⟩
private def m95 : NodeState := { pingOk := true, isMaster := true, disk := some ⟨95, 100⟩, semiSync := some ⟨true, false, 1⟩ }
private def m50ro : NodeState := { pingOk := true, isMaster := true, isReadOnly := true, isSuperReadOnly := true, disk := some ⟨50, 100⟩, semiSync := some ⟨true, false, 1⟩ }
example : decide_ cfg0 "m" m95 [("m", m95)] = .setReadOnly true := by decide
example : decide_ cfg0 "m" m50ro [("m", m50ro)] = .setWritable := by decide

end C18
