/-
C03 — the timing half of assumption E5, from the coordination client's own constants.
PROPERTY THEOREMS ONLY.  `Gen.ZkTiming.setTimeouts` is REGENERATED on every run from (*zk.Conn).setTimeouts of the
go-zookeeper version /repo's go.mod requires (receive time-out = 2/3 of the session time-out, ping interval = half of
that).

E5 (MysyncProofs/C03.lean) says: "the server ends a session only after its client noticed the loss …".  What the client
does: `recvLoop` arms a read deadline of `recvTimeout` each time it starts waiting for the next packet; when it passes,
the connection is closed and `StateDisconnected` is delivered (zkDCS then stops answering from the lock cache).  What the
server does: it expires a session `T` after it last heard from the client.  The lemma below turns E5's first half into an
arithmetic condition on the environment: equal clock rates, no process pause, and a bound `δ` on the time between the
server receiving a request and the client receiving the reply of at most `T − recvTimeout` (a third of the session
time-out).  Whether a deployment meets that is runtime behaviour (DESIGN.md §6, C03 partial).
-/
import MysyncModel.Generated.ZkTiming

namespace C03
open Gen.ZkTiming

/-- all times in nanoseconds on a common clock.  `r`: the client received its last packet; `s`: the server last heard from
the client; `e`: the server expires the session; `n`: the client's read deadline passes and it reports the loss. -/
theorem client_notices_before_expiry (Tms r s e n δ : Int)
    (hs : r - δ ≤ s)                                      -- the last reply reached the client at most δ after its request reached the server
    (he : s + Tms * 1000000 ≤ e)                          -- expiry no earlier than T after the server last heard from the client
    (hn : n = r + (setTimeouts Tms).recvTimeout)          -- the read deadline armed when the client started waiting
    (hδ : δ ≤ Tms * 1000000 - (setTimeouts Tms).recvTimeout) :
    n ≤ e := by
  omega

/-- the slack the environment has is at least a third of the session time-out … -/
theorem slack_at_least_a_third (Tms : Int) (hT : 0 ≤ Tms) :
    Int.tdiv (Tms * 1000000) 3 ≤ Tms * 1000000 - (setTimeouts Tms).recvTimeout := by
  unfold setTimeouts
  simp only []
  rw [Int.tdiv_eq_ediv_of_nonneg (by omega), Int.tdiv_eq_ediv_of_nonneg (by omega)]
  omega

/-- … and the client pings at least twice per receive window, so an idle but healthy connection is never given up: a
ping is sent every `pingInterval`, and a reply that takes less than `recvTimeout − pingInterval` arrives in time -/
theorem two_pings_per_receive_window (Tms : Int) (hT : 0 ≤ Tms) :
    2 * (setTimeouts Tms).pingInterval ≤ (setTimeouts Tms).recvTimeout ∧
    0 ≤ (setTimeouts Tms).pingInterval ∧ (setTimeouts Tms).recvTimeout ≤ Tms * 1000000 := by
  unfold setTimeouts
  simp only []
  have h1 : Int.tdiv (Tms * 1000000 * 2) 3 = Tms * 1000000 * 2 / 3 := Int.tdiv_eq_ediv_of_nonneg (by omega)
  rw [h1, Int.tdiv_eq_ediv_of_nonneg (by omega)]
  omega

-- the project's default session time-out (3 s … the constants for 3000 ms)
example : (setTimeouts 3000).recvTimeout = 2000000000 ∧ (setTimeouts 3000).pingInterval = 1000000000 := by decide

-- the condition is tight: with a reply delay of T − recvTimeout + 1 ns the server can expire first
example : ∃ r s e n δ : Int, r - δ ≤ s ∧ s + 3000 * 1000000 ≤ e ∧ n = r + (setTimeouts 3000).recvTimeout ∧
    δ = 3000 * 1000000 - (setTimeouts 3000).recvTimeout + 1 ∧ e < n :=
  ⟨1000000001, 0, 3000000000, 3000000001, 1000000001, by decide, by decide, by decide, by decide, by decide⟩

end C03
