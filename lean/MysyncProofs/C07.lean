/-
C07 — Switchover is resumable after a manager crash at any point.
PROPERTY THEOREMS ONLY (helper lemmas: MysyncProofs/Lemmas/SwitchoverLemmas.lean).

What is PROVED here (safety, for every crash point = every prefix of the step list, every oracle):
nothing is promoted on a prefix unless the full preconditions of C01 hold; the recorded master is
written last and only after the new master is writable; the request is kept in `switch` until it is
finished or rejected, by whichever process holds the lock.  What is VALIDATED (not proved): that the
successor's iterations end in the canonical topology — harness `TestVerifC07` kills the manager after
every external call of real switchovers and lets a successor run (DESIGN §7 C07, partial).
-/
import MysyncModel.App.Switchover
import MysyncModel.App.SwitchLifecycle
import MysyncProofs.Lemmas.SwitchoverLemmas
import MysyncProofs.Lemmas.ManagerLemmas
import MysyncProofs.Lemmas.SwitchoverRequest

namespace C07
open NS Switchover

/-- the recorded master is updated LAST: it is the final step of the procedure … -/
theorem master_key_last (cfg : Cfg) (i : In) (h : String) (ok : Bool)
    (hs : Step.setMasterKey h ok ∈ performSwitchover cfg i) :
    (performSwitchover cfg i).getLast? = some (.setMasterKey h ok) := by
  exact SwitchoverLemmas.master_key_last cfg i h ok hs

/-- … and it names the node that was just made writable -/
theorem master_key_after_writable (cfg : Cfg) (i : In) (h : String) (ok : Bool)
    (hs : Step.setMasterKey h ok ∈ performSwitchover cfg i) :
    Step.setWritable h true ∈ performSwitchover cfg i ∧ Step.resetSlaveAll h true ∈ performSwitchover cfg i := by
  exact SwitchoverLemmas.master_key_after_writable cfg i h ok hs

/-- on every crash prefix that has not reached the last step the recorded master is untouched, so the
successor still learns the OLD master from the coordination service -/
theorem crash_keeps_old_master_key (cfg : Cfg) (i : In) (pre post : List Step) (hpost : post ≠ [])
    (hsplit : performSwitchover cfg i = pre ++ post) : ∀ h ok, Step.setMasterKey h ok ∉ pre := by
  exact SwitchoverLemmas.crash_keeps_old_master_key cfg i pre post hpost hsplit

/-- a deposed manager stops: when a lock re-check fails nothing further is done -/
theorem lost_lock_stops (cfg : Cfg) (i : In) (n : Nat) (hs : Step.lockCheck n false ∈ performSwitchover cfg i) :
    (performSwitchover cfg i).getLast? = some (.lockCheck n false) := by
  exact SwitchoverLemmas.lost_lock_stops cfg i n hs

/-- at most one node is made writable by one run of the procedure -/
theorem at_most_one_promotion (cfg : Cfg) (i : In) (h1 h2 : String) (o1 o2 : Bool)
    (a : Step.setWritable h1 o1 ∈ performSwitchover cfg i) (b : Step.setWritable h2 o2 ∈ performSwitchover cfg i) :
    h1 = h2 ∧ o1 = o2 := by
  exact SwitchoverLemmas.at_most_one_promotion cfg i h1 h2 o1 o2 a b

/-- the request survives a crashed or failed attempt: an iteration whose procedure failed (or whose
process died — no bookkeeping step at all) leaves `switch` in place for the next manager -/
theorem request_kept_until_terminal (cfg : Manager.Cfg) (i : Manager.In) (k : SwitchLifecycle.Keys) (sw : Manager.Switch)
    (hs : k.switch = some sw) (hkeep : (SwitchLifecycle.tick cfg i k).lastOk = k.lastOk ∧ (SwitchLifecycle.tick cfg i k).lastRejected = k.lastRejected)
    (hp : i.perform ≠ .abortedMeanwhile)
    (hfresh : k.lastOk ≠ some sw ∧ k.lastRejected ≠ some sw) :
    ∃ sw', (SwitchLifecycle.tick cfg i k).switch = some sw' ∧ sw'.from_ = sw.from_ ∧ sw'.to = sw.to := by
  -- CORRECTED after a counterexample: without `hfresh` (the result keys do not already hold this very record — a new
  -- request always differs from older results in `initiated_at`) "the result keys did not change" does not tell a kept
  -- request from a finished one (`SwitchoverLemmas.request_kept_counterexample`, kernel-checked).
  exact SwitchoverLemmas.request_kept_until_terminal cfg i k sw hs hkeep hp hfresh

/-! ### the known finding, on the models (known_findings.json: `…promoted-node-was-never-recorded`)

`crash_keeps_old_master_key` + `master_key_after_writable`: a manager that dies after `setWritable new true` and before
`setMasterKey` leaves `new` writable and the OLD master recorded.  What the successor then does with the pending
automatic failover of a two-node list — the request was never failed, so it is judged again; the promoted node has
no replica status any more, so it does not count as an alive replica; the quorum check refuses — is this: -/

private def cfgW : Manager.Cfg := { (default : Manager.Cfg) with failover := true, semiSync := true, waitCount := 1 }
private def deadOld : NS.NodeState := { pingOk := false }
private def promotedNew : NS.NodeState := { pingOk := true, isMaster := true }
private def successorView (active : List String) : Manager.In :=
  { master := some "h1", activeNodes := active, cs := [("h1", deadOld), ("h2", promotedNew)],
    dcs := [("h1", deadOld), ("h2", promotedNew)], now := 100, failedAt := none }

/-- the successor REJECTS the pending failover (whichever of the two lists the first attempt left behind), so the
promoted node is never recorded — everything it acknowledges is lost when the old master returns -/
theorem witness_successor_rejects_after_promotion :
    Manager.approveSwitchover cfgW (successorView ["h2"]) { from_ := "h1", causeAuto := true, failoverType := true, runCount := 0 } = false ∧
    Manager.approveSwitchover cfgW (successorView ["h1", "h2"]) { from_ := "h1", causeAuto := true, failoverType := true, runCount := 0 } = false := by
  decide


end C07
