/-
C16 — Cascade replicas: source resolution terminates, never self, never quorum.
PROPERTY THEOREMS ONLY (helper lemmas: MysyncProofs/Lemmas/CascadeLemmas.lean).
Model: MysyncModel/App/Cascade.lean (`findBestStreamFrom`, `repairCascadeNode`), NodeState.lean (HA counts).
-/
import Mathlib.Tactic.SplitIfs
import MysyncModel.App.Cascade
import MysyncModel.App.Observe
import MysyncProofs.Lemmas.CascadeLemmas

namespace C16
open NS Gtid Cascade

/-- n-th configured ancestor of `self` along the stream_from chain -/
def anc (topo : Topology) (self : String) : Nat → String
  | 0 => self
  | n + 1 => streamFromOf topo (anc topo self n)

/-- "healthy" in the sense of `findBestStreamFrom` -/
def Healthy (reasonable : Int) (cs : ClusterState) (h : String) : Prop :=
  ∃ c, cs.get? h = some c ∧ c.pingOk = true ∧ c.isOffline = false ∧ reasonableLag reasonable c = true

/-- the replica is already streaming (running) from `src` -/
def Already (cs : ClusterState) (self src : String) : Prop :=
  ∃ me sl, cs.get? self = some me ∧ me.slave = some sl ∧ sl.state = .running ∧ sl.masterHost = src

/-- resolving the source always terminates — for every finite topology map, including cycles and
self-references: the fuel `topo.length + 2` never runs out -/
theorem bsf_total (reasonable : Int) (self : String) (cs : ClusterState) (master : String) (topo : Topology) :
    findBestStreamFrom reasonable self cs master topo ≠ .outOfFuel := by
  exact CascadeLemmas.bsfLoop_total reasonable self cs master topo (topo.length + 2) [self] [] rfl
    List.nodup_nil (fun _ h => nomatch h) (by simp only [List.length_cons, List.length_nil]; omega)

/-- never the replica itself, even with cyclic configuration -/
theorem bsf_never_self (reasonable : Int) (self : String) (cs : ClusterState) (master : String) (topo : Topology)
    (hm : self ≠ master) : findBestStreamFrom reasonable self cs master topo ≠ .host self := by
  exact CascadeLemmas.bsfLoop_never_self reasonable self cs master topo hm _ _ (List.mem_singleton.mpr rfl)

/-- it yields the configured source when that is what the replica already streams from (even if that source
is not a registered host) … -/
theorem bsf_configured_if_already (reasonable : Int) (self : String) (cs : ClusterState) (master : String) (topo : Topology)
    (hsf : streamFromOf topo self ≠ "") (hns : streamFromOf topo self ≠ self)
    (ha : Already cs self (streamFromOf topo self)) :
    findBestStreamFrom reasonable self cs master topo = .host (streamFromOf topo self) := by
  exact CascadeLemmas.bsf_first_already reasonable self cs master topo hsf hns ha

/-- … an unregistered configured source that the replica does not already stream from yields the master
(without `hna` the result is the source itself, `bsf_configured_if_already`; without `hself` it is the
nil dereference `clusterState[node.Host()]`, see the example at the end of the file) -/
theorem bsf_master_if_unregistered (reasonable : Int) (self : String) (cs : ClusterState) (master : String) (topo : Topology)
    (hself : (cs.get? self).isSome)
    (hn : cs.get? (streamFromOf topo self) = none) (hna : ¬ Already cs self (streamFromOf topo self)) :
    findBestStreamFrom reasonable self cs master topo = .host master := by
  exact CascadeLemmas.bsf_first_unregistered reasonable self cs master topo hself hn hna

/-- … or when it is healthy -/
theorem bsf_configured_if_healthy (reasonable : Int) (self : String) (cs : ClusterState) (master : String) (topo : Topology)
    (hsf : streamFromOf topo self ≠ "") (hns : streamFromOf topo self ≠ self) (hme : (cs.get? self).isSome)
    (hh : Healthy reasonable cs (streamFromOf topo self)) :
    findBestStreamFrom reasonable self cs master topo = .host (streamFromOf topo self) := by
  exact CascadeLemmas.bsf_first_healthy reasonable self cs master topo hsf hns hme hh

/-- otherwise the nearest healthy ancestor along the configured chain, otherwise the master: a result
other than the master is the n-th ancestor for some n ≥ 1, every nearer ancestor is unhealthy, and
the result is healthy (or is the configured source the replica already streams from) -/
theorem bsf_nearest_healthy (reasonable : Int) (self : String) (cs : ClusterState) (master : String) (topo : Topology)
    (r : String) (h : findBestStreamFrom reasonable self cs master topo = .host r) (hr : r ≠ master) :
    ∃ n, 1 ≤ n ∧ anc topo self n = r ∧
      (∀ j, 1 ≤ j → j < n → ¬ Healthy reasonable cs (anc topo self j)) ∧
      (Healthy reasonable cs r ∨ (n = 1 ∧ Already cs self r)) := by
  exact CascadeLemmas.bsfLoop_nearest reasonable self cs master topo (anc topo self) (fun _ => rfl) r hr
    (topo.length + 2) [self] 0 rfl rfl (fun j h1 h0 => by omega) h

/-- no nil dereference, whatever the configured sources are: an unregistered `stream_from` falls back to the
master (since the fix: commit recorded in known_findings.json; before it this needed every source to be registered) -/
theorem bsf_no_panic_wellformed (reasonable : Int) (self : String) (cs : ClusterState) (master : String) (topo : Topology)
    (hself : (cs.get? self).isSome) :
    ∃ r, findBestStreamFrom reasonable self cs master topo = .host r := by
  rcases CascadeLemmas.bsfLoop_no_panic reasonable self cs master topo hself (topo.length + 2) [self] with h | h
  · exact h
  · exact absurd h (bsf_total reasonable self cs master topo)

/-- a cascade replica that has a replica status is moved to another source only once the new
source's transactions contain its own (read AFTER the candidate's snapshot), never when it is ahead
or split-brained, and never to itself -/
theorem guarded_move (host : String) (st : NodeState) (cs : ClusterState) (i : In) (sl : SlaveState) (to : String)
    (hs : st.slave = some sl) (hmem : Act.changeMaster to ∈ repairCascade host st cs i) :
    to ≠ host ∧ i.candidate = .host to ∧ to ≠ sl.masterHost ∧
    ∃ mine c ctext u, i.fresh = .gtid mine ∧ cs.get? to = some c ∧
      ctext = (if c.isMaster then c.masterExecuted else c.slave.map (·.executed)) ∧ ctext.isSome ∧
      i.uuid = some u ∧
      isSlaveBehindOrEqual (parseD mine) (parseD (ctext.getD "")) = true ∧
      isSlaveAhead (parseD mine) (parseD (ctext.getD "")) = false ∧
      isSplitBrained (parseD mine) (parseD (ctext.getD "")) u = false := by
  exact CascadeLemmas.rc_guarded_move host st cs i sl to hs hmem

/-- the fresh read precedes the move -/
theorem fresh_read_before_move (host : String) (st : NodeState) (cs : ClusterState) (i : In) (sl : SlaveState) (to : String)
    (hs : st.slave = some sl) (hmem : Act.changeMaster to ∈ repairCascade host st cs i) :
    ∃ pre post, repairCascade host st cs i = pre ++ Act.changeMaster to :: post ∧ Act.readFresh ∈ pre := by
  exact CascadeLemmas.rc_fresh_read_before_move host st cs i sl to hs hmem

/-- no branch of the cascade repair points a server at itself -/
theorem never_points_at_itself (host : String) (st : NodeState) (cs : ClusterState) (i : In) :
    Act.changeMaster host ∉ repairCascade host st cs i := by
  exact CascadeLemmas.rc_never_points_at_itself host st cs i

/-- a cascade replica without a replica status whose configured source is the replica itself is pointed at
the recorded master instead (since the fix: 7075e36; before it this was the explicit panic of
`performChangeMaster`): no panic, and the first action is `changeMaster i.master` -/
theorem blind_branch_self_reference_falls_back (host : String) (st : NodeState) (cs : ClusterState) (i : In)
    (hs : st.slave = none) (hsf : i.streamFrom = host) (hm : i.master ≠ host) :
    (∀ site, Act.panic site ∉ repairCascade host st cs i) ∧
    (repairCascade host st cs i).head? = some (.changeMaster i.master) := by
  exact CascadeLemmas.rc_blind_self_reference host st cs i hs hsf hm

/-- on split brain the emergency marker is written and nothing is moved -/
theorem splitbrain_emerge_no_move (host : String) (st : NodeState) (cs : ClusterState) (i : In)
    (h : Act.writeEmerge ∈ repairCascade host st cs i) : ∀ to, Act.changeMaster to ∉ repairCascade host st cs i := by
  exact CascadeLemmas.rc_splitbrain_emerge_no_move host st cs i h

/-- cascade replicas are never counted towards quorum: the HA counters ignore them -/
theorem cascade_not_counted (cs : ClusterState) (nodes : List String) :
    countHANodes cs = countHANodes (cs.filter fun e => !e.2.isCascade) ∧
    countRunningHASlaves cs = countRunningHASlaves (cs.filter fun e => !e.2.isCascade) ∧
    dubiousHAHosts cs = dubiousHAHosts (cs.filter fun e => !e.2.isCascade) ∧
    (∀ h, h ∈ nodes → (∃ s, cs.get? h = some s ∧ s.isCascade = true) →
      countAliveHASlavesWithin nodes cs = countAliveHASlavesWithin (nodes.filter (· != h)) cs) := by
  exact CascadeLemmas.ha_cascade_not_counted cs nodes

-- non-vacuity: a 2-cycle c1 -> c2 -> c1 with c2 unhealthy falls back to the master
private def ok : NodeState := { pingOk := true, slave := some { lag := some 0, state := .running, masterHost := "m" } }
private def bad : NodeState := { pingOk := false }
private def cs0 : ClusterState := [("m", { pingOk := true, isMaster := true }), ("c1", ok), ("c2", bad)]
example : findBestStreamFrom 300 "c1" cs0 "m" [("c1", "c2"), ("c2", "c1")] = .host "m" := by decide
example : findBestStreamFrom 300 "c1" cs0 "m" [("c1", "c1")] = .host "m" := by decide
example : findBestStreamFrom 300 "c1" cs0 "m" [("c1", "ghost")] = .host "m" := by decide
-- the hypotheses of `bsf_master_if_unregistered` are needed: a replica already streaming (running) from the
-- configured but unregistered "ghost" keeps it; an unregistered replica is the remaining nil dereference
private def onGhost : NodeState := { pingOk := true, slave := some { lag := some 0, state := .running, masterHost := "ghost" } }
private def cs1 : ClusterState := [("m", { pingOk := true, isMaster := true }), ("c1", onGhost)]
example : findBestStreamFrom 300 "c1" cs1 "m" [("c1", "ghost")] = .host "ghost" := by decide
example : findBestStreamFrom 300 "c9" cs1 "m" [("c9", "ghost")] = .panic "clusterState[node.Host()]" := by decide
-- blind branch: a self-referencing source falls back to the recorded master; the panic branch that the model
-- keeps needs the host to be the recorded master itself (the hypothesis `hm` above is needed)
private def noStatus : NodeState := { pingOk := true }
private def selfRef (master : String) : In := { streamFrom := "c1", master := master, lostTimerZero := true, candidate := .host "m" }
example : repairCascade "c1" noStatus cs0 (selfRef "m") = [.changeMaster "m", .startSlave] := by decide
example : repairCascade "c1" noStatus cs0 (selfRef "c1") = [.panic "performChangeMaster: host == master"] := by decide

/-! ### the observation layer (MysyncModel/App/Observe.lean: `getNodeState`) -/

/-- whatever probe fails, a host that the registry knows as a cascade replica is observed as one — so that a
single failed or slow status query can never make a cascade replica look like an HA node (counted towards
quorum, listed as active, re-pointed to the master) -/
theorem cascade_flag_survives_probe_failures (t : Observe.Truth) (c : Bool) (f : Option Observe.Probe) (d p : Bool) :
    (Observe.getNodeState t c f d p).isCascade = c := by
  rcases hr : t.repl with _ | r <;> simp only [Observe.getNodeState, hr] <;> split_ifs <;> rfl

/-- … and a server is observed as master only if its replica status was read and had no row -/
theorem master_role_only_from_an_answered_status (t : Observe.Truth) (c : Bool) (f : Option Observe.Probe) (d p : Bool)
    (h : (Observe.getNodeState t c f d p).isMaster = true) :
    t.repl = none ∧ Observe.answered f .replicaStatus = true := by
  rcases hr : t.repl with _ | r <;> simp only [Observe.getNodeState, hr] at h <;> split_ifs at h <;> simp_all


end C16
