/-
C01 — Promotion only of a caught-up node backed by a frozen quorum.
PROPERTY THEOREMS ONLY (helper lemmas: MysyncProofs/Lemmas/SwitchoverLemmas.lean).
Models: MysyncModel/App/Switchover.lean (`performSwitchover` at phase level, every external outcome an
oracle input, a crash = a prefix of the step list), MysyncModel/World/Env.lean (environment steps),
MysyncModel/Select.lean + Gtid.lean (positions), Generated/SwitchHelper.lean (quorum).
-/
import MysyncModel.App.Switchover
import MysyncModel.World.Env
import MysyncProofs.Lemmas.SwitchoverLemmas
import MysyncProofs.Lemmas.GtidLemmas
import MysyncProofs.Lemmas.NormalizeLemmas

namespace C01
open NS Gtid Select Switchover

abbrev GSubset (s m : GtidSet) : Prop := GtidLemmas.GSubset s m

/-- every step that makes a node writable -/
def IsPromotion (s : Step) : Prop := ∃ h ok, s = .setWritable h ok

/-- what has syntactically happened before any promotion, for ALL oracle inputs (all call outcomes,
all cluster shapes, all request kinds): the request's target (if any) is in the published list, nobody
is dubious, the frozen hosts passed the quorum re-count against the published list INCLUDING the old
master, the lock was re-confirmed after the freeze and after catch-up, positions of exactly the frozen
hosts were collected and have a maximum (no split brain), and the new master caught up with it (or the
async escape fired) -/
theorem promotion_needs (cfg : Cfg) (i : In) (s : Step) (hs : s ∈ performSwitchover cfg i) (hp : IsPromotion s) :
    (i.sw.to = "" ∨ i.sw.to ∈ i.active) ∧ dubiousHAHosts i.cs = [] ∧
    Gen.SwitchHelper.CheckFailoverQuorum (sh cfg) i.active (frozen i).length = none ∧
    i.lock1 = true ∧ i.lock2 = true ∧
    (∃ ps mr, i.positions = some ps ∧ ps.length = (frozen i).length ∧ findMostRecent ps = .node mr) ∧
    (i.catchUp = .caught ∨ i.catchUp = .asyncEscape) := by
  obtain ⟨h, ok, rfl⟩ := hp
  exact SwitchoverLemmas.promotion_needs cfg i h ok hs

/-- frozen hosts are members of the published list (minus the failed master of an automatic failover),
were reachable in the view, accepted the read-only request and — unless it is the old master —
stopped their IO thread -/
theorem frozen_spec (i : In) (h : String) (hf : h ∈ frozen i) :
    h ∈ i.active ∧ (i.cs.get? h).map (·.pingOk) = some true ∧ i.ro h = true ∧ (h = i.oldMaster ∨ i.io h = true) := by
  exact SwitchoverLemmas.frozen_spec i h hf

/-- the quorum re-count in numbers: with semi-sync the frozen hosts are at least the failover quorum
of the PUBLISHED list, without semi-sync at least one -/
theorem quorum_recount (cfg : Cfg) (i : In) (s : Step) (hs : s ∈ performSwitchover cfg i) (hp : IsPromotion s) :
    (cfg.semiSync = true → Gen.SwitchHelper.GetFailoverQuorum (sh cfg) i.active ≤ (frozen i).length) ∧
    (cfg.semiSync = false → 1 ≤ (frozen i).length) := by
  exact SwitchoverLemmas.quorum_numbers cfg i (promotion_needs cfg i s hs hp).2.2.1

/-- E3 (environment lemma, not an axiom): a frozen node's `executed ∪ retrieved` does not grow under
any sequence of environment steps, and it stays frozen -/
theorem frozen_totals_stable (n n' : Env.Node) (hf : Env.Frozen n) (hs : Env.Steps n n') :
    Env.Frozen n' ∧ ∀ k x, n'.Total k x → n.Total k x := by
  exact SwitchoverLemmas.env_steps_frozen hf hs

/-- executed sets only grow under environment steps -/
theorem executed_monotone (n n' : Env.Node) (hs : Env.Steps n n') : ∀ k x, n.executed.Mem k x → n'.executed.Mem k x := by
  exact SwitchoverLemmas.env_steps_executed hs

/-- The semantic core.  Let `total f` be the frozen host's `executed ∪ retrieved` as collected in phase 3
(`hpos`: the collected positions are exactly those of the frozen hosts, well-formed), and let
`execNew` be what the new master had executed when the catch-up test succeeded (`hcaught`: it contains
the most recent position).  Then before any promotion every frozen host's transactions — executed or
merely received — are contained in what the promoted node has executed. -/
theorem promotion_safe (cfg : Cfg) (i : In) (s : Step) (hs : s ∈ performSwitchover cfg i) (hp : IsPromotion s)
    (total : String → GtidSet) (execNew : GtidSet)
    (hpos : ∀ ps, i.positions = some ps → (∀ p ∈ ps, WF p.gtid ∧ p.gtid = total p.host) ∧ ∀ f ∈ frozen i, ∃ p ∈ ps, p.host = f)
    (hcaught : i.catchUp = .caught → ∀ ps mr, i.positions = some ps → findMostRecent ps = .node mr → GSubset mr.gtid execNew)
    (hc : i.catchUp = .caught) :
    ∀ f ∈ frozen i, GSubset (total f) execNew := by
  obtain ⟨h, ok, rfl⟩ := hp
  exact SwitchoverLemmas.promotion_safe cfg i h ok hs total execNew hpos hcaught hc

/-- the same in terms of what the servers report: a replica's position is its executed set JOINED with
its retrieved set (`MysqlGTIDSet.Update`, proved to be set union and to keep sets well-formed in
Lemmas/NormalizeLemmas.lean), so no well-formedness assumption about the joined set is left: every
transaction a frozen host has executed OR merely received is in the promoted node's executed set -/
theorem promotion_safe_joined (cfg : Cfg) (i : In) (s : Step) (hs : s ∈ performSwitchover cfg i) (hp : IsPromotion s)
    (executed retrieved : String → GtidSet) (execNew : GtidSet)
    (hwf : ∀ h, WF (executed h) ∧ WF (retrieved h))
    (hpos : ∀ ps, i.positions = some ps →
      (∀ p ∈ ps, p.gtid = update (executed p.host) (retrieved p.host)) ∧ ∀ f ∈ frozen i, ∃ p ∈ ps, p.host = f)
    (hcaught : i.catchUp = .caught → ∀ ps mr, i.positions = some ps → findMostRecent ps = .node mr → GSubset mr.gtid execNew)
    (hc : i.catchUp = .caught) :
    ∀ f ∈ frozen i, GSubset (executed f) execNew ∧ GSubset (retrieved f) execNew := by
  intro f hf
  have h := promotion_safe cfg i s hs hp (fun h => update (executed h) (retrieved h)) execNew
    (fun ps hps => ⟨fun p hp' => ⟨by
        rw [(hpos ps hps).1 p hp']
        exact GtidLemmas.wf_update _ _ (hwf p.host).1 (hwf p.host).2.2, (hpos ps hps).1 p hp'⟩,
      (hpos ps hps).2⟩) hcaught hc f hf
  refine ⟨fun k x hm => h k x ?_, fun k x hm => h k x ?_⟩
  · exact (GtidLemmas.update_union _ _ (hwf f).2.1 k x).mpr (Or.inl hm)
  · exact (GtidLemmas.update_union _ _ (hwf f).2.1 k x).mpr (Or.inr hm)

/-- the only exception: the allowed lag of async mode during AUTOMATIC failover -/
theorem async_escape_only_if (cfg : Cfg) (sw : Manager.Switch) (delay : Option Int)
    (h : checkAsyncSwitchAllowed cfg sw delay = true) :
    cfg.async = true ∧ sw.causeAuto = true ∧ cfg.asyncAllowedLag > 0 ∧ ∃ d, delay = some d ∧ d * 1000000000 < cfg.asyncAllowedLag := by
  exact SwitchoverLemmas.async_escape_only_if cfg sw delay h

/-- split brain: if the frozen members' positions have no maximum, nothing is promoted (no writable,
no replication reset, no re-pointing) and the emergency marker is written -/
theorem splitbrain_aborts (cfg : Cfg) (i : In) (ps : List Pos)
    (hpos : i.positions = some ps) (hsb : findMostRecent ps = .splitBrain)
    (hreach : Step.positions true ∈ performSwitchover cfg i)
    (hwf : ∀ p ∈ ps, WF p.gtid) :
    (performSwitchover cfg i).getLast? = some .writeEmerge ∧
    ∀ s ∈ performSwitchover cfg i, ¬ IsPromotion s ∧ (∀ h ok, s ≠ .resetSlaveAll h ok) ∧ (∀ h t ok, s ≠ .changeMaster h t ok) := by
  -- CORRECTED after a counterexample: without `hwf` (sets as MySQL prints them: no empty interval) the first conjunct is
  -- false — one collected position with an empty interval does not contain itself, `findMostRecent` says split brain but
  -- the procedure stops earlier at "no suitable nodes to switch from" (`SwitchoverLemmas.splitbrain_aborts_counterexample`,
  -- kernel-checked).  The second conjunct needs neither `hwf` nor `hreach` (`splitbrain_never_promotes` below).
  obtain ⟨h1, h2⟩ := SwitchoverLemmas.splitbrain_aborts cfg i ps hpos hsb hreach hwf
  refine ⟨h1, fun s hs => ?_⟩
  obtain ⟨a, b, c⟩ := h2 s hs
  refine ⟨?_, b, c⟩
  intro hp
  cases s <;> simp [IsPromotion] at hp
  all_goals first | exact a _ _ rfl | exact b _ _ rfl | skip

/-- … whatever the sets look like: with positions that have no maximum nothing is promoted -/
theorem splitbrain_never_promotes (cfg : Cfg) (i : In) (ps : List Pos)
    (hpos : i.positions = some ps) (hsb : findMostRecent ps = .splitBrain) :
    ∀ s ∈ performSwitchover cfg i, (∀ h ok, s ≠ .setWritable h ok) ∧ (∀ h ok, s ≠ .resetSlaveAll h ok) ∧ (∀ h t ok, s ≠ .changeMaster h t ok) := by
  intro s hs
  have h := SwitchoverLemmas.splitbrain_no_promo cfg i ps hpos hsb s hs
  refine ⟨?_, ?_, ?_⟩ <;> intros <;> intro he <;> subst he <;> simp [SwitchoverLemmas.promo] at h

/-- the emergency marker is written only on split brain -/
theorem emerge_only_on_splitbrain (cfg : Cfg) (i : In) (h : Step.writeEmerge ∈ performSwitchover cfg i) :
    ∃ ps, i.positions = some ps ∧ findMostRecent ps = .splitBrain := by
  exact SwitchoverLemmas.emerge_only_on_splitbrain cfg i h

/-- order: every freeze step precedes the first lock re-confirmation, which precedes the catch-up test,
which precedes the second re-confirmation, which precedes every promotion step -/
theorem promotion_order (cfg : Cfg) (i : In) (pre post : List Step) (h : String) (ok : Bool)
    (hsplit : performSwitchover cfg i = pre ++ Step.setWritable h ok :: post) :
    ∃ a b c d, pre = a ++ Step.lockCheck 1 true :: b ++ Step.catchUp i.catchUp :: c ++ Step.lockCheck 2 true :: d ∧
      (∀ s ∈ b ++ c ++ d, (∀ x o, s ≠ .freezeRO x o) ∧ (∀ x o, s ≠ .stopIO x o)) ∧
      Step.resetSlaveAll h true ∈ d := by
  exact SwitchoverLemmas.promotion_order cfg i pre post h ok hsplit

/-- a crash at any point (= any prefix of the step list) has promoted nothing unless all of the above
already happened: immediate from `promotion_needs`, which speaks about membership in the full list,
because a prefix's elements are elements of the full list -/
theorem crash_prefix_safe (cfg : Cfg) (i : In) (pre post : List Step) (s : Step)
    (hsplit : performSwitchover cfg i = pre ++ post) (hs : s ∈ pre) (hp : IsPromotion s) :
    Gen.SwitchHelper.CheckFailoverQuorum (sh cfg) i.active (frozen i).length = none ∧ i.lock1 = true ∧ i.lock2 = true ∧
    (i.catchUp = .caught ∨ i.catchUp = .asyncEscape) := by
  have hs' : s ∈ performSwitchover cfg i := by rw [hsplit]; exact List.mem_append_left _ hs
  obtain ⟨_, _, h3, h4, h5, _, h7⟩ := promotion_needs cfg i s hs' hp
  exact ⟨h3, h4, h5, h7⟩

/-- the promoted host is the requested target, or one of the frozen positions -/
theorem promoted_is_target_or_frozen (cfg : Cfg) (i : In) (h : String) (ok : Bool)
    (hs : Step.setWritable h ok ∈ performSwitchover cfg i) :
    (i.sw.to ≠ "" ∧ h = i.sw.to) ∨ (i.sw.to = "" ∧ ∃ ps p, i.positions = some ps ∧ p ∈ ps ∧ p.host = h ∧ (i.sw.from_ = "" ∨ h ≠ i.sw.from_)) := by
  exact SwitchoverLemmas.promoted_is_target_or_frozen cfg i h ok hs

-- non-vacuity: a planned switchover in a healthy 3-node cluster promotes b
private def k : Key := ⟨"00000000-0000-0000-0000-000000000001", ""⟩
private def mst : NodeState := { pingOk := true, isMaster := true }
private def rep : NodeState := { pingOk := true, slave := some { state := .running, masterHost := "a" } }
private def i0 : In :=
  { cs := [("a", mst), ("b", rep), ("c", rep)], active := ["a", "b", "c"], sw := { to := "b" }, oldMaster := "a",
    ro := fun _ => true, io := fun _ => true,
    positions := some [⟨"a", [(k, [⟨1, 9⟩])], 99999999, 0⟩, ⟨"b", [(k, [⟨1, 9⟩])], 99999999, 0⟩, ⟨"c", [(k, [⟨1, 9⟩])], 99999999, 0⟩],
    cs2 := [("a", mst), ("b", rep), ("c", rep)], repoint := fun _ => true, oldStatus := .notReplica }
example : Step.setWritable "b" true ∈ performSwitchover ⟨true, 1, false, 0, 60⟩ i0 := by decide +kernel
example : (performSwitchover ⟨true, 1, false, 0, 60⟩ { i0 with ro := fun h => h == "a" }).getLast? = some (.quorumCheck 1 false) := by decide +kernel

end C01
