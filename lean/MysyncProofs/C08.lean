/-
C08 — Lost coordination service: fence the node unless provably safe.
PROPERTY THEOREMS ONLY (helper lemmas: MysyncProofs/Lemmas/LostLemmas.lean).
Model: MysyncModel/App/Lost.lean (`stateLost`, `checkHAReplicasRunning`).
The action alphabet of the model (`Lost.Act`) contains only local read-only / offline / semi-sync-off
requests and two reads: "never promotes, re-points or un-fences" is closed by construction in the
model and enforced on the real code by the replay monitors (any other statement, any remote
statement, any coordination write is a violation).
-/
import MysyncModel.App.Lost
import MysyncProofs.Lemmas.LostLemmas

namespace C08
open Lost LostLemmas

/-- the node is a master with a live group: as many good replicas as it waits for (semi-sync), all
of them without semi-sync -/
def LiveGroup (cfg : Cfg) (i : In) : Prop :=
  i.localIsMaster = true ∧
  ((cfg.semiSync = true ∧ ∃ w, i.localWaitCount = some w ∧ available i.probes ≥ w) ∨
   (cfg.semiSync = false ∧ available i.probes ≥ (i.haCount : Int) - 1))

/-- nothing is to be changed: single-node cluster, non-HA host, fencing disabled, or live group -/
def Exempt (cfg : Cfg) (i : In) : Prop :=
  i.haCount = 1 ∨ i.localIsHA = false ∨ cfg.disableSetReadonlyOnLost = true ∨ LiveGroup cfg i

theorem reconnected_goes_candidate (cfg : Cfg) (i : In) (h : i.connected = true) :
    stateLost cfg i = { acts := [], next := .candidate, timer := none } := by
  rw [stateLost_eq]; simp [h]

/-- it changes nothing when exempt (and stays in the lost state) -/
theorem exempt_changes_nothing (cfg : Cfg) (i : In) (hc : i.connected = false) (he : Exempt cfg i) :
    (stateLost cfg i).acts = [] ∧ (stateLost cfg i).next = .lost :=
  stateLost_exempt cfg i hc he

/-- a postponement (not exempt, yet nothing done) happens only while some replica is UNREACHABLE
(timing out) — never for replicas that merely refuse or answer badly — and only within the
inactivation delay counted from the first such iteration -/
theorem postpone_only_unreachable_and_bounded (cfg : Cfg) (i : In) (hc : i.connected = false)
    (hne : ¬ Exempt cfg i) (hnone : (stateLost cfg i).acts = []) :
    unreachable i.probes > 0 ∧
    ∃ t, (stateLost cfg i).timer = some t ∧ i.now - t ≤ cfg.inactivationDelay ∧
      (i.timer = some t ∨ (i.timer = none ∧ t = i.now)) := by
  obtain ⟨hp, htm⟩ := postpone_of_no_acts cfg i hc hne hnone
  rw [htm]
  exact postpone_true cfg i hp

/-- with no unreachable replica the node is fenced at once -/
theorem refusing_never_postpones (cfg : Cfg) (i : In) (hc : i.connected = false)
    (hne : ¬ Exempt cfg i) (hu : unreachable i.probes = 0) : (stateLost cfg i).acts ≠ [] := by
  rw [acts_of_not_postponed cfg i hc hne (postpone_false_of_no_unreachable cfg i hu)]
  exact fence_acts_ne_nil i _

/-- once the delay has passed since the timer was started, the node is fenced -/
theorem fences_after_delay (cfg : Cfg) (i : In) (t : Int) (hc : i.connected = false)
    (hne : ¬ Exempt cfg i) (ht : i.timer = some t) (hd : i.now - t > cfg.inactivationDelay) :
    (stateLost cfg i).acts ≠ [] := by
  rw [acts_of_not_postponed cfg i hc hne (postpone_false_of_expired cfg i t ht hd)]
  exact fence_acts_ne_nil i _

/-- fencing starts with the read-only request to the LOCAL node: forced on a master, plain on a replica -/
theorem fence_is_readonly_request (cfg : Cfg) (i : In) (hne : (stateLost cfg i).acts ≠ []) :
    (i.localIsMaster = true ∧ (stateLost cfg i).acts.head? = some .setReadOnlyForce) ∨
    (i.localIsMaster = false ∧ (stateLost cfg i).acts = [.setReadOnly, .readGtid]) := by
  obtain ⟨tm, h⟩ := fence_of_acts cfg i hne
  rw [h]
  exact fence_head i tm

set_option linter.unusedVariables false in
/-- if commits hang waiting for an acknowledgement (the read-only request timed out or hit the lock
wait timeout and a semi-sync wait is visible), client sessions are cut (offline mode), semi-sync is
disabled and the forced read-only is repeated -/
theorem stuck_commit_handling (cfg : Cfg) (i : In) (hc : i.connected = false) (hne : ¬ Exempt cfg i)
    (hnp : (stateLost cfg i).acts ≠ []) (hm : i.localIsMaster = true)
    (hro : i.firstRo = .deadline ∨ i.firstRo = .lockWait1205) (hack : i.ack = .waiting)
    (h1 : i.stopReplOfflineOk = true) (h2 : i.stopReplDisableOk = true) :
    ∃ tail, (stateLost cfg i).acts = [.setReadOnlyForce, .checkWaitingAck, .setOffline, .semiSyncDisable, .setReadOnlyForce] ++ tail := by
  obtain ⟨tm, h⟩ := fence_of_acts cfg i hnp
  rw [h]
  exact fence_stuck i tm hm hro hack h1 h2

/-- semi-sync is switched off and sessions are cut ONLY in that situation -/
theorem semisync_off_only_if_stuck (cfg : Cfg) (i : In) (h : Act.semiSyncDisable ∈ (stateLost cfg i).acts ∨ Act.setOffline ∈ (stateLost cfg i).acts) :
    i.localIsMaster = true ∧ (i.firstRo = .deadline ∨ i.firstRo = .lockWait1205) ∧ i.ack = .waiting := by
  have hne : (stateLost cfg i).acts ≠ [] := by
    intro h0; rw [h0] at h; simp at h
  obtain ⟨tm, ht⟩ := fence_of_acts cfg i hne
  rw [ht] at h
  exact fence_off_only_if_stuck i tm h

/-- the timer is cleared when the node is (again) provably safe or reconnected, so a later loss
starts a fresh postponement window -/
theorem timer_cleared_when_safe (cfg : Cfg) (i : In) (h : i.connected = true ∨ (i.connected = false ∧ i.haCount ≠ 1 ∧ i.localIsHA = true ∧ cfg.disableSetReadonlyOnLost = false ∧ LiveGroup cfg i)) :
    (stateLost cfg i).timer = none := by
  rcases h with h | ⟨hc, h1, h2, h3, hl⟩
  · rw [stateLost_eq]; simp [h]
  · rw [stateLost_live cfg i hc h1 h2 h3 ((live_iff cfg i).1 hl)]

-- non-vacuity
private def cfg0 : Cfg := ⟨true, false, 30⟩
private def i0 : In := { connected := false, haCount := 3, localIsHA := true, localIsMaster := true,
                         probes := [.notGood, .timeout, .notGood], localWaitCount := some 1, timer := none, now := 100 }
example : (stateLost cfg0 i0).acts = [] ∧ (stateLost cfg0 i0).timer = some 100 := by decide +kernel
example : (stateLost cfg0 { i0 with timer := some 60, now := 100 }).acts = [.setReadOnlyForce] := by decide +kernel
example : (stateLost cfg0 { i0 with probes := [.notGood, .good, .notGood] }).acts = [] := by decide +kernel

end C08
