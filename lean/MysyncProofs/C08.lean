/-
C08 — Lost coordination service: fence the node unless provably safe.
PROPERTY THEOREMS ONLY (helper lemmas: MysyncProofs/Lemmas/LostLemmas.lean).
Model: MysyncModel/App/Lost.lean (`stateLost`, `checkHAReplicasRunning`).
The action alphabet of the model (`Lost.Act`) contains only local read-only / offline / semi-sync-off
requests and two reads: "never promotes, re-points or un-fences" is closed by construction in the
model and enforced on the real code by the replay monitors (any other statement, any remote
statement, any coordination write is a violation).
-/
import MysyncModel.App.Lost
import MysyncProofs.Lemmas.LostLemmas

namespace C08
open Lost

/-- the node is a master with a live group: as many good replicas as it waits for (semi-sync), all
of them without semi-sync -/
def LiveGroup (cfg : Cfg) (i : In) : Prop :=
  i.localIsMaster = true ∧
  ((cfg.semiSync = true ∧ ∃ w, i.localWaitCount = some w ∧ available i.probes ≥ w) ∨
   (cfg.semiSync = false ∧ available i.probes ≥ (i.haCount : Int) - 1))

/-- nothing is to be changed: single-node cluster, non-HA host, fencing disabled, or live group -/
def Exempt (cfg : Cfg) (i : In) : Prop :=
  i.haCount = 1 ∨ i.localIsHA = false ∨ cfg.disableSetReadonlyOnLost = true ∨ LiveGroup cfg i

theorem reconnected_goes_candidate (cfg : Cfg) (i : In) (h : i.connected = true) :
    stateLost cfg i = { acts := [], next := .candidate, timer := none } := by
  sorry

/-- it changes nothing when exempt (and stays in the lost state) -/
theorem exempt_changes_nothing (cfg : Cfg) (i : In) (hc : i.connected = false) (he : Exempt cfg i) :
    (stateLost cfg i).acts = [] ∧ (stateLost cfg i).next = .lost := by
  sorry

/-- a postponement (not exempt, yet nothing done) happens only while some replica is UNREACHABLE
(timing out) — never for replicas that merely refuse or answer badly — and only within the
inactivation delay counted from the first such iteration -/
theorem postpone_only_unreachable_and_bounded (cfg : Cfg) (i : In) (hc : i.connected = false)
    (hne : ¬ Exempt cfg i) (hnone : (stateLost cfg i).acts = []) :
    unreachable i.probes > 0 ∧
    ∃ t, (stateLost cfg i).timer = some t ∧ i.now - t ≤ cfg.inactivationDelay ∧
      (i.timer = some t ∨ (i.timer = none ∧ t = i.now)) := by
  sorry

/-- with no unreachable replica the node is fenced at once -/
theorem refusing_never_postpones (cfg : Cfg) (i : In) (hc : i.connected = false)
    (hne : ¬ Exempt cfg i) (hu : unreachable i.probes = 0) : (stateLost cfg i).acts ≠ [] := by
  sorry

/-- once the delay has passed since the timer was started, the node is fenced -/
theorem fences_after_delay (cfg : Cfg) (i : In) (t : Int) (hc : i.connected = false)
    (hne : ¬ Exempt cfg i) (ht : i.timer = some t) (hd : i.now - t > cfg.inactivationDelay) :
    (stateLost cfg i).acts ≠ [] := by
  sorry

/-- fencing starts with the read-only request to the LOCAL node: forced on a master, plain on a replica -/
theorem fence_is_readonly_request (cfg : Cfg) (i : In) (hne : (stateLost cfg i).acts ≠ []) :
    (i.localIsMaster = true ∧ (stateLost cfg i).acts.head? = some .setReadOnlyForce) ∨
    (i.localIsMaster = false ∧ (stateLost cfg i).acts = [.setReadOnly, .readGtid]) := by
  sorry

/-- if commits hang waiting for an acknowledgement (the read-only request timed out or hit the lock
wait timeout and a semi-sync wait is visible), client sessions are cut (offline mode), semi-sync is
disabled and the forced read-only is repeated -/
theorem stuck_commit_handling (cfg : Cfg) (i : In) (hc : i.connected = false) (hne : ¬ Exempt cfg i)
    (hnp : (stateLost cfg i).acts ≠ []) (hm : i.localIsMaster = true)
    (hro : i.firstRo = .deadline ∨ i.firstRo = .lockWait1205) (hack : i.ack = .waiting)
    (h1 : i.stopReplOfflineOk = true) (h2 : i.stopReplDisableOk = true) :
    ∃ tail, (stateLost cfg i).acts = [.setReadOnlyForce, .checkWaitingAck, .setOffline, .semiSyncDisable, .setReadOnlyForce] ++ tail := by
  sorry

/-- semi-sync is switched off and sessions are cut ONLY in that situation -/
theorem semisync_off_only_if_stuck (cfg : Cfg) (i : In) (h : Act.semiSyncDisable ∈ (stateLost cfg i).acts ∨ Act.setOffline ∈ (stateLost cfg i).acts) :
    i.localIsMaster = true ∧ (i.firstRo = .deadline ∨ i.firstRo = .lockWait1205) ∧ i.ack = .waiting := by
  sorry

/-- the timer is cleared when the node is (again) provably safe or reconnected, so a later loss
starts a fresh postponement window -/
theorem timer_cleared_when_safe (cfg : Cfg) (i : In) (h : i.connected = true ∨ (i.connected = false ∧ i.haCount ≠ 1 ∧ i.localIsHA = true ∧ cfg.disableSetReadonlyOnLost = false ∧ LiveGroup cfg i)) :
    (stateLost cfg i).timer = none := by
  sorry

-- non-vacuity
private def cfg0 : Cfg := ⟨true, false, 30⟩
private def i0 : In := { connected := false, haCount := 3, localIsHA := true, localIsMaster := true,
                         probes := [.notGood, .timeout, .notGood], localWaitCount := some 1, timer := none, now := 100 }
example : (stateLost cfg0 i0).acts = [] ∧ (stateLost cfg0 i0).timer = some 100 := by decide +kernel
example : (stateLost cfg0 { i0 with timer := some 60, now := 100 }).acts = [.setReadOnlyForce] := by decide +kernel
example : (stateLost cfg0 { i0 with probes := [.notGood, .good, .notGood] }).acts = [] := by decide +kernel

end C08
