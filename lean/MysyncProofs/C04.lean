/-
C04 — Published active list covers every semi-sync acker and matches the ack count.
PROPERTY THEOREMS ONLY (helper lemmas: MysyncProofs/Lemmas/ActiveNodesLemmas.lean).
Model: MysyncModel/App/ActiveNodes.lean.

The crash-point / failed-call clause of the property is FALSE on the unchanged tree (and of the model,
which corresponds to it exactly): the `witness_*` theorems below are machine-checked concrete
histories for every class recorded in known_findings.json; the `…_partial` theorems state what does
hold and under which side conditions.
-/
import MysyncModel.App.ActiveNodes
import MysyncProofs.Lemmas.ActiveNodesLemmas

namespace C04
open NS Gtid ActiveNodes

/-! ### membership rule (`calcActiveNodes`) -/

/-- who is a member, in the property's terms: the master; or a non-cascade host, not marked for
recovery, that is either (reachable, a running replica whose executed set is not split-brained w.r.t.
the master's) or (unreachable, previously a member, and dubious / holding its health record / failing
for less than the inactivation delay) -/
theorem membership_rule (delay : Int) (i : CalcIn) (host : String) (node : NodeState)
    (hmem : (classify delay i host node).1.isMember = true) (hne : host ≠ i.master) :
    node.isCascade = false ∧
    (∀ l, i.recovery = some l → host ∉ l) ∧
    ((node.pingOk = true ∧ ∃ sl sg mg mu, node.slave = some sl ∧ sl.state = .running ∧
        parse sl.executed = some sg ∧ i.mgtid.bind parse = some mg ∧ i.muuid = some mu ∧ isSplitBrained sg mg mu = false) ∨
     (node.pingOk = false ∧ host ∈ i.oldActive ∧ ∃ d, i.dcs.get? host = some d ∧
        (node.pingDubious = true ∨ d.pingOk = true ∨
          ∃ t, (i.timers.get? host = some t ∨ (i.timers.get? host = none ∧ t = i.now)) ∧ i.now - t < delay))) := by
  unfold classify at hmem
  have hne' : (host == i.master) = false := by simpa using hne
  simp only [hne'] at hmem
  repeat' split at hmem
  all_goals simp_all [Membership.isMember]
  all_goals (rename_i hd _; rcases hd with hd | hd <;> simp [hd])

/-- the master is always a member, even when it is marked for recovery -/
theorem master_always_member (delay : Int) (i : CalcIn) (node : NodeState) :
    (classify delay i i.master node).1 = .master := by
  simp [classify]

/-- never ADDS an unreachable host: unreachable hosts are members only if they were members before -/
theorem unreachable_never_added (delay : Int) (i : CalcIn) (host : String) (node : NodeState)
    (hp : node.pingOk = false) (hne : host ≠ i.master) (hold : host ∉ i.oldActive) :
    (classify delay i host node).1.isMember = false := by
  unfold classify
  simp only [hp]
  repeat' split
  all_goals simp_all [Membership.isMember]

/-- the list returned by `calcActiveNodes` consists exactly of the visited hosts classified as members -/
theorem calc_members (delay : Int) (i : CalcIn) (active : List String) (cls : List (String × Membership)) (t : Timers)
    (h : calcActiveNodes delay i = some (active, cls, t)) :
    ∀ x, x ∈ active ↔ ∃ n, (x, n) ∈ i.cs ∧ (classify delay i x n).1.isMember = true :=
  ActiveNodesLemmas.mem_calcActiveNodes delay i active cls t h

/-! ### download-lag gate (`calcActiveNodesChanges`) -/

/-- a replica enters semi-sync (is in `becomeActive`) only if its download lag does not exceed
`semi_sync_enable_lag` -/
theorem datalag_gate (cfg : Cfg) (cs : ClusterState) (active old : List String) (master : String)
    (bl : List (String × Int)) (rp : List (String × String)) (ch : Changes) (h : String)
    (hc : calcChanges cfg cs active old master (some bl) rp = some ch) (hm : h ∈ ch.becomeActive) :
    ∀ sl, (cs.get? h).bind (·.slave) = some sl → calcLagBytes bl sl.logFile sl.logPos ≤ cfg.semiSyncEnableLag :=
  ActiveNodesLemmas.calcChanges_becomeActive_lag cfg cs active old master bl rp ch h hc hm

/-- a lagging replica whose IO position did not advance is made inactive; one that advances is
neither enabled nor made inactive -/
theorem datalag_disjoint (cfg : Cfg) (cs : ClusterState) (active old : List String) (master : String)
    (bl : Option (List (String × Int))) (rp : List (String × String)) (ch : Changes)
    (hc : calcChanges cfg cs active old master bl rp = some ch) :
    (∀ h, h ∈ ch.dataLag → h ∉ ch.becomeActive) ∧ (∀ h, h ∈ ch.becomeActive → h ∉ ch.becomeInactive) :=
  ActiveNodesLemmas.calcChanges_disjoint cfg cs active old master bl rp ch hc

/-! ### ordering facts of `updateActiveNodes` -/

/-- members are evicted only while the manager can reach the master: a publication that drops a
previous member is directly preceded by a successful ping of the master -/
theorem eviction_needs_master (i : UpdIn) (active : List String) (l : List String) (ok : Bool)
    (hp : (⟨.publish l, ok⟩ : Ev) ∈ publishPart i active) (hrem : filterOut i.oldActive active ≠ []) :
    (⟨.pingMasterShrink, true⟩ : Ev) ∈ publishPart i active ∧ l = active :=
  ActiveNodesLemmas.publishPart_eviction i active l ok hp hrem

/-- nothing at all is changed when the first master ping fails -/
theorem suspicious_master_no_update (cfg : Cfg) (i : UpdIn) (h : i.fails .pingMaster = true) :
    updateSemiSync cfg i = [⟨.pingMaster, false⟩] := by
  rw [ActiveNodesLemmas.updateSemiSync_eq, if_pos h]

/-- publication is the last call of the procedure -/
theorem publish_is_last (cfg : Cfg) (i : UpdIn) (l : List String) (ok : Bool)
    (h : (⟨.publish l, ok⟩ : Ev) ∈ updateSemiSync cfg i) : (updateSemiSync cfg i).getLast? = some ⟨.publish l, ok⟩ :=
  ActiveNodesLemmas.updateSemiSync_publish_last cfg i l ok h

/-- replicas entering semi-sync are enabled in list order and a host whose enabling failed is not published -/
theorem failed_enable_not_published (i : UpdIn) (hs : List String) (wsc : Int) (active : List String) (h : String)
    (hh : h ∈ hs) (hf : i.fails (.ssSetSlave h) = true) : h ∉ (enableLoop i hs wsc active).2.2 :=
  ActiveNodesLemmas.enableLoop_failed_not_member i hs wsc active h hh hf

/-! ### (a) and (b) after a complete iteration -/

/-- the semi-sync world described by the snapshot the iteration works from -/
def WorldMatches (i : UpdIn) (w : World) : Prop :=
  (∀ h, h ∈ w.slaveEnabled ↔ ∃ s ss, i.cs.get? h = some s ∧ s.semiSync = some ss ∧ ss.slaveEnabled = true) ∧
  (∃ ms ss, i.cs.get? i.master = some ms ∧ ms.semiSync = some ss ∧ w.masterEnabled = ss.masterEnabled ∧ w.waitCount = ss.waitSlaveCount) ∧
  w.published = i.oldActive

/-- (a) after a complete fault-free iteration: every reachable replica of the snapshot with the
semi-sync flag on is in the published list.  PARTIAL: stated for the replicas the iteration itself
handles (hosts of the snapshot), with all calls succeeding. -/
theorem complete_iteration_restores_A_partial (cfg : Cfg) (i : UpdIn) (w : World)
    (hw : WorldMatches i w) (hok : ∀ c, i.fails c = false)
    (hchg : i.changes.becomeInactive = filterOut ((i.cs.filter fun e => match e.2.semiSync with | some ss => ss.slaveEnabled | none => false).map (·.1)) i.active)
    (hsub : ∀ h, h ∈ i.changes.becomeActive → h ∈ i.active) (hm : i.master ∉ i.changes.becomeActive) :
    let w' := w.run i.master (updateSemiSync cfg i)
    ∀ h, h ∈ w'.slaveEnabled → h ≠ i.master → h ∈ w'.published := by
  intro w' h hh _
  have _ := hm  -- not needed: the lemma holds without it (and for `h = i.master` too)
  exact ActiveNodesLemmas.complete_iteration_restores_A cfg i w hw hok hchg hsub h hh

/-- (b) after a complete fault-free iteration WITHOUT data-lagging replicas: the master waits for at
least the number implied by the published list.  PARTIAL: with data-lagging replicas the statement is
false (`witness_B_data_lag`); `hchg` (the change set is the one `calcActiveNodesChanges` computes, so the
master is not told to leave semi-sync) is needed too: `ActiveNodesLemmas.counterexample_B_master_becomeInactive`. -/
theorem complete_iteration_restores_B_partial (cfg : Cfg) (i : UpdIn) (w : World)
    (hw : WorldMatches i w) (hok : ∀ c, i.fails c = false) (hlag : i.changes.dataLag = [])
    (hchg : i.changes.becomeInactive = filterOut ((i.cs.filter fun e => match e.2.semiSync with | some ss => ss.slaveEnabled | none => false).map (·.1)) i.active)
    (hm : i.master ∈ i.active) :
    invB cfg (w.run i.master (updateSemiSync cfg i)) = true :=
  ActiveNodesLemmas.complete_iteration_restores_B_partial_of_hchg cfg i w hw hok hlag hchg hm

/-! ### machine-checked witnesses of the breaker classes (negations with concrete histories) -/

private def ssm (w : Int) : NodeState := { pingOk := true, isMaster := true, masterExecuted := some "", semiSync := some ⟨true, false, w⟩ }
private def rep (ss : Bool) : NodeState := { pingOk := true, slave := some { state := .running, masterHost := "m" }, semiSync := some ⟨false, ss, 1⟩ }
private def cfgL : Cfg := ⟨true, 1, 30, 1000, false⟩
private def cfgM : Cfg := ⟨true, 1, 30, 1000, true⟩
private def noFail : Call → Bool := fun _ => false

/-- crash window for (a): a joining replica acknowledges before it is published -/
theorem witness_A_crash_window :
    let i : UpdIn := { cs := [("m", ssm 1), ("a", rep true), ("b", rep false)], master := "m", oldActive := ["m", "a"],
                       active := ["a", "b", "m"], changes := ⟨["b"], [], []⟩, ahead := fun _ => false, fails := noFail }
    let w0 : World := ⟨["a"], true, 1, ["m", "a"]⟩
    invA ["a", "b"] w0 = true ∧
    -- the prefix of length 2 (crash after `SET rpl_semi_sync_slave_enabled = 1` on b)
    invA ["a", "b"] (w0.run "m" ((updateSemiSync cfgL i).take 2)) = false := by
  exact ⟨by decide +kernel, by decide +kernel⟩

/-- crash window for (b): the ack count is lowered before the smaller list is published (both orders) -/
theorem witness_B_crash_window :
    let i : UpdIn := { cs := [("m", ssm 1), ("a", { pingOk := false })], master := "m", oldActive := ["m", "a"],
                       active := ["m"], changes := ⟨[], [], []⟩, ahead := fun _ => false, fails := noFail }
    let w0 : World := ⟨[], true, 1, ["m", "a"]⟩
    invB cfgL w0 = true ∧
    -- the prefix of length 2 (crash after the master's semi-sync was switched off, before the publication)
    invB cfgL (w0.run "m" ((updateSemiSync cfgL i).take 2)) = false ∧
    invB cfgM (w0.run "m" ((updateSemiSync cfgM i).take 2)) = false := by
  exact ⟨by decide +kernel, by decide +kernel, by decide +kernel⟩

/-- (b) is false after a COMPLETE fault-free iteration when a data-lagging replica is published -/
theorem witness_B_data_lag :
    let i : UpdIn := { cs := [("m", ssm 1), ("a", rep false)], master := "m", oldActive := ["m", "a"],
                       active := ["a", "m"], changes := ⟨[], [], ["a"]⟩, ahead := fun _ => false, fails := noFail }
    let w0 : World := ⟨[], true, 1, ["m", "a"]⟩
    invB cfgL w0 = true ∧ invB cfgL (w0.run "m" (updateSemiSync cfgL i)) = false := by
  exact ⟨by decide +kernel, by decide +kernel⟩

/-- one failed `SemiSyncDisable` on a leaving replica and the eviction is published anyway: (a) destroyed -/
theorem witness_A_failed_disable :
    let i : UpdIn := { cs := [("m", ssm 1), ("a", { (rep true) with slave := some { state := .stopped, masterHost := "m" } })],
                       master := "m", oldActive := ["m", "a"], active := ["m"], changes := ⟨[], ["a"], []⟩,
                       ahead := fun _ => false, fails := fun c => c == .ssDisable "a" }
    let w0 : World := ⟨["a"], true, 1, ["m", "a"]⟩
    invA ["a"] w0 = true ∧ invA ["a"] (w0.run "m" (updateSemiSync cfgL i)) = false := by
  exact ⟨by decide +kernel, by decide +kernel⟩

/-- the raise of the master's ack count fails (only logged) and the enlarged list is published: (b) destroyed -/
theorem witness_B_failed_raise :
    let i : UpdIn := { cs := [("m", { (ssm 1) with semiSync := some ⟨false, false, 1⟩ }), ("a", rep false)], master := "m", oldActive := ["m"],
                       active := ["a", "m"], changes := ⟨["a"], [], []⟩, ahead := fun _ => false, fails := fun c => c == .ssSetMaster "m" }
    let w0 : World := ⟨[], false, 1, ["m"]⟩
    invB cfgM w0 = true ∧ invB cfgM (w0.run "m" (updateSemiSync cfgM i)) = false := by
  exact ⟨by decide +kernel, by decide +kernel⟩

end C04
