/-
C09 — Maintenance freezes automation; leaving re-learns the real master.
PROPERTY THEOREMS ONLY (helper lemmas: MysyncProofs/Lemmas/ManagerLemmas.lean).
Models: MysyncModel/App/Manager.lean (manager iteration), MysyncModel/App/Maintenance.lean
(candidate / maintenance / first-run handlers, enter / leave).
-/
import MysyncModel.App.Maintenance
import MysyncProofs.Lemmas.ManagerLemmas

namespace C09
open NS Manager Maintenance

/-- steps of a manager iteration that change MySQL settings/topology, the recorded master, the
active list or a switch outcome -/
def Step.clusterWide : Step → Bool
  | .switchTimedOut | .switchRejected | .switchStarted _ | .switchPerformed _ | .switchFailed | .switchFinished
  | .issueFailover | .repairOffline | .repairCluster | .updateActiveNodes | .syncOptimization => true
  | _ => false

/-- a manager that reads an ACKNOWLEDGED full-maintenance record does nothing and goes to (stays in)
the paused state -/
theorem manager_paused_is_inert (cfg : Cfg) (i : In) (sl : Bool)
    (hc : i.connected = true) (hl : i.lockHeld = true) (hd : i.dcsStateErr = false) (hm : i.master.isSome)
    (ha : i.activeNodesErr = false) (hmaint : i.maint = .record false true sl) :
    (stateManager cfg i).steps = [] ∧ (stateManager cfg i).next = .maintenance :=
  ManagerLemmas.manager_paused_is_inert cfg i sl hc hl hd hm ha hmaint

/-- … and the same when the record cannot be read while the local marker file says "maintenance"
(coordination outage / restart during maintenance) -/
theorem manager_unreadable_with_file_is_inert (cfg : Cfg) (i : In)
    (hc : i.connected = true) (hl : i.lockHeld = true) (hd : i.dcsStateErr = false) (hm : i.master.isSome)
    (ha : i.activeNodesErr = false) (hmaint : i.maint = .err true) :
    (stateManager cfg i).steps = [] ∧ (stateManager cfg i).next = .maintenance :=
  ManagerLemmas.manager_unreadable_with_file_is_inert cfg i hc hl hd hm ha hmaint

/-- entering: the only actions are the configured semi-sync switch-off + list removal and the
acknowledgement itself; nothing cluster-wide happens in that iteration -/
theorem manager_entering_only_acknowledges (cfg : Cfg) (i : In) (sl : Bool)
    (hc : i.connected = true) (hl : i.lockHeld = true) (hd : i.dcsStateErr = false) (hm : i.master.isSome)
    (ha : i.activeNodesErr = false) (hmaint : i.maint = .record false false sl) :
    (stateManager cfg i).steps = [Step.enterMaintenance i.enterMaintOk] ∧
    ((stateManager cfg i).next = .maintenance ↔ i.enterMaintOk = true) :=
  ManagerLemmas.manager_entering_only_acknowledges cfg i sl hc hl hd hm ha hmaint

/-- the paused handler: while the record is present and does not say "leave" (or cannot be read) it
does nothing but keep the marker file, whatever else is true — across restarts and outages -/
theorem paused_handler_is_inert (maintFile lock : Bool) (maint : MaintRead) (i : LeaveIn)
    (h : (∃ f, maint = .err f) ∨ ∃ l p, maint = .record l p false) :
    (stateMaintenance maintFile maint lock i).2 = .maintenance ∧
    ∀ a ∈ (stateMaintenance maintFile maint lock i).1, a = Act.writeMaintFile :=
  ManagerLemmas.paused_handler_is_inert maintFile lock maint i h

/-- a restarted daemon that cannot reach the coordination service stays paused when the marker file exists -/
theorem restart_without_dcs_stays_paused (lock : Bool) : stateFirstRun false true lock = .maintenance :=
  ManagerLemmas.restart_without_dcs_stays_paused lock

/-- candidates follow only after the manager's acknowledgement, and never for light mode -/
theorem candidates_follow_after_ack (connected upd lock : Bool) (maint : MaintRead) :
    stateCandidate connected upd maint lock = .maintenance ↔
      (connected = true ∧ upd = true ∧ ∃ sl, maint = .record false true sl) :=
  ManagerLemmas.candidates_follow_after_ack connected upd lock maint

/-- light maintenance only suppresses failover: with no pending failover-type request, an iteration
under acknowledged light maintenance takes exactly the steps of the same iteration without
maintenance, minus the filing of a failover (and the iteration goes on to repairs instead) -/
theorem light_never_files_failover (cfg : Cfg) (i : In) (p sl : Bool) (hmaint : i.maint = .record true p sl) :
    Step.issueFailover ∉ (stateManager cfg i).steps :=
  ManagerLemmas.light_never_files_failover cfg i p sl hmaint

theorem light_parks_failover_requests (cfg : Cfg) (i : In) (sw : Switch)
    (hmaint : i.maint = .record true true false) (hsw : i.sw = .record sw) (hf : sw.failoverType = true) :
    ∀ s ∈ (stateManager cfg i).steps, s ≠ .switchStarted true ∧ s ≠ .switchStarted false ∧ s ≠ .switchRejected ∧
      s ≠ .switchTimedOut ∧ s ≠ .switchFinished ∧ s ≠ .switchFailed :=
  ManagerLemmas.light_parks_failover_requests cfg i sw hmaint hsw hf

/-- planned switchovers continue under light maintenance exactly as without it -/
theorem light_keeps_planned_switchovers (cfg : Cfg) (i : In) (sw : Switch)
    (hsw : i.sw = .record sw) (hf : sw.failoverType = false) :
    (stateManager cfg { i with maint := .record true true false }).steps = (stateManager cfg { i with maint := .absent }).steps :=
  ManagerLemmas.light_keeps_planned_switchovers cfg i sw hsw hf

/-- repairs and the active-list update continue under light maintenance when the master is healthy -/
theorem light_keeps_repairs (cfg : Cfg) (i : In) (master : String) (md cm : NodeState)
    (hc : i.connected = true) (hl : i.lockHeld = true) (hd : i.dcsStateErr = false) (hm : i.master = some master)
    (ha : i.activeNodesErr = false) (hmaint : i.maint = .record true true false) (hsw : i.sw = .absent)
    (hdm : i.dcs.get? master = some md) (hcm : i.cs.get? master = some cm) (hreach : cm.pingOk = true) :
    Step.repairCluster ∈ (stateManager cfg i).steps ∧ Step.updateActiveNodes ∈ (stateManager cfg i).steps :=
  ManagerLemmas.light_keeps_repairs cfg i master md cm hc hl hd hm ha hmaint hsw hdm hcm hreach

/-- leaving succeeds only when exactly one alive master exists; that node becomes the recorded
master, the rebuilt list is non-empty, and only then the record is deleted -/
theorem leave_iff_one_master (i : LeaveIn) :
    ((leaveMaintenance i).2 = true →
      ∃ m rest a, mastersOf i.cs = [m] ∧ Act.setMasterHost m ∈ (leaveMaintenance i).1 ∧
        i.activeAfter = some (a :: rest) ∧ Act.deleteMaintenance ∈ (leaveMaintenance i).1) ∧
    (Act.deleteMaintenance ∈ (leaveMaintenance i).1 →
      ∃ m rest a, mastersOf i.cs = [m] ∧ i.activeAfter = some (a :: rest)) :=
  ManagerLemmas.leave_iff_one_master i

/-- otherwise the mode is kept, and several masters raise the emergency marker (and nothing else) —
provided the host list could be refreshed; when that refresh fails nothing at all is done -/
theorem leave_keeps_mode_otherwise (i : LeaveIn) (h : (mastersOf i.cs).length ≠ 1) :
    (leaveMaintenance i).2 = false ∧ Act.deleteMaintenance ∉ (leaveMaintenance i).1 ∧
    (∀ m, Act.setMasterHost m ∉ (leaveMaintenance i).1) ∧
    (i.updateHostsOk = true → (mastersOf i.cs).length ≥ 2 → (leaveMaintenance i).1 = [Act.writeEmerge]) ∧
    (i.updateHostsOk = false → (leaveMaintenance i).1 = []) ∧
    ((mastersOf i.cs).length = 0 → (leaveMaintenance i).1 = []) :=
  ManagerLemmas.leave_keeps_mode_otherwise i h

/-- a failed leave keeps the daemon paused -/
theorem failed_leave_stays_paused (i : LeaveIn) (h : (leaveMaintenance i).2 = false) :
    (tryLeave true i).2 = .maintenance ∧ Act.removeMaintFile ∉ (tryLeave true i).1 :=
  ManagerLemmas.failed_leave_stays_paused i h

-- non-vacuity
private def mst : NodeState := { pingOk := true, isMaster := true }
private def rep : NodeState := { pingOk := true, slave := some { state := .running, masterHost := "b" } }
example : (leaveMaintenance { cs := [("a", rep), ("b", mst)], activeAfter := some ["b", "a"] }).2 = true := by decide +kernel
example : (leaveMaintenance { cs := [("a", mst), ("b", mst)] }).1 = [Act.writeEmerge] := by decide +kernel

end C09
