/-
C17 — Offline-mode policy: thresholds, hysteresis and per-zone cap.
PROPERTY THEOREMS ONLY (helper lemmas: MysyncProofs/Lemmas/OfflineLemmas.lean).
Model: MysyncModel/App/Offline.lean.
-/
import MysyncModel.App.Offline
import MysyncProofs.Lemmas.OfflineLemmas

namespace C17
open NS Offline

/-- a replica is taken offline for lag only when it is online, the master is writable, its lag
exceeds the enable threshold and the zone filter agrees -/
theorem offline_only_if (cfg : Cfg) (h : String) (st : NodeState) (mro : Bool) (cs : ClusterState) (p : Int)
    (hyp : lagOffline cfg h st mro cs p = true) :
    st.isOffline = false ∧ mro = false ∧
    (∃ sl lag, st.slave = some sl ∧ sl.lag = some lag ∧ lag > cfg.enableLag) ∧
    canSetOffline cfg h cs p = true := by
  exact OfflineLemmas.lagOffline_true cfg h st mro cs p hyp

/-- for a percentage strictly between 0 and 100 the filter's "yes" means that the share of offline
replicas in the zone, counting those taken offline earlier in the same pass and this one, stays
within the percentage -/
theorem cap_respected (cfg : Cfg) (h : String) (cs : ClusterState) (p : Int)
    (h0 : 0 < cfg.maxOfflinePct) (h100 : cfg.maxOfflinePct < 100)
    (hyp : canSetOffline cfg h cs p = true) :
    let c := azCounts cfg.azSeparator (getAZ h cfg.azSeparator) cs
    0 < c.1 ∧ (100 * (c.2 + p + 1)) / c.1 ≤ cfg.maxOfflinePct := by
  exact OfflineLemmas.canSetOffline_cap cfg h cs p h0 h100 hyp

theorem pct_0_never (cfg : Cfg) (h : String) (cs : ClusterState) (p : Int) (hp : cfg.maxOfflinePct ≤ 0) :
    canSetOffline cfg h cs p = false := by
  exact OfflineLemmas.canSetOffline_pct0 cfg h cs p hp

theorem pct_100_always (cfg : Cfg) (h : String) (cs : ClusterState) (p : Int) (hp : 100 ≤ cfg.maxOfflinePct) :
    canSetOffline cfg h cs p = true := by
  exact OfflineLemmas.canSetOffline_pct100 cfg h cs p hp

/-- the accumulation over one pass, for EVERY visiting order `l`: each host taken offline for lag was
allowed by the filter given exactly the number of same-zone hosts taken offline earlier in the pass -/
theorem pass_counts_earlier_in_same_pass (cfg : Cfg) (master : String) (cs : ClusterState)
    (l : List (String × NodeState)) (res : List String) (hres : lagPass cfg master cs l [] = res) :
    ∀ i h, res[i]? = some h →
      h ≠ master ∧
      ∃ st, (h, st) ∈ l ∧
        canSetOffline cfg h cs
          (((res.take i).filter fun t => getAZ t cfg.azSeparator == getAZ h cfg.azSeparator).length : Int) = true := by
  subst hres
  intro i h hi
  exact OfflineLemmas.lagPass_nil_spec cfg master cs l i h hi

/-- a replica is brought online only when it is offline, its lag is at or below the disable
threshold, its replication is not permanently broken and its resetup status is fresh and negative -/
theorem online_only_if (cfg : Cfg) (h : String) (st : NodeState) (mro : Bool) (cs : ClusterState) (i : SlaveIn)
    (hyp : Act.setOnline ∈ (slavePass cfg h st mro cs i).1) :
    st.isOffline = true ∧ st.permBroken = false ∧ i.resetup = .ok false false ∧
    (∃ sl lag, st.slave = some sl ∧ sl.lag = some lag ∧ lag ≤ cfg.disableLag) := by
  exact OfflineLemmas.slavePass_setOnline cfg h st mro cs i hyp

/-- between the thresholds the mode of a replica that is not permanently broken is left unchanged -/
theorem hysteresis (cfg : Cfg) (h : String) (st : NodeState) (mro : Bool) (cs : ClusterState) (i : SlaveIn)
    (hb : st.permBroken = false)
    (hl : ∀ sl lag, st.slave = some sl → sl.lag = some lag → cfg.disableLag < lag ∧ lag ≤ cfg.enableLag) :
    Act.setOnline ∉ (slavePass cfg h st mro cs i).1 ∧ Act.setOffline ∉ (slavePass cfg h st mro cs i).1 := by
  exact OfflineLemmas.slavePass_hysteresis cfg h st mro cs i hb hl

/-- replicas without a known lag are never touched -/
theorem unknown_lag_untouched (cfg : Cfg) (h : String) (st : NodeState) (mro : Bool) (cs : ClusterState) (i : SlaveIn)
    (hl : st.slave = none ∨ ∃ sl, st.slave = some sl ∧ sl.lag = none) :
    slavePass cfg h st mro cs i = ([], false) := by
  exact OfflineLemmas.slavePass_none cfg h st mro cs i hl

/-- permanently broken replicas are taken offline at most one per configured interval: two
consecutive "yes" answers of the rate limiter are more than the interval apart -/
theorem broken_rate_limit (cfg : Cfg) (last now1 now2 l1 l2 : Int)
    (h1 : brokenStep cfg last now1 = (true, l1)) (h2 : brokenStep cfg l1 now2 = (true, l2)) :
    now2 - now1 > cfg.enableInterval := by
  obtain ⟨_, e1⟩ := OfflineLemmas.brokenStep_true cfg last now1 l1 h1
  obtain ⟨g, _⟩ := OfflineLemmas.brokenStep_true cfg l1 now2 l2 h2
  omega

/-- a broken replica is taken offline by the rate-limited branch only when the stored time is older
than the interval, and the stored time is refreshed first -/
theorem broken_offline_only_if (cfg : Cfg) (h : String) (st : NodeState) (mro : Bool) (cs : ClusterState) (i : SlaveIn)
    (hyp : Act.updateLastShutdown ∈ (slavePass cfg h st mro cs i).1) :
    st.permBroken = true ∧ st.isOffline = false ∧ ∃ age, i.lastShutdownAge = some age ∧ age > cfg.enableInterval := by
  exact OfflineLemmas.slavePass_updateLastShutdown cfg h st mro cs i hyp

/-- the master is kept online unless it is marked for recovery, and is never taken offline here -/
theorem master_online_unless_marked (st : NodeState) (rec : Bool) :
    (masterPass st rec = [Act.setOnline] ↔ (st.isOffline = true ∧ rec = false)) ∧
    Act.setOffline ∉ masterPass st rec := by
  exact OfflineLemmas.masterPass_spec st rec

-- non-vacuity
private def cfg0 : Cfg := ⟨100, 30, 50, "-", 900⟩
private def lagging : NodeState := { pingOk := true, slave := some { lag := some 500, state := .running } }
private def mst : NodeState := { pingOk := true, isMaster := true }
private def cs0 : ClusterState := [("m", mst), ("a-1", lagging), ("a-2", lagging)]
example : lagPass cfg0 "m" cs0 cs0 [] = ["a-1"] := by decide
example : canSetOffline cfg0 "a-2" cs0 1 = false ∧ canSetOffline cfg0 "a-1" cs0 0 = true := by decide

end C17
