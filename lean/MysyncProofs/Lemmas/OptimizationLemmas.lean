/- Helper lemmas for C19 (statements of the property theorems are fixed in MysyncProofs/C19.lean). -/
import MysyncModel.App.Optimization

namespace OptimizationLemmas
open NS Optimization

end OptimizationLemmas
