/- Helper lemmas for C19 (statements of the property theorems are fixed in MysyncProofs/C19.lean).
Part 1 (`OptimizationTrace`): `Equal`, `runCalls`, the shape of `sync`'s trace.
Part 2 (`OptimizationWorld`): the registry+settings world under a trace.
This file: the property theorems of C19 stated over `(sync cfg i).evs`. -/
import MysyncModel.App.Optimization
import MysyncProofs.Lemmas.OptimizationTrace
import MysyncProofs.Lemmas.OptimizationWorld

namespace OptimizationLemmas
open NS Optimization

/-! ### classification -/

theorem classify_lost (cfg : Cfg) (m : RS) (r : RegHost) (en : Bool) (he : r.enabled = some en)
    (h : r.isMaster = true ∨ r.lag = none) : classify cfg m r = .cls .malfunctioning := by
  unfold classify
  rw [he]
  rcases h with h | h <;> simp [h]

theorem classify_converged (cfg : Cfg) (m : RS) (r : RegHost) (en : Bool) (l : Int) (he : r.enabled = some en)
    (hm : r.isMaster = false) (hl : r.lag = some l)
    (hc : (en = false ∧ l < cfg.highMark) ∨ (en = true ∧ l < cfg.lowMark)) : classify cfg m r = .cls .optimized := by
  unfold classify
  rw [he]
  rcases hc with ⟨h1, h2⟩ | ⟨h1, h2⟩ <;> simp [hm, hl, h1, h2]

/-- a host with a registry record and known settings gets a class -/
theorem classify_cls (cfg : Cfg) (m : RS) (r : RegHost) (he : r.enabled.isSome = true) (hs : r.settings.isSome = true) :
    ∃ c, classify cfg m r = .cls c := by
  obtain ⟨en, he⟩ := Option.isSome_iff_exists.1 he
  obtain ⟨s, hs⟩ := Option.isSome_iff_exists.1 hs
  unfold classify
  rw [he, hs]
  dsimp only
  repeat' split
  all_goals exact ⟨_, rfl⟩

/-- a `disabled` host runs with the master's settings -/
theorem classify_disabled (cfg : Cfg) (m : RS) (r : RegHost) (h : classify cfg m r = .cls .disabled) :
    ∃ s, r.settings = some s ∧ s = m := by
  revert h
  unfold classify
  rcases r.enabled with _ | en
  · simp
  rcases r.settings with _ | s
  · dsimp only
    intro h
    repeat' split at h
    all_goals simp at h
  · dsimp only
    intro h
    refine ⟨s, rfl, ?_⟩
    by_cases heq : Gen.ReplSettings.Equal s m = true
    · exact (equal_iff _ _).1 heq
    · exfalso
      simp only [heq, Bool.not_false, if_true] at h
      repeat' split at h
      all_goals simp at h

theorem wait_returns_unless_enabled (m : Int) (state : Option Bool) (lag : Option Int) (h : state ≠ some true) :
    isOptimizedDuringWaiting m state lag = (true, false) := by
  unfold isOptimizedDuringWaiting
  rcases state with _ | _ | _
  · rfl
  · rfl
  · exact absurd rfl h

/-! ### `disableAll` -/

theorem mem_disableAll (registry given : List String) (fails : Call → Bool) (e : Ev) :
    e ∈ disableAll registry given fails ↔ ∃ h ∈ registry, h ∈ given ∧
      (if fails (.restore h) then e = ⟨.restore h, false⟩
       else e = ⟨.restore h, true⟩ ∨ e = ⟨.deregister h, !fails (.deregister h)⟩) := by
  unfold disableAll
  simp only [List.mem_flatMap]
  constructor
  · rintro ⟨h, hr, he⟩
    by_cases hg : h ∈ given
    · refine ⟨h, hr, hg, ?_⟩
      have : given.contains h = true := by simpa using hg
      simp only [this, Bool.not_true, Bool.false_eq_true, if_false] at he
      cases hf : fails (.restore h) <;> simp only [hf, if_true, if_false, Bool.false_eq_true] at he ⊢ <;>
        simpa using he
    · simp at he
      exact absurd he.1 hg
  · rintro ⟨h, hr, hg, he⟩
    refine ⟨h, hr, ?_⟩
    have : given.contains h = true := by simpa using hg
    simp only [this, Bool.not_true, Bool.false_eq_true, if_false]
    cases hf : fails (.restore h) <;> simp only [hf, if_true, if_false, Bool.false_eq_true] at he ⊢ <;>
      simpa using he

theorem disableAll_restores_then_drops (registry given : List String) (fails : Call → Bool) (h : String) (ok : Bool)
    (hd : (⟨.deregister h, ok⟩ : Ev) ∈ disableAll registry given fails) :
    h ∈ registry ∧ h ∈ given ∧ fails (.restore h) = false ∧ (⟨.restore h, true⟩ : Ev) ∈ disableAll registry given fails := by
  obtain ⟨x, hr, hg, he⟩ := (mem_disableAll _ _ _ _).1 hd
  split at he
  · simp at he
  · rename_i hf
    simp at he
    obtain ⟨rfl, _⟩ := he
    refine ⟨hr, hg, by simpa using hf, (mem_disableAll _ _ _ _).2 ⟨h, hr, hg, ?_⟩⟩
    simp [hf]

theorem disableAll_complete (registry given : List String) (w : World) (m : RS)
    (hw : w.registered = registry) :
    let w' := w.run m (disableAll registry given fun _ => false)
    (∀ h ∈ given, h ∉ w'.registered) ∧ (∀ h ∈ given, h ∈ registry → w'.get h = m) := by
  have hnr : NoReg (disableAll registry given fun _ => false) := by
    intro e he x
    obtain ⟨y, _, _, h⟩ := (mem_disableAll _ _ _ _).1 he
    simp at h
    rcases h with h | h <;> simp [h]
  have hnx : ∀ x, (⟨.relax x, true⟩ : Ev) ∉ disableAll registry given fun _ => false := by
    intro x he
    obtain ⟨y, _, _, h⟩ := (mem_disableAll _ _ _ _).1 he
    simp at h
  refine ⟨fun h hg hmem => ?_, fun h hg hr => ?_⟩
  · have hr : h ∈ registry := hw ▸ (run_registered_sublist w m _ hnr).subset hmem
    exact run_deregistered w m _ h hnr ((mem_disableAll _ _ _ _).2 ⟨h, hr, hg, by simp⟩) hmem
  · exact get_run_restored w m _ h ((mem_disableAll _ _ _ _).2 ⟨h, hr, hg, by simp⟩) (hnx h)


/-! ### membership in `sync`'s trace -/

/-- every event of `sync` is a restore or a deregistration of `toDisable`, or belongs to the balance part -/
theorem sync_mem (cfg : Cfg) (i : SyncIn) (e : Ev) (he : e ∈ (sync cfg i).evs) :
    e.call ∈ restoreCalls (toDisable cfg i) ∨ e.call ∈ deregCalls (toDisable cfg i) ∨ e ∈ (balance cfg i).evs := by
  rcases sync_cases cfg i with h | ⟨h, _⟩ | ⟨h, _⟩ | h <;> rw [h] at he
  · simp [SyncOut.evs] at he
  · exact Or.inl (runCalls_mem _ _ _ he)
  · simp only [SyncOut.evs, List.mem_append] at he
    rcases he with he | he
    · exact Or.inl ((mem_okEvs _ _).1 he).2
    · exact Or.inr (Or.inl (runCalls_mem _ _ _ he))
  · simp only [evs_prepend, List.mem_append] at he
    rcases he with (he | he) | he
    · exact Or.inl ((mem_okEvs _ _).1 he).2
    · exact Or.inr (Or.inl ((mem_okEvs _ _).1 he).2)
    · exact Or.inr (Or.inr he)

theorem sync_noReg (cfg : Cfg) (i : SyncIn) : NoReg (sync cfg i).evs := by
  intro e he x hx
  rcases sync_mem cfg i e he with h | h | h
  · obtain ⟨r, _, _, h⟩ := (mem_restoreCalls _ _).1 h; simp [hx] at h
  · obtain ⟨r, _, h⟩ := (mem_deregCalls _ _).1 h; simp [hx] at h
  · rcases balance_mem cfg i e h with ⟨r, _, _, h⟩ | h | h <;> simp [hx] at h

/-- only the `special` host is ever relaxed -/
theorem sync_relax_special (cfg : Cfg) (i : SyncIn) (x : String) (ok : Bool)
    (he : (⟨.relax x, ok⟩ : Ev) ∈ (sync cfg i).evs) : x = special cfg i := by
  rcases sync_mem cfg i _ he with h | h | h
  · obtain ⟨r, _, _, h⟩ := (mem_restoreCalls _ _).1 h; simp at h
  · obtain ⟨r, _, h⟩ := (mem_deregCalls _ _).1 h; simp at h
  · rcases balance_mem cfg i _ h with ⟨r, _, _, h⟩ | h | h <;> simp at h
    exact h

/-! ### `sync_relaxes_at_most_one` -/

def isRelax (e : Ev) : Bool := match e.call with | .relax _ => true | _ => false

theorem filter_isRelax_nil (l : List Ev) (h : ∀ e ∈ l, ∀ x, e.call ≠ .relax x) : l.filter isRelax = [] := by
  rw [List.filter_eq_nil_iff]
  intro e he
  have := h e he
  unfold isRelax
  split
  · rename_i x hx; exact absurd hx (this x)
  · simp

theorem filter_isRelax_runCalls_restore (fails : Call → Bool) (l : List RegHost) :
    (runCalls fails (restoreCalls l)).1.filter isRelax = [] := by
  apply filter_isRelax_nil
  intro e he x hx
  obtain ⟨r, _, _, h⟩ := (mem_restoreCalls _ _).1 (runCalls_mem _ _ _ he)
  simp [hx] at h

theorem filter_isRelax_runCalls_dereg (fails : Call → Bool) (l : List RegHost) :
    (runCalls fails (deregCalls l)).1.filter isRelax = [] := by
  apply filter_isRelax_nil
  intro e he x hx
  obtain ⟨r, _, h⟩ := (mem_deregCalls _ _).1 (runCalls_mem _ _ _ he)
  simp [hx] at h

theorem filter_isRelax_okEvs_restore (l : List RegHost) : (okEvs (restoreCalls l)).filter isRelax = [] := by
  apply filter_isRelax_nil
  intro e he x hx
  obtain ⟨r, _, _, h⟩ := (mem_restoreCalls _ _).1 ((mem_okEvs _ _).1 he).2
  simp [hx] at h

theorem filter_isRelax_okEvs_dereg (l : List RegHost) : (okEvs (deregCalls l)).filter isRelax = [] := by
  apply filter_isRelax_nil
  intro e he x hx
  obtain ⟨r, _, h⟩ := (mem_deregCalls _ _).1 ((mem_okEvs _ _).1 he).2
  simp [hx] at h

theorem syncNodeOptions_relax_le (i : SyncIn) (h : RegHost) : ((syncNodeOptions i h).filter isRelax).length ≤ 1 := by
  unfold syncNodeOptions
  split
  · exact List.length_filter_le _ _
  · split
    · rw [List.filter_cons_of_neg (by simp [isRelax])]; exact List.length_filter_le _ _
    · exact List.length_filter_le _ _

theorem balance_relax_le (cfg : Cfg) (i : SyncIn) : ((balance cfg i).evs.filter isRelax).length ≤ 1 := by
  unfold balance
  generalize ofClass cfg i .optimizing = o
  generalize ofClass cfg i .disabled = d
  rcases o with _ | ⟨f, _ | ⟨s, r⟩⟩
  · rcases d with _ | ⟨d, _⟩
    · simp [SyncOut.evs]
    · dsimp only; split
      · simp [SyncOut.evs]
      · exact List.length_filter_le _ _
  · dsimp only; split
    · simp [SyncOut.evs]
    · exact syncNodeOptions_relax_le i f
  · dsimp only
    split
    · simp [SyncOut.evs, filter_isRelax_runCalls_restore]
    · split
      · simp [SyncOut.evs, filter_isRelax_runCalls_restore]
      · simp only [SyncOut.evs, List.filter_append, filter_isRelax_runCalls_restore, List.nil_append]
        exact syncNodeOptions_relax_le i f

theorem sync_relaxes_at_most_one (cfg : Cfg) (i : SyncIn) : ((sync cfg i).evs.filter isRelax).length ≤ 1 := by
  rcases sync_cases cfg i with h | ⟨h, _⟩ | ⟨h, _⟩ | h <;> rw [h]
  · simp [SyncOut.evs]
  · simp [SyncOut.evs, filter_isRelax_runCalls_restore]
  · simp [SyncOut.evs, filter_isRelax_okEvs_restore, filter_isRelax_runCalls_dereg]
  · simp only [evs_prepend, List.filter_append, filter_isRelax_okEvs_restore, filter_isRelax_okEvs_dereg, List.nil_append]
    exact balance_relax_le cfg i

/-! ### `lost_and_converged_are_dropped` -/

theorem lost_and_converged_are_dropped (cfg : Cfg) (i : SyncIn) (t : List Ev) (r : RegHost)
    (hok : ∀ c, i.fails c = false) (hs : sync cfg i = .trace t) (hr : r ∈ toDisable cfg i) :
    (⟨.deregister r.name, true⟩ : Ev) ∈ t ∧ (r.hasNode = true → (⟨.restore r.name, true⟩ : Ev) ∈ t) := by
  rcases sync_nofail cfg i hok with h | h <;> rw [h] at hs
  · simp at hs
  · obtain ⟨tb, _, rfl⟩ := prepend_eq_trace _ _ _ hs
    constructor
    · apply List.mem_append_left; apply List.mem_append_right
      exact (mem_okEvs _ _).2 ⟨rfl, (mem_deregCalls _ _).2 ⟨r, hr, rfl⟩⟩
    · intro hn
      apply List.mem_append_left; apply List.mem_append_left
      exact (mem_okEvs _ _).2 ⟨rfl, (mem_restoreCalls _ _).2 ⟨r, hr, hn, rfl⟩⟩


/-- an element that does not occur in `p` sits behind `p` in `p ++ q` -/
theorem split_behind_prefix {α : Type} (e : α) (pre post p q : List α) (h : pre ++ e :: post = p ++ q) (he : e ∉ p) :
    ∃ c, pre = p ++ c ∧ q = c ++ e :: post := by
  induction p generalizing pre with
  | nil => exact ⟨pre, rfl, h.symm⟩
  | cons a p ih =>
    cases pre with
    | nil =>
      simp only [List.nil_append, List.cons_append, List.cons.injEq] at h
      exact absurd (h.1 ▸ List.mem_cons_self) he
    | cons b pre =>
      simp only [List.cons_append, List.cons.injEq] at h
      obtain ⟨c, h1, h2⟩ := ih pre h.2 (fun hm => he (List.mem_cons_of_mem _ hm))
      exact ⟨c, by rw [h.1, h1]; rfl, h2⟩

/-! ### `restore_before_deregister` -/

/-- either nothing is deregistered, or all restores of `toDisable` went through first and only hosts of
`toDisable` are deregistered -/
theorem sync_evs_shape (cfg : Cfg) (i : SyncIn) :
    (∀ e ∈ (sync cfg i).evs, ∀ x, e.call ≠ .deregister x) ∨
    ∃ rest, (sync cfg i).evs = okEvs (restoreCalls (toDisable cfg i)) ++ rest ∧
      ∀ e ∈ rest, ∀ x, e.call = .deregister x → ∃ r ∈ toDisable cfg i, r.name = x := by
  have hd : ∀ e : Ev, e.call ∈ deregCalls (toDisable cfg i) → ∀ x, e.call = .deregister x →
      ∃ r ∈ toDisable cfg i, r.name = x := by
    intro e he x hx
    obtain ⟨r, hr, h⟩ := (mem_deregCalls _ _).1 he
    rw [hx] at h
    injection h with h
    exact ⟨r, hr, h.symm⟩
  rcases sync_cases cfg i with h | ⟨h, _⟩ | ⟨h, _⟩ | h <;> rw [h]
  · left; simp [SyncOut.evs]
  · left
    intro e he x hx
    obtain ⟨r, _, _, h⟩ := (mem_restoreCalls _ _).1 (runCalls_mem _ _ _ he)
    simp [hx] at h
  · right
    exact ⟨_, rfl, fun e he => hd e (runCalls_mem _ _ _ he)⟩
  · right
    refine ⟨okEvs (deregCalls (toDisable cfg i)) ++ (balance cfg i).evs, by simp [evs_prepend], ?_⟩
    intro e he x hx
    rcases List.mem_append.1 he with he | he
    · exact hd e ((mem_okEvs _ _).1 he).2 x hx
    · rcases balance_mem cfg i e he with ⟨r, _, _, h⟩ | h | h <;> simp [hx] at h

theorem restore_before_deregister (cfg : Cfg) (i : SyncIn) (pre post : List Ev) (h : String) (ok : Bool)
    (hsplit : (sync cfg i).evs = pre ++ ⟨.deregister h, ok⟩ :: post) :
    (⟨.restore h, true⟩ : Ev) ∈ pre ∨ ∃ r ∈ i.hosts, r.name = h ∧ r.hasNode = false := by
  rcases sync_evs_shape cfg i with hno | ⟨rest, hrest, hd⟩
  · exact absurd rfl (hno ⟨.deregister h, ok⟩ (by rw [hsplit]; simp) h)
  · rw [hrest] at hsplit
    have hnot : (⟨.deregister h, ok⟩ : Ev) ∉ okEvs (restoreCalls (toDisable cfg i)) := by
      intro hm
      obtain ⟨r, _, _, h⟩ := (mem_restoreCalls _ _).1 ((mem_okEvs _ _).1 hm).2
      simp at h
    obtain ⟨c, hpre, hq⟩ := split_behind_prefix _ _ _ _ _ hsplit.symm hnot
    obtain ⟨r, hr, hname⟩ := hd ⟨.deregister h, ok⟩ (by rw [hq]; simp) h rfl
    cases hn : r.hasNode
    · exact Or.inr ⟨r, ((mem_toDisable _ _ _).1 hr).1, hname, hn⟩
    · left
      rw [hpre]
      apply List.mem_append_left
      exact (mem_okEvs _ _).2 ⟨rfl, (mem_restoreCalls _ _).2 ⟨r, hr, hn, by rw [hname]⟩⟩

/-! ### `failed_restore_drops_nothing` -/

theorem balance_failed_restore (cfg : Cfg) (i : SyncIn) (h : String)
    (hf : (⟨.restore h, false⟩ : Ev) ∈ (balance cfg i).evs) :
    (balance cfg i).evs.getLast? = some ⟨.restore h, false⟩ := by
  unfold balance at *
  generalize ofClass cfg i .optimizing = o at *
  generalize ofClass cfg i .disabled = d at *
  have hsno : ∀ f, (⟨.restore h, false⟩ : Ev) ∉ syncNodeOptions i f := by
    intro f hm
    rcases syncNodeOptions_mem i f _ hm with h | h <;> simp at h
  rcases o with _ | ⟨f, _ | ⟨s, r⟩⟩
  · rcases d with _ | ⟨d, _⟩
    · simp [SyncOut.evs] at hf
    · dsimp only at hf
      split at hf <;> simp [SyncOut.evs] at hf
  · dsimp only at hf
    split at hf
    · simp [SyncOut.evs] at hf
    · exact absurd hf (hsno f)
  · dsimp only at hf ⊢
    cases h3 : (runCalls i.fails (restoreCalls (s :: r))).2
    · simp only [h3, Bool.not_false, if_true, SyncOut.evs] at hf ⊢
      exact (runCalls_failed _ _ _ hf).1
    · exfalso
      have hno : (⟨.restore h, false⟩ : Ev) ∉ (runCalls i.fails (restoreCalls (s :: r))).1 := by
        intro hm
        have := (runCalls_failed _ _ _ hm).2
        rw [h3] at this; cases this
      simp only [h3, Bool.not_true, Bool.false_eq_true, if_false] at hf
      split at hf
      · exact hno hf
      · simp only [SyncOut.evs, List.mem_append] at hf
        rcases hf with hf | hf
        · exact hno hf
        · exact hsno f hf

theorem failed_restore_drops_nothing (cfg : Cfg) (i : SyncIn) (h : String)
    (hf : (⟨.restore h, false⟩ : Ev) ∈ (sync cfg i).evs) :
    (sync cfg i).evs.getLast? = some ⟨.restore h, false⟩ ∧ ∀ x ok, (⟨.deregister x, ok⟩ : Ev) ∈ (sync cfg i).evs →
      ∃ pre post, (sync cfg i).evs = pre ++ ⟨.deregister x, ok⟩ :: post ∧ (⟨.restore h, false⟩ : Ev) ∈ post := by
  have hR : ∀ x ok, (⟨.deregister x, ok⟩ : Ev) ∉ (runCalls i.fails (restoreCalls (toDisable cfg i))).1 := by
    intro x ok hm
    obtain ⟨r, _, _, h⟩ := (mem_restoreCalls _ _).1 (runCalls_mem _ _ _ hm)
    simp at h
  rcases sync_cases cfg i with hc | ⟨hc, _⟩ | ⟨hc, _⟩ | hc <;> rw [hc] at hf ⊢
  · simp [SyncOut.evs] at hf
  · exact ⟨(runCalls_failed _ _ _ hf).1, fun x ok hm => absurd hm (hR x ok)⟩
  · exfalso
    simp only [SyncOut.evs, List.mem_append] at hf
    rcases hf with hf | hf
    · have := ((mem_okEvs _ _).1 hf).1; simp at this
    · obtain ⟨r, _, h⟩ := (mem_deregCalls _ _).1 (runCalls_mem _ _ _ hf)
      simp at h
  · simp only [evs_prepend, List.mem_append] at hf ⊢
    have hb : (⟨.restore h, false⟩ : Ev) ∈ (balance cfg i).evs := by
      rcases hf with (hf | hf) | hf
      · have := ((mem_okEvs _ _).1 hf).1; simp at this
      · have := ((mem_okEvs _ _).1 hf).1; simp at this
      · exact hf
    refine ⟨by rw [List.getLast?_append, balance_failed_restore cfg i h hb]; rfl, ?_⟩
    intro x ok hm
    rcases hm with (hm | hm) | hm
    · obtain ⟨r, _, _, h⟩ := (mem_restoreCalls _ _).1 ((mem_okEvs _ _).1 hm).2
      simp at h
    · obtain ⟨a, b, hab⟩ := List.append_of_mem hm
      refine ⟨okEvs (restoreCalls (toDisable cfg i)) ++ a, b ++ (balance cfg i).evs, ?_, List.mem_append_right _ hb⟩
      rw [hab]; simp
    · rcases balance_mem cfg i _ hm with ⟨r, _, _, h⟩ | h | h <;> simp at h


/-! ### `sync_at_most_one` -/

theorem balance_restores_rest (cfg : Cfg) (i : SyncIn) (hok : ∀ c, i.fails c = false) (f r : RegHost)
    (rest : List RegHost) (ho : ofClass cfg i .optimizing = f :: rest) (hr : r ∈ rest) (hn : r.hasNode = true) :
    (⟨.restore r.name, true⟩ : Ev) ∈ (balance cfg i).evs := by
  have hm : ∀ l, r ∈ l → (⟨.restore r.name, true⟩ : Ev) ∈ okEvs (restoreCalls l) := fun l hl =>
    (mem_okEvs _ _).2 ⟨rfl, (mem_restoreCalls _ _).2 ⟨r, hl, hn, rfl⟩⟩
  unfold balance
  rw [ho]
  rcases rest with _ | ⟨s, r'⟩
  · simp at hr
  · dsimp only
    rw [runCalls_nofail _ hok]
    simp only [Bool.not_true, Bool.false_eq_true, if_false]
    split
    · exact hm _ hr
    · exact List.mem_append_left _ (hm _ hr)

theorem nodup_all_eq_length_le_one {α : Type} (l : List α) (a : α) (hn : l.Nodup) (h : ∀ x ∈ l, x = a) :
    l.length ≤ 1 := by
  rcases l with _ | ⟨x, _ | ⟨y, l⟩⟩
  · simp
  · simp
  · exfalso
    have hx := h x (by simp)
    have hy := h y (by simp)
    simp [hx, hy] at hn

/-- the hypotheses of C19's `Consistent`, restated so that the lemma does not depend on the property file -/
theorem sync_at_most_one (cfg : Cfg) (i : SyncIn) (w : World) (t : List Ev)
    (hreg : w.registered = i.hosts.map (·.name)) (hnd : (i.hosts.map (·.name)).Nodup)
    (hh : ∀ h ∈ i.hosts, h.hasNode = true ∧ h.settings = some (w.get h.name) ∧ h.enabled.isSome = true)
    (hok : ∀ c, i.fails c = false) (hs : sync cfg i = .trace t) :
    ((w.run i.masterRs t).relaxed i.masterRs (w.run i.masterRs t).registered).length ≤ 1 := by
  have hevs : (sync cfg i).evs = t := by rw [hs]; rfl
  have hnr : NoReg t := hevs ▸ sync_noReg cfg i
  have hsub := run_registered_sublist w i.masterRs t hnr
  -- every registered host except the special one ends with the master's settings
  have key : ∀ x ∈ (w.run i.masterRs t).registered, x ≠ special cfg i →
      Gen.ReplSettings.Equal ((w.run i.masterRs t).get x) i.masterRs = true := by
    intro x hx hne
    have hx0 : x ∈ i.hosts.map (·.name) := hreg ▸ hsub.subset hx
    obtain ⟨r, hr, rfl⟩ := List.mem_map.1 hx0
    obtain ⟨hn, hset, hen⟩ := hh r hr
    have hnorelax : (⟨.relax r.name, true⟩ : Ev) ∉ t := fun hm =>
      hne (sync_relax_special cfg i _ _ (hevs ▸ hm))
    have hnd' : r ∉ toDisable cfg i := fun hm =>
      run_deregistered w i.masterRs t r.name hnr (lost_and_converged_are_dropped cfg i t r hok hs hm).1 hx
    obtain ⟨c, hc⟩ := classify_cls cfg i.masterRs r hen (by rw [hset]; rfl)
    cases c with
    | malfunctioning => exact absurd ((mem_toDisable _ _ _).2 ⟨hr, Or.inr hc⟩) hnd'
    | optimized => exact absurd ((mem_toDisable _ _ _).2 ⟨hr, Or.inl hc⟩) hnd'
    | disabled =>
      obtain ⟨s, hs1, hs2⟩ := classify_disabled cfg i.masterRs r hc
      rw [hset] at hs1
      injection hs1 with hs1
      rcases get_run_no_relax w i.masterRs t r.name hnorelax with h | h <;> rw [h]
      · exact equal_refl _
      · rw [hs1, hs2]; exact equal_refl _
    | optimizing =>
      have hro : r ∈ ofClass cfg i .optimizing := (mem_ofClass _ _ _ _).2 ⟨hr, hc⟩
      rcases ho : ofClass cfg i .optimizing with _ | ⟨f, rest⟩
      · rw [ho] at hro; simp at hro
      · rw [ho] at hro
        have hsp : special cfg i = f.name := by unfold special; rw [ho]
        rcases List.mem_cons.1 hro with rfl | hrest
        · exact absurd hsp.symm hne
        · have hb := balance_restores_rest cfg i hok f r rest ho hrest hn
          have hm : (⟨.restore r.name, true⟩ : Ev) ∈ t := by
            rcases sync_nofail cfg i hok with h | h
            · rw [h] at hs; simp at hs
            · rw [← hevs, h, evs_prepend]; exact List.mem_append_right _ hb
          rw [get_run_restored w i.masterRs t r.name hm hnorelax]
          exact equal_refl _
  have hnodup : (w.run i.masterRs t).registered.Nodup := hsub.nodup (hreg ▸ hnd)
  apply nodup_all_eq_length_le_one _ (special cfg i) (hnodup.filter _)
  intro x hx
  simp only [List.mem_filter] at hx
  by_cases hne : x = special cfg i
  · exact hne
  · have := key x hx.1 hne
    simp [this] at hx

end OptimizationLemmas
