/-
QuorumSpec — the specification of the GENERATED quorum arithmetic, in a fixed normal form.

`MysyncModel/Generated/SwitchHelper.lean` is re-translated from the Go source on every run, so the SHAPE of
its definitions (`min`/`max` versus explicit `if`, early returns, order of the branches) follows whatever the
maintainers wrote.  This is the ONLY proof file that unfolds the four generated definitions; every other proof
rewrites with the lemmas below and then does arithmetic on the normal form.  The proof scripts here do not
depend on the shape (case split on every `if`/`min`/`max`, then linear arithmetic), so a behaviour-preserving
rewrite of the Go code leaves the whole development untouched, while a change of the arithmetic breaks
this file.
-/
import MysyncModel.Generated.SwitchHelper

namespace QuorumSpec
open Gen.SwitchHelper

/-- shape-agnostic closing script: split every conditional of the goal, normalise, linear arithmetic -/
local macro "quorum_arith" : tactic =>
  `(tactic| (
    all_goals (repeat' split)
    all_goals (try simp_all)
    all_goals (try omega)))

/-- truncated division by two of a length is the floor division `omega` understands -/
theorem tdiv2 (n : Nat) : Int.tdiv (n : Int) 2 = (n : Int) / 2 :=
  Int.tdiv_eq_ediv_of_nonneg (Int.natCast_nonneg n)

/-- acknowledgements demanded from the master: half the list (rounded down), capped by the configured count -/
theorem req_spec (sh : SwitchHelper) (l : List String) :
    GetRequiredWaitSlaveCount sh l
      = min (Int.tdiv (l.length : Int) 2) sh.rplSemiSyncMasterWaitForSlaveCount := by
  unfold GetRequiredWaitSlaveCount
  (try simp only [tdiv2])
  quorum_arith

/-- failover quorum: the list minus the demanded count, at least one -/
theorem quorum_spec (sh : SwitchHelper) (l : List String) :
    GetFailoverQuorum sh l = max ((l.length : Int) - GetRequiredWaitSlaveCount sh l) 1 := by
  unfold GetFailoverQuorum
  -- (the right-hand side mentions the other generated definition: bring it to its normal form first — the left-hand
  -- side may or may not go through it, depending on how the Go code is factored)
  simp only [req_spec, tdiv2]
  quorum_arith

/-- the check passes iff (semi-sync) the quorum is met, or (async) some replica is permissible -/
theorem check_spec (sh : SwitchHelper) (l : List String) (p : Int) :
    CheckFailoverQuorum sh l p = none
      ↔ (if sh.SemiSync = true then GetFailoverQuorum sh l ≤ p else p ≠ 0) := by
  unfold CheckFailoverQuorum
  simp only [quorum_spec, req_spec, tdiv2]
  quorum_arith

theorem check_spec_semi (sh : SwitchHelper) (l : List String) (p : Int) (hs : sh.SemiSync = true) :
    CheckFailoverQuorum sh l p = none ↔ GetFailoverQuorum sh l ≤ p := by
  rw [check_spec, if_pos hs]

theorem check_spec_async (sh : SwitchHelper) (l : List String) (p : Int) (hs : sh.SemiSync = false) :
    CheckFailoverQuorum sh l p = none ↔ p ≠ 0 := by
  rw [check_spec, if_neg (by simp [hs])]

/-- `isNone` form, as used by the application model -/
theorem check_isNone (sh : SwitchHelper) (l : List String) (p : Int) :
    (CheckFailoverQuorum sh l p).isNone = true
      ↔ (if sh.SemiSync = true then GetFailoverQuorum sh l ≤ p else p ≠ 0) := by
  rw [Option.isNone_iff_eq_none, check_spec]

/-- `isSome` form (the error case; the message itself is not specified) -/
theorem check_isSome (sh : SwitchHelper) (l : List String) (p : Int) :
    (CheckFailoverQuorum sh l p).isSome = true
      ↔ (if sh.SemiSync = true then p < GetFailoverQuorum sh l else p = 0) := by
  rw [← Option.not_isNone, Bool.not_eq_true', ← Bool.not_eq_true, check_isNone]
  split <;> omega

/-- the optimization phase is allowed exactly under semi-sync -/
theorem opt_spec (sh : SwitchHelper) : IsOptimizationPhaseAllowed sh = sh.SemiSync := by
  unfold IsOptimizationPhaseAllowed
  quorum_arith

end QuorumSpec
