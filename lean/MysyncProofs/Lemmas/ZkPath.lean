/- Helper lemmas for C15, part 1: `buildFullPath` at character level. -/
import MysyncModel.Dcs.Zk

namespace ZkLemmas
open Zk

/-! ### collapse -/

theorem collapse_cons_ne (c : Char) (l : List Char) (hc : c ≠ sep) : collapse (c :: l) = c :: collapse l := by
  cases l with
  | nil => simp [collapse]
  | cons b rest => simp [collapse, hc]

theorem collapse_sep_sep (l : List Char) : collapse (sep :: sep :: l) = collapse (sep :: l) := by
  simp [collapse]

theorem collapse_sep_ne (c : Char) (l : List Char) (hc : c ≠ sep) :
    collapse (sep :: c :: l) = sep :: collapse (c :: l) := by
  simp [collapse, hc]

theorem collapse_append_noSep (w l : List Char) (hw : ∀ c ∈ w, c ≠ sep) : collapse (w ++ l) = w ++ collapse l := by
  induction w with
  | nil => rfl
  | cons a w ih =>
    have ha : a ≠ sep := hw a (by simp)
    have hw' : ∀ c ∈ w, c ≠ sep := fun c hc => hw c (by simp [hc])
    simp [collapse_cons_ne _ _ ha, ih hw']

theorem collapse_sep_ne_nil (l : List Char) : collapse (sep :: l) ≠ [] := by
  induction l with
  | nil => simp [collapse]
  | cons b rest ih =>
    by_cases hb : b = sep
    · subst hb; rw [collapse_sep_sep]; exact ih
    · rw [collapse_sep_ne _ _ hb]; simp

/-! ### stripTrailing -/

theorem stripTrailing_cons (a : Char) (x : List Char) (hx : x ≠ []) : stripTrailing (a :: x) = a :: stripTrailing x := by
  cases x with
  | nil => exact absurd rfl hx
  | cons b y =>
    simp only [stripTrailing, List.getLast?_cons_cons]
    cases h : (b :: y).getLast? with
    | none => simp
    | some c =>
      by_cases hc : c = sep
      · simp [hc, List.dropLast]
      · simp [hc]

theorem stripTrailing_append (w x : List Char) (hx : x ≠ []) : stripTrailing (w ++ x) = w ++ stripTrailing x := by
  induction w with
  | nil => rfl
  | cons a w ih =>
    have : w ++ x ≠ [] := by simp [hx]
    simp [stripTrailing_cons _ _ this, ih]

theorem stripTrailing_noSep (w : List Char) (hw : ∀ c ∈ w, c ≠ sep) : stripTrailing w = w := by
  unfold stripTrailing
  cases h : w.getLast? with
  | none => rfl
  | some c =>
    have : c ∈ w := List.mem_of_getLast? h
    simp [hw c this]

/-! ### segs -/

theorem segsAux_append_sep (a b cur : List Char) : segsAux (a ++ sep :: b) cur = segsAux a cur ++ segs b := by
  induction a generalizing cur with
  | nil =>
    by_cases hc : cur.isEmpty <;> simp [segsAux, segs, hc]
  | cons c a ih =>
    by_cases hc : c = sep
    · by_cases he : cur.isEmpty <;> simp [segsAux, hc, he, ih]
    · simp [segsAux, hc, ih]

theorem segs_append_sep (a b : List Char) : segs (a ++ sep :: b) = segs a ++ segs b :=
  segsAux_append_sep a b []

theorem segs_sep_cons (l : List Char) : segs (sep :: l) = segs l := by
  simp [segs, segsAux]

theorem segsAux_noSep_append (w l cur : List Char) (hw : ∀ c ∈ w, c ≠ sep) :
    segsAux (w ++ l) cur = segsAux l (w.reverse ++ cur) := by
  induction w generalizing cur with
  | nil => rfl
  | cons a w ih =>
    have ha : a ≠ sep := hw a (by simp)
    have hw' : ∀ c ∈ w, c ≠ sep := fun c hc => hw c (by simp [hc])
    simp [segsAux, ha, ih _ hw']

/-- every piece is non-empty and free of separators -/
theorem segsAux_good (l cur : List Char) (hcur : ∀ c ∈ cur, c ≠ sep) :
    ∀ sg ∈ segsAux l cur, sg ≠ [] ∧ ∀ c ∈ sg, c ≠ sep := by
  induction l generalizing cur with
  | nil =>
    intro sg hsg
    by_cases he : cur.isEmpty
    · simp [segsAux, he] at hsg
    · simp [segsAux, he] at hsg
      subst hsg
      refine ⟨by simpa using he, ?_⟩
      intro c hc; exact hcur c (by simpa using hc)
  | cons a l ih =>
    intro sg hsg
    by_cases ha : a = sep
    · by_cases he : cur.isEmpty
      · simp [segsAux, ha, he] at hsg
        exact ih [] (by simp) sg hsg
      · simp [segsAux, ha, he] at hsg
        rcases hsg with hsg | hsg
        · subst hsg
          refine ⟨by simpa using he, ?_⟩
          intro c hc; exact hcur c (by simpa using hc)
        · exact ih [] (by simp) sg hsg
    · simp [segsAux, ha] at hsg
      refine ih (a :: cur) ?_ sg hsg
      intro c hc
      rcases List.mem_cons.1 hc with h | h
      · exact h ▸ ha
      · exact hcur c h

theorem segs_good (l : List Char) : ∀ sg ∈ segs l, sg ≠ [] ∧ ∀ c ∈ sg, c ≠ sep :=
  segsAux_good l [] (by simp)

theorem segsAux_spell (ss : List (List Char)) (cur : List Char) (hcur : cur ≠ [])
    (hss : ∀ sg ∈ ss, sg ≠ [] ∧ ∀ c ∈ sg, c ≠ sep) :
    segsAux (spell ss) cur = cur.reverse :: ss := by
  induction ss generalizing cur with
  | nil => simp [spell, segsAux, hcur]
  | cons sg ss ih =>
    have hsg := hss sg (by simp)
    have hss' : ∀ t ∈ ss, t ≠ [] ∧ ∀ c ∈ t, c ≠ sep := fun t ht => hss t (by simp [ht])
    have hrev : sg.reverse ≠ [] := by simpa using hsg.1
    simp only [spell, List.cons_append, segsAux]
    simp only [beq_self_eq_true, if_true]
    have hce : cur.isEmpty = false := by simpa using hcur
    simp only [hce, Bool.false_eq_true, if_false]
    rw [segsAux_noSep_append sg (spell ss) [] hsg.2, List.append_nil, ih sg.reverse hrev hss']
    simp

theorem segs_spell (ss : List (List Char)) (hss : ∀ sg ∈ ss, sg ≠ [] ∧ ∀ c ∈ sg, c ≠ sep) :
    segs (spell ss) = ss := by
  cases ss with
  | nil => simp [spell, segs, segsAux]
  | cons sg ss =>
    have hsg := hss sg (by simp)
    have hss' : ∀ t ∈ ss, t ≠ [] ∧ ∀ c ∈ t, c ≠ sep := fun t ht => hss t (by simp [ht])
    have hrev : sg.reverse ≠ [] := by simpa using hsg.1
    simp only [spell, List.cons_append, segs_sep_cons]
    unfold segs
    rw [segsAux_noSep_append sg (spell ss) [] hsg.2, List.append_nil, segsAux_spell ss sg.reverse hrev hss']
    simp

/-! ### the normal form -/

/-- `norm l` = collapse, then strip -/
def norm (l : List Char) : List Char := stripTrailing (collapse l)

theorem norm_core (l : List Char) :
    norm (sep :: l) = spell (segs l) ∧
    ∀ cur, cur ≠ [] → (∀ c ∈ cur, c ≠ sep) → sep :: norm (cur.reverse ++ l) = spell (segsAux l cur) := by
  induction l with
  | nil =>
    refine ⟨by simp [norm, collapse, stripTrailing, segs, segsAux, spell], ?_⟩
    intro cur hne hcur
    have hr : ∀ c ∈ cur.reverse, c ≠ sep := fun c hc => hcur c (by simpa using hc)
    have hce : cur.isEmpty = false := by simpa using hne
    have h1 : collapse cur.reverse = cur.reverse := by
      simpa [collapse] using collapse_append_noSep cur.reverse [] hr
    simp [norm, h1, stripTrailing_noSep _ hr, segsAux, hce, spell]
  | cons a l ih =>
    obtain ⟨ihQ, ihP⟩ := ih
    by_cases ha : a = sep
    · subst ha
      refine ⟨?_, ?_⟩
      · rw [segs_sep_cons, ← ihQ]; simp [norm, collapse_sep_sep]
      · intro cur hne hcur
        have hr : ∀ c ∈ cur.reverse, c ≠ sep := fun c hc => hcur c (by simpa using hc)
        have hce : cur.isEmpty = false := by simpa using hne
        have h1 : norm (cur.reverse ++ sep :: l) = cur.reverse ++ norm (sep :: l) := by
          simp only [norm, collapse_append_noSep _ _ hr]
          exact stripTrailing_append _ _ (collapse_sep_ne_nil l)
        rw [h1, ihQ]
        simp [segsAux, hce, spell, segs]
    · refine ⟨?_, ?_⟩
      · have h1 : norm (sep :: a :: l) = sep :: norm (a :: l) := by
          simp only [norm, collapse_sep_ne _ _ ha]
          refine stripTrailing_cons _ _ ?_
          rw [collapse_cons_ne _ _ ha]; simp
        have h2 := ihP [a] (by simp) (by simpa using ha)
        rw [h1]
        simpa [segs, segsAux, ha] using h2
      · intro cur hne hcur
        have h2 := ihP (a :: cur) (by simp) (by
          intro c hc
          rcases List.mem_cons.1 hc with h | h
          · exact h ▸ ha
          · exact hcur c h)
        simpa [segsAux, ha] using h2

theorem norm_sep (l : List Char) : norm (sep :: l) = spell (segs l) := (norm_core l).1

theorem norm_ne (a : Char) (l : List Char) (ha : a ≠ sep) : sep :: norm (a :: l) = spell (segs (a :: l)) := by
  have h := (norm_core l).2 [a] (by simp) (by simpa using ha)
  simpa [segs, segsAux, ha] using h

/-- general form: with a namespace that starts with a separator (or is empty) the key is the canonical
spelling; otherwise the canonical spelling without its leading separator -/
theorem norm_general (l : List Char) :
    (match l with
     | [] => ([] : List Char)
     | a :: _ => if a = sep then norm l else sep :: norm l) = spell (segs l) := by
  cases l with
  | nil => simp [segs, segsAux, spell]
  | cons a l =>
    by_cases ha : a = sep
    · subst ha; simp [norm_sep, segs_sep_cons]
    · simp [ha, norm_ne a l ha]

theorem buildFullPathChars_eq (ns p : List Char) : buildFullPathChars ns p = norm (ns ++ sep :: p) := by
  simp [buildFullPathChars, norm]

theorem segs_join (ns p : List Char) : segs (ns ++ sep :: p) = segs ns ++ segs p := segs_append_sep ns p

/-- the key as a function of the pieces, for any namespace -/
theorem key_general (ns p : List Char) :
    (match ns with
     | [] => buildFullPathChars ns p
     | a :: _ => if a = sep then buildFullPathChars ns p else sep :: buildFullPathChars ns p)
      = spell (segs ns ++ segs p) := by
  rw [← segs_join, ← norm_general, buildFullPathChars_eq]
  cases ns with
  | nil => simp
  | cons a ns => simp

theorem key_lead (ns p : List Char) (hlead : ns.head? = some sep) :
    buildFullPathChars ns p = spell (segs ns ++ segs p) := by
  have h := key_general ns p
  cases ns with
  | nil => simp at hlead
  | cons a ns =>
    have ha : a = sep := by simpa using hlead
    simpa [ha] using h

theorem key_same (ns p q : List Char) (h : segs p = segs q) :
    buildFullPathChars ns p = buildFullPathChars ns q := by
  have hp := key_general ns p
  have hq := key_general ns q
  rw [h, ← hq] at hp
  cases ns with
  | nil => simpa using hp
  | cons a ns =>
    by_cases ha : a = sep
    · simpa [ha] using hp
    · simpa [ha] using hp

theorem key_segs (ns p : List Char) : segs (buildFullPathChars ns p) = segs ns ++ segs p := by
  have hg : ∀ sg ∈ segs ns ++ segs p, sg ≠ [] ∧ ∀ c ∈ sg, c ≠ sep := by
    intro sg hsg
    rcases List.mem_append.1 hsg with h | h
    · exact segs_good ns sg h
    · exact segs_good p sg h
  have h := key_general ns p
  have h2 := segs_spell _ hg
  rw [← h] at h2
  cases ns with
  | nil => simpa using h2
  | cons a ns =>
    by_cases ha : a = sep
    · simpa [ha] using h2
    · simpa [ha, segs_sep_cons] using h2

end ZkLemmas
