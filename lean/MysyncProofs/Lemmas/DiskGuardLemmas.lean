/- Helper lemmas for C18 (statements of the property theorems are fixed in MysyncProofs/C18.lean). -/
import MysyncModel.App.DiskGuard

namespace DiskGuardLemmas
open NS DiskGuard

/-! ### One loop iteration, classified

Every iteration of the loop does one of six things to the accumulator; which one depends only on
the entry (not on the accumulator).  All order/characterisation facts follow from that. -/

/-- what one DCS entry does to the accumulator -/
inductive Kind
  | skip      -- nothing
  | crit      -- master at critical usage: `needRo := true`
  | grey      -- master in the grey zone: `mayWrite := false`
  | low       -- counted replica at critical usage
  | mid       -- counted replica in the grey zone
  | normal    -- counted replica at normal usage
  deriving DecidableEq, Repr

/-- the "running semi-sync replica" condition of the loop -/
def counted (cfg : Cfg) (node : NodeState) : Bool :=
  cfg.semiSync &&
    (match node.semiSync with | some s => s.slaveEnabled | none => false) &&
    (match node.slave with | some s => s.state == .running | none => false)

def kind (cfg : Cfg) (m : String) (e : String × NodeState) : Kind :=
  match e.2.disk with
  | none => .skip
  | some d =>
    if e.2.isMaster && m == e.1 then
      if d.usageGe cfg.crit then .crit
      else if d.usageGt cfg.notCrit then .grey
      else .skip
    else if counted cfg e.2 then
      if d.usageGe cfg.crit then .low
      else if d.usageGt cfg.notCrit then .mid
      else .normal
    else .skip

def applyKind (t : Tally) : Kind → Tally
  | .skip => t
  | .crit => { t with needRo := true }
  | .grey => { t with mayWrite := false }
  | .low => { t with running := t.running + 1, low := t.low + 1 }
  | .mid => { t with running := t.running + 1 }
  | .normal => { t with running := t.running + 1, normal := t.normal + 1 }

theorem tallyStep_some (cfg : Cfg) (m : String) (t : Tally) (host : String) (node : NodeState)
    (d : DiskState) (hd : node.disk = some d) :
    tallyStep cfg m t (host, node) =
      if node.isMaster && m == host then
        if d.usageGe cfg.crit then { t with needRo := true }
        else if d.usageGt cfg.notCrit then { t with mayWrite := false }
        else t
      else if counted cfg node then
        if d.usageGe cfg.crit then { t with running := t.running + 1, low := t.low + 1 }
        else if d.usageGt cfg.notCrit then { t with running := t.running + 1 }
        else { t with running := t.running + 1, normal := t.normal + 1 }
      else t := by
  unfold tallyStep
  simp only [hd]
  rfl

theorem tallyStep_eq (cfg : Cfg) (m : String) (t : Tally) (e : String × NodeState) :
    tallyStep cfg m t e = applyKind t (kind cfg m e) := by
  obtain ⟨host, node⟩ := e
  cases hd : node.disk with
  | none =>
    unfold tallyStep kind
    simp only [hd]
    rfl
  | some d =>
    rw [tallyStep_some cfg m t host node d hd]
    unfold kind
    simp only [hd]
    cases (node.isMaster && m == host) <;> cases counted cfg node <;>
      cases d.usageGe cfg.crit <;> cases d.usageGt cfg.notCrit <;> rfl

theorem applyKind_comm (t : Tally) (a b : Kind) :
    applyKind (applyKind t a) b = applyKind (applyKind t b) a := by
  cases a <;> cases b <;> rfl

theorem tallyStep_comm (cfg : Cfg) (m : String) (t : Tally) (a b : String × NodeState) :
    tallyStep cfg m (tallyStep cfg m t a) b = tallyStep cfg m (tallyStep cfg m t b) a := by
  simp only [tallyStep_eq, applyKind_comm]

theorem foldl_perm (cfg : Cfg) (m : String) {l l' : ClusterState} (h : l.Perm l') (t : Tally) :
    l.foldl (tallyStep cfg m) t = l'.foldl (tallyStep cfg m) t := by
  induction h generalizing t with
  | nil => rfl
  | cons x _ ih => exact ih _
  | swap x y l => simp only [List.foldl_cons, tallyStep_comm cfg m t y x]
  | trans _ _ ih₁ ih₂ => exact (ih₁ t).trans (ih₂ t)

/-! ### What `kind` means -/

theorem kind_crit_iff (cfg : Cfg) (m : String) (e : String × NodeState) :
    kind cfg m e = .crit ↔
      (e.2.isMaster = true ∧ m = e.1 ∧ ∃ d, e.2.disk = some d ∧ d.usageGe cfg.crit = true) := by
  unfold kind
  cases hd : e.2.disk with
  | none => simp
  | some d =>
    simp only [Option.some.injEq, exists_eq_left', ← beq_iff_eq (a := m)]
    cases e.2.isMaster <;> cases (m == e.1) <;> cases counted cfg e.2 <;>
      cases d.usageGe cfg.crit <;> cases d.usageGt cfg.notCrit <;> decide

theorem kind_grey_iff (cfg : Cfg) (m : String) (e : String × NodeState) :
    kind cfg m e = .grey ↔
      (e.2.isMaster = true ∧ m = e.1 ∧
        ∃ d, e.2.disk = some d ∧ d.usageGe cfg.crit = false ∧ d.usageGt cfg.notCrit = true) := by
  unfold kind
  cases hd : e.2.disk with
  | none => simp
  | some d =>
    simp only [Option.some.injEq, exists_eq_left', ← beq_iff_eq (a := m)]
    cases e.2.isMaster <;> cases (m == e.1) <;> cases counted cfg e.2 <;>
      cases d.usageGe cfg.crit <;> cases d.usageGt cfg.notCrit <;> decide

/-! ### The fold, generalised over the accumulator -/

theorem applyKind_needRo (t : Tally) (k : Kind) :
    (applyKind t k).needRo = true ↔ (t.needRo = true ∨ k = .crit) := by
  cases k <;> simp [applyKind]

theorem applyKind_mayWrite (t : Tally) (k : Kind) :
    (applyKind t k).mayWrite = false ↔ (t.mayWrite = false ∨ k = .grey) := by
  cases k <;> simp [applyKind]

theorem foldl_needRo (cfg : Cfg) (m : String) (dcs : ClusterState) (t : Tally) :
    (dcs.foldl (tallyStep cfg m) t).needRo = true ↔
      (t.needRo = true ∨ ∃ e ∈ dcs, kind cfg m e = .crit) := by
  induction dcs generalizing t with
  | nil => simp
  | cons a l ih =>
    rw [List.foldl_cons, ih, tallyStep_eq, applyKind_needRo]
    simp only [List.mem_cons, exists_eq_or_imp, or_assoc]

theorem foldl_mayWrite (cfg : Cfg) (m : String) (dcs : ClusterState) (t : Tally) :
    (dcs.foldl (tallyStep cfg m) t).mayWrite = false ↔
      (t.mayWrite = false ∨ ∃ e ∈ dcs, kind cfg m e = .grey) := by
  induction dcs generalizing t with
  | nil => simp
  | cons a l ih =>
    rw [List.foldl_cons, ih, tallyStep_eq, applyKind_mayWrite]
    simp only [List.mem_cons, exists_eq_or_imp, or_assoc]

/-- the invariant of the three counters -/
def Sane (t : Tally) : Prop := 0 ≤ t.low ∧ 0 ≤ t.normal ∧ t.low + t.normal ≤ t.running

theorem applyKind_sane (t : Tally) (k : Kind) (h : Sane t) : Sane (applyKind t k) := by
  obtain ⟨h1, h2, h3⟩ := h
  cases k <;> simp only [applyKind, Sane] <;> omega

theorem foldl_sane (cfg : Cfg) (m : String) (dcs : ClusterState) (t : Tally) (h : Sane t) :
    Sane (dcs.foldl (tallyStep cfg m) t) := by
  induction dcs generalizing t with
  | nil => exact h
  | cons a l ih =>
    rw [List.foldl_cons, tallyStep_eq]
    exact ih _ (applyKind_sane t _ h)

theorem tally_sane (cfg : Cfg) (m : String) (dcs : ClusterState) : Sane (tally cfg m dcs) :=
  foldl_sane cfg m dcs {} (by simp [Sane])

theorem tally_needRo (cfg : Cfg) (m : String) (dcs : ClusterState) :
    (tally cfg m dcs).needRo = true ↔
      ∃ e ∈ dcs, e.2.isMaster = true ∧ m = e.1 ∧ ∃ d, e.2.disk = some d ∧ d.usageGe cfg.crit = true := by
  unfold tally
  rw [foldl_needRo]
  simp only [kind_crit_iff, Bool.false_eq_true, false_or]

theorem tally_mayWrite (cfg : Cfg) (m : String) (dcs : ClusterState) :
    (tally cfg m dcs).mayWrite = false ↔
      ∃ e ∈ dcs, e.2.isMaster = true ∧ m = e.1 ∧
        ∃ d, e.2.disk = some d ∧ d.usageGe cfg.crit = false ∧ d.usageGt cfg.notCrit = true := by
  unfold tally
  rw [foldl_mayWrite]
  simp only [kind_grey_iff, Bool.true_eq_false, false_or]

/-! ### The part after the loop and the decision -/

/-- the replica-counter condition that forces read-only -/
def ReplCrit (ms : NodeState) (t : Tally) : Prop :=
  t.running > 0 ∧ ∃ ss, ms.semiSync = some ss ∧ t.low > t.running - ss.waitSlaveCount

theorem afterReplicas_needRo (ms : NodeState) (t : Tally) :
    (afterReplicas ms t).needRo = true ↔ (t.needRo = true ∨ ReplCrit ms t) := by
  unfold afterReplicas ReplCrit
  by_cases hr : t.running > 0
  · simp only [hr, if_true, true_and]
    cases hs : ms.semiSync with
    | none =>
      simp only [reduceCtorEq, false_and, exists_false, or_false]
      split <;> rfl
    | some ss =>
      simp only [Option.some.injEq, exists_eq_left']
      by_cases hl : t.low > t.running - ss.waitSlaveCount
      · simp [hl]
      · simp only [hl, if_false, or_false]
        split <;> rfl
  · simp [hr]

theorem afterReplicas_mayWrite (ms : NodeState) (t : Tally) (hn : ¬ ReplCrit ms t) :
    (afterReplicas ms t).mayWrite = false ↔ (t.mayWrite = false ∨ (t.running > 0 ∧ t.normal = 0)) := by
  unfold afterReplicas
  unfold ReplCrit at hn
  by_cases hr : t.running > 0
  · simp only [hr, if_true, true_and]
    cases hs : ms.semiSync with
    | none =>
      simp only
      by_cases h0 : t.normal = 0 <;> simp [h0]
    | some ss =>
      have hl : ¬ t.low > t.running - ss.waitSlaveCount := fun h => hn ⟨hr, ss, hs, h⟩
      simp only [hl, if_false]
      by_cases h0 : t.normal = 0 <;> simp [h0]
  · simp [hr]

/-- `decide_` in terms of the two flags after the replica part -/
theorem decide_ro_iff (cfg : Cfg) (m : String) (ms : NodeState) (dcs : ClusterState) :
    ((∃ s, decide_ cfg m ms dcs = .setReadOnly s) ∨ decide_ cfg m ms dcs = .alreadyReadOnly) ↔
      (afterReplicas ms (tally cfg m dcs)).needRo = true := by
  unfold decide_
  simp only
  by_cases hn : (afterReplicas ms (tally cfg m dcs)).needRo = true
  · rw [if_pos hn]
    simp only [hn, iff_true]
    split
    · exact Or.inr rfl
    · exact Or.inl ⟨_, rfl⟩
  · rw [if_neg hn]
    simp only [hn]
    split
    · split <;> simp
    · simp

theorem decide_setReadOnly (cfg : Cfg) (m : String) (ms : NodeState) (dcs : ClusterState) (s : Bool)
    (h : decide_ cfg m ms dcs = .setReadOnly s) :
    s = !cfg.keepSuperWritable ∧ ¬ (ms.isReadOnly = true ∧ cfg.keepSuperWritable ≠ ms.isSuperReadOnly) := by
  unfold decide_ at h
  simp only at h
  split at h
  · split at h
    · cases h
    · next hc =>
      injection h with h
      refine ⟨h.symm, ?_⟩
      simpa only [Bool.and_eq_true, bne_iff_ne] using hc
  · split at h
    · split at h <;> cases h
    · cases h

theorem decide_alreadyReadOnly (cfg : Cfg) (m : String) (ms : NodeState) (dcs : ClusterState)
    (h : decide_ cfg m ms dcs = .alreadyReadOnly) :
    ms.isReadOnly = true ∧ cfg.keepSuperWritable ≠ ms.isSuperReadOnly := by
  unfold decide_ at h
  simp only at h
  split at h
  · split at h
    · next hc => simpa only [Bool.and_eq_true, bne_iff_ne] using hc
    · cases h
  · split at h
    · split at h <;> cases h
    · cases h

theorem decide_setWritable (cfg : Cfg) (m : String) (ms : NodeState) (dcs : ClusterState)
    (h : decide_ cfg m ms dcs = .setWritable) :
    ms.isReadOnly = true ∧ (afterReplicas ms (tally cfg m dcs)).needRo = false ∧
      (afterReplicas ms (tally cfg m dcs)).mayWrite = true := by
  unfold decide_ at h
  simp only at h
  split at h
  · split at h <;> cases h
  · next hn =>
    split at h
    · next hw =>
      split at h
      · cases h
      · next hr =>
        refine ⟨?_, by simpa using hn, hw⟩
        simpa using hr
    · cases h

theorem decide_greyZone (cfg : Cfg) (m : String) (ms : NodeState) (dcs : ClusterState)
    (hn : (afterReplicas ms (tally cfg m dcs)).needRo = false)
    (hw : (afterReplicas ms (tally cfg m dcs)).mayWrite = false) :
    decide_ cfg m ms dcs = .greyZone := by
  unfold decide_
  simp only [hn, hw, Bool.false_eq_true, if_false]

/-! ### The property-level statements (with the predicates of C18 unfolded) -/

/-- `C18.MasterCritical` -/
def MCrit (cfg : Cfg) (m : String) (dcs : ClusterState) : Prop :=
  ∃ e ∈ dcs, e.2.isMaster = true ∧ m = e.1 ∧ ∃ d, e.2.disk = some d ∧ d.usageGe cfg.crit = true

/-- `C18.MasterGrey` -/
def MGrey (cfg : Cfg) (m : String) (dcs : ClusterState) : Prop :=
  ∃ e ∈ dcs, e.2.isMaster = true ∧ m = e.1 ∧
    ∃ d, e.2.disk = some d ∧ d.usageGe cfg.crit = false ∧ d.usageGt cfg.notCrit = true

theorem ro_iff (cfg : Cfg) (m : String) (ms : NodeState) (dcs : ClusterState) :
    ((∃ s, decide_ cfg m ms dcs = .setReadOnly s) ∨ decide_ cfg m ms dcs = .alreadyReadOnly) ↔
      (MCrit cfg m dcs ∨ ReplCrit ms (tally cfg m dcs)) := by
  rw [decide_ro_iff, afterReplicas_needRo, tally_needRo]
  rfl

theorem setWritable_spec (cfg : Cfg) (m : String) (ms : NodeState) (dcs : ClusterState)
    (h : decide_ cfg m ms dcs = .setWritable) :
    ms.isReadOnly = true ∧ ¬ MCrit cfg m dcs ∧ ¬ MGrey cfg m dcs ∧
    ¬ ReplCrit ms (tally cfg m dcs) ∧
    ((tally cfg m dcs).running = 0 ∨ (tally cfg m dcs).normal ≥ 1) := by
  obtain ⟨hro, hn, hw⟩ := decide_setWritable cfg m ms dcs h
  have hn' : ¬ ((tally cfg m dcs).needRo = true ∨ ReplCrit ms (tally cfg m dcs)) := by
    rw [← afterReplicas_needRo, hn]; decide
  have hnr : ¬ ReplCrit ms (tally cfg m dcs) := fun h => hn' (Or.inr h)
  have hw' : ¬ ((tally cfg m dcs).mayWrite = false ∨
      ((tally cfg m dcs).running > 0 ∧ (tally cfg m dcs).normal = 0)) := by
    rw [← afterReplicas_mayWrite ms _ hnr, hw]; decide
  obtain ⟨_, h2, h3⟩ := tally_sane cfg m dcs
  refine ⟨hro, fun hc => hn' (Or.inl ((tally_needRo cfg m dcs).2 hc)),
    fun hg => hw' (Or.inl ((tally_mayWrite cfg m dcs).2 hg)), hnr, ?_⟩
  by_cases hr : (tally cfg m dcs).running > 0
  · have : (tally cfg m dcs).normal ≠ 0 := fun h0 => hw' (Or.inr ⟨hr, h0⟩)
    exact Or.inr (by omega)
  · exact Or.inl (by omega)

theorem greyZone_spec (cfg : Cfg) (m : String) (ms : NodeState) (dcs : ClusterState)
    (hno : ¬ MCrit cfg m dcs) (hnr : ¬ ReplCrit ms (tally cfg m dcs))
    (hg : MGrey cfg m dcs ∨ ((tally cfg m dcs).running > 0 ∧ (tally cfg m dcs).normal = 0)) :
    decide_ cfg m ms dcs = .greyZone := by
  have hn : ¬ ((tally cfg m dcs).needRo = true ∨ ReplCrit ms (tally cfg m dcs)) := fun h =>
    h.elim (fun h => hno ((tally_needRo cfg m dcs).1 h)) hnr
  rw [← afterReplicas_needRo, Bool.not_eq_true] at hn
  refine decide_greyZone cfg m ms dcs hn ((afterReplicas_mayWrite ms _ hnr).2 ?_)
  exact hg.imp (tally_mayWrite cfg m dcs).2 id

theorem lowSpaceWrite_spec (d : Decision) (ok : Bool) (v : Bool) :
    lowSpaceWrite d ok = some v ↔
      (ok = true ∧ (((∃ s, d = .setReadOnly s) ∧ v = true) ∨ (d = .setWritable ∧ v = false))) := by
  cases d <;> cases ok <;> cases v <;> simp [lowSpaceWrite]

/-! ### Thresholds -/

theorem thresholds (d : DiskState) (crit notCrit : Int) (hlt : notCrit < crit)
    (hle : d.usageGt notCrit = false) : d.usageGe crit = false := by
  unfold DiskState.usageGt at hle
  unfold DiskState.usageGe
  by_cases h0 : (d.total == 0) = true
  · rw [if_pos h0] at hle ⊢
    rw [decide_eq_false_iff_not] at hle ⊢
    omega
  · rw [if_neg h0] at hle ⊢
    by_cases h1 : d.used > d.total
    · rw [if_pos h1] at hle ⊢
      rw [decide_eq_false_iff_not] at hle ⊢
      omega
    · rw [if_neg h1] at hle ⊢
      rw [decide_eq_false_iff_not] at hle ⊢
      have ht : (0 : Int) < (d.total : Int) := by
        have : d.total ≠ 0 := by simpa using h0
        omega
      have := Int.mul_lt_mul_of_pos_right hlt ht
      omega

end DiskGuardLemmas
