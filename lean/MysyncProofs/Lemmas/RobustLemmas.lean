/- Helper lemmas for C20 (statements of the property theorems are fixed in MysyncProofs/C20.lean). -/
import MysyncModel.App.Manager
import MysyncModel.App.Switchover
import MysyncModel.App.Recovery
import MysyncModel.App.ActiveNodes
import MysyncProofs.Lemmas.ManagerCore
import MysyncProofs.Lemmas.SwitchoverStages
import MysyncProofs.Lemmas.SwitchoverLemmas
import MysyncProofs.Lemmas.RecoveryLemmas

namespace RobustLemmas
open NS

/-! ### the manager iteration -/

section manager
open Manager ManagerLemmas

/-- `approveFailover` dies only on a master that has no health record -/
theorem approveFailover_error {cfg : Cfg} {i : In} {master : String} {tm : Option Int} {site : String}
    (h : approveFailover cfg i master tm = .error site) : i.dcs.get? master = none := by
  unfold approveFailover at h
  split at h
  · cases h
  · split at h
    · assumption
    · exfalso
      simp only at h
      split at h
      · cases h
      · split at h
        · cases h
        · split at h
          · cases h
          · cases h
          · split at h
            · cases h
            · split at h <;> cases h

/-- the steps that `afterSwitch` appends contain a panic only if the recorded master has a health record
but no entry in the manager's own view -/
theorem asTail_panic {cfg : Cfg} {i : In} {master : String} {light : Bool} {site : String}
    (h : Step.panic site ∈ asTail cfg i master light) :
    (i.dcs.get? master).isSome = true ∧ (i.cs.get? master).isNone = true := by
  unfold asTail at h
  rcases hd : i.dcs.get? master with _ | md
  · simp [hd] at h
  · refine ⟨rfl, ?_⟩
    simp only [hd] at h
    have hdet : ∀ b fa, Step.panic site ∉ detectSteps b fa := by
      intro b fa hm
      have := detectSteps_quiet b fa _ hm
      cases b <;> cases fa <;> simp [detectSteps] at hm
    have hnoerr : ∀ tm s, approveFailover cfg i master tm ≠ .error s := by
      intro tm s he
      have := approveFailover_error he
      rw [hd] at this; cases this
    generalize hdd : detectSteps (!md.pingOk || md.isFsReadonly) i.failedAt = d at h
    have hd' : Step.panic site ∉ d := hdd ▸ hdet _ _
    split at h
    · -- bad health, no light maintenance: the verdict step
      rcases List.mem_append.mp h with h | h
      · exact absurd h hd'
      · simp only [List.mem_singleton] at h
        rcases ha : approveFailover cfg i master (timerNext (!md.pingOk || md.isFsReadonly) i.now i.failedAt)
          with e | _ | r
        · exact absurd ha (hnoerr _ _)
        · rw [ha] at h; simp [verdictStep] at h
        · rw [ha] at h; simp [verdictStep] at h
    · have hd'' : Step.panic site ∉ (if (!md.pingOk || md.isFsReadonly) = true then d ++ [Step.failoverSuppressedByLight] else d) := by
        split
        · simp [hd']
        · exact hd'
      generalize (if (!md.pingOk || md.isFsReadonly) = true then d ++ [Step.failoverSuppressedByLight] else d) = d2 at h hd''
      rcases hc : i.cs.get? master with _ | cm
      · rfl
      · exfalso
        simp only [hc] at h
        split at h
        · simp [hd''] at h
        · split at h
          · split at h
            · simp [hd''] at h
            · split at h
              · rename_i s he; exact hnoerr _ _ he
              · simp [hd''] at h
              · simp [hd''] at h
          · simp [hd''] at h

theorem hsTail_panic {cfg : Cfg} {i : In} {sw : Switch} {site : String}
    (h : Step.panic site ∈ hsTail cfg i sw) : i.perform = .panicked := by
  unfold hsTail at h
  split at h
  · simp at h
  · split at h
    · simp at h
    · split at h
      · simp at h
      · cases hp : i.perform <;> simp [hp, performTail] at h
        rfl

/-- where an iteration of the manager can die -/
theorem stateManager_panic {cfg : Cfg} {i : In} {site : String}
    (h : Step.panic site ∈ (stateManager cfg i).steps) :
    (∃ m, i.master = some m ∧ (i.dcs.get? m).isSome = true ∧ (i.cs.get? m).isNone = true) ∨
    i.perform = .panicked := by
  rcases stateManager_shape cfg i with ⟨_, he⟩ | ⟨m, light, pre, hent, hs⟩
  · have := he _ h
    simp [early] at this
  · have hpre : Step.panic site ∉ pre := fun hm => by
      have := hent.pre_mem _ hm
      cases this
    have hm : i.master = some m := hent.2.2.2.1
    rcases hs with ⟨_, e⟩ | ⟨_, e⟩ | ⟨sw, _, _, _, e⟩ | ⟨sw, _, _, e⟩
    · rw [e] at h; exact absurd h hpre
    · rw [e] at h
      rcases List.mem_append.mp h with h | h
      · exact absurd h hpre
      · exact Or.inl ⟨m, hm, asTail_panic h⟩
    · rw [e] at h
      rcases List.mem_append.mp h with h | h
      · exact absurd h hpre
      · rcases List.mem_cons.mp h with h | h
        · cases h
        · exact Or.inl ⟨m, hm, asTail_panic h⟩
    · rw [e] at h
      rcases List.mem_append.mp h with h | h
      · exact absurd h hpre
      · exact Or.inr (hsTail_panic h)

end manager

/-! ### the switchover procedure -/

section switchover
open Gtid Select Switchover SwitchoverLemmas

theorem findMostRecent_panic {ps : List Pos} (h : findMostRecent ps = .panic) : ps = [] := by
  cases ps with
  | nil => rfl
  | cons p r =>
    unfold findMostRecent at h
    simp only at h
    split at h <;> cases h

/-- the chosen master is the requested target or the host of a collected position -/
theorem nmOf_host (cfg : Cfg) (i : In) (hn : isNode (findMostRecent (psOf i)) = true)
    (hpick : (¬ i.sw.to = "" ∨ i.sw.from_ = "") ∨
      isDNode (mostDesirable cfg.priorityChoiceMaxLag (filterOutHost (psOf i) i.sw.from_)) = true) :
    (nmOf cfg i).host = i.sw.to ∨ nmOf cfg i ∈ psOf i := by
  by_cases hto : i.sw.to = ""
  · right
    by_cases hfrom : i.sw.from_ = ""
    · have : nmOf cfg i = mrOf i := by simp [nmOf, hto, hfrom]
      rw [this]
      unfold mrOf
      cases hm : findMostRecent (psOf i) with
      | node mr => exact findMostRecent_mem hm
      | panic => rw [hm] at hn; cases hn
      | splitBrain => rw [hm] at hn; cases hn
    · have hd : isDNode (mostDesirable cfg.priorityChoiceMaxLag (filterOutHost (psOf i) i.sw.from_)) = true := by
        rcases hpick with (h | h) | h
        · exact absurd hto h
        · exact absurd h hfrom
        · exact h
      cases hmd : mostDesirable cfg.priorityChoiceMaxLag (filterOutHost (psOf i) i.sw.from_) with
      | node nm =>
        have : nmOf cfg i = nm := by simp [nmOf, hto, hfrom, hmd]
        rw [this]
        have hm := mDF_mem _ _ _ _ hmd
        unfold filterOutHost at hm
        exact (List.mem_filter.1 hm).1
      | notFound => rw [hmd] at hd; cases hd
      | outOfFuel => rw [hmd] at hd; cases hd
  · left
    simp only [nmOf, bne_iff_ne, ne_eq, hto, not_false_eq_true, if_true]
    cases hf : (psOf i).find? (fun x => x.host == i.sw.to) with
    | none => rfl
    | some p => simpa using List.find?_some hf

/-- every site at which `performSwitchover` can die, with the exact condition that reaches it.  (This is
stronger than `C20.switchover_panics_only_if`: the host missing from the second view is named, and no site
depends on the FIRST view any more — since fix fc0b66f a listed host or a recorded master that is not a
registered host ends the procedure with `fail "host is not among cluster hosts"` before anything is touched; the branch
`panic "clusterState[oldMaster]"` is still in the text of the model but is never taken.) -/
theorem switchover_panic_sites (cfg : Cfg) (i : In) (site : String)
    (h : Step.panic site ∈ performSwitchover cfg i) :
    (site = "positions[0]" ∧ i.positions = some []) ∨
    (site = "clusterState[newMaster]" ∧ ∃ ps, i.positions = some ps ∧
      ((nmOf cfg i).host = i.sw.to ∨ nmOf cfg i ∈ ps) ∧ pingOk i.cs2 (nmOf cfg i).host = none) ∨
    (site = "clusterState[host]" ∧ ∃ x, x ∈ workList i ∧ pingOk i.cs2 x = none) := by
  rw [performSwitchover_eq] at h
  simp [stages, sPre, sPreA, sOnly, sNode, sPick, pStages, pHead, pReset, pWritable, pEvents, mem_run_cons] at h
  obtain ⟨_, _, ⟨_, hom⟩, _, _, _, _, h⟩ := h
  rcases h with ⟨_, _, _, ⟨hpos, _⟩, _, h⟩ | ⟨ho, _⟩
  · obtain ⟨ps, hps⟩ := Option.isSome_iff_exists.mp hpos
    have hpsOf : psOf i = ps := by simp [psOf, hps]
    rcases h with ⟨hn, hpick, _, _, _, _, h⟩ | ⟨_, hp, hs⟩
    · rcases h with ⟨_, _, _, hx, hs⟩ | ⟨hnm, hs⟩
      · exact Or.inr (Or.inr ⟨hs, hx⟩)
      · refine Or.inr (Or.inl ⟨hs, ps, hps, ?_, hnm⟩)
        have := nmOf_host cfg i hn hpick
        rwa [hpsOf] at this
    · refine Or.inl ⟨hs, ?_⟩
      rw [hpsOf] at hp
      rw [hps, findMostRecent_panic hp]
  · -- the `clusterState[oldMaster]` stage: its guard was already established by the registration check
    rw [ho] at hom
    cases hom

/-- the procedure dies only after the first view was found complete: every listed host and the recorded
master have an entry in it (the first disjunct of `C20.switchover_panics_only_if` is never the reason) -/
theorem switchover_panic_first_view_complete (cfg : Cfg) (i : In) (site : String)
    (h : Step.panic site ∈ performSwitchover cfg i) :
    ∀ x, (x ∈ workList i ∨ x = i.oldMaster) → pingOk i.cs x ≠ none := by
  rw [performSwitchover_eq] at h
  simp [stages, sPre, sPreA, sOnly, sNode, sPick, pStages, pHead, pReset, pWritable, pEvents, mem_run_cons] at h
  obtain ⟨_, _, ⟨hwl, hom⟩, _⟩ := h
  rintro x (hx | rfl)
  · exact hwl x hx
  · intro hn
    rw [hn] at hom
    cases hom

/-- in particular the site `clusterState[oldMaster]` is dead code -/
theorem oldMaster_stage_unreachable (cfg : Cfg) (i : In) :
    Step.panic "clusterState[oldMaster]" ∉ performSwitchover cfg i := by
  intro h
  rcases switchover_panic_sites cfg i _ h with ⟨hs, _⟩ | ⟨hs, _⟩ | ⟨hs, _⟩ <;> simp at hs

/-- the same in the vocabulary of the model only: the host missing from the second view is one of the
published list, the requested target, or the host of a collected position.  (In
`C20.switchover_panics_only_if` the host of the second disjunct is not constrained.) -/
theorem switchover_panics_only_if_precise (cfg : Cfg) (i : In) (site : String)
    (h : Step.panic site ∈ performSwitchover cfg i) :
    (∃ x, (x ∈ workList i ∨ x = i.oldMaster) ∧ pingOk i.cs x = none) ∨
    (∃ x, (x ∈ workList i ∨ x = i.sw.to ∨ ∃ ps p, i.positions = some ps ∧ p ∈ ps ∧ x = p.host) ∧
      pingOk i.cs2 x = none) ∨
    i.positions = some [] := by
  rcases switchover_panic_sites cfg i site h with ⟨_, hp⟩ | ⟨_, ps, hps, hnm, hn⟩ | ⟨_, x, hx, hn⟩
  · exact Or.inr (Or.inr hp)
  · refine Or.inr (Or.inl ⟨_, ?_, hn⟩)
    rcases hnm with hnm | hnm
    · exact Or.inr (Or.inl hnm)
    · exact Or.inr (Or.inr ⟨ps, _, hps, hnm, rfl⟩)
  · exact Or.inr (Or.inl ⟨x, Or.inl hx, hn⟩)

end switchover

/-! ### recovery check and membership classification -/

theorem checkRecovery_no_panic (i : Recovery.In) (site : String) :
    Recovery.Act.panic site ∉ Recovery.checkRecovery i := by
  intro h
  have hT' : Recovery.Act.panic site ∉ RecoveryLemmas.timerActs i := by
    intro hc
    rcases RecoveryLemmas.timerActs_mem i _ hc with h | h <;> cases h
  unfold Recovery.checkRecovery at h
  simp only [← RecoveryLemmas.timerActs.eq_1] at h
  generalize RecoveryLemmas.timerActs i = T at h hT'
  repeat' split at h
  all_goals simp [hT'] at h

theorem classify_panic {delay : Int} {i : ActiveNodes.CalcIn} {host : String} {node : NodeState} {site : String}
    (h : (ActiveNodes.classify delay i host node).1 = .panic site) :
    (node.pingOk = false ∧ i.dcs.get? host = none) ∨
    (∃ sl, node.slave = some sl ∧ Gtid.parse sl.executed = none) := by
  unfold ActiveNodes.classify at h
  simp only at h
  repeat' split at h
  -- every branch that does not end in a panic
  all_goals first | (cases h; done) | skip
  -- the two panic sites (each reached with and without a readable recovery list)
  all_goals simp_all

end RobustLemmas
