/-
Helper lemmas for the world-model theorems of C07 (statements in MysyncProofs/C07World.lean).

Plan of the proof:
 * `applyAll` acts server by server: `(applyAll w l).srvs = w.srvs.map fun (k, s) => (k, effAll k s l)` (`applyAll_srvs`);
   the key list and the published list never change, the recorded master changes only at `setMasterKey`.
 * INVARIANT `Good hosts w`: registered servers = published list = `hosts`, recorded master ∈ `hosts`.  In a `Good`
   world every oracle of `view` succeeds, so all guards of the stage list hold (`reached_view`) and the run is the
   closed form `R1 ++ R2 ++ R3` (`runOf_closed`) — provided the quorum check passes (`qOk_view`: needs
   `semiSync → 0 ≤ waitCount`); if it does not, the run is `R0` (`runOf_noquorum`).  The promoted host is
   `nmH hosts t` (= `t` if `t ≠ ""`, else the first host), the most recent one is the first host.
 * `canonical_closed`: the closed form ends canonical with the promoted host recorded, from ANY `Good` world.
 * `run_prefix`: any prefix of a run from a `Good` world in which only `x` may be writable (`W1 w x`) leaves a
   `Good` world in which only `x`, or only the promoted host, may be writable (`setWritable` comes after every
   `freezeRO`, and no other step clears the read-only flag).
-/
import MysyncModel.App.SwitchWorld
import MysyncProofs.Lemmas.SwitchoverLemmas

namespace SwitchWorldLemmas
open NS Switchover SwitchWorld SwitchoverLemmas Select

/-! ### the effect of a step list, server by server -/

/-- effect of one step on the server registered under `k` -/
def eff (k : String) (s : Srv) : Step → Srv
  | .freezeRO h true => if k == h then { s with ro := true } else s
  | .stopIO h true => if k == h then { s with io := false } else s
  | .setOnline h true => if k == h then { s with offline := false } else s
  | .changeMaster h to true => if k == h then { s with source := some to, io := true, sql := true } else s
  | .stopSlave h true => if k == h then { s with io := false, sql := false } else s
  | .resetSlaveAll h true => if k == h then { s with source := none, io := false, sql := false } else s
  | .setWritable h true => if k == h then { s with ro := false } else s
  | _ => s

/-- effect of a step list on the server registered under `k` -/
def effAll (k : String) (s : Srv) (l : List Step) : Srv := l.foldl (eff k) s

/-- effect of one step on the recorded master -/
def effM (m : String) : Step → String
  | .setMasterKey h true => h
  | _ => m

theorem upd_srvs (w : World) (h : String) (f : Srv → Srv) :
    (w.upd h f).srvs = w.srvs.map fun p => (p.1, if p.1 == h then f p.2 else p.2) := by
  simp only [World.upd]
  apply List.map_congr_left
  rintro ⟨k, s⟩ _
  by_cases hk : (k == h) = true <;> simp [hk]

theorem upd_master (w : World) (h : String) (f : Srv → Srv) : (w.upd h f).master = w.master := rfl
theorem upd_active (w : World) (h : String) (f : Srv → Srv) : (w.upd h f).active = w.active := rfl

theorem map_pair_id (l : List (String × Srv)) : (l.map fun p => (p.1, p.2)) = l := by
  induction l with
  | nil => rfl
  | cons a r ih => simp

theorem apply_srvs (w : World) (st : Step) : (apply w st).srvs = w.srvs.map fun p => (p.1, eff p.1 p.2 st) := by
  cases st with
  | freezeRO _ ok | stopIO _ ok | setOnline _ ok | changeMaster _ _ ok | stopSlave _ ok | resetSlaveAll _ ok
  | setWritable _ ok | setMasterKey _ ok => cases ok <;> simp only [apply, eff, upd_srvs, map_pair_id]
  | _ => simp only [apply, eff, map_pair_id]

theorem apply_active (w : World) (st : Step) : (apply w st).active = w.active := by
  cases st with
  | freezeRO _ ok | stopIO _ ok | setOnline _ ok | changeMaster _ _ ok | stopSlave _ ok | resetSlaveAll _ ok
  | setWritable _ ok | setMasterKey _ ok => cases ok <;> simp only [apply, upd_active]
  | _ => simp only [apply]

theorem apply_master (w : World) (st : Step) : (apply w st).master = effM w.master st := by
  cases st with
  | freezeRO _ ok | stopIO _ ok | setOnline _ ok | changeMaster _ _ ok | stopSlave _ ok | resetSlaveAll _ ok
  | setWritable _ ok | setMasterKey _ ok => cases ok <;> simp only [apply, upd_master, effM]
  | _ => simp only [apply, effM]

theorem applyAll_cons (w : World) (st : Step) (r : List Step) : applyAll w (st :: r) = applyAll (apply w st) r := rfl
theorem applyAll_append (w : World) (a b : List Step) : applyAll w (a ++ b) = applyAll (applyAll w a) b := by
  simp [applyAll, List.foldl_append]
theorem effAll_cons (k : String) (s : Srv) (st : Step) (r : List Step) : effAll k s (st :: r) = effAll k (eff k s st) r := rfl
theorem effAll_nil (k : String) (s : Srv) : effAll k s [] = s := rfl
theorem effAll_append (k : String) (s : Srv) (a b : List Step) : effAll k s (a ++ b) = effAll k (effAll k s a) b := by
  simp [effAll, List.foldl_append]

theorem applyAll_srvs (l : List Step) : ∀ w : World,
    (applyAll w l).srvs = w.srvs.map fun p => (p.1, effAll p.1 p.2 l) := by
  induction l with
  | nil => intro w; simp [applyAll, effAll, map_pair_id]
  | cons st r ih =>
    intro w
    rw [applyAll_cons, ih, apply_srvs, List.map_map]
    apply List.map_congr_left
    intro p _
    simp [effAll]

theorem applyAll_active (l : List Step) : ∀ w : World, (applyAll w l).active = w.active := by
  induction l with
  | nil => intro w; rfl
  | cons st r ih => intro w; rw [applyAll_cons, ih, apply_active]

theorem applyAll_master (l : List Step) : ∀ w : World, (applyAll w l).master = l.foldl effM w.master := by
  induction l with
  | nil => intro w; rfl
  | cons st r ih => intro w; rw [applyAll_cons, ih, apply_master]; rfl

theorem applyAll_keys (l : List Step) (w : World) : (applyAll w l).srvs.map (·.1) = w.srvs.map (·.1) := by
  rw [applyAll_srvs, List.map_map]
  rfl

/-! ### the read-only flag -/

/-- the only step that makes a server writable -/
def isW : Step → Bool
  | .setWritable _ true => true
  | _ => false

theorem eff_ro_keep {k : String} {s : Srv} {st : Step} (hw : isW st = false) (h : s.ro = true) : (eff k s st).ro = true := by
  cases st with
  | freezeRO _ ok | stopIO _ ok | setOnline _ ok | changeMaster _ _ ok | stopSlave _ ok | resetSlaveAll _ ok
  | setWritable _ ok | setMasterKey _ ok =>
    cases ok <;> simp only [eff, isW] at hw ⊢ <;> first | exact h | (split <;> first | exact h | rfl | cases hw)
  | _ => simpa only [eff] using h

theorem effAll_ro_keep {k : String} {l : List Step} (hw : ∀ st ∈ l, isW st = false) :
    ∀ {s : Srv}, s.ro = true → (effAll k s l).ro = true := by
  induction l with
  | nil => intro s h; exact h
  | cons st r ih =>
    intro s h
    rw [effAll_cons]
    exact ih (fun x hx => hw x (List.mem_cons_of_mem _ hx)) (eff_ro_keep (hw st (by simp)) h)

theorem eff_freeze_ro (k : String) (s : Srv) : (eff k s (.freezeRO k true)).ro = true := by
  simp [eff]

/-- a list that freezes `k` and makes nobody writable leaves `k` read-only -/
theorem effAll_ro_frozen {k : String} {l : List Step} (hw : ∀ st ∈ l, isW st = false) (hf : Step.freezeRO k true ∈ l) :
    ∀ s : Srv, (effAll k s l).ro = true := by
  induction l with
  | nil => simp at hf
  | cons st r ih =>
    intro s
    rw [effAll_cons]
    have hr : ∀ x ∈ r, isW x = false := fun x hx => hw x (List.mem_cons_of_mem _ hx)
    rcases List.mem_cons.mp hf with h | h
    · rw [← h]
      exact effAll_ro_keep hr (eff_freeze_ro k s)
    · exact ih hr h _

/-- a list that makes nobody writable creates no writer -/
theorem effAll_ro_false {k : String} {l : List Step} (hw : ∀ st ∈ l, isW st = false) {s : Srv}
    (h : (effAll k s l).ro = false) : s.ro = false := by
  cases hs : s.ro with
  | false => rfl
  | true => rw [effAll_ro_keep hw hs] at h; cases h

/-! ### the oracle inputs read off a world -/

/-- the worlds of the two runs: the registered servers and the published list are `hosts`, the recorded master is
one of them -/
structure Good (hosts : List String) (w : World) : Prop where
  keys : w.srvs.map (·.1) = hosts
  active : w.active = hosts
  master : w.master ∈ hosts

/-- the cluster view of a world -/
def csOf (w : World) : ClusterState := w.srvs.map fun (h, s) => (h, nodeState s)

/-- the position read off a frozen server -/
def mkPos (h : String) : Pos := { host := h, gtid := GS, lag := 0, prio := 0 }

/-- the request of a planned switchover to `t` -/
abbrev req (t : String) : Manager.Switch := { to := t }

section view
variable (w : World) (sw : Manager.Switch)

theorem view_cs : (view w sw).cs = csOf w := rfl
theorem view_cs2 : (view w sw).cs2 = csOf w := rfl
theorem view_active : (view w sw).active = w.active := rfl
theorem view_sw : (view w sw).sw = sw := rfl
theorem view_oldMaster : (view w sw).oldMaster = w.master := rfl
theorem view_ro (h : String) : (view w sw).ro h = true := rfl
theorem view_io (h : String) : (view w sw).io h = true := rfl
theorem view_repoint (h : String) : (view w sw).repoint h = true := rfl
theorem view_positions : (view w sw).positions = some ((frozen (view w sw)).map mkPos) := rfl
theorem view_oldStatus : (view w sw).oldStatus = .notReplica := rfl
theorem view_catchUp : (view w sw).catchUp = .caught := rfl
theorem view_flags : (view w sw).optStopOk = true ∧ (view w sw).turbo = false ∧ (view w sw).lock1 = true ∧
    (view w sw).mostRecentOnlineOk = true ∧ (view w sw).catchUpChangeOk = true ∧ (view w sw).lock2 = true ∧
    (view w sw).newMasterOnlineOk = true ∧ (view w sw).setRecoveryOk = true ∧ (view w sw).stopSlaveOk = true ∧
    (view w sw).resetOk = true ∧ (view w sw).writableOk = true ∧ (view w sw).eventsOk = true ∧
    (view w sw).masterKeyOk = true := ⟨rfl, rfl, rfl, rfl, rfl, rfl, rfl, rfl, rfl, rfl, rfl, rfl, rfl⟩

end view

theorem get?_csOf (l : List (String × Srv)) (h : String) (hh : h ∈ l.map (·.1)) :
    ∃ s, ClusterState.get? (l.map fun (k, s) => (k, nodeState s)) h = some (nodeState s) := by
  induction l with
  | nil => simp at hh
  | cons a r ih =>
    obtain ⟨k, s⟩ := a
    simp only [List.map_cons, ClusterState.get?]
    by_cases hk : k = h
    · exact ⟨s, by simp [hk]⟩
    · simp only [hk, if_false]
      apply ih
      simp only [List.map_cons, List.mem_cons] at hh
      rcases hh with hh | hh
      · exact absurd hh.symm hk
      · exact hh

/-- every registered server answers -/
theorem pingOk_csOf {w : World} {h : String} (hh : h ∈ w.srvs.map (·.1)) : pingOk (csOf w) h = some true := by
  obtain ⟨s, hs⟩ := get?_csOf w.srvs h hh
  simp only [pingOk, csOf, hs]
  rfl

/-- nobody is dubious -/
theorem dubious_csOf (w : World) : dubiousHAHosts (csOf w) = [] := by
  simp only [dubiousHAHosts, csOf, List.map_eq_nil_iff, List.filter_eq_nil_iff, List.mem_map]
  rintro ⟨k, ns⟩ ⟨⟨k', s⟩, _, he⟩
  cases he
  simp [nodeState]

theorem workList_view (w : World) (t : String) : workList (view w (req t)) = w.active := rfl

theorem frozen_view {hosts : List String} {w : World} (g : Good hosts w) (t : String) : frozen (view w (req t)) = hosts := by
  unfold frozen
  rw [workList_view, g.active, List.filter_eq_self]
  intro h hh
  have hp : pingOk (view w (req t)).cs h = some true := by
    rw [view_cs]; exact pingOk_csOf (by rw [g.keys]; exact hh)
  simp [hp, view_ro, view_io]

theorem psOf_view {hosts : List String} {w : World} (g : Good hosts w) (t : String) :
    psOf (view w (req t)) = hosts.map mkPos := by
  simp [psOf, view_positions, frozen_view g]

/-! ### the most recent of equal positions is the first -/

theorem equal_GS : Gtid.equal GS GS = true := by decide +kernel
theorem contain_GS : Gtid.contain GS GS = true := by decide +kernel

theorem scan_mkPos (a : String) (l : List String) : scanMostRecent (mkPos a) (l.map mkPos) = mkPos a := by
  unfold scanMostRecent
  induction l with
  | nil => rfl
  | cons b r ih =>
    rw [List.map_cons, List.foldl_cons]
    have : pickBetter (mkPos a) (mkPos b) = mkPos a := by
      simp [pickBetter, mkPos, equal_GS]
    rw [this, ih]

theorem findMostRecent_mkPos (a : String) (l : List String) : findMostRecent ((a :: l).map mkPos) = .node (mkPos a) := by
  simp only [List.map_cons, findMostRecent, scan_mkPos]
  have : detectSplitbrain (mkPos a :: l.map mkPos) (mkPos a) = false := by
    simp [detectSplitbrain, mkPos, contain_GS]
  simp [this]

theorem mrOf_view {a : String} {l : List String} {w : World} (g : Good (a :: l) w) (t : String) :
    mrOf (view w (req t)) = mkPos a := by
  have := findMostRecent_mkPos a l
  simp only [List.map_cons] at this
  simp [mrOf, psOf_view g, this]

/-- the host that is promoted: the requested one; for a request that names nobody the most recent, which is the first -/
def nmH (hosts : List String) (t : String) : String := if t = "" then hosts.headD "" else t

theorem nmOf_host_to (cfg : Cfg) (i : In) (hto : i.sw.to ≠ "") : (nmOf cfg i).host = i.sw.to := by
  simp only [nmOf, bne_iff_ne, ne_eq, hto, not_false_eq_true, if_true]
  cases hf : (psOf i).find? (fun x => x.host == i.sw.to) with
  | none => rfl
  | some p => simpa using List.find?_some hf

theorem nmOf_view (cfg : Cfg) {hosts : List String} {w : World} (g : Good hosts w) (t : String) (hne : hosts ≠ []) :
    (nmOf cfg (view w (req t))).host = nmH hosts t := by
  by_cases ht : t = ""
  · subst ht
    obtain ⟨a, l, rfl⟩ := List.exists_cons_of_ne_nil hne
    have : nmOf cfg (view w (req "")) = mrOf (view w (req "")) := by simp [nmOf, view_sw]
    rw [this, mrOf_view g]
    simp [nmH, mkPos]
  · rw [nmOf_host_to cfg _ (by simpa [view_sw] using ht)]
    simp [nmH, ht, view_sw]

theorem nmH_mem {hosts : List String} {t : String} (ht : t ∈ hosts) : nmH hosts t ∈ hosts := by
  unfold nmH
  split
  · cases hosts with
    | nil => simp at ht
    | cons a l => simp
  · exact ht

theorem reached_view (cfg : Cfg) {hosts : List String} {w : World} (g : Good hosts w) {t : String} (ht : t ∈ hosts)
    (h2 : 2 ≤ hosts.length) (hq : qOk cfg (view w (req t)) = true) : Reached cfg (view w (req t)) := by
  obtain ⟨f1, f2, f3, f4, f5, f6, f7, f8, f9, f10, f11, f12, f13⟩ := view_flags w (req t)
  have hne : hosts ≠ [] := by rintro rfl; simp at h2
  have hping : ∀ x ∈ hosts, pingOk (csOf w) x = some true := fun x hx => pingOk_csOf (by rw [g.keys]; exact hx)
  have hnm := nmOf_view cfg g t hne
  have hnmm := hping _ (nmH_mem ht)
  obtain ⟨a, l, rfl⟩ := List.exists_cons_of_ne_nil hne
  have hfm := findMostRecent_mkPos a l
  simp only [List.map_cons] at hfm
  simp +contextual [Reached, sPre, sPreA, sOnly, sNode, sPick, pHead, view_cs, view_cs2, view_active, view_sw, view_oldMaster,
    view_repoint, view_catchUp, workList_view, g.active, dubious_csOf, frozen_view g, psOf_view g, f1, f2, f3, f4, f5, f6,
    f7, f8, f9, hq, hping _ g.master, hnm, hnmm, roOk, view_ro, view_positions, hfm, isNode]
  have hl : l ≠ [] := by rintro rfl; simp at h2
  have hpa := hping a (by simp)
  have hpl : ∀ x ∈ l, ¬ pingOk (csOf w) x = none := fun x hx => by rw [hping x (by simp [hx])]; simp
  exact ⟨Or.inr (by simpa using ht), ⟨by simp [hpa], hpl⟩, Or.inl hl, by simp [hpa], hpl⟩

/-! ### the run in closed form -/

/-- up to the point where the new master `nm` is online -/
def R1 (hosts : List String) (old nm mr : String) : List Step :=
  [.stopOptimization true] ++ hosts.map (Step.freezeRO · true) ++ (hosts.filter (· != old)).map (Step.stopIO · true) ++
  [.quorumCheck hosts.length true, .lockCheck 1 true, .positions true, .chosen nm mr] ++
  (if nm != mr then [.setOnline mr true, .changeMaster nm mr true] else []) ++
  [.catchUp .caught, .lockCheck 2 true, .restate true, .setOnline nm true]
/-- everybody else follows `nm` -/
def R2 (hosts : List String) (nm : String) : List Step := (hosts.filter (· != nm)).map (Step.changeMaster · nm true)
/-- `nm` is promoted and recorded -/
def R3 (old nm : String) : List Step :=
  [.setRecovery old true, .stopSlave nm true, .resetSlaveAll nm true, .updateActiveNodes, .setWritable nm true,
   .reenableEvents true, .setMasterKey nm true]

theorem runOf_closed (cfg : Cfg) {hosts : List String} {w : World} (g : Good hosts w) {t : String} (ht : t ∈ hosts)
    (h2 : 2 ≤ hosts.length) (hq : qOk cfg (view w (req t)) = true) :
    runOf cfg w (req t) = R1 hosts w.master (nmH hosts t) (hosts.headD "") ++ R2 hosts (nmH hosts t) ++ R3 w.master (nmH hosts t) := by
  obtain ⟨f1, f2, f3, f4, f5, f6, f7, f8, f9, f10, f11, f12, f13⟩ := view_flags w (req t)
  have hne : hosts ≠ [] := by rintro rfl; simp at h2
  have hping : ∀ x ∈ hosts, pingOk (csOf w) x = some true := fun x hx => pingOk_csOf (by rw [g.keys]; exact hx)
  have hnm := nmOf_view cfg g t hne
  have hmr : (mrOf (view w (req t))).host = hosts.headD "" := by
    obtain ⟨a, l, rfl⟩ := List.exists_cons_of_ne_nil hne
    rw [mrOf_view g]; rfl
  have hfreeze : ((workList (view w (req t))).map fun h => Step.freezeRO h (roOk (view w (req t)) h)) =
      hosts.map (Step.freezeRO · true) := by
    rw [workList_view, g.active]
    apply List.map_congr_left
    intro h hh
    simp [roOk, view_cs, hping h hh, view_ro]
  have hstop : (((workList (view w (req t))).filter (· != w.master)).map
      fun h => Step.stopIO h ((pingOk (view w (req t)).cs h == some true) && (view w (req t)).io h)) =
      (hosts.filter (· != w.master)).map (Step.stopIO · true) := by
    rw [workList_view, g.active]
    apply List.map_congr_left
    intro h hh
    simp [view_cs, hping h (List.mem_filter.mp hh).1, view_io]
  have htg : targets (view w (req t)) (nmOf cfg (view w (req t))) = hosts.filter (· != nmH hosts t) := by
    unfold targets
    rw [workList_view, g.active, hnm]
    apply List.filter_congr
    intro h hh
    simp [view_cs2, hping h hh]
  have hrec : needRecovery (view w (req t)) (mrOf (view w (req t))) = true := by
    simp [needRecovery, view_oldStatus]
  unfold runOf
  rw [reached_eq (reached_view cfg g ht h2 hq), goods_early]
  simp only [segA, segB, segD, pFin, pReset, pWritable, pEvents, run_cons, run_nil, hfreeze, hstop, htg, hrec, hnm, hmr,
    f2, f10, f11, f12, f13, hq, frozen_view g, view_catchUp, view_repoint, view_oldMaster, R1, R2, R3]
  by_cases hx : nmH hosts t = hosts.head?.getD "" <;> simp [hx]

/-- the run that stops at a failed quorum check -/
def R0 (hosts : List String) (old : String) : List Step :=
  [.stopOptimization true] ++ hosts.map (Step.freezeRO · true) ++ (hosts.filter (· != old)).map (Step.stopIO · true) ++
  [.quorumCheck hosts.length false]

theorem stages_split_quorum (cfg : Cfg) (i : In) :
    stages cfg i = (sPreA cfg i).take 9 ++ ({ ok := qOk cfg i, good := [] } :: ((sPreA cfg i).drop 10 ++
      ([sOnly i, sNode i, sPick cfg i] ++ pStages i (nmOf cfg i) (mrOf i)))) := by
  simp [stages, sPre, sPreA]

theorem runOf_noquorum (cfg : Cfg) {hosts : List String} {w : World} (g : Good hosts w) {t : String} (ht : t ∈ hosts)
    (hq : qOk cfg (view w (req t)) = false) :
    runOf cfg w (req t) = R0 hosts w.master := by
  obtain ⟨f1, f2, f3, f4, f5, f6, f7, f8, f9, f10, f11, f12, f13⟩ := view_flags w (req t)
  have hping : ∀ x ∈ hosts, pingOk (csOf w) x = some true := fun x hx => pingOk_csOf (by rw [g.keys]; exact hx)
  have hfreeze : ((workList (view w (req t))).map fun h => Step.freezeRO h (roOk (view w (req t)) h)) =
      hosts.map (Step.freezeRO · true) := by
    rw [workList_view, g.active]
    apply List.map_congr_left
    intro h hh
    simp [roOk, view_cs, hping h hh, view_ro]
  have hstop : (((workList (view w (req t))).filter (· != w.master)).map
      fun h => Step.stopIO h ((pingOk (view w (req t)).cs h == some true) && (view w (req t)).io h)) =
      (hosts.filter (· != w.master)).map (Step.stopIO · true) := by
    rw [workList_view, g.active]
    apply List.map_congr_left
    intro h hh
    simp [view_cs, hping h (List.mem_filter.mp hh).1, view_io]
  have hA : ∀ stg ∈ (sPreA cfg (view w (req t))).take 9, stg.ok = true := by
    have hpm := hping _ g.master
    have hpl : ∀ x ∈ hosts, ¬ pingOk (csOf w) x = none := fun x hx => by rw [hping x hx]; simp
    simp [sPreA, view_cs, view_active, view_sw, view_oldMaster, workList_view, g.active, dubious_csOf, f1, f2, hpm, roOk,
      view_ro]
    exact ⟨Or.inr ht, hpl⟩
  unfold runOf
  rw [performSwitchover_eq, stages_split_quorum, run_append_ok hA, run_cons]
  simp only [hq, sPreA, List.take, goods_cons, goods_nil, hfreeze, hstop, f2, frozen_view g, view_oldMaster, R0]
  simp

/-! ### the quorum check passes when everybody is frozen -/

/-- (the arithmetic is kept independent of the exact numerator of the halving) -/
theorem quorum_le (n a w : Int) (ha : 0 ≤ a) (hw : 0 ≤ w) (hn : 1 ≤ n) : ¬ (n < max (n - min (a.tdiv 2) w) 1) := by
  have := Int.tdiv_nonneg ha (by omega : (0 : Int) ≤ 2)
  omega

theorem quorum_gt (n x w : Int) (hw : w < 0) : n < max (n - min x w) 1 := by
  omega

theorem qOk_view (cfg : Cfg) {hosts : List String} {w : World} (g : Good hosts w) (t : String) (hne : hosts ≠ [])
    (hw : cfg.semiSync = true → 0 ≤ cfg.waitCount) : qOk cfg (view w (req t)) = true := by
  have hlen : 1 ≤ hosts.length := by
    cases hosts with
    | nil => exact absurd rfl hne
    | cons a l => simp
  unfold qOk
  rw [view_active, g.active, frozen_view g]
  by_cases hs : cfg.semiSync = true
  · have hw' := hw hs
    have : ¬ ((hosts.length : Int) < Gen.SwitchHelper.GetFailoverQuorum (sh cfg) hosts) := by
      simp only [QuorumSpec.quorum_spec, QuorumSpec.req_spec, sh]
      exact quorum_le _ _ _ (by omega) hw' (by omega)
    have hsh : (sh cfg).SemiSync = true := hs
    rw [QuorumSpec.check_isNone, if_pos hsh]
    omega
  · have hsh : ¬ (sh cfg).SemiSync = true := hs
    rw [QuorumSpec.check_isNone, if_neg hsh]
    omega

/-- … and fails for a negative wait count under semi-sync -/
theorem qOk_view_neg (cfg : Cfg) {hosts : List String} {w : World} (g : Good hosts w) (t : String)
    (hs : cfg.semiSync = true) (hw : cfg.waitCount < 0) : qOk cfg (view w (req t)) = false := by
  unfold qOk
  rw [view_active, g.active, frozen_view g]
  have : ((hosts.length : Int) < Gen.SwitchHelper.GetFailoverQuorum (sh cfg) hosts) := by
    simp only [QuorumSpec.quorum_spec, QuorumSpec.req_spec, sh]
    exact quorum_gt _ _ _ hw
  have hsh : (sh cfg).SemiSync = true := hs
  have hn : ¬ ((Gen.SwitchHelper.CheckFailoverQuorum (sh cfg) hosts (hosts.length : Int)).isNone = true) := by
    rw [QuorumSpec.check_isNone, if_pos hsh]
    omega
  exact Bool.eq_false_iff.mpr hn

/-! ### the effect of the closed form -/

theorem R1_noW (hosts : List String) (old nm mr : String) : ∀ st ∈ R1 hosts old nm mr, isW st = false := by
  have : (R1 hosts old nm mr).all (fun st => !isW st) = true := by
    unfold R1
    split <;> simp [isW]
  intro st hst
  simpa using List.all_eq_true.mp this st hst

theorem R1_freezes {hosts : List String} (old nm mr : String) {k : String} (hk : k ∈ hosts) :
    Step.freezeRO k true ∈ R1 hosts old nm mr := by
  simp only [R1, List.mem_append, List.mem_map]
  exact Or.inl (Or.inl (Or.inl (Or.inl (Or.inr ⟨k, hk, rfl⟩))))

/-- re-pointing a list of hosts -/
theorem effAll_repoint (k nm : String) (l : List String) : ∀ s : Srv,
    effAll k s (l.map (Step.changeMaster · nm true)) =
      if k ∈ l then { s with source := some nm, io := true, sql := true } else s := by
  induction l with
  | nil => intro s; simp [effAll]
  | cons b r ih =>
    intro s
    rw [List.map_cons, effAll_cons, ih]
    by_cases hb : k = b
    · subst hb
      by_cases hr : k ∈ r <;> simp [eff, hr]
    · have : (k == b) = false := by simpa using hb
      by_cases hr : k ∈ r <;> simp [eff, hr, hb, this]

theorem canonical_closed {hosts : List String} {w : World} (g : Good hosts w) {nm : String} (old mr : String) :
    canonical (applyAll w (R1 hosts old nm mr ++ R2 hosts nm ++ R3 old nm)) = true ∧
    (applyAll w (R1 hosts old nm mr ++ R2 hosts nm ++ R3 old nm)).master = nm := by
  have hm : (applyAll w (R1 hosts old nm mr ++ R2 hosts nm ++ R3 old nm)).master = nm := by
    rw [applyAll_master, List.foldl_append]
    simp [R3, effM]
  refine ⟨?_, hm⟩
  unfold canonical
  rw [hm, applyAll_srvs, List.all_map, List.all_eq_true]
  rintro ⟨k, s⟩ hmem
  have hk : k ∈ hosts := by rw [← g.keys]; exact List.mem_map.mpr ⟨(k, s), hmem, rfl⟩
  simp only [Function.comp]
  rw [effAll_append, effAll_append]
  by_cases hkn : k = nm
  · subst hkn
    simp [R3, effAll, eff]
  · have hb : (k == nm) = false := by simpa using hkn
    have hro := effAll_ro_frozen (R1_noW hosts old nm mr) (R1_freezes old nm mr hk) s
    have hmem2 : k ∈ hosts.filter (· != nm) := by simp [hk, hkn]
    rw [R2, effAll_repoint, if_pos hmem2]
    simp [R3, effAll_cons, effAll_nil, eff, hb, hro]

/-! ### the worlds a crash leaves behind are `Good` -/

/-- a step records at most the master `nm` -/
def mkOK (nm : String) : Step → Bool
  | .setMasterKey h true => h == nm
  | _ => true

theorem effM_mkOK {nm m : String} {st : Step} (h : mkOK nm st = true) : effM m st = m ∨ effM m st = nm := by
  cases st with
  | setMasterKey h ok =>
    cases ok
    · exact Or.inl rfl
    · right; simpa [mkOK, effM] using h
  | _ => exact Or.inl rfl

theorem foldl_effM_mkOK {nm : String} {l : List Step} (hl : ∀ st ∈ l, mkOK nm st = true) :
    ∀ m : String, l.foldl effM m = m ∨ l.foldl effM m = nm := by
  induction l with
  | nil => intro m; exact Or.inl rfl
  | cons st r ih =>
    intro m
    rw [List.foldl_cons]
    have hr : ∀ x ∈ r, mkOK nm x = true := fun x hx => hl x (List.mem_cons_of_mem _ hx)
    rcases effM_mkOK (m := m) (hl st (by simp)) with h | h <;> rw [h]
    · exact ih hr m
    · rcases ih hr nm with h' | h' <;> exact Or.inr h'

theorem good_applyAll {hosts : List String} {w : World} (g : Good hosts w) {nm : String} (hnm : nm ∈ hosts)
    {l : List Step} (hl : ∀ st ∈ l, mkOK nm st = true) : Good hosts (applyAll w l) := by
  refine ⟨by rw [applyAll_keys, g.keys], by rw [applyAll_active, g.active], ?_⟩
  rw [applyAll_master]
  rcases foldl_effM_mkOK hl w.master with h | h <;> rw [h]
  · exact g.master
  · exact hnm

theorem good_converged {hosts : List String} {m : String} (hm : m ∈ hosts) : Good hosts (converged hosts m) := by
  refine ⟨?_, rfl, hm⟩
  simp [converged, List.map_map, Function.comp_def]

theorem closed_mkOK (hosts : List String) (old nm mr : String) :
    ∀ st ∈ R1 hosts old nm mr ++ R2 hosts nm ++ R3 old nm, mkOK nm st = true := by
  have : (R1 hosts old nm mr ++ R2 hosts nm ++ R3 old nm).all (mkOK nm) = true := by
    unfold R1 R2 R3
    split <;> simp [mkOK]
  exact fun st hst => List.all_eq_true.mp this st hst

theorem R0_mkOK (hosts : List String) (old nm : String) : ∀ st ∈ R0 hosts old, mkOK nm st = true := by
  have : (R0 hosts old).all (mkOK nm) = true := by
    unfold R0
    simp [mkOK]
  exact fun st hst => List.all_eq_true.mp this st hst

/-! ### at most one writer -/

def writers (w : World) : List String := (w.srvs.filter fun (_, s) => !s.ro).map (·.1)

/-- nobody but `x` is writable -/
def W1 (w : World) (x : String) : Prop := ∀ p ∈ w.srvs, p.2.ro = false → p.1 = x

theorem length_le_one_of_const {x : String} : ∀ {l : List String}, l.Nodup → (∀ a ∈ l, a = x) → l.length ≤ 1
  | [], _, _ => by simp
  | [_], _, _ => by simp
  | a :: b :: r, hn, hx => by
    have h1 := hx a (by simp)
    have h2 := hx b (by simp)
    subst h1 h2
    simp at hn

theorem W1_writers {w : World} {x : String} (hnd : (w.srvs.map (·.1)).Nodup) (h : W1 w x) : (writers w).length ≤ 1 := by
  apply length_le_one_of_const (x := x)
  · exact List.Nodup.sublist (List.Sublist.map _ List.filter_sublist) hnd
  · intro a ha
    obtain ⟨p, hp, rfl⟩ := List.mem_map.mp ha
    obtain ⟨hp1, hp2⟩ := List.mem_filter.mp hp
    exact h p hp1 (by simpa using hp2)

theorem W1_applyAll {w : World} {x : String} {l : List Step} (hl : ∀ st ∈ l, isW st = false) (h : W1 w x) :
    W1 (applyAll w l) x := by
  intro p hp hro
  rw [applyAll_srvs] at hp
  obtain ⟨q, hq, rfl⟩ := List.mem_map.mp hp
  exact h q hq (effAll_ro_false hl hro)

theorem W1_converged (hosts : List String) (m : String) : W1 (converged hosts m) m := by
  intro p hp hro
  simp only [converged, List.mem_map] at hp
  obtain ⟨h, _, rfl⟩ := hp
  by_cases hh : h = m
  · exact hh
  · have : (h == m) = false := by simpa using hh
    simp [this] at hro

/-- promotion part of `R3`: before and after `SET read_only = 0` -/
def R3a (old nm : String) : List Step :=
  [.setRecovery old true, .stopSlave nm true, .resetSlaveAll nm true, .updateActiveNodes]
def R3b (nm : String) : List Step := [.reenableEvents true, .setMasterKey nm true]

theorem R3_split (old nm : String) : R3 old nm = R3a old nm ++ Step.setWritable nm true :: R3b nm := rfl

theorem noW_of_all {l : List Step} (h : l.all (fun st => !isW st) = true) : ∀ st ∈ l, isW st = false := by
  intro st hst
  simpa using List.all_eq_true.mp h st hst

theorem noW_take {l : List Step} (h : ∀ st ∈ l, isW st = false) (j : Nat) : ∀ st ∈ l.take j, isW st = false :=
  fun st hst => h st (List.mem_of_mem_take hst)

/-- every prefix of the closed form, from a world in which only `x` may be writable, leaves a world in which only
`x` or only the promoted host may be writable -/
theorem closed_prefix_W1 {hosts : List String} {w : World} (g : Good hosts w) {x : String} (hx : W1 w x)
    (old nm mr : String) (j : Nat) :
    W1 (applyAll w ((R1 hosts old nm mr ++ R2 hosts nm ++ R3 old nm).take j)) x ∨
    W1 (applyAll w ((R1 hosts old nm mr ++ R2 hosts nm ++ R3 old nm).take j)) nm := by
  let P := R1 hosts old nm mr ++ R2 hosts nm ++ R3a old nm
  have hL : R1 hosts old nm mr ++ R2 hosts nm ++ R3 old nm = P ++ Step.setWritable nm true :: R3b nm := by
    simp [P, R3_split]
  have hP : ∀ st ∈ P, isW st = false := by
    apply noW_of_all
    simp only [P, List.all_append, Bool.and_eq_true]
    refine ⟨⟨?_, ?_⟩, ?_⟩
    · exact List.all_eq_true.mpr fun st hst => by simp [R1_noW hosts old nm mr st hst]
    · simp [R2, isW]
    · simp [R3a, isW]
  have hQ : ∀ st ∈ R3b nm, isW st = false := by
    apply noW_of_all
    simp [R3b, isW]
  rw [hL, List.take_append]
  by_cases hj : j ≤ P.length
  · left
    have : j - P.length = 0 := by omega
    rw [this, List.take_zero, List.append_nil]
    exact W1_applyAll (noW_take hP j) hx
  · right
    obtain ⟨n, hn⟩ : ∃ n, j - P.length = n + 1 := ⟨j - P.length - 1, by omega⟩
    rw [hn, List.take_succ_cons, List.take_of_length_le (by omega), applyAll_append, applyAll_cons]
    apply W1_applyAll (noW_take hQ n)
    intro p hp hro
    rw [apply_srvs, applyAll_srvs, List.map_map] at hp
    obtain ⟨q, hq, rfl⟩ := List.mem_map.mp hp
    have hk : q.1 ∈ hosts := by rw [← g.keys]; exact List.mem_map.mpr ⟨q, hq, rfl⟩
    have hfro : (effAll q.1 q.2 P).ro = true :=
      effAll_ro_frozen hP (by simp only [P, List.mem_append]; exact Or.inl (Or.inl (R1_freezes old nm mr hk))) q.2
    simp only [Function.comp, eff] at hro ⊢
    by_cases hqn : q.1 = nm
    · exact hqn
    · have : (q.1 == nm) = false := by simpa using hqn
      simp [this, hfro] at hro

theorem R0_noW (hosts : List String) (old : String) : ∀ st ∈ R0 hosts old, isW st = false := by
  apply noW_of_all
  simp [R0, isW]

/-! ### the two facts the property theorems are made of -/

/-- COMPLETION from any `Good` world: the run of a request naming `t` ends canonical with `t` recorded -/
theorem run_completes (cfg : Cfg) {hosts : List String} {w : World} (g : Good hosts w) {t : String} (ht : t ∈ hosts)
    (h2 : 2 ≤ hosts.length) (ht0 : t ≠ "") (hw : cfg.semiSync = true → 0 ≤ cfg.waitCount) :
    canonical (applyAll w (runOf cfg w (req t))) = true ∧ (applyAll w (runOf cfg w (req t))).master = t := by
  have hne : hosts ≠ [] := by rintro rfl; simp at h2
  have hnm : nmH hosts t = t := by simp [nmH, ht0]
  rw [runOf_closed cfg g ht h2 (qOk_view cfg g t hne hw), hnm]
  exact canonical_closed g _ _

/-- CRASH: the world after any prefix of a run from a `Good` world with at most one possible writer is again such a
world -/
theorem run_prefix (cfg : Cfg) {hosts : List String} {w : World} (g : Good hosts w) {t : String} (ht : t ∈ hosts)
    (h2 : 2 ≤ hosts.length) {x : String} (hx : W1 w x) (j : Nat) :
    Good hosts (applyAll w ((runOf cfg w (req t)).take j)) ∧ ∃ y, W1 (applyAll w ((runOf cfg w (req t)).take j)) y := by
  have hnm : nmH hosts t ∈ hosts := nmH_mem ht
  cases hq : qOk cfg (view w (req t)) with
  | true =>
    rw [runOf_closed cfg g ht h2 hq]
    refine ⟨good_applyAll g hnm fun st hst => closed_mkOK _ _ _ _ st (List.mem_of_mem_take hst), ?_⟩
    rcases closed_prefix_W1 g hx w.master (nmH hosts t) (hosts.headD "") j with h | h
    · exact ⟨_, h⟩
    · exact ⟨_, h⟩
  | false =>
    rw [runOf_noquorum cfg g ht hq]
    exact ⟨good_applyAll g hnm fun st hst => R0_mkOK _ _ _ st (List.mem_of_mem_take hst),
      x, W1_applyAll (noW_take (R0_noW _ _) j) hx⟩

theorem two_le_length {hosts : List String} {m t : String} (hm : m ∈ hosts) (ht : t ∈ hosts) (hne : t ≠ m) :
    2 ≤ hosts.length := by
  match hosts, hm, ht with
  | [], hm, _ => simp at hm
  | [a], hm, ht =>
    simp at hm ht
    exact absurd (ht.trans hm.symm) hne
  | _ :: _ :: _, _, _ => simp

/-! ### the two extra hypotheses of the completion theorems are necessary -/

/-- a request that names nobody (`to = ""`, also when a server is registered under the empty name) promotes the
first listed host -/
theorem run_completes_unnamed (cfg : Cfg) {hosts : List String} {w : World} (g : Good hosts w) {t : String}
    (ht : t ∈ hosts) (h2 : 2 ≤ hosts.length) (hw : cfg.semiSync = true → 0 ≤ cfg.waitCount) :
    canonical (applyAll w (runOf cfg w (req t))) = true ∧ (applyAll w (runOf cfg w (req t))).master = nmH hosts t := by
  have hne : hosts ≠ [] := by rintro rfl; simp at h2
  rw [runOf_closed cfg g ht h2 (qOk_view cfg g t hne hw)]
  exact canonical_closed g _ _

/-- semi-sync with a negative wait count: the quorum exceeds the list, the run stops after the freeze and leaves
nobody writable -/
theorem run_stalls (cfg : Cfg) {hosts : List String} {w : World} (g : Good hosts w) {t : String} (ht : t ∈ hosts)
    (hs : cfg.semiSync = true) (hw : cfg.waitCount < 0) :
    canonical (applyAll w (runOf cfg w (req t))) = false := by
  rw [runOf_noquorum cfg g ht (qOk_view_neg cfg g t hs hw)]
  have hm : (applyAll w (R0 hosts w.master)).master = w.master := by
    rw [applyAll_master]
    rcases foldl_effM_mkOK (R0_mkOK hosts w.master w.master) w.master with h | h <;> exact h
  have hmem : w.master ∈ w.srvs.map (·.1) := by rw [g.keys]; exact g.master
  obtain ⟨p, hp, hpm⟩ := List.mem_map.mp hmem
  have hfr : Step.freezeRO p.1 true ∈ R0 hosts w.master := by
    simp only [R0, List.mem_append, List.mem_map]
    exact Or.inl (Or.inl (Or.inr ⟨p.1, by rw [hpm]; exact g.master, rfl⟩))
  have hro := effAll_ro_frozen (R0_noW hosts w.master) hfr p.2
  unfold canonical
  rw [hm, applyAll_srvs, List.all_map, List.all_eq_false]
  refine ⟨p, hp, ?_⟩
  rw [hpm] at hro
  simp [hpm, hro]

end SwitchWorldLemmas
