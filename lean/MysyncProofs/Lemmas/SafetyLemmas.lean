/- Helper lemmas for C02's protocol-level safety theorem (statements fixed in MysyncProofs/C02Safety.lean). -/
import MysyncModel.Proto.Safety
import MysyncProofs.Lemmas.QuorumSpec
import Mathlib.Data.List.Nodup
import Mathlib.Data.List.Perm.Subperm

namespace SafetyLemmas
open Safety Gen.SwitchHelper

/-! ### `eraseDups` -/

theorem eraseDups_length_le {α : Type} [BEq α] :
    ∀ (n : Nat) (A : List α), A.length ≤ n → A.eraseDups.length ≤ A.length := by
  intro n
  induction n with
  | zero =>
    intro A h
    cases A with
    | nil => simp
    | cons a as => simp at h
  | succ n ih =>
    intro A h
    cases A with
    | nil => simp
    | cons a as =>
      rw [List.eraseDups_cons]
      have h1 : (as.filter fun b => !b == a).length ≤ as.length := List.length_filter_le _ _
      have h2 : as.length ≤ n := by simpa using h
      have h3 := ih (as.filter fun b => !b == a) (by omega)
      simp only [List.length_cons]
      omega

theorem nodup_of_eraseDups_length {α : Type} [BEq α] [LawfulBEq α] :
    ∀ (A : List α), A.eraseDups.length = A.length → A.Nodup := by
  intro A
  induction A with
  | nil => intro _; exact List.nodup_nil
  | cons a as ih =>
    intro h
    rw [List.eraseDups_cons] at h
    have h1 : (as.filter fun b => !b == a).length ≤ as.length := List.length_filter_le _ _
    have h3 := eraseDups_length_le (as.filter fun b => !b == a).length (as.filter fun b => !b == a) (Nat.le_refl _)
    simp only [List.length_cons] at h
    have h4 : (as.filter fun b => !b == a).length = as.length := by omega
    have h5 : as.filter (fun b => !b == a) = as :=
      List.filter_eq_self.mpr (List.length_filter_eq_length_iff.mp h4)
    rw [h5] at h
    have hna : a ∉ as := by
      intro hmem
      have := List.length_filter_eq_length_iff.mp h4 a hmem
      simp at this
    exact List.nodup_cons.mpr ⟨hna, ih (by omega)⟩

/-! ### counting in duplicate-free lists -/

/-- two disjoint duplicate-free sub-lists of `l` together are not longer than `l` -/
theorem disjoint_length_le {α : Type} (l F B : List α) (hF : F.Nodup) (hB : B.Nodup)
    (hFl : ∀ f ∈ F, f ∈ l) (hBl : ∀ b ∈ B, b ∈ l) (hd : ∀ f ∈ F, f ∉ B) :
    F.length + B.length ≤ l.length := by
  have hnd : (F ++ B).Nodup := by
    refine List.nodup_append.mpr ⟨hF, hB, ?_⟩
    intro a ha b hb hab
    exact hd a ha (hab ▸ hb)
  have hsub : F ++ B ⊆ l := by
    intro x hx
    rcases List.mem_append.mp hx with h | h
    · exact hFl x h
    · exact hBl x h
  have := (List.subperm_of_subset hnd hsub).length_le
  simpa using this

/-! ### quorum arithmetic (no sign assumption on the configured count is needed here) -/

theorem quorum_ge (sh : SwitchHelper) (l : List String) :
    (l.length : Int) - GetRequiredWaitSlaveCount sh l ≤ GetFailoverQuorum sh l := by
  rw [QuorumSpec.quorum_spec]
  omega

/-- A duplicate-free `F ⊆ l` of quorum size meets `m :: A` whenever `A` is a duplicate-free set of list members
other than `m ∈ l` with at least `req` elements. -/
theorem quorum_meets (sh : SwitchHelper) (l : List String) (m : String) (A F : List String)
    (hm : m ∈ l) (hA : A.Nodup) (hAl : ∀ a ∈ A, a ∈ l) (hmA : m ∉ A)
    (hreq : GetRequiredWaitSlaveCount sh l ≤ (A.length : Int))
    (hF : F.Nodup) (hFl : ∀ f ∈ F, f ∈ l) (hq : GetFailoverQuorum sh l ≤ (F.length : Int)) :
    ∃ f ∈ F, f ∈ m :: A := by
  by_contra hcon
  have hd : ∀ f ∈ F, f ∉ m :: A := fun f hf hfa => hcon ⟨f, hf, hfa⟩
  have hB : (m :: A).Nodup := List.nodup_cons.mpr ⟨hmA, hA⟩
  have hBl : ∀ b ∈ m :: A, b ∈ l := by
    intro b hb
    rcases List.mem_cons.mp hb with h | h
    · exact h ▸ hm
    · exact hAl b h
  have hlen := disjoint_length_le l F (m :: A) hF hB hFl hBl hd
  have hqg := quorum_ge sh l
  simp only [List.length_cons] at hlen
  omega

/-! ### the state machine -/

theorem has_add_of_has (σ : St) (hs : List Host) (ts : List Txn) (h : Host) (t : Txn)
    (hh : has σ h t = true) : has { σ with recv := add σ hs ts } h t = true := by
  simp only [has, add] at *
  split
  · simp only [List.contains_eq_mem, List.mem_append, decide_eq_true_eq] at *
    exact Or.inl hh
  · exact hh

theorem has_add_of_mem (σ : St) (hs : List Host) (t : Txn) (h : Host) (hh : h ∈ hs) :
    has { σ with recv := add σ hs [t] } h t = true := by
  simp only [has, add]
  have : hs.contains h = true := by simpa using hh
  rw [if_pos this]
  simp

/-- the inductive invariant -/
def Inv (sh : SwitchHelper) (σ : St) : Prop :=
  σ.m ∈ σ.l ∧
  (∀ t ∈ σ.acked, has σ σ.m t = true) ∧
  (∀ t ∈ σ.acked, ∀ F : List Host, (∀ f ∈ F, f ∈ σ.l) → F.Nodup →
    GetFailoverQuorum sh σ.l ≤ (F.length : Int) → ∃ f ∈ F, has σ f t = true)

theorem inv_init (sh : SwitchHelper) (σ : St) (hm : σ.m ∈ σ.l) (ha : σ.acked = []) : Inv sh σ := by
  refine ⟨hm, ?_, ?_⟩
  · intro t ht; rw [ha] at ht; cases ht
  · intro t ht; rw [ha] at ht; cases ht

theorem inv_commit (sh : SwitchHelper) (σ : St) (t : Txn) (A : List Host) (hinv : Inv sh σ)
    (hen : enabled sh σ (.commit t A) = true) :
    Inv sh { σ with recv := add σ (σ.m :: A) [t], acked := t :: σ.acked } := by
  obtain ⟨hm, ha, hb⟩ := hinv
  simp only [enabled, Bool.and_eq_true, List.all_eq_true, decide_eq_true_eq, bne_iff_ne, ne_eq,
    List.contains_eq_mem] at hen
  obtain ⟨⟨hall, hdup⟩, hreq⟩ := hen
  have hAl : ∀ a ∈ A, a ∈ σ.l := fun a h => (hall a h).1
  have hmA : σ.m ∉ A := fun h => (hall σ.m h).2 rfl
  have hA : A.Nodup := nodup_of_eraseDups_length A hdup
  refine ⟨hm, ?_, ?_⟩
  · intro t' ht'
    rcases List.mem_cons.mp ht' with h | h
    · subst h
      exact has_add_of_mem σ (σ.m :: A) t' σ.m (List.mem_cons_self)
    · exact has_add_of_has σ _ _ _ _ (ha t' h)
  · intro t' ht' F hFl hF hq
    rcases List.mem_cons.mp ht' with h | h
    · subst h
      obtain ⟨f, hf, hfa⟩ := quorum_meets sh σ.l σ.m A F hm hA hAl hmA hreq hF hFl hq
      exact ⟨f, hf, has_add_of_mem σ (σ.m :: A) t' f hfa⟩
    · obtain ⟨f, hf, hft⟩ := hb t' h F hFl hF hq
      exact ⟨f, hf, has_add_of_has σ _ _ _ _ hft⟩

theorem inv_replicate (sh : SwitchHelper) (σ : St) (h : Host) (T : List Txn) (hinv : Inv sh σ) :
    Inv sh { σ with recv := add σ [h] T } := by
  obtain ⟨hm, ha, hb⟩ := hinv
  refine ⟨hm, ?_, ?_⟩
  · intro t ht
    exact has_add_of_has σ _ _ _ _ (ha t ht)
  · intro t ht F hFl hF hq
    obtain ⟨f, hf, hft⟩ := hb t ht F hFl hF hq
    exact ⟨f, hf, has_add_of_has σ _ _ _ _ hft⟩

theorem inv_failover (sh : SwitchHelper) (σ : St) (n : Host) (F : List Host) (hinv : Inv sh σ)
    (hen : enabled sh σ (.failover n F) = true) :
    Inv sh { σ with m := n } := by
  obtain ⟨_, _, hb⟩ := hinv
  simp only [enabled, Bool.and_eq_true, List.all_eq_true, decide_eq_true_eq, List.contains_eq_mem] at hen
  obtain ⟨⟨⟨⟨hFl, hdup⟩, hn⟩, hq⟩, hcatch⟩ := hen
  have hF : F.Nodup := nodup_of_eraseDups_length F hdup
  refine ⟨hFl n hn, ?_, hb⟩
  intro t ht
  obtain ⟨f, hf, hft⟩ := hb t ht F hFl hF hq
  have : t ∈ σ.recv f := by simpa [has] using hft
  exact hcatch f hf t this

theorem inv_step (sh : SwitchHelper) (σ : St) (s : Step) (hinv : Inv sh σ) : Inv sh (step sh σ s) := by
  unfold step
  by_cases hen : enabled sh σ s = true
  · simp only [hen, Bool.not_true, Bool.false_eq_true, if_false]
    cases s with
    | commit t A => exact inv_commit sh σ t A hinv hen
    | replicate h T => exact inv_replicate sh σ h T hinv
    | failover n F => exact inv_failover sh σ n F hinv hen
  · have : enabled sh σ s = false := by simpa using hen
    simp only [this, Bool.not_false, if_true]
    exact hinv

theorem inv_run (sh : SwitchHelper) (steps : List Step) : ∀ σ : St, Inv sh σ → Inv sh (run sh σ steps) := by
  induction steps with
  | nil => intro σ h; exact h
  | cons s rest ih =>
    intro σ h
    simp only [run, List.foldl_cons]
    exact ih (step sh σ s) (inv_step sh σ s h)

end SafetyLemmas
