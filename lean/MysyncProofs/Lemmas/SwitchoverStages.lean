/-
Helper lemmas for C01 / C07 / C11: `performSwitchover` and `promotePart` as a linear list of STAGES.

A stage is a guard with the steps taken when it holds (`good`) and the steps taken when it does not
(`bad`); `run` executes stages in order and stops after the first failed guard.  The two equalities
`promotePart_eq` and `performSwitchover_eq` are proved once by walking the `if … then … else` chains of
the model; every membership / ordering / last-step fact is then derived from the stage list.
-/
import MysyncModel.App.Switchover
import MysyncProofs.Lemmas.GtidLemmas

namespace SwitchoverLemmas
open NS Gtid Select Switchover

/-- a guard, the steps taken when it holds, the steps taken (before stopping) when it does not -/
structure Stage where
  ok : Bool
  good : List Step
  bad : List Step := []

/-- execute stages in order; stop after the first failed guard -/
def run : List Stage → List Step
  | [] => []
  | s :: r => if s.ok then s.good ++ run r else s.bad

@[simp] theorem run_nil : run [] = [] := rfl
theorem run_cons (s : Stage) (r : List Stage) : run (s :: r) = if s.ok then s.good ++ run r else s.bad := rfl

/-- the old master gets the recovery mark unless it is a confirmed clean replica -/
def needRecovery (i : In) (mr : Pos) : Bool :=
  match i.oldStatus with
  | .err | .notReplica => true
  | .replica st ex => isSlavePermanentlyLost st ex mr.gtid

/-- hosts re-pointed to the new master in phase 5 -/
def targets (i : In) (nm : Pos) : List String :=
  (workList i).filter fun h => h != nm.host && (pingOk i.cs2 h == some true)

/-- `promotePart` up to and including `STOP SLAVE` on the new master (phases 4, 5 and the recovery mark) -/
def pHead (i : In) (nm mr : Pos) : List Stage :=
  [ { ok := true, good := [.chosen nm.host mr.host] },
    { ok := !(nm.host != mr.host && !i.mostRecentOnlineOk),
      good := if nm.host != mr.host then [.setOnline mr.host true] else [],
      bad := [.setOnline mr.host false] },
    { ok := !(nm.host != mr.host && !i.catchUpChangeOk),
      good := if nm.host != mr.host then [.changeMaster nm.host mr.host true] else [],
      bad := [.changeMaster nm.host mr.host false] },
    { ok := true, good := [.catchUp i.catchUp] },
    { ok := i.catchUp == .caught || i.catchUp == .asyncEscape, good := [] },
    { ok := i.lock2, good := [.lockCheck 2 true], bad := [.lockCheck 2 false] },
    { ok := (pingOk i.cs2 nm.host).isSome, good := [], bad := [.panic "clusterState[newMaster]"] },
    { ok := (pingOk i.cs2 nm.host == some true) && (dubiousHAHosts i.cs2).isEmpty, good := [.restate true], bad := [.restate false] },
    { ok := i.newMasterOnlineOk,
      good := Step.setOnline nm.host true :: (targets i nm).map fun h => Step.changeMaster h nm.host (i.repoint h),
      bad := [.setOnline nm.host false] },
    { ok := !(workList i).any (fun h => (pingOk i.cs2 h).isNone), good := [], bad := [.panic "clusterState[host]"] },
    { ok := (targets i nm).all i.repoint, good := [] },
    { ok := !(needRecovery i mr && !i.setRecoveryOk),
      good := if needRecovery i mr then [.setRecovery i.oldMaster true] else [],
      bad := [.setRecovery i.oldMaster false] },
    { ok := i.stopSlaveOk, good := [.stopSlave nm.host true], bad := [.stopSlave nm.host false] } ]

def pReset (i : In) (nm : Pos) : Stage :=
  { ok := i.resetOk, good := [.resetSlaveAll nm.host true, .updateActiveNodes], bad := [.resetSlaveAll nm.host false] }
def pWritable (i : In) (nm : Pos) : Stage :=
  { ok := i.writableOk, good := [.setWritable nm.host true], bad := [.setWritable nm.host false] }
def pEvents (i : In) (nm : Pos) : Stage :=
  { ok := i.eventsOk, good := [.reenableEvents true, .setMasterKey nm.host i.masterKeyOk], bad := [.reenableEvents false] }

/-- all stages of `promotePart` -/
def pStages (i : In) (nm mr : Pos) : List Stage := pHead i nm mr ++ [pReset i nm, pWritable i nm, pEvents i nm]


theorem run_append (a b : List Stage) :
    run (a ++ b) = if a.all (·.ok) then run a ++ run b else run a := by
  induction a with
  | nil => simp
  | cons s r ih =>
    simp only [List.cons_append, run_cons, List.all_cons, ih]
    by_cases hs : s.ok = true
    · by_cases hr : (r.all fun x => x.ok) = true <;> simp [hs, hr]
    · simp [hs]

/-- the first three stages of `pHead` (the `(s1, go)` pair of the model) -/
def p4 (i : In) (nm mr : Pos) : List Stage :=
  [ { ok := true, good := [.chosen nm.host mr.host] },
    { ok := !(nm.host != mr.host && !i.mostRecentOnlineOk),
      good := if nm.host != mr.host then [.setOnline mr.host true] else [],
      bad := [.setOnline mr.host false] },
    { ok := !(nm.host != mr.host && !i.catchUpChangeOk),
      good := if nm.host != mr.host then [.changeMaster nm.host mr.host true] else [],
      bad := [.changeMaster nm.host mr.host false] }]

theorem phase4_eq (i : In) (nm mr : Pos) (pre : List Step) :
  (if (nm.host != mr.host) = true then
                if (!i.mostRecentOnlineOk) = true then
                  (pre ++ [Step.chosen nm.host mr.host] ++ [Step.setOnline mr.host false], false)
                else
                  if (!i.catchUpChangeOk) = true then
                    (pre ++ [Step.chosen nm.host mr.host] ++
                        [Step.setOnline mr.host true, Step.changeMaster nm.host mr.host false],
                      false)
                  else
                    (pre ++ [Step.chosen nm.host mr.host] ++
                        [Step.setOnline mr.host true, Step.changeMaster nm.host mr.host true],
                      true)
              else (pre ++ [Step.chosen nm.host mr.host], true)) = (pre ++ run (p4 i nm mr), (p4 i nm mr).all (·.ok)) := by
  unfold p4
  cases (nm.host != mr.host) <;> cases i.mostRecentOnlineOk <;> cases i.catchUpChangeOk <;> simp [run_cons]

theorem promotePart_eq (cfg : Cfg) (i : In) (nm mr : Pos) (pre : List Step) :
    promotePart cfg i nm mr pre = pre ++ run (pStages i nm mr) := by
  have e : pStages i nm mr = p4 i nm mr ++ (pStages i nm mr).drop 3 := rfl
  rw [e, run_append]
  unfold promotePart
  simp only [phase4_eq]
  generalize run (p4 i nm mr) = R4
  generalize (p4 i nm mr).all (·.ok) = go4
  cases go4
  · simp
  simp only [pStages, pHead, pReset, pWritable, pEvents, List.drop, List.cons_append, List.nil_append,
    run_cons, run_nil, ← targets.eq_1]
  cases h1 : (i.catchUp == CatchUp.caught || i.catchUp == CatchUp.asyncEscape)
  · simp
  cases h2 : i.lock2
  · simp
  cases h3 : pingOk i.cs2 nm.host with
  | none => simp
  | some p =>
  cases p
  · simp
  cases h4 : (dubiousHAHosts i.cs2).isEmpty
  · simp
  cases h5 : i.newMasterOnlineOk
  · simp
  cases h6 : (workList i).any fun h => (pingOk i.cs2 h).isNone
  case true => simp
  cases h7 : (targets i nm).all i.repoint
  · simp
  unfold needRecovery
  cases hos : i.oldStatus with
  | replica st ex =>
    simp only []
    rcases Bool.eq_false_or_eq_true (isSlavePermanentlyLost st ex mr.gtid) with hpl | hpl <;> simp only [hpl] <;>
    cases h8 : i.setRecoveryOk <;> cases h9 : i.stopSlaveOk <;> cases h10 : i.resetOk <;>
      cases h11 : i.writableOk <;> cases h12 : i.eventsOk <;> simp
  | _ =>
    simp only []
    cases h8 : i.setRecoveryOk <;> cases h9 : i.stopSlaveOk <;> cases h10 : i.resetOk <;>
      cases h11 : i.writableOk <;> cases h12 : i.eventsOk <;> simp

def psOf (i : In) : List Pos := i.positions.getD []
def mrOf (i : In) : Pos := match findMostRecent (psOf i) with | .node m => m | _ => default
def isNode : MostRecent → Bool | .node _ => true | _ => false
def isDNode : Desirable → Bool | .node _ => true | _ => false
def nmOf (cfg : Cfg) (i : In) : Pos :=
  if i.sw.to != "" then ((psOf i).find? (·.host == i.sw.to)).getD { host := i.sw.to, gtid := [], lag := 0, prio := 0 }
  else if i.sw.from_ != "" then
    (match mostDesirable cfg.priorityChoiceMaxLag (filterOutHost (psOf i) i.sw.from_) with | .node nm => nm | _ => default)
  else mrOf i

def roOk (i : In) (h : String) : Bool := (pingOk i.cs h == some true) && i.ro h
def qOk (cfg : Cfg) (i : In) : Bool := (Gen.SwitchHelper.CheckFailoverQuorum (sh cfg) i.active (frozen i).length).isNone

/-- steps of the inner rejection of a planned switchover whose old master could not be frozen -/
def rejectBad (ok : Bool) : List Step := if ok then [.rejectInside] else [.rejectInside, .fail "reject failed"]

@[simp] theorem mem_rejectBad {s : Step} {ok : Bool} :
    s ∈ rejectBad ok ↔ s = .rejectInside ∨ (ok = false ∧ s = .fail "reject failed") := by
  cases ok <;> simp [rejectBad]

/-- what happens when the collected positions have no maximum -/
def mrBad : MostRecent → List Step
  | .panic => [.panic "positions[0]"]
  | .splitBrain => [.writeEmerge]
  | .node _ => []

@[simp] theorem mem_mrBad {s : Step} {x : MostRecent} :
    s ∈ mrBad x ↔ (x = .panic ∧ s = .panic "positions[0]") ∨ (x = .splitBrain ∧ s = .writeEmerge) := by
  cases x <;> simp [mrBad]

/-- everything up to and including the collection of positions (phases 0–3a) -/
def sPreA (cfg : Cfg) (i : In) : List Stage :=
  [ { ok := !(i.sw.to != "" && !i.active.contains i.sw.to), good := [], bad := [.fail "replica is not active"] },
    { ok := (dubiousHAHosts i.cs).isEmpty, good := [], bad := [.fail "dubious hosts"] },
    -- every listed host and the recorded master are registered hosts; checked before anything is touched
    -- (fix fc0b66f; nil dereferences before)
    { ok := !(workList i ++ [i.oldMaster]).any (fun h => (pingOk i.cs h).isNone), good := [],
      bad := [.fail "host is not among cluster hosts"] },
    { ok := i.optStopOk, good := [.stopOptimization true], bad := [.stopOptimization false] },
    { ok := !(i.turbo && !i.turboOk), good := if i.turbo then [.turboPhase true] else [], bad := [.turboPhase false] },
    -- the second shut-off of the optimisation, after a successful speed-up phase (fix 97bff8a)
    { ok := !(i.turbo && !i.optStop2Ok), good := if i.turbo then [.stopOptimization true] else [],
      bad := [.stopOptimization false] },
    -- phase 1
    { ok := true, good := (workList i).map fun h => Step.freezeRO h (roOk i h) },
    { ok := !((workList i).contains i.oldMaster && !roOk i i.oldMaster && !i.sw.failoverType), good := [],
      bad := rejectBad i.rejectOk },
    -- (the guard of this stage always holds when it is reached: `oldMaster_stage_unreachable` in RobustLemmas)
    { ok := (pingOk i.cs i.oldMaster).isSome,
      good := ((workList i).filter (· != i.oldMaster)).map (fun h => Step.stopIO h ((pingOk i.cs h == some true) && i.io h))
        ++ [.quorumCheck (frozen i).length (qOk cfg i)],
      bad := [.panic "clusterState[oldMaster]"] },
    { ok := qOk cfg i, good := [] },
    { ok := i.lock1, good := [.lockCheck 1 true], bad := [.lockCheck 1 false] },
    { ok := i.positions.isSome && !((psOf i).length != (frozen i).length), good := [.positions true], bad := [.positions false] } ]

/-- "no suitable nodes to switch from": the only collected position is the host to switch from -/
def sOnly (i : In) : Stage :=
  { ok := !((psOf i).length == 1 && ((psOf i).head?.map (·.host)) == some i.sw.from_), good := [],
    bad := [.fail "no suitable nodes to switch from"] }
/-- the positions have a maximum (no split brain) -/
def sNode (i : In) : Stage :=
  { ok := isNode (findMostRecent (psOf i)), good := [], bad := mrBad (findMostRecent (psOf i)) }
/-- a new master can be picked -/
def sPick (cfg : Cfg) (i : In) : Stage :=
  { ok := i.sw.to != "" || i.sw.from_ == "" || isDNode (mostDesirable cfg.priorityChoiceMaxLag (filterOutHost (psOf i) i.sw.from_)),
    good := [], bad := [.fail "no highest priority node"] }

def sPre (cfg : Cfg) (i : In) : List Stage := sPreA cfg i ++ [sOnly i, sNode i, sPick cfg i]

/-- all stages of `performSwitchover` -/
def stages (cfg : Cfg) (i : In) : List Stage := sPre cfg i ++ pStages i (nmOf cfg i) (mrOf i)

theorem performSwitchover_eq (cfg : Cfg) (i : In) : performSwitchover cfg i = run (stages cfg i) := by
  unfold performSwitchover stages sPre sPreA sOnly sNode sPick
  simp only [promotePart_eq, List.cons_append, List.nil_append, run_cons, roOk, qOk]
  cases a1 : (i.sw.to != "" && !i.active.contains i.sw.to)
  case true => simp
  cases a2 : (dubiousHAHosts i.cs).isEmpty
  · simp
  cases a5 : (workList i ++ [i.oldMaster]).any fun h => (pingOk i.cs h).isNone
  case true => simp
  cases a3 : i.optStopOk
  · simp
  cases a4 : i.turbo <;> cases a4' : i.turboOk <;> cases a4'' : i.optStop2Ok
  case true.false.false => simp
  case true.false.true => simp
  case true.true.false => simp
  all_goals
    simp only [Bool.true_and, Bool.false_and, Bool.not_true, Bool.not_false]
    cases a6 : ((workList i).contains i.oldMaster && !(pingOk i.cs i.oldMaster == some true && i.ro i.oldMaster) &&
                      !i.sw.failoverType)
    case true => cases i.rejectOk <;> simp [rejectBad]
    cases a7 : pingOk i.cs i.oldMaster with
    | none => simp
    | some po =>
    cases a8 : (Gen.SwitchHelper.CheckFailoverQuorum (sh cfg) i.active ↑(frozen i).length).isNone
    · simp
    cases a9 : i.lock1
    · simp
    cases a10 : i.positions with
    | none => simp
    | some ps =>
    have hps : psOf i = ps := by simp [psOf, a10]
    simp only [hps]
    cases a11 : (ps.length != (frozen i).length)
    case true => simp
    cases a12 : (ps.length == 1 && Option.map (fun x => x.host) ps.head? == some i.sw.from_)
    case true => simp
    cases a13 : findMostRecent ps with
    | panic => simp [isNode, mrBad]
    | splitBrain => simp [isNode, mrBad]
    | node mr =>
    have hmr : mrOf i = mr := by simp [mrOf, hps, a13]
    cases a14 : (i.sw.to != "")
    case true =>
      have hnm : nmOf cfg i = (ps.find? (·.host == i.sw.to)).getD { host := i.sw.to, gtid := [], lag := 0, prio := 0 } := by
        simp only [nmOf, a14, hps]; rfl
      simp [isNode, hnm, hmr]
    cases a15 : (i.sw.from_ != "")
    case false =>
      have hnm : nmOf cfg i = mr := by simp only [nmOf, a14, a15, hmr]; rfl
      have : (i.sw.from_ == "") = true := by simpa [bne] using a15
      simp [isNode, hnm, hmr, this]
    have : (i.sw.from_ == "") = false := by simpa [bne] using a15
    cases a16 : mostDesirable cfg.priorityChoiceMaxLag (filterOutHost ps i.sw.from_) with
    | node nm =>
      have hnm : nmOf cfg i = nm := by simp only [nmOf, a14, a15, hps, a16]; rfl
      simp [isNode, isDNode, hnm, hmr, this]
    | _ => simp [isNode, isDNode, this]

end SwitchoverLemmas
