/-
Helper lemmas for C05 / C06 / C09: normal forms of `Manager.afterSwitch`, `Manager.handleSwitch` and
`Manager.stateManager`, and the gating of `Step.issueFailover`.
-/
import MysyncModel.App.Manager
import MysyncModel.App.SwitchLifecycle

namespace ManagerLemmas
open NS Manager SwitchLifecycle

/-! ### `approveFailover` -/

/-- what an approval (`.ok none`) of `approveFailover` with timer value `tm` implies -/
theorem approveFailover_ok_none {cfg : Cfg} {i : In} {master : String} {tm : Option Int}
    (h : approveFailover cfg i master tm = .ok none) :
    cfg.failover = true ∧
    (∃ md, i.dcs.get? master = some md ∧
      ((md.daemonCrashRecovery = some true ∧ cfg.resetupCrashedHosts = true) ∨ md.isFsReadonly = true ∨
        (¬ (countRunningHASlaves i.cs > 0 ∧ countRunningHASlaves i.cs = countHANodes i.cs - 1) ∧
          (cfg.failoverDelay ≤ 0 ∨ tm = none ∨ ∃ t, tm = some t ∧ i.now - t ≥ cfg.failoverDelay)))) ∧
    Gen.SwitchHelper.CheckFailoverQuorum (sh cfg) i.activeNodes (countAliveHASlavesWithin i.activeNodes i.cs) = none ∧
    (i.last = .absent ∨ ∃ causeAuto fin, i.last = .record false causeAuto fin ∧
      ¬ (causeAuto = true ∧ i.now - fin < cfg.failoverCooldown)) := by
  unfold approveFailover at h
  cases hf : cfg.failover <;>
    simp only [hf, Bool.not_true, Bool.not_false, if_true, Bool.false_eq_true, if_false] at h
  · simp at h
  refine ⟨rfl, ?_⟩
  rcases hd : i.dcs.get? master with _ | md <;> simp only [hd] at h
  · simp at h
  split at h
  · simp at h
  · rename_i hearly
    split at h
    · simp at h
    · rename_i hq
      refine ⟨⟨md, rfl, ?_⟩, by simpa using hq, ?_⟩
      · split at hearly
        · rename_i hcr; left; simpa using hcr
        · split at hearly
          · rename_i hro; right; left; exact hro
          · split at hearly
            · simp at hearly
            · rename_i hrun
              refine Or.inr (Or.inr ⟨by simpa using hrun, ?_⟩)
              split at hearly
              · rcases tm with _ | t
                · simp
                · simp only at hearly
                  split at hearly
                  · simp at hearly
                  · exact Or.inr (Or.inr ⟨t, rfl, by omega⟩)
              · left; omega
      · split at h
        · left; assumption
        · simp at h
        · rename_i rn ca fin hl
          cases rn <;> simp at h
          refine Or.inr ⟨ca, fin, hl, ?_⟩
          intro ⟨h1, h2⟩
          have := h h2
          simp [h1] at this

/-! ### normal form of `afterSwitch` -/

/-- the process-local failure clock (same body as `C05.tickTimer`) -/
def timerNext (bad : Bool) (now : Int) (t : Option Int) : Option Int :=
  if bad then (match t with | some x => some x | none => some now) else none

/-- the step that reports the verdict of `approveFailover` in the bad-health branch -/
def verdictStep : Except String (Option Refusal) → Step
  | .error site => .panic site
  | .ok none => .issueFailover
  | .ok (some r) => .notApproved r

/-- the steps of the failure detection before the approval -/
def detectSteps (bad : Bool) (fa : Option Int) : List Step :=
  if bad then (match fa with | none => [.masterFailureSeen, .setFailTimer] | some _ => [.masterFailureSeen])
  else (match fa with | some _ => [.cleanFailTimer] | none => [])

/-- the steps that `afterSwitch` appends to its `pre` argument -/
def asTail (cfg : Cfg) (i : In) (master : String) (light : Bool) : List Step :=
  match i.dcs.get? master with
  | none => []
  | some md =>
    let bad := !md.pingOk || md.isFsReadonly
    let d := detectSteps bad i.failedAt
    if bad && !light then d ++ [verdictStep (approveFailover cfg i master (timerNext bad i.now i.failedAt))]
    else
      let d' := if bad then d ++ [.failoverSuppressedByLight] else d
      match i.cs.get? master with
      | none => d' ++ [.panic "clusterState[master]"]
      | some cm =>
        if !cm.pingOk then d' ++ [.suspicious]
        else if cfg.resetupCrashedHosts && countHANodes i.cs > 1 && md.daemonCrashRecovery == some true then
          if light then
            d' ++ [.repairOffline, .repairCluster, .crashRecoverySeen, .failoverSuppressedByLight,
              .updateActiveNodes, .syncOptimization]
          else match approveFailover cfg i master none with
            | .error site => d' ++ [.repairOffline, .repairCluster, .crashRecoverySeen, .panic site]
            | .ok none => d' ++ [.repairOffline, .repairCluster, .crashRecoverySeen, .issueFailover]
            | .ok (some r) =>
              d' ++ [.repairOffline, .repairCluster, .crashRecoverySeen, .notApproved r, .updateActiveNodes,
                .syncOptimization]
        else d' ++ [.repairOffline, .repairCluster, .updateActiveNodes, .syncOptimization]

/-- the timer value that `afterSwitch` returns -/
def asTimer (i : In) (master : String) : Option Int :=
  match i.dcs.get? master with
  | none => i.failedAt
  | some md => timerNext (!md.pingOk || md.isFsReadonly) i.now i.failedAt

theorem afterSwitch_eq (cfg : Cfg) (i : In) (master : String) (light : Bool) (pre : List Step) :
    afterSwitch cfg i master light pre =
      { steps := pre ++ asTail cfg i master light, next := .manager, failedAt := asTimer i master } := by
  rcases hd : i.dcs.get? master with _ | md
  · simp [afterSwitch, asTail, asTimer, hd]
  · cases hb : (!md.pingOk || md.isFsReadonly) <;> cases light <;> rcases hf : i.failedAt with _ | t <;>
      simp [afterSwitch, asTail, asTimer, timerNext, detectSteps, hd, hb, hf]
    all_goals (repeat' split)
    all_goals (try simp_all [verdictStep])

/-- steps of `afterSwitch` other than the filing of a failover: none of them touches a coordination key -/
def quiet : Step → Bool
  | .masterFailureSeen | .setFailTimer | .cleanFailTimer | .notApproved _ | .suspicious | .repairOffline
  | .repairCluster | .crashRecoverySeen | .updateActiveNodes | .syncOptimization | .panic _
  | .failoverSuppressedByLight => true
  | _ => false

theorem detectSteps_quiet (bad : Bool) (fa : Option Int) : ∀ s ∈ detectSteps bad fa, quiet s = true := by
  cases bad <;> cases fa <;> simp [detectSteps, quiet]

/-- the approval part of the gates: what `approveFailover … = .ok none` establishes, with the timer
being the process-local `i.failedAt` -/
def Approved (cfg : Cfg) (i : In) (master : String) : Prop :=
  cfg.failover = true ∧
  (∃ md, i.dcs.get? master = some md ∧
    ((md.pingOk = false ∨ md.isFsReadonly = true) ∨ (md.daemonCrashRecovery = some true ∧ cfg.resetupCrashedHosts = true)) ∧
    ((md.daemonCrashRecovery = some true ∧ cfg.resetupCrashedHosts = true) ∨ md.isFsReadonly = true ∨
      (¬ (countRunningHASlaves i.cs > 0 ∧ countRunningHASlaves i.cs = countHANodes i.cs - 1) ∧
        (cfg.failoverDelay ≤ 0 ∨ ∃ t, i.failedAt = some t ∧ i.now - t ≥ cfg.failoverDelay)))) ∧
  Gen.SwitchHelper.CheckFailoverQuorum (sh cfg) i.activeNodes (countAliveHASlavesWithin i.activeNodes i.cs) = none ∧
  (i.last = .absent ∨ ∃ causeAuto fin, i.last = .record false causeAuto fin ∧
    ¬ (causeAuto = true ∧ i.now - fin < cfg.failoverCooldown))

/-- approval in the bad-health branch -/
theorem approved_of_bad {cfg : Cfg} {i : In} {master : String} {md : NodeState}
    (hd : i.dcs.get? master = some md) (hb : (!md.pingOk || md.isFsReadonly) = true)
    (h : approveFailover cfg i master (timerNext true i.now i.failedAt) = .ok none) :
    Approved cfg i master := by
  obtain ⟨h1, ⟨md', hd', h2⟩, h3, h4⟩ := approveFailover_ok_none h
  obtain rfl : md' = md := by rw [hd] at hd'; exact (Option.some.inj hd').symm
  refine ⟨h1, ⟨md', hd, Or.inl (by simpa using hb), ?_⟩, h3, h4⟩
  rcases h2 with h2 | h2 | ⟨h2, h5⟩
  · exact Or.inl h2
  · exact Or.inr (Or.inl h2)
  · refine Or.inr (Or.inr ⟨h2, ?_⟩)
    rcases h5 with h5 | h5 | ⟨t, h5, h6⟩
    · exact Or.inl h5
    · cases hf : i.failedAt <;> simp [timerNext, hf] at h5
    · rcases hf : i.failedAt with _ | t' <;> simp [timerNext, hf] at h5
      · subst h5; left; omega
      · subst h5; exact Or.inr ⟨t', rfl, h6⟩

/-- approval in the crash-recovery branch -/
theorem approved_of_crash {cfg : Cfg} {i : In} {master : String} {md : NodeState} {tm : Option Int}
    (hd : i.dcs.get? master = some md)
    (hc : md.daemonCrashRecovery = some true ∧ cfg.resetupCrashedHosts = true)
    (h : approveFailover cfg i master tm = .ok none) :
    Approved cfg i master := by
  obtain ⟨h1, ⟨md', hd', _⟩, h3, h4⟩ := approveFailover_ok_none h
  exact ⟨h1, ⟨md, hd, Or.inr hc, Or.inl hc⟩, h3, h4⟩

theorem quiet_append {a b : List Step} (ha : ∀ s ∈ a, quiet s = true) (hb : ∀ s ∈ b, quiet s = true) :
    ∀ s ∈ a ++ b, quiet s = true := by
  intro s hs
  rcases List.mem_append.mp hs with h | h
  · exact ha s h
  · exact hb s h

/-- the steps appended by `afterSwitch`: either all quiet, or quiet steps followed by exactly one
filing, which then happens outside light maintenance and with every approval gate open -/
theorem asTail_char (cfg : Cfg) (i : In) (master : String) (light : Bool) :
    (∀ s ∈ asTail cfg i master light, quiet s = true) ∨
    (∃ q, asTail cfg i master light = q ++ [.issueFailover] ∧ (∀ s ∈ q, quiet s = true) ∧
      light = false ∧ Approved cfg i master) := by
  unfold asTail
  rcases hd : i.dcs.get? master with _ | md
  · left; simp [quiet]
  · simp only
    have hq := detectSteps_quiet (!md.pingOk || md.isFsReadonly) i.failedAt
    generalize detectSteps (!md.pingOk || md.isFsReadonly) i.failedAt = d at hq ⊢
    cases hb : (!md.pingOk || md.isFsReadonly) <;> cases light
    all_goals simp only [Bool.false_and, Bool.true_and, Bool.not_false, Bool.not_true, if_true, if_false,
      Bool.false_eq_true]
    · rcases i.cs.get? master with _ | cm <;> simp only []
      · left; exact quiet_append hq (by simp [quiet])
      · split
        · left; exact quiet_append hq (by simp [quiet])
        · split
          · rename_i hcrash
            split
            · left; exact quiet_append hq (by simp [quiet])
            · rename_i happ
              right
              refine ⟨d ++ [.repairOffline, .repairCluster, .crashRecoverySeen], by simp,
                quiet_append hq (by simp [quiet]), trivial, approved_of_crash hd ?_ happ⟩
              simp at hcrash; exact ⟨hcrash.2, hcrash.1.1⟩
            · left; exact quiet_append hq (by simp [quiet])
          · left; exact quiet_append hq (by simp [quiet])
    · left
      repeat' split
      all_goals exact quiet_append hq (by simp [quiet])
    · rcases ha : approveFailover cfg i master (timerNext true i.now i.failedAt) with e | _ | r <;>
        simp only [verdictStep]
      · left; exact quiet_append hq (by simp [quiet])
      · right; exact ⟨d, rfl, hq, trivial, approved_of_bad hd hb ha⟩
      · left; exact quiet_append hq (by simp [quiet])
    · left
      repeat' split
      all_goals exact quiet_append (quiet_append hq (by simp [quiet])) (by simp [quiet])

/-- under light maintenance nothing is filed -/
theorem asTail_light_quiet (cfg : Cfg) (i : In) (master : String) :
    ∀ s ∈ asTail cfg i master true, quiet s = true := by
  rcases asTail_char cfg i master true with h | ⟨_, _, _, h, _⟩
  · exact h
  · cases h

/-! ### normal form of `handleSwitch` -/

def performTail : PerformOutcome → List Step
  | .abortedMeanwhile => []
  | .panicked => [.panic "performSwitchover"]
  | .failed => [.switchFailed]
  | .ok => [.switchFinished]

/-- the steps of the handling of a request that is not parked by light maintenance -/
def hsTail (cfg : Cfg) (i : In) (sw : Switch) : List Step :=
  if timedOut cfg i.now sw then [.switchTimedOut]
  else if !approveSwitchover cfg i sw then [.switchRejected]
  else if !i.startOk then [.switchStarted false]
  else [.switchStarted true, .switchPerformed i.perform] ++ performTail i.perform

theorem handleSwitch_err {cfg : Cfg} {i : In} {master : String} {light : Bool} {pre : List Step}
    (h : i.sw = .err) :
    handleSwitch cfg i master light pre = { steps := pre, next := .manager, failedAt := i.failedAt } := by
  simp [handleSwitch, h]

theorem handleSwitch_absent {cfg : Cfg} {i : In} {master : String} {light : Bool} {pre : List Step}
    (h : i.sw = .absent) :
    handleSwitch cfg i master light pre =
      { steps := pre ++ asTail cfg i master light, next := .manager, failedAt := asTimer i master } := by
  simp [handleSwitch, h, afterSwitch_eq]

theorem handleSwitch_parked {cfg : Cfg} {i : In} {master : String} {pre : List Step} {sw : Switch}
    (h : i.sw = .record sw) (hf : sw.failoverType = true) :
    handleSwitch cfg i master true pre =
      { steps := pre ++ .failoverSuppressedByLight :: asTail cfg i master true, next := .manager,
        failedAt := asTimer i master } := by
  simp [handleSwitch, h, hf, afterSwitch_eq]

theorem handleSwitch_record {cfg : Cfg} {i : In} {master : String} {light : Bool} {pre : List Step}
    {sw : Switch} (h : i.sw = .record sw) (hf : ¬ (light = true ∧ sw.failoverType = true)) :
    handleSwitch cfg i master light pre =
      { steps := pre ++ hsTail cfg i sw, next := .manager, failedAt := i.failedAt } := by
  have hf' : (light && sw.failoverType) = false := by
    cases light <;> cases hft : sw.failoverType <;> simp_all
  simp only [handleSwitch, h, hf', hsTail, timedOut]
  obtain ⟨f, t, ca, ft, ia, rc⟩ := sw
  rcases ia with _ | t <;> simp only [] <;>
    cases approveSwitchover cfg i _ <;> cases i.startOk <;> cases i.perform <;> simp [performTail] <;>
    (split <;> rfl)

/-! ### normal form of `stateManager` -/

/-- steps taken by an iteration that returns before the switch handling -/
def early : Step → Bool
  | .writeEmerge | .tryLeaveMaintenance | .setMaintPaused false | .enterMaintenance _ => true
  | _ => false

/-- the iteration reaches the switch handling for `master`, under `light`, having taken `pre` -/
def Enters (i : In) (master : String) (light : Bool) (pre : List Step) : Prop :=
  i.connected = true ∧ i.lockHeld = true ∧ i.dcsStateErr = false ∧ i.master = some master ∧
  i.activeNodesErr = false ∧
  ((light = false ∧ pre = [] ∧ (i.maint = .absent ∨ i.maint = .err false)) ∨
   (light = true ∧ pre = [] ∧ i.maint = .record true true false) ∨
   (light = true ∧ pre = [.setMaintPaused true] ∧ i.maint = .record true false false ∧ i.setPausedOk = true))

theorem stateManager_of_enters {cfg : Cfg} {i : In} {master : String} {light : Bool} {pre : List Step}
    (h : Enters i master light pre) : stateManager cfg i = handleSwitch cfg i master light pre := by
  obtain ⟨hc, hl, hd, hm, ha, h⟩ := h
  rcases h with ⟨rfl, rfl, h | h⟩ | ⟨rfl, rfl, h⟩ | ⟨rfl, rfl, h, hs⟩ <;>
    simp [stateManager, *]

theorem stateManager_early_or_enters (cfg : Cfg) (i : In) :
    ((stateManager cfg i).failedAt = i.failedAt ∧ (∀ s ∈ (stateManager cfg i).steps, early s = true)) ∨
    ∃ master light pre, Enters i master light pre := by
  cases hc : i.connected
  · left; simp [stateManager, hc]
  cases hl : i.lockHeld
  · left; simp [stateManager, hc, hl]
  cases hd : i.dcsStateErr
  rotate_left
  · left; simp [stateManager, hc, hl, hd]
  rcases hm : i.master with _ | m
  · left; cases hmm : i.manyMasters <;> simp [stateManager, hc, hl, hd, hm, hmm, early]
  cases ha : i.activeNodesErr
  rotate_left
  · left; simp [stateManager, hc, hl, hd, hm, ha]
  rcases hmt : i.maint with _ | f | ⟨l, p, s⟩
  · right; exact ⟨m, false, [], hc, hl, hd, hm, ha, Or.inl ⟨rfl, rfl, Or.inl hmt⟩⟩
  · cases f
    · right; exact ⟨m, false, [], hc, hl, hd, hm, ha, Or.inl ⟨rfl, rfl, Or.inr hmt⟩⟩
    · left; simp [stateManager, hc, hl, hd, hm, ha, hmt]
  · cases l <;> cases p <;> cases s <;> try (left; simp [stateManager, hc, hl, hd, hm, ha, hmt, early]; done)
    · left; cases he : i.enterMaintOk <;> simp [stateManager, hc, hl, hd, hm, ha, hmt, he, early]
    · left; cases he : i.enterMaintOk <;> simp [stateManager, hc, hl, hd, hm, ha, hmt, he, early]
    · cases hs : i.setPausedOk
      · left; simp [stateManager, hc, hl, hd, hm, ha, hmt, hs, early]
      · right; exact ⟨m, true, [.setMaintPaused true], hc, hl, hd, hm, ha, Or.inr (Or.inr ⟨rfl, rfl, hmt, hs⟩)⟩
    · right; exact ⟨m, true, [], hc, hl, hd, hm, ha, Or.inr (Or.inl ⟨rfl, rfl, hmt⟩)⟩

/-- every shape that one iteration can take -/
theorem stateManager_shape (cfg : Cfg) (i : In) :
    ((stateManager cfg i).failedAt = i.failedAt ∧ ∀ s ∈ (stateManager cfg i).steps, early s = true) ∨
    ∃ master light pre, Enters i master light pre ∧
      ((i.sw = .err ∧ stateManager cfg i = ⟨pre, .manager, i.failedAt⟩) ∨
       (i.sw = .absent ∧
         stateManager cfg i = ⟨pre ++ asTail cfg i master light, .manager, asTimer i master⟩) ∨
       (∃ sw, i.sw = .record sw ∧ light = true ∧ sw.failoverType = true ∧
         stateManager cfg i =
           ⟨pre ++ .failoverSuppressedByLight :: asTail cfg i master true, .manager, asTimer i master⟩) ∨
       (∃ sw, i.sw = .record sw ∧ ¬ (light = true ∧ sw.failoverType = true) ∧
         stateManager cfg i = ⟨pre ++ hsTail cfg i sw, .manager, i.failedAt⟩)) := by
  rcases stateManager_early_or_enters cfg i with h | ⟨m, light, pre, h⟩
  · exact Or.inl h
  · refine Or.inr ⟨m, light, pre, h, ?_⟩
    rw [stateManager_of_enters h]
    rcases hsw : i.sw with _ | _ | sw
    · exact Or.inr (Or.inl ⟨rfl, handleSwitch_absent hsw⟩)
    · exact Or.inl ⟨rfl, handleSwitch_err hsw⟩
    · by_cases hp : light = true ∧ sw.failoverType = true
      · obtain ⟨rfl, hf⟩ := hp
        exact Or.inr (Or.inr (Or.inl ⟨sw, rfl, rfl, hf, handleSwitch_parked hsw hf⟩))
      · exact Or.inr (Or.inr (Or.inr ⟨sw, rfl, hp, handleSwitch_record hsw hp⟩))

theorem Enters.pre_mem {i : In} {master : String} {light : Bool} {pre : List Step}
    (h : Enters i master light pre) : ∀ s ∈ pre, s = .setMaintPaused true := by
  obtain ⟨_, _, _, _, _, h⟩ := h
  rcases h with ⟨_, rfl, _⟩ | ⟨_, rfl, _⟩ | ⟨_, rfl, _⟩ <;> simp

/-- steps of the handling of a request -/
def swStep : Step → Bool
  | .switchTimedOut | .switchRejected | .switchStarted _ | .switchPerformed _ | .switchFailed
  | .switchFinished | .panic _ => true
  | _ => false

theorem hsTail_mem (cfg : Cfg) (i : In) (sw : Switch) : ∀ s ∈ hsTail cfg i sw, swStep s = true := by
  unfold hsTail
  repeat' split
  all_goals cases i.perform <;> simp [swStep, performTail]

end ManagerLemmas
