/-
Helper lemmas for C05 / C06 / C09: normal forms of `Manager.afterSwitch`, `Manager.handleSwitch` and
`Manager.stateManager`, and the gating of `Step.issueFailover`.
-/
import MysyncModel.App.Manager
import MysyncModel.App.SwitchLifecycle

namespace ManagerLemmas
open NS Manager SwitchLifecycle

/-! ### `approveFailover` -/

/-- what an approval (`.ok none`) of `approveFailover` with timer value `tm` implies -/
theorem approveFailover_ok_none {cfg : Cfg} {i : In} {master : String} {tm : Option Int}
    (h : approveFailover cfg i master tm = .ok none) :
    cfg.failover = true ∧
    (∃ md, i.dcs.get? master = some md ∧
      ((md.daemonCrashRecovery = some true ∧ cfg.resetupCrashedHosts = true) ∨ md.isFsReadonly = true ∨
        (¬ (countRunningHASlaves i.cs > 0 ∧ countRunningHASlaves i.cs = countHANodes i.cs - 1) ∧
          (cfg.failoverDelay ≤ 0 ∨ tm = none ∨ ∃ t, tm = some t ∧ i.now - t ≥ cfg.failoverDelay)))) ∧
    Gen.SwitchHelper.CheckFailoverQuorum (sh cfg) i.activeNodes (countAliveHASlavesWithin i.activeNodes i.cs) = none ∧
    (i.last = .absent ∨ ∃ causeAuto fin, i.last = .record false causeAuto fin ∧
      ¬ (causeAuto = true ∧ i.now - fin < cfg.failoverCooldown)) := by
  unfold approveFailover at h
  cases hf : cfg.failover <;>
    simp only [hf, Bool.not_true, Bool.not_false, if_true, Bool.false_eq_true, if_false] at h
  · simp at h
  refine ⟨rfl, ?_⟩
  rcases hd : i.dcs.get? master with _ | md <;> simp only [hd] at h
  · simp at h
  split at h
  · simp at h
  · rename_i hearly
    split at h
    · simp at h
    · rename_i hq
      refine ⟨⟨md, rfl, ?_⟩, by simpa using hq, ?_⟩
      · split at hearly
        · rename_i hcr; left; simpa using hcr
        · split at hearly
          · rename_i hro; right; left; exact hro
          · split at hearly
            · simp at hearly
            · rename_i hrun
              refine Or.inr (Or.inr ⟨by simpa using hrun, ?_⟩)
              split at hearly
              · rcases tm with _ | t
                · simp
                · simp only at hearly
                  split at hearly
                  · simp at hearly
                  · exact Or.inr (Or.inr ⟨t, rfl, by omega⟩)
              · left; omega
      · split at h
        · left; assumption
        · simp at h
        · rename_i rn ca fin hl
          cases rn <;> simp at h
          refine Or.inr ⟨ca, fin, hl, ?_⟩
          intro ⟨h1, h2⟩
          have := h h2
          simp [h1] at this

/-! ### normal form of `afterSwitch` -/

/-- the process-local failure clock (same body as `C05.tickTimer`) -/
def timerNext (bad : Bool) (now : Int) (t : Option Int) : Option Int :=
  if bad then (match t with | some x => some x | none => some now) else none

/-- the step that reports the verdict of `approveFailover` in the bad-health branch -/
def verdictStep : Except String (Option Refusal) → Step
  | .error site => .panic site
  | .ok none => .issueFailover
  | .ok (some r) => .notApproved r

/-- the steps of the failure detection before the approval -/
def detectSteps (bad : Bool) (fa : Option Int) : List Step :=
  if bad then (match fa with | none => [.masterFailureSeen, .setFailTimer] | some _ => [.masterFailureSeen])
  else (match fa with | some _ => [.cleanFailTimer] | none => [])

/-- the steps that `afterSwitch` appends to its `pre` argument -/
def asTail (cfg : Cfg) (i : In) (master : String) (light : Bool) : List Step :=
  match i.dcs.get? master with
  | none => [.panic "clusterStateDcs[master]"]
  | some md =>
    let bad := !md.pingOk || md.isFsReadonly
    let d := detectSteps bad i.failedAt
    if bad && !light then d ++ [verdictStep (approveFailover cfg i master (timerNext bad i.now i.failedAt))]
    else
      let d' := if bad then d ++ [.failoverSuppressedByLight] else d
      match i.cs.get? master with
      | none => d' ++ [.panic "clusterState[master]"]
      | some cm =>
        if !cm.pingOk then d' ++ [.suspicious]
        else if cfg.resetupCrashedHosts && countHANodes i.cs > 1 && md.daemonCrashRecovery == some true then
          if light then
            d' ++ [.repairOffline, .repairCluster, .crashRecoverySeen, .failoverSuppressedByLight,
              .updateActiveNodes, .syncOptimization]
          else match approveFailover cfg i master none with
            | .error site => d' ++ [.repairOffline, .repairCluster, .crashRecoverySeen, .panic site]
            | .ok none => d' ++ [.repairOffline, .repairCluster, .crashRecoverySeen, .issueFailover]
            | .ok (some r) =>
              d' ++ [.repairOffline, .repairCluster, .crashRecoverySeen, .notApproved r, .updateActiveNodes,
                .syncOptimization]
        else d' ++ [.repairOffline, .repairCluster, .updateActiveNodes, .syncOptimization]

/-- the timer value that `afterSwitch` returns -/
def asTimer (i : In) (master : String) : Option Int :=
  match i.dcs.get? master with
  | none => i.failedAt
  | some md => timerNext (!md.pingOk || md.isFsReadonly) i.now i.failedAt

theorem afterSwitch_eq (cfg : Cfg) (i : In) (master : String) (light : Bool) (pre : List Step) :
    afterSwitch cfg i master light pre =
      { steps := pre ++ asTail cfg i master light, next := .manager, failedAt := asTimer i master } := by
  rcases hd : i.dcs.get? master with _ | md
  · simp [afterSwitch, asTail, asTimer, hd]
  · cases hb : (!md.pingOk || md.isFsReadonly) <;> cases light <;> rcases hf : i.failedAt with _ | t <;>
      simp [afterSwitch, asTail, asTimer, timerNext, detectSteps, hd, hb, hf]
    all_goals (repeat' split)
    all_goals (try simp_all [verdictStep])

/-- steps of `afterSwitch` other than the filing of a failover: none of them touches a coordination key -/
def quiet : Step → Bool
  | .masterFailureSeen | .setFailTimer | .cleanFailTimer | .notApproved _ | .suspicious | .repairOffline
  | .repairCluster | .crashRecoverySeen | .updateActiveNodes | .syncOptimization | .panic _
  | .failoverSuppressedByLight => true
  | _ => false

theorem detectSteps_quiet (bad : Bool) (fa : Option Int) : ∀ s ∈ detectSteps bad fa, quiet s = true := by
  cases bad <;> cases fa <;> simp [detectSteps, quiet]

/-- the approval part of the gates: what `approveFailover … = .ok none` establishes, with the timer
being the process-local `i.failedAt` -/
def Approved (cfg : Cfg) (i : In) (master : String) : Prop :=
  cfg.failover = true ∧
  (∃ md, i.dcs.get? master = some md ∧
    ((md.pingOk = false ∨ md.isFsReadonly = true) ∨ (md.daemonCrashRecovery = some true ∧ cfg.resetupCrashedHosts = true)) ∧
    ((md.daemonCrashRecovery = some true ∧ cfg.resetupCrashedHosts = true) ∨ md.isFsReadonly = true ∨
      (¬ (countRunningHASlaves i.cs > 0 ∧ countRunningHASlaves i.cs = countHANodes i.cs - 1) ∧
        (cfg.failoverDelay ≤ 0 ∨ ∃ t, i.failedAt = some t ∧ i.now - t ≥ cfg.failoverDelay)))) ∧
  Gen.SwitchHelper.CheckFailoverQuorum (sh cfg) i.activeNodes (countAliveHASlavesWithin i.activeNodes i.cs) = none ∧
  (i.last = .absent ∨ ∃ causeAuto fin, i.last = .record false causeAuto fin ∧
    ¬ (causeAuto = true ∧ i.now - fin < cfg.failoverCooldown))

/-- approval in the bad-health branch -/
theorem approved_of_bad {cfg : Cfg} {i : In} {master : String} {md : NodeState}
    (hd : i.dcs.get? master = some md) (hb : (!md.pingOk || md.isFsReadonly) = true)
    (h : approveFailover cfg i master (timerNext true i.now i.failedAt) = .ok none) :
    Approved cfg i master := by
  obtain ⟨h1, ⟨md', hd', h2⟩, h3, h4⟩ := approveFailover_ok_none h
  obtain rfl : md' = md := by rw [hd] at hd'; exact (Option.some.inj hd').symm
  refine ⟨h1, ⟨md', hd, Or.inl (by simpa using hb), ?_⟩, h3, h4⟩
  rcases h2 with h2 | h2 | ⟨h2, h5⟩
  · exact Or.inl h2
  · exact Or.inr (Or.inl h2)
  · refine Or.inr (Or.inr ⟨h2, ?_⟩)
    rcases h5 with h5 | h5 | ⟨t, h5, h6⟩
    · exact Or.inl h5
    · cases hf : i.failedAt <;> simp [timerNext, hf] at h5
    · rcases hf : i.failedAt with _ | t' <;> simp [timerNext, hf] at h5
      · subst h5; left; omega
      · subst h5; exact Or.inr ⟨t', rfl, h6⟩

/-- approval in the crash-recovery branch -/
theorem approved_of_crash {cfg : Cfg} {i : In} {master : String} {md : NodeState} {tm : Option Int}
    (hd : i.dcs.get? master = some md)
    (hc : md.daemonCrashRecovery = some true ∧ cfg.resetupCrashedHosts = true)
    (h : approveFailover cfg i master tm = .ok none) :
    Approved cfg i master := by
  obtain ⟨h1, ⟨md', hd', _⟩, h3, h4⟩ := approveFailover_ok_none h
  exact ⟨h1, ⟨md, hd, Or.inr hc, Or.inl hc⟩, h3, h4⟩

/-- the steps appended by `afterSwitch`: either all quiet, or quiet steps followed by exactly one
filing, which then happens outside light maintenance and with every approval gate open -/
theorem asTail_char (cfg : Cfg) (i : In) (master : String) (light : Bool) :
    (∀ s ∈ asTail cfg i master light, quiet s = true) ∨
    (∃ q, asTail cfg i master light = q ++ [.issueFailover] ∧ (∀ s ∈ q, quiet s = true) ∧
      light = false ∧ Approved cfg i master) := by
  sorry

end ManagerLemmas
