/- Helper lemmas for C02 / C07 (statements of the property theorems are fixed in MysyncProofs/C02.lean). -/
import MysyncModel.Proto.Cluster

namespace ClusterLemmas

end ClusterLemmas
