/-
Helper lemmas for C14.  Statements are fixed by MysyncProofs/C14.lean; proofs below.
-/
import MysyncModel.Select
import MysyncProofs.Lemmas.GtidLemmas

namespace SelectLemmas
open Gtid Select GtidLemmas

theorem desirable_terminates (bound : Int) (hb : 0 ≤ bound) (ps : List Pos) :
    ∀ fuel, ps.length < fuel → mostDesirableFuel bound fuel ps ≠ .outOfFuel := by
  sorry

theorem desirable_mem (bound : Int) (hb : 0 ≤ bound) (ps : List Pos) (p : Pos)
    (h : mostDesirable bound ps = .node p) : p ∈ ps := by
  sorry

theorem desirable_error_iff_empty (bound : Int) (hb : 0 ≤ bound) (ps : List Pos) :
    (∀ p, mostDesirable bound ps ≠ .node p) ↔ ps = [] := by
  sorry

theorem never_from (bound : Int) (hb : 0 ≤ bound) (ps : List Pos) (from_ : String) (p : Pos)
    (h : mostDesirable bound (filterOutHost ps from_) = .node p) : p.host ≠ from_ ∧ p ∈ ps := by
  sorry

theorem top_within_bound (bound : Int) (ps : List Pos) (top : Pos)
    (ht : mostPriority ps = some top) (hl : top.lag ≤ bound) : mostDesirable bound ps = .node top := by
  sorry

theorem else_top_or_much_fresher (bound : Int) (hb : 0 ≤ bound) (ps : List Pos) (top r : Pos)
    (ht : mostPriority ps = some top) (h : mostDesirable bound ps = .node r) :
    r = top ∨ r.lag < top.lag - bound := by
  sorry

theorem top_has_max_priority (ps : List Pos) (top : Pos) (ht : mostPriority ps = some top) :
    top ∈ ps ∧ ∀ p ∈ ps, p.prio ≤ top.prio := by
  sorry

theorem ties_prefer_superset_then_lag (ps : List Pos) (top : Pos) (ht : mostPriority ps = some top)
    (hwf : ∀ p ∈ ps, WF p.gtid)
    (hchain : ∀ p ∈ ps, ∀ q ∈ ps, p.prio = top.prio → q.prio = top.prio →
      GSubset p.gtid q.gtid ∨ GSubset q.gtid p.gtid) :
    ∀ p ∈ ps, p.prio = top.prio →
      GSubset p.gtid top.gtid ∧ (GSubset top.gtid p.gtid → top.lag ≤ p.lag) := by
  sorry

theorem equal_priority_is_most_recent (bound : Int) (p : Pos) (r : List Pos)
    (heq : ∀ q ∈ r, q.prio = p.prio) (hl : (scanMostRecent p r).lag ≤ bound) :
    mostDesirable bound (p :: r) = .node (scanMostRecent p r) ∧
    (detectSplitbrain (p :: r) (scanMostRecent p r) = false →
      ∃ m, findMostRecent (p :: r) = .node m ∧ m.host = (scanMostRecent p r).host) := by
  sorry

end SelectLemmas
