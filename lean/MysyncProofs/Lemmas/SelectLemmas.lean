/-
Helper lemmas for C14.  Statements are fixed by MysyncProofs/C14.lean; proofs below.
-/
import MysyncModel.Select
import MysyncProofs.Lemmas.GtidLemmas

namespace SelectLemmas
open Gtid Select GtidLemmas

/-! ### one step of the scans -/

theorem pickBetter_or (a q : Pos) : pickBetter a q = a ∨ pickBetter a q = q := by
  unfold pickBetter
  split
  · split
    · exact Or.inr rfl
    · exact Or.inl rfl
  · split
    · exact Or.inr rfl
    · exact Or.inl rfl

theorem priorityStep_or (a q : Pos) : priorityStep a q = a ∨ priorityStep a q = q := by
  unfold priorityStep
  split
  · exact Or.inr rfl
  · split
    · exact pickBetter_or a q
    · exact Or.inl rfl

/-- with equal priorities the priority scan step is the most-recent scan step -/
theorem priorityStep_eq_pickBetter (a q : Pos) (h : a.prio = q.prio) :
    priorityStep a q = pickBetter a q := by
  unfold priorityStep
  have h1 : ¬ a.prio < q.prio := by omega
  have h2 : (a.prio == q.prio) = true := by simpa using h
  rw [if_neg h1, if_pos h2]

theorem priorityStep_prio (a q : Pos) :
    a.prio ≤ (priorityStep a q).prio ∧ q.prio ≤ (priorityStep a q).prio := by
  by_cases h1 : a.prio < q.prio
  · have : priorityStep a q = q := by unfold priorityStep; rw [if_pos h1]
    rw [this]; constructor <;> omega
  · by_cases h2 : a.prio = q.prio
    · rw [priorityStep_eq_pickBetter a q h2]
      rcases pickBetter_or a q with e | e <;> rw [e] <;> constructor <;> omega
    · have h2' : ¬ (a.prio == q.prio) = true := by simpa using h2
      have : priorityStep a q = a := by unfold priorityStep; rw [if_neg h1, if_neg h2']
      rw [this]; constructor <;> omega

/-! ### the priority scan returns an element of maximal priority -/

theorem fold_priorityStep_spec (r : List Pos) : ∀ acc : Pos,
    (r.foldl priorityStep acc = acc ∨ r.foldl priorityStep acc ∈ r) ∧
    acc.prio ≤ (r.foldl priorityStep acc).prio ∧
    ∀ q ∈ r, q.prio ≤ (r.foldl priorityStep acc).prio := by
  induction r with
  | nil =>
    intro acc
    refine ⟨Or.inl rfl, Int.le_refl _, ?_⟩
    intro q hq
    cases hq
  | cons x xs ih =>
    intro acc
    simp only [List.foldl_cons]
    obtain ⟨h1, h2, h3⟩ := ih (priorityStep acc x)
    obtain ⟨p1, p2⟩ := priorityStep_prio acc x
    refine ⟨?_, by omega, ?_⟩
    · rcases h1 with h | h
      · rcases priorityStep_or acc x with e | e
        · left; rw [h, e]
        · right; rw [h, e]; exact List.mem_cons_self
      · right; exact List.mem_cons_of_mem _ h
    · intro q hq
      rcases List.mem_cons.1 hq with rfl | hq
      · omega
      · exact h3 q hq

theorem top_has_max_priority (ps : List Pos) (top : Pos) (ht : mostPriority ps = some top) :
    top ∈ ps ∧ ∀ p ∈ ps, p.prio ≤ top.prio := by
  cases ps with
  | nil => simp [mostPriority] at ht
  | cons p0 r =>
    simp only [mostPriority, Option.some.injEq] at ht
    obtain ⟨h1, h2, h3⟩ := fold_priorityStep_spec r p0
    rw [ht] at h1 h2 h3
    refine ⟨?_, ?_⟩
    · rcases h1 with h | h
      · rw [h]; exact List.mem_cons_self
      · exact List.mem_cons_of_mem _ h
    · intro p hp
      rcases List.mem_cons.1 hp with rfl | hp
      · exact h2
      · exact h3 p hp

theorem mostPriority_mem {ps : List Pos} {top : Pos} (ht : mostPriority ps = some top) : top ∈ ps :=
  (top_has_max_priority ps top ht).1

theorem mostPriority_ne_nil {ps : List Pos} (h : ps ≠ []) : ∃ top, mostPriority ps = some top := by
  cases ps with
  | nil => exact absurd rfl h
  | cons p r => exact ⟨_, rfl⟩

/-! ### ties: among the maximal-priority candidates the scan is a `pickBetter` scan -/

/-- what `pickBetter` guarantees when the two sets are comparable -/
theorem pickBetter_spec (a q : Pos) (ha : WF a.gtid) (hq : WF q.gtid)
    (hc : GSubset a.gtid q.gtid ∨ GSubset q.gtid a.gtid) :
    GSubset a.gtid (pickBetter a q).gtid ∧ GSubset q.gtid (pickBetter a q).gtid ∧
    (GSubset (pickBetter a q).gtid a.gtid → (pickBetter a q).lag ≤ a.lag) ∧
    (GSubset (pickBetter a q).gtid q.gtid → (pickBetter a q).lag ≤ q.lag) := by
  unfold pickBetter
  by_cases he : equal q.gtid a.gtid = true
  · obtain ⟨haq, hqa⟩ := (equal_iff q.gtid a.gtid hq ha).1 he
    rw [if_pos he]
    by_cases hl : q.lag < a.lag
    · rw [if_pos hl]
      exact ⟨haq, GSubset.refl _, fun _ => by omega, fun _ => by omega⟩
    · rw [if_neg hl]
      exact ⟨GSubset.refl _, hqa, fun _ => by omega, fun _ => by omega⟩
  · rw [if_neg he]
    have hne : ¬ (GSubset a.gtid q.gtid ∧ GSubset q.gtid a.gtid) :=
      fun h => he ((equal_iff q.gtid a.gtid hq ha).2 h)
    by_cases hcn : contain q.gtid a.gtid = true
    · have haq := (contain_iff q.gtid a.gtid hq ha).1 hcn
      rw [if_pos hcn]
      exact ⟨haq, GSubset.refl _, fun h => absurd ⟨haq, h⟩ hne, fun _ => Int.le_refl _⟩
    · rw [if_neg hcn]
      have hnaq : ¬ GSubset a.gtid q.gtid := fun h => hcn ((contain_iff q.gtid a.gtid hq ha).2 h)
      have hqa : GSubset q.gtid a.gtid := hc.resolve_left hnaq
      exact ⟨GSubset.refl _, hqa, fun _ => Int.le_refl _, fun h => absurd h hnaq⟩

/-- the candidates under consideration: well-formed, priority at most `M`, and those of priority
exactly `M` totally ordered by inclusion -/
structure Univ (M : Int) (U : Pos → Prop) : Prop where
  wf : ∀ p, U p → WF p.gtid
  le : ∀ p, U p → p.prio ≤ M
  chain : ∀ p q, U p → U q → p.prio = M → q.prio = M →
    GSubset p.gtid q.gtid ∨ GSubset q.gtid p.gtid

/-- the running maximum `a` dominates the already scanned maximal-priority candidate `p` -/
structure Good (M : Int) (a p : Pos) : Prop where
  prio : a.prio = M
  sub : GSubset p.gtid a.gtid
  lag : GSubset a.gtid p.gtid → a.lag ≤ p.lag

theorem Good.self (M : Int) (a : Pos) (h : a.prio = M) : Good M a a :=
  ⟨h, GSubset.refl _, fun _ => Int.le_refl _⟩

theorem priorityStep_tie (M : Int) (U : Pos → Prop) (hU : Univ M U) (a q : Pos)
    (ha : U a) (hq : U q) :
    U (priorityStep a q) ∧
    (∀ p, Good M a p → Good M (priorityStep a q) p) ∧
    (q.prio = M → Good M (priorityStep a q) q) := by
  have hleq := hU.le q hq
  have hlea := hU.le a ha
  by_cases h1 : a.prio < q.prio
  · have e : priorityStep a q = q := by unfold priorityStep; rw [if_pos h1]
    rw [e]
    refine ⟨hq, ?_, ?_⟩
    · intro p hp
      have := hp.prio
      omega
    · intro hqM; exact Good.self M q hqM
  · by_cases h2 : a.prio = q.prio
    · rw [priorityStep_eq_pickBetter a q h2]
      have hUr : U (pickBetter a q) := by
        rcases pickBetter_or a q with e | e <;> rw [e] <;> assumption
      by_cases hM : q.prio = M
      · have haM : a.prio = M := by omega
        obtain ⟨s1, s2, s3, s4⟩ :=
          pickBetter_spec a q (hU.wf a ha) (hU.wf q hq) (hU.chain a q ha hq haM hM)
        have hprio : (pickBetter a q).prio = M := by
          rcases pickBetter_or a q with e | e <;> rw [e] <;> assumption
        refine ⟨hUr, ?_, ?_⟩
        · intro p hp
          refine ⟨hprio, GSubset.trans hp.sub s1, fun h => ?_⟩
          have := s3 (GSubset.trans h hp.sub)
          have := hp.lag (GSubset.trans s1 h)
          omega
        · intro _
          exact ⟨hprio, s2, s4⟩
      · refine ⟨hUr, ?_, ?_⟩
        · intro p hp
          have := hp.prio
          omega
        · intro h; exact absurd h hM
    · have h2' : ¬ (a.prio == q.prio) = true := by simpa using h2
      have e : priorityStep a q = a := by unfold priorityStep; rw [if_neg h1, if_neg h2']
      rw [e]
      refine ⟨ha, fun p h => h, fun h => ?_⟩
      omega

theorem fold_tie (M : Int) (U : Pos → Prop) (hU : Univ M U) (l : List Pos) :
    ∀ acc, U acc → (∀ q ∈ l, U q) →
      U (l.foldl priorityStep acc) ∧
      (∀ p, Good M acc p → Good M (l.foldl priorityStep acc) p) ∧
      (∀ p ∈ l, p.prio = M → Good M (l.foldl priorityStep acc) p) := by
  induction l with
  | nil =>
    intro acc ha _
    refine ⟨ha, fun p h => h, ?_⟩
    intro p hp
    cases hp
  | cons x xs ih =>
    intro acc ha hl
    have hx := hl x List.mem_cons_self
    obtain ⟨t1, t2, t3⟩ := priorityStep_tie M U hU acc x ha hx
    obtain ⟨i1, i2, i3⟩ :=
      ih (priorityStep acc x) t1 (fun q hq => hl q (List.mem_cons_of_mem _ hq))
    simp only [List.foldl_cons]
    refine ⟨i1, fun p h => i2 p (t2 p h), ?_⟩
    intro p hp hpM
    rcases List.mem_cons.1 hp with rfl | hp
    · exact i2 _ (t3 hpM)
    · exact i3 p hp hpM

theorem ties_prefer_superset_then_lag (ps : List Pos) (top : Pos) (ht : mostPriority ps = some top)
    (hwf : ∀ p ∈ ps, WF p.gtid)
    (hchain : ∀ p ∈ ps, ∀ q ∈ ps, p.prio = top.prio → q.prio = top.prio →
      GSubset p.gtid q.gtid ∨ GSubset q.gtid p.gtid) :
    ∀ p ∈ ps, p.prio = top.prio →
      GSubset p.gtid top.gtid ∧ (GSubset top.gtid p.gtid → top.lag ≤ p.lag) := by
  cases ps with
  | nil => simp [mostPriority] at ht
  | cons p0 r =>
    have htop := top_has_max_priority _ _ ht
    simp only [mostPriority, Option.some.injEq] at ht
    have hU : Univ top.prio (fun x => x ∈ p0 :: r) :=
      ⟨fun p hp => hwf p hp, fun p hp => htop.2 p hp,
        fun p q hp hq h1 h2 => hchain p hp q hq h1 h2⟩
    obtain ⟨_, f2, f3⟩ := fold_tie top.prio _ hU r p0 List.mem_cons_self
      (fun q hq => List.mem_cons_of_mem _ hq)
    rw [ht] at f2 f3
    intro p hp hpM
    rcases List.mem_cons.1 hp with rfl | hp
    · have g := f2 p (Good.self _ p hpM)
      exact ⟨g.sub, g.lag⟩
    · have g := f3 p hp hpM
      exact ⟨g.sub, g.lag⟩

/-! ### `getMostDesirableNode` -/

theorem mDF_zero (bound : Int) (ps : List Pos) : mostDesirableFuel bound 0 ps = .outOfFuel := rfl

theorem mDF_none (bound : Int) (fuel : Nat) (ps : List Pos) (h : mostPriority ps = none) :
    mostDesirableFuel bound (fuel + 1) ps = .notFound := by
  simp only [mostDesirableFuel, h]

theorem mDF_some (bound : Int) (fuel : Nat) (ps : List Pos) (top : Pos)
    (h : mostPriority ps = some top) :
    mostDesirableFuel bound (fuel + 1) ps =
      if top.lag ≤ bound then .node top
      else if (ps.filter fun n => decide (n.lag < top.lag - bound)).isEmpty then .node top
      else mostDesirableFuel bound fuel (ps.filter fun n => decide (n.lag < top.lag - bound)) := by
  simp only [mostDesirableFuel, h]

theorem filter_lt_length (bound : Int) (hb : 0 ≤ bound) (ps : List Pos) (top : Pos)
    (hm : top ∈ ps) :
    (ps.filter fun n => decide (n.lag < top.lag - bound)).length < ps.length := by
  apply List.length_filter_lt_length_iff_exists.2
  refine ⟨top, hm, ?_⟩
  simp only [decide_eq_true_eq]
  omega

theorem desirable_terminates (bound : Int) (hb : 0 ≤ bound) (ps : List Pos) :
    ∀ fuel, ps.length < fuel → mostDesirableFuel bound fuel ps ≠ .outOfFuel := by
  intro fuel
  induction fuel generalizing ps with
  | zero => intro h; omega
  | succ n ih =>
    intro h
    cases hmp : mostPriority ps with
    | none => rw [mDF_none bound n ps hmp]; intro hc; cases hc
    | some top =>
      rw [mDF_some bound n ps top hmp]
      split
      · intro hc; cases hc
      · split
        · intro hc; cases hc
        · apply ih
          have := filter_lt_length bound hb ps top (mostPriority_mem hmp)
          omega

/-- whatever node is returned, with whatever fuel, is one of the candidates -/
theorem mDF_mem (bound : Int) : ∀ (fuel : Nat) (ps : List Pos) (r : Pos),
    mostDesirableFuel bound fuel ps = .node r → r ∈ ps := by
  intro fuel
  induction fuel with
  | zero => intro ps r h; rw [mDF_zero] at h; cases h
  | succ n ih =>
    intro ps r h
    cases hmp : mostPriority ps with
    | none => rw [mDF_none bound n ps hmp] at h; cases h
    | some top =>
      rw [mDF_some bound n ps top hmp] at h
      split at h
      · cases h; exact mostPriority_mem hmp
      · split at h
        · cases h; exact mostPriority_mem hmp
        · exact (List.mem_filter.1 (ih _ r h)).1

/-- "destination node not found" only for an empty candidate list -/
theorem mDF_ne_notFound (bound : Int) : ∀ (fuel : Nat) (ps : List Pos),
    ps ≠ [] → mostDesirableFuel bound fuel ps ≠ .notFound := by
  intro fuel
  induction fuel with
  | zero => intro ps _ h; rw [mDF_zero] at h; cases h
  | succ n ih =>
    intro ps hne
    obtain ⟨top, hmp⟩ := mostPriority_ne_nil hne
    rw [mDF_some bound n ps top hmp]
    split
    · intro hc; cases hc
    · split
      · intro hc; cases hc
      · rename_i hemp
        apply ih
        intro hnil
        exact hemp (List.isEmpty_iff.2 hnil)

theorem desirable_mem (bound : Int) (hb : 0 ≤ bound) (ps : List Pos) (p : Pos)
    (h : mostDesirable bound ps = .node p) : p ∈ ps := by
  have _ := hb  -- not needed: membership holds for every bound
  exact mDF_mem bound _ ps p h

theorem desirable_error_iff_empty (bound : Int) (hb : 0 ≤ bound) (ps : List Pos) :
    (∀ p, mostDesirable bound ps ≠ .node p) ↔ ps = [] := by
  constructor
  · intro h
    by_cases hne : ps = []
    · exact hne
    · exfalso
      have h1 := desirable_terminates bound hb ps (ps.length + 1) (Nat.lt_succ_self _)
      have h2 := mDF_ne_notFound bound (ps.length + 1) ps hne
      cases hd : mostDesirable bound ps with
      | notFound => exact h2 hd
      | outOfFuel => exact h1 hd
      | node p => exact h p hd
  · intro h p
    subst h
    intro hc
    have : mostDesirable bound [] = .notFound := rfl
    rw [this] at hc
    cases hc

theorem never_from (bound : Int) (hb : 0 ≤ bound) (ps : List Pos) (from_ : String) (p : Pos)
    (h : mostDesirable bound (filterOutHost ps from_) = .node p) : p.host ≠ from_ ∧ p ∈ ps := by
  have hm := desirable_mem bound hb _ p h
  unfold filterOutHost at hm
  obtain ⟨h1, h2⟩ := List.mem_filter.1 hm
  refine ⟨?_, h1⟩
  simpa using h2

theorem top_within_bound (bound : Int) (ps : List Pos) (top : Pos)
    (ht : mostPriority ps = some top) (hl : top.lag ≤ bound) : mostDesirable bound ps = .node top := by
  unfold mostDesirable
  rw [mDF_some bound _ ps top ht, if_pos hl]

theorem else_top_or_much_fresher (bound : Int) (hb : 0 ≤ bound) (ps : List Pos) (top r : Pos)
    (ht : mostPriority ps = some top) (h : mostDesirable bound ps = .node r) :
    r = top ∨ r.lag < top.lag - bound := by
  have _ := hb  -- not needed: the result of the recursion is drawn from the filtered list
  unfold mostDesirable at h
  rw [mDF_some bound _ ps top ht] at h
  split at h
  · cases h; exact Or.inl rfl
  · split at h
    · cases h; exact Or.inl rfl
    · right
      have hm := (List.mem_filter.1 (mDF_mem bound _ _ r h)).2
      simpa using hm

/-! ### equal priorities: the priority scan is the most-recent scan -/

theorem fold_priorityStep_eq (c : Int) (r : List Pos) : ∀ acc : Pos, acc.prio = c →
    (∀ q ∈ r, q.prio = c) → r.foldl priorityStep acc = r.foldl pickBetter acc := by
  induction r with
  | nil => intro acc _ _; rfl
  | cons x xs ih =>
    intro acc ha hr
    have hx : x.prio = c := hr x List.mem_cons_self
    simp only [List.foldl_cons]
    rw [priorityStep_eq_pickBetter acc x (by omega)]
    apply ih
    · rcases pickBetter_or acc x with e | e <;> rw [e] <;> assumption
    · intro q hq; exact hr q (List.mem_cons_of_mem _ hq)

theorem equal_priority_is_most_recent (bound : Int) (p : Pos) (r : List Pos)
    (heq : ∀ q ∈ r, q.prio = p.prio) (hl : (scanMostRecent p r).lag ≤ bound) :
    mostDesirable bound (p :: r) = .node (scanMostRecent p r) ∧
    (detectSplitbrain (p :: r) (scanMostRecent p r) = false →
      ∃ m, findMostRecent (p :: r) = .node m ∧ m.host = (scanMostRecent p r).host) := by
  have hmp : mostPriority (p :: r) = some (scanMostRecent p r) := by
    simp only [mostPriority, scanMostRecent]
    rw [fold_priorityStep_eq p.prio r p rfl heq]
  refine ⟨top_within_bound bound _ _ hmp hl, ?_⟩
  intro hd
  refine ⟨scanMostRecent p r, ?_, rfl⟩
  simp only [findMostRecent, hd]
  rfl

end SelectLemmas
