/- Helper lemmas for C15 (statements of the property theorems are fixed in MysyncProofs/C15.lean).
   ZkPath   : `buildFullPath` at character level (collapse / stripTrailing / segs / spell)
   ZkServer : the znode tree (`find?`, `put`, `erase`, `expire`, `childrenOf`), well-formedness and its preservation
   ZkOps    : running the client programs (`runSeq`), `makePath`, `set` on a missing key -/
import MysyncModel.Dcs.Zk
import MysyncProofs.Lemmas.ZkPath
import MysyncProofs.Lemmas.ZkServer
import MysyncProofs.Lemmas.ZkOps

namespace ZkLemmas
open Zk

/-- `delete` of an existing leaf with the right (or any) version removes it -/
theorem step_delete_ok {s : Server} (sid : Sid) {p : Path} {n : ZNode} (h : s.find? p = some n)
    (hc : s.childrenOf p = []) : s.step sid (.delete p n.version) = (s.erase p, .deleted) := by
  simp [Server.step, h, hc]

theorem step_set_ok {s : Server} (sid : Sid) {p : Path} (d : String) {n : ZNode} (h : s.find? p = some n) :
    s.step sid (.set p d n.version) =
      (s.put p { n with data := d, version := n.version + 1 }, .stat (n.version + 1)) := by
  simp [Server.step, h]

/-- no primitive other than `delete p` changes the owner of `p` -/
theorem step_owner (s : Server) (sid : Sid) (pr : Prim) (p : Path) (n n' : ZNode)
    (h1 : s.find? p = some n) (h2 : (s.step sid pr).1.find? p = some n') (hnd : ∀ v, pr ≠ .delete p v) :
    n'.owner = n.owner := by
  cases pr with
  | get q =>
    have : (s.step sid (.get q)).1 = s := by
      simp only [Server.step]; split
      · rfl
      · split <;> rfl
    rw [this, h1] at h2; cases h2; rfl
  | children q =>
    have : (s.step sid (.children q)).1 = s := by
      simp only [Server.step]; split <;> rfl
    rw [this, h1] at h2; cases h2; rfl
  | create q d eph =>
    rcases step_create_cases s sid q d eph with ⟨_, hq, hs⟩ | ⟨_, _, hs⟩ | ⟨_, _, _, _, hs⟩ | ⟨_, _, hs⟩
    · have hqp : p ≠ q := by intro h; rw [h, hq] at h1; cases h1
      rw [hs, find?_put_other _ _ _ _ hqp, h1] at h2; cases h2; rfl
    all_goals (rw [hs, h1] at h2; cases h2; rfl)
  | set q d v =>
    simp only [Server.step] at h2
    cases hq : s.find? q with
    | none => rw [hq] at h2; simp only at h2; rw [h1] at h2; cases h2; rfl
    | some m =>
      rw [hq] at h2; simp only at h2
      split at h2
      · rw [h1] at h2; cases h2; rfl
      · by_cases hqp : p = q
        · subst hqp
          rw [find?_put_self] at h2; cases h2
          rw [h1] at hq; cases hq; rfl
        · rw [find?_put_other _ _ _ _ hqp, h1] at h2; cases h2; rfl
  | delete q v =>
    have hqp : p ≠ q := by intro h; exact hnd v (by rw [h])
    simp only [Server.step] at h2
    cases hq : s.find? q with
    | none => rw [hq] at h2; simp only at h2; rw [h1] at h2; cases h2; rfl
    | some m =>
      rw [hq] at h2; simp only at h2
      split at h2
      · rw [h1] at h2; cases h2; rfl
      · split at h2
        · rw [h1] at h2; cases h2; rfl
        · rw [find?_erase_other _ _ _ hqp, h1] at h2; cases h2; rfl

end ZkLemmas
