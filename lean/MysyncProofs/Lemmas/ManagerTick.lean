/-
Helper lemmas for C06: the effect of one manager iteration on the three coordination keys
(`SwitchLifecycle.tick`).
-/
import MysyncModel.App.SwitchLifecycle
import MysyncProofs.Lemmas.ManagerCore

namespace ManagerLemmas
open NS Manager SwitchLifecycle

/-! ### steps without effect on the keys -/

/-- steps that do not touch any of the three keys -/
def inert : Step → Bool
  | .switchTimedOut | .switchRejected | .switchFailed | .switchFinished | .switchPerformed _
  | .issueFailover => false
  | _ => true

theorem applyStep_inert {s : Step} (h : inert s = true) (m : String) (now : Int) (k : Keys) :
    applyStep m now k s = k := by
  cases s <;> simp [inert] at h <;> simp [applyStep]

theorem foldl_inert {l : List Step} (h : ∀ s ∈ l, inert s = true) (m : String) (now : Int) (k : Keys) :
    l.foldl (applyStep m now) k = k := by
  induction l generalizing k with
  | nil => rfl
  | cons s l ih =>
    rw [List.foldl_cons, applyStep_inert (h s (by simp))]
    exact ih (fun t ht => h t (by simp [ht])) k

theorem inert_of_quiet {s : Step} (h : quiet s = true) : inert s = true := by
  cases s <;> simp [quiet] at h <;> rfl

theorem inert_of_early {s : Step} (h : early s = true) : inert s = true := by
  cases s <;> simp [early] at h <;> rfl

theorem Enters.pre_inert {i : In} {master : String} {light : Bool} {pre : List Step}
    (h : Enters i master light pre) : ∀ s ∈ pre, inert s = true := fun s hs => by
  rw [h.pre_mem s hs]; rfl

/-! ### the handling of a request -/

/-- what the handling of the (non-parked) request `sw` does to the keys -/
def outcome (cfg : Cfg) (i : In) (sw : Switch) (k : Keys) : Keys :=
  if timedOut cfg i.now sw then { k with switch := none, lastRejected := some sw }
  else if !approveSwitchover cfg i sw then { k with switch := none, lastRejected := some sw }
  else if !i.startOk then k
  else match i.perform with
    | .ok => { k with switch := none, lastOk := some sw }
    | .failed => { k with switch := some { sw with runCount := sw.runCount + 1 } }
    | .abortedMeanwhile => { k with switch := none }
    | .panicked => k

theorem foldl_hsTail (cfg : Cfg) (i : In) {sw : Switch} {k : Keys} (hs : k.switch = some sw)
    (m : String) (now : Int) :
    (hsTail cfg i sw).foldl (applyStep m now) k = outcome cfg i sw k := by
  unfold hsTail outcome
  cases timedOut cfg i.now sw <;> cases approveSwitchover cfg i sw <;> cases i.startOk <;>
    cases i.perform <;> simp [applyStep, performTail, hs]

/-- the input that `tick` hands to `stateManager` -/
def tickIn (i : In) (k : Keys) : In :=
  { i with sw := match k.switch with | some sw => .record sw | none => .absent }

theorem tick_eq (cfg : Cfg) (i : In) (k : Keys) :
    tick cfg i k = (stateManager cfg (tickIn i k)).steps.foldl (applyStep (i.master.getD "") i.now) k := rfl

/-- a pending request: the iteration either leaves the keys alone or handles the request -/
theorem tick_record_cases (cfg : Cfg) (i : In) {k : Keys} {sw : Switch} (hs : k.switch = some sw) :
    tick cfg i k = k ∨ tick cfg i k = outcome cfg i sw k := by
  have hsw : (tickIn i k).sw = .record sw := by simp [tickIn, hs]
  rw [tick_eq]
  rcases stateManager_shape cfg (tickIn i k) with ⟨_, he⟩ | ⟨m, light, pre, hen, hsh⟩
  · exact Or.inl (foldl_inert (fun s h => inert_of_early (he s h)) _ _ _)
  · rcases hsh with ⟨h, _⟩ | ⟨h, _⟩ | ⟨sw', _, _, _, e⟩ | ⟨sw', h, _, e⟩
    · rw [hsw] at h; cases h
    · rw [hsw] at h; cases h
    · left
      rw [e]
      refine foldl_inert (fun s h => ?_) _ _ _
      rcases List.mem_append.mp h with h | h
      · exact hen.pre_inert s h
      · rcases List.mem_cons.mp h with h | h
        · subst h; rfl
        · exact inert_of_quiet (asTail_light_quiet _ _ _ s h)
    · right
      rw [hsw] at h; cases h
      rw [e]
      simp only [List.foldl_append]
      rw [foldl_inert hen.pre_inert]
      exact foldl_hsTail cfg (tickIn i k) hs _ _

/-- the request filed by `issueFailover` -/
def autoReq (i : In) : Switch :=
  { from_ := i.master.getD "", causeAuto := true, failoverType := true, initiatedAt := some i.now }

/-- no pending request: the iteration leaves the keys alone or files an automatic failover -/
theorem tick_none_cases (cfg : Cfg) (i : In) {k : Keys} (hs : k.switch = none) :
    tick cfg i k = k ∨ tick cfg i k = { k with switch := some (autoReq i) } := by
  have hsw : (tickIn i k).sw = .absent := by simp [tickIn, hs]
  rw [tick_eq]
  rcases stateManager_shape cfg (tickIn i k) with ⟨_, he⟩ | ⟨m, light, pre, hen, hsh⟩
  · exact Or.inl (foldl_inert (fun s h => inert_of_early (he s h)) _ _ _)
  · rcases hsh with ⟨h, _⟩ | ⟨_, e⟩ | ⟨sw', h, _⟩ | ⟨sw', h, _⟩
    · rw [hsw] at h; cases h
    · rw [e]
      simp only [List.foldl_append]
      rw [foldl_inert hen.pre_inert]
      rcases asTail_char cfg (tickIn i k) m light with hq | ⟨q, hq, hqq, _, _⟩
      · exact Or.inl (foldl_inert (fun s h => inert_of_quiet (hq s h)) _ _ _)
      · right
        rw [hq, List.foldl_append, foldl_inert (fun s h => inert_of_quiet (hqq s h))]
        simp [applyStep, file, hs, autoReq]
    · rw [hsw] at h; cases h
    · rw [hsw] at h; cases h

/-- an active manager handles every request that is not parked by light maintenance -/
theorem tick_active (cfg : Cfg) (i : In) {k : Keys} {sw : Switch} (ha : ActiveManager i)
    (hs : k.switch = some sw) (hlight : ¬ (sw.failoverType = true ∧ i.maint = .record true true false)) :
    tick cfg i k = outcome cfg i sw k := by
  have hsw : (tickIn i k).sw = .record sw := by simp [tickIn, hs]
  obtain ⟨hc, hl, hd, hm, han, hmt, _⟩ := ha
  obtain ⟨m, hm⟩ := Option.isSome_iff_exists.mp hm
  have : ∃ light, Enters (tickIn i k) m light [] ∧ ¬ (light = true ∧ sw.failoverType = true) := by
    rcases hmt with h | h | h
    · exact ⟨false, ⟨hc, hl, hd, hm, han, Or.inl ⟨rfl, rfl, Or.inl h⟩⟩, by simp⟩
    · exact ⟨false, ⟨hc, hl, hd, hm, han, Or.inl ⟨rfl, rfl, Or.inr h⟩⟩, by simp⟩
    · exact ⟨true, ⟨hc, hl, hd, hm, han, Or.inr (Or.inl ⟨rfl, rfl, h⟩)⟩, fun hh => hlight ⟨hh.2, h⟩⟩
  obtain ⟨light, hen, hnp⟩ := this
  rw [tick_eq, stateManager_of_enters hen, handleSwitch_record hsw hnp]
  simp only [List.nil_append]
  exact foldl_hsTail cfg (tickIn i k) hs _ _

theorem approve_of_overLimit {cfg : Cfg} {sw : Switch} (i : In) (h : overLimit cfg sw = true) :
    approveSwitchover cfg i sw = false := by
  unfold overLimit at h
  simp [approveSwitchover, h]

/-! ### the C06 properties -/

theorem no_overwrite (k : Keys) (req : Switch) (h : k.switch.isSome) : file k req = (k, false) := by
  obtain ⟨sw, hs⟩ := Option.isSome_iff_exists.mp h
  simp [file, hs]

theorem file_when_free (k : Keys) (req : Switch) (h : k.switch = none) :
    file k req = ({ k with switch := some req }, true) := by
  simp [file, h]

theorem timeout_bound (cfg : Cfg) (i : In) (k : Keys) (sw : Switch)
    (ha : ActiveManager i) (hs : k.switch = some sw) (ht : timedOut cfg i.now sw = true)
    (hlight : ¬ (sw.failoverType = true ∧ i.maint = .record true true false)) :
    (tick cfg i k).switch = none ∧ (tick cfg i k).lastRejected = some sw ∧ (tick cfg i k).lastOk = k.lastOk := by
  rw [tick_active cfg i ha hs hlight]
  simp [outcome, ht]

theorem attempt_bound (cfg : Cfg) (i : In) (k : Keys) (sw : Switch)
    (ha : ActiveManager i) (hs : k.switch = some sw) (ht : timedOut cfg i.now sw = false) (ho : overLimit cfg sw = true) :
    (tick cfg i k).switch = none ∧ (tick cfg i k).lastRejected = some sw ∧ (tick cfg i k).lastOk = k.lastOk := by
  have hft : sw.failoverType = false := by
    unfold overLimit at ho; cases h : sw.failoverType <;> simp [h] at ho ⊢
  rw [tick_active cfg i ha hs (by simp [hft])]
  simp [outcome, ht, approve_of_overLimit i ho]

theorem approve_of_retry {cfg : Cfg} {sw : Switch} (i : In) (hr : sw.runCount > 0)
    (ho : overLimit cfg sw = false) : approveSwitchover cfg i sw = true := by
  unfold overLimit at ho
  simp [approveSwitchover, ho, hr]

theorem approved_once (cfg : Cfg) (i : In) (sw : Switch)
    (ha : ActiveManager i) (hs : i.sw = .record sw) (hr : sw.runCount > 0)
    (ht : timedOut cfg i.now sw = false) (ho : overLimit cfg sw = false)
    (hlight : ¬ (sw.failoverType = true ∧ i.maint = .record true true false)) :
    Step.switchStarted true ∈ (stateManager cfg i).steps ∧ Step.switchRejected ∉ (stateManager cfg i).steps := by
  obtain ⟨hc, hl, hd, hm, han, hmt, hst⟩ := ha
  obtain ⟨m, hm⟩ := Option.isSome_iff_exists.mp hm
  have : ∃ light, Enters i m light [] ∧ ¬ (light = true ∧ sw.failoverType = true) := by
    rcases hmt with h | h | h
    · exact ⟨false, ⟨hc, hl, hd, hm, han, Or.inl ⟨rfl, rfl, Or.inl h⟩⟩, by simp⟩
    · exact ⟨false, ⟨hc, hl, hd, hm, han, Or.inl ⟨rfl, rfl, Or.inr h⟩⟩, by simp⟩
    · exact ⟨true, ⟨hc, hl, hd, hm, han, Or.inr (Or.inl ⟨rfl, rfl, h⟩)⟩, fun hh => hlight ⟨hh.2, h⟩⟩
  obtain ⟨light, hen, hnp⟩ := this
  rw [stateManager_of_enters hen, handleSwitch_record hs hnp]
  simp only [List.nil_append, hsTail, ht, approve_of_retry i hr ho, hst]
  cases i.perform <;> simp [performTail]

theorem each_failure_counted (cfg : Cfg) (i : In) (k : Keys) (sw : Switch)
    (ha : ActiveManager i) (hs : k.switch = some sw) (ht : timedOut cfg i.now sw = false)
    (happ : approveSwitchover cfg i sw = true) (hp : i.perform = .failed)
    (hlight : ¬ (sw.failoverType = true ∧ i.maint = .record true true false)) :
    (tick cfg i k).switch = some { sw with runCount := sw.runCount + 1 } ∧
    (tick cfg i k).lastOk = k.lastOk ∧ (tick cfg i k).lastRejected = k.lastRejected := by
  rw [tick_active cfg i ha hs hlight]
  simp [outcome, ht, happ, ha.2.2.2.2.2.2, hp]

theorem one_terminal_outcome (cfg : Cfg) (i : In) (k : Keys) (sw : Switch)
    (hs : k.switch = some sw) (hgone : (tick cfg i k).switch = none) :
    ((tick cfg i k).lastOk = some sw ∧ (tick cfg i k).lastRejected = k.lastRejected ∧ i.perform = .ok) ∨
    ((tick cfg i k).lastRejected = some sw ∧ (tick cfg i k).lastOk = k.lastOk) ∨
    ((tick cfg i k).lastOk = k.lastOk ∧ (tick cfg i k).lastRejected = k.lastRejected ∧ i.perform = .abortedMeanwhile) := by
  rcases tick_record_cases cfg i hs with h | h
  · rw [h, hs] at hgone; cases hgone
  · rw [h] at hgone ⊢
    unfold outcome at hgone ⊢
    revert hgone
    cases timedOut cfg i.now sw <;> cases approveSwitchover cfg i sw <;> cases i.startOk <;>
      cases i.perform <;> simp_all

theorem only_lock_holder_touches (cfg : Cfg) (i : In) (k : Keys)
    (h : i.connected = false ∨ i.lockHeld = false) : tick cfg i k = k := by
  rw [tick_eq]
  have : (stateManager cfg (tickIn i k)).steps = [] := by
    rcases h with h | h
    · simp [stateManager, tickIn, h]
    · cases hc : i.connected <;> simp [stateManager, tickIn, h, hc]
  rw [this]; rfl

theorem success_needs_perform_ok (cfg : Cfg) (i : In) (k : Keys) (sw : Switch)
    (h : (tick cfg i k).lastOk = some sw) (hne : k.lastOk ≠ some sw) : i.perform = .ok ∧ k.switch = some sw := by
  rcases hs : k.switch with _ | sw'
  · rcases tick_none_cases cfg i hs with e | e <;> rw [e] at h <;> exact absurd h hne
  · rcases tick_record_cases cfg i hs with e | e
    · rw [e] at h; exact absurd h hne
    · rw [e] at h
      unfold outcome at h
      revert h
      cases timedOut cfg i.now sw' <;> cases approveSwitchover cfg i sw' <;> cases i.startOk <;>
        cases hp : i.perform <;> simp_all

/-! ### bounded number of attempts -/

-- counterexample to C06 `planned_switchover_bounded` as originally stated: `run_count` above the limit, no iteration
private def cfgX : Cfg := ⟨true, 30, 3600, false, true, 1, 1800, 1⟩
private def swX : Switch := { to := "a", runCount := 2 }
example : ¬ (cfgX.switchoverMaxAttempts > 0 → swX.failoverType = false →
    ({ switch := some swX } : Keys).switch = some swX →
    (∀ i ∈ ([] : List In), ActiveManager i ∧ i.perform ≠ .panicked ∧ (∃ m, i.master = some m ∧ (i.dcs.get? m).isSome)) →
    ((([] : List In).length : Int) ≥ cfgX.switchoverMaxAttempts - swX.runCount + 1) →
    (([] : List In).foldl (fun k i => tick cfgX i k) ({ switch := some swX } : Keys)).switch ≠ some swX) := by
  intro h
  exact h (by decide) rfl rfl (by simp) (by decide) rfl

/-- after the planned request has left, `switch` can only hold an automatic failover request -/
def AutoOrFree (k : Keys) : Prop :=
  k.switch = none ∨ ∃ sw', k.switch = some sw' ∧ sw'.causeAuto = true ∧ sw'.failoverType = true

theorem autoOrFree_tick (cfg : Cfg) (i : In) {k : Keys} (h : AutoOrFree k) : AutoOrFree (tick cfg i k) := by
  rcases h with h | ⟨sw', h, hc, hf⟩
  · rcases tick_none_cases cfg i h with e | e <;> rw [e]
    · exact Or.inl h
    · exact Or.inr ⟨_, rfl, rfl, rfl⟩
  · rcases tick_record_cases cfg i h with e | e <;> rw [e]
    · exact Or.inr ⟨sw', h, hc, hf⟩
    · unfold outcome
      cases timedOut cfg i.now sw' <;> cases approveSwitchover cfg i sw' <;> cases i.startOk <;>
        cases i.perform <;> simp [AutoOrFree, h, hc, hf]

theorem autoOrFree_foldl (cfg : Cfg) (is : List In) {k : Keys} (h : AutoOrFree k) :
    AutoOrFree (is.foldl (fun k i => tick cfg i k) k) := by
  induction is generalizing k with
  | nil => exact h
  | cons i is ih => exact ih (autoOrFree_tick cfg i h)

/-- one iteration of an active manager on a planned request: it leaves, or one more failed attempt
is counted (and then the limit was not yet reached) -/
theorem planned_tick (cfg : Cfg) (i : In) {k : Keys} {sw : Switch}
    (hm : cfg.switchoverMaxAttempts > 0) (hp : sw.failoverType = false) (hs : k.switch = some sw)
    (ha : ActiveManager i) (hpn : i.perform ≠ .panicked) :
    (tick cfg i k).switch = none ∨
    ((tick cfg i k).switch = some { sw with runCount := sw.runCount + 1 } ∧
      sw.runCount < cfg.switchoverMaxAttempts) := by
  rw [tick_active cfg i ha hs (by simp [hp])]
  have hst := ha.2.2.2.2.2.2
  unfold outcome
  cases timedOut cfg i.now sw
  · cases happ : approveSwitchover cfg i sw
    · simp
    · cases hpf : i.perform <;> simp [hst] at hpn ⊢
      · -- failed: approval implies that the limit was not reached
        unfold approveSwitchover at happ
        by_cases hlim : sw.runCount ≥ cfg.switchoverMaxAttempts
        · simp [hp, hm, hlim] at happ
        · omega
      · exact absurd hpf hpn
  · simp


/-- C06 `planned_switchover_bounded`, CORRECTED by the hypothesis `is ≠ []`: as stated in C06.lean the
length bound `cfg.switchoverMaxAttempts - sw.runCount + 1` is ≤ 0 when `run_count` already exceeds
the limit, and then the empty sequence of iterations is a counterexample. -/
theorem planned_switchover_bounded (cfg : Cfg) (is : List In) (k : Keys) (sw : Switch)
    (hm : cfg.switchoverMaxAttempts > 0) (hp : sw.failoverType = false)
    (hs : k.switch = some sw)
    (hall : ∀ i ∈ is, ActiveManager i ∧ i.perform ≠ .panicked)
    (hne : is ≠ [])
    (hlen : (is.length : Int) ≥ cfg.switchoverMaxAttempts - sw.runCount + 1) :
    (is.foldl (fun k i => tick cfg i k) k).switch ≠ some sw ∧
    ∀ sw', (is.foldl (fun k i => tick cfg i k) k).switch = some sw' → sw'.causeAuto = true := by
  suffices h : AutoOrFree (is.foldl (fun k i => tick cfg i k) k) by
    rcases h with h | ⟨sw', h, hc, hf⟩
    · simp [h]
    · rw [h]
      refine ⟨fun e => ?_, fun sw'' e => ?_⟩
      · cases e; simp [hp] at hf
      · cases e; exact hc
  induction is generalizing k sw with
  | nil => exact absurd rfl hne
  | cons i rest ih =>
    obtain ⟨ha, hpn⟩ := hall i (by simp)
    rw [List.foldl_cons]
    rcases planned_tick cfg i hm hp hs ha hpn with h | ⟨h, hlt⟩
    · exact autoOrFree_foldl cfg rest (Or.inl h)
    · have hlen' : (rest.length : Int) ≥ cfg.switchoverMaxAttempts - (sw.runCount + 1) + 1 := by
        simp only [List.length_cons] at hlen; omega
      have hne' : rest ≠ [] := by
        intro e; rw [e] at hlen'; simp at hlen'; omega
      exact ih (tick cfg i k) { sw with runCount := sw.runCount + 1 } hp h
        (fun j hj => hall j (by simp [hj])) hne' hlen'

/-- the same with `sw.runCount ≤ cfg.switchoverMaxAttempts` as the extra hypothesis -/
theorem planned_switchover_bounded' (cfg : Cfg) (is : List In) (k : Keys) (sw : Switch)
    (hm : cfg.switchoverMaxAttempts > 0) (hp : sw.failoverType = false)
    (hs : k.switch = some sw)
    (hall : ∀ i ∈ is, ActiveManager i ∧ i.perform ≠ .panicked)
    (hrc : sw.runCount ≤ cfg.switchoverMaxAttempts)
    (hlen : (is.length : Int) ≥ cfg.switchoverMaxAttempts - sw.runCount + 1) :
    (is.foldl (fun k i => tick cfg i k) k).switch ≠ some sw ∧
    ∀ sw', (is.foldl (fun k i => tick cfg i k) k).switch = some sw' → sw'.causeAuto = true := by
  refine planned_switchover_bounded cfg is k sw hm hp hs hall (fun e => ?_) hlen
  rw [e] at hlen; simp at hlen; omega

end ManagerLemmas
