/- Helper lemmas for C10 (statements of the property theorems are fixed in MysyncProofs/C10.lean). -/
import MysyncModel.App.Repair

namespace RepairLemmas
open NS Repair

/-! ### `tryRepair` / `markRunning` -/

/-- the three possible outcomes of `tryRepair` on an existing repair state -/
theorem tryRepair_some_cases (cfg : Cfg) (s : RepairState) (now : Int) (master : String) (c : Bool) :
    (tryRepair cfg (some s) now master c = ([], some s) ∧
      (cooldownPassed cfg s now = false ∨ suitable cfg s = none)) ∨
    (tryRepair cfg (some s) now master c =
        ([.startSlave], some { s with startCount := s.startCount + 1, lastAttempt := now }) ∧
      cooldownPassed cfg s now = true ∧ suitable cfg s = some .startSlave ∧ s.startCount < cfg.maxAttempts) ∨
    (tryRepair cfg (some s) now master c =
        ([.resetSlaveAlgorithm master], some { s with resetCount := s.resetCount + 1, lastAttempt := now }) ∧
      cooldownPassed cfg s now = true ∧ suitable cfg s = some .resetSlave ∧ ¬ s.startCount < cfg.maxAttempts ∧
      cfg.aggressive = true ∧ s.resetCount < cfg.maxAttempts) := by
  cases hcd : cooldownPassed cfg s now
  · simp [tryRepair, hcd]
  · by_cases h1 : s.startCount < cfg.maxAttempts
    · have hs : suitable cfg s = some .startSlave := by simp [suitable, h1]
      simp [tryRepair, hcd, hs, h1]
    · by_cases h2 : cfg.aggressive = true ∧ s.resetCount < cfg.maxAttempts
      · have hs : suitable cfg s = some .resetSlave := by simp [suitable, h1, h2.1, h2.2]
        simp [tryRepair, hcd, hs, h1, h2.1, h2.2]
      · have hs : suitable cfg s = none := by
          simp only [suitable, h1, if_false]
          rw [if_neg]
          simpa using h2
        simp [tryRepair, hcd, hs]

theorem tryRepair_none (cfg : Cfg) (now : Int) (master : String) (c : Bool) :
    tryRepair cfg none now master c =
      if c then ([.createRepairState], some { lastAttempt := now }) else ([], none) := by
  cases c <;> simp [tryRepair]

/-- `tryRepair` resets the replica only towards `master`, and only when entitled -/
theorem tryRepair_reset_mem (cfg : Cfg) (rs : Option RepairState) (now : Int) (master : String) (c : Bool) (to : String)
    (h : Act.resetSlaveAlgorithm to ∈ (tryRepair cfg rs now master c).1) :
    to = master ∧ cfg.aggressive = true ∧
    ∃ s, rs = some s ∧ cooldownPassed cfg s now = true ∧ s.startCount ≥ cfg.maxAttempts ∧ s.resetCount < cfg.maxAttempts := by
  cases rs with
  | none => rw [tryRepair_none] at h; cases c <;> simp at h
  | some s =>
    rcases tryRepair_some_cases cfg s now master c with ⟨e, _⟩ | ⟨e, _⟩ | ⟨e, hcd, _, h1, ha, h2⟩
    · rw [e] at h; simp at h
    · rw [e] at h; simp at h
    · rw [e] at h
      simp only [List.mem_singleton, Act.resetSlaveAlgorithm.injEq] at h
      exact ⟨h, ha, s, rfl, hcd, by omega, h2⟩

theorem tryRepair_changeMaster_not_mem (cfg : Cfg) (rs : Option RepairState) (now : Int) (master : String) (c : Bool) (to : String) :
    Act.changeMaster to ∉ (tryRepair cfg rs now master c).1 := by
  cases rs with
  | none => rw [tryRepair_none]; cases c <;> simp
  | some s =>
    rcases tryRepair_some_cases cfg s now master c with ⟨e, _⟩ | ⟨e, _⟩ | ⟨e, _⟩ <;> rw [e] <;> simp

theorem markRunning_mem (cfg : Cfg) (rs : Option RepairState) (now : Int) (p : Bool) (a : Act)
    (h : a ∈ (markRunning cfg rs now p).1) : a = .deleteRepairState := by
  unfold markRunning at h
  split at h
  · simp at h
  · split at h <;> simp_all

/-! ### `repairSlave` as equations on its two components -/

theorem repairSlave_fst (cfg : Cfg) (host : String) (st : NodeState) (master : String) (rs : Option RepairState)
    (now : Int) (c p : Bool) :
    (repairSlave cfg host st master rs now c p).1 =
      (if st.isReadOnly then [] else [Act.setReadOnly]) ++
      (if st.isMaster then [.setOffline, .semiSyncDisable, .changeMaster master, .setRecovery]
       else if st.isCascade then [.cascade]
       else match st.slave with
        | none => []
        | some sl =>
          (if sl.masterHost != master then [.changeMaster master]
           else if sl.state == .stopped then [.startSlave] else []) ++
          (if sl.state == .error then (if st.permBroken then [] else (tryRepair cfg rs now master c).1)
           else (markRunning cfg rs now p).1)) := by
  unfold repairSlave
  generalize st.slave = o
  generalize st.permBroken = pb
  cases o with
  | none => cases st.isReadOnly <;> cases st.isMaster <;> cases st.isCascade <;> simp
  | some sl =>
    cases st.isReadOnly <;> cases st.isMaster <;> cases st.isCascade <;> cases pb <;> simp <;> split <;> simp

theorem repairSlave_snd (cfg : Cfg) (host : String) (st : NodeState) (master : String) (rs : Option RepairState)
    (now : Int) (c p : Bool) :
    (repairSlave cfg host st master rs now c p).2 =
      (if st.isMaster then rs
       else if st.isCascade then rs
       else match st.slave with
        | none => rs
        | some sl =>
          if sl.state == .error then (if st.permBroken then rs else (tryRepair cfg rs now master c).2)
          else (markRunning cfg rs now p).2) := by
  unfold repairSlave
  generalize st.slave = o
  generalize st.permBroken = pb
  cases o with
  | none => cases st.isMaster <;> cases st.isCascade <;> simp
  | some sl =>
    cases st.isMaster <;> cases st.isCascade <;> cases pb <;> simp <;> split <;> simp

/-- where a re-pointing action of `repairSlave` can come from -/
theorem repairSlave_changeMaster_mem (cfg : Cfg) (host : String) (st : NodeState) (master : String) (rs : Option RepairState)
    (now : Int) (c p : Bool) (to : String)
    (h : Act.changeMaster to ∈ (repairSlave cfg host st master rs now c p).1) : to = master := by
  rw [repairSlave_fst] at h
  have hcm := tryRepair_changeMaster_not_mem cfg rs now master c to
  have hmr := fun hh => markRunning_mem cfg rs now p (Act.changeMaster to) hh
  rcases List.mem_append.1 h with h | h
  · split at h <;> simp at h
  · split at h
    · simpa using h
    · split at h
      · simp at h
      · split at h
        · simp at h
        · rcases List.mem_append.1 h with h | h
          · split at h
            · simpa using h
            · split at h <;> simp at h
          · split at h
            · split at h
              · simp at h
              · exact absurd h hcm
            · exact absurd (hmr h) (by simp)

/-- where a reset of the replication configuration by `repairSlave` can come from -/
theorem repairSlave_reset_mem (cfg : Cfg) (host : String) (st : NodeState) (master : String) (rs : Option RepairState)
    (now : Int) (c p : Bool) (to : String)
    (h : Act.resetSlaveAlgorithm to ∈ (repairSlave cfg host st master rs now c p).1) :
    st.permBroken = false ∧ (∃ sl, st.slave = some sl ∧ sl.state = .error) ∧
    Act.resetSlaveAlgorithm to ∈ (tryRepair cfg rs now master c).1 := by
  rw [repairSlave_fst] at h
  have hmr := fun hh => markRunning_mem cfg rs now p (Act.resetSlaveAlgorithm to) hh
  rcases List.mem_append.1 h with h | h
  · split at h <;> simp at h
  · split at h
    · simp at h
    · split at h
      · simp at h
      · split at h
        · simp at h
        · rename_i sl hsl
          rcases List.mem_append.1 h with h | h
          · split at h
            · simp at h
            · split at h <;> simp at h
          · split at h
            · rename_i he
              split at h
              · simp at h
              · rename_i hp
                exact ⟨by simpa using hp, ⟨sl, hsl, by simpa using he⟩, h⟩
            · exact absurd (hmr h) (by simp)

/-! ### the finite abstraction: enumeration of `Abs` and the table checks -/

def allBool : List Bool := [false, true]
def allSrc : List Src := [.master, .other, .none]
def allRep : List Rep := [.running, .stopped, .errTemp, .errPerm]
def allBudget : List Budget := [.noState, .mustWait, .mayStart, .mayReset, .exhausted]

def allAbs : List Abs :=
  allBool.flatMap fun ro => allBool.flatMap fun cm => allSrc.flatMap fun s => allRep.flatMap fun r =>
  allBudget.flatMap fun b => allBool.flatMap fun o => allBool.map fun m => ⟨ro, cm, s, r, b, o, m⟩

theorem mem_allAbs (n : Abs) : n ∈ allAbs := by
  rcases n with ⟨ro, cm, src, rep, bud, off, mk⟩
  simp only [allAbs, allBool, allSrc, allRep, allBudget, List.mem_flatMap, List.mem_map]
  refine ⟨ro, by cases ro <;> simp, cm, by cases cm <;> simp, src, by cases src <;> simp, rep, by cases rep <;> simp,
    bud, by cases bud <;> simp, off, by cases off <;> simp, mk, by cases mk <;> simp, rfl⟩

/-- canonical or sink -/
def Settled (n : Abs) : Prop := n.canonical = true ∨ n.sink = true

instance (n : Abs) : Decidable (Settled n) := by unfold Settled; infer_instance

/-- three fault-free passes already settle every abstract state (table split by the aggressive flag
to keep each kernel evaluation short) … -/
theorem settled_after_three_agg : ∀ n ∈ allAbs, ∀ c1 c2 c3 : Bool,
    Settled (absPass true c3 true (absPass true c2 true (absPass true c1 true n))) := by
  decide +kernel

theorem settled_after_three_nonagg : ∀ n ∈ allAbs, ∀ c1 c2 c3 : Bool,
    Settled (absPass false c3 true (absPass false c2 true (absPass false c1 true n))) := by
  decide +kernel

/-- … and settled states stay settled (whatever the environment does) -/
theorem settled_stable_all : ∀ n ∈ allAbs, ∀ agg c t : Bool, Settled n → Settled (absPass agg c t n) := by
  decide +kernel

theorem canonical_stable_all : ∀ n ∈ allAbs, ∀ agg c t : Bool, n.canonical = true → (absPass agg c t n).canonical = true := by
  decide +kernel

theorem settled_after_three (agg c1 c2 c3 : Bool) (n : Abs) :
    Settled (absPass agg c3 true (absPass agg c2 true (absPass agg c1 true n))) :=
  match agg with
  | true => settled_after_three_agg n (mem_allAbs n) c1 c2 c3
  | false => settled_after_three_nonagg n (mem_allAbs n) c1 c2 c3

theorem settled_stable (agg c t : Bool) (n : Abs) (h : Settled n) : Settled (absPass agg c t n) :=
  settled_stable_all n (mem_allAbs n) agg c t h

end RepairLemmas
