/- Helper lemmas for C10 (statements of the property theorems are fixed in MysyncProofs/C10.lean). -/
import MysyncModel.App.Repair

namespace RepairLemmas
open NS Repair

end RepairLemmas
