/-
Helper lemmas for C09: the manager iteration under maintenance and the maintenance handlers
(`Maintenance.leaveMaintenance`, `tryLeave`, `stateMaintenance`, `stateCandidate`, `stateFirstRun`).
-/
import MysyncModel.App.Maintenance
import MysyncProofs.Lemmas.ManagerCore
import MysyncProofs.Lemmas.ManagerProps

namespace ManagerLemmas
open NS Manager SwitchLifecycle Maintenance

/-! ### the manager iteration -/

theorem manager_paused_is_inert (cfg : Cfg) (i : In) (sl : Bool)
    (hc : i.connected = true) (hl : i.lockHeld = true) (hd : i.dcsStateErr = false) (hm : i.master.isSome)
    (ha : i.activeNodesErr = false) (hmaint : i.maint = .record false true sl) :
    (stateManager cfg i).steps = [] ∧ (stateManager cfg i).next = .maintenance := by
  obtain ⟨m, hm⟩ := Option.isSome_iff_exists.mp hm
  simp [stateManager, hc, hl, hd, hm, ha, hmaint]

theorem manager_unreadable_with_file_is_inert (cfg : Cfg) (i : In)
    (hc : i.connected = true) (hl : i.lockHeld = true) (hd : i.dcsStateErr = false) (hm : i.master.isSome)
    (ha : i.activeNodesErr = false) (hmaint : i.maint = .err true) :
    (stateManager cfg i).steps = [] ∧ (stateManager cfg i).next = .maintenance := by
  obtain ⟨m, hm⟩ := Option.isSome_iff_exists.mp hm
  simp [stateManager, hc, hl, hd, hm, ha, hmaint]

theorem manager_entering_only_acknowledges (cfg : Cfg) (i : In) (sl : Bool)
    (hc : i.connected = true) (hl : i.lockHeld = true) (hd : i.dcsStateErr = false) (hm : i.master.isSome)
    (ha : i.activeNodesErr = false) (hmaint : i.maint = .record false false sl) :
    (stateManager cfg i).steps = [Step.enterMaintenance i.enterMaintOk] ∧
    ((stateManager cfg i).next = .maintenance ↔ i.enterMaintOk = true) := by
  obtain ⟨m, hm⟩ := Option.isSome_iff_exists.mp hm
  cases he : i.enterMaintOk <;> simp [stateManager, hc, hl, hd, hm, ha, hmaint, he]

theorem light_never_files_failover (cfg : Cfg) (i : In) (p sl : Bool) (hmaint : i.maint = .record true p sl) :
    Step.issueFailover ∉ (stateManager cfg i).steps := by
  intro h
  obtain ⟨_, _, _, _, _, hm, _⟩ := issueFailover_gates cfg i h
  rw [hmaint] at hm
  rcases hm with hm | hm <;> cases hm

theorem light_parks_failover_requests (cfg : Cfg) (i : In) (sw : Switch)
    (hmaint : i.maint = .record true true false) (hsw : i.sw = .record sw) (hf : sw.failoverType = true) :
    ∀ s ∈ (stateManager cfg i).steps, s ≠ .switchStarted true ∧ s ≠ .switchStarted false ∧ s ≠ .switchRejected ∧
      s ≠ .switchTimedOut ∧ s ≠ .switchFinished ∧ s ≠ .switchFailed := by
  intro s hs
  have hquiet : ∀ s : Step, quiet s = true → s ≠ .switchStarted true ∧ s ≠ .switchStarted false ∧
      s ≠ .switchRejected ∧ s ≠ .switchTimedOut ∧ s ≠ .switchFinished ∧ s ≠ .switchFailed := by
    intro s h; cases s <;> simp [quiet] at h <;> simp
  rcases stateManager_shape cfg i with ⟨_, he⟩ | ⟨m, light, pre, hen, hsh⟩
  · have := he s hs; cases s <;> simp [early] at this <;> simp
  · obtain ⟨_, _, _, _, _, hcase⟩ := hen
    rw [hmaint] at hcase
    obtain ⟨rfl, rfl⟩ : light = true ∧ pre = [] := by
      rcases hcase with ⟨_, _, h | h⟩ | ⟨h1, h2, _⟩ | ⟨_, _, h, _⟩
      · cases h
      · cases h
      · exact ⟨h1, h2⟩
      · cases h
    rcases hsh with ⟨h, _⟩ | ⟨h, _⟩ | ⟨sw', _, _, _, e⟩ | ⟨sw', h, hn, _⟩
    · rw [hsw] at h; cases h
    · rw [hsw] at h; cases h
    · rw [e] at hs
      simp only [List.nil_append] at hs
      rcases List.mem_cons.mp hs with h | h
      · subst h; simp
      · exact hquiet s (asTail_light_quiet cfg i m s h)
    · rw [hsw] at h; cases h; exact absurd ⟨rfl, hf⟩ hn

theorem light_keeps_planned_switchovers (cfg : Cfg) (i : In) (sw : Switch)
    (hsw : i.sw = .record sw) (hf : sw.failoverType = false) :
    (stateManager cfg { i with maint := .record true true false }).steps =
      (stateManager cfg { i with maint := .absent }).steps := by
  have hn : ∀ light : Bool, ¬ (light = true ∧ sw.failoverType = true) := by simp [hf]
  rcases Bool.eq_false_or_eq_true i.connected with hc | hc
  rotate_left
  · simp [stateManager, hc]
  rcases Bool.eq_false_or_eq_true i.lockHeld with hl | hl
  rotate_left
  · simp [stateManager, hc, hl]
  rcases Bool.eq_false_or_eq_true i.dcsStateErr with hd | hd
  · simp [stateManager, hc, hl, hd]
  rcases Option.eq_none_or_eq_some i.master with hm | ⟨m, hm⟩
  · simp [stateManager, hc, hl, hd, hm]
  rcases Bool.eq_false_or_eq_true i.activeNodesErr with ha | ha
  · simp [stateManager, hc, hl, hd, hm, ha]
  have e1 : Enters { i with maint := .record true true false } m true [] :=
    ⟨hc, hl, hd, hm, ha, Or.inr (Or.inl ⟨rfl, rfl, rfl⟩)⟩
  have e2 : Enters { i with maint := .absent } m false [] :=
    ⟨hc, hl, hd, hm, ha, Or.inl ⟨rfl, rfl, Or.inl rfl⟩⟩
  have r1 := handleSwitch_record (cfg := cfg) (i := { i with maint := .record true true false })
    (master := m) (light := true) (pre := []) (sw := sw) hsw (hn _)
  have r2 := handleSwitch_record (cfg := cfg) (i := { i with maint := .absent })
    (master := m) (light := false) (pre := []) (sw := sw) hsw (hn _)
  rw [stateManager_of_enters e1, stateManager_of_enters e2, r1, r2]
  rfl

theorem light_keeps_repairs (cfg : Cfg) (i : In) (master : String) (md cm : NodeState)
    (hc : i.connected = true) (hl : i.lockHeld = true) (hd : i.dcsStateErr = false) (hm : i.master = some master)
    (ha : i.activeNodesErr = false) (hmaint : i.maint = .record true true false) (hsw : i.sw = .absent)
    (hdm : i.dcs.get? master = some md) (hcm : i.cs.get? master = some cm) (hreach : cm.pingOk = true) :
    Step.repairCluster ∈ (stateManager cfg i).steps ∧ Step.updateActiveNodes ∈ (stateManager cfg i).steps := by
  have hen : Enters i master true [] := ⟨hc, hl, hd, hm, ha, Or.inr (Or.inl ⟨rfl, rfl, hmaint⟩)⟩
  rw [stateManager_of_enters hen, handleSwitch_absent hsw]
  simp only [List.nil_append, asTail, hdm, hcm, hreach]
  cases (!md.pingOk || md.isFsReadonly) <;> simp <;> split <;> simp

/-! ### the maintenance handlers -/

theorem paused_handler_is_inert (maintFile lock : Bool) (maint : MaintRead) (i : LeaveIn)
    (h : (∃ f, maint = .err f) ∨ ∃ l p, maint = .record l p false) :
    (stateMaintenance maintFile maint lock i).2 = .maintenance ∧
    ∀ a ∈ (stateMaintenance maintFile maint lock i).1, a = Act.writeMaintFile := by
  rcases h with ⟨f, rfl⟩ | ⟨l, p, rfl⟩ <;> cases maintFile <;> simp [stateMaintenance]

theorem restart_without_dcs_stays_paused (lock : Bool) : stateFirstRun false true lock = .maintenance := by
  simp [stateFirstRun]

theorem candidates_follow_after_ack (connected upd lock : Bool) (maint : MaintRead) :
    stateCandidate connected upd maint lock = .maintenance ↔
      (connected = true ∧ upd = true ∧ ∃ sl, maint = .record false true sl) := by
  cases connected <;> cases upd <;> cases lock <;> cases maint <;> simp [stateCandidate]
  all_goals (rename_i l p s; cases l <;> cases p <;> simp)

theorem leave_iff_one_master (i : LeaveIn) :
    ((leaveMaintenance i).2 = true →
      ∃ m rest a, mastersOf i.cs = [m] ∧ Act.setMasterHost m ∈ (leaveMaintenance i).1 ∧
        i.activeAfter = some (a :: rest) ∧ Act.deleteMaintenance ∈ (leaveMaintenance i).1) ∧
    (Act.deleteMaintenance ∈ (leaveMaintenance i).1 →
      ∃ m rest a, mastersOf i.cs = [m] ∧ i.activeAfter = some (a :: rest)) := by
  unfold leaveMaintenance
  rcases hm : mastersOf i.cs with _ | ⟨m, _ | ⟨m2, r⟩⟩ <;>
  cases i.updateHostsOk <;> simp
  cases i.setMasterOk <;> cases i.dcsStateOk <;> cases i.updateActiveOk <;> simp
  rcases i.activeAfter with _ | _ | ⟨a, r⟩ <;> simp

/-- C09 `leave_keeps_mode_otherwise`, CORRECTED: the emergency marker is only written when the host
list could be refreshed (`updateHostsOk`); when that fails `leaveMaintenance` returns before looking
for masters and does nothing.  All other conjuncts hold unconditionally. -/
theorem leave_keeps_mode_otherwise (i : LeaveIn) (h : (mastersOf i.cs).length ≠ 1) :
    (leaveMaintenance i).2 = false ∧ Act.deleteMaintenance ∉ (leaveMaintenance i).1 ∧
    (∀ m, Act.setMasterHost m ∉ (leaveMaintenance i).1) ∧
    (i.updateHostsOk = true → (mastersOf i.cs).length ≥ 2 → (leaveMaintenance i).1 = [Act.writeEmerge]) ∧
    (i.updateHostsOk = false → (leaveMaintenance i).1 = []) ∧
    ((mastersOf i.cs).length = 0 → (leaveMaintenance i).1 = []) := by
  unfold leaveMaintenance
  rcases hm : mastersOf i.cs with _ | ⟨m, _ | ⟨m2, r⟩⟩ <;> simp [hm] at h ⊢ <;>
    cases i.updateHostsOk <;> simp

-- counterexample to C09 `leave_keeps_mode_otherwise` as originally stated: two masters, host refresh failed
private def mstX : NodeState := { pingOk := true, isMaster := true }
private def leaveX : LeaveIn := { updateHostsOk := false, cs := [("a", mstX), ("b", mstX)] }
example : (mastersOf leaveX.cs).length ≠ 1 ∧ (mastersOf leaveX.cs).length ≥ 2 ∧
    (leaveMaintenance leaveX).1 ≠ [Act.writeEmerge] := by decide +kernel

theorem leave_no_remove (i : LeaveIn) : Act.removeMaintFile ∉ (leaveMaintenance i).1 := by
  unfold leaveMaintenance
  rcases mastersOf i.cs with _ | ⟨m, _ | ⟨m2, r⟩⟩ <;> cases i.updateHostsOk <;> simp
  cases i.setMasterOk <;> cases i.dcsStateOk <;> cases i.updateActiveOk <;> simp
  rcases i.activeAfter with _ | _ | ⟨a, r⟩ <;> simp

theorem failed_leave_stays_paused (i : LeaveIn) (h : (leaveMaintenance i).2 = false) :
    (tryLeave true i).2 = .maintenance ∧ Act.removeMaintFile ∉ (tryLeave true i).1 := by
  unfold tryLeave
  simp [h, leave_no_remove]

end ManagerLemmas
