/-
Interval-list level helper lemmas for C13: membership, the `Normal` form, `ivContain`, uniqueness of
the normal form, and the two-pointer subtraction `ivMinus`/`minusOne`.
-/
import MysyncModel.Gtid

namespace GtidLemmas
open Gtid

/-! ### membership -/

theorem mem_nil (x : Int) : IvList.Mem x [] ↔ False := by
  simp [IvList.Mem]

theorem mem_cons (x : Int) (iv : Interval) (l : IvList) :
    IvList.Mem x (iv :: l) ↔ ((iv.start ≤ x ∧ x < iv.stop) ∨ IvList.Mem x l) := by
  simp [IvList.Mem]

theorem mem_append (x : Int) (l1 l2 : IvList) :
    IvList.Mem x (l1 ++ l2) ↔ (IvList.Mem x l1 ∨ IvList.Mem x l2) := by
  induction l1 with
  | nil => simp [mem_nil]
  | cons iv l ih => simp only [List.cons_append, mem_cons, ih, or_assoc]

theorem mem_single (x : Int) (iv : Interval) :
    IvList.Mem x [iv] ↔ (iv.start ≤ x ∧ x < iv.stop) := by
  simp [mem_cons, mem_nil]

/-! ### the normal form -/

theorem normal_cons_cons (iv jv : Interval) (r : IvList) :
    Normal (iv :: jv :: r) ↔ (iv.start < iv.stop ∧ iv.stop < jv.start ∧ Normal (jv :: r)) := by
  rw [Normal]

theorem normal_single (iv : Interval) : Normal [iv] ↔ iv.start < iv.stop := by
  rw [Normal]

theorem _root_.Gtid.Normal.tail {iv : Interval} {l : IvList} (h : Normal (iv :: l)) : Normal l := by
  cases l with
  | nil => trivial
  | cons jv r => exact ((normal_cons_cons iv jv r).mp h).2.2

theorem _root_.Gtid.Normal.head {iv : Interval} {l : IvList} (h : Normal (iv :: l)) : iv.start < iv.stop := by
  cases l with
  | nil => exact (normal_single iv).mp h
  | cons jv r => exact ((normal_cons_cons iv jv r).mp h).1

/-- every interval is non-empty -/
theorem _root_.Gtid.Normal.nonempty {l : IvList} (h : Normal l) : ∀ i ∈ l, i.start < i.stop := by
  induction l with
  | nil => intro i hi; cases hi
  | cons iv l ih =>
    intro i hi
    rcases List.mem_cons.mp hi with rfl | hi
    · exact h.head
    · exact ih h.tail i hi

/-- every later interval starts after the stop of the head -/
theorem _root_.Gtid.Normal.above {iv : Interval} {l : IvList} (h : Normal (iv :: l)) :
    ∀ j ∈ l, iv.stop < j.start := by
  induction l generalizing iv with
  | nil => intro j hj; cases hj
  | cons jv r ih =>
    intro j hj
    have h' := (normal_cons_cons iv jv r).mp h
    rcases List.mem_cons.mp hj with rfl | hj
    · exact h'.2.1
    · have := ih h'.2.2 j hj
      have := h'.2.2.head
      omega

theorem _root_.Gtid.Normal.mem_above {iv : Interval} {l : IvList} (h : Normal (iv :: l)) {x : Int}
    (hx : IvList.Mem x l) : iv.stop < x := by
  obtain ⟨j, hj, h1, _⟩ := hx
  have := h.above j hj
  omega

theorem _root_.Gtid.Normal.mem_ge {iv : Interval} {l : IvList} (h : Normal (iv :: l)) {x : Int}
    (hx : IvList.Mem x (iv :: l)) : iv.start ≤ x := by
  rcases (mem_cons x iv l).mp hx with hx | hx
  · exact hx.1
  · have := h.mem_above hx
    have := h.head
    omega

/-- building a normal list: the head is non-empty and everything in the (normal) tail starts after
its stop -/
theorem normal_cons_of {iv : Interval} {l : IvList} (h1 : iv.start < iv.stop)
    (h2 : ∀ j ∈ l, iv.stop < j.start) (h3 : Normal l) : Normal (iv :: l) := by
  cases l with
  | nil => exact (normal_single iv).mpr h1
  | cons jv r => exact (normal_cons_cons iv jv r).mpr ⟨h1, h2 jv (List.mem_cons_self ..), h3⟩

theorem normal_append {l1 l2 : IvList} (h1 : Normal l1) (h2 : Normal l2)
    (h : ∀ i ∈ l1, ∀ j ∈ l2, i.stop < j.start) : Normal (l1 ++ l2) := by
  induction l1 with
  | nil => exact h2
  | cons iv l ih =>
    rw [List.cons_append]
    apply normal_cons_of h1.head
    · intro j hj
      rcases List.mem_append.mp hj with hj | hj
      · exact h1.above j hj
      · exact h iv (List.mem_cons_self ..) j hj
    · exact ih h1.tail (fun i hi j hj => h i (List.mem_cons_of_mem _ hi) j hj)

/-- a non-empty normal list has a member -/
theorem _root_.Gtid.Normal.exists_mem {l : IvList} (h : Normal l) (hne : l ≠ []) : ∃ x, IvList.Mem x l := by
  cases l with
  | nil => exact absurd rfl hne
  | cons iv r =>
    refine ⟨iv.start, (mem_cons _ _ _).mpr (Or.inl ⟨Int.le_refl _, h.head⟩)⟩

theorem eq_nil_of_no_mem {l : IvList} (h : Normal l) (hno : ∀ x, ¬ IvList.Mem x l) : l = [] := by
  apply Classical.byContradiction
  intro hne
  obtain ⟨x, hx⟩ := h.exists_mem hne
  exact hno x hx

/-- intervals of a normal list lie inside any range that bounds all its members -/
theorem _root_.Gtid.Normal.bounds {l : IvList} (h : Normal l) {lo hi : Int}
    (hb : ∀ x, IvList.Mem x l → lo ≤ x ∧ x < hi) : ∀ i ∈ l, lo ≤ i.start ∧ i.stop ≤ hi := by
  intro i hi'
  have hne := h.nonempty i hi'
  have h1 := hb i.start ⟨i, hi', Int.le_refl _, hne⟩
  have h2 := hb (i.stop - 1) ⟨i, hi', by omega, by omega⟩
  omega

/-! ### `ivContain` -/

theorem find_contain_iff (s : IvList) (hs : Normal s) (iv : Interval) (hiv : iv.start < iv.stop) :
    (match s.find? (fun j => decide (iv.start ≤ j.stop)) with
      | none => false
      | some j => !(decide (iv.start < j.start) || decide (iv.stop > j.stop))) = true ↔
    ∀ x, iv.start ≤ x → x < iv.stop → IvList.Mem x s := by
  induction s with
  | nil =>
    simp only [List.find?_nil, mem_nil]
    constructor
    · intro h; cases h
    · intro h; exact (h iv.start (Int.le_refl _) hiv).elim
  | cons j r ih =>
    by_cases hj : iv.start ≤ j.stop
    · have hf : (j :: r).find? (fun j => decide (iv.start ≤ j.stop)) = some j := by
        simp [hj]
      rw [hf]
      simp only [Bool.not_eq_true', Bool.or_eq_false_iff, decide_eq_false_iff_not, gt_iff_lt]
      constructor
      · intro ⟨h1, h2⟩ x hx1 hx2
        exact (mem_cons _ _ _).mpr (Or.inl ⟨by omega, by omega⟩)
      · intro h
        have hstart : j.start ≤ iv.start := by
          rcases (mem_cons _ _ _).mp (h iv.start (Int.le_refl _) hiv) with h1 | h1
          · exact h1.1
          · have := hs.mem_above h1; omega
        refine ⟨by omega, ?_⟩
        intro hlt
        rcases (mem_cons _ _ _).mp (h j.stop hj hlt) with h1 | h1
        · omega
        · have := hs.mem_above h1; omega
    · have hf : (j :: r).find? (fun j => decide (iv.start ≤ j.stop)) =
          r.find? (fun j => decide (iv.start ≤ j.stop)) := by
        simp [hj]
      rw [hf, ih hs.tail]
      constructor
      · intro h x hx1 hx2
        exact (mem_cons _ _ _).mpr (Or.inr (h x hx1 hx2))
      · intro h x hx1 hx2
        rcases (mem_cons _ _ _).mp (h x hx1 hx2) with h1 | h1
        · omega
        · exact h1

theorem ivContain_iff' (s sub : IvList) (hs : Normal s) (hsub : Normal sub) :
    ivContain s sub = true ↔ ∀ x, IvList.Mem x sub → IvList.Mem x s := by
  unfold ivContain
  rw [List.all_eq_true]
  constructor
  · intro h x ⟨iv, hiv, hx1, hx2⟩
    exact (find_contain_iff s hs iv (hsub.nonempty iv hiv)).mp (h iv hiv) x hx1 hx2
  · intro h iv hiv
    apply (find_contain_iff s hs iv (hsub.nonempty iv hiv)).mpr
    intro x hx1 hx2
    exact h x ⟨iv, hiv, hx1, hx2⟩

/-! ### uniqueness of the normal form -/

theorem normal_unique (l1 l2 : IvList) (h1 : Normal l1) (h2 : Normal l2)
    (h : ∀ x, IvList.Mem x l1 ↔ IvList.Mem x l2) : l1 = l2 := by
  induction l1 generalizing l2 with
  | nil =>
    exact (eq_nil_of_no_mem h2 (fun x hx => (mem_nil x).mp ((h x).mpr hx))).symm
  | cons i r1 ih =>
    cases l2 with
    | nil => exact eq_nil_of_no_mem h1 (fun x hx => (mem_nil x).mp ((h x).mp hx))
    | cons j r2 =>
      have hi := h1.head
      have hj := h2.head
      have hs1 : j.start ≤ i.start :=
        h2.mem_ge ((h _).mp ((mem_cons _ _ _).mpr (Or.inl ⟨Int.le_refl _, hi⟩)))
      have hs2 : i.start ≤ j.start :=
        h1.mem_ge ((h _).mpr ((mem_cons _ _ _).mpr (Or.inl ⟨Int.le_refl _, hj⟩)))
      have hst1 : ¬ i.stop < j.stop := by
        intro hlt
        have : IvList.Mem i.stop (i :: r1) :=
          (h _).mpr ((mem_cons _ _ _).mpr (Or.inl ⟨by omega, hlt⟩))
        rcases (mem_cons _ _ _).mp this with h' | h'
        · omega
        · have := h1.mem_above h'; omega
      have hst2 : ¬ j.stop < i.stop := by
        intro hlt
        have : IvList.Mem j.stop (j :: r2) :=
          (h _).mp ((mem_cons _ _ _).mpr (Or.inl ⟨by omega, hlt⟩))
        rcases (mem_cons _ _ _).mp this with h' | h'
        · omega
        · have := h2.mem_above h'; omega
      have hij : i = j := by
        cases i; cases j; simp only [Interval.mk.injEq] at *; omega
      subst hij
      congr 1
      apply ih r2 h1.tail h2.tail
      intro x
      constructor
      · intro hx
        have := h1.mem_above hx
        rcases (mem_cons _ _ _).mp ((h x).mp ((mem_cons _ _ _).mpr (Or.inr hx))) with h' | h'
        · omega
        · exact h'
      · intro hx
        have := h2.mem_above hx
        rcases (mem_cons _ _ _).mp ((h x).mpr ((mem_cons _ _ _).mpr (Or.inr hx))) with h' | h'
        · omega
        · exact h'

/-! ### `minusOne` / `ivMinus` -/

/-- what one run of the inner loop of `intervalSliceMinus` guarantees -/
structure MinusOneSpec (cur stop : Int) (b : IvList) (p : IvList × IvList) : Prop where
  normal : Normal p.1
  mem : ∀ x, IvList.Mem x p.1 ↔ (cur ≤ x ∧ x < stop ∧ ¬ IvList.Mem x b)
  restNormal : Normal p.2
  restMem : ∀ x, stop ≤ x → (IvList.Mem x p.2 ↔ IvList.Mem x b)

theorem minusOne_spec (b : IvList) (hb : Normal b) (cur stop : Int) :
    MinusOneSpec cur stop b (minusOne cur stop b) := by
  induction b generalizing cur with
  | nil =>
    rw [minusOne]
    by_cases h : cur < stop
    · rw [if_pos h]
      exact ⟨(normal_single _).mpr h, by intro x; simp only [mem_single, mem_nil, not_false_eq_true, and_true],
        trivial, fun x _ => Iff.rfl⟩
    · rw [if_neg h]
      exact ⟨trivial, by intro x; simp only [mem_nil, false_iff]; omega, trivial, fun x _ => Iff.rfl⟩
  | cons bj bs ih =>
    have hbj := hb.head
    have habove : ∀ x, IvList.Mem x bs → bj.stop < x := fun x hx => hb.mem_above hx
    rw [minusOne]
    by_cases h1 : cur ≥ stop
    · rw [if_pos h1]
      exact ⟨trivial, by intro x; simp only [mem_nil, false_iff]; omega, hb, fun x _ => Iff.rfl⟩
    rw [if_neg h1]
    by_cases h2 : bj.stop ≤ cur
    · rw [if_pos h2]
      have := ih hb.tail cur
      refine ⟨this.normal, ?_, this.restNormal, ?_⟩
      · intro x
        rw [this.mem, mem_cons]
        constructor
        · rintro ⟨a, b, c⟩
          refine ⟨a, b, ?_⟩
          rintro (h | h)
          · omega
          · exact c h
        · rintro ⟨a, b, c⟩
          exact ⟨a, b, fun h => c (Or.inr h)⟩
      · intro x hx
        rw [this.restMem x hx, mem_cons]
        constructor
        · exact Or.inr
        · rintro (h | h)
          · omega
          · exact h
    rw [if_neg h2]
    by_cases h3 : bj.start ≥ stop
    · rw [if_pos h3]
      refine ⟨(normal_single _).mpr (by simp only; omega), ?_, hb, fun x _ => Iff.rfl⟩
      intro x
      rw [mem_single, mem_cons]
      constructor
      · rintro ⟨a, b⟩
        refine ⟨a, b, ?_⟩
        rintro (h | h)
        · simp only at b; omega
        · have := habove x h; simp only at b; omega
      · rintro ⟨a, b, _⟩
        exact ⟨a, b⟩
    rw [if_neg h3]
    -- the prefix `[cur, bj.start)` if non-empty
    have hpreN : Normal (if bj.start > cur then [(⟨cur, bj.start⟩ : Interval)] else []) := by
      split
      · exact (normal_single _).mpr (by simp only; omega)
      · trivial
    have hpreM : ∀ x, IvList.Mem x (if bj.start > cur then [(⟨cur, bj.start⟩ : Interval)] else []) ↔
        (cur ≤ x ∧ x < bj.start) := by
      intro x
      split
      · rw [mem_single]
      · rw [mem_nil, false_iff]; omega
    simp only []
    by_cases h4 : bj.stop ≥ stop
    · rw [if_pos h4]
      refine ⟨hpreN, ?_, hb, fun x _ => Iff.rfl⟩
      intro x
      rw [hpreM, mem_cons]
      constructor
      · rintro ⟨a, b⟩
        refine ⟨a, by omega, ?_⟩
        rintro (h | h)
        · omega
        · have := habove x h; omega
      · rintro ⟨a, b, c⟩
        refine ⟨a, ?_⟩
        apply Classical.byContradiction
        intro hge
        exact c (Or.inl ⟨by omega, by omega⟩)
    rw [if_neg h4]
    have := ih hb.tail bj.stop
    refine ⟨?_, ?_, this.restNormal, ?_⟩
    · apply normal_append hpreN this.normal
      intro i hi j hj
      have hjb := this.normal.bounds (lo := bj.stop) (hi := stop)
        (fun x hx => by have := (this.mem x).mp hx; omega) j hj
      have hib := hpreN.bounds (lo := cur) (hi := bj.start)
        (fun x hx => by have := (hpreM x).mp hx; omega) i hi
      omega
    · intro x
      show IvList.Mem x (_ ++ _) ↔ _
      rw [mem_append, hpreM, this.mem, mem_cons]
      constructor
      · rintro (⟨a, b⟩ | ⟨a, b, c⟩)
        · refine ⟨a, by omega, ?_⟩
          rintro (h | h)
          · omega
          · have := habove x h; omega
        · refine ⟨by omega, b, ?_⟩
          rintro (h | h)
          · omega
          · exact c h
      · rintro ⟨a, b, c⟩
        by_cases hx : x < bj.start
        · exact Or.inl ⟨a, hx⟩
        · refine Or.inr ⟨?_, b, fun h => c (Or.inr h)⟩
          apply Classical.byContradiction
          intro hlt
          exact c (Or.inl ⟨by omega, by omega⟩)
    · intro x hx
      show IvList.Mem x _ ↔ _
      rw [this.restMem x hx, mem_cons]
      constructor
      · exact Or.inr
      · rintro (h | h)
        · omega
        · exact h

theorem ivMinus_spec' (a b : IvList) (ha : Normal a) (hb : Normal b) :
    Normal (ivMinus a b) ∧ ∀ x, IvList.Mem x (ivMinus a b) ↔ (IvList.Mem x a ∧ ¬ IvList.Mem x b) := by
  induction a generalizing b with
  | nil =>
    rw [ivMinus]
    exact ⟨trivial, by intro x; simp only [mem_nil, false_and]⟩
  | cons iv as ih =>
    rw [ivMinus]
    have hm := minusOne_spec b hb iv.start iv.stop
    obtain ⟨ihN, ihM⟩ := ih (minusOne iv.start iv.stop b).2 ha.tail hm.restNormal
    show Normal (_ ++ _) ∧ ∀ x, IvList.Mem x (_ ++ _) ↔ _
    constructor
    · apply normal_append hm.normal ihN
      intro i hi j hj
      have hib := hm.normal.bounds (lo := iv.start) (hi := iv.stop)
        (fun x hx => by have := (hm.mem x).mp hx; omega) i hi
      have hjm : IvList.Mem j.start (ivMinus as (minusOne iv.start iv.stop b).2) :=
        ⟨j, hj, Int.le_refl _, ihN.nonempty j hj⟩
      have := ha.mem_above ((ihM _).mp hjm).1
      omega
    · intro x
      rw [mem_append, hm.mem, ihM, mem_cons]
      constructor
      · rintro (⟨a, b, c⟩ | ⟨a, c⟩)
        · exact ⟨Or.inl ⟨a, b⟩, c⟩
        · have := ha.mem_above a
          exact ⟨Or.inr a, fun h => c ((hm.restMem x (by omega)).mpr h)⟩
      · rintro ⟨(⟨a, b⟩ | a), c⟩
        · exact Or.inl ⟨a, b, c⟩
        · have := ha.mem_above a
          exact Or.inr ⟨a, fun h => c ((hm.restMem x (by omega)).mp h)⟩

end GtidLemmas
