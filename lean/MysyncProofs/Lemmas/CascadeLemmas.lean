/- Helper lemmas for C16 (statements of the property theorems are fixed in MysyncProofs/C16.lean). -/
import MysyncModel.App.Cascade

namespace CascadeLemmas
open NS Gtid Cascade

/-! ### generic list facts -/

/-- pigeonhole: a duplicate-free list drawn from `vals` is no longer than `vals` -/
theorem nodup_length_le {α : Type} [DecidableEq α] :
    ∀ (l vals : List α), l.Nodup → (∀ x, x ∈ l → x ∈ vals) → l.length ≤ vals.length := by
  intro l
  induction l with
  | nil => intro vals _ _; simp
  | cons a l ih =>
    intro vals hnd hsub
    have ha : a ∈ vals := hsub a (List.mem_cons_self ..)
    have hnd' := List.nodup_cons.mp hnd
    have hsub' : ∀ x, x ∈ l → x ∈ vals.erase a := by
      intro x hx
      have hxa : x ≠ a := fun h => hnd'.1 (h ▸ hx)
      exact (List.mem_erase_of_ne hxa).mpr (hsub x (List.mem_cons_of_mem _ hx))
    have h1 := ih (vals.erase a) hnd'.2 hsub'
    have h2 : (vals.erase a).length = vals.length - 1 := List.length_erase_of_mem ha
    have h3 : 0 < vals.length := List.length_pos_of_mem ha
    simp only [List.length_cons]
    omega

/-! ### `streamFromOf` -/

theorem streamFromOf_mem {topo : Topology} {h : String} (hne : streamFromOf topo h ≠ "") :
    (h, streamFromOf topo h) ∈ topo := by
  induction topo with
  | nil => exact absurd rfl hne
  | cons p r ih =>
    obtain ⟨k, v⟩ := p
    simp only [streamFromOf] at hne ⊢
    split
    · next hk => subst hk; exact List.mem_cons_self ..
    · next hk =>
      rw [if_neg hk] at hne
      exact List.mem_cons_of_mem _ (ih hne)

theorem streamFromOf_mem_vals {topo : Topology} {h : String} (hne : streamFromOf topo h ≠ "") :
    streamFromOf topo h ∈ topo.map (·.2) :=
  List.mem_map.mpr ⟨_, streamFromOf_mem hne, rfl⟩

/-! ### one iteration of `bsfLoop` -/

/-- the health test of `findBestStreamFrom` on a snapshot -/
def healthyB (reasonable : Int) (c : NodeState) : Bool :=
  c.pingOk && !c.isOffline && reasonableLag reasonable c

/-- same body as `C16.Healthy` -/
def HealthyP (reasonable : Int) (cs : ClusterState) (h : String) : Prop :=
  ∃ c, cs.get? h = some c ∧ c.pingOk = true ∧ c.isOffline = false ∧ reasonableLag reasonable c = true

/-- same body as `C16.Already` -/
def AlreadyP (cs : ClusterState) (self src : String) : Prop :=
  ∃ me sl, cs.get? self = some me ∧ me.slave = some sl ∧ sl.state = .running ∧ sl.masterHost = src

theorem healthyP_of {reasonable : Int} {cs : ClusterState} {h : String} {c : NodeState}
    (hc : cs.get? h = some c) (hb : healthyB reasonable c = true) : HealthyP reasonable cs h := by
  simp only [healthyB, Bool.and_eq_true, Bool.not_eq_true'] at hb
  exact ⟨c, hc, hb.1.1, hb.1.2, hb.2⟩

theorem not_healthyP_of {reasonable : Int} {cs : ClusterState} {h : String} {c : NodeState}
    (hc : cs.get? h = some c) (hb : healthyB reasonable c = false) : ¬ HealthyP reasonable cs h := by
  rintro ⟨c', hc', h1, h2, h3⟩
  rw [hc] at hc'
  cases hc'
  simp [healthyB, h1, h2, h3] at hb

/-- the possible outcomes of one iteration with loop detector `det` and `fuel` iterations left
(`bsfLoop` since the fix: an unregistered configured source falls back to the master instead of a nil dereference) -/
inductive Step (reasonable : Int) (self : String) (cs : ClusterState) (master : String) (topo : Topology)
    (fuel : Nat) (det : List String) : BSF → Prop
  | toMaster :
      (streamFromOf topo (det.headD self) = "" ∨ streamFromOf topo (det.headD self) ∈ det) →
      Step reasonable self cs master topo fuel det (.host master)
  | panicSelf :
      streamFromOf topo (det.headD self) ≠ "" → streamFromOf topo (det.headD self) ∉ det →
      det.length = 1 → cs.get? self = none →
      Step reasonable self cs master topo fuel det (.panic "clusterState[node.Host()]")
  | already :
      streamFromOf topo (det.headD self) ≠ "" → streamFromOf topo (det.headD self) ∉ det →
      det.length = 1 → AlreadyP cs self (streamFromOf topo (det.headD self)) →
      Step reasonable self cs master topo fuel det (.host (streamFromOf topo (det.headD self)))
  | unregistered :
      streamFromOf topo (det.headD self) ≠ "" → streamFromOf topo (det.headD self) ∉ det →
      (det.length = 1 → (cs.get? self).isSome ∧ ¬ AlreadyP cs self (streamFromOf topo (det.headD self))) →
      cs.get? (streamFromOf topo (det.headD self)) = none →
      Step reasonable self cs master topo fuel det (.host master)
  | healthy (c : NodeState) :
      streamFromOf topo (det.headD self) ≠ "" → streamFromOf topo (det.headD self) ∉ det →
      (det.length = 1 → (cs.get? self).isSome ∧ ¬ AlreadyP cs self (streamFromOf topo (det.headD self))) →
      cs.get? (streamFromOf topo (det.headD self)) = some c → healthyB reasonable c = true →
      Step reasonable self cs master topo fuel det (.host (streamFromOf topo (det.headD self)))
  | next (c : NodeState) :
      streamFromOf topo (det.headD self) ≠ "" → streamFromOf topo (det.headD self) ∉ det →
      (det.length = 1 → (cs.get? self).isSome ∧ ¬ AlreadyP cs self (streamFromOf topo (det.headD self))) →
      cs.get? (streamFromOf topo (det.headD self)) = some c → healthyB reasonable c = false →
      Step reasonable self cs master topo fuel det
        (bsfLoop reasonable self cs master topo fuel (streamFromOf topo (det.headD self) :: det))

/-- Bool form of `AlreadyP` as it appears in `bsfLoop` -/
def alreadyB (cs : ClusterState) (self sf : String) : Bool :=
  match cs.get? self with
  | some me => (match me.slave with
    | some s => s.state == .running && s.masterHost == sf
    | none => false)
  | none => false

theorem alreadyB_iff (cs : ClusterState) (self sf : String) : alreadyB cs self sf = true ↔ AlreadyP cs self sf := by
  unfold alreadyB AlreadyP
  constructor
  · intro h
    split at h
    · next me hme =>
      split at h
      · next s hs =>
        simp only [Bool.and_eq_true, beq_iff_eq] at h
        exact ⟨me, s, hme, hs, h.1, h.2⟩
      · exact absurd h (by decide)
    · exact absurd h (by decide)
  · rintro ⟨me, sl, hme, hs, h1, h2⟩
    simp only [hme, hs, h1, h2, beq_self_eq_true, Bool.and_self]

theorem bsfLoop_succ (reasonable : Int) (self : String) (cs : ClusterState) (master : String) (topo : Topology)
    (fuel : Nat) (det : List String) :
    bsfLoop reasonable self cs master topo (fuel + 1) det =
      (if streamFromOf topo (det.headD self) == "" then .host master
       else if det.contains (streamFromOf topo (det.headD self)) then .host master
       else if det.length == 1 && (cs.get? self).isNone then .panic "clusterState[node.Host()]"
       else if (det.length == 1 && alreadyB cs self (streamFromOf topo (det.headD self))) then
         .host (streamFromOf topo (det.headD self))
       else match cs.get? (streamFromOf topo (det.headD self)) with
        | none => .host master
        | some c =>
          if healthyB reasonable c then .host (streamFromOf topo (det.headD self))
          else bsfLoop reasonable self cs master topo fuel (streamFromOf topo (det.headD self) :: det)) := by
  rfl

theorem bsfLoop_step (reasonable : Int) (self : String) (cs : ClusterState) (master : String) (topo : Topology)
    (fuel : Nat) (det : List String) :
    Step reasonable self cs master topo fuel det (bsfLoop reasonable self cs master topo (fuel + 1) det) := by
  rw [bsfLoop_succ]
  split
  · next h => exact .toMaster (Or.inl (by simpa using h))
  · next h1 =>
    have h1' : streamFromOf topo (det.headD self) ≠ "" := by simpa using h1
    split
    · next h => exact .toMaster (Or.inr (by simpa using h))
    · next h2 =>
      have h2' : streamFromOf topo (det.headD self) ∉ det := by simpa using h2
      split
      · next h =>
        simp only [Bool.and_eq_true, beq_iff_eq, Option.isNone_iff_eq_none] at h
        exact .panicSelf h1' h2' h.1 h.2
      · next h3 =>
        split
        · next h =>
          simp only [Bool.and_eq_true, beq_iff_eq] at h
          exact .already h1' h2' h.1 ((alreadyB_iff ..).mp h.2)
        · next h4 =>
          have h5 : det.length = 1 → (cs.get? self).isSome ∧
              ¬ AlreadyP cs self (streamFromOf topo (det.headD self)) := by
            intro hl
            simp only [hl, beq_self_eq_true, Bool.true_and] at h3 h4
            refine ⟨?_, fun ha => h4 ((alreadyB_iff ..).mpr ha)⟩
            cases hg : cs.get? self with
            | none => simp [hg] at h3
            | some _ => rfl
          split
          · next hg => exact .unregistered h1' h2' h5 hg
          · next c hg =>
            split
            · next hb => exact .healthy c h1' h2' h5 hg hb
            · next hb => exact .next c h1' h2' h5 hg (by simpa using hb)

/-! ### properties of the whole loop -/

section loop
variable (reasonable : Int) (self : String) (cs : ClusterState) (master : String) (topo : Topology)

/-- termination: the detector is duplicate-free and (apart from `self`) drawn from the values of
`topo`, so it cannot outgrow `topo.length + 1` -/
theorem bsfLoop_total : ∀ (fuel : Nat) (det vs : List String), det = vs ++ [self] → vs.Nodup →
    (∀ x, x ∈ vs → x ∈ topo.map (·.2)) → topo.length + 2 ≤ fuel + det.length →
    bsfLoop reasonable self cs master topo fuel det ≠ .outOfFuel := by
  intro fuel
  induction fuel with
  | zero =>
    intro det vs hdet hnd hsub hle
    have := nodup_length_le vs _ hnd hsub
    subst hdet
    simp only [List.length_append, List.length_map, List.length_cons, List.length_nil] at hle this
    omega
  | succ fuel ih =>
    intro det vs hdet hnd hsub hle
    have hstep := bsfLoop_step reasonable self cs master topo fuel det
    generalize bsfLoop reasonable self cs master topo (fuel + 1) det = res at hstep ⊢
    cases hstep with
    | toMaster _ => exact BSF.noConfusion
    | panicSelf _ _ _ _ => exact BSF.noConfusion
    | already _ _ _ _ => exact BSF.noConfusion
    | unregistered _ _ _ _ => exact BSF.noConfusion
    | healthy c _ _ _ _ _ => exact BSF.noConfusion
    | next c h1 h2 _ _ _ =>
      refine ih _ (streamFromOf topo (det.headD self) :: vs) (by rw [hdet]; rfl) ?_ ?_ ?_
      · have hmd : ∀ x, x ∈ vs → x ∈ det := fun x hx => by rw [hdet]; exact List.mem_append_left _ hx
        exact List.nodup_cons.mpr ⟨fun hm => h2 (hmd _ hm), hnd⟩
      · intro x hx
        rcases List.mem_cons.mp hx with rfl | hx
        · exact streamFromOf_mem_vals h1
        · exact hsub x hx
      · simp only [List.length_cons]; omega

theorem bsfLoop_never_self (hm : self ≠ master) : ∀ (fuel : Nat) (det : List String), self ∈ det →
    bsfLoop reasonable self cs master topo fuel det ≠ .host self := by
  intro fuel
  induction fuel with
  | zero => intro det _; exact BSF.noConfusion
  | succ fuel ih =>
    intro det hmem
    have hstep := bsfLoop_step reasonable self cs master topo fuel det
    generalize bsfLoop reasonable self cs master topo (fuel + 1) det = res at hstep ⊢
    cases hstep with
    | toMaster _ => intro h; exact hm (BSF.host.inj h).symm
    | panicSelf _ _ _ _ => exact BSF.noConfusion
    | already _ h2 _ _ => intro h; exact h2 (by rw [BSF.host.inj h]; exact hmem)
    | unregistered _ _ _ _ => intro h; exact hm (BSF.host.inj h).symm
    | healthy c _ h2 _ _ _ => intro h; exact h2 (by rw [BSF.host.inj h]; exact hmem)
    | next c _ _ _ _ _ => exact ih _ (List.mem_cons_of_mem _ hmem)

/-- since the fix no hypothesis on the configured sources is needed: an unregistered source yields the master -/
theorem bsfLoop_no_panic (hself : (cs.get? self).isSome) : ∀ (fuel : Nat) (det : List String),
    (∃ r, bsfLoop reasonable self cs master topo fuel det = .host r) ∨
      bsfLoop reasonable self cs master topo fuel det = .outOfFuel := by
  intro fuel
  induction fuel with
  | zero => intro det; exact Or.inr rfl
  | succ fuel ih =>
    intro det
    have hstep := bsfLoop_step reasonable self cs master topo fuel det
    generalize bsfLoop reasonable self cs master topo (fuel + 1) det = res at hstep ⊢
    cases hstep with
    | toMaster _ => exact Or.inl ⟨_, rfl⟩
    | panicSelf _ _ _ hn => rw [hn] at hself; exact absurd hself (by decide)
    | already _ _ _ _ => exact Or.inl ⟨_, rfl⟩
    | unregistered _ _ _ _ => exact Or.inl ⟨_, rfl⟩
    | healthy c _ _ _ _ _ => exact Or.inl ⟨_, rfl⟩
    | next c _ _ _ _ _ => exact ih _

/-- the loop visits the configured ancestors `a 1, a 2, …` in order and stops at the first healthy one -/
theorem bsfLoop_nearest (a : Nat → String) (has : ∀ n, a (n + 1) = streamFromOf topo (a n))
    (r : String) (hr : r ≠ master) : ∀ (fuel : Nat) (det : List String) (k : Nat),
    det.headD self = a k → det.length = k + 1 →
    (∀ j, 1 ≤ j → j ≤ k → ¬ HealthyP reasonable cs (a j)) →
    bsfLoop reasonable self cs master topo fuel det = .host r →
    ∃ n, 1 ≤ n ∧ a n = r ∧
      (∀ j, 1 ≤ j → j < n → ¬ HealthyP reasonable cs (a j)) ∧
      (HealthyP reasonable cs r ∨ (n = 1 ∧ AlreadyP cs self r)) := by
  intro fuel
  induction fuel with
  | zero => intro det k _ _ _ h; exact BSF.noConfusion h
  | succ fuel ih =>
    intro det k hhead hlen hbad
    have hstep := bsfLoop_step reasonable self cs master topo fuel det
    generalize bsfLoop reasonable self cs master topo (fuel + 1) det = res at hstep ⊢
    have hsf : streamFromOf topo (det.headD self) = a (k + 1) := by rw [hhead, has]
    cases hstep with
    | toMaster _ => intro h; exact absurd (BSF.host.inj h).symm hr
    | panicSelf _ _ _ _ => intro h; exact BSF.noConfusion h
    | already _ _ hl hal =>
      intro h
      have hk : k = 0 := by omega
      subst hk
      have hreq := BSF.host.inj h
      rw [hreq] at hal
      rw [hsf] at hreq
      exact ⟨1, Nat.le_refl _, hreq, fun j h1 h2 => by omega, Or.inr ⟨rfl, hal⟩⟩
    | unregistered _ _ _ _ => intro h; exact absurd (BSF.host.inj h).symm hr
    | healthy c _ _ _ hg hb =>
      intro h
      have hreq := BSF.host.inj h
      rw [hreq] at hg
      rw [hsf] at hreq
      exact ⟨k + 1, by omega, hreq, fun j h1 h2 => hbad j h1 (by omega), Or.inl (healthyP_of hg hb)⟩
    | next c _ _ _ hg hb =>
      rw [hsf] at hg
      refine ih _ (k + 1) hsf (by simp only [List.length_cons]; omega) ?_
      intro j h1 h2
      by_cases hj : j ≤ k
      · exact hbad j h1 hj
      · have : j = k + 1 := by omega
        subst this
        exact not_healthyP_of hg hb

theorem bsf_first_already (hsf : streamFromOf topo self ≠ "") (hns : streamFromOf topo self ≠ self)
    (ha : AlreadyP cs self (streamFromOf topo self)) :
    findBestStreamFrom reasonable self cs master topo = .host (streamFromOf topo self) := by
  have hstep := bsfLoop_step reasonable self cs master topo (topo.length + 1) [self]
  show bsfLoop reasonable self cs master topo (topo.length + 1 + 1) [self] = _
  generalize bsfLoop reasonable self cs master topo (topo.length + 1 + 1) [self] = res at hstep ⊢
  have hnm : streamFromOf topo self ∉ [self] := by simpa using hns
  cases hstep with
  | toMaster h => exact absurd h (not_or.mpr ⟨hsf, hnm⟩)
  | panicSelf _ _ _ hn => obtain ⟨me, _, hme, _⟩ := ha; rw [hn] at hme; cases hme
  | already _ _ _ _ => rfl
  | unregistered _ _ h _ => exact absurd ha (h rfl).2
  | healthy c _ _ _ _ _ => rfl
  | next c _ _ h _ _ => exact absurd ha (h rfl).2

/-- an unregistered configured source yields the master, unless the replica already streams from it
(then `bsf_first_already` applies) -/
theorem bsf_first_unregistered (hme : (cs.get? self).isSome)
    (hn : cs.get? (streamFromOf topo self) = none) (hna : ¬ AlreadyP cs self (streamFromOf topo self)) :
    findBestStreamFrom reasonable self cs master topo = .host master := by
  have hstep := bsfLoop_step reasonable self cs master topo (topo.length + 1) [self]
  show bsfLoop reasonable self cs master topo (topo.length + 1 + 1) [self] = _
  generalize bsfLoop reasonable self cs master topo (topo.length + 1 + 1) [self] = res at hstep ⊢
  have hc : ∀ c, cs.get? (streamFromOf topo ([self].headD self)) ≠ some c := by
    intro c h
    have h' : cs.get? (streamFromOf topo self) = some c := h
    rw [hn] at h'; cases h'
  cases hstep with
  | toMaster _ => rfl
  | panicSelf _ _ _ hn' => rw [hn'] at hme; exact absurd hme (by decide)
  | already _ _ _ ha => exact absurd ha hna
  | unregistered _ _ _ _ => rfl
  | healthy c _ _ _ hg _ => exact absurd hg (hc c)
  | next c _ _ _ hg _ => exact absurd hg (hc c)

theorem bsf_first_healthy (hsf : streamFromOf topo self ≠ "") (hns : streamFromOf topo self ≠ self)
    (hme : (cs.get? self).isSome) (hh : HealthyP reasonable cs (streamFromOf topo self)) :
    findBestStreamFrom reasonable self cs master topo = .host (streamFromOf topo self) := by
  have hstep := bsfLoop_step reasonable self cs master topo (topo.length + 1) [self]
  show bsfLoop reasonable self cs master topo (topo.length + 1 + 1) [self] = _
  generalize bsfLoop reasonable self cs master topo (topo.length + 1 + 1) [self] = res at hstep ⊢
  have hnm : streamFromOf topo self ∉ [self] := by simpa using hns
  cases hstep with
  | toMaster h => exact absurd h (not_or.mpr ⟨hsf, hnm⟩)
  | panicSelf _ _ _ hn => rw [hn] at hme; exact absurd hme (by decide)
  | already _ _ _ _ => rfl
  | unregistered _ _ _ hn =>
    have hn' : cs.get? (streamFromOf topo self) = none := hn
    obtain ⟨c, hc, _⟩ := hh; rw [hn'] at hc; cases hc
  | healthy c _ _ _ _ _ => rfl
  | next c _ _ _ hg hb => exact absurd hh (not_healthyP_of hg hb)

end loop

/-! ### `repairCascade` -/

/-- the actions emitted before the fresh read: lost-timer bookkeeping and `STOP SLAVE` -/
def preActs (sl : SlaveState) (i : In) : List Act :=
  (if !(sl.state == .running) && i.lostTimerZero then [Act.setLostTimer] else []) ++
  (if sl.state == .running then [Act.stopSlave] else [])

theorem preActs_def (sl : SlaveState) (i : In) : preActs sl i =
  (if !(sl.state == .running) && i.lostTimerZero then [Act.setLostTimer] else []) ++
  (if sl.state == .running then [Act.stopSlave] else []) := rfl

theorem mem_preActs {sl : SlaveState} {i : In} {x : Act} (h : x ∈ preActs sl i) :
    x = .setLostTimer ∨ x = .stopSlave := by
  unfold preActs at h
  rcases List.mem_append.mp h with h | h
  · split at h
    · exact Or.inl (List.mem_singleton.mp h)
    · cases h
  · split at h
    · exact Or.inr (List.mem_singleton.mp h)
    · cases h

theorem changeMaster_not_mem_preActs (sl : SlaveState) (i : In) (to : String) : Act.changeMaster to ∉ preActs sl i := by
  intro h; rcases mem_preActs h with h | h <;> cases h


set_option hygiene false in
local macro "nomove" : tactic => `(tactic| (subst hres; exact Or.inl fun to => by simp [hp to]))

theorem repairCascade_some (host : String) (st : NodeState) (cs : ClusterState) (i : In) (sl : SlaveState)
    (hs : st.slave = some sl) :
    (∀ to, Act.changeMaster to ∉ repairCascade host st cs i) ∨
    ∃ cand mine c ctext u post, i.candidate = .host cand ∧ cand ≠ host ∧ cand ≠ sl.masterHost ∧
      i.fresh = .gtid mine ∧ cs.get? cand = some c ∧
      (if c.isMaster then c.masterExecuted else c.slave.map (·.executed)) = some ctext ∧ i.uuid = some u ∧
      isSlaveAhead (parseD mine) (parseD ctext) = false ∧
      isSplitBrained (parseD mine) (parseD ctext) u = false ∧
      isSlaveBehindOrEqual (parseD mine) (parseD ctext) = true ∧
      (post = [] ∨ post = [.startSlave]) ∧
      repairCascade host st cs i = preActs sl i ++ [.readFresh, .readUuid] ++ .changeMaster cand :: post := by
  have hp := changeMaster_not_mem_preActs sl i
  generalize hres : repairCascade host st cs i = res
  unfold repairCascade at hres
  rw [hs] at hres
  simp only [← preActs_def] at hres
  split at hres
  · nomove
  · nomove
  · next cand hc =>
    split at hres
    · nomove
    · next h1 =>
      split at hres
      · split at hres <;> nomove
      · next h2 =>
        have hne : cand ≠ sl.masterHost := by
          intro e
          rw [e] at h1 h2
          cases hrun : (sl.state == ReplState.running) <;> simp [hrun] at h1 h2
        split at hres
        · nomove
        · split at hres
          · nomove
          · nomove
          · next mine hf =>
            split at hres
            · nomove
            · next c hg =>
              split at hres
              · nomove
              · next ctext hct =>
                split at hres
                · nomove
                · next u hu =>
                  split at hres
                  · nomove
                  · next ha =>
                    split at hres
                    · nomove
                    · next hsb =>
                      split at hres
                      · next hb =>
                        split at hres
                        · nomove
                        · next hhc =>
                          have hhc' : cand ≠ host := by
                            intro e; exact hhc (by rw [e]; exact beq_self_eq_true _)
                          split at hres
                          · subst hres
                            exact Or.inr ⟨cand, mine, c, ctext, u, [.startSlave], hc, hhc', hne, hf, hg, hct, hu,
                              by simpa using ha, by simpa using hsb, hb, Or.inr rfl, by simp⟩
                          · subst hres
                            exact Or.inr ⟨cand, mine, c, ctext, u, [], hc, hhc', hne, hf, hg, hct, hu,
                              by simpa using ha, by simpa using hsb, hb, Or.inl rfl, by simp⟩
                      · nomove

/-- the source used by the blind branch: a self-reference falls back to the recorded master -/
def blindSource (host : String) (i : In) : String :=
  if host == i.streamFrom then i.master else i.streamFrom

theorem repairCascade_none (host : String) (st : NodeState) (cs : ClusterState) (i : In) (hs : st.slave = none) :
    repairCascade host st cs i =
      if host == blindSource host i then [.panic "performChangeMaster: host == master"]
      else if i.changeBlindOk then [.changeMaster (blindSource host i), .startSlave]
      else [.changeMaster (blindSource host i)] := by
  unfold repairCascade blindSource
  rw [hs]

/-- shape of a guarded move -/
theorem mem_move_shape {sl : SlaveState} {i : In} {cand to : String} {post : List Act}
    (hpost : post = [] ∨ post = [.startSlave])
    (hmem : Act.changeMaster to ∈ preActs sl i ++ [.readFresh, .readUuid] ++ .changeMaster cand :: post) :
    to = cand := by
  have hp := changeMaster_not_mem_preActs sl i to
  rcases hpost with rfl | rfl <;> simpa [hp] using hmem

theorem writeEmerge_not_mem_move {sl : SlaveState} {i : In} {cand : String} {post : List Act}
    (hpost : post = [] ∨ post = [.startSlave]) :
    Act.writeEmerge ∉ preActs sl i ++ [.readFresh, .readUuid] ++ .changeMaster cand :: post := by
  have hp : Act.writeEmerge ∉ preActs sl i := by
    intro h; rcases mem_preActs h with h | h <;> cases h
  rcases hpost with rfl | rfl <;> simp [hp]

theorem rc_guarded_move (host : String) (st : NodeState) (cs : ClusterState) (i : In) (sl : SlaveState) (to : String)
    (hs : st.slave = some sl) (hmem : Act.changeMaster to ∈ repairCascade host st cs i) :
    to ≠ host ∧ i.candidate = .host to ∧ to ≠ sl.masterHost ∧
    ∃ mine c ctext u, i.fresh = .gtid mine ∧ cs.get? to = some c ∧
      ctext = (if c.isMaster then c.masterExecuted else c.slave.map (·.executed)) ∧ ctext.isSome ∧
      i.uuid = some u ∧
      isSlaveBehindOrEqual (parseD mine) (parseD (ctext.getD "")) = true ∧
      isSlaveAhead (parseD mine) (parseD (ctext.getD "")) = false ∧
      isSplitBrained (parseD mine) (parseD (ctext.getD "")) u = false := by
  rcases repairCascade_some host st cs i sl hs with h |
    ⟨cand, mine, c, ctext, u, post, hc, hch, hne, hf, hg, hct, hu, ha, hsb, hb, hpost, heq⟩
  · exact absurd hmem (h to)
  · rw [heq] at hmem
    have := mem_move_shape hpost hmem
    subst this
    exact ⟨hch, hc, hne, mine, c, some ctext, u, hf, hg, hct.symm, rfl, hu, hb, ha, hsb⟩

theorem rc_fresh_read_before_move (host : String) (st : NodeState) (cs : ClusterState) (i : In) (sl : SlaveState) (to : String)
    (hs : st.slave = some sl) (hmem : Act.changeMaster to ∈ repairCascade host st cs i) :
    ∃ pre post, repairCascade host st cs i = pre ++ Act.changeMaster to :: post ∧ Act.readFresh ∈ pre := by
  rcases repairCascade_some host st cs i sl hs with h |
    ⟨cand, mine, c, ctext, u, post, hc, hch, hne, hf, hg, hct, hu, ha, hsb, hb, hpost, heq⟩
  · exact absurd hmem (h to)
  · rw [heq] at hmem
    have := mem_move_shape hpost hmem
    subst this
    exact ⟨_, post, heq, List.mem_append_right _ (List.mem_cons_self ..)⟩

theorem rc_never_points_at_itself (host : String) (st : NodeState) (cs : ClusterState) (i : In) :
    Act.changeMaster host ∉ repairCascade host st cs i := by
  cases hs : st.slave with
  | none =>
    rw [repairCascade_none host st cs i hs]
    split
    · simp
    · next hne =>
      have : host ≠ blindSource host i := by simpa using hne
      split <;> simp [this]
  | some sl =>
    rcases repairCascade_some host st cs i sl hs with h |
      ⟨cand, mine, c, ctext, u, post, hc, hch, hne, hf, hg, hct, hu, ha, hsb, hb, hpost, heq⟩
    · exact h host
    · rw [heq]
      intro hmem
      exact hch (mem_move_shape hpost hmem).symm

theorem rc_splitbrain_emerge_no_move (host : String) (st : NodeState) (cs : ClusterState) (i : In)
    (h : Act.writeEmerge ∈ repairCascade host st cs i) : ∀ to, Act.changeMaster to ∉ repairCascade host st cs i := by
  cases hs : st.slave with
  | none =>
    rw [repairCascade_none host st cs i hs] at h
    exfalso
    split at h
    · simp at h
    · split at h <;> simp at h
  | some sl =>
    rcases repairCascade_some host st cs i sl hs with h' |
      ⟨cand, mine, c, ctext, u, post, hc, hch, hne, hf, hg, hct, hu, ha, hsb, hb, hpost, heq⟩
    · exact h'
    · rw [heq] at h
      exact absurd h (writeEmerge_not_mem_move hpost)

theorem rc_blind_self_reference (host : String) (st : NodeState) (cs : ClusterState) (i : In)
    (hs : st.slave = none) (hsf : i.streamFrom = host) (hm : i.master ≠ host) :
    (∀ site, Act.panic site ∉ repairCascade host st cs i) ∧
    (repairCascade host st cs i).head? = some (.changeMaster i.master) := by
  have hb : blindSource host i = i.master := by simp [blindSource, hsf]
  have hne : (host == i.master) = false := by
    simpa using fun e : host = i.master => hm e.symm
  rw [repairCascade_none host st cs i hs, hb, hne]
  cases i.changeBlindOk <;> simp

/-! ### HA counters -/

theorem filter_nonCascade_filter (cs : ClusterState) (p : String × NodeState → Bool)
    (hp : ∀ e, p e = true → e.2.isCascade = false) :
    (cs.filter fun e => !e.2.isCascade).filter p = cs.filter p := by
  rw [List.filter_filter]
  apply List.filter_congr
  intro e _
  cases hpe : p e
  · rfl
  · simp [hp e hpe]

theorem ha_cascade_not_counted (cs : ClusterState) (nodes : List String) :
    countHANodes cs = countHANodes (cs.filter fun e => !e.2.isCascade) ∧
    countRunningHASlaves cs = countRunningHASlaves (cs.filter fun e => !e.2.isCascade) ∧
    dubiousHAHosts cs = dubiousHAHosts (cs.filter fun e => !e.2.isCascade) ∧
    (∀ h, h ∈ nodes → (∃ s, cs.get? h = some s ∧ s.isCascade = true) →
      countAliveHASlavesWithin nodes cs = countAliveHASlavesWithin (nodes.filter (· != h)) cs) := by
  refine ⟨?_, ?_, ?_, ?_⟩
  · unfold countHANodes
    rw [filter_nonCascade_filter]
    rintro ⟨k, s⟩ h
    simpa using h
  · unfold countRunningHASlaves
    rw [filter_nonCascade_filter]
    rintro ⟨k, s⟩ h
    simp only [Bool.and_eq_true, Bool.not_eq_true'] at h
    exact h.1.2
  · unfold dubiousHAHosts
    rw [filter_nonCascade_filter]
    rintro ⟨k, s⟩ h
    simp only [Bool.and_eq_true, Bool.not_eq_true'] at h
    exact h.2
  · rintro h _ ⟨s, hg, hc⟩
    unfold countAliveHASlavesWithin
    rw [List.filter_filter]
    congr 2
    apply List.filter_congr
    intro x _
    by_cases hx : x = h
    · subst hx
      simp [hg, hc]
    · simp [hx]

end CascadeLemmas
