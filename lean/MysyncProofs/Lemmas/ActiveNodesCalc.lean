/-
Helper lemmas for C04, part 1: `calcActiveNodes` (sorted member list) and `calcActiveNodesChanges`
(download-lag gate).  No property statements here are final: MysyncProofs/C04.lean restates them.
-/
import MysyncModel.App.ActiveNodes

namespace ActiveNodesLemmas
open NS Gtid ActiveNodes

theorem mem_filterOut {x : String} {a b : List String} : x ∈ filterOut a b ↔ x ∈ a ∧ x ∉ b := by
  simp [filterOut]

theorem filterOut_nil (l : List String) : filterOut l [] = l := by
  simp [filterOut]

theorem get?_mem (cs : ClusterState) (h : String) (s : NodeState) (hg : cs.get? h = some s) : (h, s) ∈ cs := by
  induction cs with
  | nil => cases hg
  | cons a r ih =>
    obtain ⟨k, v⟩ := a
    unfold ClusterState.get? at hg
    split at hg
    · rename_i hk
      simp only [Option.some.injEq] at hg
      subst hk; subst hg
      exact List.mem_cons_self
    · exact List.mem_cons_of_mem _ (ih hg)

/-! #### `calcActiveNodes` -/

theorem mem_insertSortedStr (x y : String) (l : List String) :
    y ∈ insertSortedStr x l ↔ y = x ∨ y ∈ l := by
  induction l with
  | nil => simp [insertSortedStr]
  | cons a r ih =>
    unfold insertSortedStr
    split
    · simp
    · simp only [List.mem_cons, ih]; exact or_left_comm

theorem mem_sortStr (y : String) (l : List String) : y ∈ sortStr l ↔ y ∈ l := by
  induction l with
  | nil => simp [sortStr]
  | cons a r ih =>
    have : sortStr (a :: r) = insertSortedStr a (sortStr r) := rfl
    rw [this, mem_insertSortedStr, ih]; simp

/-- the returned list consists exactly of the visited hosts classified as members -/
theorem mem_calcActiveNodes (delay : Int) (i : CalcIn) (active : List String) (cls : List (String × Membership)) (t : Timers)
    (h : calcActiveNodes delay i = some (active, cls, t)) :
    ∀ x, x ∈ active ↔ ∃ n, (x, n) ∈ i.cs ∧ (classify delay i x n).1.isMember = true := by
  unfold calcActiveNodes at h
  split at h
  · simp only [Option.some.injEq, Prod.mk.injEq] at h
    obtain ⟨h1, -, -⟩ := h
    intro x
    rw [← h1, mem_sortStr]
    simp only [List.mem_map, List.mem_filter, Prod.exists]
    constructor
    · rintro ⟨a, m, o, ⟨⟨a', n, hmem, heq⟩, hm⟩, rfl⟩
      simp only [Prod.mk.injEq] at heq
      obtain ⟨rfl, hc⟩ := heq
      refine ⟨n, hmem, ?_⟩
      rw [hc]; exact hm
    · rintro ⟨n, hmem, hm⟩
      exact ⟨x, (classify delay i x n).1, (classify delay i x n).2, ⟨⟨x, n, hmem, rfl⟩, hm⟩, rfl⟩
  · simp at h

/-! #### `calcActiveNodesChanges` -/

/-- hosts with the semi-sync replica flag on in the snapshot (`syncReplicas` of `calcChanges`) -/
def syncReplicas (cs : ClusterState) : List String :=
  (cs.filter fun (_, s) => match s.semiSync with | some ss => ss.slaveEnabled | none => false).map (·.1)

def deadHosts (cs : ClusterState) : List String :=
  (cs.filter fun (_, s) => !s.pingOk || s.slave.isNone).map (·.1)

/-- the candidate list `becomeActive` before the download-lag gate -/
def candidates (cs : ClusterState) (active oldActive : List String) (master : String) : List String :=
  let ba0 := filterOut (filterOut active (syncReplicas cs)) (deadHosts cs)
  if oldActive == [master] && ba0.isEmpty then active.filter (· != master) else ba0

/-- loop body of the download-lag gate -/
def lagStep (cfg : Cfg) (cs : ClusterState) (bl : List (String × Int)) (readPos : List (String × String))
    (acc : List String × List String) (h : String) : List String × List String :=
  match (cs.get? h).bind (·.slave) with
  | none => acc
  | some sl =>
    let lag := calcLagBytes bl sl.logFile sl.logPos
    if lag > cfg.semiSyncEnableLag then
      let newPos := posKey sl.logFile sl.logPos
      let oldPos := (readPos.lookup h).getD ""
      if newPos ≤ oldPos then (acc.1 ++ [h], acc.2) else (acc.1, acc.2 ++ [h])
    else acc

theorem calcChanges_eq (cfg : Cfg) (cs : ClusterState) (active old : List String) (master : String)
    (binlogs : Option (List (String × Int))) (rp : List (String × String)) :
    calcChanges cfg cs active old master binlogs rp =
      let ba1 := candidates cs active old master
      let bi0 := filterOut (syncReplicas cs) active
      if ba1.isEmpty then some ⟨ba1, bi0, []⟩
      else match binlogs with
        | none => none
        | some bl =>
          let r := ba1.foldl (lagStep cfg cs bl rp) ([], [])
          some ⟨filterOut (filterOut ba1 r.2) (bi0 ++ r.1), bi0 ++ r.1, r.2⟩ := rfl

theorem lagStep_mono (cfg : Cfg) (cs : ClusterState) (bl : List (String × Int)) (rp : List (String × String))
    (acc : List String × List String) (h x : String) (hx : x ∈ acc.1 ∨ x ∈ acc.2) :
    x ∈ (lagStep cfg cs bl rp acc h).1 ∨ x ∈ (lagStep cfg cs bl rp acc h).2 := by
  unfold lagStep
  split
  · exact hx
  · dsimp only
    split
    · split <;> (simp only [List.mem_append]; rcases hx with hx | hx <;> simp [hx])
    · exact hx

theorem foldl_lagStep_mono (cfg : Cfg) (cs : ClusterState) (bl : List (String × Int)) (rp : List (String × String))
    (l : List String) (acc : List String × List String) (x : String) (hx : x ∈ acc.1 ∨ x ∈ acc.2) :
    x ∈ (l.foldl (lagStep cfg cs bl rp) acc).1 ∨ x ∈ (l.foldl (lagStep cfg cs bl rp) acc).2 := by
  induction l generalizing acc with
  | nil => exact hx
  | cons a r ih => exact ih _ (lagStep_mono cfg cs bl rp acc a x hx)

theorem lagStep_catches (cfg : Cfg) (cs : ClusterState) (bl : List (String × Int)) (rp : List (String × String))
    (acc : List String × List String) (h : String) (sl : SlaveState)
    (hsl : (cs.get? h).bind (·.slave) = some sl)
    (hlag : calcLagBytes bl sl.logFile sl.logPos > cfg.semiSyncEnableLag) :
    h ∈ (lagStep cfg cs bl rp acc h).1 ∨ h ∈ (lagStep cfg cs bl rp acc h).2 := by
  unfold lagStep
  rw [hsl]
  dsimp only
  rw [if_pos hlag]
  split <;> simp

/-- fold invariant of the download-lag gate: a lagging candidate ends up in one of the accumulators -/
theorem foldl_lagStep_catches (cfg : Cfg) (cs : ClusterState) (bl : List (String × Int)) (rp : List (String × String))
    (l : List String) (acc : List String × List String) (h : String) (sl : SlaveState) (hl : h ∈ l)
    (hsl : (cs.get? h).bind (·.slave) = some sl)
    (hlag : calcLagBytes bl sl.logFile sl.logPos > cfg.semiSyncEnableLag) :
    h ∈ (l.foldl (lagStep cfg cs bl rp) acc).1 ∨ h ∈ (l.foldl (lagStep cfg cs bl rp) acc).2 := by
  induction l generalizing acc with
  | nil => cases hl
  | cons a r ih =>
    by_cases ha : h = a
    · subst ha
      exact foldl_lagStep_mono cfg cs bl rp r _ h (lagStep_catches cfg cs bl rp acc h sl hsl hlag)
    · exact ih _ (by simpa [ha] using hl)

theorem calcChanges_becomeActive_lag (cfg : Cfg) (cs : ClusterState) (active old : List String) (master : String)
    (bl : List (String × Int)) (rp : List (String × String)) (ch : Changes) (h : String)
    (hc : calcChanges cfg cs active old master (some bl) rp = some ch) (hm : h ∈ ch.becomeActive) :
    ∀ sl, (cs.get? h).bind (·.slave) = some sl → calcLagBytes bl sl.logFile sl.logPos ≤ cfg.semiSyncEnableLag := by
  intro sl hsl
  rw [calcChanges_eq] at hc
  dsimp only at hc
  split at hc
  · rename_i he
    simp only [Option.some.injEq] at hc
    subst hc
    simp only [List.isEmpty_iff] at he
    simp [he] at hm
  · simp only [Option.some.injEq] at hc
    subst hc
    simp only [mem_filterOut, List.mem_append, not_or] at hm
    obtain ⟨⟨h1, h2⟩, -, h3⟩ := hm
    apply Int.not_lt.mp
    intro hlag
    rcases foldl_lagStep_catches cfg cs bl rp _ ([], []) h sl h1 hsl hlag with h4 | h4
    · exact h3 h4
    · exact h2 h4

theorem calcChanges_disjoint (cfg : Cfg) (cs : ClusterState) (active old : List String) (master : String)
    (bl : Option (List (String × Int))) (rp : List (String × String)) (ch : Changes)
    (hc : calcChanges cfg cs active old master bl rp = some ch) :
    (∀ h, h ∈ ch.dataLag → h ∉ ch.becomeActive) ∧ (∀ h, h ∈ ch.becomeActive → h ∉ ch.becomeInactive) := by
  rw [calcChanges_eq] at hc
  dsimp only at hc
  split at hc
  · rename_i he
    simp only [Option.some.injEq] at hc
    subst hc
    simp only [List.isEmpty_iff] at he
    simp [he]
  · split at hc
    · cases hc
    · simp only [Option.some.injEq] at hc
      subst hc
      simp only [mem_filterOut]
      constructor
      · intro h h1 h2; exact h2.1.2 h1
      · intro h h1; exact h1.2

end ActiveNodesLemmas
