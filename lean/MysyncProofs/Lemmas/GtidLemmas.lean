/-
Helper lemmas for C13 (and re-used by C01/C11/C14/C16): interval lists, GTID sets, the maximal
element scan.  Statements are fixed by MysyncProofs/C13.lean; proofs below.
-/
import MysyncModel.Gtid
import MysyncModel.Select

namespace GtidLemmas
open Gtid Select

/-- `s ⊆ m` as sets of transactions -/
def GSubset (s m : GtidSet) : Prop := ∀ k x, s.Mem k x → m.Mem k x

theorem GSubset.refl (s : GtidSet) : GSubset s s := fun _ _ h => h
theorem GSubset.trans {a b c : GtidSet} (h1 : GSubset a b) (h2 : GSubset b c) : GSubset a c :=
  fun k x h => h2 k x (h1 k x h)

theorem ivContain_iff (s sub : IvList) (hs : Normal s) (hsub : Normal sub) :
    ivContain s sub = true ↔ ∀ x, IvList.Mem x sub → IvList.Mem x s := by
  sorry

theorem contain_iff (m s : GtidSet) (hm : WF m) (hs : WF s) :
    contain m s = true ↔ GSubset s m := by
  sorry

theorem equal_imp (m s : GtidSet) (hm : WF m) (hs : WF s) (h : equal m s = true) :
    GSubset s m ∧ GSubset m s := by
  sorry

/-- for well-formed sets structural `Equal` is the same as denoting the same set of transactions
(uniqueness of the normal form of an interval list) -/
theorem equal_iff (m s : GtidSet) (hm : WF m) (hs : WF s) :
    equal m s = true ↔ (GSubset s m ∧ GSubset m s) := by
  sorry

theorem ivMinus_spec (a b : IvList) (ha : Normal a) (hb : Normal b) :
    Normal (ivMinus a b) ∧ ∀ x, IvList.Mem x (ivMinus a b) ↔ (IvList.Mem x a ∧ ¬ IvList.Mem x b) := by
  sorry

theorem gtidMinus_spec (a b : GtidSet) (ha : WF a) (hb : WF b) :
    WF (gtidMinus a b) ∧ ∀ k x, (gtidMinus a b).Mem k x ↔ (a.Mem k x ∧ ¬ b.Mem k x) := by
  sorry

theorem gtidDiff_classifies (replica source : GtidSet) (hr : WF replica) (hs : WF source) :
    let (c, dSrc, dRep) := gtidDiff replica source
    (∀ k x, dSrc.Mem k x ↔ (source.Mem k x ∧ ¬ replica.Mem k x)) ∧
    (∀ k x, dRep.Mem k x ↔ (replica.Mem k x ∧ ¬ source.Mem k x)) ∧
    (c = .equal ↔ (GSubset source replica ∧ GSubset replica source)) ∧
    (c = .sourceAhead ↔ (¬ GSubset source replica ∧ GSubset replica source)) ∧
    (c = .replicaAhead ↔ (GSubset source replica ∧ ¬ GSubset replica source)) ∧
    (c = .splitBrain ↔ (¬ GSubset source replica ∧ ¬ GSubset replica source)) := by
  sorry

theorem splitbrain_sound (slave master : GtidSet) (u : String) (hm : WF master) (hs : WF slave)
    (h : GSubset slave master) : isSplitBrained slave master u = false := by
  sorry

theorem splitbrain_complete (slave master : GtidSet) (u : String) (hm : WF master) (hs : WF slave)
    (h : ∃ k x, slave.Mem k x ∧ ¬ master.Mem k x ∧ k.sid ≠ u) : isSplitBrained slave master u = true := by
  sorry

theorem mostRecent_spec (ps : List Pos) (hne : ps ≠ []) (hwf : ∀ p ∈ ps, WF p.gtid) :
    match findMostRecent ps with
    | .panic => False
    | .node m => m ∈ ps ∧ ∀ p ∈ ps, GSubset p.gtid m.gtid
    | .splitBrain => ¬ ∃ m ∈ ps, ∀ p ∈ ps, GSubset p.gtid m.gtid := by
  sorry

end GtidLemmas
