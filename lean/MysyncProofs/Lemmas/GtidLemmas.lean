/-
Helper lemmas for C13 (and re-used by C01/C11/C14/C16): interval lists, GTID sets, the maximal
element scan.  Statements are fixed by MysyncProofs/C13.lean; proofs below.
-/
import MysyncModel.Gtid
import MysyncModel.Select
import MysyncProofs.Lemmas.IvLemmas

namespace GtidLemmas
open Gtid Select

/-- `s ⊆ m` as sets of transactions -/
def GSubset (s m : GtidSet) : Prop := ∀ k x, s.Mem k x → m.Mem k x

theorem GSubset.refl (s : GtidSet) : GSubset s s := fun _ _ h => h
theorem GSubset.trans {a b c : GtidSet} (h1 : GSubset a b) (h2 : GSubset b c) : GSubset a c :=
  fun k x h => h2 k x (h1 k x h)


/-! ### helpers: association-list look-up -/

theorem iv_beq_iff (a b : Interval) : (a == b) = true ↔ a = b := by
  cases a; cases b
  simp [BEq.beq, instBEqInterval.beq]

theorem ivlist_beq_iff (a b : IvList) : (a == b) = true ↔ a = b := by
  induction a generalizing b with
  | nil => cases b <;> simp
  | cons i r ih =>
    cases b with
    | nil => simp
    | cons j r' => simp only [List.cons_beq_cons, Bool.and_eq_true, iv_beq_iff, ih, List.cons.injEq]

theorem lookup_nil (k : Key) : lookup [] k = none := rfl

theorem lookup_cons (k' k : Key) (l : IvList) (r : GtidSet) :
    lookup ((k', l) :: r) k = if k' = k then some l else lookup r k := rfl

theorem mem_of_lookup {s : GtidSet} {k : Key} {l : IvList} (h : lookup s k = some l) : (k, l) ∈ s := by
  induction s with
  | nil => cases h
  | cons e r ih =>
    obtain ⟨k', l'⟩ := e
    rw [lookup_cons] at h
    split at h
    · cases h; subst_vars; exact List.mem_cons_self ..
    · exact List.mem_cons_of_mem _ (ih h)

theorem lookup_of_mem {s : GtidSet} (hn : (keys s).Nodup) {k : Key} {l : IvList} (h : (k, l) ∈ s) :
    lookup s k = some l := by
  induction s with
  | nil => cases h
  | cons e r ih =>
    obtain ⟨k', l'⟩ := e
    rw [lookup_cons]
    have hn' : k' ∉ keys r ∧ (keys r).Nodup := by
      simpa [keys] using hn
    rcases List.mem_cons.mp h with h | h
    · cases h; rw [if_pos rfl]
    · have hne : k' ≠ k := by
        rintro rfl
        exact hn'.1 (List.mem_map.mpr ⟨(k', l), h, rfl⟩)
      rw [if_neg hne]
      exact ih hn'.2 h

theorem lookup_isSome_of_key {s : GtidSet} {k : Key} (h : k ∈ keys s) : ∃ l, lookup s k = some l := by
  induction s with
  | nil => cases h
  | cons e r ih =>
    obtain ⟨k', l'⟩ := e
    rw [lookup_cons]
    by_cases hk : k' = k
    · exact ⟨l', by rw [if_pos hk]⟩
    · rw [if_neg hk]
      apply ih
      have : k = k' ∨ k ∈ keys r := by simpa [keys] using h
      rcases this with rfl | h
      · exact absurd rfl hk
      · exact h

theorem key_of_lookup {s : GtidSet} {k : Key} {l : IvList} (h : lookup s k = some l) : k ∈ keys s :=
  List.mem_map.mpr ⟨(k, l), mem_of_lookup h, rfl⟩

/-- an entry of a well-formed set has a member -/
theorem wf_entry_mem {s : GtidSet} (hs : WF s) {k : Key} {l : IvList} (h : (k, l) ∈ s) :
    ∃ x, s.Mem k x := by
  obtain ⟨hN, hne⟩ := hs.2 k l h
  obtain ⟨x, hx⟩ := hN.exists_mem hne
  exact ⟨x, l, lookup_of_mem hs.1 h, hx⟩

theorem wf_normal_of_lookup {s : GtidSet} (hs : WF s) {k : Key} {l : IvList} (h : lookup s k = some l) :
    Normal l := (hs.2 k l (mem_of_lookup h)).1

/-- a well-formed set without members has no entries -/
theorem wf_eq_nil_of_no_mem {s : GtidSet} (hs : WF s) (h : ∀ k x, ¬ s.Mem k x) : s = [] := by
  cases s with
  | nil => rfl
  | cons e r =>
    obtain ⟨k, l⟩ := e
    obtain ⟨x, hx⟩ := wf_entry_mem hs (List.mem_cons_self ..)
    exact absurd hx (h k x)

theorem not_mem_nil (k : Key) (x : Int) : ¬ GtidSet.Mem [] k x := by
  rintro ⟨l, hl, _⟩; cases hl

/-! ### helpers: counting on duplicate-free lists -/

theorem nodup_subset_length {α : Type} [DecidableEq α] (l1 : List α) :
    ∀ l2 : List α, l1.Nodup → l1 ⊆ l2 →
      l1.length ≤ l2.length ∧ (l2.length ≤ l1.length → l2 ⊆ l1) := by
  induction l1 with
  | nil =>
    intro l2 _ _
    refine ⟨Nat.zero_le _, fun h => ?_⟩
    have : l2 = [] := List.eq_nil_of_length_eq_zero (Nat.le_zero.mp h)
    subst this; exact List.Subset.refl _
  | cons a t ih =>
    intro l2 hn hsub
    have hn' : a ∉ t ∧ t.Nodup := List.nodup_cons.mp hn
    have ha : a ∈ l2 := hsub (List.mem_cons_self ..)
    have hsub' : t ⊆ l2.erase a := by
      intro x hx
      have hne : x ≠ a := by rintro rfl; exact hn'.1 hx
      exact (List.mem_erase_of_ne hne).mpr (hsub (List.mem_cons_of_mem _ hx))
    have hlen : (l2.erase a).length = l2.length - 1 := List.length_erase_of_mem ha
    have hpos : 0 < l2.length := List.length_pos_of_mem ha
    obtain ⟨h1, h2⟩ := ih (l2.erase a) hn'.2 hsub'
    refine ⟨by simp only [List.length_cons]; omega, fun hle => ?_⟩
    intro x hx
    by_cases hxa : x = a
    · subst hxa; exact List.mem_cons_self ..
    · have : x ∈ l2.erase a := (List.mem_erase_of_ne hxa).mpr hx
      exact List.mem_cons_of_mem _ (h2 (by simp only [List.length_cons] at hle; omega) this)

theorem ivContain_iff (s sub : IvList) (hs : Normal s) (hsub : Normal sub) :
    ivContain s sub = true ↔ ∀ x, IvList.Mem x sub → IvList.Mem x s :=
  ivContain_iff' s sub hs hsub

theorem contain_iff (m s : GtidSet) (hm : WF m) (hs : WF s) :
    contain m s = true ↔ GSubset s m := by
  unfold contain
  rw [List.all_eq_true]
  constructor
  · intro h k x ⟨l, hl, hx⟩
    have := h (k, l) (mem_of_lookup hl)
    simp only at this
    split at this
    · cases this
    · rename_i sl hsl
      exact ⟨sl, hsl, (ivContain_iff sl l (wf_normal_of_lookup hm hsl) (wf_normal_of_lookup hs hl)).mp this x hx⟩
  · intro h e he
    obtain ⟨k, ol⟩ := e
    simp only
    have hl := lookup_of_mem hs.1 he
    obtain ⟨x, hx⟩ := wf_entry_mem hs he
    obtain ⟨sl, hsl, _⟩ := h k x hx
    rw [hsl]
    simp only
    apply (ivContain_iff sl ol (wf_normal_of_lookup hm hsl) (wf_normal_of_lookup hs hl)).mpr
    intro y hy
    obtain ⟨sl', hsl', hy'⟩ := h k y ⟨ol, hl, hy⟩
    rw [hsl] at hsl'; cases hsl'
    exact hy'

/-- what structural `Equal` says: same number of entries, and every entry of `m` is an entry of `s` -/
theorem equal_unfold (m s : GtidSet) :
    equal m s = true ↔ (m.length = s.length ∧ ∀ k l, (k, l) ∈ m → lookup s k = some l) := by
  unfold equal
  rw [Bool.and_eq_true, List.all_eq_true, beq_iff_eq]
  constructor
  · rintro ⟨h1, h2⟩
    refine ⟨h1, fun k l hkl => ?_⟩
    have := h2 (k, l) hkl
    simp only at this
    split at this
    · cases this
    · rename_i ol hol
      rw [hol, (ivlist_beq_iff l ol).mp this]
  · rintro ⟨h1, h2⟩
    refine ⟨h1, fun e he => ?_⟩
    obtain ⟨k, l⟩ := e
    simp only
    rw [h2 k l he]
    exact (ivlist_beq_iff l l).mpr rfl

/-- `Equal` on well-formed sets: the entries coincide in both directions -/
theorem equal_entries (m s : GtidSet) (hm : WF m) (h : equal m s = true) :
    ∀ k l, lookup m k = some l ↔ lookup s k = some l := by
  obtain ⟨hlen, hent⟩ := (equal_unfold m s).mp h
  have hsub : keys m ⊆ keys s := by
    intro k hk
    obtain ⟨l, hl⟩ := lookup_isSome_of_key hk
    exact key_of_lookup (hent k l (mem_of_lookup hl))
  have hback : keys s ⊆ keys m :=
    (nodup_subset_length (keys m) (keys s) hm.1 hsub).2 (by simp [keys, hlen])
  intro k l
  constructor
  · intro hl; exact hent k l (mem_of_lookup hl)
  · intro hl
    obtain ⟨l', hl'⟩ := lookup_isSome_of_key (hback (key_of_lookup hl))
    have := hent k l' (mem_of_lookup hl')
    rw [hl] at this; cases this
    exact hl'

theorem equal_imp (m s : GtidSet) (hm : WF m) (hs : WF s) (h : equal m s = true) :
    GSubset s m ∧ GSubset m s := by
  have _ := hs  -- only `m`'s key uniqueness is needed
  have he := equal_entries m s hm h
  constructor
  · intro k x ⟨l, hl, hx⟩; exact ⟨l, (he k l).mpr hl, hx⟩
  · intro k x ⟨l, hl, hx⟩; exact ⟨l, (he k l).mp hl, hx⟩

theorem keys_subset_of_gsubset {s m : GtidSet} (hs : WF s) (h : GSubset s m) : keys s ⊆ keys m := by
  intro k hk
  obtain ⟨l, hl⟩ := lookup_isSome_of_key hk
  obtain ⟨x, hx⟩ := wf_entry_mem hs (mem_of_lookup hl)
  obtain ⟨l', hl', _⟩ := h k x hx
  exact key_of_lookup hl'

/-- for well-formed sets structural `Equal` is the same as denoting the same set of transactions
(uniqueness of the normal form of an interval list) -/
theorem equal_iff (m s : GtidSet) (hm : WF m) (hs : WF s) :
    equal m s = true ↔ (GSubset s m ∧ GSubset m s) := by
  constructor
  · exact equal_imp m s hm hs
  · rintro ⟨hsm, hms⟩
    apply (equal_unfold m s).mpr
    have k1 := keys_subset_of_gsubset hs hsm
    have k2 := keys_subset_of_gsubset hm hms
    have l1 := (nodup_subset_length (keys s) (keys m) hs.1 k1).1
    have l2 := (nodup_subset_length (keys m) (keys s) hm.1 k2).1
    refine ⟨by simp only [keys, List.length_map] at l1 l2; omega, fun k l hkl => ?_⟩
    have hl := lookup_of_mem hm.1 hkl
    obtain ⟨ol, hol⟩ := lookup_isSome_of_key (k2 (key_of_lookup hl))
    rw [hol]
    congr 1
    apply normal_unique ol l (wf_normal_of_lookup hs hol) (wf_normal_of_lookup hm hl)
    intro x
    constructor
    · intro hx
      obtain ⟨l', hl', hx'⟩ := hsm k x ⟨ol, hol, hx⟩
      rw [hl] at hl'; cases hl'; exact hx'
    · intro hx
      obtain ⟨l', hl', hx'⟩ := hms k x ⟨l, hl, hx⟩
      rw [hol] at hl'; cases hl'; exact hx'

theorem ivMinus_spec (a b : IvList) (ha : Normal a) (hb : Normal b) :
    Normal (ivMinus a b) ∧ ∀ x, IvList.Mem x (ivMinus a b) ↔ (IvList.Mem x a ∧ ¬ IvList.Mem x b) :=
  ivMinus_spec' a b ha hb

/-- the per-key difference computed by `mysqlGTIDSetMinus` -/
def diffAt (b : GtidSet) (k : Key) (al : IvList) : IvList :=
  match lookup b k with
  | none => al
  | some bl => ivMinus al bl

theorem gtidMinus_eq (a b : GtidSet) :
    gtidMinus a b = a.filterMap fun e =>
      if (diffAt b e.1 e.2).isEmpty then none else some (e.1, diffAt b e.1 e.2) := rfl

theorem diffAt_spec (a b : GtidSet) (ha : WF a) (hb : WF b) {k : Key} {al : IvList}
    (hal : lookup a k = some al) :
    Normal (diffAt b k al) ∧ ∀ x, IvList.Mem x (diffAt b k al) ↔ (a.Mem k x ∧ ¬ b.Mem k x) := by
  have hN := wf_normal_of_lookup ha hal
  have hamem : ∀ x, a.Mem k x ↔ IvList.Mem x al := by
    intro x
    constructor
    · rintro ⟨l, hl, hx⟩; rw [hal] at hl; cases hl; exact hx
    · intro hx; exact ⟨al, hal, hx⟩
  unfold diffAt
  split
  · rename_i hnone
    refine ⟨hN, fun x => ?_⟩
    rw [hamem]
    constructor
    · intro hx
      refine ⟨hx, ?_⟩
      rintro ⟨l, hl, _⟩; rw [hnone] at hl; cases hl
    · exact fun h => h.1
  · rename_i bl hbl
    obtain ⟨h1, h2⟩ := ivMinus_spec al bl hN (wf_normal_of_lookup hb hbl)
    refine ⟨h1, fun x => ?_⟩
    rw [h2, hamem]
    have hbmem : b.Mem k x ↔ IvList.Mem x bl := by
      constructor
      · rintro ⟨l, hl, hx⟩; rw [hbl] at hl; cases hl; exact hx
      · intro hx; exact ⟨bl, hbl, hx⟩
    rw [hbmem]

theorem gtidMinus_keys_sublist (a b : GtidSet) : (keys (gtidMinus a b)).Sublist (keys a) := by
  rw [gtidMinus_eq]
  induction a with
  | nil => exact List.Sublist.refl _
  | cons e r ih =>
    rw [List.filterMap_cons]
    split
    · exact List.Sublist.cons _ ih
    · rename_i e' he'
      split at he'
      · cases he'
      · cases he'
        exact List.Sublist.cons_cons _ ih

theorem mem_gtidMinus (a b : GtidSet) (k : Key) (l : IvList) :
    (k, l) ∈ gtidMinus a b ↔ ∃ al, (k, al) ∈ a ∧ l = diffAt b k al ∧ l ≠ [] := by
  rw [gtidMinus_eq, List.mem_filterMap]
  constructor
  · rintro ⟨⟨k', al⟩, he, hf⟩
    simp only at hf
    split at hf
    · cases hf
    · rename_i hne
      cases hf
      refine ⟨al, he, rfl, ?_⟩
      intro h; rw [h] at hne; exact hne rfl
  · rintro ⟨al, he, rfl, hne⟩
    refine ⟨(k, al), he, ?_⟩
    simp only
    rw [if_neg]
    intro h
    exact hne (List.isEmpty_iff.mp h)

theorem gtidMinus_spec (a b : GtidSet) (ha : WF a) (hb : WF b) :
    WF (gtidMinus a b) ∧ ∀ k x, (gtidMinus a b).Mem k x ↔ (a.Mem k x ∧ ¬ b.Mem k x) := by
  have hnd : (keys (gtidMinus a b)).Nodup := (gtidMinus_keys_sublist a b).nodup ha.1
  refine ⟨⟨hnd, ?_⟩, ?_⟩
  · intro k l hkl
    obtain ⟨al, he, rfl, hne⟩ := (mem_gtidMinus a b k l).mp hkl
    exact ⟨(diffAt_spec a b ha hb (lookup_of_mem ha.1 he)).1, hne⟩
  · intro k x
    constructor
    · rintro ⟨l, hl, hx⟩
      obtain ⟨al, he, rfl, _⟩ := (mem_gtidMinus a b k l).mp (mem_of_lookup hl)
      exact ((diffAt_spec a b ha hb (lookup_of_mem ha.1 he)).2 x).mp hx
    · rintro ⟨⟨al, hal, hxa⟩, hnb⟩
      have hx := ((diffAt_spec a b ha hb hal).2 x).mpr ⟨⟨al, hal, hxa⟩, hnb⟩
      refine ⟨diffAt b k al, lookup_of_mem hnd ?_, hx⟩
      apply (mem_gtidMinus a b k _).mpr
      refine ⟨al, mem_of_lookup hal, rfl, ?_⟩
      intro h; rw [h] at hx; exact (mem_nil x).mp hx

/-- the difference has no entry exactly when the minuend is a subset of the subtrahend -/
theorem gtidMinus_isEmpty_iff (a b : GtidSet) (ha : WF a) (hb : WF b) :
    (gtidMinus a b).isEmpty = true ↔ GSubset a b := by
  obtain ⟨hwf, hmem⟩ := gtidMinus_spec a b ha hb
  rw [List.isEmpty_iff]
  constructor
  · intro h k x hx
    apply Classical.byContradiction
    intro hnb
    have := (hmem k x).mpr ⟨hx, hnb⟩
    rw [h] at this
    exact not_mem_nil k x this
  · intro h
    apply wf_eq_nil_of_no_mem hwf
    intro k x hx
    have := (hmem k x).mp hx
    exact this.2 (h k x this.1)

theorem gtidDiff_classifies (replica source : GtidSet) (hr : WF replica) (hs : WF source) :
    let (c, dSrc, dRep) := gtidDiff replica source
    (∀ k x, dSrc.Mem k x ↔ (source.Mem k x ∧ ¬ replica.Mem k x)) ∧
    (∀ k x, dRep.Mem k x ↔ (replica.Mem k x ∧ ¬ source.Mem k x)) ∧
    (c = .equal ↔ (GSubset source replica ∧ GSubset replica source)) ∧
    (c = .sourceAhead ↔ (¬ GSubset source replica ∧ GSubset replica source)) ∧
    (c = .replicaAhead ↔ (GSubset source replica ∧ ¬ GSubset replica source)) ∧
    (c = .splitBrain ↔ (¬ GSubset source replica ∧ ¬ GSubset replica source)) := by
  have e1 := gtidMinus_isEmpty_iff source replica hs hr
  have e2 := gtidMinus_isEmpty_iff replica source hr hs
  show (∀ k x, (gtidMinus source replica).Mem k x ↔ _) ∧ (∀ k x, (gtidMinus replica source).Mem k x ↔ _) ∧ _
  refine ⟨(gtidMinus_spec source replica hs hr).2, (gtidMinus_spec replica source hr hs).2, ?_⟩
  rw [← e1, ← e2]
  cases (gtidMinus source replica).isEmpty <;> cases (gtidMinus replica source).isEmpty <;> simp

theorem splitbrain_sound (slave master : GtidSet) (u : String) (hm : WF master) (hs : WF slave)
    (h : GSubset slave master) : isSplitBrained slave master u = false := by
  have hc := (contain_iff master slave hm hs).mpr h
  unfold contain at hc
  rw [List.all_eq_true] at hc
  unfold isSplitBrained
  rw [List.any_eq_false]
  intro e he
  have := hc e he
  obtain ⟨k, sl⟩ := e
  simp only at this ⊢
  split at this
  · cases this
  · rename_i ml hml
    simp only [this, if_true]
    exact Bool.false_ne_true

theorem splitbrain_complete (slave master : GtidSet) (u : String) (hm : WF master) (hs : WF slave)
    (h : ∃ k x, slave.Mem k x ∧ ¬ master.Mem k x ∧ k.sid ≠ u) : isSplitBrained slave master u = true := by
  obtain ⟨k, x, ⟨sl, hsl, hx⟩, hnm, hku⟩ := h
  unfold isSplitBrained
  rw [List.any_eq_true]
  refine ⟨(k, sl), mem_of_lookup hsl, ?_⟩
  simp only
  split
  · rfl
  · rename_i ml hml
    have hnc : ivContain ml sl ≠ true := by
      intro hc
      exact hnm ⟨ml, hml, (ivContain_iff ml sl (wf_normal_of_lookup hm hml) (wf_normal_of_lookup hs hsl)).mp hc x hx⟩
    rw [if_neg hnc, if_neg hku]

/-! ### the scan for the most recent node -/

theorem pickBetter_cases (c q : Pos) : pickBetter c q = c ∨ pickBetter c q = q := by
  unfold pickBetter
  split
  · split
    · exact Or.inr rfl
    · exact Or.inl rfl
  · split
    · exact Or.inr rfl
    · exact Or.inl rfl

theorem scan_mem (c : Pos) (rest : List Pos) : scanMostRecent c rest ∈ c :: rest := by
  unfold scanMostRecent
  induction rest generalizing c with
  | nil => exact List.mem_cons_self ..
  | cons q t ih =>
    rw [List.foldl_cons]
    have := ih (pickBetter c q)
    rcases pickBetter_cases c q with h | h <;> rw [h] at this ⊢
    · rcases List.mem_cons.mp this with h' | h'
      · rw [h']; exact List.mem_cons_self ..
      · exact List.mem_cons_of_mem _ (List.mem_cons_of_mem _ h')
    · exact List.mem_cons_of_mem _ this

/-- fold invariant: if `M` contains every node still in play and the running maximum already
contains `M` (or `M` is still to come), then the final maximum contains `M` -/
theorem scan_max (M : Pos) (c : Pos) (rest : List Pos)
    (hwf : ∀ p ∈ c :: rest, WF p.gtid) (hsub : ∀ p ∈ c :: rest, GSubset p.gtid M.gtid)
    (h : GSubset M.gtid c.gtid ∨ M ∈ rest) : GSubset M.gtid (scanMostRecent c rest).gtid := by
  unfold scanMostRecent
  induction rest generalizing c with
  | nil =>
    rcases h with h | h
    · exact h
    · cases h
  | cons q t ih =>
    rw [List.foldl_cons]
    have hc := hwf c (List.mem_cons_self ..)
    have hq := hwf q (List.mem_cons_of_mem _ (List.mem_cons_self ..))
    have hcM := hsub c (List.mem_cons_self ..)
    have hqM := hsub q (List.mem_cons_of_mem _ (List.mem_cons_self ..))
    apply ih
    · intro p hp
      rcases List.mem_cons.mp hp with rfl | hp
      · rcases pickBetter_cases c q with h' | h' <;> rw [h'] <;> assumption
      · exact hwf p (List.mem_cons_of_mem _ (List.mem_cons_of_mem _ hp))
    · intro p hp
      rcases List.mem_cons.mp hp with rfl | hp
      · rcases pickBetter_cases c q with h' | h' <;> rw [h'] <;> assumption
      · exact hsub p (List.mem_cons_of_mem _ (List.mem_cons_of_mem _ hp))
    · -- the new running maximum still contains `M`, or `M` is further down
      have key : GSubset M.gtid c.gtid ∨ M = q → GSubset M.gtid (pickBetter c q).gtid := by
        intro h0
        unfold pickBetter
        split
        · rename_i heq
          have := equal_imp q.gtid c.gtid hq hc heq
          split
          · rcases h0 with h0 | h0
            · exact GSubset.trans h0 this.1
            · rw [h0]; exact GSubset.refl _
          · rcases h0 with h0 | h0
            · exact h0
            · rw [h0]; exact this.2
        · split
          · rename_i hcont
            have := (contain_iff q.gtid c.gtid hq hc).mp hcont
            rcases h0 with h0 | h0
            · exact GSubset.trans h0 this
            · rw [h0]; exact GSubset.refl _
          · rename_i hcont
            rcases h0 with h0 | h0
            · exact h0
            · exfalso
              apply hcont
              apply (contain_iff q.gtid c.gtid hq hc).mpr
              rw [← h0]; exact hcM
      rcases h with h | h
      · exact Or.inl (key (Or.inl h))
      · rcases List.mem_cons.mp h with h | h
        · exact Or.inl (key (Or.inr h))
        · exact Or.inr h

theorem mostRecent_spec (ps : List Pos) (hne : ps ≠ []) (hwf : ∀ p ∈ ps, WF p.gtid) :
    match findMostRecent ps with
    | .panic => False
    | .node m => m ∈ ps ∧ ∀ p ∈ ps, GSubset p.gtid m.gtid
    | .splitBrain => ¬ ∃ m ∈ ps, ∀ p ∈ ps, GSubset p.gtid m.gtid := by
  cases ps with
  | nil => exact absurd rfl hne
  | cons p r =>
    have hmem := scan_mem p r
    have hmwf := hwf _ hmem
    unfold findMostRecent
    simp only
    by_cases hd : detectSplitbrain (p :: r) (scanMostRecent p r) = true
    · rw [if_pos hd]
      simp only
      rintro ⟨M, hMmem, hMall⟩
      unfold detectSplitbrain at hd
      rw [List.any_eq_true] at hd
      obtain ⟨n, hn, hnc⟩ := hd
      have hMmax : GSubset M.gtid (scanMostRecent p r).gtid := by
        apply scan_max M p r hwf hMall
        rcases List.mem_cons.mp hMmem with h | h
        · left; rw [h]; exact GSubset.refl _
        · exact Or.inr h
      have : contain (scanMostRecent p r).gtid n.gtid = true :=
        (contain_iff _ _ hmwf (hwf n hn)).mpr (GSubset.trans (hMall n hn) hMmax)
      rw [this] at hnc
      cases hnc
    · rw [if_neg hd]
      simp only
      refine ⟨hmem, fun n hn => ?_⟩
      unfold detectSplitbrain at hd
      rw [List.any_eq_true] at hd
      apply (contain_iff _ _ hmwf (hwf n hn)).mp
      apply Classical.byContradiction
      intro hc
      apply hd
      exact ⟨n, hn, by simp only [Bool.not_eq_true'] ; exact Bool.eq_false_iff.mpr hc⟩

end GtidLemmas
