/- Helper lemmas for C15, part 3: running the client programs (`runSeq`), `makePath`. -/
import MysyncModel.Dcs.Zk
import MysyncProofs.Lemmas.ZkServer

namespace ZkLemmas
open Zk

/-! ### runSeq -/

theorem runSeq_ret {α : Type} (s : Server) (sid : Sid) (a : α) (fuel : Nat) :
    runSeq s sid (.ret a) fuel = some (s, a) := by
  unfold runSeq; rfl

theorem runSeq_call {α : Type} (s : Server) (sid : Sid) (p : Prim) (k : Resp → Prog α) (fuel : Nat) :
    runSeq s sid (.call p k) (fuel + 1) = runSeq (s.step sid p).1 sid (k (s.step sid p).2) fuel := by
  simp [runSeq]

theorem runSeq_call_zero {α : Type} (s : Server) (sid : Sid) (p : Prim) (k : Resp → Prog α) :
    runSeq s sid (.call p k) 0 = none := by
  simp [runSeq]

theorem runSeq_bind_call (s : Server) (sid : Sid) (p : Prim) (f : Resp → Prog (Option Err)) (K : Prog Res)
    (fuel : Nat) :
    runSeq s sid (bindErr (.call p f) K) (fuel + 1) =
      runSeq (s.step sid p).1 sid (bindErr (f (s.step sid p).2) K) fuel := by
  simp [bindErr, runSeq]

/-! ### single steps -/

theorem step_get_some {s : Server} (sid : Sid) {p : Path} {n : ZNode} (h : s.find? p = some n) :
    s.step sid (.get p) = (s, .data n.data n.version n.owner) := by
  simp [Server.step, h]

theorem step_get_none {s : Server} (sid : Sid) {p : Path} (hp : p ≠ []) (h : s.find? p = none) :
    s.step sid (.get p) = (s, .err .noNode) := by
  simp [Server.step, h, hp]

theorem step_create_ok {s : Server} (sid : Sid) {p : Path} (d : String) (eph : Bool) (hp : p ≠ [])
    (hnone : s.find? p = none)
    (hpar : p.dropLast = [] ∨ ∃ m, s.find? p.dropLast = some m ∧ m.owner = 0) :
    s.step sid (.create p d eph) =
      ({ s with nodes := s.nodes ++ [(p, { data := d, version := 0, owner := if eph then sid else 0 })] }, .created) := by
  have hp' : (p == []) = false := by simpa using hp
  simp only [Server.step, hp', Bool.false_eq_true, if_false]
  by_cases hd : p.dropLast = []
  · simp [hd, hnone, put_of_none]
  · rcases hpar with h0 | ⟨m, hm, hm0⟩
    · exact absurd h0 hd
    · simp [hd, hm, hm0, hnone, put_of_none]

/-- `create` answers `nodeExists` only for an existing key (or the root), and changes the tree only when it
answers `created` -/
theorem step_create_cases (s : Server) (sid : Sid) (p : Path) (d : String) (eph : Bool) :
    ((s.step sid (.create p d eph)).2 = .created ∧ s.find? p = none ∧
        (s.step sid (.create p d eph)).1 = s.put p { data := d, version := 0, owner := if eph then sid else 0 }) ∨
    ((s.step sid (.create p d eph)).2 = .err .nodeExists ∧ (p = [] ∨ (s.find? p).isSome = true) ∧
        (s.step sid (.create p d eph)).1 = s) ∨
    ((s.step sid (.create p d eph)).2 = .err .noNode ∧ p ≠ [] ∧ p.dropLast ≠ [] ∧ s.find? p.dropLast = none ∧
        (s.step sid (.create p d eph)).1 = s) ∨
    ((s.step sid (.create p d eph)).2 = .err .noChildrenForEphemerals ∧ s.find? p = none ∧
        (s.step sid (.create p d eph)).1 = s) := by
  by_cases hp : p = []
  · simp [Server.step, hp]
  have hp' : (p == []) = false := by simpa using hp
  simp only [Server.step, hp', Bool.false_eq_true, if_false]
  by_cases hd : p.dropLast = []
  · simp only [hd, beq_self_eq_true, if_true]
    cases hf : s.find? p with
    | some m => simp
    | none => simp
  · have hd' : (p.dropLast == []) = false := by simpa using hd
    simp only [hd', Bool.false_eq_true, if_false]
    cases hpar : s.find? p.dropLast with
    | none => simp [hp, hd]
    | some m =>
      simp only [Option.map_some]
      cases hf : s.find? p with
      | some m' => simp
      | none =>
        by_cases hm0 : m.owner = 0
        · simp [hm0]
        · simp [hm0]

/-! ### adding a chain of plain entries -/

def plain : ZNode := { data := "", version := 0, owner := 0 }

def addPlain (s : Server) (ps : List Path) : Server := { s with nodes := s.nodes ++ ps.map fun x => (x, plain) }

theorem addPlain_nil (s : Server) : addPlain s [] = s := by
  simp [addPlain]

theorem addPlain_cons (s : Server) (x : Path) (ps : List Path) :
    addPlain s (x :: ps) = addPlain { s with nodes := s.nodes ++ [(x, plain)] } ps := by
  simp [addPlain]

@[simp] theorem addPlain_live (s : Server) (ps : List Path) : (addPlain s ps).live = s.live := rfl

theorem lk_plain (ps : List Path) (x : Path) :
    lk (ps.map fun y => (y, plain)) x = if x ∈ ps then some plain else none := by
  induction ps with
  | nil => simp
  | cons y ps ih =>
    simp only [List.map_cons, lk_cons, ih, List.mem_cons]
    by_cases h : y = x
    · simp [h]
    · have : ¬ x = y := fun h' => h h'.symm
      simp [h, this]

theorem find?_addPlain (s : Server) (ps : List Path) (x : Path) :
    (addPlain s ps).find? x =
      match s.find? x with
      | some n => some n
      | none => if x ∈ ps then some plain else none := by
  simp only [find?_eq_lk, addPlain, lk_append, lk_plain]
  cases lk s.nodes x <;> rfl

/-- the prefixes `q.take (i+1), …, q.take (i+n)` -/
def chain (q : Path) (i n : Nat) : List Path := (List.range' (i + 1) n).map fun k => q.take k

theorem chain_zero (q : Path) (i : Nat) : chain q i 0 = [] := by simp [chain]

theorem chain_succ (q : Path) (i n : Nat) : chain q i (n + 1) = q.take (i + 1) :: chain q (i + 1) n := by
  simp [chain, List.range'_succ]

theorem mem_chain (q : Path) (i n : Nat) (x : Path) : x ∈ chain q i n ↔ ∃ k, i < k ∧ k ≤ i + n ∧ x = q.take k := by
  simp only [chain, List.mem_map, List.mem_range'_1]
  constructor
  · rintro ⟨k, hk, rfl⟩; exact ⟨k, by omega, by omega, rfl⟩
  · rintro ⟨k, h1, h2, rfl⟩; exact ⟨k, by omega, rfl⟩

theorem take_ne_take (q : Path) (a b : Nat) (ha : a ≤ q.length) (hb : b ≤ q.length) (hab : a ≠ b) :
    q.take a ≠ q.take b := by
  intro h
  have := congrArg List.length h
  simp only [List.length_take] at this
  omega

theorem take_succ_ne_nil (q : Path) (i : Nat) (hi : i < q.length) : q.take (i + 1) ≠ [] := by
  intro h
  have := congrArg List.length h
  simp only [List.length_take, List.length_nil] at this
  omega

/-- `createAll` along a chain below an existing plain ancestor: every create succeeds -/
theorem createAll_run (q : Path) (sid : Sid) :
    ∀ n i s, i + n ≤ q.length →
      (i = 0 ∨ ∃ m, s.find? (q.take i) = some m ∧ m.owner = 0) →
      (∀ k, i < k → k ≤ q.length → s.find? (q.take k) = none) →
      (WF s → WF (addPlain s (chain q i n))) ∧
      ∀ fuel (K : Prog Res), runSeq s sid (bindErr (createAll (chain q i n) (.ret none)) K) (fuel + n) =
        runSeq (addPlain s (chain q i n)) sid K fuel := by
  intro n
  induction n with
  | zero =>
    intro i s _ _ _
    simp [chain_zero, addPlain_nil, createAll, bindErr]
  | succ n ih =>
    intro i s hin hpar hmiss
    have hx : q.take (i + 1) ≠ [] := take_succ_ne_nil q i (by omega)
    have hnone : s.find? (q.take (i + 1)) = none := hmiss (i + 1) (by omega) (by omega)
    have hdl : (q.take (i + 1)).dropLast = q.take i := dropLast_take_succ q i (by omega)
    have hpar' : (q.take (i + 1)).dropLast = [] ∨ ∃ m, s.find? (q.take (i + 1)).dropLast = some m ∧ m.owner = 0 := by
      rw [hdl]
      rcases hpar with h0 | h1
      · left; simp [h0]
      · exact Or.inr h1
    have hstep := step_create_ok sid "" false hx hnone hpar'
    simp only [Bool.false_eq_true, if_false] at hstep
    -- the tree after the first create
    have hs1 : ∀ x, ({ s with nodes := s.nodes ++ [(q.take (i + 1), plain)] } : Server).find? x =
        match s.find? x with
        | some n => some n
        | none => if x = q.take (i + 1) then some plain else none := by
      intro x
      have := find?_addPlain s [q.take (i + 1)] x
      simpa [addPlain] using this
    obtain ⟨ihw, ihr⟩ := ih (i + 1) { s with nodes := s.nodes ++ [(q.take (i + 1), plain)] } (by omega)
      (Or.inr ⟨plain, by rw [hs1, hnone]; simp, rfl⟩)
      (by
        intro k hk hkl
        rw [hs1, hmiss k (by omega) hkl]
        have : q.take k ≠ q.take (i + 1) := take_ne_take q k (i + 1) hkl (by omega) (by omega)
        simp [this])
    refine ⟨?_, ?_⟩
    · intro hw
      rw [chain_succ, addPlain_cons]
      refine ihw (wf_append hw _ _ hx hnone ?_ (by simp [plain]))
      rcases hpar' with h0 | ⟨m, hm, hm0⟩
      · exact Or.inl h0
      · exact Or.inr ⟨m, find?_mem hm, hm0⟩
    · intro fuel K
      rw [chain_succ, addPlain_cons, ← ihr fuel K]
      simp only [createAll]
      rw [show fuel + (n + 1) = (fuel + n) + 1 by omega, runSeq_bind_call, hstep]
      rfl

/-- `probeDown` from prefix `j` downwards only reads; it ends in `createAll` of exactly the missing prefixes -/
theorem probeDown_run (q : Path) (sid : Sid) (s : Server)
    (hanc : ∀ k, k ≤ q.length → ∀ n, s.find? (q.take k) = some n → n.owner = 0) :
    ∀ j, j ≤ q.length → (∀ k, j < k → k ≤ q.length → s.find? (q.take k) = none) →
      ∃ i c, i ≤ j ∧ c ≤ j ∧ (i = 0 ∨ ∃ m, s.find? (q.take i) = some m ∧ m.owner = 0) ∧
        (∀ k, i < k → k ≤ q.length → s.find? (q.take k) = none) ∧
        ∀ fuel (K : Prog Res), runSeq s sid (bindErr (probeDown (((List.range j).map fun t => q.take (t + 1)).reverse)
              (chain q j (q.length - j))) K) (fuel + c) =
          runSeq s sid (bindErr (createAll (chain q i (q.length - i)) (.ret none)) K) fuel := by
  intro j
  induction j with
  | zero =>
    intro _ hmiss
    exact ⟨0, 0, Nat.le_refl _, Nat.le_refl _, Or.inl rfl, hmiss, fun fuel K => by simp [probeDown]⟩
  | succ j ih =>
    intro hj hmiss
    have hlist : ((List.range (j + 1)).map fun t => q.take (t + 1)).reverse =
        q.take (j + 1) :: ((List.range j).map fun t => q.take (t + 1)).reverse := by
      simp [List.range_succ]
    have hx : q.take (j + 1) ≠ [] := take_succ_ne_nil q j (by omega)
    cases hf : s.find? (q.take (j + 1)) with
    | some m =>
      refine ⟨j + 1, 1, Nat.le_refl _, by omega, Or.inr ⟨m, hf, hanc (j + 1) hj m hf⟩, hmiss, ?_⟩
      intro fuel K
      rw [hlist]
      simp only [probeDown]
      rw [runSeq_bind_call, step_get_some sid hf]
    | none =>
      obtain ⟨i, c, hij, hcj, hpar, hmiss', hrun⟩ := ih (by omega) (by
        intro k hk hkl
        by_cases hkj : k = j + 1
        · rw [hkj]; exact hf
        · exact hmiss k (by omega) hkl)
      refine ⟨i, c + 1, by omega, by omega, hpar, hmiss', ?_⟩
      intro fuel K
      rw [hlist]
      simp only [probeDown]
      rw [show fuel + (c + 1) = (fuel + c) + 1 by omega, runSeq_bind_call, step_get_none sid hx hf]
      simp only
      rw [← hrun fuel K, show q.length - j = (q.length - (j + 1)) + 1 by omega, chain_succ]

/-! ### `makePath` -/

/-- `makePath q` below plain (or missing) ancestors succeeds and adds exactly the missing prefixes of `q` as plain
entries -/
theorem makePath_run (s : Server) (sid : Sid) (q : Path) (hw : WF s)
    (hanc : ∀ k, k ≤ q.length → ∀ n, s.find? (q.take k) = some n → n.owner = 0) :
    ∃ s2 c, c ≤ 2 * q.length ∧ WF s2 ∧ s2.live = s.live ∧
      (∀ x, s2.find? x = match s.find? x with
        | some n => some n
        | none => if x ∈ chain q 0 q.length then some plain else none) ∧
      ∀ fuel (K : Prog Res), runSeq s sid (bindErr (makePath q) K) (fuel + c) = runSeq s2 sid K fuel := by
  obtain ⟨i, c, hiL, hcL, hpar, hmiss, hrun⟩ :=
    probeDown_run q sid s hanc q.length (Nat.le_refl _) (by intro k h1 h2; omega)
  obtain ⟨hwf, hrun2⟩ := createAll_run q sid (q.length - i) i s (by omega) hpar hmiss
  refine ⟨addPlain s (chain q i (q.length - i)), (q.length - i) + c, by omega, hwf hw, rfl, ?_, ?_⟩
  · intro x
    rw [find?_addPlain]
    cases hf : s.find? x with
    | some n => rfl
    | none =>
      simp only
      have : x ∈ chain q i (q.length - i) ↔ x ∈ chain q 0 q.length := by
        rw [mem_chain, mem_chain]
        constructor
        · rintro ⟨k, h1, h2, h3⟩; exact ⟨k, by omega, by omega, h3⟩
        · rintro ⟨k, h1, h2, h3⟩
          refine ⟨k, ?_, by omega, h3⟩
          rcases Nat.lt_or_ge i k with h | h
          · exact h
          · exfalso
            rcases hpar with h0 | ⟨m, hm, _⟩
            · omega
            · have := hw.prefix_exists (x := q.take i) (by simp [hm]) k h1
                (by simp only [List.length_take]; omega)
              rw [List.take_take, Nat.min_eq_left h, ← h3, hf] at this
              simp at this
      simp only [this]
  · intro fuel K
    have h0 : chain q q.length (q.length - q.length) = [] := by simp [chain_zero]
    have hrun' := hrun (fuel + (q.length - i)) K
    rw [h0] at hrun'
    rw [show fuel + (q.length - i + c) = fuel + (q.length - i) + c by omega]
    unfold makePath prefixesDown
    rw [hrun', hrun2 fuel K]

/-! ### `set` on a missing key -/

theorem take_dropLast (p : Path) (k : Nat) (hk : k < p.length) : p.dropLast.take k = p.take k := by
  rw [List.dropLast_eq_take, List.take_take]
  congr 1; omega

theorem set_missing (s : Server) (sid : Sid) (p : Path) (d : String) (eph : Bool) (hw : WF s)
    (hp : p ≠ []) (hn : s.find? p = none)
    (hanc : ∀ k, k < p.length → ∀ n, s.find? (p.take k) = some n → n.owner = 0)
    (hl : eph = true → sid ≠ 0 → sid ∈ s.live) :
    ∃ s', runSeq s sid (opSet p d eph) (2 * p.length + 3) = some (s', .ok) ∧
      s'.find? p = some { data := d, version := 0, owner := if eph then sid else 0 } ∧
      (∀ k, 0 < k → k < p.length → (s'.find? (p.take k)).isSome = true) ∧
      (∀ q n, s.find? q = some n → s'.find? q = some n) ∧ WF s' := by
  have hplen : 0 < p.length := List.length_pos_iff.2 hp
  obtain ⟨q, hq⟩ : ∃ q, q = p.dropLast := ⟨_, rfl⟩
  have hqlen : q.length + 1 = p.length := by rw [hq, List.length_dropLast]; omega
  have htake : ∀ k, k ≤ q.length → q.take k = p.take k := by
    intro k hk; rw [hq]; exact take_dropLast p k (by omega)
  have hanc' : ∀ k, k ≤ q.length → ∀ n, s.find? (q.take k) = some n → n.owner = 0 := by
    intro k hk n hkn
    rw [htake k hk] at hkn
    exact hanc k (by omega) n hkn
  obtain ⟨s2, c, hc, hw2, hlive2, hfind2, hrun⟩ := makePath_run s sid q hw hanc'
  have hp2 : s2.find? p = none := by
    rw [hfind2, hn]
    have : p ∉ chain q 0 q.length := by
      rw [mem_chain]
      rintro ⟨k, _, hk2, hk⟩
      have := congrArg List.length hk
      simp only [List.length_take] at this
      omega
    simp only [this, if_false]
  have hpre2 : ∀ k, 0 < k → k ≤ q.length → ∃ m, s2.find? (q.take k) = some m ∧ m.owner = 0 := by
    intro k hk0 hkL
    rw [hfind2]
    cases hf : s.find? (q.take k) with
    | some m => exact ⟨m, rfl, hanc' k hkL m hf⟩
    | none =>
      have : q.take k ∈ chain q 0 q.length := (mem_chain _ _ _ _).2 ⟨k, hk0, by omega, rfl⟩
      exact ⟨plain, by simp only [this, if_true], rfl⟩
  have hpar2 : p.dropLast = [] ∨ ∃ m, s2.find? p.dropLast = some m ∧ m.owner = 0 := by
    rw [← hq]
    by_cases hL : q.length = 0
    · exact Or.inl (List.length_eq_zero_iff.1 hL)
    · right
      have := hpre2 q.length (by omega) (Nat.le_refl _)
      rwa [List.take_of_length_le (Nat.le_refl _)] at this
  have hstep := step_create_ok (s := s2) sid d eph hp hp2 hpar2
  generalize hs3 : ({ s2 with nodes := s2.nodes ++ [(p, { data := d, version := 0, owner := if eph then sid else 0 })] } : Server)
    = s3 at hstep
  have hs3' : s3 = s2.put p { data := d, version := 0, owner := if eph then sid else 0 } := by
    rw [put_of_none _ hp2, hs3]
  refine ⟨s3, ?_, ?_, ?_, ?_, ?_⟩
  · obtain ⟨f0, hf0⟩ : ∃ f0, 2 * p.length + 3 = ((f0 + 1) + c) + 1 := ⟨2 * p.length + 3 - 1 - c - 1, by omega⟩
    rw [hf0]
    unfold opSet
    rw [runSeq_call, step_get_none sid hp hn]
    simp only
    rw [← hq, hrun, runSeq_call, hstep]
    simp only [runSeq_ret]
  · rw [hs3', find?_put_self]
  · intro k hk0 hkl
    rw [hs3', find?_put_other _ _ _ _ (by
      intro h
      have := congrArg List.length h
      simp only [List.length_take] at this
      omega)]
    obtain ⟨m, hm, _⟩ := hpre2 k hk0 (by omega)
    rw [htake k (by omega)] at hm
    simp [hm]
  · intro x n hx
    have hxp : x ≠ p := by intro h; rw [h, hn] at hx; simp at hx
    rw [hs3', find?_put_other _ _ _ _ hxp, hfind2, hx]
  · have := wf_create hw2 sid p d eph (by rw [hlive2]; exact hl)
    rw [hstep] at this
    exact this

end ZkLemmas
