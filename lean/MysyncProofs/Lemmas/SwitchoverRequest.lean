/-
Helper lemma for C07: the request key across one manager iteration (`SwitchLifecycle.tick`).
-/
import MysyncModel.App.SwitchLifecycle
import MysyncProofs.Lemmas.ManagerTick

namespace SwitchoverLemmas
open NS Manager SwitchLifecycle

/-- corrected `C07.request_kept_until_terminal`: the statement without `hfresh` is false — when the pending
request is (field by field) equal to the record already stored in `last_rejected_switch` (or `last_switch`),
rejecting (finishing) it leaves that key unchanged, so "the two result keys did not change" does not imply
"the request was neither finished nor rejected".  With a request that differs from both recorded results
(e.g. by its `initiatedAt`) the claim holds for every iteration, by whichever process. -/
theorem request_kept_until_terminal (cfg : Manager.Cfg) (i : Manager.In) (k : Keys) (sw : Switch)
    (hs : k.switch = some sw)
    (hkeep : (tick cfg i k).lastOk = k.lastOk ∧ (tick cfg i k).lastRejected = k.lastRejected)
    (hp : i.perform ≠ .abortedMeanwhile)
    (hfresh : k.lastOk ≠ some sw ∧ k.lastRejected ≠ some sw) :
    ∃ sw', (tick cfg i k).switch = some sw' ∧ sw'.from_ = sw.from_ ∧ sw'.to = sw.to := by
  rcases ManagerLemmas.tick_record_cases cfg i hs with h | h
  · rw [h]; exact ⟨sw, hs, rfl, rfl⟩
  · rw [h] at hkeep ⊢
    unfold ManagerLemmas.outcome at hkeep ⊢
    by_cases h1 : timedOut cfg i.now sw = true
    · rw [if_pos h1] at hkeep
      exact absurd hkeep.2.symm hfresh.2
    rw [if_neg h1] at hkeep ⊢
    by_cases h2 : (!approveSwitchover cfg i sw) = true
    · rw [if_pos h2] at hkeep
      exact absurd hkeep.2.symm hfresh.2
    rw [if_neg h2] at hkeep ⊢
    by_cases h3 : (!i.startOk) = true
    · rw [if_pos h3]; exact ⟨sw, hs, rfl, rfl⟩
    rw [if_neg h3] at hkeep ⊢
    cases hpf : i.perform with
    | ok =>
      rw [hpf] at hkeep
      exact absurd hkeep.1.symm hfresh.1
    | failed => exact ⟨_, rfl, rfl, rfl⟩
    | abortedMeanwhile => exact absurd hpf hp
    | panicked => exact ⟨sw, hs, rfl, rfl⟩


/-- counterexample to `C07.request_kept_until_terminal` as stated: the pending request equals the record in
`last_rejected_switch`; the iteration times it out — `switch` is removed, both result keys are unchanged -/
def cxMCfg : Manager.Cfg :=
  { failover := true, failoverDelay := 0, failoverCooldown := 0, resetupCrashedHosts := false, semiSync := false,
    waitCount := 0, switchoverTimeout := 0, switchoverMaxAttempts := 0 }
def cxSw : Switch := { to := "b", initiatedAt := some 0 }
def cxKeys : Keys := { switch := some cxSw, lastRejected := some cxSw }
def cxMIn : Manager.In := { master := some "a", activeNodes := [], cs := [], dcs := [], now := 10, failedAt := none }

theorem request_kept_counterexample :
    cxKeys.switch = some cxSw ∧
    ((tick cxMCfg cxMIn cxKeys).lastOk = cxKeys.lastOk ∧ (tick cxMCfg cxMIn cxKeys).lastRejected = cxKeys.lastRejected) ∧
    cxMIn.perform ≠ .abortedMeanwhile ∧ (tick cxMCfg cxMIn cxKeys).switch = none := by
  decide +kernel

end SwitchoverLemmas
