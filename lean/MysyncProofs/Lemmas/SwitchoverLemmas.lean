/-
Helper lemmas for C01 / C07 / C11 (statements of the property theorems are fixed in MysyncProofs/C01.lean,
C07.lean, C11.lean).  The stage decomposition of `performSwitchover` is in SwitchoverStages.lean; here are
the environment lemmas, the generic facts about `run`, and the facts about the switchover procedure.
-/
import MysyncModel.App.Switchover
import MysyncModel.World.Env
import MysyncProofs.Lemmas.GtidLemmas
import MysyncProofs.Lemmas.SwitchoverStages
import MysyncProofs.Lemmas.QuorumSpec

namespace SwitchoverLemmas
open NS Gtid Select Switchover

/-! ### environment (E3) -/

theorem env_step_frozen {n n' : Env.Node} (hf : Env.Frozen n) (hs : Env.Step n n') :
    Env.Frozen n' ∧ ∀ k x, n'.Total k x → n.Total k x := by
  obtain ⟨hro, hio⟩ := hf
  cases hs with
  | download r' h _ => rw [hio] at h; cases h
  | apply e' _ _ hsub =>
    refine ⟨⟨hro, hio⟩, fun k x h => ?_⟩
    rcases h with h | h
    · exact hsub k x h
    · exact Or.inr h
  | commit e' h _ => rw [hro] at h; cases h
  | die => exact ⟨⟨hro, hio⟩, fun _ _ h => h⟩
  | idle => exact ⟨⟨hro, hio⟩, fun _ _ h => h⟩

theorem env_steps_frozen {n n' : Env.Node} (hf : Env.Frozen n) (hs : Env.Steps n n') :
    Env.Frozen n' ∧ ∀ k x, n'.Total k x → n.Total k x := by
  induction hs with
  | refl => exact ⟨hf, fun _ _ h => h⟩
  | tail _ hstep ih =>
    obtain ⟨hf', hsub⟩ := ih
    obtain ⟨hf'', hsub'⟩ := env_step_frozen hf' hstep
    exact ⟨hf'', fun k x h => hsub k x (hsub' k x h)⟩

theorem env_step_executed {n n' : Env.Node} (hs : Env.Step n n') :
    ∀ k x, n.executed.Mem k x → n'.executed.Mem k x := by
  cases hs with
  | download => exact fun _ _ h => h
  | apply e' _ hmono _ => exact hmono
  | commit e' _ hmono => exact hmono
  | die => exact fun _ _ h => h
  | idle => exact fun _ _ h => h

theorem env_steps_executed {n n' : Env.Node} (hs : Env.Steps n n') :
    ∀ k x, n.executed.Mem k x → n'.executed.Mem k x := by
  induction hs with
  | refl => exact fun _ _ h => h
  | tail _ hstep ih => exact fun k x h => env_step_executed hstep k x (ih k x h)

/-! ### generic facts about `run` -/

def goods (a : List Stage) : List Step := a.flatMap (·.good)

@[simp] theorem goods_nil : goods [] = [] := rfl
@[simp] theorem goods_cons (s : Stage) (r : List Stage) : goods (s :: r) = s.good ++ goods r := by
  simp [goods]
theorem goods_append (a b : List Stage) : goods (a ++ b) = goods a ++ goods b := by
  simp [goods]

theorem mem_run_cons {s : Step} {stg : Stage} {r : List Stage} :
    s ∈ run (stg :: r) ↔ (stg.ok = true ∧ (s ∈ stg.good ∨ s ∈ run r)) ∨ (stg.ok = false ∧ s ∈ stg.bad) := by
  rw [run_cons]
  cases stg.ok <;> simp

theorem run_append_ok {a b : List Stage} (h : ∀ stg ∈ a, stg.ok = true) : run (a ++ b) = goods a ++ run b := by
  induction a with
  | nil => simp
  | cons s r ih =>
    have hs : s.ok = true := h s (by simp)
    simp only [List.cons_append, run_cons, hs, if_true, goods_cons, List.append_assoc]
    rw [ih (fun stg hm => h stg (by simp [hm]))]

theorem run_ok {a : List Stage} (h : ∀ stg ∈ a, stg.ok = true) : run a = goods a := by
  have := run_append_ok (b := []) h
  simpa using this

/-- a step that no stage of `a` can emit is emitted by `run (a ++ b)` only after all of `a` succeeded -/
theorem mem_run_append {s : Step} {a b : List Stage} (hs : s ∈ run (a ++ b))
    (ha : ∀ stg ∈ a, s ∉ stg.good ∧ s ∉ stg.bad) : (∀ stg ∈ a, stg.ok = true) ∧ s ∈ run b := by
  induction a with
  | nil => exact ⟨by simp, by simpa using hs⟩
  | cons t r ih =>
    obtain ⟨hg, hb⟩ := ha t (by simp)
    rw [List.cons_append, mem_run_cons] at hs
    rcases hs with ⟨hok, h | h⟩ | ⟨_, h⟩
    · exact absurd h hg
    · obtain ⟨h1, h2⟩ := ih h (fun stg hm => ha stg (by simp [hm]))
      refine ⟨fun stg hm => ?_, h2⟩
      rcases List.mem_cons.mp hm with rfl | hm
      · exact hok
      · exact h1 stg hm
    · exact absurd h hb

/-- stage-wise condition for "steps satisfying `P` occur at most as the very last step" -/
def LastOnly (P : Step → Prop) : List Stage → Prop
  | [] => True
  | [stg] => (∀ s ∈ stg.bad.dropLast, ¬ P s) ∧ (∀ s ∈ stg.good.dropLast, ¬ P s)
  | stg :: r => (∀ s ∈ stg.bad.dropLast, ¬ P s) ∧ (∀ s ∈ stg.good, ¬ P s) ∧ LastOnly P r

theorem dropLast_append_of_ne {α : Type _} (a b : List α) (h : b ≠ []) : (a ++ b).dropLast = a ++ b.dropLast :=
  List.dropLast_append_of_ne_nil h

theorem run_lastOnly (P : Step → Prop) : ∀ (st : List Stage), LastOnly P st → ∀ s ∈ (run st).dropLast, ¬ P s := by
  intro st
  induction st with
  | nil => intro _ s hs; simp at hs
  | cons t r ih =>
    intro h s hs
    cases r with
    | nil =>
      obtain ⟨hb, hg⟩ := h
      simp only [run_cons, run_nil, List.append_nil] at hs
      by_cases hok : t.ok = true
      · rw [if_pos hok] at hs; exact hg s hs
      · rw [if_neg hok] at hs; exact hb s hs
    | cons u r' =>
      obtain ⟨hb, hg, hr⟩ := h
      rw [run_cons] at hs
      by_cases hok : t.ok = true
      · rw [if_pos hok] at hs
        by_cases hne : run (u :: r') = []
        · rw [hne, List.append_nil] at hs
          exact hg s (List.dropLast_subset _ hs)
        · rw [List.dropLast_append_of_ne_nil hne] at hs
          rcases List.mem_append.mp hs with h1 | h1
          · exact hg s h1
          · exact ih hr s h1
      · rw [if_neg hok] at hs; exact hb s hs

/-- a `P`-step of a list in which `P`-steps occur only last IS the last step -/
theorem last_of_lastOnly {P : Step → Prop} {l : List Step} (h : ∀ s ∈ l.dropLast, ¬ P s) {x : Step} (hx : x ∈ l) (hp : P x) :
    l.getLast? = some x := by
  have hne : l ≠ [] := List.ne_nil_of_mem hx
  have hl := List.dropLast_concat_getLast hne
  rw [← hl] at hx
  rcases List.mem_append.mp hx with h1 | h1
  · exact absurd hp (h x h1)
  · rw [List.getLast?_eq_some_getLast hne]
    simp at h1
    rw [h1]

theorem prefix_of_lastOnly {P : Step → Prop} {l pre post : List Step} (h : ∀ s ∈ l.dropLast, ¬ P s)
    (hl : l = pre ++ post) (hpost : post ≠ []) : ∀ s ∈ pre, ¬ P s := by
  intro s hs
  apply h s
  rw [hl, List.dropLast_append_of_ne_nil hpost]
  exact List.mem_append_left _ hs

/-- the position of a `P`-step is determined when there is only one -/
theorem split_unique {P : Step → Prop} {G rest pre post : List Step} {x y : Step}
    (hG : ∀ s ∈ G, ¬ P s) (hrest : ∀ s ∈ rest, ¬ P s) (hx : P x)
    (h : pre ++ x :: post = G ++ y :: rest) : pre = G ∧ x = y ∧ post = rest := by
  induction G generalizing pre with
  | nil =>
    cases pre with
    | nil => simp at h; exact ⟨rfl, h.1, h.2⟩
    | cons p pre' =>
      simp at h
      exact absurd hx (hrest x (by rw [← h.2]; simp))
  | cons g G' ih =>
    cases pre with
    | nil =>
      simp at h
      exact absurd hx (by rw [h.1]; exact hG g (by simp))
    | cons p pre' =>
      simp at h
      obtain ⟨h1, h2, h3⟩ := ih (fun s hs => hG s (by simp [hs])) h.2
      exact ⟨by rw [h.1, h1], h2, h3⟩


/-! ### reaching the final phase -/

/-- steps of the final phase (after `STOP SLAVE` on the new master) -/
def fin : Step → Bool
  | .resetSlaveAll .. | .updateActiveNodes | .setWritable .. | .reenableEvents _ | .setMasterKey .. => true
  | _ => false

def pFin (i : In) (nm : Pos) : List Stage := [pReset i nm, pWritable i nm, pEvents i nm]

theorem stages_split (cfg : Cfg) (i : In) :
    stages cfg i = (sPre cfg i ++ pHead i (nmOf cfg i) (mrOf i)) ++ pFin i (nmOf cfg i) := by
  simp [stages, pStages, pFin]

theorem early_no_fin (cfg : Cfg) (i : In) (nm mr : Pos) (s : Step) (hf : fin s = true) :
    ∀ stg ∈ sPre cfg i ++ pHead i nm mr, s ∉ stg.good ∧ s ∉ stg.bad := by
  cases s <;> simp [fin] at hf <;> simp [sPre, sPreA, sOnly, sNode, sPick, pHead]

/-- all guards before the final phase hold -/
def Reached (cfg : Cfg) (i : In) : Prop := ∀ stg ∈ sPre cfg i ++ pHead i (nmOf cfg i) (mrOf i), stg.ok = true

theorem fin_reach {cfg : Cfg} {i : In} {s : Step} (hf : fin s = true) (hs : s ∈ performSwitchover cfg i) :
    Reached cfg i ∧ s ∈ run (pFin i (nmOf cfg i)) := by
  rw [performSwitchover_eq, stages_split] at hs
  exact mem_run_append hs (early_no_fin cfg i _ _ s hf)

theorem reached_eq {cfg : Cfg} {i : In} (h : Reached cfg i) :
    performSwitchover cfg i =
      goods (sPre cfg i) ++ goods (pHead i (nmOf cfg i) (mrOf i)) ++ run (pFin i (nmOf cfg i)) := by
  rw [performSwitchover_eq, stages_split, run_append_ok h, goods_append]

/-- the guards of `Reached`, by name -/
structure Guards (cfg : Cfg) (i : In) : Prop where
  target : i.sw.to = "" ∨ i.sw.to ∈ i.active
  noDubious : dubiousHAHosts i.cs = []
  quorum : qOk cfg i = true
  lock1 : i.lock1 = true
  posSome : i.positions.isSome = true
  posLen : (psOf i).length = (frozen i).length
  node : isNode (findMostRecent (psOf i)) = true
  pick : (¬ i.sw.to = "" ∨ i.sw.from_ = "") ∨
    isDNode (mostDesirable cfg.priorityChoiceMaxLag (filterOutHost (psOf i) i.sw.from_)) = true
  catchUp : i.catchUp = .caught ∨ i.catchUp = .asyncEscape
  lock2 : i.lock2 = true
  recovery : needRecovery i (mrOf i) = false ∨ i.setRecoveryOk = true

theorem Reached.guards {cfg : Cfg} {i : In} (h : Reached cfg i) : Guards cfg i := by
  simp [Reached, sPre, sPreA, sOnly, sNode, sPick, pHead] at h
  obtain ⟨h1, h2, _, _, _, _, _, _, h8, h9, ⟨h10, h10'⟩, _, h12, h13, _, _, h16, h17, _, _, _, _, _, h23, _⟩ := h
  exact ⟨h1, h2, h8, h9, h10, h10', h12, h13, h16, h17, h23⟩

/-- the collected positions and their maximum -/
theorem Guards.positions {cfg : Cfg} {i : In} (g : Guards cfg i) :
    ∃ ps mr, i.positions = some ps ∧ psOf i = ps ∧ ps.length = (frozen i).length ∧
      findMostRecent ps = .node mr ∧ mrOf i = mr := by
  obtain ⟨ps, hps⟩ := Option.isSome_iff_exists.mp g.posSome
  have hp : psOf i = ps := by simp [psOf, hps]
  have hn := g.node
  have hl := g.posLen
  rw [hp] at hn hl
  cases hm : findMostRecent ps with
  | node mr => exact ⟨ps, mr, hps, hp, hl, hm, by simp [mrOf, hp, hm]⟩
  | panic => rw [hm] at hn; cases hn
  | splitBrain => rw [hm] at hn; cases hn

theorem findMostRecent_mem {ps : List Pos} {mr : Pos} (h : findMostRecent ps = .node mr) : mr ∈ ps := by
  cases ps with
  | nil => cases h
  | cons p r =>
    unfold findMostRecent at h
    simp only at h
    split at h
    · cases h
    · cases h; exact GtidLemmas.scan_mem p r

theorem mDF_mem (bound : Int) : ∀ (fuel : Nat) (ps : List Pos) (r : Pos),
    mostDesirableFuel bound fuel ps = .node r → r ∈ ps := by
  intro fuel
  induction fuel with
  | zero => intro ps r h; cases h
  | succ n ih =>
    intro ps r h
    unfold mostDesirableFuel at h
    cases hmp : mostPriority ps with
    | none => rw [hmp] at h; cases h
    | some top =>
      rw [hmp] at h
      have htop : top ∈ ps := by
        cases ps with
        | nil => cases hmp
        | cons p t =>
          simp only [mostPriority, Option.some.injEq] at hmp
          subst hmp
          have : ∀ (l : List Pos) (acc : Pos), l.foldl priorityStep acc = acc ∨ l.foldl priorityStep acc ∈ l := by
            intro l
            induction l with
            | nil => intro acc; exact Or.inl rfl
            | cons q l ihl =>
              intro acc
              rw [List.foldl_cons]
              have hq : priorityStep acc q = acc ∨ priorityStep acc q = q := by
                unfold priorityStep
                split
                · exact Or.inr rfl
                · split
                  · exact GtidLemmas.pickBetter_cases acc q
                  · exact Or.inl rfl
              rcases ihl (priorityStep acc q) with h1 | h1
              · rcases hq with h2 | h2
                · exact Or.inl (by rw [h1, h2])
                · exact Or.inr (by rw [h1, h2]; simp)
              · exact Or.inr (List.mem_cons_of_mem _ h1)
          rcases this t p with h1 | h1
          · rw [h1]; simp
          · exact List.mem_cons_of_mem _ h1
      simp only at h
      split at h
      · cases h; exact htop
      · split at h
        · cases h; exact htop
        · exact (List.mem_filter.1 (ih _ r h)).1

/-- who is promoted -/
theorem Guards.newMaster {cfg : Cfg} {i : In} (g : Guards cfg i) {ps : List Pos} (hps : psOf i = ps) :
    (i.sw.to ≠ "" ∧ (nmOf cfg i).host = i.sw.to) ∨
    (i.sw.to = "" ∧ nmOf cfg i ∈ ps ∧ (i.sw.from_ = "" ∨ (nmOf cfg i).host ≠ i.sw.from_)) := by
  obtain ⟨ps', mr, _, hps', _, hmr, hmrOf⟩ := g.positions
  rw [hps] at hps'; subst hps'
  by_cases hto : i.sw.to = ""
  · right
    refine ⟨hto, ?_⟩
    by_cases hfrom : i.sw.from_ = ""
    · have : nmOf cfg i = mr := by simp [nmOf, hto, hfrom, hmrOf]
      rw [this]
      exact ⟨findMostRecent_mem hmr, Or.inl hfrom⟩
    · have hd : isDNode (mostDesirable cfg.priorityChoiceMaxLag (filterOutHost (psOf i) i.sw.from_)) = true := by
        rcases g.pick with (h | h) | h
        · exact absurd hto h
        · exact absurd h hfrom
        · exact h
      rw [hps] at hd
      cases hmd : mostDesirable cfg.priorityChoiceMaxLag (filterOutHost ps i.sw.from_) with
      | node nm =>
        have : nmOf cfg i = nm := by simp [nmOf, hto, hfrom, hps, hmd]
        rw [this]
        have hm := mDF_mem _ _ _ _ hmd
        unfold filterOutHost at hm
        obtain ⟨h1, h2⟩ := List.mem_filter.1 hm
        exact ⟨h1, Or.inr (by simpa using h2)⟩
      | notFound => rw [hmd] at hd; cases hd
      | outOfFuel => rw [hmd] at hd; cases hd
  · left
    refine ⟨hto, ?_⟩
    simp only [nmOf, bne_iff_ne, ne_eq, hto, not_false_eq_true, if_true]
    cases hf : (psOf i).find? (fun x => x.host == i.sw.to) with
    | none => rfl
    | some p => simpa using List.find?_some hf


/-! ### C01 -/

theorem writable_reach {cfg : Cfg} {i : In} {h : String} {ok : Bool}
    (hs : Step.setWritable h ok ∈ performSwitchover cfg i) :
    Reached cfg i ∧ i.resetOk = true ∧ h = (nmOf cfg i).host ∧ ok = i.writableOk := by
  obtain ⟨hr, hm⟩ := fin_reach (by rfl) hs
  simp [pFin, pReset, pWritable, pEvents, mem_run_cons] at hm
  obtain ⟨h1, h2⟩ := hm
  refine ⟨hr, h1, ?_⟩
  rcases h2 with ⟨h2, h3, h4⟩ | ⟨h2, h3, h4⟩
  · exact ⟨h3, by rw [h2, h4]⟩
  · exact ⟨h3, by rw [h2, h4]⟩

theorem promotion_needs (cfg : Cfg) (i : In) (h : String) (ok : Bool)
    (hs : Step.setWritable h ok ∈ performSwitchover cfg i) :
    (i.sw.to = "" ∨ i.sw.to ∈ i.active) ∧ dubiousHAHosts i.cs = [] ∧
    Gen.SwitchHelper.CheckFailoverQuorum (sh cfg) i.active (frozen i).length = none ∧
    i.lock1 = true ∧ i.lock2 = true ∧
    (∃ ps mr, i.positions = some ps ∧ ps.length = (frozen i).length ∧ findMostRecent ps = .node mr) ∧
    (i.catchUp = .caught ∨ i.catchUp = .asyncEscape) := by
  have g := (writable_reach hs).1.guards
  obtain ⟨ps, mr, h1, _, h2, h3, _⟩ := g.positions
  refine ⟨g.target, g.noDubious, ?_, g.lock1, g.lock2, ⟨ps, mr, h1, h2, h3⟩, g.catchUp⟩
  have := g.quorum
  unfold qOk at this
  exact Option.isNone_iff_eq_none.mp this

theorem frozen_spec (i : In) (h : String) (hf : h ∈ frozen i) :
    h ∈ i.active ∧ (i.cs.get? h).map (·.pingOk) = some true ∧ i.ro h = true ∧ (h = i.oldMaster ∨ i.io h = true) := by
  unfold frozen at hf
  obtain ⟨hw, hc⟩ := List.mem_filter.mp hf
  have hact : h ∈ i.active := by
    unfold workList at hw
    split at hw
    · exact (List.mem_filter.mp hw).1
    · exact hw
  simp only [Bool.and_eq_true, beq_iff_eq, Bool.or_eq_true] at hc
  exact ⟨hact, hc.1.1, hc.1.2, hc.2⟩

theorem quorum_numbers (cfg : Cfg) (i : In)
    (h : Gen.SwitchHelper.CheckFailoverQuorum (sh cfg) i.active (frozen i).length = none) :
    (cfg.semiSync = true → Gen.SwitchHelper.GetFailoverQuorum (sh cfg) i.active ≤ (frozen i).length) ∧
    (cfg.semiSync = false → 1 ≤ (frozen i).length) := by
  constructor
  · intro hs
    have : (sh cfg).SemiSync = true := hs
    exact (QuorumSpec.check_spec_semi _ _ _ this).mp h
  · intro hs
    have : (sh cfg).SemiSync = false := hs
    have := (QuorumSpec.check_spec_async _ _ _ this).mp h
    omega

theorem async_escape_only_if (cfg : Cfg) (sw : Manager.Switch) (delay : Option Int)
    (h : checkAsyncSwitchAllowed cfg sw delay = true) :
    cfg.async = true ∧ sw.causeAuto = true ∧ cfg.asyncAllowedLag > 0 ∧ ∃ d, delay = some d ∧ d * 1000000000 < cfg.asyncAllowedLag := by
  unfold checkAsyncSwitchAllowed at h
  split at h
  · rename_i hc
    simp only [Bool.and_eq_true, decide_eq_true_eq] at hc
    cases delay with
    | none => cases h
    | some d => exact ⟨hc.1.1, hc.1.2, hc.2, d, rfl, by simpa using h⟩
  · cases h


theorem promotion_safe (cfg : Cfg) (i : In) (h : String) (ok : Bool)
    (hs : Step.setWritable h ok ∈ performSwitchover cfg i)
    (total : String → GtidSet) (execNew : GtidSet)
    (hpos : ∀ ps, i.positions = some ps → (∀ p ∈ ps, WF p.gtid ∧ p.gtid = total p.host) ∧ ∀ f ∈ frozen i, ∃ p ∈ ps, p.host = f)
    (hcaught : i.catchUp = .caught → ∀ ps mr, i.positions = some ps → findMostRecent ps = .node mr → GtidLemmas.GSubset mr.gtid execNew)
    (hc : i.catchUp = .caught) :
    ∀ f ∈ frozen i, GtidLemmas.GSubset (total f) execNew := by
  obtain ⟨_, _, _, _, _, ⟨ps, mr, h1, _, h3⟩, _⟩ := promotion_needs cfg i h ok hs
  obtain ⟨hwf, hcov⟩ := hpos ps h1
  have hne : ps ≠ [] := by
    intro he; rw [he] at h3; cases h3
  have hspec := GtidLemmas.mostRecent_spec ps hne (fun p hp => (hwf p hp).1)
  rw [h3] at hspec
  intro f hf
  obtain ⟨p, hp, hpf⟩ := hcov f hf
  have := hspec.2 p hp
  rw [(hwf p hp).2, hpf] at this
  exact GtidLemmas.GSubset.trans this (hcaught hc ps mr h1 h3)

/-- every step of `run st` is emitted by one of its stages -/
theorem mem_run_stage {s : Step} {st : List Stage} (h : s ∈ run st) : ∃ stg ∈ st, s ∈ stg.good ∨ s ∈ stg.bad := by
  induction st with
  | nil => simp at h
  | cons t r ih =>
    rcases mem_run_cons.mp h with ⟨_, h1 | h1⟩ | ⟨_, h1⟩
    · exact ⟨t, by simp, Or.inl h1⟩
    · obtain ⟨stg, hm, hh⟩ := ih h1
      exact ⟨stg, by simp [hm], hh⟩
    · exact ⟨t, by simp, Or.inr h1⟩

theorem run_append_fail {a b : List Stage} (h : ∃ stg ∈ a, stg.ok = false) : run (a ++ b) = run a := by
  rw [run_append]
  have : (a.all fun x => x.ok) = false := by
    apply Bool.eq_false_iff.mpr
    intro hall
    obtain ⟨stg, hm, hf⟩ := h
    rw [List.all_eq_true] at hall
    rw [hall stg hm] at hf
    cases hf
  simp [this]

/-- steps that change the topology -/
def promo : Step → Bool
  | .setWritable .. | .resetSlaveAll .. | .changeMaster .. | .setMasterKey .. | .stopSlave .. | .setRecovery .. => true
  | _ => false

theorem sPre_no_promo (cfg : Cfg) (i : In) (s : Step) (hp : promo s = true) :
    ∀ stg ∈ sPre cfg i, s ∉ stg.good ∧ s ∉ stg.bad := by
  cases s <;> simp [promo] at hp <;> simp [sPre, sPreA, sOnly, sNode, sPick]

theorem emerge_only_on_splitbrain (cfg : Cfg) (i : In) (h : Step.writeEmerge ∈ performSwitchover cfg i) :
    ∃ ps, i.positions = some ps ∧ findMostRecent ps = .splitBrain := by
  rw [performSwitchover_eq] at h
  simp [stages, sPre, sPreA, sOnly, sNode, sPick, pStages, pHead, pReset, pWritable, pEvents, mem_run_cons] at h
  obtain ⟨_, _, _, _, _, _, _, _, _, _, ⟨h10, _⟩, _, _, h12⟩ := h
  obtain ⟨ps, hps⟩ := Option.isSome_iff_exists.mp h10
  refine ⟨ps, hps, ?_⟩
  simpa [psOf, hps] using h12

/-- on split brain nothing is promoted, whatever else happens -/
theorem splitbrain_no_promo (cfg : Cfg) (i : In) (ps : List Pos)
    (hpos : i.positions = some ps) (hsb : findMostRecent ps = .splitBrain) :
    ∀ s ∈ performSwitchover cfg i, promo s = false := by
  intro s hs
  have hps : psOf i = ps := by simp [psOf, hpos]
  have hfail : ∃ stg ∈ sPre cfg i, stg.ok = false := ⟨sNode i, by simp [sPre], by simp [sNode, hps, hsb, isNode]⟩
  rw [performSwitchover_eq, stages, run_append_fail hfail] at hs
  obtain ⟨stg, hm, hh⟩ := mem_run_stage hs
  cases hp : promo s with
  | false => rfl
  | true =>
    obtain ⟨h1, h2⟩ := sPre_no_promo cfg i s hp stg hm
    rcases hh with hh | hh
    · exact absurd hh h1
    · exact absurd hh h2

/-- … and, unless the procedure stopped at "no suitable nodes to switch from", the emergency marker is the last step -/
theorem splitbrain_emerge_last (cfg : Cfg) (i : In) (ps : List Pos)
    (hpos : i.positions = some ps) (hsb : findMostRecent ps = .splitBrain)
    (hreach : Step.positions true ∈ performSwitchover cfg i)
    (hne : ¬ (ps.length = 1 ∧ ps.head?.map (·.host) = some i.sw.from_)) :
    (performSwitchover cfg i).getLast? = some .writeEmerge := by
  have hps : psOf i = ps := by simp [psOf, hpos]
  have hst : stages cfg i = sPreA cfg i ++ ([sOnly i, sNode i, sPick cfg i] ++ pStages i (nmOf cfg i) (mrOf i)) := by
    simp [stages, sPre]
  rw [performSwitchover_eq] at hreach ⊢
  have hA : ∀ stg ∈ sPreA cfg i, stg.ok = true := by
    simp [stages, sPre, sPreA, sOnly, sNode, sPick, pStages, pHead, pReset, pWritable, pEvents, mem_run_cons] at hreach
    simpa [sPreA] using hreach
  have h11 : (sOnly i).ok = true := by
    simp only [sOnly, hps, Bool.not_eq_true', Bool.and_eq_false_iff]
    by_cases hl : ps.length = 1
    · right
      have := fun hh => hne ⟨hl, hh⟩
      simpa using this
    · left; simpa using hl
  have h12 : (sNode i).ok = false := by simp [sNode, hps, hsb, isNode]
  rw [hst, run_append_ok hA, List.cons_append, run_cons, h11, if_pos rfl, List.cons_append, run_cons, h12]
  simp [sOnly, sNode, hps, hsb, mrBad]


/-- corrected `C01.splitbrain_aborts`: for WELL-FORMED positions (the statement without `hwf` is false: an
ill-formed set is not contained in itself, so a single collected position equal to `from` is reported as
split brain by `findMostRecent` but stops the procedure at "no suitable nodes to switch from") -/
theorem splitbrain_aborts (cfg : Cfg) (i : In) (ps : List Pos)
    (hpos : i.positions = some ps) (hsb : findMostRecent ps = .splitBrain)
    (hreach : Step.positions true ∈ performSwitchover cfg i)
    (hwf : ∀ p ∈ ps, WF p.gtid) :
    (performSwitchover cfg i).getLast? = some .writeEmerge ∧
    ∀ s ∈ performSwitchover cfg i, (∀ h ok, s ≠ .setWritable h ok) ∧ (∀ h ok, s ≠ .resetSlaveAll h ok) ∧
      (∀ h t ok, s ≠ .changeMaster h t ok) := by
  constructor
  · apply splitbrain_emerge_last cfg i ps hpos hsb hreach
    rintro ⟨hl, _⟩
    match ps, hl with
    | [p], _ =>
      have hc : contain p.gtid p.gtid = true :=
        (GtidLemmas.contain_iff _ _ (hwf p (by simp)) (hwf p (by simp))).mpr (GtidLemmas.GSubset.refl _)
      simp [findMostRecent, scanMostRecent, detectSplitbrain, hc] at hsb
  · intro s hs
    have := splitbrain_no_promo cfg i ps hpos hsb s hs
    refine ⟨?_, ?_, ?_⟩ <;> intros <;> intro he <;> rw [he] at this <;> cases this

/-- counterexample to `C01.splitbrain_aborts` as stated: one frozen host `b`, which is also the host to switch
from, with an ill-formed position (the empty interval `[5,3)`) -/
def cxIn : In :=
  { cs := [("a", { pingOk := false }), ("b", { pingOk := true, slave := some { state := .running, masterHost := "a" } })],
    active := ["b"], sw := { from_ := "b" }, oldMaster := "a", ro := fun _ => true, io := fun _ => true,
    positions := some [⟨"b", [(⟨"00000000-0000-0000-0000-000000000001", ""⟩, [⟨5, 3⟩])], 0, 0⟩],
    cs2 := [], repoint := fun _ => true }
def cxCfg : Cfg := ⟨false, 1, false, 0, 60⟩

theorem splitbrain_aborts_counterexample :
    ∃ ps, cxIn.positions = some ps ∧ findMostRecent ps = .splitBrain ∧
      Step.positions true ∈ performSwitchover cxCfg cxIn ∧
      (performSwitchover cxCfg cxIn).getLast? = some (.fail "no suitable nodes to switch from") := by
  refine ⟨_, rfl, ?_, by decide +kernel, by decide +kernel⟩
  rfl

/-! #### order -/

def segA (cfg : Cfg) (i : In) : List Step :=
  [.stopOptimization true] ++ (if i.turbo then [.turboPhase true] else []) ++
    (if i.turbo then [.stopOptimization true] else []) ++
    ((workList i).map fun h => Step.freezeRO h (roOk i h)) ++
    ((workList i).filter (· != i.oldMaster)).map (fun h => Step.stopIO h ((pingOk i.cs h == some true) && i.io h)) ++
    [.quorumCheck (frozen i).length (qOk cfg i)]

def segB (_i : In) (nm mr : Pos) : List Step :=
  [.positions true, .chosen nm.host mr.host] ++ (if nm.host != mr.host then [.setOnline mr.host true] else []) ++
    (if nm.host != mr.host then [.changeMaster nm.host mr.host true] else [])

def segD (i : In) (nm mr : Pos) : List Step :=
  [.restate true, .setOnline nm.host true] ++ ((targets i nm).map fun h => Step.changeMaster h nm.host (i.repoint h)) ++
    (if needRecovery i mr then [.setRecovery i.oldMaster true] else []) ++ [.stopSlave nm.host true]

theorem goods_early (cfg : Cfg) (i : In) (nm mr : Pos) :
    goods (sPre cfg i) ++ goods (pHead i nm mr) =
      segA cfg i ++ Step.lockCheck 1 true :: segB i nm mr ++ Step.catchUp i.catchUp :: [] ++ Step.lockCheck 2 true :: segD i nm mr := by
  simp [sPre, sPreA, sOnly, sNode, sPick, pHead, segA, segB, segD]

theorem not_mem_goods {s : Step} {a : List Stage} (h : ∀ stg ∈ a, s ∉ stg.good) : s ∉ goods a := by
  induction a with
  | nil => simp
  | cons t r ih =>
    rw [goods_cons]
    intro hm
    rcases List.mem_append.mp hm with h1 | h1
    · exact h t (by simp) h1
    · exact ih (fun stg hs => h stg (by simp [hs])) h1

theorem not_fin_early (cfg : Cfg) (i : In) (nm mr : Pos) (s : Step) (hf : fin s = true) :
    s ∉ goods (sPre cfg i) ++ goods (pHead i nm mr) := by
  rw [← goods_append]
  exact not_mem_goods fun stg hm => (early_no_fin cfg i nm mr s hf stg hm).1

theorem promotion_order (cfg : Cfg) (i : In) (pre post : List Step) (h : String) (ok : Bool)
    (hsplit : performSwitchover cfg i = pre ++ Step.setWritable h ok :: post) :
    ∃ a b c d, pre = a ++ Step.lockCheck 1 true :: b ++ Step.catchUp i.catchUp :: c ++ Step.lockCheck 2 true :: d ∧
      (∀ s ∈ b ++ c ++ d, (∀ x o, s ≠ .freezeRO x o) ∧ (∀ x o, s ≠ .stopIO x o)) ∧
      Step.resetSlaveAll h true ∈ d := by
  have hs : Step.setWritable h ok ∈ performSwitchover cfg i := by rw [hsplit]; simp
  obtain ⟨hr, hreset, hh, _⟩ := writable_reach hs
  let P : Step → Prop := fun s => ∃ x o, s = .setWritable x o
  have hnP : ∀ s, P s → fin s = true := by rintro s ⟨x, o, rfl⟩; rfl
  have key : ∃ y rest, P y ∧ (∀ s ∈ rest, ¬ P s) ∧ run (pFin i (nmOf cfg i)) =
      [.resetSlaveAll (nmOf cfg i).host true, .updateActiveNodes] ++ y :: rest := by
    simp only [pFin, pReset, pWritable, pEvents, run_cons, run_nil, hreset, if_true]
    cases i.writableOk
    · exact ⟨.setWritable (nmOf cfg i).host false, [], ⟨_, _, rfl⟩, by simp, by simp⟩
    · cases i.eventsOk
      · exact ⟨.setWritable (nmOf cfg i).host true, [.reenableEvents false], ⟨_, _, rfl⟩, by simp [P], by simp⟩
      · exact ⟨.setWritable (nmOf cfg i).host true, [.reenableEvents true, .setMasterKey (nmOf cfg i).host i.masterKeyOk],
          ⟨_, _, rfl⟩, by simp [P], by simp⟩
  obtain ⟨y, rest, hy, hrest, hfin⟩ := key
  have heq := reached_eq hr
  rw [hfin, hsplit, ← List.append_assoc] at heq
  have hG : ∀ s ∈ goods (sPre cfg i) ++ goods (pHead i (nmOf cfg i) (mrOf i)) ++
      [Step.resetSlaveAll (nmOf cfg i).host true, Step.updateActiveNodes], ¬ P s := by
    intro s hm hp
    rcases List.mem_append.mp hm with h1 | h1
    · exact not_fin_early cfg i _ _ s (hnP s hp) h1
    · obtain ⟨x, o, rfl⟩ := hp
      simp at h1
  obtain ⟨hpre, _, _⟩ := split_unique hG hrest ⟨h, ok, rfl⟩ heq
  rw [goods_early] at hpre
  refine ⟨segA cfg i, segB i (nmOf cfg i) (mrOf i), [],
    segD i (nmOf cfg i) (mrOf i) ++ [Step.resetSlaveAll (nmOf cfg i).host true, Step.updateActiveNodes], ?_, ?_, ?_⟩
  · rw [hpre]; simp
  · intro s hm
    simp only [List.append_nil, segB, segD] at hm
    refine ⟨?_, ?_⟩ <;> intro x o he <;> subst he <;> simp at hm
  · rw [hh]; simp

theorem promoted_is_target_or_frozen (cfg : Cfg) (i : In) (h : String) (ok : Bool)
    (hs : Step.setWritable h ok ∈ performSwitchover cfg i) :
    (i.sw.to ≠ "" ∧ h = i.sw.to) ∨ (i.sw.to = "" ∧ ∃ ps p, i.positions = some ps ∧ p ∈ ps ∧ p.host = h ∧ (i.sw.from_ = "" ∨ h ≠ i.sw.from_)) := by
  obtain ⟨hr, _, hh, _⟩ := writable_reach hs
  have g := hr.guards
  obtain ⟨ps, _, hpos, hps, _, _, _⟩ := g.positions
  rcases g.newMaster hps with ⟨h1, h2⟩ | ⟨h1, h2, h3⟩
  · exact Or.inl ⟨h1, by rw [hh, h2]⟩
  · exact Or.inr ⟨h1, ps, nmOf cfg i, hpos, h2, hh.symm, by rw [hh]; exact h3⟩


/-! ### C07 -/

def IsMasterKey (s : Step) : Prop := ∃ h ok, s = .setMasterKey h ok
def IsLostLock (s : Step) : Prop := ∃ n, s = .lockCheck n false

theorem dropLast_rejectBad (ok : Bool) : ∀ s ∈ (rejectBad ok).dropLast, s = .rejectInside := by
  cases ok <;> simp [rejectBad]

theorem dropLast_mrBad (x : MostRecent) : (mrBad x).dropLast = [] := by
  cases x <;> simp [mrBad]

theorem lastOnly_masterKey (cfg : Cfg) (i : In) : LastOnly IsMasterKey (stages cfg i) := by
  have hr := dropLast_rejectBad i.rejectOk
  simp [LastOnly, stages, sPre, sPreA, sOnly, sNode, sPick, pStages, pHead, pReset, pWritable, pEvents, IsMasterKey,
    dropLast_mrBad]
  constructor
  · intro s hs x; rw [hr s hs]; simp
  · rintro s (⟨a, _, rfl⟩ | rfl) x <;> simp

theorem lastOnly_lostLock (cfg : Cfg) (i : In) : LastOnly IsLostLock (stages cfg i) := by
  have hr := dropLast_rejectBad i.rejectOk
  simp [LastOnly, stages, sPre, sPreA, sOnly, sNode, sPick, pStages, pHead, pReset, pWritable, pEvents, IsLostLock,
    dropLast_mrBad]
  constructor
  · intro s hs x; rw [hr s hs]; simp
  · rintro s (⟨a, _, rfl⟩ | rfl) x <;> simp

theorem master_key_last (cfg : Cfg) (i : In) (h : String) (ok : Bool)
    (hs : Step.setMasterKey h ok ∈ performSwitchover cfg i) :
    (performSwitchover cfg i).getLast? = some (.setMasterKey h ok) := by
  rw [performSwitchover_eq] at hs ⊢
  exact last_of_lastOnly (run_lastOnly _ _ (lastOnly_masterKey cfg i)) hs ⟨h, ok, rfl⟩

theorem crash_keeps_old_master_key (cfg : Cfg) (i : In) (pre post : List Step) (hpost : post ≠ [])
    (hsplit : performSwitchover cfg i = pre ++ post) : ∀ h ok, Step.setMasterKey h ok ∉ pre := by
  rw [performSwitchover_eq] at hsplit
  intro h ok hm
  exact prefix_of_lastOnly (run_lastOnly _ _ (lastOnly_masterKey cfg i)) hsplit hpost _ hm ⟨h, ok, rfl⟩

theorem lost_lock_stops (cfg : Cfg) (i : In) (n : Nat) (hs : Step.lockCheck n false ∈ performSwitchover cfg i) :
    (performSwitchover cfg i).getLast? = some (.lockCheck n false) := by
  rw [performSwitchover_eq] at hs ⊢
  exact last_of_lastOnly (run_lastOnly _ _ (lastOnly_lostLock cfg i)) hs ⟨n, rfl⟩

theorem master_key_after_writable (cfg : Cfg) (i : In) (h : String) (ok : Bool)
    (hs : Step.setMasterKey h ok ∈ performSwitchover cfg i) :
    Step.setWritable h true ∈ performSwitchover cfg i ∧ Step.resetSlaveAll h true ∈ performSwitchover cfg i := by
  obtain ⟨hr, hm⟩ := fin_reach (by rfl) hs
  simp [pFin, pReset, pWritable, pEvents, mem_run_cons] at hm
  obtain ⟨h1, h2, h3, h4, _⟩ := hm
  rw [reached_eq hr]
  simp [pFin, pReset, pWritable, pEvents, run_cons, h1, h2, h3, h4]

theorem at_most_one_promotion (cfg : Cfg) (i : In) (h1 h2 : String) (o1 o2 : Bool)
    (a : Step.setWritable h1 o1 ∈ performSwitchover cfg i) (b : Step.setWritable h2 o2 ∈ performSwitchover cfg i) :
    h1 = h2 ∧ o1 = o2 := by
  obtain ⟨_, _, ha, ha'⟩ := writable_reach a
  obtain ⟨_, _, hb, hb'⟩ := writable_reach b
  exact ⟨by rw [ha, hb], by rw [ha', hb']⟩


/-! ### C11 -/

theorem needRecovery_of_unconfirmed (i : In) (mr : Pos)
    (hu : i.oldStatus = .err ∨ i.oldStatus = .notReplica ∨
      ∃ st ex, i.oldStatus = .replica st ex ∧ (st = .error ∨ isSlaveAhead (parseD ex) mr.gtid = true)) :
    needRecovery i mr = true := by
  unfold needRecovery
  rcases hu with h | h | ⟨st, ex, h, h'⟩
  · rw [h]
  · rw [h]
  · rw [h]
    simp only [isSlavePermanentlyLost]
    rcases h' with h' | h'
    · subst h'; rfl
    · rw [h']; simp

theorem marked_when_unconfirmed (cfg : Cfg) (i : In) (ps : List Pos) (mr : Pos)
    (pre post : List Step) (h : String) (ok : Bool)
    (hpos : i.positions = some ps) (hmr : findMostRecent ps = .node mr)
    (hsplit : performSwitchover cfg i = pre ++ Step.resetSlaveAll h ok :: post)
    (hu : i.oldStatus = .err ∨ i.oldStatus = .notReplica ∨
      ∃ st ex, i.oldStatus = .replica st ex ∧ (st = .error ∨ isSlaveAhead (parseD ex) mr.gtid = true)) :
    Step.setRecovery i.oldMaster true ∈ pre := by
  have hs : Step.resetSlaveAll h ok ∈ performSwitchover cfg i := by rw [hsplit]; simp
  obtain ⟨hr, _⟩ := fin_reach (by rfl) hs
  have hmrOf : mrOf i = mr := by simp [mrOf, psOf, hpos, hmr]
  have hnr : needRecovery i (mrOf i) = true := by rw [hmrOf]; exact needRecovery_of_unconfirmed i mr hu
  let P : Step → Prop := fun s => ∃ x o, s = .resetSlaveAll x o
  have key : ∃ y rest, P y ∧ (∀ s ∈ rest, ¬ P s) ∧ run (pFin i (nmOf cfg i)) = y :: rest := by
    simp only [pFin, pReset, pWritable, pEvents, run_cons, run_nil]
    cases i.resetOk
    · exact ⟨.resetSlaveAll (nmOf cfg i).host false, [], ⟨_, _, rfl⟩, by simp, by simp⟩
    · refine ⟨.resetSlaveAll (nmOf cfg i).host true, _, ⟨_, _, rfl⟩, ?_, by simp; rfl⟩
      cases i.writableOk <;> cases i.eventsOk <;> simp [P]
  obtain ⟨y, rest, hy, hrest, hfin⟩ := key
  have heq := reached_eq hr
  rw [hfin, hsplit] at heq
  have hG : ∀ s ∈ goods (sPre cfg i) ++ goods (pHead i (nmOf cfg i) (mrOf i)), ¬ P s := by
    rintro s hm ⟨x, o, rfl⟩
    exact not_fin_early cfg i _ _ _ (by rfl) hm
  obtain ⟨hpre, _, _⟩ := split_unique hG hrest ⟨h, ok, rfl⟩ heq
  rw [hpre]
  apply List.mem_append_right
  simp [pHead, hnr]

theorem workList_subset (i : In) : ∀ h ∈ workList i, h ∈ i.active := by
  intro h hw
  unfold workList at hw
  split at hw
  · exact (List.mem_filter.mp hw).1
  · exact hw

theorem promoted_is_listed (cfg : Cfg) (i : In) (h : String) (ok : Bool)
    (hs : Step.setWritable h ok ∈ performSwitchover cfg i)
    (hpos : ∀ ps, i.positions = some ps → ∀ p ∈ ps, p.host ∈ frozen i) :
    h ∈ i.active := by
  have g := (writable_reach hs).1.guards
  rcases promoted_is_target_or_frozen cfg i h ok hs with ⟨h1, h2⟩ | ⟨_, ps, p, h2, h3, h4, _⟩
  · rcases g.target with h3 | h3
    · exact absurd h3 h1
    · rw [h2]; exact h3
  · rw [← h4]
    exact (frozen_spec i _ (hpos ps h2 p h3)).1

/-! ### C19 (switchover clause): what precedes phase 1 -/

/-- the steps before phase 1 of a run that gets that far -/
def optPrefix (i : In) : List Step :=
  Step.stopOptimization true :: (if i.turbo then [.turboPhase true, .stopOptimization true] else [])

/-- phase 1 -/
def sFreeze (i : In) : Stage := { ok := true, good := (workList i).map fun h => Step.freezeRO h (roOk i h) }

/-- the stages after phase 1 -/
def sAfterFreeze (cfg : Cfg) (i : In) : List Stage :=
  (sPreA cfg i).drop 7 ++ ([sOnly i, sNode i, sPick cfg i] ++ pStages i (nmOf cfg i) (mrOf i))

theorem stages_split_freeze (cfg : Cfg) (i : In) :
    stages cfg i = (sPreA cfg i).take 6 ++ (sFreeze i :: sAfterFreeze cfg i) := by
  simp [stages, sPre, sPreA, sFreeze, sAfterFreeze]

theorem goods_before_freeze (cfg : Cfg) (i : In) : goods ((sPreA cfg i).take 6) = optPrefix i := by
  cases h : i.turbo <;> simp [sPreA, optPrefix, h]

theorem after_no_freeze (cfg : Cfg) (i : In) (x : String) (o : Bool) :
    ∀ stg ∈ sAfterFreeze cfg i, Step.freezeRO x o ∉ stg.good ∧ Step.freezeRO x o ∉ stg.bad := by
  simp [sAfterFreeze, sPreA, sOnly, sNode, sPick, pStages, pHead, pReset, pWritable, pEvents]

theorem no_freeze_after (cfg : Cfg) (i : In) (x : String) (o : Bool) :
    Step.freezeRO x o ∉ run (sAfterFreeze cfg i) := by
  intro h
  obtain ⟨stg, hm, hh⟩ := mem_run_stage h
  obtain ⟨h1, h2⟩ := after_no_freeze cfg i x o stg hm
  rcases hh with hh | hh
  · exact h1 hh
  · exact h2 hh

/-- a `P`-step of `G ++ (M ++ R)`, where neither `G` nor `R` has any, lies in `M` -/
theorem split_middle {P : Step → Prop} {G M R pre post : List Step} {x : Step}
    (hG : ∀ s ∈ G, ¬ P s) (hR : ∀ s ∈ R, ¬ P s) (hx : P x)
    (h : pre ++ x :: post = G ++ (M ++ R)) : ∃ f g, pre = G ++ f ∧ M = f ++ x :: g := by
  rcases List.append_eq_append_iff.mp h with ⟨a', h1, h2⟩ | ⟨c', h1, h2⟩
  · cases a' with
    | nil =>
      simp at h1 h2
      cases M with
      | nil => exact absurd hx (hR x (by simp at h2; rw [← h2]; simp))
      | cons m M' => simp at h2; exact ⟨[], M', by simp [h1], by simp [h2.1]⟩
    | cons y a'' =>
      simp at h2
      exact absurd hx (hG x (by rw [h1, ← h2.1]; simp))
  · rcases List.append_eq_append_iff.mp h2 with ⟨a', h3, h4⟩ | ⟨c'', h3, h4⟩
    · exact absurd hx (hR x (by rw [h4]; simp))
    · cases c'' with
      | nil => simp at h4; exact absurd hx (hR x (by rw [← h4]; simp))
      | cons y c3 => simp at h4; exact ⟨c', c3, h1, by rw [h3, h4.1]⟩

theorem before_freeze (cfg : Cfg) (i : In) (pre post : List Step) (h : String) (ok : Bool)
    (hs : performSwitchover cfg i = pre ++ Step.freezeRO h ok :: post) :
    ∃ f, pre = optPrefix i ++ f ∧ ∀ s ∈ f, ∃ x o, s = Step.freezeRO x o := by
  have hm : Step.freezeRO h ok ∈ performSwitchover cfg i := by rw [hs]; simp
  rw [performSwitchover_eq, stages_split_freeze] at hm
  obtain ⟨hA, _⟩ := mem_run_append hm (by simp [sPreA])
  have heq := performSwitchover_eq cfg i
  rw [stages_split_freeze, run_append_ok hA, goods_before_freeze, hs, run_cons] at heq
  simp only [sFreeze, if_true] at heq
  have hG : ∀ s ∈ optPrefix i, ¬ ∃ x o, s = Step.freezeRO x o := by
    cases ht : i.turbo <;> simp [optPrefix, ht]
  have hR : ∀ s ∈ run (sAfterFreeze cfg i), ¬ ∃ x o, s = Step.freezeRO x o := by
    rintro s hm ⟨x, o, rfl⟩
    exact no_freeze_after cfg i x o hm
  obtain ⟨f, g, h1, h2⟩ := split_middle (P := fun s => ∃ x o, s = Step.freezeRO x o) hG hR ⟨h, ok, rfl⟩ heq
  refine ⟨f, h1, fun s hsf => ?_⟩
  have : s ∈ (workList i).map fun h => Step.freezeRO h (roOk i h) := by rw [h2]; simp [hsf]
  obtain ⟨x, _, rfl⟩ := List.mem_map.mp this
  exact ⟨_, _, rfl⟩

end SwitchoverLemmas
