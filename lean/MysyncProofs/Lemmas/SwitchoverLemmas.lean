/- Helper lemmas for C01 / C07 / C11 (statements of the property theorems are fixed in MysyncProofs/C01.lean, C07.lean, C11.lean). -/
import MysyncModel.App.Switchover
import MysyncModel.World.Env
import MysyncProofs.Lemmas.GtidLemmas

namespace SwitchoverLemmas
open NS Gtid Select Switchover

end SwitchoverLemmas
