/-
Helper lemmas for MysyncProofs/C02Fault.lean (the single-fault safety machine with list changes).

The quorum arithmetic is the GENERATED one; the only lemma that looks inside a generated definition is `req_pos`
(its script does not depend on whether the minimum is written `min a b` or `if b < a then b else a`).  The failover
quorum is not used at all: under the single-fault budget every listed host that is not faulty is frozen.
-/
import MysyncModel.Proto.SafetyFault
import MysyncProofs.Lemmas.QuorumSpec

namespace SafetyFaultLemmas
open SafetyF Gen.SwitchHelper

/-! ### quorum arithmetic -/

theorem tdiv_two_pos (n : Nat) (h2 : 2 ≤ n) : 1 ≤ Int.tdiv (n : Int) 2 := by
  rw [Int.tdiv_eq_ediv_of_nonneg (by omega)]
  omega

/-- with at least two listed hosts and a configured count of at least one, the master waits for at least one replica.
(through the specification lemma: the generated definition is unfolded in Lemmas/QuorumSpec.lean only) -/
theorem req_pos (sh : SwitchHelper) (l : List String) (h2 : 2 ≤ l.length)
    (hw : 1 ≤ sh.rplSemiSyncMasterWaitForSlaveCount) : 1 ≤ GetRequiredWaitSlaveCount sh l := by
  have hdiv := tdiv_two_pos l.length h2
  rw [QuorumSpec.req_spec]
  omega

/-! ### `eraseDups` / `nodupB` -/

theorem eraseDups_length_le {α : Type} [BEq α] :
    ∀ (n : Nat) (A : List α), A.length ≤ n → A.eraseDups.length ≤ A.length := by
  intro n
  induction n with
  | zero =>
    intro A h
    cases A with
    | nil => simp
    | cons a as => simp at h
  | succ n ih =>
    intro A h
    cases A with
    | nil => simp
    | cons a as =>
      rw [List.eraseDups_cons]
      have h1 : (as.filter fun b => !b == a).length ≤ as.length := List.length_filter_le _ _
      have h2 : as.length ≤ n := by simpa using h
      have h3 := ih (as.filter fun b => !b == a) (by omega)
      simp only [List.length_cons]
      omega

theorem nodup_of_eraseDups_length {α : Type} [BEq α] [LawfulBEq α] :
    ∀ (A : List α), A.eraseDups.length = A.length → A.Nodup := by
  intro A
  induction A with
  | nil => intro _; exact List.nodup_nil
  | cons a as ih =>
    intro h
    rw [List.eraseDups_cons] at h
    have h1 : (as.filter fun b => !b == a).length ≤ as.length := List.length_filter_le _ _
    have h3 := eraseDups_length_le (as.filter fun b => !b == a).length (as.filter fun b => !b == a) (Nat.le_refl _)
    simp only [List.length_cons] at h
    have h4 : (as.filter fun b => !b == a).length = as.length := by omega
    have h5 : as.filter (fun b => !b == a) = as :=
      List.filter_eq_self.mpr (List.length_filter_eq_length_iff.mp h4)
    rw [h5] at h
    have hna : a ∉ as := by
      intro hmem
      have := List.length_filter_eq_length_iff.mp h4 a hmem
      simp at this
    exact List.nodup_cons.mpr ⟨hna, ih (by omega)⟩

theorem nodup_of_nodupB (l : List Host) (h : nodupB l = true) : l.Nodup := by
  simp only [nodupB, decide_eq_true_eq] at h
  exact nodup_of_eraseDups_length l h

/-! ### small list facts -/

/-- two different members: at least two elements -/
theorem two_le_length_of_mem_ne {α : Type} (l : List α) (a b : α) (ha : a ∈ l) (hb : b ∈ l) (hab : a ≠ b) :
    2 ≤ l.length := by
  match l, ha, hb with
  | [], ha, _ => cases ha
  | [x], ha, hb =>
    have h1 : a = x := by simpa using ha
    have h2 : b = x := by simpa using hb
    exact absurd (h1.trans h2.symm) hab
  | _ :: _ :: _, _, _ => simp

/-- a duplicate-free list whose members all equal `m` has at most one element -/
theorem length_le_one_of_all_eq {α : Type} (l : List α) (m : α) (hnd : l.Nodup) (hall : ∀ x ∈ l, x = m) :
    l.length ≤ 1 := by
  match l, hnd, hall with
  | [], _, _ => simp
  | [_], _, _ => simp
  | x :: y :: rest, hnd, hall =>
    have hx : x = m := hall x (by simp)
    have hy : y = m := hall y (by simp)
    have hne : x ∉ y :: rest := (List.nodup_cons.mp hnd).1
    exact absurd (by rw [hx, hy]; simp) hne

/-! ### the state machine: observations -/

theorem alive_iff (σ : St) (h : Host) : alive σ h = true ↔ σ.dead ≠ some h := by
  simp [alive]

theorem not_alive_iff (σ : St) (h : Host) : (!alive σ h) = true ↔ σ.dead = some h := by
  simp [alive]

theorem has_add_of_has (σ : St) (hs : List Host) (ts : List Txn) (h : Host) (t : Txn)
    (hh : has σ h t = true) : has { σ with recv := add σ hs ts } h t = true := by
  simp only [has, add] at *
  split
  · simp only [List.contains_eq_mem, List.mem_append, decide_eq_true_eq] at *
    exact Or.inl hh
  · exact hh

theorem has_add_of_mem (σ : St) (hs : List Host) (t : Txn) (h : Host) (hh : h ∈ hs) :
    has { σ with recv := add σ hs [t] } h t = true := by
  simp only [has, add]
  have : hs.contains h = true := by simpa using hh
  rw [if_pos this]
  simp

/-- `has` does not look at the list, the master, the acknowledged set or the faulty host -/
theorem has_congr (σ τ : St) (hr : τ.recv = σ.recv) (h : Host) (t : Txn) : has τ h t = has σ h t := by
  simp only [has, hr]

/-! ### the inductive invariant -/

/-- a listed replica holds `t` -/
def K (σ : St) (t : Txn) : Prop := ∃ a ∈ σ.l, a ≠ σ.m ∧ has σ a t = true
/-- a registered host that is not listed (and is not the master) holds `t` -/
def U (σ : St) (t : Txn) : Prop := ∃ d ∈ σ.hosts, d ∉ σ.l ∧ d ≠ σ.m ∧ has σ d t = true
/-- no replica is listed -/
def S (σ : St) : Prop := ∀ a ∈ σ.l, a = σ.m

/-- well-formedness of the configuration -/
structure WF (sh : SwitchHelper) (σ : St) : Prop where
  hnd : σ.hosts.Nodup
  two : 2 ≤ σ.hosts.length
  lnd : σ.l.Nodup
  ml : σ.m ∈ σ.l
  sub : ∀ h ∈ σ.l, h ∈ σ.hosts
  w : 1 ≤ sh.rplSemiSyncMasterWaitForSlaveCount

structure Inv (sh : SwitchHelper) (σ : St) : Prop where
  wf : WF sh σ
  /-- every acknowledged transaction is on the master -/
  i1 : ∀ t ∈ σ.acked, has σ σ.m t = true
  /-- … and on a listed replica, or on an evicted host, or the master is alone in the list -/
  i2 : ∀ t ∈ σ.acked, K σ t ∨ U σ t ∨ S σ
  /-- when the master is the faulty host, a listed replica (not faulty, hence frozen by a failover) holds it -/
  i3 : σ.dead = some σ.m → ∀ t ∈ σ.acked, K σ t

/-- every registered host listed: neither `U` nor `S` is possible -/
theorem K_of_converged (sh : SwitchHelper) (σ : St) (wf : WF sh σ) (hconv : ∀ h ∈ σ.hosts, h ∈ σ.l) (t : Txn)
    (h : K σ t ∨ U σ t ∨ S σ) : K σ t := by
  rcases h with h | h | h
  · exact h
  · obtain ⟨d, hd, hdl, _, _⟩ := h
    exact absurd (hconv d hd) hdl
  · have := length_le_one_of_all_eq σ.hosts σ.m wf.hnd (fun x hx => h x (hconv x hx))
    have := wf.two
    omega

theorem inv_init (sh : SwitchHelper) (σ : St) (hnd : σ.hosts.Nodup) (two : 2 ≤ σ.hosts.length) (full : σ.l = σ.hosts)
    (hm : σ.m ∈ σ.hosts) (fresh : σ.acked = []) (w : 1 ≤ sh.rplSemiSyncMasterWaitForSlaveCount) : Inv sh σ := by
  refine ⟨⟨hnd, two, full ▸ hnd, full ▸ hm, fun h hh => full ▸ hh, w⟩, ?_, ?_, ?_⟩
  · intro t ht; rw [fresh] at ht; cases ht
  · intro t ht; rw [fresh] at ht; cases ht
  · intro _ t ht; rw [fresh] at ht; cases ht

theorem inv_commit (sh : SwitchHelper) (jg : Bool) (σ : St) (t : Txn) (A : List Host) (hinv : Inv sh σ)
    (hen : enabled sh jg σ (.commit t A) = true) :
    Inv sh { σ with recv := add σ (σ.m :: A) [t], acked := t :: σ.acked } := by
  obtain ⟨wf, i1, i2, _⟩ := hinv
  simp only [enabled, Bool.and_eq_true, List.all_eq_true, decide_eq_true_eq, bne_iff_ne, ne_eq,
    List.contains_eq_mem, alive_iff] at hen
  obtain ⟨⟨⟨hma, hall⟩, _⟩, hreq⟩ := hen
  refine ⟨⟨wf.hnd, wf.two, wf.lnd, wf.ml, wf.sub, wf.w⟩, ?_, ?_, ?_⟩
  · intro t' ht'
    rcases List.mem_cons.mp ht' with h | h
    · subst h
      exact has_add_of_mem σ (σ.m :: A) t' σ.m List.mem_cons_self
    · exact has_add_of_has σ _ _ _ _ (i1 t' h)
  · intro t' ht'
    rcases List.mem_cons.mp ht' with h | h
    · subst h
      by_cases hS : S σ
      · exact Or.inr (Or.inr hS)
      · left
        have : ∃ a ∈ σ.l, a ≠ σ.m := by
          simp only [S] at hS
          exact Classical.not_forall_not.mp (fun hc => hS (fun a ha => Classical.byContradiction fun hne => hc a ⟨ha, hne⟩))
        obtain ⟨a, hal, ham⟩ := this
        have h2 : 2 ≤ σ.l.length := two_le_length_of_mem_ne σ.l a σ.m hal wf.ml ham
        have hr := req_pos sh σ.l h2 wf.w
        cases A with
        | nil => simp at hreq; omega
        | cons a' A' =>
          obtain ⟨⟨hl, hne⟩, _⟩ := hall a' List.mem_cons_self
          exact ⟨a', hl, hne, has_add_of_mem σ (σ.m :: a' :: A') t' a' (by simp)⟩
    · rcases i2 t' h with ⟨a, hal, ham, hat⟩ | ⟨d, hdh, hdl, hdm, hdt⟩ | hS
      · exact Or.inl ⟨a, hal, ham, has_add_of_has σ _ _ _ _ hat⟩
      · exact Or.inr (Or.inl ⟨d, hdh, hdl, hdm, has_add_of_has σ _ _ _ _ hdt⟩)
      · exact Or.inr (Or.inr hS)
  · intro hd
    exact absurd hd hma

theorem inv_replicate (sh : SwitchHelper) (σ : St) (h : Host) (T : List Txn) (hinv : Inv sh σ) :
    Inv sh { σ with recv := add σ [h] T } := by
  obtain ⟨wf, i1, i2, i3⟩ := hinv
  have mono : ∀ t, K σ t → K { σ with recv := add σ [h] T } t := by
    rintro t ⟨a, hal, ham, hat⟩
    exact ⟨a, hal, ham, has_add_of_has σ _ _ _ _ hat⟩
  refine ⟨⟨wf.hnd, wf.two, wf.lnd, wf.ml, wf.sub, wf.w⟩, ?_, ?_, ?_⟩
  · intro t ht
    exact has_add_of_has σ _ _ _ _ (i1 t ht)
  · intro t ht
    rcases i2 t ht with hK | ⟨d, hdh, hdl, hdm, hdt⟩ | hS
    · exact Or.inl (mono t hK)
    · exact Or.inr (Or.inl ⟨d, hdh, hdl, hdm, has_add_of_has σ _ _ _ _ hdt⟩)
    · exact Or.inr (Or.inr hS)
  · intro hd t ht
    exact mono t (i3 hd t ht)

theorem inv_publish (sh : SwitchHelper) (σ : St) (l' : List Host) (hinv : Inv sh σ)
    (hen : enabled sh true σ (.publish l') = true) :
    Inv sh { σ with l := l' } := by
  obtain ⟨wf, i1, i2, _⟩ := hinv
  simp only [enabled, Bool.and_eq_true, Bool.or_eq_true, List.all_eq_true, List.contains_eq_mem,
    decide_eq_true_eq, alive_iff, not_alive_iff, Bool.not_true, Bool.false_or] at hen
  obtain ⟨⟨⟨⟨⟨hma, hml'⟩, hsub⟩, hdup⟩, hdrop⟩, hjoin⟩ := hen
  refine ⟨⟨wf.hnd, wf.two, nodup_of_nodupB l' hdup, hml', hsub, wf.w⟩, i1, ?_, ?_⟩
  · intro t ht
    rcases i2 t ht with ⟨a, hal, ham, hat⟩ | ⟨d, hdh, hdl, hdm, hdt⟩ | hS
    · by_cases hal' : a ∈ l'
      · exact Or.inl ⟨a, hal', ham, hat⟩
      · exact Or.inr (Or.inl ⟨a, wf.sub a hal, hal', ham, hat⟩)
    · by_cases hdl' : d ∈ l'
      · exact Or.inl ⟨d, hdl', hdm, hdt⟩
      · exact Or.inr (Or.inl ⟨d, hdh, hdl', hdm, hdt⟩)
    · by_cases hS' : ∀ a ∈ l', a = σ.m
      · exact Or.inr (Or.inr hS')
      · left
        have : ∃ a ∈ l', a ≠ σ.m :=
          Classical.not_forall_not.mp (fun hc => hS' (fun a ha => Classical.byContradiction fun hne => hc a ⟨ha, hne⟩))
        obtain ⟨a, hal', ham⟩ := this
        have hnl : a ∉ σ.l := fun hal => ham (hS a hal)
        rcases hjoin a hal' with h | ⟨_, h⟩
        · exact absurd h hnl
        · exact ⟨a, hal', ham, h t ht⟩
  · intro hd
    exact absurd hd hma

theorem inv_failover (sh : SwitchHelper) (jg : Bool) (σ : St) (n : Host) (F : List Host) (hinv : Inv sh σ)
    (hen : enabled sh jg σ (.failover n F) = true) :
    Inv sh { σ with m := n } := by
  obtain ⟨wf, i1, i2, i3⟩ := hinv
  simp only [enabled, Bool.and_eq_true, Bool.or_eq_true, List.all_eq_true, List.contains_eq_mem,
    decide_eq_true_eq, alive_iff, not_alive_iff] at hen
  obtain ⟨⟨⟨⟨⟨hF, _⟩, hn⟩, hall⟩, _⟩, hcatch⟩ := hen
  have hcu : ∀ f ∈ F, ∀ t, has σ f t = true → has σ n t = true := by
    intro f hf t hft
    have : t ∈ σ.recv f := by simpa [has] using hft
    exact hcatch f hf t this
  refine ⟨⟨wf.hnd, wf.two, wf.lnd, (hF n hn).1, wf.sub, wf.w⟩, ?_, ?_, ?_⟩
  · intro t ht
    show has σ n t = true
    by_cases hd : σ.dead = some σ.m
    · obtain ⟨a, hal, ham, hat⟩ := i3 hd t ht
      rcases hall a hal with h | h
      · exact hcu a h t hat
      · rw [hd] at h
        exact absurd (Option.some.inj h).symm ham
    · rcases hall σ.m wf.ml with h | h
      · exact hcu σ.m h t (i1 t ht)
      · exact absurd h hd
  · intro t ht
    by_cases hnm : n = σ.m
    · subst hnm
      exact i2 t ht
    · exact Or.inl ⟨σ.m, wf.ml, fun h => hnm h.symm, i1 t ht⟩
  · intro hd
    exact absurd hd (hF n hn).2

theorem inv_die (sh : SwitchHelper) (jg : Bool) (σ : St) (h : Host) (hinv : Inv sh σ)
    (hen : enabled sh jg σ (.die h) = true) :
    Inv sh { σ with dead := some h } := by
  obtain ⟨wf, i1, i2, _⟩ := hinv
  simp only [enabled, Bool.and_eq_true, Bool.or_eq_true, List.all_eq_true, List.contains_eq_mem,
    decide_eq_true_eq, bne_iff_ne, ne_eq] at hen
  obtain ⟨_, hconv⟩ := hen
  refine ⟨⟨wf.hnd, wf.two, wf.lnd, wf.ml, wf.sub, wf.w⟩, i1, i2, ?_⟩
  intro hd t ht
  have hhm : h = σ.m := Option.some.inj hd
  rcases hconv with hne | hconv
  · exact absurd hhm hne
  · exact K_of_converged sh σ wf hconv t (i2 t ht)

theorem inv_heal (sh : SwitchHelper) (σ : St) (hinv : Inv sh σ) : Inv sh { σ with dead := none } := by
  obtain ⟨wf, i1, i2, _⟩ := hinv
  refine ⟨⟨wf.hnd, wf.two, wf.lnd, wf.ml, wf.sub, wf.w⟩, i1, i2, ?_⟩
  intro hd
  cases hd

theorem inv_step (sh : SwitchHelper) (σ : St) (s : Step) (hinv : Inv sh σ) : Inv sh (step sh true σ s) := by
  unfold step
  by_cases hen : enabled sh true σ s = true
  · simp only [hen, Bool.not_true, Bool.false_eq_true, if_false]
    cases s with
    | commit t A => exact inv_commit sh true σ t A hinv hen
    | replicate h T => exact inv_replicate sh σ h T hinv
    | publish l' => exact inv_publish sh σ l' hinv hen
    | failover n F => exact inv_failover sh true σ n F hinv hen
    | die h => exact inv_die sh true σ h hinv hen
    | heal => exact inv_heal sh σ hinv
  · have : enabled sh true σ s = false := by simpa using hen
    simp only [this, Bool.not_false, if_true]
    exact hinv

theorem inv_run (sh : SwitchHelper) (steps : List Step) :
    ∀ σ : St, Inv sh σ → Inv sh (run sh true σ steps) := by
  induction steps with
  | nil => intro σ h; exact h
  | cons s rest ih =>
    intro σ h
    simp only [run, List.foldl_cons]
    exact ih (step sh true σ s) (inv_step sh σ s h)

/-- no step changes the registered hosts -/
theorem step_hosts (sh : SwitchHelper) (jg : Bool) (σ : St) (s : Step) : (step sh jg σ s).hosts = σ.hosts := by
  unfold step
  split
  · rfl
  · cases s <;> rfl

theorem run_hosts (sh : SwitchHelper) (jg : Bool) (steps : List Step) :
    ∀ σ : St, (run sh jg σ steps).hosts = σ.hosts := by
  induction steps with
  | nil => intro σ; rfl
  | cons s rest ih =>
    intro σ
    simp only [run, List.foldl_cons]
    exact (ih (step sh jg σ s)).trans (step_hosts sh jg σ s)

end SafetyFaultLemmas
