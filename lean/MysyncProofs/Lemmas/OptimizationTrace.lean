/- C19 helper lemmas, part 1: `Equal`, `runCalls`, and the shape of `sync`'s trace. -/
import MysyncModel.App.Optimization
import MysyncProofs.Lemmas.ReplSettingsSpec

namespace OptimizationLemmas
open NS Optimization

/-! ### `Equal` -/

theorem equal_iff (a b : RS) : Gen.ReplSettings.Equal a b = true ↔ a = b :=
  ReplSettingsSpec.equal_iff_eq a b

theorem equal_refl (a : RS) : Gen.ReplSettings.Equal a a = true := (equal_iff a a).2 rfl

/-! ### `runCalls` -/

/-- the events of a fault-free run of a list of calls -/
def okEvs (cs : List Call) : List Ev := cs.map fun c => ⟨c, true⟩

theorem runCalls_cons (fails : Call → Bool) (c : Call) (r : List Call) :
    runCalls fails (c :: r) = if fails c then ([⟨c, false⟩], false)
      else (⟨c, true⟩ :: (runCalls fails r).1, (runCalls fails r).2) := rfl

theorem runCalls_nil (fails : Call → Bool) : runCalls fails [] = ([], true) := rfl

theorem runCalls_nofail (fails : Call → Bool) (hok : ∀ c, fails c = false) (cs : List Call) :
    runCalls fails cs = (okEvs cs, true) := by
  induction cs with
  | nil => rfl
  | cons c r ih => simp [runCalls_cons, hok, ih, okEvs]

/-- when the run went through, every call was made and succeeded -/
theorem runCalls_ok (fails : Call → Bool) (cs : List Call) (h : (runCalls fails cs).2 = true) :
    (runCalls fails cs).1 = okEvs cs := by
  induction cs with
  | nil => rfl
  | cons c r ih =>
    rw [runCalls_cons] at h ⊢
    split at h
    · simp at h
    · rename_i hc
      simp only [hc] at ⊢
      simp [okEvs] at ih ⊢
      exact ih h

/-- every event of the run is one of the calls -/
theorem runCalls_mem (fails : Call → Bool) (cs : List Call) (e : Ev) (h : e ∈ (runCalls fails cs).1) :
    e.call ∈ cs := by
  induction cs with
  | nil => simp [runCalls_nil] at h
  | cons c r ih =>
    rw [runCalls_cons] at h
    split at h
    · simp at h; simp [h]
    · simp at h
      rcases h with h | h
      · simp [h]
      · exact List.mem_cons_of_mem _ (ih h)

/-- a failed event is the last one, and the run reports failure -/
theorem runCalls_failed (fails : Call → Bool) (cs : List Call) (c : Call)
    (h : (⟨c, false⟩ : Ev) ∈ (runCalls fails cs).1) :
    (runCalls fails cs).1.getLast? = some ⟨c, false⟩ ∧ (runCalls fails cs).2 = false := by
  induction cs with
  | nil => simp [runCalls_nil] at h
  | cons d r ih =>
    rw [runCalls_cons] at h ⊢
    split at h
    · rename_i hd
      simp at h
      simp [hd, h]
    · rename_i hd
      simp at h
      have := ih h
      simp only [hd, Bool.false_eq_true, if_false]
      refine ⟨?_, this.2⟩
      rw [List.getLast?_cons, this.1]; rfl


/-! ### the shape of `sync` -/

def restoreCalls (l : List RegHost) : List Call := (l.filter (·.hasNode)).map fun h => Call.restore h.name
def deregCalls (l : List RegHost) : List Call := l.map fun h => Call.deregister h.name

/-- the hosts `disableNodes` is called with -/
def toDisable (cfg : Cfg) (i : SyncIn) : List RegHost := ofClass cfg i .optimized ++ ofClass cfg i .malfunctioning

def _root_.Optimization.SyncOut.prepend (p : List Ev) : SyncOut → SyncOut
  | .trace t => .trace (p ++ t)
  | .panic t => .panic (p ++ t)

def _root_.Optimization.SyncOut.evs : SyncOut → List Ev
  | .trace t => t
  | .panic t => t

/-- the part of `sync` after `disableNodes` went through -/
def balance (cfg : Cfg) (i : SyncIn) : SyncOut :=
  match ofClass cfg i .optimizing with
  | first :: (second :: rest) =>
    let r3 := runCalls i.fails (restoreCalls (second :: rest))
    if !r3.2 then .trace r3.1
    else if !first.hasNode then .panic r3.1
    else .trace (r3.1 ++ syncNodeOptions i first)
  | [only] => if !only.hasNode then .panic [] else .trace (syncNodeOptions i only)
  | [] =>
    match ofClass cfg i .disabled with
    | d :: _ => if !d.hasNode then .panic [] else .trace [⟨.relax d.name, !i.fails (.relax d.name)⟩]
    | [] => .trace []

theorem sync_eq (cfg : Cfg) (i : SyncIn) :
    sync cfg i =
      if i.hosts.any (fun h => classify cfg i.masterRs h == .panic) then .panic [] else
      let r1 := runCalls i.fails (restoreCalls (toDisable cfg i))
      let r2 := runCalls i.fails (deregCalls (toDisable cfg i))
      if !r1.2 then .trace r1.1
      else if !r2.2 then .trace (r1.1 ++ r2.1)
      else SyncOut.prepend (r1.1 ++ r2.1) (balance cfg i) := by
  unfold sync balance restoreCalls deregCalls toDisable
  dsimp only
  generalize (i.hosts.any fun h => classify cfg i.masterRs h == .panic) = p
  generalize runCalls i.fails (List.map (fun h => Call.restore h.name) (List.filter (·.hasNode) (ofClass cfg i .optimized ++ ofClass cfg i .malfunctioning))) = r1
  generalize runCalls i.fails (List.map (fun h => Call.deregister h.name) (ofClass cfg i .optimized ++ ofClass cfg i .malfunctioning)) = r2
  rcases r1 with ⟨t1, _ | _⟩ <;> rcases r2 with ⟨t2, _ | _⟩ <;> cases p <;> simp only [Bool.not_true, Bool.not_false, if_true, if_false, Bool.false_eq_true]
  generalize ofClass cfg i .optimizing = o
  generalize ofClass cfg i .disabled = d
  rcases o with _ | ⟨f, _ | ⟨s, r⟩⟩
  · rcases d with _ | ⟨d, _⟩
    · simp [SyncOut.prepend]
    · dsimp only; split <;> simp [SyncOut.prepend]
  · dsimp only; split <;> simp [SyncOut.prepend]
  · dsimp only
    generalize runCalls i.fails _ = r3
    rcases r3 with ⟨t3, _ | _⟩ <;> cases f.hasNode <;> simp [SyncOut.prepend, List.append_assoc]

theorem mem_okEvs (cs : List Call) (e : Ev) : e ∈ okEvs cs ↔ e.ok = true ∧ e.call ∈ cs := by
  obtain ⟨c, ok⟩ := e
  simp only [okEvs, List.mem_map]
  constructor
  · rintro ⟨c', hc', h⟩
    injection h with h1 h2
    subst h1 h2
    exact ⟨rfl, hc'⟩
  · rintro ⟨h1, h2⟩
    exact ⟨c, h2, by cases h1; rfl⟩

theorem mem_restoreCalls (l : List RegHost) (c : Call) :
    c ∈ restoreCalls l ↔ ∃ r ∈ l, r.hasNode = true ∧ c = .restore r.name := by
  simp only [restoreCalls, List.mem_map, List.mem_filter]
  constructor
  · rintro ⟨r, ⟨h1, h2⟩, h3⟩; exact ⟨r, h1, h2, h3.symm⟩
  · rintro ⟨r, h1, h2, h3⟩; exact ⟨r, ⟨h1, h2⟩, h3.symm⟩

theorem mem_deregCalls (l : List RegHost) (c : Call) :
    c ∈ deregCalls l ↔ ∃ r ∈ l, c = .deregister r.name := by
  simp only [deregCalls, List.mem_map]
  constructor
  · rintro ⟨r, h1, h3⟩; exact ⟨r, h1, h3.symm⟩
  · rintro ⟨r, h1, h3⟩; exact ⟨r, h1, h3.symm⟩

theorem mem_toDisable (cfg : Cfg) (i : SyncIn) (r : RegHost) :
    r ∈ toDisable cfg i ↔ r ∈ i.hosts ∧
      (classify cfg i.masterRs r = .cls .optimized ∨ classify cfg i.masterRs r = .cls .malfunctioning) := by
  simp only [toDisable, ofClass, List.mem_append, List.mem_filter, beq_iff_eq]
  constructor
  · rintro (⟨h1, h2⟩ | ⟨h1, h2⟩)
    · exact ⟨h1, Or.inl h2⟩
    · exact ⟨h1, Or.inr h2⟩
  · rintro ⟨h1, h2 | h2⟩
    · exact Or.inl ⟨h1, h2⟩
    · exact Or.inr ⟨h1, h2⟩

theorem mem_ofClass (cfg : Cfg) (i : SyncIn) (c : Class) (r : RegHost) :
    r ∈ ofClass cfg i c ↔ r ∈ i.hosts ∧ classify cfg i.masterRs r = .cls c := by
  simp [ofClass]

theorem evs_prepend (p : List Ev) (o : SyncOut) : (SyncOut.prepend p o).evs = p ++ o.evs := by
  cases o <;> rfl

theorem prepend_eq_trace (p : List Ev) (o : SyncOut) (t : List Ev) (h : SyncOut.prepend p o = .trace t) :
    ∃ tb, o = .trace tb ∧ t = p ++ tb := by
  cases o with
  | trace tb => simp only [SyncOut.prepend, SyncOut.trace.injEq] at h; exact ⟨tb, rfl, h.symm⟩
  | panic tb => simp [SyncOut.prepend] at h

/-- the four ways `sync` can end -/
theorem sync_cases (cfg : Cfg) (i : SyncIn) :
    sync cfg i = .panic [] ∨
    (sync cfg i = .trace (runCalls i.fails (restoreCalls (toDisable cfg i))).1 ∧
      (runCalls i.fails (restoreCalls (toDisable cfg i))).2 = false) ∨
    (sync cfg i = .trace (okEvs (restoreCalls (toDisable cfg i)) ++ (runCalls i.fails (deregCalls (toDisable cfg i))).1) ∧
      (runCalls i.fails (deregCalls (toDisable cfg i))).2 = false) ∨
    sync cfg i = SyncOut.prepend (okEvs (restoreCalls (toDisable cfg i)) ++ okEvs (deregCalls (toDisable cfg i)))
      (balance cfg i) := by
  rw [sync_eq]
  split
  · exact Or.inl rfl
  · dsimp only
    cases h1 : (runCalls i.fails (restoreCalls (toDisable cfg i))).2
    · exact Or.inr (Or.inl ⟨by simp, rfl⟩)
    · have e1 := runCalls_ok _ _ h1
      cases h2 : (runCalls i.fails (deregCalls (toDisable cfg i))).2
      · exact Or.inr (Or.inr (Or.inl ⟨by simp [e1], rfl⟩))
      · have e2 := runCalls_ok _ _ h2
        exact Or.inr (Or.inr (Or.inr (by simp [e1, e2])))

/-- fault-free: `sync` goes through `disableNodes` -/
theorem sync_nofail (cfg : Cfg) (i : SyncIn) (hok : ∀ c, i.fails c = false) :
    sync cfg i = .panic [] ∨
    sync cfg i = SyncOut.prepend (okEvs (restoreCalls (toDisable cfg i)) ++ okEvs (deregCalls (toDisable cfg i)))
      (balance cfg i) := by
  rw [sync_eq]
  split
  · exact Or.inl rfl
  · simp [runCalls_nofail _ hok]

/-- the host `sync` may relax -/
def special (cfg : Cfg) (i : SyncIn) : String :=
  match ofClass cfg i .optimizing with
  | f :: _ => f.name
  | [] =>
    match ofClass cfg i .disabled with
    | d :: _ => d.name
    | [] => ""

theorem syncNodeOptions_mem (i : SyncIn) (h : RegHost) (e : Ev) (he : e ∈ syncNodeOptions i h) :
    e.call = .readSettings h.name ∨ e.call = .relax h.name := by
  unfold syncNodeOptions at he
  split at he
  · simp at he; simp [he]
  · split at he
    · simp at he; rcases he with he | he <;> simp [he]
    · simp at he; simp [he]

/-- what the balance part can contain -/
theorem balance_mem (cfg : Cfg) (i : SyncIn) (e : Ev) (he : e ∈ (balance cfg i).evs) :
    (∃ r ∈ (ofClass cfg i .optimizing).tail, r.hasNode = true ∧ e.call = .restore r.name) ∨
    e.call = .readSettings (special cfg i) ∨ e.call = .relax (special cfg i) := by
  unfold balance special at *
  generalize ofClass cfg i .optimizing = o at *
  generalize ofClass cfg i .disabled = d at *
  rcases o with _ | ⟨f, _ | ⟨s, r⟩⟩
  · rcases d with _ | ⟨d, _⟩
    · simp [SyncOut.evs] at he
    · dsimp only at he ⊢
      split at he
      · simp [SyncOut.evs] at he
      · simp [SyncOut.evs] at he; simp [he]
  · dsimp only at he ⊢
    split at he
    · simp [SyncOut.evs] at he
    · exact Or.inr (syncNodeOptions_mem i f e he)
  · dsimp only at he ⊢
    have key : ∀ e ∈ (runCalls i.fails (restoreCalls (s :: r))).1,
        ∃ r' ∈ (f :: s :: r).tail, r'.hasNode = true ∧ e.call = .restore r'.name := fun e he =>
      (mem_restoreCalls _ _).1 (runCalls_mem _ _ _ he)
    split at he
    · exact Or.inl (key e he)
    · split at he
      · exact Or.inl (key e he)
      · simp only [SyncOut.evs, List.mem_append] at he
        rcases he with he | he
        · exact Or.inl (key e he)
        · exact Or.inr (syncNodeOptions_mem i f e he)

end OptimizationLemmas
