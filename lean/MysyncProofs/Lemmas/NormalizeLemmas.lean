/-
Helper lemmas for C13 (union): `IntervalSlice.Normalize` (sort + merge) keeps exactly the numbers
it was given, and `MysqlGTIDSet.Update` is set union.  Statements used by MysyncProofs/C13.lean.
-/
import MysyncModel.Gtid
import MysyncProofs.Lemmas.IvLemmas
import MysyncProofs.Lemmas.GtidLemmas

namespace GtidLemmas
open Gtid

/-- sorted by start (what the sort phase of `Normalize` establishes) -/
def StartSorted (l : IvList) : Prop := l.Pairwise (fun a b => a.start ≤ b.start)

theorem mem_perm {l1 l2 : IvList} (h : l1.Perm l2) (x : Int) : IvList.Mem x l1 ↔ IvList.Mem x l2 := by
  unfold IvList.Mem
  constructor
  · rintro ⟨iv, hm, hx⟩; exact ⟨iv, h.mem_iff.mp hm, hx⟩
  · rintro ⟨iv, hm, hx⟩; exact ⟨iv, h.mem_iff.mpr hm, hx⟩

theorem insertSorted_perm (iv : Interval) (l : IvList) : (insertSorted iv l).Perm (iv :: l) := by
  induction l with
  | nil => exact List.Perm.refl _
  | cons jv r ih =>
    unfold insertSorted
    split
    · exact List.Perm.refl _
    · exact (List.Perm.cons jv ih).trans (List.Perm.swap iv jv r)

theorem sortIv_perm (l : IvList) : (sortIv l).Perm l := by
  induction l with
  | nil => exact List.Perm.refl _
  | cons a r ih =>
    show (insertSorted a (sortIv r)).Perm (a :: r)
    exact (insertSorted_perm a (sortIv r)).trans (List.Perm.cons a ih)

theorem insertSorted_sorted (iv : Interval) (l : IvList) (h : StartSorted l) :
    StartSorted (insertSorted iv l) := by
  induction l with
  | nil => simp [insertSorted, StartSorted]
  | cons jv r ih =>
    unfold StartSorted at h
    rw [List.pairwise_cons] at h
    unfold insertSorted
    split
    · rename_i hc
      unfold StartSorted
      rw [List.pairwise_cons, List.pairwise_cons]
      refine ⟨?_, h.1, h.2⟩
      have hij : iv.start ≤ jv.start := by
        simp only [Bool.or_eq_true, decide_eq_true_eq, Bool.and_eq_true, beq_iff_eq] at hc
        omega
      intro b hb
      rcases List.mem_cons.mp hb with rfl | hb
      · exact hij
      · exact Int.le_trans hij (h.1 b hb)
    · rename_i hc
      have hji : jv.start ≤ iv.start := by
        simp only [Bool.or_eq_true, decide_eq_true_eq, Bool.and_eq_true, beq_iff_eq, not_or, not_and] at hc
        omega
      unfold StartSorted
      rw [List.pairwise_cons]
      refine ⟨?_, ih h.2⟩
      intro b hb
      rcases List.mem_cons.mp ((insertSorted_perm iv r).mem_iff.mp hb) with rfl | hb
      · exact hji
      · exact h.1 b hb

theorem sortIv_sorted (l : IvList) : StartSorted (sortIv l) := by
  induction l with
  | nil => simp [sortIv, StartSorted]
  | cons a r ih => exact insertSorted_sorted a (sortIv r) ih

/-- the merge loop keeps exactly the numbers of `acc` and of the (start-sorted) rest, provided the
rest starts no earlier than the interval being extended -/
theorem mem_mergeSorted (x : Int) : ∀ (l acc : IvList), StartSorted l →
    (∀ last ∈ acc.head?, ∀ j ∈ l, last.start ≤ j.start) →
    (IvList.Mem x (mergeSorted acc l) ↔ (IvList.Mem x acc ∨ IvList.Mem x l)) := by
  intro l
  induction l with
  | nil =>
    intro acc _ _
    unfold mergeSorted
    rw [mem_perm (List.reverse_perm acc) x]
    simp [mem_nil]
  | cons iv r ih =>
    intro acc hs hh
    unfold StartSorted at hs
    rw [List.pairwise_cons] at hs
    cases acc with
    | nil =>
      unfold mergeSorted
      rw [ih [iv] hs.2 (by intro last hl j hj; simp at hl; subst hl; exact hs.1 j hj)]
      simp only [mem_cons, mem_nil, or_false, false_or]
    | cons last acc' =>
      have hli : last.start ≤ iv.start := hh last (by simp) iv (by simp)
      unfold mergeSorted
      split
      · rw [ih (iv :: last :: acc') hs.2 (by intro l' hl j hj; simp at hl; subst hl; exact hs.1 j hj)]
        simp only [mem_cons]
        constructor
        · rintro ((h | h | h) | h)
          · exact Or.inr (Or.inl h)
          · exact Or.inl (Or.inl h)
          · exact Or.inl (Or.inr h)
          · exact Or.inr (Or.inr h)
        · rintro ((h | h) | (h | h))
          · exact Or.inl (Or.inr (Or.inl h))
          · exact Or.inl (Or.inr (Or.inr h))
          · exact Or.inl (Or.inl h)
          · exact Or.inr h
      · rename_i hgt
        have hle : iv.start ≤ last.stop := by omega
        rw [ih (⟨last.start, max last.stop iv.stop⟩ :: acc') hs.2
          (by intro l' hl j hj; simp at hl; subst hl; exact Int.le_trans hli (hs.1 j hj))]
        simp only [mem_cons]
        constructor
        · rintro ((h | h) | h)
          · by_cases hx : x < last.stop
            · exact Or.inl (Or.inl ⟨h.1, hx⟩)
            · refine Or.inr (Or.inl ⟨by omega, ?_⟩)
              have := h.2
              omega
          · exact Or.inl (Or.inr h)
          · exact Or.inr (Or.inr h)
        · rintro ((h | h) | (h | h))
          · exact Or.inl (Or.inl ⟨h.1, by have := h.2; omega⟩)
          · exact Or.inl (Or.inr h)
          · exact Or.inl (Or.inl ⟨by omega, by have := h.2; omega⟩)
          · exact Or.inr h

/-- `Normalize` keeps exactly the numbers it was given (any input, also overlapping, unsorted,
empty intervals) -/
theorem mem_normalize (x : Int) (l : IvList) : IvList.Mem x (normalize l) ↔ IvList.Mem x l := by
  unfold normalize
  rw [mem_mergeSorted x (sortIv l) [] (sortIv_sorted l) (by intro last hl; simp at hl)]
  rw [mem_perm (sortIv_perm l) x]
  simp [mem_nil]

/-! ### `Normalize` produces the normal form -/

theorem normal_snoc_lt {l : IvList} {a : Interval} (h : Normal (l ++ [a])) : ∀ i ∈ l, i.stop < a.start := by
  induction l with
  | nil => intro i hi; cases hi
  | cons iv l ih =>
    rw [List.cons_append] at h
    intro i hi
    rcases List.mem_cons.mp hi with rfl | hi
    · exact h.above a (List.mem_append.mpr (Or.inr (List.mem_cons_self ..)))
    · exact ih h.tail i hi

theorem normal_snoc_replace {l : IvList} {a b : Interval} (h : Normal (l ++ [a]))
    (hs : b.start = a.start) (he : a.stop ≤ b.stop) : Normal (l ++ [b]) := by
  induction l with
  | nil =>
    have := (normal_single a).mp h
    exact (normal_single b).mpr (by omega)
  | cons iv l ih =>
    rw [List.cons_append] at h ⊢
    apply normal_cons_of h.head
    · intro j hj
      rcases List.mem_append.mp hj with hj | hj
      · exact h.above j (List.mem_append.mpr (Or.inl hj))
      · have hb : j = b := by simpa using hj
        have := h.above a (List.mem_append.mpr (Or.inr (List.mem_cons_self ..)))
        rw [hb]; omega
    · exact ih h.tail

/-- the merge loop yields the normal form when every interval is non-empty -/
theorem normal_mergeSorted : ∀ (l acc : IvList), StartSorted l → (∀ j ∈ l, j.start < j.stop) →
    Normal acc.reverse → (∀ last ∈ acc.head?, ∀ j ∈ l, last.start ≤ j.start) →
    Normal (mergeSorted acc l) := by
  intro l
  induction l with
  | nil => intro acc _ _ hn _; unfold mergeSorted; exact hn
  | cons iv r ih =>
    intro acc hs hne hn hh
    unfold StartSorted at hs
    rw [List.pairwise_cons] at hs
    have hiv : iv.start < iv.stop := hne iv (List.mem_cons_self ..)
    have hne' : ∀ j ∈ r, j.start < j.stop := fun j hj => hne j (List.mem_cons_of_mem _ hj)
    cases acc with
    | nil =>
      unfold mergeSorted
      exact ih [iv] hs.2 hne' ((normal_single iv).mpr hiv)
        (by intro last hl j hj; simp at hl; subst hl; exact hs.1 j hj)
    | cons last acc' =>
      have hli : last.start ≤ iv.start := hh last (by simp) iv (by simp)
      rw [List.reverse_cons] at hn
      unfold mergeSorted
      split
      · rename_i hgt
        refine ih (iv :: last :: acc') hs.2 hne' ?_
          (by intro l' hl j hj; simp at hl; subst hl; exact hs.1 j hj)
        rw [List.reverse_cons, List.reverse_cons]
        refine normal_append hn ((normal_single iv).mpr hiv) ?_
        intro i hi j hj
        have hj' : j = iv := by simpa using hj
        rw [hj']
        rcases List.mem_append.mp hi with hi | hi
        · have h1 := normal_snoc_lt hn i hi
          have h2 := hn.nonempty last (List.mem_append.mpr (Or.inr (List.mem_cons_self ..)))
          omega
        · have hi' : i = last := by simpa using hi
          rw [hi']; omega
      · refine ih (⟨last.start, max last.stop iv.stop⟩ :: acc') hs.2 hne' ?_
          (by intro l' hl j hj; simp at hl; subst hl; exact Int.le_trans hli (hs.1 j hj))
        rw [List.reverse_cons]
        exact normal_snoc_replace hn rfl (by simp only; omega)

/-- `Normalize` of non-empty intervals is in normal form (sorted, non-empty, separated by gaps) -/
theorem normal_normalize (l : IvList) (h : ∀ j ∈ l, j.start < j.stop) : Normal (normalize l) := by
  unfold normalize
  refine normal_mergeSorted (sortIv l) [] (sortIv_sorted l) ?_ (by simp [Normal]) (by intro last hl; simp at hl)
  intro j hj
  exact h j ((sortIv_perm l).mem_iff.mp hj)

/-! ### `Update` is union -/

/-- one step of the `Update` fold -/
def updStep (acc : GtidSet) (e : Key × IvList) : GtidSet :=
  match lookup acc e.1 with
  | none => acc ++ [(e.1, e.2)]
  | some _ => acc.map fun (k', l) => if k' = e.1 then (k', normalize (l ++ e.2)) else (k', l)

theorem update_eq_foldl (s o : GtidSet) : update s o = o.foldl updStep s := by
  unfold update
  congr 1

theorem lookup_append (a b : GtidSet) (k : Key) :
    lookup (a ++ b) k = match lookup a k with | some l => some l | none => lookup b k := by
  induction a with
  | nil => simp [lookup_nil]
  | cons e r ih =>
    obtain ⟨k', l⟩ := e
    simp only [List.cons_append, lookup_cons]
    split
    · rfl
    · exact ih

theorem lookup_map_upd (a : GtidSet) (k kk : Key) (ol : IvList) :
    lookup (a.map fun (k', l) => if k' = kk then (k', normalize (l ++ ol)) else (k', l)) k =
      (lookup a k).map fun l => if k = kk then normalize (l ++ ol) else l := by
  induction a with
  | nil => simp [lookup_nil]
  | cons e r ih =>
    obtain ⟨k', l⟩ := e
    simp only [List.map_cons, lookup_cons]
    by_cases hk : k' = kk
    · subst hk
      simp only [if_true, lookup_cons]
      by_cases h2 : k' = k
      · simp [h2]
      · simp only [h2, if_false]; exact ih
    · simp only [hk, if_false, lookup_cons]
      by_cases h2 : k' = k
      · subst h2; simp [hk]
      · simp only [h2, if_false]; exact ih

/-- one step adds exactly the numbers of the entry, under its key -/
theorem mem_updStep (acc : GtidSet) (e : Key × IvList) (k : Key) (x : Int) :
    (updStep acc e).Mem k x ↔ (acc.Mem k x ∨ (k = e.1 ∧ IvList.Mem x e.2)) := by
  obtain ⟨kk, ol⟩ := e
  unfold updStep GtidSet.Mem
  simp only
  cases hl : lookup acc kk with
  | none =>
    simp only [lookup_append]
    by_cases hk : k = kk
    · subst hk
      simp [hl, lookup_cons]
    · cases hk2 : lookup acc k with
      | none =>
        have : ¬ kk = k := fun h => hk h.symm
        simp [lookup_cons, lookup_nil, hk, this]
      | some l => simp [hk]
  | some l0 =>
    simp only [lookup_map_upd]
    by_cases hk : k = kk
    · subst hk
      simp only [hl, Option.map_some, if_true, Option.some.injEq, true_and]
      constructor
      · rintro ⟨l, rfl, hm⟩
        rcases (mem_append x l0 ol).mp ((mem_normalize x _).mp hm) with h | h
        · exact Or.inl ⟨l0, rfl, h⟩
        · exact Or.inr h
      · rintro (⟨l, rfl, hm⟩ | h)
        · exact ⟨_, rfl, (mem_normalize x _).mpr ((mem_append x _ ol).mpr (Or.inl hm))⟩
        · exact ⟨_, rfl, (mem_normalize x _).mpr ((mem_append x l0 ol).mpr (Or.inr h))⟩
    · cases hk2 : lookup acc k with
      | none => simp [hk]
      | some l => simp [hk]

/-- `Update` adds, key by key, exactly the numbers of every entry of the argument -/
theorem mem_update (s o : GtidSet) (k : Key) (x : Int) :
    (update s o).Mem k x ↔ (s.Mem k x ∨ ∃ l, (k, l) ∈ o ∧ IvList.Mem x l) := by
  rw [update_eq_foldl]
  induction o generalizing s with
  | nil => simp
  | cons e r ih =>
    simp only [List.foldl_cons]
    rw [ih (updStep s e), mem_updStep]
    obtain ⟨kk, ol⟩ := e
    constructor
    · rintro ((h | ⟨rfl, h⟩) | ⟨l, hm, hx⟩)
      · exact Or.inl h
      · exact Or.inr ⟨ol, List.mem_cons_self, h⟩
      · exact Or.inr ⟨l, List.mem_cons_of_mem _ hm, hx⟩
    · rintro (h | ⟨l, hm, hx⟩)
      · exact Or.inl (Or.inl h)
      · rcases List.mem_cons.mp hm with heq | hm
        · cases heq; exact Or.inl (Or.inr ⟨rfl, hx⟩)
        · exact Or.inr ⟨l, hm, hx⟩

/-- with distinct keys in the argument (what the parser produces), `Update` is set union -/
theorem update_union (s o : GtidSet) (ho : (keys o).Nodup) (k : Key) (x : Int) :
    (update s o).Mem k x ↔ (s.Mem k x ∨ o.Mem k x) := by
  rw [mem_update]
  constructor
  · rintro (h | ⟨l, hm, hx⟩)
    · exact Or.inl h
    · exact Or.inr ⟨l, lookup_of_mem ho hm, hx⟩
  · rintro (h | ⟨l, hl, hx⟩)
    · exact Or.inl h
    · exact Or.inr ⟨l, mem_of_lookup hl, hx⟩

/-! ### `Update` keeps sets well-formed -/

theorem normalize_append_ok (l0 ol : IvList) (h0 : Normal l0) (h1 : Normal ol) (hne : ol ≠ []) :
    Normal (normalize (l0 ++ ol)) ∧ normalize (l0 ++ ol) ≠ [] := by
  refine ⟨normal_normalize _ ?_, ?_⟩
  · intro j hj
    rcases List.mem_append.mp hj with hj | hj
    · exact h0.nonempty j hj
    · exact h1.nonempty j hj
  · obtain ⟨x, hx⟩ := h1.exists_mem hne
    intro hnil
    have := (mem_normalize x (l0 ++ ol)).mpr ((mem_append x l0 ol).mpr (Or.inr hx))
    rw [hnil] at this
    exact (mem_nil x).mp this

theorem wf_updStep (acc : GtidSet) (e : Key × IvList) (ha : WF acc) (he : Normal e.2 ∧ e.2 ≠ []) :
    WF (updStep acc e) := by
  obtain ⟨kk, ol⟩ := e
  unfold updStep
  simp only
  cases hl : lookup acc kk with
  | none =>
    simp only
    refine ⟨?_, ?_⟩
    · have hnk : kk ∉ keys acc := by
        intro hk
        obtain ⟨l, h⟩ := lookup_isSome_of_key hk
        rw [hl] at h; cases h
      unfold keys at *
      rw [List.map_append, List.nodup_append]
      refine ⟨ha.1, by simp, ?_⟩
      intro a ha' b hb
      have : b = kk := by simpa using hb
      rw [this]; intro hab; exact hnk (hab ▸ ha')
    · intro k l hm
      rcases List.mem_append.mp hm with hm | hm
      · exact ha.2 k l hm
      · have : (k, l) = (kk, ol) := by simpa using hm
        cases this; exact he
  | some l0 =>
    simp only
    refine ⟨?_, ?_⟩
    · have : keys (acc.map fun (k', l) => if k' = kk then (k', normalize (l ++ ol)) else (k', l)) = keys acc := by
        unfold keys
        rw [List.map_map]
        apply List.map_congr_left
        rintro ⟨k', l⟩ _
        simp only [Function.comp]
        split <;> rfl
      rw [this]; exact ha.1
    · intro k l hm
      obtain ⟨⟨k0, l1⟩, hm0, hf⟩ := List.mem_map.mp hm
      simp only at hf
      have h0 := ha.2 k0 l1 hm0
      split at hf
      · cases hf
        exact normalize_append_ok l1 ol h0.1 he.1 he.2
      · cases hf; exact h0

/-- `Update` of a well-formed set by well-formed entries is well-formed, so every C13 theorem applies
to a joined position again -/
theorem wf_update (s o : GtidSet) (hs : WF s) (ho : ∀ k l, (k, l) ∈ o → Normal l ∧ l ≠ []) :
    WF (update s o) := by
  rw [update_eq_foldl]
  induction o generalizing s with
  | nil => exact hs
  | cons e r ih =>
    simp only [List.foldl_cons]
    exact ih (updStep s e) (wf_updStep s e hs (ho e.1 e.2 List.mem_cons_self))
      (fun k l hm => ho k l (List.mem_cons_of_mem _ hm))

end GtidLemmas
