/- Helper lemmas for C04 (statements of the property theorems are fixed in MysyncProofs/C04.lean). -/
import MysyncModel.App.ActiveNodes

namespace ActiveNodesLemmas
open NS Gtid ActiveNodes

end ActiveNodesLemmas
