/- Helper lemmas for C04 (statements of the property theorems are fixed in MysyncProofs/C04.lean).
Part 3: the complete fault-free iteration, (a) and (b).  Parts 1-2: ActiveNodesCalc, ActiveNodesTrace. -/
import MysyncModel.App.ActiveNodes
import MysyncProofs.Lemmas.ActiveNodesCalc
import MysyncProofs.Lemmas.ActiveNodesTrace

namespace ActiveNodesLemmas
open NS Gtid ActiveNodes

/-! #### fault-free iteration -/

theorem adjustMaster_ok (i : UpdIn) (hok : ∀ c, i.fails c = false) (ss : SemiSyncState) (wsc : Int) :
    (adjustMaster i (some ss) wsc).2 = true := by
  unfold adjustMaster
  dsimp only
  by_cases h0 : (wsc == 0) = true <;> by_cases h1 : ss.masterEnabled = true <;>
    by_cases h2 : (ss.waitSlaveCount != wsc) = true <;> simp [h0, h1, h2, hok]

/-- a successful `adjustSemiSyncOnMaster` from the state described by the snapshot leaves the master
waiting for exactly `wsc` acknowledgements -/
theorem effWait_run_adjustMaster (i : UpdIn) (hok : ∀ c, i.fails c = false) (ss : SemiSyncState) (wsc : Int) (w : World)
    (hme : w.masterEnabled = ss.masterEnabled) (hwc : w.waitCount = ss.waitSlaveCount) :
    effWait (w.run i.master (adjustMaster i (some ss) wsc).1) = wsc := by
  obtain ⟨se, me, wc, pub⟩ := w
  dsimp only at hme hwc
  unfold adjustMaster
  dsimp only
  by_cases h0 : wsc = 0 <;> by_cases h1 : ss.masterEnabled = true <;> by_cases h2 : ss.waitSlaveCount = wsc <;>
    simp [h0, h1, h2, hme, hwc, hok, World.run, World.applyEv, World.apply, effWait] <;> omega

theorem enableLoop_ok (i : UpdIn) (hok : ∀ c, i.fails c = false) (hs : List String) (wsc : Int) (active : List String) :
    (enableLoop i hs wsc active).2 = (wsc, active) := by
  induction hs generalizing wsc active with
  | nil => rfl
  | cons a r ih =>
    rw [enableLoop_cons_snd]
    have : enableOk i a = true := by simp [enableOk, hok]
    rw [if_pos this, ih]

/-- `SetActiveNodes` -/
def setPublished (w : World) (l : List String) : World := ⟨w.slaveEnabled, w.masterEnabled, w.waitCount, l⟩

theorem run_publishPart_ok (i : UpdIn) (hok : ∀ c, i.fails c = false) (w : World) (a : List String) :
    w.run i.master (publishPart i a) = setPublished w a := by
  unfold publishPart
  dsimp only
  split <;> simp [hok, World.run, World.applyEv, World.apply, setPublished]

theorem seg1_ok (cfg : Cfg) (i : UpdIn) (hok : ∀ c, i.fails c = false) (ss : SemiSyncState) (hms : msOf i = some ss) :
    (seg1 cfg i).2 = true := by
  unfold seg1
  split
  · rw [hms]; exact adjustMaster_ok i hok ss _
  · rfl

/-- the fault-free iteration, segment by segment -/
theorem run_updateSemiSync_ok (cfg : Cfg) (i : UpdIn) (w : World) (hok : ∀ c, i.fails c = false)
    (ss : SemiSyncState) (hms : msOf i = some ss) :
    w.run i.master (updateSemiSync cfg i) =
      setPublished (((((w.run i.master (seg1 cfg i).1).run i.master (seg2 i)).run i.master (seg3 i)).run i.master
          (loopOf cfg i).1).run i.master (seg5 cfg i)) i.active := by
  have hl : (loopOf cfg i).2.2 = i.active := by
    unfold loopOf; rw [enableLoop_ok i hok]
  rw [updateSemiSync_eq]
  simp only [hok, seg1_ok cfg i hok ss hms, Bool.false_eq_true, if_false, Bool.not_true, hl]
  rw [List.cons_append, List.cons_append, List.cons_append, List.cons_append, List.cons_append, run_cons]
  simp only [run_append, run_publishPart_ok i hok]
  rfl

theorem flatMap_disableRestart_slaveEnabled (i : UpdIn) (hok : ∀ c, i.fails c = false) (l : List String) (w : World)
    (h : String) (hh : h ∈ (w.run i.master (l.flatMap (disableRestart i))).slaveEnabled) :
    h ∈ w.slaveEnabled ∧ h ∉ l := by
  induction l generalizing w with
  | nil => exact ⟨hh, by simp⟩
  | cons a r ih =>
    rw [List.flatMap_cons, run_append] at hh
    obtain ⟨h1, h2⟩ := ih _ hh
    have h3 : h ∈ w.slaveEnabled ∧ h ≠ a := by
      unfold disableRestart at h1
      simp only [hok, Bool.false_eq_true, if_false, Bool.not_false, run_cons, run_nil, applyEv_ok] at h1
      simp only [World.apply] at h1
      split at h1 <;> simpa using h1
    exact ⟨h3.1, by simp [h3.2, h2]⟩

/-- the semi-sync world described by the snapshot the iteration works from (same as `C04.WorldMatches`) -/
def WorldMatches (i : UpdIn) (w : World) : Prop :=
  (∀ h, h ∈ w.slaveEnabled ↔ ∃ s ss, i.cs.get? h = some s ∧ s.semiSync = some ss ∧ ss.slaveEnabled = true) ∧
  (∃ ms ss, i.cs.get? i.master = some ms ∧ ms.semiSync = some ss ∧ w.masterEnabled = ss.masterEnabled ∧ w.waitCount = ss.waitSlaveCount) ∧
  w.published = i.oldActive

theorem WorldMatches.msOf {i : UpdIn} {w : World} (hw : WorldMatches i w) :
    ∃ ss, msOf i = some ss ∧ w.masterEnabled = ss.masterEnabled ∧ w.waitCount = ss.waitSlaveCount := by
  obtain ⟨-, ⟨ms, ss, h1, h2, h3, h4⟩, -⟩ := hw
  exact ⟨ss, by simp [ActiveNodesLemmas.msOf, h1, h2], h3, h4⟩

/-- (a) after a complete fault-free iteration (the hypothesis `i.master ∉ becomeActive` of the C04
statement is not needed) -/
theorem complete_iteration_restores_A (cfg : Cfg) (i : UpdIn) (w : World)
    (hw : WorldMatches i w) (hok : ∀ c, i.fails c = false)
    (hchg : i.changes.becomeInactive = filterOut ((i.cs.filter fun e => match e.2.semiSync with | some ss => ss.slaveEnabled | none => false).map (·.1)) i.active)
    (hsub : ∀ h, h ∈ i.changes.becomeActive → h ∈ i.active) :
    ∀ h, h ∈ (w.run i.master (updateSemiSync cfg i)).slaveEnabled → h ∈ (w.run i.master (updateSemiSync cfg i)).published := by
  obtain ⟨ss, hms, -, -⟩ := hw.msOf
  rw [run_updateSemiSync_ok cfg i w hok ss hms]
  intro h hh
  show h ∈ i.active
  replace hh : h ∈ (((((w.run i.master (seg1 cfg i).1).run i.master (seg2 i)).run i.master (seg3 i)).run i.master
          (loopOf cfg i).1).run i.master (seg5 cfg i)).slaveEnabled := hh
  have h5 := slaveEnabled_run_of_notSetSlave _ _ _ _ ((seg5_calls cfg i).mono (isMasterCall_notSetSlave _)) hh
  rcases mem_slaveEnabled_run _ _ _ _ h5 with h4 | h4
  · have h3 := slaveEnabled_run_of_notSetSlave _ _ _ _ ((seg3_calls i).mono (isDisableCall_notSetSlave _)) h4
    obtain ⟨h2, hni⟩ := flatMap_disableRestart_slaveEnabled i hok _ _ h h3
    have h1 := slaveEnabled_run_of_notSetSlave _ _ _ _ ((seg1_calls cfg i).mono (isMasterCall_notSetSlave _)) h2
    obtain ⟨s, ss', hg, hs1, hs2⟩ := (hw.1 h).mp h1
    rw [hchg, mem_filterOut] at hni
    apply Classical.byContradiction
    intro hna
    apply hni
    refine ⟨?_, hna⟩
    simp only [List.mem_map, List.mem_filter]
    exact ⟨(h, s), ⟨get?_mem _ _ _ hg, by simp [hs1, hs2]⟩, rfl⟩
  · have := loopOf_calls cfg i _ h4
    exact hsub h (by simpa [isEnableCall] using this)

theorem effWait_congr {w w' : World} (h1 : w'.masterEnabled = w.masterEnabled) (h2 : w'.waitCount = w.waitCount) :
    effWait w' = effWait w := by
  simp [effWait, h1, h2]

theorem effWait_setPublished (w : World) (l : List String) : effWait (setPublished w l) = effWait w := rfl

theorem beforeAfter_cases (cfg : Cfg) (i : UpdIn) :
    (wscOf cfg i = oldWscOf i ∧ beforeAfter cfg i = (false, false)) ∨
    beforeAfter cfg i = (true, false) ∨ beforeAfter cfg i = (false, true) := by
  unfold beforeAfter
  rcases Int.lt_trichotomy (wscOf cfg i) (oldWscOf i) with h | h | h
  · have h' : ¬ wscOf cfg i > oldWscOf i := by omega
    cases cfg.masterFirst <;> simp [h, h']
  · left
    have h1 : ¬ wscOf cfg i > oldWscOf i := by omega
    have h2 : ¬ wscOf cfg i < oldWscOf i := by omega
    cases cfg.masterFirst <;> simp [h]
  · have h' : ¬ wscOf cfg i < oldWscOf i := by omega
    cases cfg.masterFirst <;> simp [h, h']

/-- (b) after a complete fault-free iteration without data-lagging replicas.  CORRECTED: the C04
statement lacks `i.master ∉ i.changes.becomeInactive` (see `counterexample_B_master_becomeInactive`);
its hypotheses `0 ≤ cfg.waitCount` and `i.master ∈ i.active` are not needed.  The master ends up
waiting for exactly the required number. -/
theorem complete_iteration_restores_B (cfg : Cfg) (i : UpdIn) (w : World)
    (hw : WorldMatches i w) (hok : ∀ c, i.fails c = false) (hlag : i.changes.dataLag = [])
    (hmi : i.master ∉ i.changes.becomeInactive) :
    effWait (w.run i.master (updateSemiSync cfg i)) = req cfg (w.run i.master (updateSemiSync cfg i)).published := by
  obtain ⟨ss, hms, hme, hwc⟩ := hw.msOf
  rw [run_updateSemiSync_ok cfg i w hok ss hms]
  show effWait _ = req cfg i.active
  have hwsc : wscOf cfg i = req cfg i.active := by unfold wscOf; rw [hlag, filterOut_nil]
  have hloop : (loopOf cfg i).2.1 = wscOf cfg i := by unfold loopOf; rw [enableLoop_ok i hok]
  rw [← hwsc]
  -- the middle segments leave the master's settings alone
  have hmid : ∀ w1 : World,
      ((((w1.run i.master (seg2 i)).run i.master (seg3 i)).run i.master (loopOf cfg i).1).masterEnabled = w1.masterEnabled) ∧
      ((((w1.run i.master (seg2 i)).run i.master (seg3 i)).run i.master (loopOf cfg i).1).waitCount = w1.waitCount) := by
    intro w1
    have a2 := master_run w1 i.master _ ((seg2_calls i).mono (isDisableCall_noMasterEffect _ _ hmi))
    have a3 := master_run (w1.run i.master (seg2 i)) i.master _
      ((seg3_calls i).mono (isDisableCall_noMasterEffect _ _ (by rw [hlag]; simp)))
    have a4 := master_run ((w1.run i.master (seg2 i)).run i.master (seg3 i)) i.master _
      ((loopOf_calls cfg i).mono (isEnableCall_noMasterEffect _ _))
    exact ⟨a4.1.trans (a3.1.trans a2.1), a4.2.trans (a3.2.trans a2.2)⟩
  rw [effWait_setPublished]
  rcases beforeAfter_cases cfg i with ⟨heq, hba⟩ | hba | hba
  · -- nothing to adjust
    have e1 : (seg1 cfg i).1 = [] := by simp [seg1, hba]
    have e5 : seg5 cfg i = [] := by simp [seg5, hba]
    rw [e1, e5, run_nil, run_nil, effWait_congr (hmid w).1 (hmid w).2, heq]
    simp [effWait, oldWscOf, hms, hme, hwc]
  · -- adjusted before the replicas
    have e1 : (seg1 cfg i).1 = (adjustMaster i (some ss) (wscOf cfg i)).1 := by simp [seg1, hba, hms]
    have e5 : seg5 cfg i = [] := by simp [seg5, hba]
    rw [e5, run_nil, effWait_congr (hmid _).1 (hmid _).2, e1]
    exact effWait_run_adjustMaster i hok ss _ w hme hwc
  · -- adjusted after the replicas
    have e1 : (seg1 cfg i).1 = [] := by simp [seg1, hba]
    have e5 : seg5 cfg i = (adjustMaster i (some ss) (wscOf cfg i)).1 := by simp [seg5, hba, hms, hloop]
    rw [e1, run_nil, e5]
    exact effWait_run_adjustMaster i hok ss _ _ ((hmid w).1.trans hme) ((hmid w).2.trans hwc)

/-- (b) in the terms of `invB`, with the side condition that the C04 statement lacks -/
theorem complete_iteration_restores_B_partial (cfg : Cfg) (i : UpdIn) (w : World)
    (hw : WorldMatches i w) (hok : ∀ c, i.fails c = false) (hlag : i.changes.dataLag = [])
    (hmi : i.master ∉ i.changes.becomeInactive) :
    invB cfg (w.run i.master (updateSemiSync cfg i)) = true := by
  unfold invB
  rw [complete_iteration_restores_B cfg i w hw hok hlag hmi]
  exact decide_eq_true (Int.le_refl _)

/-- (b) with the natural origin of the side condition: `becomeInactive` as `calcActiveNodesChanges`
computes it without lagging replicas (the hypothesis `hchg` of (a)) and the master a member -/
theorem complete_iteration_restores_B_partial_of_hchg (cfg : Cfg) (i : UpdIn) (w : World)
    (hw : WorldMatches i w) (hok : ∀ c, i.fails c = false) (hlag : i.changes.dataLag = [])
    (hchg : i.changes.becomeInactive = filterOut ((i.cs.filter fun e => match e.2.semiSync with | some ss => ss.slaveEnabled | none => false).map (·.1)) i.active)
    (hm : i.master ∈ i.active) :
    invB cfg (w.run i.master (updateSemiSync cfg i)) = true :=
  complete_iteration_restores_B_partial cfg i w hw hok hlag (by rw [hchg, mem_filterOut]; exact fun h => h.2 hm)

/-- the C04 statement of (b) is FALSE without `i.master ∉ i.changes.becomeInactive`: if the change set
tells the iteration to switch the master's own semi-sync off, the master stops waiting while the
published list still requires one acknowledgement (all other hypotheses of the C04 statement hold) -/
theorem counterexample_B_master_becomeInactive :
    let m : NodeState := { pingOk := true, isMaster := true, masterExecuted := some "", semiSync := some ⟨true, false, 1⟩ }
    let a : NodeState := { pingOk := true, slave := some { state := .running, masterHost := "m" }, semiSync := some ⟨false, true, 1⟩ }
    let i : UpdIn := { cs := [("m", m), ("a", a)], master := "m", oldActive := ["m", "a"], active := ["a", "m"],
                       changes := ⟨[], ["m"], []⟩, ahead := fun _ => false, fails := fun _ => false }
    let w0 : World := ⟨["a"], true, 1, ["m", "a"]⟩
    let cfg : Cfg := ⟨true, 1, 30, 1000, false⟩
    WorldMatches i w0 ∧ (∀ c, i.fails c = false) ∧ i.changes.dataLag = [] ∧ 0 ≤ cfg.waitCount ∧ i.master ∈ i.active ∧
      invB cfg w0 = true ∧ invB cfg (w0.run i.master (updateSemiSync cfg i)) = false := by
  intro m a i w0 cfg
  refine ⟨⟨?_, ?_, rfl⟩, fun _ => rfl, rfl, by decide, by decide, by decide +kernel, by decide +kernel⟩
  · intro h
    by_cases hm : "m" = h
    · subst hm; simp [i, m, w0, ClusterState.get?]
    · by_cases ha : "a" = h
      · subst ha; simp [i, a, w0, ClusterState.get?]
      · have : ¬ h = "a" := fun e => ha e.symm
        simp [i, w0, ClusterState.get?, hm, ha, this]
  · exact ⟨m, ⟨true, false, 1⟩, rfl, rfl, rfl, rfl⟩

end ActiveNodesLemmas
