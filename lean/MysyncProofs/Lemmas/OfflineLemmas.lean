/- Helper lemmas for C17 (statements of the property theorems are fixed in MysyncProofs/C17.lean). -/
import MysyncModel.App.Offline

namespace OfflineLemmas
open NS Offline

/-! ### The zone filter -/

/-- the step function of `azCounts` -/
def azStep (sep az : String) (acc : Int × Int) (e : String × NodeState) : Int × Int :=
  if e.2.isMaster || getAZ e.1 sep != az then acc
  else (acc.1 + 1, if e.2.isOffline then acc.2 + 1 else acc.2)

theorem azCounts_eq (sep az : String) (cs : ClusterState) :
    azCounts sep az cs = cs.foldl (azStep sep az) (0, 0) := rfl

theorem azStep_fst_nonneg (sep az : String) (acc : Int × Int) (e : String × NodeState)
    (h : 0 ≤ acc.1) : 0 ≤ (azStep sep az acc e).1 := by
  unfold azStep
  split
  · exact h
  · simp only; omega

theorem foldl_azStep_fst_nonneg (sep az : String) (cs : ClusterState) (acc : Int × Int)
    (h : 0 ≤ acc.1) : 0 ≤ (cs.foldl (azStep sep az) acc).1 := by
  induction cs generalizing acc with
  | nil => exact h
  | cons e r ih => exact ih _ (azStep_fst_nonneg sep az acc e h)

theorem azCounts_fst_nonneg (sep az : String) (cs : ClusterState) : 0 ≤ (azCounts sep az cs).1 := by
  rw [azCounts_eq]
  exact foldl_azStep_fst_nonneg sep az cs (0, 0) (Int.le_refl 0)

theorem canSetOffline_mid (cfg : Cfg) (h : String) (cs : ClusterState) (p : Int)
    (h0 : 0 < cfg.maxOfflinePct) (h100 : cfg.maxOfflinePct < 100) :
    canSetOffline cfg h cs p =
      (let c := azCounts cfg.azSeparator (getAZ h cfg.azSeparator) cs
       if c.1 == 0 then false else decide ((100 * (c.2 + p + 1)) / c.1 ≤ cfg.maxOfflinePct)) := by
  unfold canSetOffline
  rw [if_neg (by omega), if_neg (by omega)]

theorem canSetOffline_cap (cfg : Cfg) (h : String) (cs : ClusterState) (p : Int)
    (h0 : 0 < cfg.maxOfflinePct) (h100 : cfg.maxOfflinePct < 100)
    (hyp : canSetOffline cfg h cs p = true) :
    0 < (azCounts cfg.azSeparator (getAZ h cfg.azSeparator) cs).1 ∧
      (100 * ((azCounts cfg.azSeparator (getAZ h cfg.azSeparator) cs).2 + p + 1)) /
        (azCounts cfg.azSeparator (getAZ h cfg.azSeparator) cs).1 ≤ cfg.maxOfflinePct := by
  rw [canSetOffline_mid cfg h cs p h0 h100] at hyp
  simp only at hyp
  have hnn := azCounts_fst_nonneg cfg.azSeparator (getAZ h cfg.azSeparator) cs
  split at hyp
  · cases hyp
  · next hz =>
    have hz' : (azCounts cfg.azSeparator (getAZ h cfg.azSeparator) cs).1 ≠ 0 := by simpa using hz
    exact ⟨by omega, of_decide_eq_true hyp⟩

theorem canSetOffline_pct0 (cfg : Cfg) (h : String) (cs : ClusterState) (p : Int)
    (hp : cfg.maxOfflinePct ≤ 0) : canSetOffline cfg h cs p = false := by
  unfold canSetOffline
  rw [if_pos hp]

theorem canSetOffline_pct100 (cfg : Cfg) (h : String) (cs : ClusterState) (p : Int)
    (hp : 100 ≤ cfg.maxOfflinePct) : canSetOffline cfg h cs p = true := by
  unfold canSetOffline
  rw [if_neg (by omega), if_pos hp]

/-! ### The lag decision -/

theorem lagOffline_true (cfg : Cfg) (h : String) (st : NodeState) (mro : Bool) (cs : ClusterState) (p : Int)
    (hyp : lagOffline cfg h st mro cs p = true) :
    st.isOffline = false ∧ mro = false ∧
    (∃ sl lag, st.slave = some sl ∧ sl.lag = some lag ∧ lag > cfg.enableLag) ∧
    canSetOffline cfg h cs p = true := by
  unfold lagOffline at hyp
  cases hs : st.slave with
  | none => rw [hs] at hyp; cases hyp
  | some sl =>
    rw [hs] at hyp
    simp only at hyp
    cases hl : sl.lag with
    | none => rw [hl] at hyp; cases hyp
    | some lag =>
      rw [hl] at hyp
      simp only at hyp
      split at hyp
      · cases hyp
      · simp only [Bool.and_eq_true, Bool.not_eq_true', decide_eq_true_eq] at hyp
        obtain ⟨⟨⟨h1, h2⟩, h3⟩, h4⟩ := hyp
        exact ⟨h1, h2, ⟨sl, lag, rfl, hl, h3⟩, h4⟩

/-! ### One pass with the pending counter -/

/-- the number of hosts of the zone of `h` in a list -/
def sameAZ (cfg : Cfg) (h : String) (l : List String) : Int :=
  ((l.filter fun t => getAZ t cfg.azSeparator == getAZ h cfg.azSeparator).length : Int)

theorem sameAZ_reverse (cfg : Cfg) (h : String) (l : List String) :
    sameAZ cfg h l.reverse = sameAZ cfg h l := by
  unfold sameAZ
  rw [List.filter_reverse, List.length_reverse]

/-- `master.IsReadOnly` as read at the top of `repairSlaveOfflineMode` -/
def masterRO (cs : ClusterState) (master : String) : Bool :=
  match cs.get? master with | some m => m.isReadOnly | none => false

theorem lagPass_cons (cfg : Cfg) (master : String) (cs : ClusterState) (h : String) (st : NodeState)
    (rest : List (String × NodeState)) (taken : List String) :
    lagPass cfg master cs ((h, st) :: rest) taken =
      if !st.pingOk || h == master then lagPass cfg master cs rest taken
      else if lagOffline cfg h st (masterRO cs master) cs (sameAZ cfg h taken) then
        lagPass cfg master cs rest (h :: taken)
      else lagPass cfg master cs rest taken := by
  rw [lagPass]
  rfl

/-- invariant of `lagPass`: the result extends the (reversed) accumulator, and every host appended
was allowed by the filter given the same-zone hosts in front of it -/
theorem lagPass_inv (cfg : Cfg) (master : String) (cs : ClusterState)
    (l : List (String × NodeState)) (taken : List String) :
    ∃ suf, lagPass cfg master cs l taken = taken.reverse ++ suf ∧
      ∀ j h, suf[j]? = some h →
        h ≠ master ∧ ∃ st, (h, st) ∈ l ∧
          canSetOffline cfg h cs (sameAZ cfg h (taken.reverse ++ suf.take j)) = true := by
  induction l generalizing taken with
  | nil => exact ⟨[], by simp [lagPass], by simp⟩
  | cons e rest ih =>
    obtain ⟨h, st⟩ := e
    rw [lagPass_cons]
    -- lift a statement about `rest` to `(h, st) :: rest`
    have lift : ∃ suf, lagPass cfg master cs rest taken = taken.reverse ++ suf ∧
          ∀ j h', suf[j]? = some h' →
            h' ≠ master ∧ ∃ st', (h', st') ∈ (h, st) :: rest ∧
              canSetOffline cfg h' cs (sameAZ cfg h' (taken.reverse ++ suf.take j)) = true := by
      obtain ⟨suf, h1, h2⟩ := ih taken
      refine ⟨suf, h1, fun j h' hj => ?_⟩
      obtain ⟨a, st', b, c⟩ := h2 j h' hj
      exact ⟨a, st', List.mem_cons_of_mem _ b, c⟩
    split
    · exact lift
    · next hskip =>
      split
      · next hlag =>
        obtain ⟨suf, h1, h2⟩ := ih (h :: taken)
        refine ⟨h :: suf, ?_, ?_⟩
        · rw [h1, List.reverse_cons, List.append_assoc]; rfl
        · intro j h' hj
          cases j with
          | zero =>
            simp only [List.getElem?_cons_zero, Option.some.injEq] at hj
            subst hj
            have hne : h ≠ master := by
              intro heq
              apply hskip
              simp [heq]
            obtain ⟨_, _, _, hc⟩ := lagOffline_true _ _ _ _ _ _ hlag
            refine ⟨hne, st, List.mem_cons_self, ?_⟩
            simp only [List.take_zero, List.append_nil, sameAZ_reverse]
            exact hc
          | succ j =>
            simp only [List.getElem?_cons_succ] at hj
            obtain ⟨a, st', b, c⟩ := h2 j h' hj
            refine ⟨a, st', List.mem_cons_of_mem _ b, ?_⟩
            simpa only [List.reverse_cons, List.append_assoc, List.take_succ_cons,
              List.singleton_append] using c
      · exact lift

theorem lagPass_nil_spec (cfg : Cfg) (master : String) (cs : ClusterState)
    (l : List (String × NodeState)) (i : Nat) (h : String)
    (hi : (lagPass cfg master cs l [])[i]? = some h) :
    h ≠ master ∧ ∃ st, (h, st) ∈ l ∧
      canSetOffline cfg h cs (sameAZ cfg h ((lagPass cfg master cs l []).take i)) = true := by
  obtain ⟨suf, h1, h2⟩ := lagPass_inv cfg master cs l []
  simp only [List.reverse_nil, List.nil_append] at h1 h2
  rw [h1] at hi ⊢
  exact h2 i h hi

/-! ### `slavePass` -/

/-- the lag part of the "else" branch of `slavePass` -/
def lagPart (cfg : Cfg) (host : String) (st : NodeState) (mro : Bool) (cs : ClusterState)
    (i : SlaveIn) (lag : Int) : List Act × Bool :=
  if !st.isOffline && !mro && lag > cfg.enableLag then
    if canSetOffline cfg host cs i.pendingInAZ then
      if i.setOfflineOk then ([Act.setOffline, Act.optEnable], true) else ([Act.setOffline], false)
    else ([Act.skipCap], false)
  else ([], false)

/-- the rate-limited part for permanently broken replicas -/
def brokenPart (cfg : Cfg) (st : NodeState) (i : SlaveIn) (a : List Act × Bool) : List Act × Bool :=
  if !st.permBroken then a
  else match i.lastShutdownAge with
    | none => (a.1 ++ [.readLastShutdown], a.2)
    | some age =>
      if !st.isOffline && age > cfg.enableInterval then
        (a.1 ++ [.readLastShutdown, .updateLastShutdown, .setOffline], a.2)
      else (a.1 ++ [.readLastShutdown], a.2)

/-- the "bring online" branch -/
def onlinePart (st : NodeState) (i : SlaveIn) : List Act × Bool :=
  if st.permBroken then ([], false)
  else match i.resetup with
    | .statusErr => ([.readResetup], false)
    | .startupErr => ([.readResetup, .readStartup], false)
    | .ok status before =>
      if status || before then ([.readResetup, .readStartup], false)
      else ([.readResetup, .readStartup, .setDefaultReplSettings, .setOnline], false)

theorem slavePass_some (cfg : Cfg) (host : String) (st : NodeState) (mro : Bool) (cs : ClusterState)
    (i : SlaveIn) (sl : SlaveState) (lag : Int) (hs : st.slave = some sl) (hl : sl.lag = some lag) :
    slavePass cfg host st mro cs i =
      if st.isOffline && lag ≤ cfg.disableLag then onlinePart st i
      else brokenPart cfg st i (lagPart cfg host st mro cs i lag) := by
  unfold slavePass
  simp only [hs, hl]
  rfl

theorem slavePass_none (cfg : Cfg) (host : String) (st : NodeState) (mro : Bool) (cs : ClusterState)
    (i : SlaveIn) (hl : st.slave = none ∨ ∃ sl, st.slave = some sl ∧ sl.lag = none) :
    slavePass cfg host st mro cs i = ([], false) := by
  unfold slavePass
  rcases hl with hs | ⟨sl, hs, hl⟩
  · simp only [hs]
  · simp only [hs, hl]

/-- either the lag is unknown and nothing happens, or the two-branch form applies -/
theorem slavePass_cases (cfg : Cfg) (host : String) (st : NodeState) (mro : Bool) (cs : ClusterState)
    (i : SlaveIn) :
    slavePass cfg host st mro cs i = ([], false) ∨
    ∃ sl lag, st.slave = some sl ∧ sl.lag = some lag ∧
      slavePass cfg host st mro cs i =
        if st.isOffline && lag ≤ cfg.disableLag then onlinePart st i
        else brokenPart cfg st i (lagPart cfg host st mro cs i lag) := by
  cases hs : st.slave with
  | none => exact Or.inl (slavePass_none _ _ _ _ _ _ (Or.inl hs))
  | some sl =>
    cases hl : sl.lag with
    | none => exact Or.inl (slavePass_none _ _ _ _ _ _ (Or.inr ⟨sl, hs, hl⟩))
    | some lag => exact Or.inr ⟨sl, lag, rfl, hl, slavePass_some _ _ _ _ _ _ sl lag hs hl⟩

theorem lagPart_acts (cfg : Cfg) (host : String) (st : NodeState) (mro : Bool) (cs : ClusterState)
    (i : SlaveIn) (lag : Int) :
    ∀ a ∈ (lagPart cfg host st mro cs i lag).1, a = .setOffline ∨ a = .optEnable ∨ a = .skipCap := by
  unfold lagPart
  split
  · split
    · split <;> simp
    · simp
  · simp

theorem lagPart_setOffline (cfg : Cfg) (host : String) (st : NodeState) (mro : Bool) (cs : ClusterState)
    (i : SlaveIn) (lag : Int) (h : Act.setOffline ∈ (lagPart cfg host st mro cs i lag).1) :
    lag > cfg.enableLag := by
  unfold lagPart at h
  split at h
  · next hc =>
    simp only [Bool.and_eq_true, decide_eq_true_eq] at hc
    exact hc.2
  · simp at h

theorem onlinePart_setOnline (st : NodeState) (i : SlaveIn) (h : Act.setOnline ∈ (onlinePart st i).1) :
    st.permBroken = false ∧ i.resetup = .ok false false := by
  unfold onlinePart at h
  split at h
  · simp at h
  · next hb =>
    split at h
    · simp at h
    · simp at h
    · next status before hr =>
      split at h
      · simp at h
      · next hsb =>
        simp only [Bool.or_eq_true, not_or, Bool.not_eq_true] at hsb
        rw [hr, hsb.1, hsb.2]
        exact ⟨by simpa using hb, rfl⟩

theorem onlinePart_acts (st : NodeState) (i : SlaveIn) :
    ∀ a ∈ (onlinePart st i).1,
      a = .readResetup ∨ a = .readStartup ∨ a = .setDefaultReplSettings ∨ a = .setOnline := by
  unfold onlinePart
  split
  · simp
  · split
    · simp
    · simp
    · split <;> simp

theorem brokenPart_mem (cfg : Cfg) (st : NodeState) (i : SlaveIn) (a : List Act × Bool) (x : Act)
    (h : x ∈ (brokenPart cfg st i a).1) :
    x ∈ a.1 ∨ (st.permBroken = true ∧ (x = .readLastShutdown ∨
      ((x = .updateLastShutdown ∨ x = .setOffline) ∧ st.isOffline = false ∧
        ∃ age, i.lastShutdownAge = some age ∧ age > cfg.enableInterval))) := by
  unfold brokenPart at h
  split at h
  · exact Or.inl h
  · next hb =>
    have hb' : st.permBroken = true := by simpa using hb
    split at h
    · simp only [List.mem_append, List.mem_singleton] at h
      exact h.imp id fun hx => ⟨hb', Or.inl hx⟩
    · next age hage =>
      split at h
      · next hc =>
        simp only [Bool.and_eq_true, Bool.not_eq_true', decide_eq_true_eq] at hc
        simp only [List.mem_append, List.mem_cons, List.not_mem_nil, or_false] at h
        rcases h with h | h | h | h
        · exact Or.inl h
        · exact Or.inr ⟨hb', Or.inl h⟩
        · exact Or.inr ⟨hb', Or.inr ⟨Or.inl h, hc.1, age, hage, hc.2⟩⟩
        · exact Or.inr ⟨hb', Or.inr ⟨Or.inr h, hc.1, age, hage, hc.2⟩⟩
      · simp only [List.mem_append, List.mem_singleton] at h
        exact h.imp id fun hx => ⟨hb', Or.inl hx⟩

theorem slavePass_setOnline (cfg : Cfg) (h : String) (st : NodeState) (mro : Bool) (cs : ClusterState)
    (i : SlaveIn) (hyp : Act.setOnline ∈ (slavePass cfg h st mro cs i).1) :
    st.isOffline = true ∧ st.permBroken = false ∧ i.resetup = .ok false false ∧
    (∃ sl lag, st.slave = some sl ∧ sl.lag = some lag ∧ lag ≤ cfg.disableLag) := by
  rcases slavePass_cases cfg h st mro cs i with h0 | ⟨sl, lag, hs, hl, heq⟩
  · rw [h0] at hyp; simp at hyp
  · rw [heq] at hyp
    split at hyp
    · next hc =>
      simp only [Bool.and_eq_true, decide_eq_true_eq] at hc
      obtain ⟨hb, hr⟩ := onlinePart_setOnline st i hyp
      exact ⟨hc.1, hb, hr, sl, lag, hs, hl, hc.2⟩
    · rcases brokenPart_mem _ _ _ _ _ hyp with hm | ⟨_, hm⟩
      · rcases lagPart_acts _ _ _ _ _ _ _ _ hm with e | e | e <;> cases e
      · rcases hm with e | ⟨e | e, _⟩ <;> cases e

theorem slavePass_hysteresis (cfg : Cfg) (h : String) (st : NodeState) (mro : Bool) (cs : ClusterState)
    (i : SlaveIn) (hb : st.permBroken = false)
    (hl : ∀ sl lag, st.slave = some sl → sl.lag = some lag → cfg.disableLag < lag ∧ lag ≤ cfg.enableLag) :
    Act.setOnline ∉ (slavePass cfg h st mro cs i).1 ∧ Act.setOffline ∉ (slavePass cfg h st mro cs i).1 := by
  refine ⟨fun hyp => ?_, fun hyp => ?_⟩
  · obtain ⟨_, _, _, sl, lag, hs, hlag, hle⟩ := slavePass_setOnline cfg h st mro cs i hyp
    have := (hl sl lag hs hlag).1
    omega
  · rcases slavePass_cases cfg h st mro cs i with h0 | ⟨sl, lag, hs, hlag, heq⟩
    · rw [h0] at hyp; simp at hyp
    · rw [heq] at hyp
      split at hyp
      · rcases onlinePart_acts st i _ hyp with e | e | e | e <;> cases e
      · rcases brokenPart_mem _ _ _ _ _ hyp with hm | ⟨hbt, _⟩
        · have := lagPart_setOffline _ _ _ _ _ _ _ hm
          have := (hl sl lag hs hlag).2
          omega
        · rw [hb] at hbt; cases hbt

theorem slavePass_updateLastShutdown (cfg : Cfg) (h : String) (st : NodeState) (mro : Bool)
    (cs : ClusterState) (i : SlaveIn)
    (hyp : Act.updateLastShutdown ∈ (slavePass cfg h st mro cs i).1) :
    st.permBroken = true ∧ st.isOffline = false ∧
      ∃ age, i.lastShutdownAge = some age ∧ age > cfg.enableInterval := by
  rcases slavePass_cases cfg h st mro cs i with h0 | ⟨sl, lag, hs, hlag, heq⟩
  · rw [h0] at hyp; simp at hyp
  · rw [heq] at hyp
    split at hyp
    · rcases onlinePart_acts st i _ hyp with e | e | e | e <;> cases e
    · rcases brokenPart_mem _ _ _ _ _ hyp with hm | ⟨hbt, hm⟩
      · rcases lagPart_acts _ _ _ _ _ _ _ _ hm with e | e | e <;> cases e
      · rcases hm with e | ⟨_, ho, hage⟩
        · cases e
        · exact ⟨hbt, ho, hage⟩

/-! ### Rate limiter and master -/

theorem brokenStep_true (cfg : Cfg) (last now l : Int) (h : brokenStep cfg last now = (true, l)) :
    now - last > cfg.enableInterval ∧ l = now := by
  unfold brokenStep at h
  split at h
  · next hc =>
    injection h with _ h2
    exact ⟨hc, h2.symm⟩
  · injection h with h1 _
    cases h1

theorem masterPass_spec (st : NodeState) (rec : Bool) :
    (masterPass st rec = [Act.setOnline] ↔ (st.isOffline = true ∧ rec = false)) ∧
    Act.setOffline ∉ masterPass st rec := by
  unfold masterPass
  cases st.isOffline <;> cases rec <;> simp

end OfflineLemmas
