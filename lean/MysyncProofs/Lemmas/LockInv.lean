/- Helper lemmas for C03, part 2: the inductive invariant of the guarded lock system. -/
import MysyncProofs.Lemmas.LockServer
namespace LockLemmas
open Zk LockSys

/-! ### the invariant of the guarded system -/

/-- the lock znode exists, carries `id` and belongs to the live session `sid` -/
def HoldsC (s : Server) (lock : Path) (id : String) (sid : Sid) : Prop :=
  ∃ n, s.find? lock = some n ∧ n.data = id ∧ n.owner = sid ∧ sid ∈ s.live

/-- the program points that need nothing from the server -/
def PureShape (lock : Path) (id : String) (acq : Bool) (p : Option (Prog Res)) : Prop :=
  p = none ∨ p = some (.ret .done) ∨ p = some (.call (.get lock) (kAcq lock id)) ∨
  p = some (.call (.create lock id true) kCre) ∨ ∃ n, p = some (.call (.get lock) (kRel lock id n)) ∧ acq = false

/-- the operation in flight of a client is at one of a few program points; at the last one (the `delete`
of `ReleaseLock` is pending) the client still holds the lock.  The release points have `acquiring = false`
(the blind re-send `primLostRetry` is for `AcquireLock` only). -/
def ProgShape (s : Server) (lock : Path) (id : String) (sid : Sid) (acq : Bool) (p : Option (Prog Res)) : Prop :=
  PureShape lock id acq p ∨
  ∃ n ver, p = some (.call (.delete lock ver) (kDel lock id n)) ∧ acq = false ∧ HoldsC s lock id sid

def ClientOK (s : Server) (lock : Path) (c : Client) : Prop :=
  (c.cache ≠ none → c.prog = none ∧ HoldsC s lock c.id c.sid) ∧ ProgShape s lock c.id c.sid c.acquiring c.prog

structure Core (ids : List String) (lock : Path) (parents : List (Path × ZNode)) (σ : Sys) : Prop where
  lock_eq : σ.lock = lock
  ids_eq : σ.clients.map (·.id) = ids
  nodes : σ.srv.nodes = parents ++ optNode lock (σ.srv.find? lock)
  sid_pos : ∀ (i : Nat) (c : Client), σ.clients[i]? = some c → 0 < c.sid ∧ c.sid < σ.nextSid
  sid_inj : ∀ (i j : Nat) (ci cj : Client), σ.clients[i]? = some ci → σ.clients[j]? = some cj → ci.sid = cj.sid → i = j
  owner : ∀ n, σ.srv.find? lock = some n → ∃ (j : Nat) (c : Client), σ.clients[j]? = some c ∧ HoldsC σ.srv lock c.id c.sid

def OthersOK (lock : Path) (σ : Sys) (i : Nat) : Prop :=
  ∀ (j : Nat) (c : Client), j ≠ i → σ.clients[j]? = some c → ClientOK σ.srv lock c

def AllOK (lock : Path) (σ : Sys) : Prop :=
  ∀ (j : Nat) (c : Client), σ.clients[j]? = some c → ClientOK σ.srv lock c

structure Inv (ids : List String) (lock : Path) (parents : List (Path × ZNode)) (σ : Sys) : Prop where
  core : Core ids lock parents σ
  ok : AllOK lock σ

theorem AllOK.others {lock : Path} {σ : Sys} (h : AllOK lock σ) (i : Nat) : OthersOK lock σ i :=
  fun j c _ hj => h j c hj

variable {ids : List String} {lock : Path} {parents : List (Path × ZNode)}

theorem HoldsC.unique {s : Server} {id1 id2 : String} {sid1 sid2 : Sid}
    (h1 : HoldsC s lock id1 sid1) (h2 : HoldsC s lock id2 sid2) : id1 = id2 ∧ sid1 = sid2 := by
  obtain ⟨n1, hf1, hd1, ho1, _⟩ := h1
  obtain ⟨n2, hf2, hd2, ho2, _⟩ := h2
  rw [hf1] at hf2
  cases hf2
  exact ⟨hd1.symm.trans hd2, ho1.symm.trans ho2⟩

theorem Core.id_inj {σ : Sys} (hc : Core ids lock parents σ) (hn : ids.Nodup) {i j : Nat} {ci cj : Client}
    (hi : σ.clients[i]? = some ci) (hj : σ.clients[j]? = some cj) (h : ci.id = cj.id) : i = j := by
  have h1 : ids[i]? = some ci.id := by rw [← hc.ids_eq, List.getElem?_map, hi]; rfl
  have h2 : ids[j]? = some cj.id := by rw [← hc.ids_eq, List.getElem?_map, hj]; rfl
  have hlt : i < ids.length := by
    rcases List.getElem?_eq_some_iff.1 h1 with ⟨hlt, _⟩
    exact hlt
  exact (List.getElem?_inj hlt hn).1 (by rw [h1, h2, h])

theorem Core.holder_same {σ : Sys} (hc : Core ids lock parents σ) (hn : ids.Nodup) {i j : Nat} {ci cj : Client}
    (hi : σ.clients[i]? = some ci) (hj : σ.clients[j]? = some cj)
    (h1 : HoldsC σ.srv lock ci.id ci.sid) (h2 : HoldsC σ.srv lock cj.id cj.sid) : i = j :=
  hc.id_inj hn hi hj (h1.unique h2).1

/-- whoever finds its own identity in the lock znode is the holder -/
theorem Core.holds_of_data {σ : Sys} (hc : Core ids lock parents σ) (hn : ids.Nodup) {i : Nat} {c : Client}
    (hi : σ.clients[i]? = some c) {n : ZNode} (hf : σ.srv.find? lock = some n) (hd : n.data = c.id) :
    HoldsC σ.srv lock c.id c.sid := by
  obtain ⟨j, cj, hj, hh⟩ := hc.owner n hf
  have hh' := hh
  obtain ⟨n', hf', hd', _, _⟩ := hh'
  rw [hf] at hf'
  cases hf'
  have : j = i := hc.id_inj hn hj hi (hd'.symm.trans hd)
  subst this
  rw [hi] at hj
  cases hj
  exact hh

theorem get_set {cs : List Client} {i j : Nat} {c' x : Client} (h : (cs.set i c')[j]? = some x) :
    (j = i ∧ x = c') ∨ (j ≠ i ∧ cs[j]? = some x) := by
  rw [List.getElem?_set] at h
  split at h
  · next hij =>
    split at h
    · exact Or.inl ⟨hij.symm, by cases h; rfl⟩
    · cases h
  · next hij => exact Or.inr ⟨fun e => hij e.symm, h⟩

theorem set_get_self {cs : List Client} {i : Nat} {c c' : Client} (h : cs[i]? = some c) : (cs.set i c')[i]? = some c' := by
  rcases List.getElem?_eq_some_iff.1 h with ⟨hlt, _⟩
  simp [hlt]

theorem set_get_ne {cs : List Client} {i j : Nat} {c' : Client} (h : j ≠ i) : (cs.set i c')[j]? = cs[j]? := by
  rw [List.getElem?_set]
  simp [Ne.symm h]

/-- client `i` changes its private state (cache, program), nothing else changes -/
theorem update_client {σ σ' : Sys} {i : Nat} {c c' : Client}
    (hc : Core ids lock parents σ) (ho : OthersOK lock σ i) (hi : σ.clients[i]? = some c)
    (hs : σ'.srv = σ.srv) (hl : σ'.lock = σ.lock) (hns : σ'.nextSid = σ.nextSid)
    (hcl : σ'.clients = σ.clients.set i c') (hid : c'.id = c.id) (hsid : c'.sid = c.sid)
    (hok : ClientOK σ.srv lock c') : Inv ids lock parents σ' := by
  refine ⟨⟨hl.trans hc.lock_eq, ?_, by rw [hs]; exact hc.nodes, ?_, ?_, ?_⟩, ?_⟩
  · rw [hcl, ← hc.ids_eq]
    apply List.ext_getElem?
    intro j
    simp only [List.getElem?_map]
    by_cases hj : j = i
    · subst hj; rw [set_get_self hi, hi]; simp [hid]
    · rw [set_get_ne hj]
  · intro j x hj
    rw [hcl] at hj
    rw [hns]
    rcases get_set hj with ⟨rfl, rfl⟩ | ⟨_, hj⟩
    · rw [hsid]; exact hc.sid_pos _ _ hi
    · exact hc.sid_pos _ _ hj
  · intro j k x y hj hk hxy
    rw [hcl] at hj hk
    rcases get_set hj with ⟨hji, hx⟩ | ⟨hji, hj'⟩ <;> rcases get_set hk with ⟨hki, hy⟩ | ⟨hki, hk'⟩
    · rw [hji, hki]
    · subst hx; subst hji; exact hc.sid_inj _ _ _ _ hi hk' (hsid.symm.trans hxy)
    · subst hy; subst hki; exact hc.sid_inj _ _ _ _ hj' hi (hxy.trans hsid)
    · exact hc.sid_inj _ _ _ _ hj' hk' hxy
  · intro n hf
    rw [hs] at hf ⊢
    obtain ⟨j, cj, hj, hh⟩ := hc.owner n hf
    by_cases hji : j = i
    · subst hji
      rw [hi] at hj; cases hj
      exact ⟨j, c', by rw [hcl]; exact set_get_self hi, by rw [hid, hsid]; exact hh⟩
    · exact ⟨j, cj, by rw [hcl, set_get_ne hji]; exact hj, hh⟩
  · intro j x hj
    rw [hcl] at hj
    rw [hs]
    rcases get_set hj with ⟨rfl, rfl⟩ | ⟨hji, hj⟩
    · exact hok
    · exact ho j x hji hj

theorem inv_congr {σ σ' : Sys} (h : Inv ids lock parents σ) (hs : σ'.srv = σ.srv) (hcl : σ'.clients = σ.clients)
    (hl : σ'.lock = σ.lock) (hns : σ'.nextSid = σ.nextSid) : Inv ids lock parents σ' := by
  obtain ⟨⟨h1, h2, h3, h4, h5, h6⟩, h7⟩ := h
  refine ⟨⟨hl.trans h1, by rw [hcl]; exact h2, by rw [hs]; exact h3, ?_, ?_, ?_⟩, ?_⟩
  · rw [hcl, hns]; exact h4
  · rw [hcl]; exact h5
  · rw [hcl, hs]; exact h6
  · unfold AllOK; rw [hcl, hs]; exact h7


theorem ClientOK.mono {s s' : Server} {c : Client}
    (hm : HoldsC s lock c.id c.sid → HoldsC s' lock c.id c.sid) (h : ClientOK s lock c) : ClientOK s' lock c := by
  obtain ⟨h1, h2⟩ := h
  refine ⟨fun hne => ⟨(h1 hne).1, hm (h1 hne).2⟩, ?_⟩
  rcases h2 with h2 | ⟨n, ver, h2, ha, hh⟩
  · exact Or.inl h2
  · exact Or.inr ⟨n, ver, h2, ha, hm hh⟩

/-- a client with an operation in flight has no cache entry -/
theorem ClientOK.cache_none {s : Server} {c : Client} (h : ClientOK s lock c) (hp : c.prog ≠ none) : c.cache = none := by
  cases hc : c.cache with
  | none => rfl
  | some t => exact absurd (h.1 (by rw [hc]; simp)).1 hp

theorem inv_of_others {σ : Sys} {i : Nat} {c : Client} (hc : Core ids lock parents σ) (ho : OthersOK lock σ i)
    (hi : σ.clients[i]? = some c) (hok : ClientOK σ.srv lock c) : Inv ids lock parents σ := by
  refine ⟨hc, fun j cj hj => ?_⟩
  by_cases hji : j = i
  · subst hji; rw [hi] at hj; cases hj; exact hok
  · exact ho j cj hji hj

theorem inv_settle {σ : Sys} {i : Nat} {c : Client} {p : Prog Res}
    (hc : Core ids lock parents σ) (ho : OthersOK lock σ i) (hi : σ.clients[i]? = some c) (hcache : c.cache = none)
    (hret : p = .ret (.bool true) → HoldsC σ.srv lock c.id c.sid)
    (hcall : ∀ q k, p = .call q k → ProgShape σ.srv lock c.id c.sid c.acquiring (some p)) :
    Inv ids lock parents (settle σ i c p) := by
  cases p with
  | ret r =>
    simp only [settle]
    split
    · next h =>
      have hr : r = .bool true := by simp at h; exact h.2
      refine update_client hc ho hi rfl rfl rfl rfl rfl rfl ⟨fun _ => ⟨rfl, hret (by rw [hr])⟩, Or.inl (Or.inl rfl)⟩
    · refine update_client hc ho hi rfl rfl rfl rfl rfl rfl ⟨fun h => absurd hcache h, Or.inl (Or.inl rfl)⟩
  | call q k =>
    simp only [settle]
    refine update_client hc ho hi rfl rfl rfl rfl rfl rfl ⟨fun h => absurd hcache h, hcall q k rfl⟩

theorem inv_settle_ret {σ : Sys} {i : Nat} {c : Client} {x : Res}
    (hc : Core ids lock parents σ) (ho : OthersOK lock σ i) (hi : σ.clients[i]? = some c) (hcache : c.cache = none)
    (hx : x ≠ .bool true) : Inv ids lock parents (settle σ i c (.ret x)) :=
  inv_settle hc ho hi hcache (fun e => by cases e; exact absurd rfl hx) (fun q k e => by cases e)

theorem inv_settle_release {σ : Sys} {i : Nat} {c : Client}
    (hc : Core ids lock parents σ) (ho : OthersOK lock σ i) (hi : σ.clients[i]? = some c) (hcache : c.cache = none)
    (hacq : c.acquiring = false) (n : Nat) : Inv ids lock parents (settle σ i c (opRelease lock c.id n)) := by
  rcases opRelease_cases lock c.id n with e | ⟨m, e⟩
  · rw [e]; exact inv_settle_ret hc ho hi hcache (by simp)
  · rw [e]
    exact inv_settle hc ho hi hcache (fun e => by cases e)
      (fun q k _ => Or.inl (Or.inr (Or.inr (Or.inr (Or.inr ⟨m, rfl, hacq⟩)))))

theorem Core.with_srv {σ : Sys} (hc : Core ids lock parents σ) {srv' : Server}
    (hnodes : srv'.nodes = parents ++ optNode lock (srv'.find? lock))
    (howner : ∀ n, srv'.find? lock = some n → ∃ (j : Nat) (c : Client), σ.clients[j]? = some c ∧ HoldsC srv' lock c.id c.sid) :
    Core ids lock parents { σ with srv := srv' } :=
  ⟨hc.lock_eq, hc.ids_eq, hnodes, hc.sid_pos, hc.sid_inj, howner⟩

/-- client `i` creates the lock znode -/
theorem core_create {σ : Sys} {i : Nat} {c : Client} (hp : Par lock parents) (h : Inv ids lock parents σ)
    (hi : σ.clients[i]? = some c) (hlive : c.sid ∈ σ.srv.live) (hf : σ.srv.find? lock = none) (n : ZNode)
    (hd : n.data = c.id) (hown : n.owner = c.sid) :
    Core ids lock parents { σ with srv := σ.srv.put lock n } ∧ OthersOK lock { σ with srv := σ.srv.put lock n } i ∧
    HoldsC (σ.srv.put lock n) lock c.id c.sid := by
  have hc := h.core
  have hnodes0 : σ.srv.nodes = parents ++ optNode lock none := by rw [← hf]; exact hc.nodes
  obtain ⟨hn1, hl1⟩ := put_absent hp hnodes0 n
  have hf1 := find_lock hp hn1
  have hh : HoldsC (σ.srv.put lock n) lock c.id c.sid := ⟨_, hf1, hd, hown, by rw [hl1]; exact hlive⟩
  refine ⟨hc.with_srv (by rw [hf1]; exact hn1) (fun _ _ => ⟨i, c, hi, hh⟩), ?_, hh⟩
  intro j cj _ hj
  refine (h.ok j cj hj).mono (fun hhj => ?_)
  obtain ⟨m, hfm, _⟩ := hhj
  rw [hf] at hfm; cases hfm

/-- client `i`, the holder, deletes the lock znode -/
theorem core_erase {σ : Sys} {i : Nat} {c : Client} (hp : Par lock parents) (hn : ids.Nodup) (h : Inv ids lock parents σ)
    (hi : σ.clients[i]? = some c) (hh : HoldsC σ.srv lock c.id c.sid) :
    Core ids lock parents { σ with srv := σ.srv.erase lock } ∧ OthersOK lock { σ with srv := σ.srv.erase lock } i := by
  have hc := h.core
  obtain ⟨hn1, _⟩ := erase_lock hp hc.nodes
  have hf1 := find_lock hp hn1
  refine ⟨hc.with_srv (by rw [hf1]; exact hn1) (fun n hfn => by rw [hf1] at hfn; cases hfn), ?_⟩
  intro j cj hji hj
  refine (h.ok j cj hj).mono (fun hhj => ?_)
  exact absurd (hc.holder_same hn hj hi hhj hh) hji

theorem step_get_fst {s : Server} {p : Path} (hp : p ≠ []) (sid : Sid) : (s.step sid (.get p)).1 = s := by
  cases hf : s.find? p with
  | none => rw [step_get_none hf hp]
  | some n => rw [step_get_some hf]

/-- the server part of a primitive of client `i`, followed by: the reply is received / the reply is lost /
the reply is lost and the request will be sent again (AcquireLock only) -/
theorem inv_prim {σ : Sys} {i : Nat} {c : Client} {p : Prim} {k : Resp → Prog Res}
    (hp : Par lock parents) (hn : ids.Nodup) (h : Inv ids lock parents σ) (hi : σ.clients[i]? = some c)
    (hlive : c.sid ∈ σ.srv.live) (hprog : c.prog = some (.call p k)) :
    Inv ids lock parents (settle { σ with srv := (σ.srv.step c.sid p).1 } i c (k (σ.srv.step c.sid p).2)) ∧
    Inv ids lock parents (settle { σ with srv := (σ.srv.step c.sid p).1 } i c (k (.err .connClosed))) ∧
    (c.acquiring = true → Inv ids lock parents { σ with srv := (σ.srv.step c.sid p).1 }) := by
  have hok := h.ok i c hi
  have hcache := hok.cache_none (by rw [hprog]; simp)
  have hc := h.core
  have ho := h.ok.others i
  rcases hok.2 with (h2 | h2 | h2 | h2 | ⟨m, h2, hacq⟩) | ⟨m, ver, h2, hacq, hh⟩
  · rw [h2] at hprog; cases hprog
  · rw [h2] at hprog; cases hprog
  · -- the `get` of AcquireLock
    rw [h2] at hprog
    simp only [Option.some.injEq, Prog.call.injEq] at hprog
    obtain ⟨rfl, rfl⟩ := hprog
    refine ⟨?_, ?_, fun _ => ?_⟩
    · cases hf : σ.srv.find? lock with
      | none =>
        rw [step_get_none hf hp.ne]
        refine inv_settle hc ho hi hcache (fun e => ?_) (fun q k _ => ?_)
        · simp [kAcq] at e
        · exact Or.inl (Or.inr (Or.inr (Or.inr (Or.inl rfl))))
      | some n =>
        rw [step_get_some hf]
        refine inv_settle hc ho hi hcache (fun e => ?_) (fun q k e => ?_)
        · simp [kAcq] at e
          exact hc.holds_of_data hn hi hf e
        · simp [kAcq] at e
    · rw [step_get_fst hp.ne]
      exact inv_settle_ret hc ho hi hcache (by simp)
    · rw [step_get_fst hp.ne]; exact h
  · -- the `create` of AcquireLock
    rw [h2] at hprog
    simp only [Option.some.injEq, Prog.call.injEq] at hprog
    obtain ⟨rfl, rfl⟩ := hprog
    rcases step_create_cases σ.srv c.sid lock c.id true with ⟨hst, hf⟩ | ⟨e, hst⟩
    · rw [hst]
      obtain ⟨hc1, ho1, hh⟩ := core_create hp h hi hlive hf
        { data := c.id, version := 0, owner := if true = true then c.sid else 0 } rfl (by simp)
      refine ⟨?_, ?_, fun _ => ?_⟩
      · exact inv_settle hc1 ho1 hi hcache (fun _ => hh) (fun q k e => by simp [kCre] at e)
      · exact inv_settle_ret hc1 ho1 hi hcache (by simp)
      · exact inv_of_others hc1 ho1 hi ⟨fun hne => absurd hcache hne, by rw [h2]; exact Or.inl (Or.inr (Or.inr (Or.inr (Or.inl rfl))))⟩
    · rw [hst]
      refine ⟨?_, ?_, fun _ => h⟩
      · exact inv_settle_ret hc ho hi hcache (by simp)
      · exact inv_settle_ret hc ho hi hcache (by simp)
  · -- the `get` of ReleaseLock
    rw [h2] at hprog
    simp only [Option.some.injEq, Prog.call.injEq] at hprog
    obtain ⟨rfl, rfl⟩ := hprog
    refine ⟨?_, ?_, fun ha => by rw [hacq] at ha; cases ha⟩
    · cases hf : σ.srv.find? lock with
      | none =>
        rw [step_get_none hf hp.ne]
        exact inv_settle_ret hc ho hi hcache (by simp)
      | some n =>
        rw [step_get_some hf]
        by_cases hd : n.data = c.id
        · refine inv_settle hc ho hi hcache (fun e => ?_) (fun q k _ => ?_)
          · simp [kRel, hd] at e
          · simp only [kRel, hd, beq_self_eq_true, if_true]
            exact Or.inr ⟨_, _, rfl, hacq, hc.holds_of_data hn hi hf hd⟩
        · have : kRel lock c.id m (.data n.data n.version n.owner) = .ret .done := by simp [kRel, hd]
          rw [this]
          exact inv_settle_ret hc ho hi hcache (by simp)
    · rw [step_get_fst hp.ne]
      exact inv_settle_release hc ho hi hcache hacq m
  · -- the `delete` of ReleaseLock
    rw [h2] at hprog
    simp only [Option.some.injEq, Prog.call.injEq] at hprog
    obtain ⟨rfl, rfl⟩ := hprog
    refine ⟨?_, ?_, fun ha => by rw [hacq] at ha; cases ha⟩
    · rcases step_delete_cases σ.srv c.sid lock ver with ⟨hst, _⟩ | ⟨e, hst⟩
      · rw [hst]
        obtain ⟨hc1, ho1⟩ := core_erase hp hn h hi hh
        exact inv_settle_ret hc1 ho1 hi hcache (by simp)
      · rw [hst]
        by_cases he : e = .connClosed
        · subst he
          exact inv_settle_release hc ho hi hcache hacq m
        · have : kDel lock c.id m (.err e) = .ret .done := by cases e <;> simp [kDel] at he ⊢
          rw [this]
          exact inv_settle_ret hc ho hi hcache (by simp)
    · rcases step_delete_cases σ.srv c.sid lock ver with ⟨hst, _⟩ | ⟨e, hst⟩
      · rw [hst]
        obtain ⟨hc1, ho1⟩ := core_erase hp hn h hi hh
        exact inv_settle_release hc1 ho1 hi hcache hacq m
      · rw [hst]
        exact inv_settle_release hc ho hi hcache hacq m


/-- a primitive fails without being executed -/
theorem inv_fail {σ : Sys} {i : Nat} {c : Client} {p : Prim} {k : Resp → Prog Res} (e : Err)
    (h : Inv ids lock parents σ) (hi : σ.clients[i]? = some c) (hprog : c.prog = some (.call p k)) :
    Inv ids lock parents (settle σ i c (k (.err e))) := by
  have hok := h.ok i c hi
  have hcache := hok.cache_none (by rw [hprog]; simp)
  have hc := h.core
  have ho := h.ok.others i
  rcases hok.2 with (h2 | h2 | h2 | h2 | ⟨m, h2, hacq⟩) | ⟨m, ver, h2, hacq, hh⟩
  · rw [h2] at hprog; cases hprog
  · rw [h2] at hprog; cases hprog
  · rw [h2] at hprog
    simp only [Option.some.injEq, Prog.call.injEq] at hprog
    obtain ⟨rfl, rfl⟩ := hprog
    by_cases he : e = .noNode
    · subst he
      exact inv_settle hc ho hi hcache (fun e => by simp [kAcq] at e)
        (fun q k _ => Or.inl (Or.inr (Or.inr (Or.inr (Or.inl rfl)))))
    · have : kAcq lock c.id (.err e) = .ret (.bool false) := by cases e <;> simp [kAcq] at he ⊢
      rw [this]
      exact inv_settle_ret hc ho hi hcache (by simp)
  · rw [h2] at hprog
    simp only [Option.some.injEq, Prog.call.injEq] at hprog
    obtain ⟨rfl, rfl⟩ := hprog
    exact inv_settle_ret hc ho hi hcache (by simp)
  · rw [h2] at hprog
    simp only [Option.some.injEq, Prog.call.injEq] at hprog
    obtain ⟨rfl, rfl⟩ := hprog
    by_cases he : e = .connClosed
    · subst he
      exact inv_settle_release hc ho hi hcache hacq m
    · have : kRel lock c.id m (.err e) = .ret .done := by cases e <;> simp [kRel] at he ⊢
      rw [this]
      exact inv_settle_ret hc ho hi hcache (by simp)
  · rw [h2] at hprog
    simp only [Option.some.injEq, Prog.call.injEq] at hprog
    obtain ⟨rfl, rfl⟩ := hprog
    by_cases he : e = .connClosed
    · subst he
      exact inv_settle_release hc ho hi hcache hacq m
    · have : kDel lock c.id m (.err e) = .ret .done := by cases e <;> simp [kDel] at he ⊢
      rw [this]
      exact inv_settle_ret hc ho hi hcache (by simp)

theorem holdsC_expire {s : Server} {o : Option ZNode} (hp : Par lock parents)
    (h : s.nodes = parents ++ optNode lock o) {x : Sid} (hx : 0 < x) {id : String} {sid : Sid}
    (hh : HoldsC s lock id sid) (hne : sid ≠ x) : HoldsC (s.expire x) lock id sid := by
  obtain ⟨n, hf, hd, hown, hl⟩ := hh
  have ho : o = some n := by rw [← find_lock hp h]; exact hf
  subst ho
  have hf' := find_lock hp (expire_nodes hp h hx)
  refine ⟨n, ?_, hd, hown, ?_⟩
  · rw [hf']; simp [Option.filter, hown, hne]
  · simp [Server.expire, hl, hne]

/-- guarded session expiry (`expire`: no operation in flight; `expireAcq`: possibly an AcquireLock in flight — all that
matters is that the client is not at the `delete` of a ReleaseLock, the one program point that needs the session) -/
theorem inv_expire {σ : Sys} {i : Nat} {c : Client}
    (hp : Par lock parents) (h : Inv ids lock parents σ) (hi : σ.clients[i]? = some c)
    (hcache : c.cache = none) (hprog : c.prog = none ∨ c.acquiring = true) :
    Inv ids lock parents { σ with srv := σ.srv.expire c.sid } := by
  have hc := h.core
  have hpos := (hc.sid_pos i c hi).1
  have hnodes := expire_nodes hp hc.nodes hpos
  have hf' := find_lock hp hnodes
  refine ⟨hc.with_srv (by rw [hf']; exact hnodes) ?_, ?_⟩
  · intro n hfn
    rw [hf'] at hfn
    cases hf : σ.srv.find? lock with
    | none => rw [hf] at hfn; simp at hfn
    | some m =>
      rw [hf] at hfn
      have hmn : m = n ∧ m.owner ≠ c.sid := by
        by_cases hm : m.owner = c.sid <;> simp [Option.filter, hm] at hfn ⊢
        exact hfn
      obtain ⟨rfl, hmo⟩ := hmn
      obtain ⟨j, cj, hj, hh⟩ := hc.owner m hf
      have hh' := hh
      obtain ⟨m', hfm, _, hown, _⟩ := hh'
      rw [hf] at hfm; cases hfm
      exact ⟨j, cj, hj, holdsC_expire hp hc.nodes hpos hh (by rw [← hown]; exact hmo)⟩
  · intro j cj hj
    by_cases hji : j = i
    · subst hji
      rw [hi] at hj; cases hj
      refine ⟨fun hne => absurd hcache hne, ?_⟩
      rcases (h.ok _ _ hi).2 with h2 | ⟨m, ver, h2, hacq, _⟩
      · exact Or.inl h2
      · rcases hprog with hprog | hprog
        · rw [hprog] at h2; cases h2
        · rw [hacq] at hprog; cases hprog
    · refine (h.ok j cj hj).mono (fun hh => holdsC_expire hp hc.nodes hpos hh (fun e => hji ?_))
      exact hc.sid_inj _ _ _ _ hj hi e

theorem map_id_set {cs : List Client} {i : Nat} {c c' : Client} (hi : cs[i]? = some c) (hid : c'.id = c.id) :
    (cs.set i c').map (·.id) = cs.map (·.id) := by
  apply List.ext_getElem?
  intro j
  simp only [List.getElem?_map]
  by_cases hj : j = i
  · subst hj; rw [set_get_self hi, hi]; simp [hid]
  · rw [set_get_ne hj]

/-- a client whose session is gone gets a fresh one -/
theorem inv_reconnect {σ : Sys} {i : Nat} {c : Client}
    (h : Inv ids lock parents σ) (hi : σ.clients[i]? = some c) (hdead : c.sid ∉ σ.srv.live) :
    Inv ids lock parents { σ with srv := σ.srv.openSession σ.nextSid, nextSid := σ.nextSid + 1,
                                  clients := setClient σ.clients i { c with sid := σ.nextSid } } := by
  have hc := h.core
  have hmono : ∀ {id : String} {sid : Sid}, HoldsC σ.srv lock id sid → HoldsC (σ.srv.openSession σ.nextSid) lock id sid := by
    intro id sid hh
    obtain ⟨n, hf, hd, hown, hl⟩ := hh
    exact ⟨n, hf, hd, hown, by simp [Server.openSession, hl]⟩
  have hnot : ¬ HoldsC σ.srv lock c.id c.sid := fun hh => by
    obtain ⟨_, _, _, _, hl⟩ := hh
    exact hdead hl
  refine ⟨⟨hc.lock_eq, ?_, hc.nodes, ?_, ?_, ?_⟩, ?_⟩
  · show (σ.clients.set i _).map (·.id) = ids
    exact (map_id_set (c' := { c with sid := σ.nextSid }) hi rfl).trans hc.ids_eq
  · intro j x hj
    show 0 < x.sid ∧ x.sid < σ.nextSid + 1
    rcases get_set hj with ⟨_, hx⟩ | ⟨_, hj'⟩
    · subst hx
      have := hc.sid_pos i c hi
      exact ⟨Nat.lt_trans this.1 this.2, Nat.lt_succ_self _⟩
    · have := hc.sid_pos j x hj'
      exact ⟨this.1, Nat.lt_succ_of_lt this.2⟩
  · intro j k x y hj hk hxy
    rcases get_set hj with ⟨hji, hx⟩ | ⟨hji, hj'⟩ <;> rcases get_set hk with ⟨hki, hy⟩ | ⟨hki, hk'⟩
    · rw [hji, hki]
    · subst hx
      have := (hc.sid_pos k y hk').2
      have h' : σ.nextSid = y.sid := hxy
      rw [← h'] at this
      exact absurd this (Nat.lt_irrefl _)
    · subst hy
      have := (hc.sid_pos j x hj').2
      have h' : x.sid = σ.nextSid := hxy
      rw [h'] at this
      exact absurd this (Nat.lt_irrefl _)
    · exact hc.sid_inj _ _ _ _ hj' hk' hxy
  · intro n hf
    obtain ⟨j, cj, hj, hh⟩ := hc.owner n hf
    have hji : j ≠ i := fun e => by
      subst e; rw [hi] at hj; cases hj; exact hnot hh
    exact ⟨j, cj, by show (σ.clients.set i _)[j]? = some cj; rw [set_get_ne hji]; exact hj, hmono hh⟩
  · intro j x hj
    show ClientOK (σ.srv.openSession σ.nextSid) lock x
    rcases get_set hj with ⟨_, hx⟩ | ⟨_, hj'⟩
    · subst hx
      have hok := h.ok i c hi
      refine ⟨fun hne => absurd (hok.1 hne).2 hnot, ?_⟩
      rcases hok.2 with h2 | ⟨m, ver, h2, hacq, hh⟩
      · exact Or.inl h2
      · exact absurd hh hnot
    · exact (h.ok j x hj').mono hmono

/-- the guarded steps preserve the invariant -/
theorem inv_step {σ : Sys} (hp : Par lock parents) (hn : ids.Nodup) (h : Inv ids lock parents σ)
    (st : Step) (hg : st.guarded = true) : Inv ids lock parents (step σ st) := by
  have hc := h.core
  cases st with
  | tick d => exact inv_congr h rfl rfl rfl rfl
  | beginAcquire i =>
    simp only [step]
    split
    · exact h
    · next c hi =>
      split
      · exact h
      · next hprog =>
        split
        · exact inv_congr h rfl rfl rfl rfl
        · refine update_client hc (h.ok.others i) hi rfl rfl rfl rfl rfl rfl ⟨fun hne => absurd rfl hne, ?_⟩
          rw [hc.lock_eq]
          exact Or.inl (Or.inr (Or.inr (Or.inl rfl)))
  | beginRelease i =>
    simp only [step]
    split
    · exact h
    · next c hi =>
      split
      · exact h
      · refine update_client hc (h.ok.others i) hi rfl rfl rfl rfl rfl rfl ⟨fun hne => absurd rfl hne, ?_⟩
        rw [hc.lock_eq]
        rcases opRelease_cases lock c.id σ.attempts with e | ⟨m, e⟩
        · exact Or.inl (Or.inr (Or.inl (congrArg some e)))
        · exact Or.inl (Or.inr (Or.inr (Or.inr (Or.inr ⟨m, congrArg some e, rfl⟩))))
  | prim i =>
    simp only [step]
    split
    · next c hi =>
      split
      · next p k hprog =>
        split
        · next hl => exact (inv_prim hp hn h hi (List.contains_iff_mem.1 hl) hprog).1
        · exact h
      · exact h
    · exact h
  | primLost i =>
    simp only [step]
    split
    · next c hi =>
      split
      · next p k hprog =>
        split
        · next hl => exact (inv_prim hp hn h hi (List.contains_iff_mem.1 hl) hprog).2.1
        · exact h
      · exact h
    · exact h
  | primLostRetry i =>
    simp only [step]
    split
    · next c hi =>
      split
      · next p k hprog =>
        split
        · next hl =>
          simp only [Bool.and_eq_true] at hl
          exact (inv_prim hp hn h hi (List.contains_iff_mem.1 hl.1) hprog).2.2 hl.2
        · exact h
      · exact h
    · exact h
  | fail i e =>
    simp only [step]
    split
    · next c hi =>
      split
      · next p k hprog => exact inv_fail e h hi hprog
      · exact h
    · exact h
  | event i =>
    simp only [step]
    split
    · next c hi =>
      have hok := h.ok i c hi
      exact update_client hc (h.ok.others i) hi rfl rfl rfl rfl rfl rfl ⟨fun hne => absurd rfl hne, hok.2⟩
    · exact h
  | expire i =>
    simp only [step]
    split
    · next c hi =>
      split
      · next hgd =>
        simp only [Bool.and_eq_true, Option.isNone_iff_eq_none] at hgd
        exact inv_expire hp h hi hgd.1 (Or.inl hgd.2)
      · exact h
    · exact h
  | expireAcq i =>
    simp only [step]
    split
    · next c hi =>
      split
      · next hgd =>
        simp only [Bool.and_eq_true, Bool.or_eq_true, Option.isNone_iff_eq_none] at hgd
        exact inv_expire hp h hi hgd.1 hgd.2
      · exact h
    · exact h
  | expireAny i => simp [Step.guarded] at hg
  | reconnect i =>
    simp only [step]
    split
    · next c hi =>
      split
      · exact h
      · next hl => exact inv_reconnect h hi (fun hm => hl (List.contains_iff_mem.2 hm))
    · exact h

theorem inv_run {σ : Sys} (hp : Par lock parents) (hn : ids.Nodup) (h : Inv ids lock parents σ)
    (steps : List Step) (hg : ∀ st ∈ steps, st.guarded = true) : Inv ids lock parents (run σ steps) := by
  induction steps generalizing σ with
  | nil => exact h
  | cons st rest ih =>
    simp only [run, List.foldl_cons]
    exact ih (inv_step hp hn h st (hg st (by simp))) (fun s hs => hg s (by simp [hs]))

theorem init_client {ids : List String} {lock : Path} {ttl : Int} {parents : List (Path × ZNode)} {i : Nat} {c : Client}
    (h : (init ids lock ttl parents).clients[i]? = some c) :
    ids[i]? = some c.id ∧ c.sid = i + 1 ∧ c.cache = none ∧ c.prog = none ∧ i < ids.length := by
  simp only [init, List.getElem?_map, List.getElem?_zipIdx, Option.map_map] at h
  cases hx : ids[i]? with
  | none => rw [hx] at h; simp at h
  | some x =>
    rw [hx] at h
    simp at h
    subst h
    rcases List.getElem?_eq_some_iff.1 hx with ⟨hlt, _⟩
    exact ⟨rfl, rfl, rfl, rfl, hlt⟩

theorem inv_init (hp : Par lock parents) (ttl : Int) : Inv ids lock parents (init ids lock ttl parents) := by
  have hf : (init ids lock ttl parents).srv.find? lock = none := find_lock (o := none) hp (by simp [init, optNode])
  refine ⟨⟨rfl, ?_, ?_, ?_, ?_, ?_⟩, ?_⟩
  · simp only [init, List.map_map]
    conv => rhs; rw [← List.zipIdx_map_fst 0 ids]
    apply List.map_congr_left
    intro a _
    rfl
  · rw [hf]; simp [init, optNode]
  · intro i c hi
    obtain ⟨_, hs, _, _, hlt⟩ := init_client hi
    rw [hs]
    show 0 < i + 1 ∧ i + 1 < ids.length + 1
    omega
  · intro i j ci cj hi hj hij
    have h1 := (init_client hi).2.1
    have h2 := (init_client hj).2.1
    have : i + 1 = j + 1 := h1.symm.trans (hij.trans h2)
    omega
  · intro n hfn
    rw [hf] at hfn; cases hfn
  · intro i c hi
    obtain ⟨_, _, hcache, hprog, _⟩ := init_client hi
    exact ⟨fun hne => absurd hcache hne, Or.inl (Or.inl hprog)⟩

end LockLemmas
