/-
Helper lemmas for C04, part 2: the semi-sync world, trace segments of `updateSemiSync` and the shape
of the calls each segment can emit.
-/
import MysyncProofs.Lemmas.ActiveNodesCalc

namespace ActiveNodesLemmas
open NS Gtid ActiveNodes

/-- every call of the trace satisfies `p` -/
def AllCalls (p : Call → Bool) (tr : List Ev) : Prop := ∀ e ∈ tr, p e.call = true

theorem AllCalls.nil {p : Call → Bool} : AllCalls p [] := by intro e he; cases he

theorem AllCalls.cons {p : Call → Bool} {e : Ev} {b : List Ev} (he : p e.call = true) (hb : AllCalls p b) :
    AllCalls p (e :: b) := by
  intro x hx
  rcases List.mem_cons.mp hx with h | h
  · subst h; exact he
  · exact hb x h

theorem AllCalls.append {p : Call → Bool} {a b : List Ev} (ha : AllCalls p a) (hb : AllCalls p b) :
    AllCalls p (a ++ b) := by
  intro e he
  rcases List.mem_append.mp he with h | h
  · exact ha e h
  · exact hb e h

theorem AllCalls.flatMap {p : Call → Bool} {α} (l : List α) (f : α → List Ev) (hf : ∀ a ∈ l, AllCalls p (f a)) :
    AllCalls p (l.flatMap f) := by
  intro e he
  obtain ⟨a, hal, ha⟩ := List.mem_flatMap.mp he
  exact hf a hal e ha

theorem AllCalls.mono {p q : Call → Bool} {tr : List Ev} (hpq : ∀ c, p c = true → q c = true) (h : AllCalls p tr) :
    AllCalls q tr := fun e he => hpq _ (h e he)

/-! #### shapes of the calls of each segment -/

/-- a semi-sync call addressed to the master as a source -/
def isMasterCall (m : String) : Call → Bool
  | .ssDisable h | .ssSetMaster h | .ssWaitCount h _ => h == m
  | _ => false

/-- a call of the "leave semi-sync" loops, addressed to one of `hs` -/
def isDisableCall (hs : List String) : Call → Bool
  | .ssDisable h | .restartIO h | .optEnable h => hs.contains h
  | _ => false

/-- a call of the "enter semi-sync" loop, addressed to one of `hs` -/
def isEnableCall (hs : List String) : Call → Bool
  | .ssSetSlave h | .restartIO h | .restartReplica h | .setDefaultSettings h => hs.contains h
  | _ => false

/-! #### effect classes -/

def isPublish : Call → Bool
  | .publish _ => true
  | _ => false

def isSetSlave : Call → Bool
  | .ssSetSlave _ => true
  | _ => false

/-- does the call leave the master's `rpl_semi_sync_master_*` settings alone? -/
def noMasterEffect (m : String) : Call → Bool
  | .ssDisable h | .ssSetMaster h | .ssWaitCount h _ => h != m
  | _ => true

theorem isMasterCall_notPublish (m : String) (c : Call) (h : isMasterCall m c = true) : (!isPublish c) = true := by
  cases c <;> simp_all [isMasterCall, isPublish]
theorem isMasterCall_notSetSlave (m : String) (c : Call) (h : isMasterCall m c = true) : (!isSetSlave c) = true := by
  cases c <;> simp_all [isMasterCall, isSetSlave]
theorem isDisableCall_notPublish (hs : List String) (c : Call) (h : isDisableCall hs c = true) : (!isPublish c) = true := by
  cases c <;> simp_all [isDisableCall, isPublish]
theorem isDisableCall_notSetSlave (hs : List String) (c : Call) (h : isDisableCall hs c = true) : (!isSetSlave c) = true := by
  cases c <;> simp_all [isDisableCall, isSetSlave]
theorem isEnableCall_notPublish (hs : List String) (c : Call) (h : isEnableCall hs c = true) : (!isPublish c) = true := by
  cases c <;> simp_all [isEnableCall, isPublish]
theorem isDisableCall_noMasterEffect (hs : List String) (m : String) (hm : m ∉ hs) (c : Call)
    (h : isDisableCall hs c = true) : noMasterEffect m c = true := by
  cases c <;> simp_all [isDisableCall, noMasterEffect]
  rintro rfl; contradiction
theorem isEnableCall_noMasterEffect (hs : List String) (m : String) (c : Call)
    (h : isEnableCall hs c = true) : noMasterEffect m c = true := by
  cases c <;> simp_all [isEnableCall, noMasterEffect]

theorem adjustMaster_calls (i : UpdIn) (ms : Option SemiSyncState) (wsc : Int) :
    AllCalls (isMasterCall i.master) (adjustMaster i ms wsc).1 := by
  unfold adjustMaster
  cases ms with
  | none => exact AllCalls.nil
  | some ss =>
    dsimp only
    by_cases h0 : (wsc == 0) = true <;> by_cases h1 : ss.masterEnabled = true <;>
      by_cases h2 : (ss.waitSlaveCount != wsc) = true <;>
      by_cases h3 : i.fails (Call.ssWaitCount i.master wsc) = true <;>
      simp [h0, h1, h2, h3, AllCalls, isMasterCall]

theorem enableLoop_calls (i : UpdIn) (hs : List String) (wsc : Int) (active : List String) :
    AllCalls (isEnableCall hs) (enableLoop i hs wsc active).1 := by
  induction hs generalizing wsc active with
  | nil => simp [enableLoop, AllCalls.nil]
  | cons a r ih =>
    have ih' : ∀ wsc active, AllCalls (isEnableCall (a :: r)) (enableLoop i r wsc active).1 := fun wsc active =>
      (ih wsc active).mono (by intro c hc; cases c <;> simp_all [isEnableCall])
    have hr : isEnableCall (a :: r) (if i.ahead a then Call.restartReplica a else Call.restartIO a) = true := by
      split <;> simp [isEnableCall]
    rw [enableLoop]
    by_cases h1 : i.fails (.ssSetSlave a) = true
    · simp only [h1, if_true]
      exact AllCalls.cons (by simp [isEnableCall]) (ih' _ _)
    · by_cases h2 : i.fails (if i.ahead a then Call.restartReplica a else Call.restartIO a) = true
      · simp only [h1, h2, if_true]
        exact AllCalls.cons (by simp [isEnableCall]) (AllCalls.cons hr (ih' _ _))
      · simp only [h1, h2]
        exact AllCalls.cons (by simp [isEnableCall]) (AllCalls.cons hr (AllCalls.cons (by simp [isEnableCall]) (ih' _ _)))

/-! #### the world -/

theorem run_nil (w : World) (m : String) : w.run m [] = w := rfl
theorem run_cons (w : World) (m : String) (e : Ev) (tr : List Ev) : w.run m (e :: tr) = (w.applyEv m e).run m tr := rfl
theorem run_append (w : World) (m : String) (a b : List Ev) : w.run m (a ++ b) = (w.run m a).run m b := by
  simp [World.run, List.foldl_append]

theorem applyEv_failed (w : World) (m : String) (c : Call) : w.applyEv m ⟨c, false⟩ = w := rfl
theorem applyEv_ok (w : World) (m : String) (c : Call) : w.applyEv m ⟨c, true⟩ = w.apply m c := rfl

theorem published_applyEv (w : World) (m : String) (e : Ev) (h : (!isPublish e.call) = true) :
    (w.applyEv m e).published = w.published := by
  obtain ⟨c, ok⟩ := e
  cases ok with
  | false => rfl
  | true =>
    rw [applyEv_ok]
    cases c <;> simp only [World.apply] <;> first | rfl | (split <;> rfl) | simp [isPublish] at h

theorem published_run (w : World) (m : String) (tr : List Ev) (h : AllCalls (fun c => !isPublish c) tr) :
    (w.run m tr).published = w.published := by
  induction tr generalizing w with
  | nil => rfl
  | cons e r ih =>
    rw [run_cons, ih _ (fun x hx => h x (List.mem_cons_of_mem _ hx)), published_applyEv _ _ _ (h e (by simp))]

theorem master_applyEv (w : World) (m : String) (e : Ev) (h : noMasterEffect m e.call = true) :
    (w.applyEv m e).masterEnabled = w.masterEnabled ∧ (w.applyEv m e).waitCount = w.waitCount := by
  obtain ⟨c, ok⟩ := e
  cases ok with
  | false => exact ⟨rfl, rfl⟩
  | true =>
    rw [applyEv_ok]
    cases c
    case ssDisable x =>
      have : (x == m) = false := by simpa [noMasterEffect] using h
      simp only [World.apply, this]; exact ⟨rfl, rfl⟩
    case ssSetMaster x =>
      have : (x == m) = false := by simpa [noMasterEffect] using h
      simp only [World.apply, this]; exact ⟨rfl, rfl⟩
    case ssWaitCount x n =>
      have : (x == m) = false := by simpa [noMasterEffect] using h
      simp only [World.apply, this]; exact ⟨rfl, rfl⟩
    all_goals exact ⟨rfl, rfl⟩

theorem master_run (w : World) (m : String) (tr : List Ev) (h : AllCalls (noMasterEffect m) tr) :
    (w.run m tr).masterEnabled = w.masterEnabled ∧ (w.run m tr).waitCount = w.waitCount := by
  induction tr generalizing w with
  | nil => exact ⟨rfl, rfl⟩
  | cons e r ih =>
    rw [run_cons]
    have h1 := ih (w.applyEv m e) (fun x hx => h x (List.mem_cons_of_mem _ hx))
    have h2 := master_applyEv w m e (h e (by simp))
    exact ⟨h1.1.trans h2.1, h1.2.trans h2.2⟩
/-- one call adds at most the host of a successful `ssSetSlave` to the acknowledging replicas -/
theorem mem_slaveEnabled_applyEv (w : World) (m : String) (e : Ev) (h : String)
    (hh : h ∈ (w.applyEv m e).slaveEnabled) : h ∈ w.slaveEnabled ∨ e = ⟨.ssSetSlave h, true⟩ := by
  obtain ⟨c, ok⟩ := e
  cases ok with
  | false => exact Or.inl hh
  | true =>
    rw [applyEv_ok] at hh
    cases c <;> simp only [World.apply] at hh
    case ssDisable x =>
      split at hh <;> exact Or.inl (List.mem_filter.mp hh).1
    case ssSetSlave x =>
      split at hh
      · exact Or.inl hh
      · rcases List.mem_cons.mp hh with rfl | h1
        · exact Or.inr rfl
        · exact Or.inl h1
    case ssSetMaster x =>
      split at hh
      · exact Or.inl (List.mem_filter.mp hh).1
      · exact Or.inl hh
    case ssWaitCount x n =>
      split at hh <;> exact Or.inl hh
    all_goals exact Or.inl hh

theorem mem_slaveEnabled_run (w : World) (m : String) (tr : List Ev) (h : String)
    (hh : h ∈ (w.run m tr).slaveEnabled) : h ∈ w.slaveEnabled ∨ (⟨.ssSetSlave h, true⟩ : Ev) ∈ tr := by
  induction tr generalizing w with
  | nil => exact Or.inl hh
  | cons e r ih =>
    rw [run_cons] at hh
    rcases ih _ hh with h1 | h1
    · rcases mem_slaveEnabled_applyEv w m e h h1 with h2 | h2
      · exact Or.inl h2
      · exact Or.inr (by simp [h2])
    · exact Or.inr (List.mem_cons_of_mem _ h1)

theorem slaveEnabled_run_of_notSetSlave (w : World) (m : String) (tr : List Ev) (h : String)
    (htr : AllCalls (fun c => !isSetSlave c) tr) (hh : h ∈ (w.run m tr).slaveEnabled) : h ∈ w.slaveEnabled := by
  rcases mem_slaveEnabled_run w m tr h hh with h1 | h1
  · exact h1
  · have := htr _ h1; simp [isSetSlave] at this

/-! #### `updateSemiSync` cut into its segments -/

/-- the master's semi-sync snapshot the iteration works from -/
def msOf (i : UpdIn) : Option SemiSyncState := (i.cs.get? i.master).bind (·.semiSync)

def oldWscOf (i : UpdIn) : Int :=
  match msOf i with | some ss => if ss.masterEnabled then ss.waitSlaveCount else 0 | none => 0

def wscOf (cfg : Cfg) (i : UpdIn) : Int := req cfg (filterOut i.active i.changes.dataLag)

def beforeAfter (cfg : Cfg) (i : UpdIn) : Bool × Bool :=
  if cfg.masterFirst then (decide (wscOf cfg i < oldWscOf i), decide (wscOf cfg i > oldWscOf i))
  else (decide (wscOf cfg i > oldWscOf i), decide (wscOf cfg i < oldWscOf i))

def seg1 (cfg : Cfg) (i : UpdIn) : List Ev × Bool :=
  if (beforeAfter cfg i).1 then adjustMaster i (msOf i) (wscOf cfg i) else ([], true)

def disableRestart (i : UpdIn) (h : String) : List Ev :=
  let c := Call.ssDisable h
  if i.fails c then [⟨c, false⟩] else [⟨c, true⟩, ⟨.restartIO h, !i.fails (.restartIO h)⟩]

def disableOpt (i : UpdIn) (h : String) : List Ev :=
  let c := Call.ssDisable h
  if i.fails c then [⟨c, false⟩] else [⟨c, true⟩, ⟨.optEnable h, !i.fails (.optEnable h)⟩]

def seg2 (i : UpdIn) : List Ev := i.changes.becomeInactive.flatMap (disableRestart i)
def seg3 (i : UpdIn) : List Ev := i.changes.dataLag.flatMap (disableOpt i)

def loopOf (cfg : Cfg) (i : UpdIn) : List Ev × Int × List String :=
  enableLoop i i.changes.becomeActive (wscOf cfg i) i.active

def seg5 (cfg : Cfg) (i : UpdIn) : List Ev :=
  if (beforeAfter cfg i).2 then (adjustMaster i (msOf i) (loopOf cfg i).2.1).1 else []

theorem updateSemiSync_eq (cfg : Cfg) (i : UpdIn) :
    updateSemiSync cfg i =
      if i.fails .pingMaster then [⟨.pingMaster, false⟩]
      else if !(seg1 cfg i).2 then ⟨.pingMaster, true⟩ :: (seg1 cfg i).1
      else ⟨.pingMaster, true⟩ :: (seg1 cfg i).1 ++ seg2 i ++ seg3 i ++ (loopOf cfg i).1 ++ seg5 cfg i
            ++ publishPart i (loopOf cfg i).2.2 := rfl

theorem seg1_calls (cfg : Cfg) (i : UpdIn) : AllCalls (isMasterCall i.master) (seg1 cfg i).1 := by
  unfold seg1
  split
  · exact adjustMaster_calls _ _ _
  · exact AllCalls.nil

theorem seg5_calls (cfg : Cfg) (i : UpdIn) : AllCalls (isMasterCall i.master) (seg5 cfg i) := by
  unfold seg5
  split
  · exact adjustMaster_calls _ _ _
  · exact AllCalls.nil

theorem disableRestart_calls (i : UpdIn) (hs : List String) (h : String) (hh : h ∈ hs) :
    AllCalls (isDisableCall hs) (disableRestart i h) := by
  unfold disableRestart
  dsimp only
  split <;> simp [AllCalls, isDisableCall, hh]

theorem disableOpt_calls (i : UpdIn) (hs : List String) (h : String) (hh : h ∈ hs) :
    AllCalls (isDisableCall hs) (disableOpt i h) := by
  unfold disableOpt
  dsimp only
  split <;> simp [AllCalls, isDisableCall, hh]

theorem seg2_calls (i : UpdIn) : AllCalls (isDisableCall i.changes.becomeInactive) (seg2 i) :=
  AllCalls.flatMap _ _ fun h hh => disableRestart_calls i _ h hh

theorem seg3_calls (i : UpdIn) : AllCalls (isDisableCall i.changes.dataLag) (seg3 i) :=
  AllCalls.flatMap _ _ fun h hh => disableOpt_calls i _ h hh

theorem loopOf_calls (cfg : Cfg) (i : UpdIn) : AllCalls (isEnableCall i.changes.becomeActive) (loopOf cfg i).1 :=
  enableLoop_calls _ _ _ _

/-- does enabling of `h` in `enableLoop` succeed (flag set and replication restarted)? -/
def enableOk (i : UpdIn) (h : String) : Bool :=
  !i.fails (.ssSetSlave h) && !i.fails (if i.ahead h then Call.restartReplica h else Call.restartIO h)

theorem enableLoop_cons_snd (i : UpdIn) (h : String) (rest : List String) (wsc : Int) (active : List String) :
    (enableLoop i (h :: rest) wsc active).2 =
      if enableOk i h then (enableLoop i rest wsc active).2
      else (enableLoop i rest (wsc - 1) (active.filter (· != h))).2 := by
  unfold enableOk
  rw [enableLoop]
  by_cases h1 : i.fails (.ssSetSlave h) = true
  · simp [h1]
  · by_cases h2 : i.fails (if i.ahead h then Call.restartReplica h else Call.restartIO h) = true
    · simp [h1, h2]
    · simp [h1, h2]

theorem enableLoop_subset (i : UpdIn) (hs : List String) (wsc : Int) (active : List String) (x : String)
    (hx : x ∈ (enableLoop i hs wsc active).2.2) : x ∈ active := by
  induction hs generalizing wsc active with
  | nil => simpa [enableLoop] using hx
  | cons a r ih =>
    rw [enableLoop_cons_snd] at hx
    split at hx
    · exact ih _ _ hx
    · exact (List.mem_filter.mp (ih _ _ hx)).1

/-! #### publication is the last call -/

theorem publishPart_last (i : UpdIn) (active l : List String) (ok : Bool)
    (h : (⟨.publish l, ok⟩ : Ev) ∈ publishPart i active) : (publishPart i active).getLast? = some ⟨.publish l, ok⟩ := by
  unfold publishPart at h ⊢
  dsimp only at h ⊢
  by_cases h1 : (filterOut i.oldActive active).isEmpty = true
  · simp only [h1, if_true] at h ⊢; simp at h; simp [h]
  · by_cases h2 : i.fails .pingMasterShrink = true
    · simp [h1, h2] at h
    · simp only [h1, h2] at h ⊢; simp at h; simp [h]

theorem getLast?_noPublish_append (pre pp : List Ev) (l : List String) (ok : Bool)
    (hpre : AllCalls (fun c => !isPublish c) pre)
    (hpp : ∀ l ok, (⟨.publish l, ok⟩ : Ev) ∈ pp → pp.getLast? = some ⟨.publish l, ok⟩)
    (h : (⟨.publish l, ok⟩ : Ev) ∈ pre ++ pp) : (pre ++ pp).getLast? = some ⟨.publish l, ok⟩ := by
  rcases List.mem_append.mp h with h | h
  · have := hpre _ h; simp [isPublish] at this
  · rw [List.getLast?_append, hpp l ok h]; rfl

/-- everything before `publishPart` is free of `SetActiveNodes` -/
theorem prefix_noPublish (cfg : Cfg) (i : UpdIn) :
    AllCalls (fun c => !isPublish c)
      (⟨.pingMaster, true⟩ :: (seg1 cfg i).1 ++ seg2 i ++ seg3 i ++ (loopOf cfg i).1 ++ seg5 cfg i) := by
  rw [List.cons_append, List.cons_append, List.cons_append, List.cons_append]
  exact AllCalls.cons rfl
    (((((seg1_calls cfg i).mono (isMasterCall_notPublish _)).append
      ((seg2_calls i).mono (isDisableCall_notPublish _))).append
      ((seg3_calls i).mono (isDisableCall_notPublish _))).append
      ((loopOf_calls cfg i).mono (isEnableCall_notPublish _)) |>.append
      ((seg5_calls cfg i).mono (isMasterCall_notPublish _)))

theorem updateSemiSync_publish_last (cfg : Cfg) (i : UpdIn) (l : List String) (ok : Bool)
    (h : (⟨.publish l, ok⟩ : Ev) ∈ updateSemiSync cfg i) : (updateSemiSync cfg i).getLast? = some ⟨.publish l, ok⟩ := by
  rw [updateSemiSync_eq] at h ⊢
  by_cases h1 : i.fails .pingMaster = true
  · rw [if_pos h1] at h; simp at h
  · rw [if_neg h1] at h ⊢
    by_cases h2 : (!(seg1 cfg i).2) = true
    · rw [if_pos h2] at h
      have := AllCalls.cons (p := fun c => !isPublish c) (e := ⟨.pingMaster, true⟩) rfl
        ((seg1_calls cfg i).mono (isMasterCall_notPublish _)) _ h
      simp [isPublish] at this
    · rw [if_neg h2] at h ⊢
      exact getLast?_noPublish_append _ _ l ok (prefix_noPublish cfg i) (publishPart_last i _) h

theorem publishPart_eviction (i : UpdIn) (active : List String) (l : List String) (ok : Bool)
    (hp : (⟨.publish l, ok⟩ : Ev) ∈ publishPart i active) (hrem : filterOut i.oldActive active ≠ []) :
    (⟨.pingMasterShrink, true⟩ : Ev) ∈ publishPart i active ∧ l = active := by
  unfold publishPart at hp ⊢
  have : (filterOut i.oldActive active).isEmpty = false := by simpa using hrem
  simp only [this, Bool.false_eq_true, if_false] at hp ⊢
  split at hp
  · simp at hp
  · simp at hp
    rename_i hf
    simp [hf, hp.1]

theorem enableLoop_failed_not_member (i : UpdIn) (hs : List String) (wsc : Int) (active : List String) (h : String)
    (hh : h ∈ hs) (hf : i.fails (.ssSetSlave h) = true) : h ∉ (enableLoop i hs wsc active).2.2 := by
  induction hs generalizing wsc active with
  | nil => cases hh
  | cons a r ih =>
    rw [enableLoop_cons_snd]
    by_cases ha : h = a
    · subst ha
      have : enableOk i h = false := by simp [enableOk, hf]
      simp only [this, Bool.false_eq_true, if_false]
      intro hx
      have := enableLoop_subset i r _ _ h hx
      simp at this
    · have hr : h ∈ r := by simpa [ha] using hh
      split
      · exact ih _ _ hr
      · exact ih _ _ hr

end ActiveNodesLemmas
