/- C19 helper lemmas, part 2: the registry+settings world under a trace. -/
import MysyncModel.App.Optimization

namespace OptimizationLemmas
open NS Optimization

/-! ### the world -/

theorem lookup_filter_ne {α : Type} (l : List (String × α)) (h x : String) (hx : x ≠ h) :
    (l.filter (·.1 != h)).lookup x = l.lookup x := by
  induction l with
  | nil => rfl
  | cons p l ih =>
    obtain ⟨k, v⟩ := p
    by_cases hk : k = h
    · subst hk
      have : (x == k) = false := by simpa using hx
      simp [List.lookup_cons, this, ih]
    · have hk' : (k != h) = true := by simpa using hk
      simp only [List.filter_cons, hk', if_true, List.lookup_cons, ih]

theorem get_set_same (w : World) (h : String) (s : RS) : (w.set h s).get h = s := by
  simp [World.get, World.set]

theorem get_set_other (w : World) (h x : String) (s : RS) (hx : x ≠ h) : (w.set h s).get x = w.get x := by
  have : (x == h) = false := by simpa using hx
  simp [World.get, World.set, List.lookup_cons, this, lookup_filter_ne _ _ _ hx]

theorem registered_set (w : World) (h : String) (s : RS) : (w.set h s).registered = w.registered := rfl

theorem run_nil (w : World) (m : RS) : w.run m [] = w := rfl
theorem run_cons (w : World) (m : RS) (e : Ev) (t : List Ev) : w.run m (e :: t) = (w.apply m e).run m t := rfl
theorem run_append (w : World) (m : RS) (a b : List Ev) : w.run m (a ++ b) = (w.run m a).run m b := by
  simp [World.run, List.foldl_append]

/-- no event of the trace is a registration -/
def NoReg (t : List Ev) : Prop := ∀ e ∈ t, ∀ h, e.call ≠ .register h

theorem apply_registered_sublist (w : World) (m : RS) (e : Ev) (he : ∀ h, e.call ≠ .register h) :
    (w.apply m e).registered.Sublist w.registered := by
  obtain ⟨c, ok⟩ := e
  cases c <;> cases ok <;> simp [World.apply, World.set] at he ⊢

theorem run_registered_sublist (w : World) (m : RS) (t : List Ev) (ht : NoReg t) :
    (w.run m t).registered.Sublist w.registered := by
  induction t generalizing w with
  | nil => exact List.Sublist.refl _
  | cons e t ih =>
    rw [run_cons]
    exact (ih _ fun e' he' => ht e' (List.mem_cons_of_mem _ he')).trans
      (apply_registered_sublist w m e (ht e List.mem_cons_self))

/-- a successfully deregistered host is not registered at the end (nothing registers) -/
theorem run_deregistered (w : World) (m : RS) (t : List Ev) (x : String) (ht : NoReg t)
    (hx : (⟨.deregister x, true⟩ : Ev) ∈ t) : x ∉ (w.run m t).registered := by
  induction t generalizing w with
  | nil => simp at hx
  | cons e t ih =>
    have ht' : NoReg t := fun e' he' => ht e' (List.mem_cons_of_mem _ he')
    rw [run_cons]
    rcases List.mem_cons.1 hx with hx | hx
    · subst hx
      intro hmem
      have := (run_registered_sublist _ m t ht').subset hmem
      simp [World.apply] at this
    · exact ih _ ht' hx

theorem apply_get (w : World) (m : RS) (e : Ev) (x : String) (he : e ≠ ⟨.relax x, true⟩) :
    (w.apply m e).get x = m ∨ (w.apply m e).get x = w.get x := by
  obtain ⟨c, ok⟩ := e
  cases c with
  | restore h =>
    cases ok
    · exact Or.inr rfl
    · by_cases hh : x = h
      · subst hh; exact Or.inl (get_set_same _ _ _)
      · exact Or.inr (get_set_other _ _ _ _ hh)
  | relax h =>
    cases ok
    · exact Or.inr rfl
    · by_cases hh : x = h
      · subst hh; exact absurd rfl he
      · exact Or.inr (get_set_other _ _ _ _ hh)
  | deregister h => cases ok <;> exact Or.inr rfl
  | readSettings h => cases ok <;> exact Or.inr rfl
  | register h => cases ok <;> exact Or.inr rfl

/-- settings of a host that is never relaxed: the master's or untouched -/
theorem get_run_no_relax (w : World) (m : RS) (t : List Ev) (x : String)
    (hx : (⟨.relax x, true⟩ : Ev) ∉ t) : (w.run m t).get x = m ∨ (w.run m t).get x = w.get x := by
  induction t generalizing w with
  | nil => exact Or.inr rfl
  | cons e t ih =>
    rw [run_cons]
    have h1 := apply_get w m e x (fun h => hx (h ▸ List.mem_cons_self))
    rcases ih (w.apply m e) (fun h => hx (List.mem_cons_of_mem _ h)) with h2 | h2
    · exact Or.inl h2
    · rw [h2]; exact h1

/-- a host that is restored and never relaxed ends with the master's settings -/
theorem get_run_restored (w : World) (m : RS) (t : List Ev) (x : String)
    (hr : (⟨.restore x, true⟩ : Ev) ∈ t) (hx : (⟨.relax x, true⟩ : Ev) ∉ t) : (w.run m t).get x = m := by
  induction t generalizing w with
  | nil => simp at hr
  | cons e t ih =>
    rw [run_cons]
    have hx' : (⟨.relax x, true⟩ : Ev) ∉ t := fun h => hx (List.mem_cons_of_mem _ h)
    rcases List.mem_cons.1 hr with hr | hr
    · subst hr
      rcases get_run_no_relax (w.apply m ⟨.restore x, true⟩) m t x hx' with h | h
      · exact h
      · rw [h]; simp only [World.apply]; exact get_set_same _ _ _
    · exact ih _ hr hx'


end OptimizationLemmas
