/- Helper lemmas for C11 (statements of the property theorems are fixed in MysyncProofs/C11.lean). -/
import MysyncModel.App.Recovery
import MysyncModel.App.Switchover
import MysyncModel.App.ActiveNodes
import MysyncProofs.Lemmas.GtidLemmas

namespace RecoveryLemmas
open NS Gtid

end RecoveryLemmas
