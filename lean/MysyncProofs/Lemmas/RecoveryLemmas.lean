/- Helper lemmas for C11 (statements of the property theorems are fixed in MysyncProofs/C11.lean). -/
import MysyncModel.App.Recovery
import MysyncModel.App.Switchover
import MysyncModel.App.ActiveNodes
import MysyncProofs.Lemmas.GtidLemmas
import MysyncProofs.Lemmas.SwitchoverLemmas

namespace RecoveryLemmas
open NS Gtid Recovery

/-! ### `checkRecovery` -/

/-- the timer bookkeeping that precedes the verdict never clears the mark nor asks for a resetup -/
def timerActs (i : In) : List Act :=
  if i.stuck == .yes then (if i.stuckTimer.isNone then [.setStuckTimer] else []) else [.cleanStuckTimer]

theorem timerActs_mem (i : In) (a : Act) (h : a ∈ timerActs i) : a = .setStuckTimer ∨ a = .cleanStuckTimer := by
  unfold timerActs at h
  split at h
  · split at h
    · simp at h; exact Or.inl h
    · simp at h
  · simp at h; exact Or.inr h

/-- the guards of a run that clears the mark -/
theorem clear_guards (i : In) (ok : Bool) (h : Act.clearRecovery ok ∈ checkRecovery i) :
    i.marked = true ∧ i.resetupFile = false ∧ i.readOnly = some true ∧
    ∃ st ex mg m, i.status = .replica st ex ∧ i.mgtid = some mg ∧ i.master = some m ∧ i.updateHostsOk = true ∧
      i.masterRegistered = true ∧ permanentlyLost st ex mg = false ∧
      ¬ ((i.stuck == .yes && m != i.localHost) = true) := by
  have hT' : Act.clearRecovery ok ∉ timerActs i := by
    intro hc
    rcases timerActs_mem i _ hc with h | h <;> cases h
  unfold checkRecovery at h
  simp only [← timerActs.eq_1] at h
  generalize timerActs i = T at h hT'
  repeat' split at h
  all_goals (try (simp [hT'] at h; done))
  rename_i h1 h2 _ _ _ m hma h3 h4 _ mg hg _ hstk _ st ex hs hpl _ hro
  exact ⟨by simpa using h1, by simpa using h2, hro, st, ex, mg, m, hs, hg, hma, by simpa using h3, by simpa using h4,
    by simpa using hpl, hstk⟩

/-- … and what such a run consists of -/
theorem clear_eq (i : In) (st : ReplState) (ex mg m : String)
    (hm : i.marked = true) (hf : i.resetupFile = false) (hro : i.readOnly = some true)
    (hs : i.status = .replica st ex) (hg : i.mgtid = some mg) (hma : i.master = some m)
    (hu : i.updateHostsOk = true) (hr : i.masterRegistered = true) (hpl : permanentlyLost st ex mg = false)
    (hstk : ¬ ((i.stuck == .yes && m != i.localHost) = true)) :
    checkRecovery i = timerActs i ++ [.clearRecovery i.clearOk] := by
  unfold checkRecovery
  simp only [← timerActs.eq_1]
  have hne : (LocalStatus.replica st ex == LocalStatus.notReplica) = false := by simp
  simp only [hm, hf, hs, hma, hu, hr, hg, hne, hpl, hro, if_neg hstk]
  simp

theorem clear_char (i : In) (ok : Bool) (h : Act.clearRecovery ok ∈ checkRecovery i) :
    checkRecovery i = timerActs i ++ [.clearRecovery i.clearOk] := by
  obtain ⟨hm, hf, hro, st, ex, mg, m, hs, hg, hma, hu, hr, hpl, hstk⟩ := clear_guards i ok h
  exact clear_eq i st ex mg m hm hf hro hs hg hma hu hr hpl hstk

theorem permanentlyLost_false {st : ReplState} {ex mg : String} (h : permanentlyLost st ex mg = false) :
    st ≠ .error ∧ isSlaveBehindOrEqual (parseD ex) (parseD mg) = true := by
  unfold permanentlyLost isSlaveAhead at h
  simp only [Bool.or_eq_false_iff, Bool.not_eq_false'] at h
  refine ⟨?_, h.2⟩
  intro he
  rw [he] at h
  exact absurd h.1 (by decide)

theorem permanentlyLost_true {st : ReplState} {ex mg : String}
    (h : st = .error ∨ isSlaveAhead (parseD ex) (parseD mg) = true) : permanentlyLost st ex mg = true := by
  unfold permanentlyLost
  rcases h with h | h
  · subst h; rfl
  · rw [h]; simp

theorem behindOrEqual_subset {s m : GtidSet} (hs : WF s) (hm : WF m) (h : isSlaveBehindOrEqual s m = true) :
    GtidLemmas.GSubset s m := by
  unfold isSlaveBehindOrEqual at h
  rcases Bool.or_eq_true_iff.mp h with h | h
  · exact (GtidLemmas.contain_iff m s hm hs).mp h
  · exact ((GtidLemmas.equal_iff m s hm hs).mp h).1

theorem inert (i : In) (h : i.marked = false ∨ i.resetupFile = true) : checkRecovery i = [] := by
  unfold checkRecovery
  rcases h with h | h
  · simp [h]
  · cases i.marked <;> simp [h]

/-- the verdict for a marked replica that is ahead of the master or in error -/
theorem resetup_char (i : In) (st : ReplState) (ex mg master : String)
    (hm : i.marked = true) (hf : i.resetupFile = false) (hs : i.status = .replica st ex) (hma : i.master = some master)
    (hu : i.updateHostsOk = true) (hr : i.masterRegistered = true) (hg : i.mgtid = some mg) (hst : i.stuck ≠ .yes)
    (hbad : permanentlyLost st ex mg = true) :
    checkRecovery i = [.cleanStuckTimer, .writeResetup] := by
  unfold checkRecovery
  have hne : (LocalStatus.replica st ex == LocalStatus.notReplica) = false := by simp
  have hst' : (i.stuck == Stuck.yes) = false := by
    cases h : i.stuck <;> first | rfl | exact absurd h hst
  simp [hm, hf, hs, hma, hu, hr, hg, hne, hst', hbad]

/-! ### `setRecovery`, `repairStaleMaster` -/

theorem setRecovery_writes (active : List String) (host : String) (setOk markOk : Bool) :
    (setRecovery (some active) host setOk markOk).1 =
      if setOk then [.setActiveNodes (active.filter (· != host)), .createRecoveryMark host]
      else [.setActiveNodes (active.filter (· != host))] := by
  unfold setRecovery
  cases setOk <;> simp

theorem mem_filter_ne (active : List String) (host x : String) :
    x ∈ active.filter (· != host) ↔ x ∈ active ∧ x ≠ host := by
  simp [List.mem_filter]

/-! ### exclusion from the list -/

theorem classify_marked (delay : Int) (i : ActiveNodes.CalcIn) (host : String) (node : NodeState) (l : List String)
    (hr : i.recovery = some l) (hm : host ∈ l) (hne : host ≠ i.master) :
    (ActiveNodes.classify delay i host node).1.isMember = false := by
  unfold ActiveNodes.classify
  have h1 : (host == i.master) = false := by simpa using hne
  have h2 : l.contains host = true := by simpa using hm
  simp only [h1, hr, h2]
  cases node.isCascade <;> simp [ActiveNodes.Membership.isMember]

end RecoveryLemmas
