/- Helper lemmas for C05 / C06 / C09 (statements of the property theorems are fixed in MysyncProofs/C05.lean, C06.lean, C09.lean).
The lemmas live in `ManagerCore` (normal forms of the manager iteration), `ManagerProps` (C05 and the
manager part of C09), `ManagerTick` (C06) and `ManagerMaint` (maintenance handlers of C09). -/
import MysyncModel.App.Manager
import MysyncModel.App.SwitchLifecycle
import MysyncProofs.Lemmas.ManagerCore
import MysyncProofs.Lemmas.ManagerProps
import MysyncProofs.Lemmas.ManagerMaint
import MysyncProofs.Lemmas.ManagerTick

namespace ManagerLemmas
open NS Manager SwitchLifecycle

end ManagerLemmas
