/- Helper lemmas for C05 / C06 / C09 (statements of the property theorems are fixed in MysyncProofs/C05.lean, C06.lean, C09.lean). -/
import MysyncModel.App.Manager
import MysyncModel.App.SwitchLifecycle

namespace ManagerLemmas
open NS Manager SwitchLifecycle

end ManagerLemmas
