/- Helper lemmas for C03 (statements of the property theorems are fixed in MysyncProofs/C03.lean). -/
import MysyncModel.Dcs.LockSys

namespace LockLemmas
open Zk LockSys

/-! ### the continuations of `opAcquire` / `opRelease`, named -/

/-- after `create lock self true` of `AcquireLock` -/
def kCre : Resp → Prog Res := fun r =>
  match r with
  | .created => .ret (.bool true)
  | _ => .ret (.bool false)

/-- after the `get lock` of `AcquireLock` -/
def kAcq (p : Path) (self : String) : Resp → Prog Res := fun r =>
  match r with
  | .err .noNode => .call (.create p self true) kCre
  | .data d _ _ => .ret (.bool (d == self))
  | _ => .ret (.bool false)

/-- after the `delete lock ver` of `ReleaseLock` (`n` = attempts left) -/
def kDel (p : Path) (self : String) (n : Nat) : Resp → Prog Res := fun r =>
  match r with
  | .err .connClosed => opRelease p self n
  | _ => .ret .done

/-- after the `get lock` of `ReleaseLock` (`n` = attempts left) -/
def kRel (p : Path) (self : String) (n : Nat) : Resp → Prog Res := fun r =>
  match r with
  | .data d ver _ => if d == self then .call (.delete p ver) (kDel p self n) else .ret .done
  | .err .connClosed => opRelease p self n
  | _ => .ret .done

theorem opAcquire_eq (p : Path) (self : String) : opAcquire p self = .call (.get p) (kAcq p self) := rfl
theorem opRelease_zero (p : Path) (self : String) : opRelease p self 0 = .ret .done := rfl
theorem opRelease_succ (p : Path) (self : String) (n : Nat) :
    opRelease p self (n + 1) = .call (.get p) (kRel p self n) := rfl

theorem opRelease_cases (p : Path) (self : String) (n : Nat) :
    opRelease p self n = .ret .done ∨ ∃ m, opRelease p self n = .call (.get p) (kRel p self m) := by
  cases n with
  | zero => exact Or.inl rfl
  | succ m => exact Or.inr ⟨m, rfl⟩

/-! ### the server on the lock key -/

def optNode (lock : Path) : Option ZNode → List (Path × ZNode)
  | none => []
  | some n => [(lock, n)]

/-- the static facts about the tree around the lock key (from `C03.GoodInit`) -/
structure Par (lock : Path) (parents : List (Path × ZNode)) : Prop where
  ne : lock ≠ []
  own : ∀ pn ∈ parents, pn.2.owner = 0
  nlock : ∀ pn ∈ parents, pn.1 ≠ lock

theorem find_parents_none {lock : Path} {parents : List (Path × ZNode)} (hp : Par lock parents) :
    parents.find? (fun x => x.1 == lock) = none := by
  rw [List.find?_eq_none]
  intro x hx
  simpa using hp.nlock x hx

theorem find_lock {lock : Path} {parents : List (Path × ZNode)} (hp : Par lock parents) {s : Server} {o : Option ZNode}
    (h : s.nodes = parents ++ optNode lock o) : s.find? lock = o := by
  unfold Server.find?
  rw [h, List.find?_append, find_parents_none hp]
  cases o <;> simp [optNode]

theorem step_get_some {s : Server} {p : Path} {n : ZNode} (h : s.find? p = some n) (sid : Sid) :
    s.step sid (.get p) = (s, .data n.data n.version n.owner) := by
  simp only [Server.step, h]

theorem step_get_none {s : Server} {p : Path} (h : s.find? p = none) (hp : p ≠ []) (sid : Sid) :
    s.step sid (.get p) = (s, .err .noNode) := by
  simp [Server.step, h, hp]

theorem step_create_cases (s : Server) (sid : Sid) (p : Path) (d : String) (eph : Bool) :
    (s.step sid (.create p d eph) = (s.put p { data := d, version := 0, owner := if eph then sid else 0 }, .created)
        ∧ s.find? p = none) ∨
    ∃ e, s.step sid (.create p d eph) = (s, .err e) := by
  simp only [Server.step]
  split
  · exact Or.inr ⟨_, rfl⟩
  · split
    · exact Or.inr ⟨_, rfl⟩
    · split
      · exact Or.inr ⟨_, rfl⟩
      · split
        · exact Or.inr ⟨_, rfl⟩
        · refine Or.inl ⟨rfl, ?_⟩
          simp_all

theorem step_delete_cases (s : Server) (sid : Sid) (p : Path) (v : Int) :
    (s.step sid (.delete p v) = (s.erase p, .deleted) ∧ ∃ n, s.find? p = some n) ∨
    ∃ e, s.step sid (.delete p v) = (s, .err e) := by
  simp only [Server.step]
  split
  · exact Or.inr ⟨_, rfl⟩
  · split
    · exact Or.inr ⟨_, rfl⟩
    · split
      · exact Or.inr ⟨_, rfl⟩
      · exact Or.inl ⟨rfl, _, by assumption⟩

theorem put_absent {lock : Path} {parents : List (Path × ZNode)} (hp : Par lock parents) {s : Server}
    (h : s.nodes = parents ++ optNode lock none) (n : ZNode) :
    (s.put lock n).nodes = parents ++ optNode lock (some n) ∧ (s.put lock n).live = s.live := by
  have hf := find_lock hp h
  unfold Server.put
  simp [hf, h, optNode]

theorem erase_lock {lock : Path} {parents : List (Path × ZNode)} (hp : Par lock parents) {s : Server} {o : Option ZNode}
    (h : s.nodes = parents ++ optNode lock o) :
    (s.erase lock).nodes = parents ++ optNode lock none ∧ (s.erase lock).live = s.live := by
  unfold Server.erase
  refine ⟨?_, rfl⟩
  simp only [h, List.filter_append, optNode, List.append_nil]
  have h1 : parents.filter (fun x => x.1 != lock) = parents := by
    rw [List.filter_eq_self]
    intro x hx
    simpa using hp.nlock x hx
  rw [h1]
  cases o <;> simp

theorem expire_nodes {lock : Path} {parents : List (Path × ZNode)} (hp : Par lock parents) {s : Server} {o : Option ZNode}
    (h : s.nodes = parents ++ optNode lock o) {sid : Sid} (hs : 0 < sid) :
    (s.expire sid).nodes = parents ++ optNode lock (o.filter (fun n => n.owner != sid)) := by
  unfold Server.expire
  simp only [h, List.filter_append]
  have h1 : parents.filter (fun x => x.2.owner != sid) = parents := by
    rw [List.filter_eq_self]
    intro x hx
    have := hp.own x hx
    simp only [bne_iff_ne, ne_eq]
    rw [this]
    exact Nat.ne_of_lt hs
  rw [h1]
  cases o with
  | none => simp [optNode]
  | some n =>
    by_cases hn : n.owner = sid <;> simp [optNode, Option.filter, hn]

end LockLemmas
