/- Helper lemmas for C03 (statements of the property theorems are fixed in MysyncProofs/C03.lean).
Part 3: what the property theorems need from the invariant (parts 1, 2: LockServer.lean, LockInv.lean),
the growth of `told`, and the light invariant of the TTL-0 theorem. -/
import MysyncProofs.Lemmas.LockInv

namespace LockLemmas
open Zk LockSys

/-! ### `holds` as a proposition -/

theorem holds_iff (σ : Sys) (i : Nat) :
    holds σ i = true ↔ ∃ c, σ.clients[i]? = some c ∧ HoldsC σ.srv σ.lock c.id c.sid := by
  unfold holds HoldsC
  cases hc : σ.clients[i]? with
  | none => simp
  | some c =>
    cases hf : σ.srv.find? σ.lock with
    | none => simp
    | some n =>
      simp only [Bool.and_eq_true, beq_iff_eq, List.contains_iff_mem]
      constructor
      · rintro ⟨⟨h1, h2⟩, h3⟩
        exact ⟨c, rfl, n, rfl, h1, h2, h3⟩
      · rintro ⟨c', hc', m, hm, h1, h2, h3⟩
        cases hc'; cases hm
        exact ⟨⟨h1, h2⟩, h3⟩

/-- right after the guarded expiry of its session a client neither holds the lock nor has a cache entry
(no invariant needed: the session is not live any more, and the guard asked for an empty cache) -/
theorem expire_not_holder (σ : Sys) (i : Nat) (c : Client) (hc : σ.clients[i]? = some c)
    (he : step σ (.expire i) ≠ σ) :
    holds (step σ (.expire i)) i = false ∧ ∀ c', (step σ (.expire i)).clients[i]? = some c' → c'.cache = none := by
  simp only [step, hc] at he ⊢
  by_cases hgd : (c.cache.isNone && c.prog.isNone) = true
  · rw [if_pos hgd]
    simp only [Bool.and_eq_true, Option.isNone_iff_eq_none] at hgd
    constructor
    · cases hh : holds { σ with srv := σ.srv.expire c.sid } i with
      | false => rfl
      | true =>
        rw [holds_iff] at hh
        obtain ⟨c', hc', _, _, _, _, hl⟩ := hh
        have hc'' : σ.clients[i]? = some c' := hc'
        rw [hc] at hc''
        cases hc''
        simp [Server.expire] at hl
    · intro c' hc'
      have hc'' : σ.clients[i]? = some c' := hc'
      rw [hc] at hc''
      cases hc''
      exact hgd.1
  · rw [if_neg hgd] at he
    exact absurd rfl he

/-- the same for the expiry in the middle of an AcquireLock (`expireAcq`) -/
theorem expireAcq_not_holder (σ : Sys) (i : Nat) (c : Client) (hc : σ.clients[i]? = some c)
    (he : step σ (.expireAcq i) ≠ σ) :
    holds (step σ (.expireAcq i)) i = false ∧ ∀ c', (step σ (.expireAcq i)).clients[i]? = some c' → c'.cache = none := by
  simp only [step, hc] at he ⊢
  by_cases hgd : (c.cache.isNone && (c.prog.isNone || c.acquiring)) = true
  · rw [if_pos hgd]
    simp only [Bool.and_eq_true, Option.isNone_iff_eq_none] at hgd
    constructor
    · cases hh : holds { σ with srv := σ.srv.expire c.sid } i with
      | false => rfl
      | true =>
        rw [holds_iff] at hh
        obtain ⟨c', hc', _, _, _, _, hl⟩ := hh
        have hc'' : σ.clients[i]? = some c' := hc'
        rw [hc] at hc''
        cases hc''
        simp [Server.expire] at hl
    · intro c' hc'
      have hc'' : σ.clients[i]? = some c' := hc'
      rw [hc] at hc''
      cases hc''
      exact hgd.1
  · rw [if_neg hgd] at he
    exact absurd rfl he

/-! ### `told` grows only for a client that has a cache entry afterwards -/

theorem settle_told {σ : Sys} {i : Nat} {c : Client} {p : Prog Res} {j : Nat} {b : Bool} {told0 : List (Nat × Bool)}
    (hi : σ.clients[i]? = some c) (ht : σ.told = told0) (h : (settle σ i c p).told = (j, b) :: told0) :
    ∃ c', (settle σ i c p).clients[j]? = some c' ∧ c'.cache ≠ none := by
  cases p with
  | ret r =>
    simp only [settle] at h ⊢
    by_cases hcond : (c.acquiring && r == .bool true) = true
    · rw [if_pos hcond] at h ⊢
      simp only [ht, List.cons.injEq, Prod.mk.injEq, and_true] at h
      obtain ⟨rfl, _⟩ := h
      exact ⟨_, set_get_self hi, by simp⟩
    · rw [if_neg hcond] at h
      simp only [ht] at h
      exact absurd h.symm (List.cons_ne_self _ _)
  | call q k =>
    simp only [settle, ht] at h
    exact absurd h.symm (List.cons_ne_self _ _)

theorem told_grows_cache (σ : Sys) (st : Step) (j : Nat) (b : Bool) (h : (step σ st).told = (j, b) :: σ.told) :
    ∃ c', (step σ st).clients[j]? = some c' ∧ c'.cache ≠ none := by
  have hno : ∀ {P : Prop}, σ.told = (j, b) :: σ.told → P := fun h => absurd h.symm (List.cons_ne_self _ _)
  generalize hs : step σ st = σ' at h ⊢
  cases st with
  | tick d => subst hs; exact hno h
  | beginAcquire i =>
    simp only [step] at hs
    split at hs
    · subst hs; exact hno h
    · next c hi =>
      split at hs
      · subst hs; exact hno h
      · split at hs
        · next hfresh =>
          subst hs
          simp only [List.cons.injEq, Prod.mk.injEq, and_true] at h
          obtain ⟨rfl, _⟩ := h
          refine ⟨c, hi, fun hn => ?_⟩
          rw [hn] at hfresh
          simp [cacheFresh] at hfresh
        · subst hs; exact hno h
  | beginRelease i =>
    simp only [step] at hs
    split at hs
    · subst hs; exact hno h
    · split at hs <;> (subst hs; exact hno h)
  | prim i =>
    simp only [step] at hs
    split at hs
    · next c hi =>
      split at hs
      · split at hs
        · subst hs
          exact settle_told (σ := { σ with srv := _ }) hi rfl h
        · subst hs; exact hno h
      · subst hs; exact hno h
    · subst hs; exact hno h
  | primLost i =>
    simp only [step] at hs
    split at hs
    · next c hi =>
      split at hs
      · split at hs
        · subst hs
          exact settle_told (σ := { σ with srv := _ }) hi rfl h
        · subst hs; exact hno h
      · subst hs; exact hno h
    · subst hs; exact hno h
  | primLostRetry i =>
    simp only [step] at hs
    split at hs
    · split at hs
      · split at hs <;> (subst hs; exact hno h)
      · subst hs; exact hno h
    · subst hs; exact hno h
  | fail i e =>
    simp only [step] at hs
    split at hs
    · next c hi =>
      split at hs
      · subst hs
        exact settle_told hi rfl h
      · subst hs; exact hno h
    · subst hs; exact hno h
  | event i =>
    simp only [step] at hs
    split at hs <;> (subst hs; exact hno h)
  | expire i =>
    simp only [step] at hs
    split at hs
    · split at hs <;> (subst hs; exact hno h)
    · subst hs; exact hno h
  | expireAcq i =>
    simp only [step] at hs
    split at hs
    · split at hs <;> (subst hs; exact hno h)
    · subst hs; exact hno h
  | expireAny i =>
    simp only [step] at hs
    split at hs <;> (subst hs; exact hno h)
  | reconnect i =>
    simp only [step] at hs
    split at hs
    · split at hs <;> (subst hs; exact hno h)
    · subst hs; exact hno h

/-! ### TTL 0: the cache never answers (all steps, also the unguarded expiry) -/

/-- cache entries are never in the future, and the cache has not answered so far -/
def TtlInv (σ : Sys) : Prop :=
  σ.ttl = 0 ∧ (∀ c ∈ σ.clients, ∀ t, c.cache = some t → t ≤ σ.now) ∧ ∀ i, (i, true) ∉ σ.told

theorem ttl_update {σ σ' : Sys} {i : Nat} {c' : Client} (h : TtlInv σ) (httl : σ'.ttl = σ.ttl) (hnow : σ'.now = σ.now)
    (hcl : σ'.clients = σ.clients.set i c') (hc' : ∀ t, c'.cache = some t → t ≤ σ.now)
    (htold : σ'.told = σ.told ∨ ∃ j, σ'.told = (j, false) :: σ.told) : TtlInv σ' := by
  obtain ⟨h1, h2, h3⟩ := h
  refine ⟨httl.trans h1, ?_, ?_⟩
  · intro x hx t ht
    rw [hnow]
    rw [hcl] at hx
    rcases List.mem_or_eq_of_mem_set hx with hx | hx
    · exact h2 x hx t ht
    · subst hx; exact hc' t ht
  · intro k hk
    rcases htold with e | ⟨j, e⟩
    · rw [e] at hk; exact h3 k hk
    · rw [e] at hk
      simp only [List.mem_cons, Prod.mk.injEq, Bool.true_eq_false, and_false, false_or] at hk
      exact h3 k hk

theorem ttl_same {σ σ' : Sys} {d : Nat} (h : TtlInv σ) (httl : σ'.ttl = σ.ttl) (hnow : σ'.now = σ.now + d)
    (hcl : σ'.clients = σ.clients) (htold : σ'.told = σ.told) : TtlInv σ' := by
  obtain ⟨h1, h2, h3⟩ := h
  refine ⟨httl.trans h1, ?_, by rw [htold]; exact h3⟩
  intro x hx t ht
  rw [hcl] at hx
  have := h2 x hx t ht
  rw [hnow]
  omega

theorem ttl_settle {σ : Sys} {i : Nat} {c : Client} (p : Prog Res) (h : TtlInv σ) (hc : c ∈ σ.clients) :
    TtlInv (settle σ i c p) := by
  cases p with
  | ret r =>
    simp only [settle]
    split
    · refine ttl_update h rfl rfl rfl (fun t ht => ?_) (Or.inr ⟨i, rfl⟩)
      simp only [Option.some.injEq] at ht
      omega
    · exact ttl_update h rfl rfl rfl (fun t ht => h.2.1 c hc t ht) (Or.inl rfl)
  | call q k =>
    simp only [settle]
    exact ttl_update h rfl rfl rfl (fun t ht => h.2.1 c hc t ht) (Or.inl rfl)

theorem ttl_step {σ : Sys} (h : TtlInv σ) (st : Step) : TtlInv (step σ st) := by
  cases st with
  | tick d => exact ttl_same (d := d) h rfl rfl rfl rfl
  | beginAcquire i =>
    simp only [step]
    split
    · exact h
    · next c hi =>
      have hc := List.mem_of_getElem? hi
      split
      · exact h
      · split
        · next hfresh =>
          exfalso
          cases hcache : c.cache with
          | none => rw [hcache] at hfresh; simp [cacheFresh] at hfresh
          | some t =>
            have := h.2.1 c hc t hcache
            rw [hcache, h.1] at hfresh
            simp only [cacheFresh, decide_eq_true_eq] at hfresh
            omega
        · exact ttl_update h rfl rfl rfl (fun t ht => by simp at ht) (Or.inl rfl)
  | beginRelease i =>
    simp only [step]
    split
    · exact h
    · split
      · exact h
      · exact ttl_update h rfl rfl rfl (fun t ht => by simp at ht) (Or.inl rfl)
  | prim i =>
    simp only [step]
    split
    · next c hi =>
      split
      · split
        · exact ttl_settle (σ := { σ with srv := _ }) _ h (List.mem_of_getElem? hi)
        · exact h
      · exact h
    · exact h
  | primLost i =>
    simp only [step]
    split
    · next c hi =>
      split
      · split
        · exact ttl_settle (σ := { σ with srv := _ }) _ h (List.mem_of_getElem? hi)
        · exact h
      · exact h
    · exact h
  | primLostRetry i =>
    simp only [step]
    split
    · split
      · split
        · exact h
        · exact h
      · exact h
    · exact h
  | fail i e =>
    simp only [step]
    split
    · next c hi =>
      split
      · exact ttl_settle _ h (List.mem_of_getElem? hi)
      · exact h
    · exact h
  | event i =>
    simp only [step]
    split
    · exact ttl_update h rfl rfl rfl (fun t ht => by simp at ht) (Or.inl rfl)
    · exact h
  | expire i =>
    simp only [step]
    split
    · split
      · exact h
      · exact h
    · exact h
  | expireAcq i =>
    simp only [step]
    split
    · split
      · exact h
      · exact h
    · exact h
  | expireAny i =>
    simp only [step]
    split
    · exact h
    · exact h
  | reconnect i =>
    simp only [step]
    split
    · next c hi =>
      split
      · exact h
      · exact ttl_update h rfl rfl rfl (fun t ht => h.2.1 c (List.mem_of_getElem? hi) t ht) (Or.inl rfl)
    · exact h

theorem ttl_run {σ : Sys} (h : TtlInv σ) (steps : List Step) : TtlInv (run σ steps) := by
  induction steps generalizing σ with
  | nil => exact h
  | cons st rest ih =>
    simp only [run, List.foldl_cons]
    exact ih (ttl_step h st)

theorem ttl_init (ids : List String) (lock : Path) (parents : List (Path × ZNode)) :
    TtlInv (init ids lock 0 parents) := by
  refine ⟨rfl, ?_, fun i hi => by simp [init] at hi⟩
  intro c hc t ht
  obtain ⟨i, hi⟩ := List.getElem?_of_mem hc
  rw [(init_client hi).2.2.1] at ht
  cases ht

end LockLemmas
