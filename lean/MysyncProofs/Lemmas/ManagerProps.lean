/-
Helper lemmas for C05 (failover gating, failure clock) and the manager part of C09: consequences of
the normal forms in `ManagerCore`.
-/
import MysyncProofs.Lemmas.ManagerCore

namespace ManagerLemmas
open NS Manager SwitchLifecycle

/-! ### C05: gating of `issueFailover` -/

/-- where a filing can come from -/
theorem issueFailover_source {cfg : Cfg} {i : In} (h : Step.issueFailover ∈ (stateManager cfg i).steps) :
    ∃ master q, Enters i master false [] ∧ i.sw = .absent ∧ Approved cfg i master ∧
      (stateManager cfg i).steps = q ++ [.issueFailover] ∧ ∀ s ∈ q, quiet s = true := by
  rcases stateManager_shape cfg i with ⟨_, he⟩ | ⟨m, light, pre, hen, hs⟩
  · have := he _ h; simp [early] at this
  · have hpre : Step.issueFailover ∉ pre := fun hm => by have := hen.pre_mem _ hm; simp at this
    have hmem : ∀ {t : List Step}, Step.issueFailover ∈ pre ++ t → Step.issueFailover ∈ t := fun hm =>
      (List.mem_append.mp hm).resolve_left hpre
    rcases hs with ⟨_, e⟩ | ⟨hsw, e⟩ | ⟨sw, _, _, _, e⟩ | ⟨sw, _, _, e⟩ <;> rw [e] at h ⊢ <;>
      simp only [] at h ⊢
    · exact absurd h hpre
    · have h := hmem h
      rcases asTail_char cfg i m light with hq | ⟨q, hq, hqq, rfl, happ⟩
      · have := hq _ h; simp [quiet] at this
      · obtain ⟨hc, hl, hd, hm, ha, hcase⟩ := hen
        obtain rfl : pre = [] := by
          rcases hcase with ⟨_, rfl, _⟩ | ⟨h1, _⟩ | ⟨h1, _⟩
          · rfl
          · cases h1
          · cases h1
        exact ⟨m, q, ⟨hc, hl, hd, hm, ha, hcase⟩, hsw, happ, by simp [hq], hqq⟩
    · have h := hmem h
      rcases List.mem_cons.mp h with h | h
      · cases h
      · have := asTail_light_quiet cfg i m _ h; simp [quiet] at this
    · have := hsTail_mem cfg i sw _ (hmem h); simp [swStep] at this

/-- C05 `failover_filed_only_if` with `GatesOpen` unfolded -/
theorem issueFailover_gates (cfg : Cfg) (i : In) (h : Step.issueFailover ∈ (stateManager cfg i).steps) :
    i.connected = true ∧ i.lockHeld = true ∧ ∃ master, i.master = some master ∧
      (cfg.failover = true ∧ (i.maint = .absent ∨ i.maint = .err false) ∧ i.sw = .absent ∧
        (∃ md, i.dcs.get? master = some md ∧
          ((md.pingOk = false ∨ md.isFsReadonly = true) ∨
            (md.daemonCrashRecovery = some true ∧ cfg.resetupCrashedHosts = true)) ∧
          ((md.daemonCrashRecovery = some true ∧ cfg.resetupCrashedHosts = true) ∨ md.isFsReadonly = true ∨
            (¬ (countRunningHASlaves i.cs > 0 ∧ countRunningHASlaves i.cs = countHANodes i.cs - 1) ∧
              (cfg.failoverDelay ≤ 0 ∨ ∃ t, i.failedAt = some t ∧ i.now - t ≥ cfg.failoverDelay)))) ∧
        Gen.SwitchHelper.CheckFailoverQuorum (sh cfg) i.activeNodes
          (countAliveHASlavesWithin i.activeNodes i.cs) = none ∧
        (i.last = .absent ∨ ∃ causeAuto fin, i.last = .record false causeAuto fin ∧
          ¬ (causeAuto = true ∧ i.now - fin < cfg.failoverCooldown))) := by
  obtain ⟨m, q, ⟨hc, hl, _, hm, _, hcase⟩, hsw, ⟨h1, h2, h3, h4⟩, _, _⟩ := issueFailover_source h
  refine ⟨hc, hl, m, hm, h1, ?_, hsw, h2, h3, h4⟩
  rcases hcase with ⟨_, _, h⟩ | ⟨h, _⟩ | ⟨h, _⟩
  · exact h
  · cases h
  · cases h

/-- C05 `filed_last` -/
theorem issueFailover_last (cfg : Cfg) (i : In) (h : Step.issueFailover ∈ (stateManager cfg i).steps) :
    ∃ pre, (stateManager cfg i).steps = pre ++ [Step.issueFailover] ∧ Step.issueFailover ∉ pre := by
  obtain ⟨m, q, _, _, _, e, hq⟩ := issueFailover_source h
  exact ⟨q, e, fun hm => by have := hq _ hm; simp [quiet] at this⟩

/-! ### C05: the failure clock -/

/-- C05 `timer_step` with `ReachesHealthTest` unfolded -/
theorem timer_step (cfg : Cfg) (i : In) (master : String) (md : NodeState)
    (hr : i.connected = true ∧ i.lockHeld = true ∧ i.dcsStateErr = false ∧ i.master.isSome ∧
      i.activeNodesErr = false ∧
      (i.maint = .absent ∨ i.maint = .err false ∨ i.maint = .record true true false ∨
        (i.maint = .record true false false ∧ i.setPausedOk = true)) ∧
      (i.sw = .absent ∨ ∃ sw, i.sw = .record sw ∧ sw.failoverType = true ∧ ∃ p, i.maint = .record true p false))
    (hm : i.master = some master) (hd : i.dcs.get? master = some md) :
    (stateManager cfg i).failedAt = timerNext (!md.pingOk || md.isFsReadonly) i.now i.failedAt := by
  obtain ⟨hc, hl, hde, _, ha, hmt, hsw⟩ := hr
  have htm : asTimer i master = timerNext (!md.pingOk || md.isFsReadonly) i.now i.failedAt := by
    simp [asTimer, hd]
  rcases hsw with hsw | ⟨sw, hsw, hf, p, hp⟩
  · have : ∃ light pre, Enters i master light pre := by
      rcases hmt with h | h | h | ⟨h, hs⟩
      · exact ⟨false, [], hc, hl, hde, hm, ha, Or.inl ⟨rfl, rfl, Or.inl h⟩⟩
      · exact ⟨false, [], hc, hl, hde, hm, ha, Or.inl ⟨rfl, rfl, Or.inr h⟩⟩
      · exact ⟨true, [], hc, hl, hde, hm, ha, Or.inr (Or.inl ⟨rfl, rfl, h⟩)⟩
      · exact ⟨true, _, hc, hl, hde, hm, ha, Or.inr (Or.inr ⟨rfl, rfl, h, hs⟩)⟩
    obtain ⟨light, pre, hen⟩ := this
    rw [stateManager_of_enters hen, handleSwitch_absent hsw, ← htm]
  · have : ∃ pre, Enters i master true pre := by
      rcases hmt with h | h | h | ⟨h, hs⟩
      · rw [h] at hp; cases hp
      · rw [h] at hp; cases hp
      · exact ⟨[], hc, hl, hde, hm, ha, Or.inr (Or.inl ⟨rfl, rfl, h⟩)⟩
      · exact ⟨_, hc, hl, hde, hm, ha, Or.inr (Or.inr ⟨rfl, rfl, h, hs⟩)⟩
    obtain ⟨pre, hen⟩ := this
    rw [stateManager_of_enters hen, handleSwitch_parked hsw hf, ← htm]

/-- C05 `timer_untouched` -/
theorem timer_untouched (cfg : Cfg) (i : In)
    (h : i.connected = false ∨ i.lockHeld = false ∨ i.dcsStateErr = true ∨ i.master = none ∨ i.activeNodesErr = true) :
    (stateManager cfg i).failedAt = i.failedAt := by
  rcases stateManager_early_or_enters cfg i with he | ⟨m, light, pre, hc, hl, hd, hm, ha, _⟩
  · exact he.1
  · simp [hc, hl, hd, hm, ha] at h

theorem list_reverse_induction {α : Type _} {P : List α → Prop} (nil : P [])
    (snoc : ∀ l a, P l → P (l ++ [a])) : ∀ l, P l := by
  intro l
  have : ∀ r : List α, P r.reverse := by
    intro r
    induction r with
    | nil => exact nil
    | cons a r ih => rw [List.reverse_cons]; exact snoc _ _ ih
  simpa using this l.reverse

theorem snoc_inj {α : Type _} {l l' : List α} {a a' : α} (h : l ++ [a] = l' ++ [a']) : l = l' ∧ a = a' := by
  have := List.append_inj' h rfl
  exact ⟨this.1, by simpa using this.2⟩

/-- C05 `failure_clock_history` (for `timerNext`) -/
theorem failure_clock_history (obs : List (Int × Bool)) (t0 : Option Int) :
    let t := obs.foldl (fun t (o : Int × Bool) => timerNext o.2 o.1 t) t0
    (t = none ↔ (obs = [] ∧ t0 = none) ∨ ∃ pre o, obs = pre ++ [o] ∧ o.2 = false) ∧
    (∀ x, t = some x → (∀ o ∈ obs, o.2 = true) ∧ t0 = some x ∨
      ∃ pre o post, obs = pre ++ o :: post ∧ o.1 = x ∧ o.2 = true ∧ (∀ p ∈ post, p.2 = true) ∧
        ((pre = [] ∧ t0 = none) ∨ ∃ pre' q, pre = pre' ++ [q] ∧ q.2 = false)) := by
  induction obs using list_reverse_induction with
  | nil => simp
  | snoc init o ih =>
    simp only [List.foldl_append, List.foldl_cons, List.foldl_nil]
    simp only at ih
    generalize List.foldl (fun t (o : Int × Bool) => timerNext o.2 o.1 t) t0 init = t' at ih ⊢
    obtain ⟨ih1, ih2⟩ := ih
    obtain ⟨n, b⟩ := o
    cases b
    · -- good evaluation
      refine ⟨?_, ?_⟩
      · simp only [timerNext]
        constructor
        · intro _; exact Or.inr ⟨init, (n, false), rfl, rfl⟩
        · intro _; simp
      · intro x hx; simp [timerNext] at hx
    · refine ⟨?_, ?_⟩
      · constructor
        · intro h; rcases t' with _ | y <;> simp [timerNext] at h
        · rintro (⟨h, _⟩ | ⟨pre, o, h, ho⟩)
          · simp at h
          · obtain ⟨_, rfl⟩ := snoc_inj h; simp at ho
      · intro x hx
        rcases t' with _ | y
        · -- the timer was unset: this evaluation sets it
          simp [timerNext] at hx
          subst hx
          refine Or.inr ⟨init, (n, true), [], rfl, rfl, rfl, by simp, ?_⟩
          rcases ih1.mp rfl with ⟨h1, h2⟩ | ⟨pre', q, h1, h2⟩
          · exact Or.inl ⟨h1, h2⟩
          · exact Or.inr ⟨pre', q, h1, h2⟩
        · simp [timerNext] at hx
          subst hx
          rcases ih2 y rfl with ⟨h1, h2⟩ | ⟨pre, o, post, h1, h2, h3, h4, h5⟩
          · refine Or.inl ⟨?_, h2⟩
            intro o ho
            rcases List.mem_append.mp ho with ho | ho
            · exact h1 o ho
            · simp at ho; subst ho; rfl
          · refine Or.inr ⟨pre, o, post ++ [(n, true)], by simp [h1], h2, h3, ?_, h5⟩
            intro p hp
            rcases List.mem_append.mp hp with hp | hp
            · exact h4 p hp
            · simp at hp; subst hp; rfl

/-! ### C05: suspicious master -/

theorem asTail_suspicious {cfg : Cfg} {i : In} {master : String} {light : Bool} {cm md : NodeState}
    (hc : i.cs.get? master = some cm) (hd : i.dcs.get? master = some md)
    (hunreach : cm.pingOk = false) (hgood : md.pingOk = true ∧ md.isFsReadonly = false) :
    asTail cfg i master light = detectSteps false i.failedAt ++ [.suspicious] := by
  simp [asTail, hc, hd, hunreach, hgood.1, hgood.2]

/-- the "harmful" steps excluded by C05 `suspicious_master_inert` -/
def acting : Step → Bool
  | .issueFailover | .repairOffline | .repairCluster | .updateActiveNodes | .syncOptimization => true
  | _ => false

theorem not_acting_iff (s : Step) : acting s = false ↔
    (s ≠ .issueFailover ∧ s ≠ .repairOffline ∧ s ≠ .repairCluster ∧ s ≠ .updateActiveNodes ∧
      s ≠ .syncOptimization) := by
  cases s <;> simp [acting]

/-- C05 `suspicious_master_inert` -/
theorem suspicious_master_inert (cfg : Cfg) (i : In) (master : String) (cm md : NodeState)
    (hm : i.master = some master) (hc : i.cs.get? master = some cm) (hd : i.dcs.get? master = some md)
    (hunreach : cm.pingOk = false) (hgood : md.pingOk = true ∧ md.isFsReadonly = false) :
    ∀ s ∈ (stateManager cfg i).steps,
      s ≠ .issueFailover ∧ s ≠ .repairOffline ∧ s ≠ .repairCluster ∧ s ≠ .updateActiveNodes ∧
        s ≠ .syncOptimization := by
  intro s hs
  rw [← not_acting_iff]
  have hdet : ∀ s ∈ detectSteps false i.failedAt, acting s = false := by
    cases i.failedAt <;> simp [detectSteps, acting]
  rcases stateManager_shape cfg i with ⟨_, he⟩ | ⟨m, light, pre, hen, hsh⟩
  · have := he s hs; cases s <;> simp [early] at this <;> simp [acting]
  · obtain rfl : m = master := by
      have := hen.2.2.2.1; rw [hm] at this; exact (Option.some.inj this).symm
    have hpre : ∀ s ∈ pre, acting s = false := fun s h => by rw [hen.pre_mem s h]; rfl
    have htail := asTail_suspicious (cfg := cfg) (light := light) hc hd hunreach hgood
    have htail' := asTail_suspicious (cfg := cfg) (light := true) hc hd hunreach hgood
    rcases hsh with ⟨_, e⟩ | ⟨_, e⟩ | ⟨sw, _, _, _, e⟩ | ⟨sw, _, _, e⟩ <;> rw [e] at hs <;> simp only [] at hs
    · exact hpre s hs
    · rw [htail] at hs
      rcases List.mem_append.mp hs with h | h
      · exact hpre s h
      · rcases List.mem_append.mp h with h | h
        · exact hdet s h
        · simp at h; subst h; rfl
    · rw [htail'] at hs
      rcases List.mem_append.mp hs with h | h
      · exact hpre s h
      · rcases List.mem_cons.mp h with h | h
        · subst h; rfl
        · rcases List.mem_append.mp h with h | h
          · exact hdet s h
          · simp at h; subst h; rfl
    · rcases List.mem_append.mp hs with h | h
      · exact hpre s h
      · have := hsTail_mem cfg i sw s h
        cases s <;> simp [swStep] at this <;> simp [acting]

end ManagerLemmas
