/- Helper lemmas for C08 (statements of the property theorems are fixed in MysyncProofs/C08.lean). -/
import MysyncModel.App.Lost

namespace LostLemmas
open Lost

/-! ### `checkHAReplicasRunning` -/

/-- the second component only says whether some probe timed out -/
theorem running_snd (cfg : Cfg) (i : In) :
    (replicasRunning cfg i).2 = decide (unreachable i.probes > 0) := by
  unfold replicasRunning
  split
  · split <;> rfl
  · rfl

/-- the first component is exactly the "live group" arithmetic -/
theorem running_fst_iff (cfg : Cfg) (i : In) :
    (replicasRunning cfg i).1 = true ↔
      ((cfg.semiSync = true ∧ ∃ w, i.localWaitCount = some w ∧ available i.probes ≥ w) ∨
       (cfg.semiSync = false ∧ available i.probes ≥ (i.haCount : Int) - 1)) := by
  unfold replicasRunning
  cases hs : cfg.semiSync
  · simp
  · cases hw : i.localWaitCount <;> simp

/-! ### normal form of `stateLost` -/

/-- the value of `ZKHALost[local]` after the iteration, when the node is not exempt -/
def timer' (i : In) : Option Int :=
  if unreachable i.probes > 0 then (match i.timer with | some t => some t | none => some i.now)
  else i.timer

/-- the postponement decision -/
def postpone (cfg : Cfg) (i : In) : Bool :=
  decide (unreachable i.probes > 0) &&
    (match timer' i with | some t => decide (i.now - t ≤ cfg.inactivationDelay) | none => false)

/-- the fencing sequence -/
def fence (i : In) (tm : Option Int) : Out :=
  if i.localIsMaster then
    match i.firstRo with
    | .ok | .other => { acts := [.setReadOnlyForce], next := .lost, timer := tm }
    | .deadline | .lockWait1205 =>
      match i.ack with
      | .err => { acts := [.setReadOnlyForce, .checkWaitingAck], next := .lost, timer := tm }
      | .notWaiting => { acts := [.setReadOnlyForce, .checkWaitingAck, .readGtid], next := .lost, timer := tm }
      | .waiting =>
        if !i.stopReplOfflineOk then { acts := [.setReadOnlyForce, .checkWaitingAck, .setOffline], next := .lost, timer := tm }
        else if !i.stopReplDisableOk then { acts := [.setReadOnlyForce, .checkWaitingAck, .setOffline, .semiSyncDisable], next := .lost, timer := tm }
        else if !i.secondRoOk then { acts := [.setReadOnlyForce, .checkWaitingAck, .setOffline, .semiSyncDisable, .setReadOnlyForce], next := .lost, timer := tm }
        else { acts := [.setReadOnlyForce, .checkWaitingAck, .setOffline, .semiSyncDisable, .setReadOnlyForce, .readGtid], next := .lost, timer := tm }
  else { acts := [.setReadOnly, .readGtid], next := .lost, timer := tm }

/-- `stateLost` as a flat decision list -/
theorem stateLost_eq (cfg : Cfg) (i : In) :
    stateLost cfg i =
      if i.connected then { acts := [], next := .candidate, timer := none }
      else if i.haCount = 1 ∨ i.localIsHA = false ∨ cfg.disableSetReadonlyOnLost = true then
        { acts := [], next := .lost, timer := i.timer }
      else if i.localIsMaster = true ∧ (replicasRunning cfg i).1 = true then
        { acts := [], next := .lost, timer := none }
      else if postpone cfg i then { acts := [], next := .lost, timer := timer' i }
      else fence i (timer' i) := by
  have h2 := running_snd cfg i
  unfold stateLost postpone fence timer'
  generalize replicasRunning cfg i = r at *
  obtain ⟨a, b⟩ := r
  simp only at h2
  subst h2
  cases i.connected <;> cases i.localIsHA <;> cases cfg.disableSetReadonlyOnLost <;>
    cases i.localIsMaster <;> cases a <;> by_cases h1 : i.haCount = 1 <;>
    by_cases hu : unreachable i.probes > 0 <;> simp [h1, hu] <;>
    (cases i.firstRo <;> cases i.ack <;> rfl)

/-- the not-exempt part: postpone or fence -/
theorem stateLost_not_exempt (cfg : Cfg) (i : In) (hc : i.connected = false) (h1 : i.haCount ≠ 1)
    (h2 : i.localIsHA = true) (h3 : cfg.disableSetReadonlyOnLost = false)
    (h4 : ¬ (i.localIsMaster = true ∧ (replicasRunning cfg i).1 = true)) :
    stateLost cfg i =
      if postpone cfg i then { acts := [], next := .lost, timer := timer' i } else fence i (timer' i) := by
  rw [stateLost_eq]
  simp [hc, h1, h2, h3, h4]

/-- the live-group part: nothing done, timer cleared -/
theorem stateLost_live (cfg : Cfg) (i : In) (hc : i.connected = false) (h1 : i.haCount ≠ 1)
    (h2 : i.localIsHA = true) (h3 : cfg.disableSetReadonlyOnLost = false)
    (h4 : i.localIsMaster = true ∧ (replicasRunning cfg i).1 = true) :
    stateLost cfg i = { acts := [], next := .lost, timer := none } := by
  rw [stateLost_eq]
  simp [hc, h1, h2, h3, h4]

/-- the statically exempt part: nothing done, timer kept -/
theorem stateLost_static (cfg : Cfg) (i : In) (hc : i.connected = false)
    (h : i.haCount = 1 ∨ i.localIsHA = false ∨ cfg.disableSetReadonlyOnLost = true) :
    stateLost cfg i = { acts := [], next := .lost, timer := i.timer } := by
  rw [stateLost_eq]
  simp [hc, h]

/-! ### the fencing sequence -/

theorem fence_acts_ne_nil (i : In) (tm : Option Int) : (fence i tm).acts ≠ [] := by
  unfold fence
  cases i.localIsMaster <;> cases i.firstRo <;> cases i.ack <;> cases i.stopReplOfflineOk <;>
    cases i.stopReplDisableOk <;> cases i.secondRoOk <;> simp

theorem fence_timer (i : In) (tm : Option Int) : (fence i tm).timer = tm := by
  unfold fence
  cases i.localIsMaster <;> cases i.firstRo <;> cases i.ack <;> cases i.stopReplOfflineOk <;>
    cases i.stopReplDisableOk <;> cases i.secondRoOk <;> simp

theorem fence_head (i : In) (tm : Option Int) :
    (i.localIsMaster = true ∧ (fence i tm).acts.head? = some .setReadOnlyForce) ∨
    (i.localIsMaster = false ∧ (fence i tm).acts = [.setReadOnly, .readGtid]) := by
  unfold fence
  cases i.localIsMaster <;> cases i.firstRo <;> cases i.ack <;> cases i.stopReplOfflineOk <;>
    cases i.stopReplDisableOk <;> cases i.secondRoOk <;> simp

theorem fence_stuck (i : In) (tm : Option Int) (hm : i.localIsMaster = true)
    (hro : i.firstRo = .deadline ∨ i.firstRo = .lockWait1205) (hack : i.ack = .waiting)
    (h1 : i.stopReplOfflineOk = true) (h2 : i.stopReplDisableOk = true) :
    ∃ tail, (fence i tm).acts =
      [.setReadOnlyForce, .checkWaitingAck, .setOffline, .semiSyncDisable, .setReadOnlyForce] ++ tail := by
  unfold fence
  rcases hro with hro | hro <;> cases h3 : i.secondRoOk <;> simp [hm, hro, hack, h1, h2]

theorem fence_off_only_if_stuck (i : In) (tm : Option Int)
    (h : Act.semiSyncDisable ∈ (fence i tm).acts ∨ Act.setOffline ∈ (fence i tm).acts) :
    i.localIsMaster = true ∧ (i.firstRo = .deadline ∨ i.firstRo = .lockWait1205) ∧ i.ack = .waiting := by
  unfold fence at h
  revert h
  cases i.localIsMaster <;> cases i.firstRo <;> cases i.ack <;> cases i.stopReplOfflineOk <;>
    cases i.stopReplDisableOk <;> cases i.secondRoOk <;> simp

/-! ### the postponement decision -/

theorem postpone_true (cfg : Cfg) (i : In) (h : postpone cfg i = true) :
    unreachable i.probes > 0 ∧
    ∃ t, timer' i = some t ∧ i.now - t ≤ cfg.inactivationDelay ∧
      (i.timer = some t ∨ (i.timer = none ∧ t = i.now)) := by
  unfold postpone at h
  simp only [Bool.and_eq_true, decide_eq_true_eq] at h
  obtain ⟨hu, h⟩ := h
  refine ⟨hu, ?_⟩
  unfold timer' at h ⊢
  simp only [hu, if_true] at h ⊢
  cases ht : i.timer with
  | none => simp [ht] at h ⊢; exact h
  | some t => simp [ht] at h ⊢; exact h

theorem postpone_false_of_no_unreachable (cfg : Cfg) (i : In) (hu : unreachable i.probes = 0) :
    postpone cfg i = false := by
  unfold postpone
  simp [hu]

theorem postpone_false_of_expired (cfg : Cfg) (i : In) (t : Int) (ht : i.timer = some t)
    (hd : i.now - t > cfg.inactivationDelay) : postpone cfg i = false := by
  unfold postpone timer'
  by_cases hu : unreachable i.probes > 0
  · simp [hu, ht]; omega
  · simp [hu]

/-! ### exempt / not exempt (unfolded forms of the `C08` definitions) -/

/-- the unfolded form of `C08.LiveGroup` -/
abbrev Live (cfg : Cfg) (i : In) : Prop :=
  i.localIsMaster = true ∧
  ((cfg.semiSync = true ∧ ∃ w, i.localWaitCount = some w ∧ available i.probes ≥ w) ∨
   (cfg.semiSync = false ∧ available i.probes ≥ (i.haCount : Int) - 1))

theorem live_iff (cfg : Cfg) (i : In) :
    Live cfg i ↔ (i.localIsMaster = true ∧ (replicasRunning cfg i).1 = true) :=
  and_congr Iff.rfl (running_fst_iff cfg i).symm

/-- the unfolded form of `C08.Exempt` -/
abbrev Exempt' (cfg : Cfg) (i : In) : Prop :=
  i.haCount = 1 ∨ i.localIsHA = false ∨ cfg.disableSetReadonlyOnLost = true ∨ Live cfg i

/-- exempt: nothing done, the node stays lost -/
theorem stateLost_exempt (cfg : Cfg) (i : In) (hc : i.connected = false) (he : Exempt' cfg i) :
    (stateLost cfg i).acts = [] ∧ (stateLost cfg i).next = .lost := by
  by_cases hs : i.haCount = 1 ∨ i.localIsHA = false ∨ cfg.disableSetReadonlyOnLost = true
  · rw [stateLost_static cfg i hc hs]; exact ⟨rfl, rfl⟩
  · have hl : Live cfg i := by
      rcases he with h | h | h | h
      · exact absurd (Or.inl h) hs
      · exact absurd (Or.inr (Or.inl h)) hs
      · exact absurd (Or.inr (Or.inr h)) hs
      · exact h
    simp only [not_or, Bool.not_eq_false, Bool.not_eq_true] at hs
    rw [stateLost_live cfg i hc hs.1 hs.2.1 hs.2.2 ((live_iff cfg i).1 hl)]; exact ⟨rfl, rfl⟩

/-- not exempt: postpone or fence -/
theorem stateLost_of_not_exempt (cfg : Cfg) (i : In) (hc : i.connected = false)
    (hne : ¬ Exempt' cfg i) :
    stateLost cfg i =
      if postpone cfg i then { acts := [], next := .lost, timer := timer' i } else fence i (timer' i) := by
  simp only [Exempt', not_or, Bool.not_eq_false, Bool.not_eq_true] at hne
  exact stateLost_not_exempt cfg i hc hne.1 hne.2.1 hne.2.2.1 (fun h => hne.2.2.2 ((live_iff cfg i).2 h))

/-- not exempt and nothing done: this is a postponement -/
theorem postpone_of_no_acts (cfg : Cfg) (i : In) (hc : i.connected = false)
    (hne : ¬ Exempt' cfg i) (hnone : (stateLost cfg i).acts = []) :
    postpone cfg i = true ∧ (stateLost cfg i).timer = timer' i := by
  rw [stateLost_of_not_exempt cfg i hc hne] at hnone ⊢
  cases hp : postpone cfg i
  · rw [hp] at hnone
    exact absurd hnone (fence_acts_ne_nil i (timer' i))
  · exact ⟨rfl, rfl⟩

/-- not exempt and not postponed: fenced -/
theorem acts_of_not_postponed (cfg : Cfg) (i : In) (hc : i.connected = false)
    (hne : ¬ Exempt' cfg i) (hp : postpone cfg i = false) :
    stateLost cfg i = fence i (timer' i) := by
  rw [stateLost_of_not_exempt cfg i hc hne, hp]; rfl

/-- something done: it is the fencing sequence -/
theorem fence_of_acts (cfg : Cfg) (i : In) (hne : (stateLost cfg i).acts ≠ []) :
    ∃ tm, stateLost cfg i = fence i tm := by
  rw [stateLost_eq] at hne ⊢
  split at hne
  · exact absurd rfl hne
  · split at hne
    · exact absurd rfl hne
    · split at hne
      · exact absurd rfl hne
      · split at hne
        · exact absurd rfl hne
        · rename_i h1 h2 h3 h4
          exact ⟨timer' i, by simp [h1, h2, h3, h4]⟩

end LostLemmas
