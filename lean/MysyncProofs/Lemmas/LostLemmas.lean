/- Helper lemmas for C08 (statements of the property theorems are fixed in MysyncProofs/C08.lean). -/
import MysyncModel.App.Lost

namespace LostLemmas
open Lost

end LostLemmas
