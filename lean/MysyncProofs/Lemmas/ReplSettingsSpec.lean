/-
ReplSettingsSpec — the specification of the GENERATED predicates on replication settings and server versions
(`MysyncModel/Generated/ReplSettings.lean`, `MysyncModel/Generated/Version.lean`), in a fixed normal form.

Same discipline as `QuorumSpec`: this is the ONLY proof file that unfolds these generated definitions, with a
proof script that does not depend on their shape (split every conditional, normalise, linear arithmetic);
every other proof uses the lemmas below.  A behaviour-preserving rewrite of the Go code leaves the development
untouched; a change of the predicates breaks this file.
-/
import MysyncModel.Generated.ReplSettings
import MysyncModel.Generated.Version

namespace ReplSettingsSpec
open Gen.ReplSettings Gen.Version

/-- shape-agnostic closing script: split every conditional of the goal, normalise, linear arithmetic -/
local macro "shape_free" : tactic =>
  `(tactic| (
    all_goals (repeat' split)
    all_goals (try simp_all)
    all_goals (try omega)))

/-- two settings are `Equal` iff both fields coincide -/
theorem equal_spec (a b : ReplicationSettings) :
    Equal a b = true ↔
      (a.SyncBinlog = b.SyncBinlog ∧ a.InnodbFlushLogAtTrxCommit = b.InnodbFlushLogAtTrxCommit) := by
  unfold Equal
  shape_free

/-- … that is, iff they are the same settings -/
theorem equal_iff_eq (a b : ReplicationSettings) : Equal a b = true ↔ a = b := by
  rw [equal_spec]
  cases a; cases b
  simp only [ReplicationSettings.mk.injEq]
  exact And.comm

/-- settings can be relaxed iff `sync_binlog` is below 1000 and `innodb_flush_log_at_trx_commit` is 1 or 2 -/
theorem canBeOptimized_spec (rs : ReplicationSettings) :
    CanBeOptimized rs = true ↔
      (rs.SyncBinlog < 1000 ∧ (rs.InnodbFlushLogAtTrxCommit = 1 ∨ rs.InnodbFlushLogAtTrxCommit = 2)) := by
  unfold CanBeOptimized
  shape_free

/-- `SHOW REPLICA STATUS` exists from 8.0.22 on, not in 5.x, and in every other major version -/
theorem replicaStatus_spec (v : Version) :
    CheckIfVersionReplicaStatus v = true ↔
      ((v.MajorVersion = 8 ∧ (0 < v.MinorVersion ∨ 22 ≤ v.PatchVersion)) ∨
        (v.MajorVersion ≠ 8 ∧ v.MajorVersion ≠ 5)) := by
  unfold CheckIfVersionReplicaStatus
  shape_free

end ReplSettingsSpec
