/- Helper lemmas for C15, part 2: the znode tree (`find?`, `put`, `erase`, `expire`, `childrenOf`) and
well-formedness. -/
import MysyncModel.Dcs.Zk

namespace ZkLemmas
open Zk

/-! ### association-list lookup -/

/-- `Server.find?` on the bare list -/
def lk (l : List (Path × ZNode)) (p : Path) : Option ZNode := (l.find? (·.1 == p)).map (·.2)

theorem find?_eq_lk (s : Server) (p : Path) : s.find? p = lk s.nodes p := rfl

@[simp] theorem lk_nil (p : Path) : lk [] p = none := rfl

theorem lk_cons (q : Path) (m : ZNode) (l : List (Path × ZNode)) (p : Path) :
    lk ((q, m) :: l) p = if q = p then some m else lk l p := by
  by_cases h : q = p <;> simp [lk, h]

theorem lk_mem {l : List (Path × ZNode)} {p : Path} {n : ZNode} (h : lk l p = some n) : (p, n) ∈ l := by
  induction l with
  | nil => simp at h
  | cons a l ih =>
    obtain ⟨q, m⟩ := a
    rw [lk_cons] at h
    by_cases hq : q = p
    · simp [hq] at h; simp [hq, h]
    · simp [hq] at h; simp [ih h]

theorem lk_none_iff {l : List (Path × ZNode)} {p : Path} : lk l p = none ↔ ∀ n, (p, n) ∉ l := by
  induction l with
  | nil => simp
  | cons a l ih =>
    obtain ⟨q, m⟩ := a
    rw [lk_cons]
    by_cases hq : q = p
    · subst hq
      simp only [if_true]
      constructor
      · intro h; simp at h
      · intro h; exact absurd (List.mem_cons_self) (h m)
    · simp only [hq, if_false, ih]
      constructor
      · intro h n hn
        rcases List.mem_cons.1 hn with h' | h'
        · exact hq (by simpa using (congrArg Prod.fst h').symm)
        · exact h n h'
      · intro h n hn; exact h n (List.mem_cons_of_mem _ hn)

theorem lk_isSome_iff {l : List (Path × ZNode)} {p : Path} : (lk l p).isSome = true ↔ ∃ n, (p, n) ∈ l := by
  constructor
  · intro h
    obtain ⟨n, hn⟩ := Option.isSome_iff_exists.1 h
    exact ⟨n, lk_mem hn⟩
  · intro ⟨n, hn⟩
    cases h : lk l p with
    | some m => rfl
    | none => exact absurd hn (lk_none_iff.1 h n)

theorem lk_none_of_not_key {l : List (Path × ZNode)} {p : Path} (h : p ∉ l.map (·.1)) : lk l p = none := by
  refine lk_none_iff.2 ?_
  intro n hn
  exact h (List.mem_map.2 ⟨(p, n), hn, rfl⟩)

theorem mem_lk {l : List (Path × ZNode)} {p : Path} {n : ZNode} (nd : (l.map (·.1)).Nodup) (h : (p, n) ∈ l) :
    lk l p = some n := by
  induction l with
  | nil => simp at h
  | cons a l ih =>
    obtain ⟨q, m⟩ := a
    rw [lk_cons]
    simp only [List.map_cons, List.nodup_cons] at nd
    rcases List.mem_cons.1 h with h' | h'
    · have h1 : p = q := congrArg Prod.fst h'
      have h2 : n = m := congrArg Prod.snd h'
      simp [h1, h2]
    · have hq : q ≠ p := by
        intro hq; subst hq
        exact nd.1 (List.mem_map.2 ⟨(q, n), h', rfl⟩)
      simp [hq, ih nd.2 h']

theorem nd_unique {l : List (Path × ZNode)} {p : Path} {n m : ZNode} (nd : (l.map (·.1)).Nodup)
    (h1 : (p, n) ∈ l) (h2 : (p, m) ∈ l) : n = m := by
  have := (mem_lk nd h1).symm.trans (mem_lk nd h2)
  simpa using this

theorem lk_append (l l' : List (Path × ZNode)) (p : Path) :
    lk (l ++ l') p = match lk l p with | some n => some n | none => lk l' p := by
  induction l with
  | nil => simp
  | cons a l ih =>
    obtain ⟨q, m⟩ := a
    rw [List.cons_append, lk_cons, lk_cons]
    by_cases hq : q = p <;> simp [hq, ih]

theorem lk_filter_key (l : List (Path × ZNode)) (q p : Path) :
    lk (l.filter (·.1 != q)) p = if p = q then none else lk l p := by
  induction l with
  | nil => simp
  | cons a l ih =>
    obtain ⟨x, m⟩ := a
    by_cases hx : x = q
    · subst hx
      simp only [List.filter_cons, bne_self_eq_false, Bool.false_eq_true, if_false, ih, lk_cons]
      by_cases hp : p = x
      · simp [hp]
      · have : x ≠ p := fun h => hp h.symm
        simp [hp, this]
    · have hx' : (x != q) = true := by simpa using hx
      simp only [List.filter_cons, hx', if_true, lk_cons, ih]
      by_cases hp : x = p
      · subst hp; simp [hx]
      · simp [hp]

theorem lk_map_replace (l : List (Path × ZNode)) (q : Path) (n : ZNode) (p : Path) :
    lk (l.map fun (x, m) => if x == q then (x, n) else (x, m)) p =
      if p = q then (lk l p).map (fun _ => n) else lk l p := by
  induction l with
  | nil => simp
  | cons a l ih =>
    obtain ⟨x, m⟩ := a
    simp only [List.map_cons]
    by_cases hx : x = q
    · subst hx
      simp only [beq_self_eq_true, if_true, lk_cons, ih]
      by_cases hp : x = p
      · subst hp; simp
      · have : p ≠ x := fun h => hp h.symm
        simp [hp, this]
    · have hx' : (x == q) = false := by simpa using hx
      simp only [hx', Bool.false_eq_true, if_false, lk_cons, ih]
      by_cases hp : x = p
      · subst hp; simp [hx]
      · simp [hp]

theorem lk_filter_owner (l : List (Path × ZNode)) (sid : Sid) (p : Path) (nd : (l.map (·.1)).Nodup) :
    lk (l.filter (·.2.owner != sid)) p =
      match lk l p with
      | some n => if n.owner = sid then none else some n
      | none => none := by
  induction l with
  | nil => simp
  | cons a l ih =>
    obtain ⟨x, m⟩ := a
    simp only [List.map_cons, List.nodup_cons] at nd
    by_cases hx : x = p
    · subst hx
      have hnone : lk l x = none := lk_none_of_not_key nd.1
      by_cases ho : m.owner = sid
      · simp [ho, lk_cons, ih nd.2, hnone]
      · simp [ho, lk_cons]
    · by_cases ho : m.owner = sid
      · simp [ho, lk_cons, ih nd.2, hx]
      · simp [ho, lk_cons, ih nd.2, hx]

/-! ### server level -/

theorem find?_mem {s : Server} {p : Path} {n : ZNode} (h : s.find? p = some n) : (p, n) ∈ s.nodes := lk_mem h

theorem find?_none_iff {s : Server} {p : Path} : s.find? p = none ↔ ∀ n, (p, n) ∉ s.nodes := lk_none_iff

theorem find?_isSome_iff {s : Server} {p : Path} : (s.find? p).isSome = true ↔ ∃ n, (p, n) ∈ s.nodes :=
  lk_isSome_iff

theorem has_iff (s : Server) (p : Path) : s.has p = true ↔ p = [] ∨ ∃ n, (p, n) ∈ s.nodes := by
  unfold Server.has
  rw [Bool.or_eq_true, find?_isSome_iff]
  simp

theorem put_of_none {s : Server} {p : Path} (n : ZNode) (h : s.find? p = none) :
    s.put p n = { s with nodes := s.nodes ++ [(p, n)] } := by
  simp [Server.put, h]

theorem put_of_some {s : Server} {p : Path} (n : ZNode) (h : (s.find? p).isSome = true) :
    s.put p n = { s with nodes := s.nodes.map fun (q, m) => if q == p then (q, n) else (q, m) } := by
  simp [Server.put, h]

theorem put_live (s : Server) (p : Path) (n : ZNode) : (s.put p n).live = s.live := by
  unfold Server.put; split <;> rfl

theorem find?_put_self (s : Server) (p : Path) (n : ZNode) : (s.put p n).find? p = some n := by
  cases h : s.find? p with
  | none =>
    rw [put_of_none n h, find?_eq_lk]
    simp only [lk_append]
    rw [← find?_eq_lk, h]
    simp [lk_cons]
  | some m =>
    rw [put_of_some n (by simp [h]), find?_eq_lk]
    simp only [lk_map_replace, if_true]
    rw [← find?_eq_lk, h]; rfl

theorem find?_put_other (s : Server) (p q : Path) (n : ZNode) (hq : q ≠ p) : (s.put p n).find? q = s.find? q := by
  cases h : s.find? p with
  | none =>
    rw [put_of_none n h, find?_eq_lk]
    simp only [lk_append]
    rw [← find?_eq_lk]
    cases s.find? q with
    | some m => rfl
    | none => simp [lk_cons, Ne.symm hq]
  | some m =>
    rw [put_of_some n (by simp [h]), find?_eq_lk]
    simp only [lk_map_replace, hq, if_false]
    rfl

theorem find?_erase_self (s : Server) (p : Path) : (s.erase p).find? p = none := by
  simp [find?_eq_lk, Server.erase, lk_filter_key]

theorem find?_erase_other (s : Server) (p q : Path) (hq : q ≠ p) : (s.erase p).find? q = s.find? q := by
  simp [find?_eq_lk, Server.erase, lk_filter_key, hq]

theorem find?_expire (s : Server) (sid : Sid) (p : Path) (nd : (s.nodes.map (·.1)).Nodup) :
    (s.expire sid).find? p =
      match s.find? p with
      | some n => if n.owner = sid then none else some n
      | none => none := by
  simp only [find?_eq_lk, Server.expire]
  exact lk_filter_owner s.nodes sid p nd

/-! ### children -/

theorem childrenOf_eq_nil_iff (s : Server) (p : Path) :
    s.childrenOf p = [] ↔ ∀ q n, (q, n) ∈ s.nodes → q ≠ [] → q.dropLast ≠ p := by
  unfold Server.childrenOf
  rw [List.filterMap_eq_nil_iff]
  constructor
  · intro h q n hq hne hd
    have : q.getLast? = none := by simpa [hd, hne] using h (q, n) hq
    exact hne (List.getLast?_eq_none_iff.1 this)
  · intro h a ha
    obtain ⟨q, n⟩ := a
    by_cases hne : q = []
    · simp [hne]
    · have := h q n ha hne
      simp [this]

theorem mem_childrenOf (s : Server) (p : Path) (c : String) :
    c ∈ s.childrenOf p ↔ ∃ n, (p ++ [c], n) ∈ s.nodes := by
  unfold Server.childrenOf
  rw [List.mem_filterMap]
  constructor
  · rintro ⟨⟨q, n⟩, hq, h⟩
    by_cases hc : q.dropLast = p ∧ q ≠ []
    · have hl : q.getLast? = some c := by simpa [hc.1, hc.2] using h
      obtain ⟨ys, hys⟩ := List.getLast?_eq_some_iff.1 hl
      have : q = p ++ [c] := by
        have h1 := hc.1
        rw [hys, List.dropLast_concat] at h1
        rw [hys, h1]
      exact ⟨n, this ▸ hq⟩
    · have : (q.dropLast == p && q != []) = false := by
        rcases Classical.not_and_iff_not_or_not.1 hc with h' | h'
        · simp [h']
        · have : q = [] := by simpa using h'
          simp [this]
      simp [this] at h
  · rintro ⟨n, hn⟩
    exact ⟨(p ++ [c], n), hn, by simp⟩

/-! ### well-formedness -/

/-- literally `C15.WFTree` (stated here so that the helper lemmas can use it) -/
def WF (s : Server) : Prop :=
  (s.nodes.map (·.1)).Nodup ∧
  (∀ p n, (p, n) ∈ s.nodes → p ≠ [] ∧ s.has p.dropLast = true) ∧
  (∀ p n, (p, n) ∈ s.nodes → n.owner ≠ 0 → s.childrenOf p = [] ∧ n.owner ∈ s.live)

theorem WF.nd {s : Server} (h : WF s) : (s.nodes.map (·.1)).Nodup := h.1

theorem WF.ne_nil {s : Server} (h : WF s) {p : Path} {n : ZNode} (hm : (p, n) ∈ s.nodes) : p ≠ [] := (h.2.1 p n hm).1

theorem WF.parent {s : Server} (h : WF s) {p : Path} {n : ZNode} (hm : (p, n) ∈ s.nodes) :
    p.dropLast = [] ∨ ∃ m, (p.dropLast, m) ∈ s.nodes := (has_iff _ _).1 (h.2.1 p n hm).2

theorem WF.find?_nil {s : Server} (h : WF s) : s.find? [] = none :=
  find?_none_iff.2 fun _ hn => h.ne_nil hn rfl

theorem WF.find?_iff {s : Server} (h : WF s) {p : Path} {n : ZNode} : s.find? p = some n ↔ (p, n) ∈ s.nodes :=
  ⟨find?_mem, mem_lk h.nd⟩

theorem WF.eph_no_child {s : Server} (h : WF s) {p : Path} {n : ZNode} (hm : (p, n) ∈ s.nodes) (ho : n.owner ≠ 0)
    {q : Path} {m : ZNode} (hq : (q, m) ∈ s.nodes) : q.dropLast ≠ p :=
  (childrenOf_eq_nil_iff s p).1 (h.2.2 p n hm ho).1 q m hq (h.ne_nil hq)

/-- the parent of an existing entry is the root or a plain entry -/
theorem WF.parent_plain {s : Server} (h : WF s) {p : Path} {n : ZNode} (hm : (p, n) ∈ s.nodes) :
    p.dropLast = [] ∨ ∃ m, (p.dropLast, m) ∈ s.nodes ∧ m.owner = 0 := by
  rcases h.parent hm with h0 | ⟨m, hm'⟩
  · exact Or.inl h0
  · refine Or.inr ⟨m, hm', ?_⟩
    by_cases ho : m.owner = 0
    · exact ho
    · exact absurd rfl (h.eph_no_child hm' ho hm)

theorem dropLast_ne_self {p : Path} (hp : p ≠ []) : p.dropLast ≠ p := by
  intro h
  have h1 := congrArg List.length h
  have h2 : 0 < p.length := List.length_pos_iff.2 hp
  simp at h1
  omega

/-- transfer of well-formedness to a tree whose entries come from the old one with the same owners, in which a
surviving child keeps its parent, and in which the owners of surviving entries stay live -/
theorem wf_transfer {s s' : Server} (h : WF s)
    (hnd : (s'.nodes.map (·.1)).Nodup)
    (h1 : ∀ x m', (x, m') ∈ s'.nodes → ∃ m, (x, m) ∈ s.nodes ∧ m'.owner = m.owner)
    (h2 : ∀ x m y my, (x, m) ∈ s.nodes → (y, my) ∈ s'.nodes → y.dropLast = x → ∃ m', (x, m') ∈ s'.nodes)
    (hl : ∀ x m', (x, m') ∈ s'.nodes → m'.owner ≠ 0 → m'.owner ∈ s.live → m'.owner ∈ s'.live) :
    WF s' := by
  refine ⟨hnd, ?_, ?_⟩
  · intro p n hp
    obtain ⟨m, hm, _⟩ := h1 p n hp
    refine ⟨h.ne_nil hm, (has_iff _ _).2 ?_⟩
    rcases h.parent hm with h0 | ⟨m2, hm2⟩
    · exact Or.inl h0
    · exact Or.inr (h2 _ m2 p n hm2 hp rfl)
  · intro p n hp ho
    obtain ⟨m, hm, hom⟩ := h1 p n hp
    have ho' : m.owner ≠ 0 := hom ▸ ho
    refine ⟨(childrenOf_eq_nil_iff _ _).2 ?_, hl p n hp ho ?_⟩
    · intro q nq hq _
      obtain ⟨mq, hmq, _⟩ := h1 q nq hq
      exact h.eph_no_child hm ho' hmq
    · rw [hom]; exact (h.2.2 p m hm ho').2

theorem wf_append {s : Server} (h : WF s) (p : Path) (nn : ZNode) (hp : p ≠ []) (hnone : s.find? p = none)
    (hpar : p.dropLast = [] ∨ ∃ m, (p.dropLast, m) ∈ s.nodes ∧ m.owner = 0)
    (hown : nn.owner ≠ 0 → nn.owner ∈ s.live) :
    WF { s with nodes := s.nodes ++ [(p, nn)] } := by
  have hnot : ∀ n, (p, n) ∉ s.nodes := find?_none_iff.1 hnone
  refine ⟨?_, ?_, ?_⟩
  · simp only [List.map_append, List.map_cons, List.map_nil]
    refine List.nodup_append.2 ⟨h.nd, by simp, ?_⟩
    intro a ha b hb
    simp only [List.mem_singleton] at hb
    subst hb
    intro hab; subst hab
    obtain ⟨⟨q, n⟩, hq, rfl⟩ := List.mem_map.1 ha
    exact hnot n hq
  · intro x n hx
    simp only [List.mem_append, List.mem_singleton] at hx
    rw [has_iff]
    simp only [List.mem_append, List.mem_singleton]
    rcases hx with hx | hx
    · refine ⟨h.ne_nil hx, ?_⟩
      rcases h.parent hx with h0 | ⟨m, hm⟩
      · exact Or.inl h0
      · exact Or.inr ⟨m, Or.inl hm⟩
    · obtain ⟨rfl, rfl⟩ := Prod.mk.inj hx
      refine ⟨hp, ?_⟩
      rcases hpar with h0 | ⟨m, hm, _⟩
      · exact Or.inl h0
      · exact Or.inr ⟨m, Or.inl hm⟩
  · intro x n hx ho
    simp only [List.mem_append, List.mem_singleton] at hx
    rw [childrenOf_eq_nil_iff]
    simp only [List.mem_append, List.mem_singleton]
    rcases hx with hx | hx
    · refine ⟨?_, (h.2.2 x n hx ho).2⟩
      intro q nq hq _
      rcases hq with hq | hq
      · exact h.eph_no_child hx ho hq
      · obtain ⟨rfl, rfl⟩ := Prod.mk.inj hq
        intro hd
        rcases hpar with h0 | ⟨m, hm, hm0⟩
        · exact h.ne_nil hx (hd ▸ h0)
        · rw [hd] at hm
          exact ho (nd_unique h.nd hx hm ▸ hm0)
    · obtain ⟨rfl, rfl⟩ := Prod.mk.inj hx
      refine ⟨?_, hown ho⟩
      intro q nq hq _
      rcases hq with hq | hq
      · intro hd
        rcases h.parent hq with h0 | ⟨m, hm⟩
        · exact hp (hd ▸ h0)
        · rw [hd] at hm; exact hnot m hm
      · obtain ⟨rfl, rfl⟩ := Prod.mk.inj hq
        exact dropLast_ne_self hp

theorem dropLast_take_succ {α} (x : List α) (k : Nat) (hk : k < x.length) : (x.take (k+1)).dropLast = x.take k := by
  rw [List.dropLast_eq_take, List.take_take, List.length_take]; congr 1; omega

/-- ancestors of an existing entry exist -/
theorem WF.prefix_exists {s : Server} (h : WF s) {x : Path} (hx : (s.find? x).isSome = true) (k : Nat) (hk : 0 < k)
    (hkl : k ≤ x.length) : (s.find? (x.take k)).isSome = true := by
  obtain ⟨d, hd⟩ : ∃ d, x.length = k + d := ⟨x.length - k, by omega⟩
  induction d generalizing k with
  | zero =>
    have : x.take k = x := List.take_of_length_le (by omega)
    rw [this]; exact hx
  | succ d ih =>
    have h1 := ih (k + 1) (by omega) (by omega) (by omega)
    obtain ⟨n, hn⟩ := find?_isSome_iff.1 h1
    have hdl : (x.take (k + 1)).dropLast = x.take k := dropLast_take_succ x k (by omega)
    rcases h.parent hn with h0 | ⟨m, hm⟩
    · rw [hdl] at h0
      have := congrArg List.length h0
      simp only [List.length_take, List.length_nil] at this; omega
    · rw [hdl] at hm
      exact find?_isSome_iff.2 ⟨m, hm⟩

/-! ### steps preserve well-formedness -/

theorem wf_create {s : Server} (h : WF s) (sid : Sid) (p : Path) (d : String) (eph : Bool)
    (hl : eph = true → sid ≠ 0 → sid ∈ s.live) : WF (s.step sid (.create p d eph)).1 := by
  by_cases hp : p = []
  · simpa [Server.step, hp] using h
  have hp' : (p == []) = false := by simpa using hp
  simp only [Server.step, hp', Bool.false_eq_true, if_false]
  by_cases hd : p.dropLast = []
  · simp only [hd, beq_self_eq_true, if_true]
    cases hf : s.find? p with
    | some m => simpa using h
    | none =>
      simp only [Option.isSome_none, Bool.false_eq_true, if_false, bne_self_eq_false]
      rw [put_of_none _ hf]
      refine wf_append h p _ hp hf (Or.inl hd) ?_
      cases eph <;> simp_all
  · have hd' : (p.dropLast == []) = false := by simpa using hd
    simp only [hd', Bool.false_eq_true, if_false]
    cases hpar : s.find? p.dropLast with
    | none => simpa using h
    | some m =>
      simp only [Option.map_some]
      cases hf : s.find? p with
      | some m' => simpa using h
      | none =>
        simp only [Option.isSome_none, Bool.false_eq_true, if_false]
        by_cases hm0 : m.owner = 0
        · simp only [hm0, bne_self_eq_false, Bool.false_eq_true, if_false]
          rw [put_of_none _ hf]
          refine wf_append h p _ hp hf (Or.inr ⟨m, find?_mem hpar, hm0⟩) ?_
          cases eph <;> simp_all
        · have : (m.owner != 0) = true := by simpa using hm0
          simpa [this] using h

theorem wf_set {s : Server} (h : WF s) (sid : Sid) (p : Path) (d : String) (v : Int) :
    WF (s.step sid (.set p d v)).1 := by
  simp only [Server.step]
  cases hf : s.find? p with
  | none => simpa using h
  | some n =>
    simp only
    split
    · exact h
    · rw [put_of_some _ (by simp [hf])]
      have hn := find?_mem hf
      refine wf_transfer h ?_ ?_ ?_ ?_
      · simp only [List.map_map]
        have : ((fun x : Path × ZNode => x.1) ∘ fun x : Path × ZNode =>
            if x.1 == p then (x.1, ({ n with data := d, version := n.version + 1 } : ZNode)) else (x.1, x.2)) = (·.1) := by
          funext x; simp only [Function.comp]; split <;> rfl
        rw [this]; exact h.nd
      · intro x m' hx
        simp only [List.mem_map] at hx
        obtain ⟨⟨y, my⟩, hy, hxy⟩ := hx
        by_cases hyp : y = p
        · subst hyp
          simp only [beq_self_eq_true, if_true] at hxy
          obtain ⟨rfl, rfl⟩ := Prod.mk.inj hxy
          exact ⟨n, hn, rfl⟩
        · have : (y == p) = false := by simpa using hyp
          simp only [this, Bool.false_eq_true, if_false] at hxy
          obtain ⟨rfl, rfl⟩ := Prod.mk.inj hxy
          exact ⟨my, hy, rfl⟩
      · intro x m y my hx _ _
        simp only [List.mem_map]
        by_cases hxp : x = p
        · exact ⟨{ n with data := d, version := n.version + 1 }, (x, m), hx, by simp [hxp]⟩
        · exact ⟨m, (x, m), hx, by simp [hxp]⟩
      · intro x m' _ _ hlive; exact hlive

theorem wf_delete {s : Server} (h : WF s) (sid : Sid) (p : Path) (v : Int) :
    WF (s.step sid (.delete p v)).1 := by
  simp only [Server.step]
  cases hf : s.find? p with
  | none => simpa using h
  | some n =>
    simp only
    split
    · exact h
    · split
      · exact h
      · rename_i hc
        have hc' : s.childrenOf p = [] := by simpa using hc
        have hnc := (childrenOf_eq_nil_iff s p).1 hc'
        refine wf_transfer h ?_ ?_ ?_ ?_
        · exact (List.filter_sublist.map _).nodup h.nd
        · intro x m' hx
          simp only [Server.erase, List.mem_filter] at hx
          exact ⟨m', hx.1, rfl⟩
        · intro x m y my hx hy hd
          simp only [Server.erase, List.mem_filter] at hy ⊢
          refine ⟨m, hx, ?_⟩
          have : x ≠ p := by
            intro hxp; subst hxp
            exact hnc y my hy.1 (h.ne_nil hy.1) hd
          simpa using this
        · intro x m' _ _ hlive; exact hlive

theorem wf_step_gen {s : Server} (h : WF s) (sid : Sid) (pr : Prim)
    (hl : sid ≠ 0 → sid ∈ s.live) : WF (s.step sid pr).1 := by
  cases pr with
  | get p =>
    simp only [Server.step]
    split
    · exact h
    · split <;> exact h
  | create p d eph => exact wf_create h sid p d eph (fun _ => hl)
  | set p d v => exact wf_set h sid p d v
  | delete p v => exact wf_delete h sid p v
  | children p =>
    simp only [Server.step]
    split <;> exact h

theorem wf_expire_gen {s : Server} (h : WF s) (sid : Sid) (h0 : sid ≠ 0) : WF (s.expire sid) := by
  refine wf_transfer h ?_ ?_ ?_ ?_
  · exact (List.filter_sublist.map _).nodup h.nd
  · intro x m' hx
    simp only [Server.expire, List.mem_filter] at hx
    exact ⟨m', hx.1, rfl⟩
  · intro x m y my hx hy hd
    simp only [Server.expire, List.mem_filter] at hy ⊢
    refine ⟨m, hx, ?_⟩
    have : m.owner ≠ sid := by
      intro hms
      exact h.eph_no_child hx (hms ▸ h0) hy.1 hd
    simpa using this
  · intro x m' hx _ hlive
    simp only [Server.expire, List.mem_filter] at hx ⊢
    exact ⟨hlive, hx.2⟩

theorem wf_open_gen {s : Server} (h : WF s) (sid : Sid) : WF (s.openSession sid) := by
  refine wf_transfer h h.nd ?_ ?_ ?_
  · intro x m' hx; exact ⟨m', hx, rfl⟩
  · intro x m y my hx _ _; exact ⟨m, hx⟩
  · intro x m' _ _ hlive
    simp only [Server.openSession]
    exact List.mem_cons_of_mem _ hlive

end ZkLemmas
