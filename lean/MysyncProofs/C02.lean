/-
C02 — Single-fault tolerance: no acknowledged loss, one writable master.
PROPERTY THEOREMS ONLY (helper lemmas: MysyncProofs/Lemmas/ClusterLemmas.lean).

What is PROVED here is the safety argument that composes the component theorems:
  C04 (a),(b): an acknowledgement under the published list `l` comes from `req l` replicas that are all IN `l`;
  C12        : `quorum l + req l > |l| − 1`, so any frozen quorum meets the acknowledging set or holds the old master;
  C01        : a node is made writable only after it executed everything any frozen node had received.
⊢ every acknowledged transaction is executed by the promoted node (`no_acked_loss_at_promotion`), for any
list size, any counts, any sets.  It is stated for a list that does not change between the acknowledgement
and the promotion; a list change in between is itself governed by C04 (and its known findings).

What is NOT proved: that the cluster RETURNS to the canonical state after the fault heals (fairness of the
real loops, time-outs, the order of the daemons' iterations).  That half — and the end-to-end statement with
real timing — is decided on the real daemons by the cluster simulation (harness/app/sim_test.go), whose
verdict predicates are the definitions below (`Cluster.canonical`, `Cluster.ackedPreserved`).  Level: PARTIAL.
-/
import MysyncModel.Proto.Cluster
import MysyncProofs.C12
import MysyncProofs.Lemmas.ClusterLemmas

namespace C02
open Gen.SwitchHelper C12

/-- No acknowledged loss at a promotion.  `R` = the replicas of the published list `l`, `m ∉ R` the old master,
`A ⊆ R` the replicas that acknowledged transaction `t` (C04: all in the list, at least `req l` of them), `F` the
frozen set that passed the quorum re-count (C01/C12), `recv h` what host `h` had received when it was frozen
(for the old master: what it had executed), `exec' new` what the promoted node has executed when it is made
writable (C01: it caught up with the most recent frozen node, which contains every frozen node's position). -/
theorem no_acked_loss_at_promotion {α τ : Type} [DecidableEq α]
    (sh : SwitchHelper) (l : List String) (R A F : Finset α) (m new : α) (hw : 0 ≤ w sh)
    (recv : α → τ → Prop) (exec' : α → τ → Prop) (t : τ)
    (hR : (R.card : Int) = replicas l) (hA : A ⊆ R) (hF : F ⊆ insert m R)
    (hreq : req sh l ≤ A.card)                       -- C04 (b): the master waited for `req l` acknowledgements
    (hack : ∀ a ∈ A, recv a t)                        -- … which means these replicas received `t`
    (hm : recv m t)                                   -- the master wrote it before asking
    (hq : quorum sh l ≤ F.card)                       -- C01: frozen quorum, re-counted against `l`
    (hcaught : ∀ f ∈ F, ∀ x, recv f x → exec' new x)  -- C01: promoted only after catching up with every frozen node
    : exec' new t := by
  rcases failover_meets_ackers sh l R A F m hw hR hA hF hreq hq with h | ⟨f, hf⟩
  · exact hcaught m h t hm
  · have h2 := Finset.mem_inter.mp hf
    exact hcaught f h2.1 t (hack f h2.2)

/-- the verdict predicate means what the property says: in a canonical state the recorded master is the only
writable reachable HA node -/
theorem canonical_single_writer (recorded : String) (srvs : List Cluster.Srv) (h : Cluster.canonical recorded srvs = true)
    (s : Cluster.Srv) (hs : s ∈ srvs) (ha : s.ha = true) (hal : s.alive = true) (hw : s.readOnly = false) :
    s.host = recorded := by
  unfold Cluster.canonical at h
  split at h
  · simp at h
  · simp only [Bool.and_eq_true, List.all_eq_true] at h
    have h3 := h.2 s hs
    simp [ha, hal, hw] at h3
    exact h3

/-- … and every reachable HA node other than it is a read-only replica of it -/
theorem canonical_replicas_follow (recorded : String) (srvs : List Cluster.Srv) (h : Cluster.canonical recorded srvs = true)
    (s : Cluster.Srv) (hs : s ∈ srvs) (ha : s.ha = true) (hal : s.alive = true) (hne : s.host ≠ recorded) :
    s.readOnly = true ∧ s.isReplica = true ∧ s.source = recorded := by
  unfold Cluster.canonical at h
  split at h
  · simp at h
  · simp only [Bool.and_eq_true, List.all_eq_true] at h
    have h3 := h.2 s hs
    simp [ha, hal, hne] at h3
    exact ⟨h3.1.1, h3.1.2, h3.2⟩

/-- the budget cannot be dropped: with TWO faults the same argument fails — a list of three with one
acknowledgement demanded, the acknowledging replica lost AND the master lost: the remaining node alone is not a
quorum of the published list (so mysync refuses), and if it were promoted the transaction would be gone -/
theorem two_faults_exceed_quorum :
    quorum ⟨0, 1, true⟩ ["m", "a", "b"] = 2 ∧ req ⟨0, 1, true⟩ ["m", "a", "b"] = 1 ∧
    CheckFailoverQuorum ⟨0, 1, true⟩ ["m", "a", "b"] 1 ≠ none := by
  decide

-- non-vacuity of the verdict predicates
example : Cluster.canonical "h2" [⟨"h1", true, true, true, "h2", "", true⟩, ⟨"h2", true, false, false, "", "", true⟩,
    ⟨"h3", false, false, false, "", "", true⟩] = true := by decide

end C02
