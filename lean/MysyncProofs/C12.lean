/-
C12 — Quorum arithmetic: any failover quorum meets any acknowledging set.

PROPERTY THEOREMS ONLY.  The definitions are *regenerated* from
/repo/internal/mysql/switch_helper.go by /verif/gen on every run
(MysyncModel/Generated/SwitchHelper.lean); nothing here is hand-modelled.
The proofs do not unfold the generated definitions: they rewrite with their specification in normal form
(MysyncProofs/Lemmas/QuorumSpec.lean, proved there by a script that does not depend on the shape of the
generated code), so a behaviour-preserving rewrite of the Go code does not touch this file.
-/
import MysyncModel.Generated.SwitchHelper
import MysyncProofs.Lemmas.QuorumSpec
import Mathlib.Data.Finset.Card

namespace C12
open Gen.SwitchHelper

/-- number of acknowledgements demanded from the master for list `l` -/
abbrev req (sh : SwitchHelper) (l : List String) : Int := GetRequiredWaitSlaveCount sh l
/-- failover quorum for list `l` -/
abbrev quorum (sh : SwitchHelper) (l : List String) : Int := GetFailoverQuorum sh l
/-- configured count `w` -/
abbrev w (sh : SwitchHelper) : Int := sh.rplSemiSyncMasterWaitForSlaveCount
/-- replicas in a list of size n (the master is one member) -/
abbrev replicas (l : List String) : Int := max ((l.length : Int) - 1) 0

private theorem tdiv2 (n : Nat) : Int.tdiv (n : Int) 2 = (n : Int) / 2 :=
  Int.tdiv_eq_ediv_of_nonneg (Int.natCast_nonneg n)

/-- the demanded count never exceeds the number of replicas in the list -/
theorem req_le_replicas (sh : SwitchHelper) (l : List String) (hw : 0 ≤ w sh) :
    req sh l ≤ replicas l := by
  simp only [req, replicas, QuorumSpec.req_spec, tdiv2, w] at *
  omega

theorem req_nonneg (sh : SwitchHelper) (l : List String) (hw : 0 ≤ w sh) : 0 ≤ req sh l := by
  simp only [req, QuorumSpec.req_spec, tdiv2, w] at *
  omega

/-- … and is zero only when the list has no replica or the configured count is zero -/
theorem req_zero_iff (sh : SwitchHelper) (l : List String) (hw : 0 ≤ w sh) :
    req sh l = 0 ↔ (l.length ≤ 1 ∨ w sh = 0) := by
  simp only [req, QuorumSpec.req_spec, tdiv2, w] at *
  omega

/-- the failover quorum is at least one -/
theorem quorum_pos (sh : SwitchHelper) (l : List String) : 1 ≤ quorum sh l := by
  simp only [quorum, QuorumSpec.quorum_spec]
  omega

/-- quorum + demanded count exceeds the number of replicas in the list -/
theorem quorum_add_req_gt (sh : SwitchHelper) (l : List String) (hw : 0 ≤ w sh) :
    replicas l < quorum sh l + req sh l := by
  simp only [quorum, req, replicas, QuorumSpec.quorum_spec, QuorumSpec.req_spec, tdiv2, w] at *
  omega

/-- the quorum never exceeds the list size (so a fully alive list can always fail over) -/
theorem quorum_le_size (sh : SwitchHelper) (l : List String) (hw : 0 ≤ w sh) (hn : 1 ≤ l.length) :
    quorum sh l ≤ l.length := by
  simp only [quorum, QuorumSpec.quorum_spec, QuorumSpec.req_spec, tdiv2, w] at *
  omega

/-- semi-sync: the check fails exactly when fewer than `quorum` nodes are permissible -/
theorem check_semisync_iff (sh : SwitchHelper) (l : List String) (p : Int) (hs : sh.SemiSync = true) :
    (CheckFailoverQuorum sh l p).isSome = true ↔ p < quorum sh l := by
  rw [QuorumSpec.check_isSome, if_pos hs]

/-- without semi-sync a failover needs at least one alive active replica -/
theorem check_async_iff (sh : SwitchHelper) (l : List String) (p : Int) (hs : sh.SemiSync = false) :
    (CheckFailoverQuorum sh l p).isSome = true ↔ p = 0 := by
  rw [QuorumSpec.check_isSome, if_neg (by simp [hs])]

/-- Set-level statement.  `R` = replicas of the published list `l` (so `|R| = |l| − 1`), `m ∉ R` the
old master, `A ⊆ R` any set that could have acknowledged a commit (`req ≤ |A|`, `1 ≤ req`), `F ⊆ R ∪ {m}`
any frozen set that passes the quorum check.  Then `F` contains the old master or meets `A`. -/
theorem failover_meets_ackers {α : Type} [DecidableEq α]
    (sh : SwitchHelper) (l : List String) (R A F : Finset α) (m : α) (hw : 0 ≤ w sh)
    (hR : (R.card : Int) = replicas l) (hA : A ⊆ R) (hF : F ⊆ insert m R)
    (hreq : req sh l ≤ A.card) (hq : quorum sh l ≤ F.card) :
    m ∈ F ∨ (F ∩ A).Nonempty := by
  by_cases hm : m ∈ F
  · exact Or.inl hm
  · right
    have hFR : F ⊆ R := by
      intro x hx
      have := hF hx
      rcases Finset.mem_insert.mp this with h | h
      · exact absurd (h ▸ hx) hm
      · exact h
    apply Finset.inter_nonempty_of_card_lt_card_add_card hFR hA
    have := quorum_add_req_gt sh l hw
    omega

/-- the check accepting `p` permissible nodes means exactly that a frozen set of that size is a quorum -/
theorem check_ok_gives_quorum (sh : SwitchHelper) (l : List String) (p : Int) (hs : sh.SemiSync = true)
    (h : CheckFailoverQuorum sh l p = none) : quorum sh l ≤ p := by
  have := (check_semisync_iff sh l p hs).not
  simp [h] at this
  omega

-- non-vacuity: a three-node list with w = 1 demands one ack, quorum two; hypotheses are satisfiable
example : req ⟨0, 1, true⟩ ["a", "b", "c"] = 1 ∧ quorum ⟨0, 1, true⟩ ["a", "b", "c"] = 2 := by decide
example : CheckFailoverQuorum ⟨0, 1, true⟩ ["a", "b", "c"] 1 ≠ none ∧ CheckFailoverQuorum ⟨0, 1, true⟩ ["a", "b", "c"] 2 = none := by decide
example : CheckFailoverQuorum ⟨0, 1, false⟩ ["a", "b", "c"] 0 ≠ none ∧ CheckFailoverQuorum ⟨0, 1, false⟩ ["a", "b", "c"] 1 = none := by decide

end C12
