/-
C05 — Automatic failover is filed only when every gate is open.
PROPERTY THEOREMS ONLY (helper lemmas: MysyncProofs/Lemmas/ManagerLemmas.lean).
Model: MysyncModel/App/Manager.lean (`stateManager`, `approveFailover`).
-/
import MysyncModel.App.Manager
import MysyncProofs.Lemmas.ManagerLemmas

namespace C05
open NS Manager

/-- the master's health record is bad: missing/failed ping or read-only filesystem -/
def HealthBad (md : NodeState) : Prop := md.pingOk = false ∨ md.isFsReadonly = true

/-- crash-recovery restart with resetup enabled -/
def CrashRecovered (cfg : Cfg) (md : NodeState) : Prop := md.daemonCrashRecovery = some true ∧ cfg.resetupCrashedHosts = true

/-- every other HA node is still replicating -/
def AllOthersReplicating (i : In) : Prop :=
  countRunningHASlaves i.cs > 0 ∧ countRunningHASlaves i.cs = countHANodes i.cs - 1

/-- The property's gates, written from its text.  `timer` is the value of the process-local failure
timer that the approval looks at (it is set to `now` in the same iteration when it was unset). -/
def GatesOpen (cfg : Cfg) (i : In) (master : String) : Prop :=
  cfg.failover = true ∧
  -- neither maintenance mode (full or light) is readably active: absent, or unreadable while the marker file is absent
  (i.maint = .absent ∨ i.maint = .err false) ∧
  -- no other switch request is active
  i.sw = .absent ∧
  (∃ md, i.dcs.get? master = some md ∧
    (HealthBad md ∨ CrashRecovered cfg md) ∧
    (CrashRecovered cfg md ∨ md.isFsReadonly = true ∨
      (¬ AllOthersReplicating i ∧
       (cfg.failoverDelay ≤ 0 ∨ ∃ t, i.failedAt = some t ∧ i.now - t ≥ cfg.failoverDelay)))) ∧
  -- the alive replicas in the published active list reach the failover quorum (≥ 1 without semi-sync)
  Gen.SwitchHelper.CheckFailoverQuorum (sh cfg) i.activeNodes (countAliveHASlavesWithin i.activeNodes i.cs) = none ∧
  -- the last successful automatic failover finished at least the cooldown ago
  (i.last = .absent ∨ ∃ causeAuto fin, i.last = .record false causeAuto fin ∧ ¬ (causeAuto = true ∧ i.now - fin < cfg.failoverCooldown))

/-- an automatic failover request is filed only if every gate is open -/
theorem failover_filed_only_if (cfg : Cfg) (i : In)
    (h : Step.issueFailover ∈ (stateManager cfg i).steps) :
    i.connected = true ∧ i.lockHeld = true ∧ ∃ master, i.master = some master ∧ GatesOpen cfg i master :=
  ManagerLemmas.issueFailover_gates cfg i h

/-- the request is filed at most once per iteration and nothing is done after it -/
theorem filed_last (cfg : Cfg) (i : In) (h : Step.issueFailover ∈ (stateManager cfg i).steps) :
    ∃ pre, (stateManager cfg i).steps = pre ++ [Step.issueFailover] ∧ Step.issueFailover ∉ pre :=
  ManagerLemmas.issueFailover_last cfg i h

/-- the process-local failure clock: after an iteration that reaches the health test the timer is
unset iff the record was good, and otherwise keeps the time of the FIRST bad evaluation -/
def tickTimer (bad : Bool) (now : Int) (t : Option Int) : Option Int :=
  if bad then (match t with | some x => some x | none => some now) else none

/-- the iteration reaches the health test -/
def ReachesHealthTest (i : In) : Prop :=
  i.connected = true ∧ i.lockHeld = true ∧ i.dcsStateErr = false ∧ i.master.isSome ∧ i.activeNodesErr = false ∧
  (i.maint = .absent ∨ i.maint = .err false ∨ i.maint = .record true true false ∨ (i.maint = .record true false false ∧ i.setPausedOk = true)) ∧
  (i.sw = .absent ∨ ∃ sw, i.sw = .record sw ∧ sw.failoverType = true ∧ ∃ p, i.maint = .record true p false)

theorem timer_step (cfg : Cfg) (i : In) (master : String) (md : NodeState)
    (hr : ReachesHealthTest i) (hm : i.master = some master) (hd : i.dcs.get? master = some md) :
    (stateManager cfg i).failedAt = tickTimer (!md.pingOk || md.isFsReadonly) i.now i.failedAt :=
  ManagerLemmas.timer_step cfg i master md hr hm hd

/-- an iteration that does not reach the health test leaves the timer alone -/
theorem timer_untouched (cfg : Cfg) (i : In)
    (h : i.connected = false ∨ i.lockHeld = false ∨ i.dcsStateErr = true ∨ i.master = none ∨ i.activeNodesErr = true) :
    (stateManager cfg i).failedAt = i.failedAt :=
  ManagerLemmas.timer_untouched cfg i h

/-- history: over any sequence of evaluations `(now_k, bad_k)` by one process the timer holds the time
of an evaluation `j` such that every evaluation from `j` on was bad and the one before `j` (if any)
was good; it is unset iff the last evaluation was good -/
theorem failure_clock_history (obs : List (Int × Bool)) (t0 : Option Int) :
    let t := obs.foldl (fun t (o : Int × Bool) => tickTimer o.2 o.1 t) t0
    (t = none ↔ (obs = [] ∧ t0 = none) ∨ ∃ pre o, obs = pre ++ [o] ∧ o.2 = false) ∧
    (∀ x, t = some x → (∀ o ∈ obs, o.2 = true) ∧ t0 = some x ∨
      ∃ pre o post, obs = pre ++ o :: post ∧ o.1 = x ∧ o.2 = true ∧ (∀ p ∈ post, p.2 = true) ∧
        ((pre = [] ∧ t0 = none) ∨ ∃ pre' q, pre = pre' ++ [q] ∧ q.2 = false)) :=
  ManagerLemmas.failure_clock_history obs t0

/-- A manager that cannot reach the master while the master's own health record is good files
nothing and performs no repair in that iteration. -/
theorem suspicious_master_inert (cfg : Cfg) (i : In) (master : String) (cm md : NodeState)
    (hm : i.master = some master) (hc : i.cs.get? master = some cm) (hd : i.dcs.get? master = some md)
    (hunreach : cm.pingOk = false) (hgood : md.pingOk = true ∧ md.isFsReadonly = false) :
    ∀ s ∈ (stateManager cfg i).steps,
      s ≠ .issueFailover ∧ s ≠ .repairOffline ∧ s ≠ .repairCluster ∧ s ≠ .updateActiveNodes ∧ s ≠ .syncOptimization :=
  ManagerLemmas.suspicious_master_inert cfg i master cm md hm hc hd hunreach hgood

-- non-vacuity: a dead master with a quorum of alive replicas, delay elapsed ⇒ filed
private def cfg0 : Cfg := ⟨true, 30, 3600, false, true, 1, 1800, 60⟩
private def rep : NodeState := { pingOk := true, slave := some { state := .stopped, masterHost := "m" } }
private def i0 : In :=
  { master := some "m", activeNodes := ["m", "a", "b"],
    cs := [("m", ({ pingOk := false } : NodeState)), ("a", rep), ("b", rep)], dcs := [("m", ({ pingOk := false } : NodeState)), ("a", rep), ("b", rep)],
    now := 100, failedAt := some 60 }
example : Step.issueFailover ∈ (stateManager cfg0 i0).steps := by decide +kernel
example : Step.issueFailover ∉ (stateManager cfg0 { i0 with failedAt := some 80 }).steps := by decide +kernel

end C05
