/-
C02 — no acknowledged loss over histories of ANY length WITH list changes, under the single-fault budget.
PROPERTY THEOREMS ONLY (helper lemmas: MysyncProofs/Lemmas/SafetyFaultLemmas.lean).
Model: MysyncModel/Proto/SafetyFault.lean.  The quorum arithmetic is the REGENERATED one.
-/
import MysyncModel.Proto.SafetyFault
import MysyncProofs.Lemmas.SafetyFaultLemmas

namespace C02
open SafetyF Gen.SwitchHelper SafetyFaultLemmas

/-- a converged semi-sync cluster: at least two registered hosts, all of them listed, nobody faulty, nothing
acknowledged yet, and a configured acknowledgement count of at least one -/
structure InitF (sh : SwitchHelper) (σ : St) : Prop where
  nodup : σ.hosts.Nodup
  two : 2 ≤ σ.hosts.length
  full : σ.l = σ.hosts
  hm : σ.m ∈ σ.hosts
  fresh : σ.acked = []
  nofault : σ.dead = none
  w : 1 ≤ sh.rplSemiSyncMasterWaitForSlaveCount

/-- Whatever the history — commits, replication moves, list changes (evictions of the faulty host, re-admissions),
failovers and switchovers, faults and healings in any order and number, as long as at most one host is faulty at a
time and the master fails only when every registered host is back in the list — every acknowledged transaction is on
the current master. -/
theorem acked_never_lost_with_list_changes (sh : SwitchHelper) (σ0 : St) (h0 : InitF sh σ0) (steps : List Step) :
    AckedOnMaster (run sh true σ0 steps) :=
  (inv_run sh steps σ0 (inv_init sh σ0 h0.nodup h0.two h0.full h0.hm h0.fresh h0.w)).i1

/-- … and whenever the cluster has converged (every registered host listed, nobody faulty) every acknowledged
transaction is also on a listed replica: the next fault of the master is survivable -/
theorem acked_on_a_listed_replica_when_converged (sh : SwitchHelper) (σ0 : St) (h0 : InitF sh σ0) (steps : List Step)
    (hconv : ∀ h ∈ (run sh true σ0 steps).hosts, h ∈ (run sh true σ0 steps).l) :
    ∀ t ∈ (run sh true σ0 steps).acked, ∃ a ∈ (run sh true σ0 steps).l, a ≠ (run sh true σ0 steps).m ∧ has (run sh true σ0 steps) a t = true := by
  have hinv := inv_run sh steps σ0 (inv_init sh σ0 h0.nodup h0.two h0.full h0.hm h0.fresh h0.w)
  intro t ht
  exact K_of_converged sh _ hinv.wf hconv t (hinv.i2 t ht)

/-- the registered hosts never change, the list stays a duplicate-free set of registered hosts that contains the
master, and at most one host is faulty (by construction of the state) -/
theorem list_stays_well_formed (sh : SwitchHelper) (σ0 : St) (h0 : InitF sh σ0) (steps : List Step) :
    let σ := run sh true σ0 steps
    σ.hosts = σ0.hosts ∧ σ.l.Nodup ∧ σ.m ∈ σ.l ∧ ∀ h ∈ σ.l, h ∈ σ.hosts := by
  have hinv := inv_run sh steps σ0 (inv_init sh σ0 h0.nodup h0.two h0.full h0.hm h0.fresh h0.w)
  exact ⟨run_hosts sh true steps σ0, hinv.wf.lnd, hinv.wf.ml, hinv.wf.sub⟩

/-! ### what the join guard is for (known finding C04 "published-list-counts-a-data-lagging-replica…")

The code admits a replica to the published list as soon as it replicates, whether or not it has caught up.  Without the
join guard the machine loses an acknowledged transaction with two well-separated single faults: the replica of a
two-node cluster fails and is dropped, the master acknowledges alone, the replica comes back and is listed again at
once, the master fails, the replica is promoted. -/

def shW : SwitchHelper := ⟨0, 1, true⟩
def w0 : St := { hosts := ["m", "a"], l := ["m", "a"], m := "m", recv := fun _ => [], acked := [] }
def lossHist : List Step :=
  [.die "a", .publish ["m"], .commit 7 [], .heal, .publish ["m", "a"], .die "m", .failover "a" ["a"]]

theorem witness_loss_without_join_guard :
    InitF shW w0 ∧
    (run shW false w0 lossHist).m = "a" ∧ (run shW false w0 lossHist).acked = [7] ∧
    has (run shW false w0 lossHist) "a" 7 = false := by
  refine ⟨⟨by decide, by decide, rfl, by decide, rfl, rfl, by decide⟩, ?_, ?_, ?_⟩ <;> decide

/-- with the join guard the same history stops at the re-admission: the replica is not listed before it has the
transaction, the master cannot be declared faulty meanwhile, nothing is lost -/
theorem witness_same_history_with_join_guard :
    (run shW true w0 lossHist).m = "m" ∧ (run shW true w0 lossHist).l = ["m"] ∧
    has (run shW true w0 lossHist) "m" 7 = true := by
  refine ⟨?_, ?_, ?_⟩ <;> decide

-- non-vacuity: a three-node history with an eviction, a re-admission after catching up, a failover and a second fault
def s3 : St := { hosts := ["m", "a", "b"], l := ["m", "a", "b"], m := "m", recv := fun _ => [], acked := [] }
def hist3 : List Step :=
  [.commit 1 ["a"], .die "a", .publish ["m", "b"], .commit 2 ["b"], .heal, .replicate "a" [2], .publish ["m", "b", "a"],
   .commit 3 ["a"], .replicate "b" [1, 3], .die "m", .failover "b" ["b", "a"], .publish ["b", "a"], .commit 4 ["a"], .heal,
   .replicate "m" [4], .publish ["b", "a", "m"], .die "b", .failover "a" ["a", "m"]]
example : InitF shW s3 := by
  refine ⟨by decide, by decide, rfl, by decide, rfl, rfl, by decide⟩
example : (run shW true s3 hist3).m = "a" ∧ (run shW true s3 hist3).acked = [4, 3, 2, 1] ∧ (run shW true s3 hist3).l = ["b", "a", "m"] ∧
    ((run shW true s3 hist3).acked.all fun t => has (run shW true s3 hist3) "a" t) = true := by
  refine ⟨?_, ?_, ?_, ?_⟩ <;> decide +kernel

end C02
