/-
C10 — Repair converges to the canonical topology without changing the master.
PROPERTY THEOREMS ONLY (helper lemmas: MysyncProofs/Lemmas/RepairLemmas.lean).
Model: MysyncModel/App/Repair.lean (`repairSlaveNode` non-cascade part, bounded replication repair,
finite abstraction `absPass`).  The action alphabet of the model contains no write of the recorded
master and every action targets the node under repair; "never sends a statement to an unregistered
host" and "never changes the recorded master" are enforced on the real code by the replay monitors
(decoy servers; any write of the `master` key).  Master un-fencing is C17 (`masterPass`) and C18.
-/
import MysyncModel.App.Repair
import MysyncProofs.Lemmas.RepairLemmas

namespace C10
open NS Repair RepairLemmas

/-- never points a server at itself, and re-points only to the recorded master -/
theorem repoint_only_to_master (cfg : Cfg) (host : String) (st : NodeState) (master : String) (rs : Option RepairState)
    (now : Int) (c p : Bool) (hne : host ≠ master) (to : String)
    (h : Act.changeMaster to ∈ (repairSlave cfg host st master rs now c p).1 ∨ Act.resetSlaveAlgorithm to ∈ (repairSlave cfg host st master rs now c p).1) :
    to = master ∧ to ≠ host := by
  have : to = master := by
    rcases h with h | h
    · exact repairSlave_changeMaster_mem cfg host st master rs now c p to h
    · exact (tryRepair_reset_mem cfg rs now master c to
        (repairSlave_reset_mem cfg host st master rs now c p to h).2.2).1
  subst this
  exact ⟨rfl, fun e => hne e.symm⟩

/-- a replica's replication configuration is reset only if aggressive repair is enabled, the replica
is in (non-permanent) replication error, the gentler method is exhausted, the reset attempts are not,
and the cooldown since the last attempt has passed -/
theorem reset_only_if_entitled (cfg : Cfg) (host : String) (st : NodeState) (master : String) (rs : Option RepairState)
    (now : Int) (c p : Bool) (to : String)
    (h : Act.resetSlaveAlgorithm to ∈ (repairSlave cfg host st master rs now c p).1) :
    cfg.aggressive = true ∧ st.permBroken = false ∧ (∃ sl, st.slave = some sl ∧ sl.state = .error) ∧
    ∃ s, rs = some s ∧ cooldownPassed cfg s now = true ∧ s.startCount ≥ cfg.maxAttempts ∧ s.resetCount < cfg.maxAttempts := by
  obtain ⟨hp, hsl, ht⟩ := repairSlave_reset_mem cfg host st master rs now c p to h
  obtain ⟨_, ha, hs⟩ := tryRepair_reset_mem cfg rs now master c to ht
  exact ⟨ha, hp, hsl, hs⟩

/-- permanently broken replication is left alone -/
theorem perm_broken_untouched (cfg : Cfg) (host : String) (st : NodeState) (master : String) (rs : Option RepairState)
    (now : Int) (c p : Bool) (sl : SlaveState) (hs : st.slave = some sl) (he : sl.state = .error) (hp : st.permBroken = true)
    (hm : st.isMaster = false) (hc : st.isCascade = false) :
    (repairSlave cfg host st master rs now c p).2 = rs ∧
    ∀ to, Act.resetSlaveAlgorithm to ∉ (repairSlave cfg host st master rs now c p).1 := by
  refine ⟨?_, fun to hmem => ?_⟩
  · rw [repairSlave_snd]
    simp [hm, hc, hs, he, hp]
  · have := (repairSlave_reset_mem cfg host st master rs now c p to hmem).1
    rw [hp] at this
    cases this

/-- attempt limit: the per-method counters never pass the limit, each attempt is counted once -/
theorem attempts_bounded (cfg : Cfg) (s : RepairState) (now : Int) (master : String) (c : Bool)
    (h1 : s.startCount ≤ cfg.maxAttempts) (h2 : s.resetCount ≤ cfg.maxAttempts) (hm : 0 ≤ cfg.maxAttempts) :
    ∀ s', (tryRepair cfg (some s) now master c).2 = some s' →
      s'.startCount ≤ cfg.maxAttempts ∧ s'.resetCount ≤ cfg.maxAttempts ∧
      (s'.startCount + s'.resetCount = s.startCount + s.resetCount + (tryRepair cfg (some s) now master c).1.length) := by
  intro s' hs'
  rcases tryRepair_some_cases cfg s now master c with ⟨e, _⟩ | ⟨e, _, _, hlt⟩ | ⟨e, _, _, _, _, hlt⟩
  · rw [e] at hs' ⊢
    cases hs'
    simp only [List.length_nil]
    omega
  · rw [e] at hs' ⊢
    cases hs'
    simp only [List.length_cons, List.length_nil]
    omega
  · rw [e] at hs' ⊢
    cases hs'
    simp only [List.length_cons, List.length_nil]
    omega

/-- cooldown: after an attempt at `now`, no further attempt before `now + cooldown` has passed -/
theorem cooldown_respected (cfg : Cfg) (s : RepairState) (now now' : Int) (master : String) (c c' : Bool) (s' : RepairState)
    (hc : 0 ≤ cfg.cooldown)
    (h1 : (tryRepair cfg (some s) now master c).1 ≠ []) (hs : (tryRepair cfg (some s) now master c).2 = some s')
    (h2 : (tryRepair cfg (some s') now' master c').1 ≠ []) : now' - now > cfg.cooldown := by
  have hla : s'.lastAttempt = now := by
    rcases tryRepair_some_cases cfg s now master c with ⟨e, _⟩ | ⟨e, _⟩ | ⟨e, _⟩
    · rw [e] at h1; exact absurd rfl h1
    · rw [e] at hs; cases hs; rfl
    · rw [e] at hs; cases hs; rfl
  have hcd : cooldownPassed cfg s' now' = true := by
    rcases tryRepair_some_cases cfg s' now' master c' with ⟨e, _⟩ | ⟨_, h, _⟩ | ⟨_, h, _⟩
    · rw [e] at h2; exact absurd rfl h2
    · exact h
    · exact h
  simp only [cooldownPassed, decide_eq_true_eq] at hcd
  omega

/-- a fresh repair state never acts in the iteration that creates it -/
theorem fresh_state_waits (cfg : Cfg) (now : Int) (master : String) (c : Bool) :
    ∀ a ∈ (tryRepair cfg none now master c).1, a = Act.createRepairState := by
  intro a ha
  rw [tryRepair_none] at ha
  cases c <;> simp at ha
  exact ha

/-- stale master: made read-only, taken offline with semi-sync off, re-pointed to the recorded master
and marked for recovery, in that order, in one pass -/
theorem stale_master_pass (cfg : Cfg) (host : String) (st : NodeState) (master : String) (rs : Option RepairState)
    (now : Int) (c p : Bool) (hm : st.isMaster = true) :
    (repairSlave cfg host st master rs now c p).1 =
      (if st.isReadOnly then [] else [Act.setReadOnly]) ++ [.setOffline, .semiSyncDisable, .changeMaster master, .setRecovery] := by
  rw [repairSlave_fst]
  simp [hm]

/-- every reachable node that is not read-only receives the read-only request first -/
theorem writable_node_made_readonly (cfg : Cfg) (host : String) (st : NodeState) (master : String) (rs : Option RepairState)
    (now : Int) (c p : Bool) (h : st.isReadOnly = false) :
    (repairSlave cfg host st master rs now c p).1.head? = some .setReadOnly := by
  rw [repairSlave_fst]
  simp [h]


/-- attempts left for a replica in error: the ranking function of the bounded repair, for ANY attempt limit -/
def budgetLeft (cfg : Cfg) (s : RepairState) : Nat :=
  (cfg.maxAttempts - s.startCount).toNat + (if cfg.aggressive then (cfg.maxAttempts - s.resetCount).toNat else 0)

/-- every attempt uses up one unit of the budget … -/
theorem attempt_uses_budget (cfg : Cfg) (s s' : RepairState) (now : Int) (master : String) (c : Bool)
    (h : (tryRepair cfg (some s) now master c).1 ≠ []) (hs : (tryRepair cfg (some s) now master c).2 = some s') :
    budgetLeft cfg s' + 1 = budgetLeft cfg s := by
  rcases tryRepair_some_cases cfg s now master c with ⟨e, _⟩ | ⟨e, _, _, hlt⟩ | ⟨e, _, _, _, ha, hlt⟩
  · rw [e] at h; exact absurd rfl h
  · rw [e] at hs; cases hs
    simp only [budgetLeft]
    omega
  · rw [e] at hs; cases hs
    simp only [budgetLeft, ha, if_true]
    omega

/-- … and without budget nothing is attempted: at most `budgetLeft` attempts are ever made on a replica
(by induction: `attempts_total_bounded`) -/
theorem no_budget_no_attempt (cfg : Cfg) (s : RepairState) (now : Int) (master : String) (c : Bool)
    (h : budgetLeft cfg s = 0) : (tryRepair cfg (some s) now master c).1 = [] ∧ (tryRepair cfg (some s) now master c).2 = some s := by
  rcases tryRepair_some_cases cfg s now master c with ⟨e, _⟩ | ⟨_, _, _, hlt⟩ | ⟨_, _, _, _, ha, hlt⟩
  · rw [e]; exact ⟨rfl, rfl⟩
  · simp only [budgetLeft] at h
    omega
  · simp only [budgetLeft, ha, if_true] at h
    omega

/-- run `tryRepair` at the given times, counting attempts -/
def runTry (cfg : Cfg) (master : String) : RepairState → List Int → Nat × RepairState
  | s, [] => (0, s)
  | s, now :: rest =>
    let r := tryRepair cfg (some s) now master true
    match r.2 with
    | some s' => let (k, s'') := runTry cfg master s' rest; (k + r.1.length, s'')
    | none => (0, s)

theorem attempts_total_bounded (cfg : Cfg) (master : String) (s : RepairState) (times : List Int) :
    (runTry cfg master s times).1 ≤ budgetLeft cfg s := by
  induction times generalizing s with
  | nil => simp [runTry]
  | cons now rest ih =>
    rcases tryRepair_some_cases cfg s now master true with ⟨e, _⟩ | ⟨e, _⟩ | ⟨e, _⟩
    · have := ih s
      simp only [runTry, e, List.length_nil]
      omega
    · have hb := attempt_uses_budget cfg s _ now master true (by rw [e]; simp) (by rw [e])
      have := ih { s with startCount := s.startCount + 1, lastAttempt := now }
      simp only [runTry, e, List.length_cons, List.length_nil]
      omega
    · have hb := attempt_uses_budget cfg s _ now master true (by rw [e]; simp) (by rw [e])
      have := ih { s with resetCount := s.resetCount + 1, lastAttempt := now }
      simp only [runTry, e, List.length_cons, List.length_nil]
      omega

/-- the attempt bookkeeping seen through the finite abstraction used for convergence -/
def budgetOf (cfg : Cfg) (rs : Option RepairState) (now : Int) : Budget :=
  match rs with
  | none => .noState
  | some s =>
    if !cooldownPassed cfg s now then .mustWait
    else match suitable cfg s with
      | some .startSlave => .mayStart
      | some .resetSlave => .mayReset
      | none => .exhausted

theorem tryRepair_refines_budget (cfg : Cfg) (rs : Option RepairState) (now : Int) (master : String) :
    (tryRepair cfg rs now master true).1 =
      match budgetOf cfg rs now with
      | .noState => [.createRepairState]
      | .mustWait => []
      | .mayStart => [.startSlave]
      | .mayReset => [.resetSlaveAlgorithm master]
      | .exhausted => [] := by
  cases rs with
  | none => simp [tryRepair_none, budgetOf]
  | some s =>
    rcases tryRepair_some_cases cfg s now master true with ⟨e, hcd | hs⟩ | ⟨e, hcd, hs, _⟩ | ⟨e, hcd, hs, _⟩
    · simp [e, budgetOf, hcd]
    · cases hcd : cooldownPassed cfg s now <;> simp [e, budgetOf, hcd, hs]
    · simp [e, budgetOf, hcd, hs]
    · simp [e, budgetOf, hcd, hs]

/-- CONVERGENCE over the whole finite table: from every abstract per-node state, with or without
aggressive repair, whatever the environment answers to the START REPLICA attempts, four fault-free
passes with the cooldown elapsing in between end in the canonical state (read-only, not claiming
master, replicating from the recorded master, running) or in one of the property's sinks
(replication broken permanently or beyond the allowed attempts, or not a replica at all) -/
theorem repair_converges (agg c1 c2 c3 c4 : Bool) (n : Abs) :
    let r := absPass agg c4 true (absPass agg c3 true (absPass agg c2 true (absPass agg c1 true n)))
    r.canonical = true ∨ r.sink = true := by
  exact settled_stable agg c4 true _ (settled_after_three agg c1 c2 c3 n)

/-- … and the canonical state and the sinks are fixed points (no flapping) -/
theorem canonical_is_stable (agg c t : Bool) (n : Abs) (h : n.canonical = true) : (absPass agg c t n).canonical = true := by
  exact canonical_stable_all n (mem_allAbs n) agg c t h

-- non-vacuity
example : (absPass true false true (absPass true false true (absPass true false true
    ⟨false, false, .other, .errTemp, .noState, false, false⟩))).canonical = true := by decide +kernel

end C10
