/-
C02 — no acknowledged loss over histories of ANY length (fixed published list).
PROPERTY THEOREMS ONLY (helper lemmas: MysyncProofs/Lemmas/SafetyLemmas.lean).
Model: MysyncModel/Proto/Safety.lean — commits acknowledged under C04's guarantees, replication, failovers
admitted by C01 / C12's conditions.  The quorum arithmetic is the REGENERATED one.
-/
import MysyncModel.Proto.Safety
import MysyncProofs.Lemmas.SafetyLemmas

namespace C02
open Safety Gen.SwitchHelper

/-- a sane start: a duplicate-free list that contains the master, nothing acknowledged yet -/
def Init (σ : St) : Prop := σ.l.Nodup ∧ σ.m ∈ σ.l ∧ σ.acked = []

/-- Whatever the history — any number of commits, replication moves and failovers, in any order, each admitted
only under the conditions the component properties establish — every acknowledged transaction is on the current
master. -/
theorem acked_never_lost (sh : SwitchHelper) (σ0 : St) (h0 : Init σ0) (steps : List Step) :
    AckedOnMaster (run sh σ0 steps) :=
  (SafetyLemmas.inv_run sh steps σ0 (SafetyLemmas.inv_init sh σ0 h0.2.1 h0.2.2)).2.1

/-- … and on a quorum-proof set of hosts: every duplicate-free frozen set that would pass the quorum re-count
contains a host that has it (this is the inductive invariant; it is what makes the NEXT failover safe) -/
theorem acked_meets_every_quorum (sh : SwitchHelper) (σ0 : St) (h0 : Init σ0) (steps : List Step)
    (t : Txn) (ht : t ∈ (run sh σ0 steps).acked) (F : List Host) (hF : ∀ f ∈ F, f ∈ (run sh σ0 steps).l) (hn : F.Nodup)
    (hq : GetFailoverQuorum sh (run sh σ0 steps).l ≤ (F.length : Int)) :
    ∃ f ∈ F, has (run sh σ0 steps) f t = true :=
  (SafetyLemmas.inv_run sh steps σ0 (SafetyLemmas.inv_init sh σ0 h0.2.1 h0.2.2)).2.2 t ht F hF hn hq

-- non-vacuity: a three-node history with two commits, a replication move and two failovers is admitted step by step
def sh1 : SwitchHelper := ⟨0, 1, true⟩
def s0 : St := { l := ["m", "a", "b"], m := "m", recv := fun _ => [], acked := [] }
def hist : List Step := [.commit 1 ["a"], .replicate "b" [1], .commit 2 ["b"], .replicate "a" [2], .failover "a" ["a", "b"],
  .commit 3 ["b"], .failover "b" ["b", "m"]]
example : (run sh1 s0 hist).m = "b" ∧ (run sh1 s0 hist).acked = [3, 2, 1] ∧
    ((run sh1 s0 hist).recv "b").contains 1 ∧ ((run sh1 s0 hist).recv "b").contains 3 := by decide
-- … and a failover that the quorum re-count does not admit changes nothing
example : (run sh1 s0 [.commit 1 ["a"], .failover "b" ["b"]]).m = "m" := by decide

end C02
