/-
C20 — Daemon robustness: no crash, no leak, no data race on any input.
PROPERTY THEOREMS ONLY (helper lemmas: MysyncProofs/Lemmas/RobustLemmas.lean).

What the technique decides: every model function carries an explicit `panic` outcome at each nil / map /
interface dereference of the code it models (the models are tied to the code by the differential checks,
which compare the panic outcome too).  The theorems below are the EXACT conditions under which an iteration
can die: no panic on any input whose views are complete, and which ill-formed inputs still reach one.  Five
sites that were reachable from contents the property names (recorded master / stream_from not registered,
master reporting a replication source, stuck recorded master) were found by the checks on the pinned tree and
repaired by fix: commits (known_findings.json); the models follow the repaired code.

What it does not decide: goroutine / connection accounting and data races are runtime behaviour.  The cluster
simulation counts goroutines and open connections and recovers panics around every loop of every daemon
(monitors C20:panic:<site>, C20:goroutines-left-behind, C20:connections-accumulate); no executable model of the
logic exhibits a data race — that clause is NOT decided (DESIGN.md, not applicable in part).  Level: PARTIAL.
-/
import MysyncModel.App.Manager
import MysyncModel.App.Switchover
import MysyncModel.App.Recovery
import MysyncModel.App.ActiveNodes
import MysyncModel.App.Cascade
import MysyncProofs.Lemmas.RobustLemmas

namespace C20
open NS

/-- the manager iteration dies only if the recorded master is in the coordination view but missing from the
manager's own view (the two views are built from the same host registry within one iteration: a host removed
in between), or if the switchover procedure died -/
theorem manager_panics_only_if (cfg : Manager.Cfg) (i : Manager.In) (site : String)
    (h : Manager.Step.panic site ∈ (Manager.stateManager cfg i).steps) :
    (∃ m, i.master = some m ∧ (i.dcs.get? m).isSome ∧ (i.cs.get? m).isNone) ∨ i.perform = .panicked :=
  RobustLemmas.stateManager_panic h

/-- … in particular never when the recorded master is not a registered host at all (the crash found on the pinned tree) -/
theorem manager_survives_unregistered_master (cfg : Manager.Cfg) (i : Manager.In) (m : String)
    (hm : i.master = some m) (hd : i.dcs.get? m = none) (hp : i.perform ≠ .panicked) (site : String) :
    Manager.Step.panic site ∉ (Manager.stateManager cfg i).steps := by
  intro h
  rcases RobustLemmas.stateManager_panic h with ⟨m', hm', hs, _⟩ | h
  · rw [hm] at hm'
    cases hm'
    rw [hd] at hs
    cases hs
  · exact hp h

/-- the switchover procedure can die only after the second cluster view was taken: on a host it works on (published
list, requested target, a collected position's host) that has no entry in THAT view — a host removed from the
cluster while the procedure runs — or if no position at all was collected.  (Before fix fc0b66f also every host of the
published list and the recorded master that is missing from the FIRST view: a crash loop while the request is pending.) -/
theorem switchover_panics_only_if (cfg : Switchover.Cfg) (i : Switchover.In) (site : String)
    (h : Switchover.Step.panic site ∈ Switchover.performSwitchover cfg i) :
    (∃ x, (x ∈ Switchover.workList i ∨ x = i.sw.to ∨ ∃ ps p, i.positions = some ps ∧ p ∈ ps ∧ x = p.host) ∧
      Switchover.pingOk i.cs2 x = none) ∨
    i.positions = some [] := by
  rcases RobustLemmas.switchover_panics_only_if_precise cfg i site h with ⟨x, hx, hn⟩ | h2 | h3
  · exact absurd hn (RobustLemmas.switchover_panic_first_view_complete cfg i site h x hx)
  · exact Or.inl h2
  · exact Or.inr h3

/-- … in particular a recorded master or a listed host that is not registered when the procedure starts makes it FAIL,
not die, and nothing is touched -/
theorem switchover_unregistered_host_fails_cleanly (cfg : Switchover.Cfg) (i : Switchover.In) (x : String)
    (hx : x ∈ Switchover.workList i ∨ x = i.oldMaster) (hn : Switchover.pingOk i.cs x = none) (site : String) :
    Switchover.Step.panic site ∉ Switchover.performSwitchover cfg i := by
  intro h
  exact RobustLemmas.switchover_panic_first_view_complete cfg i site h x hx hn

/-- the recovery check never dies (two sites before the fixes) -/
theorem recovery_never_panics (i : Recovery.In) (site : String) : Recovery.Act.panic site ∉ Recovery.checkRecovery i :=
  RobustLemmas.checkRecovery_no_panic i site

/-- membership classification dies only on a host missing from the coordination view, or on a replica whose
executed set does not parse -/
theorem classify_panics_only_if (delay : Int) (i : ActiveNodes.CalcIn) (host : String) (node : NodeState) (site : String)
    (h : (ActiveNodes.classify delay i host node).1 = .panic site) :
    (node.pingOk = false ∧ i.dcs.get? host = none) ∨
    (∃ sl, node.slave = some sl ∧ Gtid.parse sl.executed = none) :=
  RobustLemmas.classify_panic h

end C20
