/-
C06 — Every switch request reaches exactly one terminal outcome, in bounded time.
PROPERTY THEOREMS ONLY (helper lemmas: MysyncProofs/Lemmas/ManagerLemmas.lean).
Model: MysyncModel/App/Manager.lean + MysyncModel/App/SwitchLifecycle.lean.
The model describes the tree AFTER the `fix:` commit recorded in known_findings.json (time-out =
FinishSwitchover); before it `timeout_bound` was false on the real code.
-/
import MysyncModel.App.SwitchLifecycle
import MysyncProofs.Lemmas.ManagerLemmas

namespace C06
open NS Manager SwitchLifecycle

/-- a new request is never filed over a pending one (CLI, external worker and automatic failover all
go through the same create-if-absent) -/
theorem no_overwrite (k : Keys) (req : Switch) (h : k.switch.isSome) : file k req = (k, false) :=
  ManagerLemmas.no_overwrite k req h

theorem file_when_free (k : Keys) (req : Switch) (h : k.switch = none) :
    file k req = ({ k with switch := some req }, true) :=
  ManagerLemmas.file_when_free k req h

/-- time-out bound (any request): at the first iteration of an active manager later than
`initiated_at + switchover_timeout` the request leaves `switch` and is recorded as rejected -/
theorem timeout_bound (cfg : Cfg) (i : In) (k : Keys) (sw : Switch)
    (ha : ActiveManager i) (hs : k.switch = some sw) (ht : timedOut cfg i.now sw = true)
    (hlight : ¬ (sw.failoverType = true ∧ i.maint = .record true true false)) :
    (tick cfg i k).switch = none ∧ (tick cfg i k).lastRejected = some sw ∧ (tick cfg i k).lastOk = k.lastOk :=
  ManagerLemmas.timeout_bound cfg i k sw ha hs ht hlight

/-- attempt bound (planned switchovers): once `run_count` has reached the limit the request is rejected -/
theorem attempt_bound (cfg : Cfg) (i : In) (k : Keys) (sw : Switch)
    (ha : ActiveManager i) (hs : k.switch = some sw) (ht : timedOut cfg i.now sw = false) (ho : overLimit cfg sw = true) :
    (tick cfg i k).switch = none ∧ (tick cfg i k).lastRejected = some sw ∧ (tick cfg i k).lastOk = k.lastOk :=
  ManagerLemmas.attempt_bound cfg i k sw ha hs ht ho

/-- an approved request is not re-judged on retry: with `run_count > 0` (below the limit, not timed
out) the attempt is started whatever the current quorum is -/
theorem approved_once (cfg : Cfg) (i : In) (sw : Switch)
    (ha : ActiveManager i) (hs : i.sw = .record sw) (hr : sw.runCount > 0)
    (ht : timedOut cfg i.now sw = false) (ho : overLimit cfg sw = false)
    (hlight : ¬ (sw.failoverType = true ∧ i.maint = .record true true false)) :
    Step.switchStarted true ∈ (stateManager cfg i).steps ∧ Step.switchRejected ∉ (stateManager cfg i).steps :=
  ManagerLemmas.approved_once cfg i sw ha hs hr ht ho hlight

/-- each failed attempt is counted exactly once and keeps the request pending -/
theorem each_failure_counted (cfg : Cfg) (i : In) (k : Keys) (sw : Switch)
    (ha : ActiveManager i) (hs : k.switch = some sw) (ht : timedOut cfg i.now sw = false) (ho : overLimit cfg sw = false)
    (happ : approveSwitchover cfg { i with sw := .record sw } sw = true) (hp : i.perform = .failed)
    (hlight : ¬ (sw.failoverType = true ∧ i.maint = .record true true false)) :
    (tick cfg i k).switch = some { sw with runCount := sw.runCount + 1 } ∧
    (tick cfg i k).lastOk = k.lastOk ∧ (tick cfg i k).lastRejected = k.lastRejected := by
  have _ := ho  -- implied by `happ`
  exact ManagerLemmas.each_failure_counted cfg i k sw ha hs ht happ hp hlight

/-- exactly one terminal outcome per iteration: a request leaves `switch` through exactly one of
"recorded as succeeded", "recorded as rejected", "removed by the operator meanwhile", and the two
records are never both written by one iteration -/
theorem one_terminal_outcome (cfg : Cfg) (i : In) (k : Keys) (sw : Switch)
    (hs : k.switch = some sw) (hgone : (tick cfg i k).switch = none) :
    ((tick cfg i k).lastOk = some sw ∧ (tick cfg i k).lastRejected = k.lastRejected ∧ i.perform = .ok) ∨
    ((tick cfg i k).lastRejected = some sw ∧ (tick cfg i k).lastOk = k.lastOk) ∨
    ((tick cfg i k).lastOk = k.lastOk ∧ (tick cfg i k).lastRejected = k.lastRejected ∧ i.perform = .abortedMeanwhile) :=
  ManagerLemmas.one_terminal_outcome cfg i k sw hs hgone

/-- a pending request is only ever touched by the lock holder -/
theorem only_lock_holder_touches (cfg : Cfg) (i : In) (k : Keys)
    (h : i.connected = false ∨ i.lockHeld = false) : tick cfg i k = k :=
  ManagerLemmas.only_lock_holder_touches cfg i k h

/-- recorded as succeeded only when the switchover procedure reported success in this iteration -/
theorem success_needs_perform_ok (cfg : Cfg) (i : In) (k : Keys) (sw : Switch)
    (h : (tick cfg i k).lastOk = some sw) (hne : k.lastOk ≠ some sw) : i.perform = .ok ∧ k.switch = some sw :=
  ManagerLemmas.success_needs_perform_ok cfg i k sw h hne

/-- bounded number of attempts for planned switchovers: with a limit `m > 0`, after at most
`m - run_count + 1` iterations of active managers (whatever the procedure's outcomes, as long as it
does not panic) the request has left `switch` (at least one iteration is needed: `is ≠ []` — without it
the statement is false for a request that is already past the limit, see Lemmas/ManagerTick.lean) -/
theorem planned_switchover_bounded (cfg : Cfg) (is : List In) (k : Keys) (sw : Switch)
    (hm : cfg.switchoverMaxAttempts > 0) (hp : sw.failoverType = false)
    (hs : k.switch = some sw)
    (hall : ∀ i ∈ is, ActiveManager i ∧ i.perform ≠ .panicked)
    (hne : is ≠ [])
    (hlen : (is.length : Int) ≥ cfg.switchoverMaxAttempts - sw.runCount + 1) :
    (is.foldl (fun k i => tick cfg i k) k).switch ≠ some sw ∧
    ∀ sw', (is.foldl (fun k i => tick cfg i k) k).switch = some sw' → sw'.causeAuto = true :=
  ManagerLemmas.planned_switchover_bounded cfg is k sw hm hp hs hall hne hlen

-- non-vacuity
private def cfg0 : Cfg := ⟨true, 30, 3600, false, true, 1, 1800, 2⟩
private def rep : NodeState := { pingOk := true, slave := some { state := .running, masterHost := "m" } }
private def i0 : In :=
  { master := some "m", activeNodes := ["m", "a", "b"],
    cs := [("m", ({ pingOk := true, isMaster := true } : NodeState)), ("a", rep), ("b", rep)],
    dcs := [("m", ({ pingOk := true, isMaster := true } : NodeState)), ("a", rep), ("b", rep)], now := 5000, failedAt := none, perform := .failed }
private def req : Switch := { to := "a", initiatedAt := some 4000 }
example : (tick cfg0 i0 { switch := some req }).switch = some { req with runCount := 1 } := by decide +kernel
example : (tick cfg0 { i0 with now := 9000 } { switch := some req }).lastRejected = some req := by decide +kernel

end C06
