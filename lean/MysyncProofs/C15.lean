/-
C15 — Coordination data-plane contract, incl. ephemeral health records.
PROPERTY THEOREMS ONLY (helper lemmas: MysyncProofs/Lemmas/ZkLemmas.lean).
Model: MysyncModel/Dcs/Zk.lean — `zkDCS`'s operations as programs over the ZooKeeper primitives.
The theorems about whole operations are stated for an operation that runs without another client in
between (`runSeq`); what holds under ANY interleaving is stated on the server steps themselves
(`owner_never_changes`, `ephemerals_belong_to_live_sessions`, `wf_preserved`) and, for the
non-atomic `set`, in `set_lost_update_detected`.
-/
import MysyncModel.Dcs.Zk
import MysyncProofs.Lemmas.ZkLemmas

namespace C15
open Zk

/-- well-formed tree: one entry per key, every entry's parent exists, ephemeral entries have no children
and belong to a live session -/
def WFTree (s : Server) : Prop :=
  (s.nodes.map (·.1)).Nodup ∧
  (∀ p n, (p, n) ∈ s.nodes → p ≠ [] ∧ s.has p.dropLast = true) ∧
  (∀ p n, (p, n) ∈ s.nodes → n.owner ≠ 0 → s.childrenOf p = [] ∧ n.owner ∈ s.live)

/-! ### keys -/

/-- the key sent to the server depends only on the non-empty pieces of namespace and path: spellings that
differ only by redundant slashes give the same key, and the key is in canonical spelling -/
-- ORIGINAL STATEMENT (false):
--   theorem path_normal_form (ns p : List Char) (hns : segs ns ≠ []) :
--       buildFullPathChars ns p = spell (segs ns ++ segs p)
-- Counterexample: a namespace without leading separator, ns = "abc", p = "xyz": the key is "abc/xyz",
-- the canonical spelling is "/abc/xyz" (checked by `decide` below).  `NewZookeeper` refuses such a namespace
-- ("zookeeper namespace should start with /"), so the missing hypothesis is exactly the constructor's check.
-- (With `hlead`, `hns` is no longer needed for the equation; it is kept because the constructor also refuses
-- the empty namespace.  `ZkLemmas.key_general` gives the key for an arbitrary namespace.)
example : segs "abc".toList ≠ [] ∧
    buildFullPathChars "abc".toList "xyz".toList ≠ spell (segs "abc".toList ++ segs "xyz".toList) := by decide

theorem path_normal_form (ns p : List Char) (hns : segs ns ≠ []) (hlead : ns.head? = some sep) :
    buildFullPathChars ns p = spell (segs ns ++ segs p) := by
  have _ := hns
  exact ZkLemmas.key_lead ns p hlead

theorem same_segments_same_key (ns p q : List Char) (hns : segs ns ≠ []) (h : segs p = segs q) :
    buildFullPathChars ns p = buildFullPathChars ns q := by
  have _ := hns
  exact ZkLemmas.key_same ns p q h

/-- canonical spelling round-trips: no empty piece, no doubled or trailing separator is ever sent -/
theorem key_segments (ns p : List Char) (hns : segs ns ≠ []) :
    segs (buildFullPathChars ns p) = segs ns ++ segs p := by
  have _ := hns
  exact ZkLemmas.key_segs ns p

/-! ### invariants of the server, under any interleaving -/

theorem wf_preserved (s : Server) (sid : Sid) (pr : Prim) (h : WFTree s) (hl : sid ∈ s.live) (h0 : sid ≠ 0) :
    WFTree (s.step sid pr).1 := by
  have _ := h0
  exact ZkLemmas.wf_step_gen h sid pr (fun _ => hl)

-- ORIGINAL STATEMENT (false):
--   theorem wf_expire (s : Server) (sid : Sid) (h : WFTree s) : WFTree (s.expire sid)
-- Counterexample: sid = 0 is not a session but the marker 'persistent'; "expiring" it removes every plain
-- entry and leaves the ephemeral ones without parents: `sample.expire 0` keeps only t/health/h1 (see the
-- `example` after `sample` below).  Missing hypothesis: `sid ≠ 0`.
theorem wf_expire (s : Server) (sid : Sid) (h : WFTree s) (h0 : sid ≠ 0) : WFTree (s.expire sid) :=
  ZkLemmas.wf_expire_gen h sid h0

theorem wf_open (s : Server) (sid : Sid) (h : WFTree s) : WFTree (s.openSession sid) :=
  ZkLemmas.wf_open_gen h sid

/-- a key is never silently turned into an ephemeral one (nor back): no primitive changes the owner of
an entry that stays -/
theorem owner_never_changes (s : Server) (sid : Sid) (pr : Prim) (p : Path) (n n' : ZNode) (h : WFTree s)
    (h1 : s.find? p = some n) (h2 : (s.step sid pr).1.find? p = some n') (hnd : ∀ v, pr ≠ .delete p v) :
    n'.owner = n.owner := by
  have _ := h
  exact ZkLemmas.step_owner s sid pr p n n' h1 h2 hnd

/-- ephemeral keys exist only while their session lives: after the session ended nothing of it is left,
everything else is untouched -/
theorem ephemeral_lifetime (s : Server) (sid : Sid) (p : Path) (h : WFTree s) :
    (s.expire sid).find? p = (match s.find? p with | some n => if n.owner = sid then none else some n | none => none) ∧
    sid ∉ (s.expire sid).live := by
  refine ⟨?_, by simp [Server.expire]⟩
  rw [ZkLemmas.find?_expire s sid p h.1]
  cases s.find? p <;> rfl

/-- … and a later session can recreate the key -/
theorem ephemeral_recreate (s : Server) (sid sid' : Sid) (p : Path) (n : ZNode) (d : String) (h : WFTree s)
    (hn : s.find? p = some n) (ho : n.owner = sid) (h0 : sid ≠ 0) (hne : sid' ≠ sid) :
    ∃ s', ((s.expire sid).step sid' (.create p d true)) = (s', .created) ∧
      s'.find? p = some { data := d, version := 0, owner := sid' } := by
  have hw : ZkLemmas.WF s := h
  have hm := ZkLemmas.find?_mem hn
  have hnone : (s.expire sid).find? p = none := by
    rw [ZkLemmas.find?_expire s sid p h.1, hn]; simp [ho]
  have hpar : p.dropLast = [] ∨ ∃ m, (s.expire sid).find? p.dropLast = some m ∧ m.owner = 0 := by
    rcases hw.parent_plain hm with h' | ⟨m, hm', hm0⟩
    · exact Or.inl h'
    · refine Or.inr ⟨m, ?_, hm0⟩
      rw [ZkLemmas.find?_expire s sid _ h.1, hw.find?_iff.2 hm']
      have : ¬ m.owner = sid := by rw [hm0]; exact fun h' => h0 h'.symm
      simp [this]
  have _ := hne
  refine ⟨_, ZkLemmas.step_create_ok sid' d true (hw.ne_nil hm) hnone hpar, ?_⟩
  rw [← ZkLemmas.put_of_none _ hnone, ZkLemmas.find?_put_self]
  rfl

/-! ### whole operations -/

/-- `create` fails with 'exists' exactly when the key exists, and then changes nothing -/
-- ORIGINAL STATEMENT (false):
--   theorem create_exists_iff (s s' : Server) (sid : Sid) (p : Path) (d : String) (eph : Bool) (r : Res)
--       (fuel : Nat) (hp : p ≠ []) (h : runSeq s sid (opCreate p d eph) fuel = some (s', r)) :
--       (r = .exists_ ↔ (s.find? p).isSome = true) ∧ (r ≠ .ok → s' = s)
-- Counterexample: a tree that is not well-formed, nodes = [(["a","b"], _)] without the parent ["a"]:
-- `create ["a","b"]` answers `noNode` (the server looks at the parent first) although the key exists
-- (see the `example` after `sample` below).  Missing hypothesis: `WFTree s`.
theorem create_exists_iff (s s' : Server) (sid : Sid) (p : Path) (d : String) (eph : Bool) (r : Res) (fuel : Nat)
    (hw : WFTree s) (hp : p ≠ []) (h : runSeq s sid (opCreate p d eph) fuel = some (s', r)) :
    (r = .exists_ ↔ (s.find? p).isSome = true) ∧ (r ≠ .ok → s' = s) := by
  have hw' : ZkLemmas.WF s := hw
  cases fuel with
  | zero => simp [opCreate, runSeq] at h
  | succ fuel =>
    unfold opCreate at h
    rw [ZkLemmas.runSeq_call] at h
    rcases ZkLemmas.step_create_cases s sid p d eph with
      ⟨hr, hq, hs⟩ | ⟨hr, hq, hs⟩ | ⟨hr, _, hd, hq, hs⟩ | ⟨hr, hq, hs⟩
    · rw [hr, hs] at h
      simp only [ZkLemmas.runSeq_ret, Option.some.injEq, Prod.mk.injEq] at h
      obtain ⟨_, rfl⟩ := h
      simp [hq]
    · rw [hr, hs] at h
      simp only [ZkLemmas.runSeq_ret, Option.some.injEq, Prod.mk.injEq] at h
      obtain ⟨rfl, rfl⟩ := h
      rcases hq with hq | hq
      · exact absurd hq hp
      · simp [hq]
    · rw [hr, hs] at h
      simp only [ZkLemmas.runSeq_ret, Option.some.injEq, Prod.mk.injEq, errOf] at h
      obtain ⟨rfl, rfl⟩ := h
      have : ¬ (s.find? p).isSome = true := by
        intro hsome
        obtain ⟨n, hn⟩ := ZkLemmas.find?_isSome_iff.1 hsome
        rcases hw'.parent hn with h' | ⟨m, hm⟩
        · exact hd h'
        · rw [hw'.find?_iff.2 hm] at hq; cases hq
      simp [this]
    · rw [hr, hs] at h
      simp only [ZkLemmas.runSeq_ret, Option.some.injEq, Prod.mk.injEq, errOf] at h
      obtain ⟨rfl, rfl⟩ := h
      simp [hq]

theorem create_ok (s s' : Server) (sid : Sid) (p : Path) (d : String) (eph : Bool) (fuel : Nat) (hw : WFTree s)
    (h : runSeq s sid (opCreate p d eph) fuel = some (s', .ok)) :
    s'.find? p = some { data := d, version := 0, owner := if eph then sid else 0 } ∧ ∀ q, q ≠ p → s'.find? q = s.find? q := by
  have _ := hw
  cases fuel with
  | zero => simp [opCreate, runSeq] at h
  | succ fuel =>
    unfold opCreate at h
    rw [ZkLemmas.runSeq_call] at h
    rcases ZkLemmas.step_create_cases s sid p d eph with
      ⟨hr, _, hs⟩ | ⟨hr, _, _⟩ | ⟨hr, _, _, _, _⟩ | ⟨hr, _, _⟩
    · rw [hr, hs] at h
      simp only [ZkLemmas.runSeq_ret, Option.some.injEq, Prod.mk.injEq, and_true] at h
      subst h
      exact ⟨ZkLemmas.find?_put_self _ _ _, fun q hq => ZkLemmas.find?_put_other _ _ _ _ hq⟩
    all_goals (rw [hr] at h; simp [ZkLemmas.runSeq_ret, errOf] at h)

/-- `set` on an existing key overwrites (and counts the change), whoever owns it … -/
theorem set_overwrites (s : Server) (sid : Sid) (p : Path) (d : String) (eph : Bool) (n : ZNode) (hw : WFTree s)
    (hn : s.find? p = some n) (hk : ¬ (eph = true ∧ n.owner = 0)) :
    ∃ s', runSeq s sid (opSet p d eph) 2 = some (s', .ok) ∧
      s'.find? p = some { n with data := d, version := n.version + 1 } ∧ ∀ q, q ≠ p → s'.find? q = s.find? q := by
  have _ := hw
  have hk' : (eph && n.owner == 0) = false := by
    cases eph with
    | false => rfl
    | true =>
      have : ¬ n.owner = 0 := fun h0 => hk ⟨rfl, h0⟩
      simp [this]
  refine ⟨s.put p { n with data := d, version := n.version + 1 }, ?_, ZkLemmas.find?_put_self _ _ _,
    fun q hq => ZkLemmas.find?_put_other _ _ _ _ hq⟩
  unfold opSet
  rw [ZkLemmas.runSeq_call, ZkLemmas.step_get_some sid hn]
  simp only [hk', Bool.false_eq_true, if_false]
  rw [ZkLemmas.runSeq_call, ZkLemmas.step_set_ok sid d hn]
  simp only [ZkLemmas.runSeq_ret]

/-- … except that a plain key is never turned into an ephemeral one: the request is refused, nothing changes -/
theorem set_never_makes_ephemeral (s : Server) (sid : Sid) (p : Path) (d : String) (n : ZNode)
    (hn : s.find? p = some n) (ho : n.owner = 0) :
    runSeq s sid (opSet p d true) 2 = some (s, .notEphemeral) := by
  unfold opSet
  rw [ZkLemmas.runSeq_call, ZkLemmas.step_get_some sid hn]
  simp [ho, ZkLemmas.runSeq_ret]

/-- `set` on a missing key creates every missing ancestor (plain, empty) and the key itself; existing
entries are untouched -/
-- ORIGINAL STATEMENT (false):
--   theorem set_creates_parents (s : Server) (sid : Sid) (p : Path) (d : String) (eph : Bool) (hw : WFTree s)
--       (hp : p ≠ []) (hn : s.find? p = none)
--       (hanc : ∀ k, k < p.length → ∀ n, s.find? (p.take k) = some n → n.owner = 0) :
--       ∃ s', runSeq s sid (opSet p d eph) (2 * p.length + 3) = some (s', .ok) ∧ … ∧ WFTree s'
-- Counterexample: the caller's session is not live: s = {nodes := [], live := []}, sid = 5, p = ["a"],
-- eph = true gives the entry (["a"], owner 5) with no live session 5, so `WFTree s'` fails (every other
-- conjunct holds).  `Server.step` is "on behalf of live session sid"; missing hypothesis: `sid ∈ s.live`
-- (see the `example` after `sample` below).
theorem set_creates_parents (s : Server) (sid : Sid) (p : Path) (d : String) (eph : Bool) (hw : WFTree s)
    (hl : sid ∈ s.live) (hp : p ≠ []) (hn : s.find? p = none)
    (hanc : ∀ k, k < p.length → ∀ n, s.find? (p.take k) = some n → n.owner = 0) :
    ∃ s', runSeq s sid (opSet p d eph) (2 * p.length + 3) = some (s', .ok) ∧
      s'.find? p = some { data := d, version := 0, owner := if eph then sid else 0 } ∧
      (∀ k, 0 < k → k < p.length → (s'.find? (p.take k)).isSome = true) ∧
      (∀ q n, s.find? q = some n → s'.find? q = some n) ∧ WFTree s' :=
  ZkLemmas.set_missing s sid p d eph hw hp hn hanc (fun _ _ => hl)

/-- a concurrent writer is detected, never silently overwritten: if the entry changed between `set`'s
read and its write, the write fails with `badVersion` -/
theorem set_lost_update_detected (s : Server) (sid : Sid) (p : Path) (d : String) (n : ZNode) (ver : Int)
    (hn : s.find? p = some n) (hv : n.version ≠ ver) (hver : ver ≠ -1) :
    s.step sid (.set p d ver) = (s, .err .badVersion) := by
  simp [Server.step, hn, hver, Ne.symm hv]

/-- `get` tells a missing key from an unparsable one -/
theorem get_distinguishes (valid : String → Bool) (s : Server) (sid : Sid) (p : Path) (hp : p ≠ []) :
    runSeq s sid (opGet valid p) 1 =
      some (s, match s.find? p with
               | none => .notFound
               | some n => if valid n.data then .val n.data else .malformed) := by
  unfold opGet
  rw [ZkLemmas.runSeq_call]
  cases hn : s.find? p with
  | none => rw [ZkLemmas.step_get_none sid hp hn]; simp only [ZkLemmas.runSeq_ret]
  | some n =>
    rw [ZkLemmas.step_get_some sid hn]
    by_cases hv : valid n.data = true
    · simp [hv, ZkLemmas.runSeq_ret]
    · simp [hv, ZkLemmas.runSeq_ret]

/-- `delete` is idempotent: a missing key is fine, a leaf is removed, and a second delete is fine again -/
theorem delete_missing_ok (s : Server) (sid : Sid) (p : Path) (hp : p ≠ []) (hn : s.find? p = none) :
    runSeq s sid (opDelete p) 2 = some (s, .ok) := by
  unfold opDelete
  rw [ZkLemmas.runSeq_call, ZkLemmas.step_get_none sid hp hn]
  simp only [ZkLemmas.runSeq_ret]

theorem delete_leaf (s : Server) (sid : Sid) (p : Path) (n : ZNode) (hw : WFTree s)
    (hn : s.find? p = some n) (hc : s.childrenOf p = []) :
    ∃ s', runSeq s sid (opDelete p) 2 = some (s', .ok) ∧ s'.find? p = none ∧ (∀ q, q ≠ p → s'.find? q = s.find? q) ∧
      runSeq s' sid (opDelete p) 2 = some (s', .ok) := by
  have hw' : ZkLemmas.WF s := hw
  have hp : p ≠ [] := hw'.ne_nil (ZkLemmas.find?_mem hn)
  have hrun : ∀ t : Server, t.find? p = none → runSeq t sid (opDelete p) 2 = some (t, .ok) := by
    intro t ht
    unfold opDelete
    rw [ZkLemmas.runSeq_call, ZkLemmas.step_get_none sid hp ht]
    simp only [ZkLemmas.runSeq_ret]
  refine ⟨s.erase p, ?_, ZkLemmas.find?_erase_self s p, fun q hq => ZkLemmas.find?_erase_other s p q hq,
    hrun _ (ZkLemmas.find?_erase_self s p)⟩
  unfold opDelete
  rw [ZkLemmas.runSeq_call, ZkLemmas.step_get_some sid hn]
  simp only
  rw [ZkLemmas.runSeq_call, ZkLemmas.step_delete_ok sid hn hc]
  simp only [ZkLemmas.runSeq_ret]

/-- listing the children of a missing key reports 'not found' -/
theorem children_contract (s : Server) (sid : Sid) (p : Path) :
    runSeq s sid (opChildren p) 1 = some (s, if s.has p then .children (s.childrenOf p) else .notFound) := by
  unfold opChildren
  rw [ZkLemmas.runSeq_call]
  by_cases hh : s.has p = true
  · simp [Server.step, hh, ZkLemmas.runSeq_ret]
  · simp [Server.step, hh, ZkLemmas.runSeq_ret]

-- non-vacuity: a well-formed non-trivial tree, and the operations on it
def sample : Server :=
  { nodes := [(["t"], { data := "" }), (["t", "a"], { data := "1" }), (["t", "health"], { data := "" }),
              (["t", "health", "h1"], { data := "{}", owner := 7 })], live := [7, 8] }

example : (sample.expire 7).find? ["t", "health", "h1"] = none := by decide
example : (runSeq sample 8 (opSet ["t", "x", "y", "z"] "5" false) 11).map (·.2) = some .ok := by decide
example : (runSeq sample 8 (opSet ["t", "a"] "5" true) 2).map (·.2) = some .notEphemeral := by decide
example : String.ofList (buildFullPathChars "//abc//def/".toList "////xyz////".toList) = "/abc/def/xyz" := by decide

-- non-vacuity of the well-formedness hypothesis
example : WFTree sample := by
  refine ⟨by decide, ?_, ?_⟩
  · intro p n hp
    simp only [sample, List.mem_cons, Prod.mk.injEq, List.not_mem_nil, or_false] at hp
    rcases hp with ⟨rfl, rfl⟩ | ⟨rfl, rfl⟩ | ⟨rfl, rfl⟩ | ⟨rfl, rfl⟩ <;> decide
  · intro p n hp
    simp only [sample, List.mem_cons, Prod.mk.injEq, List.not_mem_nil, or_false] at hp
    rcases hp with ⟨rfl, rfl⟩ | ⟨rfl, rfl⟩ | ⟨rfl, rfl⟩ | ⟨rfl, rfl⟩ <;> decide

-- the counterexamples to the original statements of `wf_expire`, `create_exists_iff`, `set_creates_parents`
example : ¬ WFTree (sample.expire 0) := by
  intro h
  have := (h.2.1 ["t", "health", "h1"] { data := "{}", owner := 7 } (by decide)).2
  exact absurd this (by decide)

example : let bad : Server := { nodes := [(["a", "b"], { data := "" })], live := [1] }
    runSeq bad 1 (opCreate ["a", "b"] "x" false) 1 = some (bad, .err .noNode) ∧ (bad.find? ["a", "b"]).isSome = true := by
  decide

example : let emp : Server := { nodes := [], live := [] }
    WFTree emp ∧ ∃ s', runSeq emp 5 (opSet ["a"] "x" true) 5 = some (s', .ok) ∧ ¬ WFTree s' := by
  refine ⟨⟨by decide, (by intro p n hp; cases hp), (by intro p n hp; cases hp)⟩, _, rfl, ?_⟩
  intro h
  have := (h.2.2 ["a"] { data := "x", owner := 5 } (by decide) (by decide)).2
  exact absurd this (by decide)

end C15
