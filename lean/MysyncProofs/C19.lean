/-
C19 — Replication optimisation never leaves untracked relaxed durability.
PROPERTY THEOREMS ONLY (helper lemmas: MysyncProofs/Lemmas/OptimizationLemmas.lean).
Model: MysyncModel/App/Optimization.lean (`Syncer.Sync` as a sequential procedure with a failure
oracle over a registry+settings world; `Controller.DisableAll`; `isOptimizedDuringWaiting`).
The switchover clause ("never promoted while relaxed or registered") was FALSE on the pinned tree and
was repaired by a `fix:` commit (known_findings.json); it is enforced by the promotion monitor of the
C01 harness on ground-truth snapshots, and by `Switchover`'s ordering theorem below.
-/
import MysyncModel.App.Optimization
import MysyncModel.App.Switchover
import MysyncProofs.Lemmas.OptimizationLemmas
import MysyncProofs.Lemmas.SwitchoverLemmas

namespace C19
open NS Optimization

/-- the world agrees with what the syncer was told: every registered host's real settings are the
ones in its view record, the registry is the list of hosts, names are distinct, all are cluster hosts -/
def Consistent (i : SyncIn) (w : World) : Prop :=
  w.registered = i.hosts.map (·.name) ∧ (i.hosts.map (·.name)).Nodup ∧
  (∀ h ∈ i.hosts, h.hasNode = true ∧ h.settings = some (w.get h.name) ∧ i.current h.name = w.get h.name ∧ h.enabled.isSome)

/-- after a fault-free sync at most one registered host is left with settings different from the master's -/
theorem sync_at_most_one (cfg : Cfg) (i : SyncIn) (w : World) (t : List Ev)
    (hc : Consistent i w) (hok : ∀ c, i.fails c = false) (hs : sync cfg i = .trace t) :
    ((w.run i.masterRs t).relaxed i.masterRs (w.run i.masterRs t).registered).length ≤ 1 := by
  obtain ⟨hreg, hnd, hh⟩ := hc
  exact OptimizationLemmas.sync_at_most_one cfg i w t hreg hnd
    (fun h hm => ⟨(hh h hm).1, (hh h hm).2.1, (hh h hm).2.2.2⟩) hok hs

/-- a registered host is dropped only after its settings were restored, or once it is no longer a
cluster host — on every trace, with any call failing anywhere (a crash is a prefix, and the
statement is about positions in the trace) -/
theorem restore_before_deregister (cfg : Cfg) (i : SyncIn) (t : List Ev) (pre post : List Ev) (h : String) (ok : Bool)
    (hs : sync cfg i = .trace t ∨ sync cfg i = .panic t) (hsplit : t = pre ++ ⟨.deregister h, ok⟩ :: post) :
    (⟨.restore h, true⟩ : Ev) ∈ pre ∨ ∃ r ∈ i.hosts, r.name = h ∧ r.hasNode = false := by
  apply OptimizationLemmas.restore_before_deregister cfg i pre post h ok
  rcases hs with hs | hs <;> rw [hs, ← hsplit] <;> rfl

/-- a failing restore aborts the sync before anything is dropped -/
theorem failed_restore_drops_nothing (cfg : Cfg) (i : SyncIn) (t : List Ev) (h : String)
    (hs : sync cfg i = .trace t) (hf : (⟨.restore h, false⟩ : Ev) ∈ t) :
    t.getLast? = some ⟨.restore h, false⟩ ∧ ∀ x ok, (⟨.deregister x, ok⟩ : Ev) ∈ t →
      ∃ pre post, t = pre ++ ⟨.deregister x, ok⟩ :: post ∧ (⟨.restore h, false⟩ : Ev) ∈ post := by
  have hevs : (sync cfg i).evs = t := by rw [hs]; rfl
  exact hevs ▸ OptimizationLemmas.failed_restore_drops_nothing cfg i h (hevs ▸ hf)

/-- replicas without a known lag (and the master) and replicas whose lag has converged are returned to
the master's settings and then dropped from the registry (fault-free sync) -/
theorem lost_and_converged_are_dropped (cfg : Cfg) (i : SyncIn) (t : List Ev) (r : RegHost)
    (hok : ∀ c, i.fails c = false) (hs : sync cfg i = .trace t) (hr : r ∈ i.hosts)
    (hcl : classify cfg i.masterRs r = .cls .malfunctioning ∨ classify cfg i.masterRs r = .cls .optimized) :
    (⟨.deregister r.name, true⟩ : Ev) ∈ t ∧ (r.hasNode = true → (⟨.restore r.name, true⟩ : Ev) ∈ t) := by
  exact OptimizationLemmas.lost_and_converged_are_dropped cfg i t r hok hs
    ((OptimizationLemmas.mem_toDisable cfg i r).2 ⟨hr, hcl.symm⟩)

/-- classification in the property's terms -/
theorem classify_lost (cfg : Cfg) (m : RS) (r : RegHost) (en : Bool) (he : r.enabled = some en)
    (h : r.isMaster = true ∨ r.lag = none) : classify cfg m r = .cls .malfunctioning := by
  exact OptimizationLemmas.classify_lost cfg m r en he h

theorem classify_converged (cfg : Cfg) (m : RS) (r : RegHost) (en : Bool) (l : Int) (he : r.enabled = some en)
    (hm : r.isMaster = false) (hl : r.lag = some l)
    (hc : (en = false ∧ l < cfg.highMark) ∨ (en = true ∧ l < cfg.lowMark)) : classify cfg m r = .cls .optimized := by
  exact OptimizationLemmas.classify_converged cfg m r en l he hm hl hc

/-- at most one host is relaxed BY a sync -/
theorem sync_relaxes_at_most_one (cfg : Cfg) (i : SyncIn) (t : List Ev) (hs : sync cfg i = .trace t) :
    (t.filter fun e => match e.call with | .relax _ => true | _ => false).length ≤ 1 := by
  have hevs : (sync cfg i).evs = t := by rw [hs]; rfl
  exact hevs ▸ OptimizationLemmas.sync_relaxes_at_most_one cfg i

/-- `DisableAll` (the pre-switchover shut-off): every host of the registry that is among the given
nodes is restored first and deregistered only if the restore succeeded -/
theorem disableAll_restores_then_drops (registry given : List String) (fails : Call → Bool) (h : String) (ok : Bool)
    (hd : (⟨.deregister h, ok⟩ : Ev) ∈ disableAll registry given fails) :
    h ∈ registry ∧ h ∈ given ∧ fails (.restore h) = false ∧ (⟨.restore h, true⟩ : Ev) ∈ disableAll registry given fails := by
  exact OptimizationLemmas.disableAll_restores_then_drops registry given fails h ok hd

/-- fault-free `DisableAll` over a duplicate-free registry leaves none of the given hosts registered or relaxed -/
theorem disableAll_complete (registry given : List String) (w : World) (m : RS)
    (hw : w.registered = registry) (hn : registry.Nodup) :
    let w' := w.run m (disableAll registry given fun _ => false)
    (∀ h ∈ given, h ∉ w'.registered) ∧ (∀ h ∈ given, h ∈ registry → w'.get h = m) := by
  exact (fun _ => OptimizationLemmas.disableAll_complete registry given w m hw) hn

/-- `Controller.Wait`'s test: it reports "optimised" at once unless the registry record says
`enabled` (nothing in the tree writes that status, so the pre-switchover wait ends at its first tick) -/
theorem wait_returns_unless_enabled (m : Int) (state : Option Bool) (lag : Option Int) (h : state ≠ some true) :
    isOptimizedDuringWaiting m state lag = (true, false) := by
  exact OptimizationLemmas.wait_returns_unless_enabled m state lag h

-- non-vacuity
private def r1 : RegHost := { name := "a", enabled := some false, isMaster := false, lag := some 500, settings := some ⟨1, 1⟩ }
private def r2 : RegHost := { name := "b", enabled := some false, isMaster := false, lag := some 10, settings := some ⟨2, 1000⟩ }
private def i0 : SyncIn := { hosts := [r1, r2], masterRs := ⟨1, 1⟩, current := fun h => if h == "b" then ⟨2, 1000⟩ else ⟨1, 1⟩, fails := fun _ => false }
example : (match sync ⟨60, 120⟩ i0 with | .trace t => t | .panic t => t) =
    [⟨.restore "b", true⟩, ⟨.deregister "b", true⟩, ⟨.relax "a", true⟩] := by decide +kernel

/-- the switchover clause on the procedure model (true only since fix 97bff8a): whenever the speed-up phase ran,
every freeze step — and therefore every promotion — comes after a successful shut-off of the optimisation that
itself comes after the speed-up phase; for all oracle outcomes -/
theorem switchover_shuts_optimisation_off_before_freeze (cfg : Switchover.Cfg) (i : Switchover.In)
    (pre post : List Switchover.Step) (h : String) (ok : Bool)
    (hs : Switchover.performSwitchover cfg i = pre ++ Switchover.Step.freezeRO h ok :: post) :
    Switchover.Step.stopOptimization true ∈ pre ∧
    (Switchover.Step.turboPhase true ∈ pre →
      ∃ a b, pre = a ++ Switchover.Step.turboPhase true :: b ∧ Switchover.Step.stopOptimization true ∈ b) := by
  -- what precedes a freeze step: `[stopOptimization true]` or `[stopOptimization true, turboPhase true, stopOptimization true]`
  -- (`SwitchoverLemmas.optPrefix`), then freeze steps only
  obtain ⟨f, hpre, hf⟩ := SwitchoverLemmas.before_freeze cfg i pre post h ok hs
  subst hpre
  refine ⟨by simp [SwitchoverLemmas.optPrefix], fun ht => ?_⟩
  cases hturbo : i.turbo
  · exfalso
    simp only [SwitchoverLemmas.optPrefix, hturbo] at ht
    simp at ht
    obtain ⟨x, o, hx⟩ := hf _ ht
    cases hx
  · exact ⟨[.stopOptimization true], .stopOptimization true :: f, by simp [SwitchoverLemmas.optPrefix, hturbo], by simp⟩

-- non-vacuity: a planned switchover with the speed-up phase in a healthy 3-node cluster
private def mst : NodeState := { pingOk := true, isMaster := true }
private def rep : NodeState := { pingOk := true, slave := some { state := .running, masterHost := "a" } }
private def s0 : Switchover.In :=
  { cs := [("a", mst), ("b", rep), ("c", rep)], active := ["a", "b", "c"], sw := { to := "b" }, oldMaster := "a", turbo := true,
    ro := fun _ => true, io := fun _ => true, positions := none, cs2 := [], repoint := fun _ => true }
example : (Switchover.performSwitchover ⟨true, 1, false, 0, 60⟩ s0).take 6 =
    [.stopOptimization true, .turboPhase true, .stopOptimization true, .freezeRO "a" true, .freezeRO "b" true, .freezeRO "c" true] := by
  decide +kernel
example : Switchover.performSwitchover ⟨true, 1, false, 0, 60⟩ { s0 with optStop2Ok := false } =
    [.stopOptimization true, .turboPhase true, .stopOptimization false] := by decide +kernel

end C19
