/-
C14 — Candidate selection honours priority within the lag bound.
PROPERTY THEOREMS ONLY (helper lemmas live in MysyncProofs/Lemmas/SelectLemmas.lean).
-/
import MysyncModel.Select
import MysyncProofs.Lemmas.SelectLemmas

namespace C14
open Gtid Select SelectLemmas

abbrev GSubset (s m : GtidSet) : Prop := GtidLemmas.GSubset s m

/-- the recursion of `getMostDesirableNode` always terminates for a non-negative bound: the list of
"much fresher" hosts never contains the top-priority host, so it is strictly shorter -/
theorem desirable_terminates (bound : Int) (hb : 0 ≤ bound) (ps : List Pos) :
    ∀ fuel, ps.length < fuel → mostDesirableFuel bound fuel ps ≠ .outOfFuel :=
  SelectLemmas.desirable_terminates bound hb ps

/-- it returns one of the offered candidates … -/
theorem desirable_mem (bound : Int) (hb : 0 ≤ bound) (ps : List Pos) (p : Pos)
    (h : mostDesirable bound ps = .node p) : p ∈ ps :=
  SelectLemmas.desirable_mem bound hb ps p h

/-- … and an error only when none is offered -/
theorem desirable_error_iff_empty (bound : Int) (hb : 0 ≤ bound) (ps : List Pos) :
    (∀ p, mostDesirable bound ps ≠ .node p) ↔ ps = [] :=
  SelectLemmas.desirable_error_iff_empty bound hb ps

/-- never the host the switch moves away from -/
theorem never_from (bound : Int) (hb : 0 ≤ bound) (ps : List Pos) (from_ : String) (p : Pos)
    (h : mostDesirable bound (filterOutHost ps from_) = .node p) : p.host ≠ from_ ∧ p ∈ ps :=
  SelectLemmas.never_from bound hb ps from_ p h

/-- the highest-priority candidate is returned whenever its lag is within the bound -/
theorem top_within_bound (bound : Int) (ps : List Pos) (top : Pos)
    (ht : mostPriority ps = some top) (hl : top.lag ≤ bound) : mostDesirable bound ps = .node top :=
  SelectLemmas.top_within_bound bound ps top ht hl

/-- otherwise: either that candidate or one whose lag is smaller by more than the bound -/
theorem else_top_or_much_fresher (bound : Int) (hb : 0 ≤ bound) (ps : List Pos) (top r : Pos)
    (ht : mostPriority ps = some top) (h : mostDesirable bound ps = .node r) :
    r = top ∨ r.lag < top.lag - bound :=
  SelectLemmas.else_top_or_much_fresher bound hb ps top r ht h

/-- the "top" candidate is offered and has maximal priority -/
theorem top_has_max_priority (ps : List Pos) (top : Pos) (ht : mostPriority ps = some top) :
    top ∈ ps ∧ ∀ p ∈ ps, p.prio ≤ top.prio :=
  SelectLemmas.top_has_max_priority ps top ht

/-- among equal (maximal) priorities it prefers the candidate with more transactions, then with less
lag: if the maximal-priority candidates' sets are totally ordered by inclusion, the top candidate's
set contains all of theirs, and no maximal-priority candidate with the same set has a smaller lag -/
theorem ties_prefer_superset_then_lag (ps : List Pos) (top : Pos) (ht : mostPriority ps = some top)
    (hwf : ∀ p ∈ ps, WF p.gtid)
    (hchain : ∀ p ∈ ps, ∀ q ∈ ps, p.prio = top.prio → q.prio = top.prio →
      GSubset p.gtid q.gtid ∨ GSubset q.gtid p.gtid) :
    ∀ p ∈ ps, p.prio = top.prio →
      GSubset p.gtid top.gtid ∧ (GSubset top.gtid p.gtid → top.lag ≤ p.lag) :=
  SelectLemmas.ties_prefer_superset_then_lag ps top ht hwf hchain

/-- with equal priorities the top candidate is the scan result of `findMostRecent…`, so with lags
within the bound the choice coincides with the most recent node -/
theorem equal_priority_is_most_recent (bound : Int) (p : Pos) (r : List Pos)
    (heq : ∀ q ∈ r, q.prio = p.prio) (hl : (scanMostRecent p r).lag ≤ bound) :
    mostDesirable bound (p :: r) = .node (scanMostRecent p r) ∧
    (detectSplitbrain (p :: r) (scanMostRecent p r) = false →
      ∃ m, findMostRecent (p :: r) = .node m ∧ m.host = (scanMostRecent p r).host) :=
  SelectLemmas.equal_priority_is_most_recent bound p r heq hl

-- non-vacuity
private def k : Key := ⟨"00000000-0000-0000-0000-000000000001", ""⟩
private def a : Pos := ⟨"a", [(k, [⟨1, 5⟩])], 100, 5⟩
private def b : Pos := ⟨"b", [(k, [⟨1, 9⟩])], 3, 0⟩
example : (match mostDesirable 60 [a, b] with | .node p => p.host | _ => "?") = "b" := by decide
example : (match mostDesirable 100 [a, b] with | .node p => p.host | _ => "?") = "a" := by decide
example : (match mostDesirable 60 (filterOutHost [a, b] "b") with | .node p => p.host | _ => "?") = "a" := by decide

end C14
