/-
C07 — resumability of a planned switchover on the world model, for every cluster size and every crash point.
PROPERTY THEOREMS ONLY (helper lemmas: MysyncProofs/Lemmas/SwitchWorldLemmas.lean).
Model: MysyncModel/App/SwitchWorld.lean (effects of the procedure's steps on servers and coordination keys; the
oracle inputs of a run are read off the world: the healed world in which the property promises completion).
-/
import MysyncModel.App.SwitchWorld
import MysyncProofs.Lemmas.SwitchWorldLemmas

namespace C07
open Switchover SwitchWorld

/-- a planned switchover to `t` in a converged cluster of any size -/
structure Planned (hosts : List String) (m t : String) : Prop where
  nodup : hosts.Nodup
  hm : m ∈ hosts
  ht : t ∈ hosts
  hne : t ≠ m

def writers (w : World) : List String := (w.srvs.filter fun (_, s) => !s.ro).map (·.1)

/-
CORRECTED STATEMENTS.  `planned_switchover_is_resumable` and `planned_switchover_completes` as first written (for
ANY `cfg` and ANY `t ∈ hosts`, no further hypothesis; kept in the comments below) are FALSE:

 (1) semi-sync with a NEGATIVE wait count: `GetFailoverQuorum = max (|l| − min (|l| / 2) w) 1 > |l|` for `w < 0`, so
     the quorum check fails with every host frozen; the run stops after the freeze and nobody is writable
     (`counterexample_negative_wait_count` below; in general `SwitchWorldLemmas.run_stalls`).  The hypothesis
     `hw : cfg.semiSync = true → 0 ≤ cfg.waitCount` is exactly what is needed (it is also necessary).
 (2) a server registered under the EMPTY name: `{ to := "" }` is the request that names no target, so the most recent
     host — the first of the list — is promoted instead (`counterexample_empty_name` below; in general
     `SwitchWorldLemmas.run_completes_unnamed`).  Hypothesis `ht0 : t ≠ ""`.

`never_two_writable` is true as first written (no extra hypothesis) and is proved unchanged.
-/

/-- RESUMABLE: whatever the cluster size, the configuration (with a wait count that is not negative) and the point at
which the first manager died (after any number `k` of its steps), the next manager's run of the pending request —
started from the world the dead manager left behind — ends with exactly one writable master, which is the requested
one and the recorded one, and every other server a read-only replica of it with replication running. -/
-- first written as (FALSE, see above):
--   theorem planned_switchover_is_resumable (cfg : Cfg) (hosts : List String) (m t : String) (h : Planned hosts m t) (k : Nat) :
--       let sw : Manager.Switch := { to := t }
--       let w1 := applyAll (converged hosts m) ((runOf cfg (converged hosts m) sw).take k)
--       let w2 := applyAll w1 (runOf cfg w1 sw)
--       canonical w2 = true ∧ w2.master = t
theorem planned_switchover_is_resumable (cfg : Cfg) (hosts : List String) (m t : String) (h : Planned hosts m t)
    (ht0 : t ≠ "") (hw : cfg.semiSync = true → 0 ≤ cfg.waitCount) (k : Nat) :
    let sw : Manager.Switch := { to := t }
    let w1 := applyAll (converged hosts m) ((runOf cfg (converged hosts m) sw).take k)
    let w2 := applyAll w1 (runOf cfg w1 sw)
    canonical w2 = true ∧ w2.master = t := by
  intro sw w1 w2
  have h2 := SwitchWorldLemmas.two_le_length h.hm h.ht h.hne
  have g0 := SwitchWorldLemmas.good_converged (hosts := hosts) h.hm
  obtain ⟨g1, _⟩ := SwitchWorldLemmas.run_prefix cfg g0 h.ht h2 (SwitchWorldLemmas.W1_converged hosts m) k
  exact SwitchWorldLemmas.run_completes cfg g1 h.ht h2 ht0 hw

/-- … and at no point of either run — the dead manager's prefix or any prefix of the successor's run — are two
servers writable (any configuration, any target) -/
theorem never_two_writable (cfg : Cfg) (hosts : List String) (m t : String) (h : Planned hosts m t) (k j : Nat) :
    let sw : Manager.Switch := { to := t }
    let w1 := applyAll (converged hosts m) ((runOf cfg (converged hosts m) sw).take k)
    (writers (applyAll w1 ((runOf cfg w1 sw).take j))).length ≤ 1 := by
  intro sw w1
  have h2 := SwitchWorldLemmas.two_le_length h.hm h.ht h.hne
  have g0 := SwitchWorldLemmas.good_converged (hosts := hosts) h.hm
  obtain ⟨g1, x, hx⟩ := SwitchWorldLemmas.run_prefix cfg g0 h.ht h2 (SwitchWorldLemmas.W1_converged hosts m) k
  obtain ⟨g2, y, hy⟩ := SwitchWorldLemmas.run_prefix cfg g1 h.ht h2 hx j
  exact SwitchWorldLemmas.W1_writers (by rw [g2.keys]; exact h.nodup) hy

/-- the uninterrupted run itself ends canonical (k = the whole run) -/
-- first written as (FALSE, see above):
--   theorem planned_switchover_completes (cfg : Cfg) (hosts : List String) (m t : String) (h : Planned hosts m t) :
--       let sw : Manager.Switch := { to := t }
--       let w := applyAll (converged hosts m) (runOf cfg (converged hosts m) sw)
--       canonical w = true ∧ w.master = t
theorem planned_switchover_completes (cfg : Cfg) (hosts : List String) (m t : String) (h : Planned hosts m t)
    (ht0 : t ≠ "") (hw : cfg.semiSync = true → 0 ≤ cfg.waitCount) :
    let sw : Manager.Switch := { to := t }
    let w := applyAll (converged hosts m) (runOf cfg (converged hosts m) sw)
    canonical w = true ∧ w.master = t := by
  intro sw w
  have h2 := SwitchWorldLemmas.two_le_length h.hm h.ht h.hne
  have g0 := SwitchWorldLemmas.good_converged (hosts := hosts) h.hm
  exact SwitchWorldLemmas.run_completes cfg g0 h.ht h2 ht0 hw

/-! #### the counterexamples to the statements as first written -/

private def cfgNeg : Cfg := { semiSync := true, waitCount := -1, async := false, asyncAllowedLag := 0, priorityChoiceMaxLag := 60 }
private def cfgOne : Cfg := { semiSync := true, waitCount := 1, async := false, asyncAllowedLag := 0, priorityChoiceMaxLag := 60 }

/-- (1) semi-sync, wait count −1, three hosts: the run stops at the quorum check (3 frozen, 4 required) with
everybody read-only -/
theorem counterexample_negative_wait_count :
    Planned ["a", "b", "c"] "a" "b" ∧
    (runOf cfgNeg (converged ["a", "b", "c"] "a") { to := "b" }).getLast? = some (.quorumCheck 3 false) ∧
    canonical (applyAll (converged ["a", "b", "c"] "a") (runOf cfgNeg (converged ["a", "b", "c"] "a") { to := "b" })) = false :=
  ⟨⟨by decide, by decide, by decide, by decide⟩, by decide +kernel, by decide +kernel⟩

/-- (2) a server registered under the empty name as the target: the request names nobody, `"a"` (first in the list)
is promoted again -/
theorem counterexample_empty_name :
    Planned ["a", "", "c"] "a" "" ∧
    (applyAll (converged ["a", "", "c"] "a") (runOf cfgOne (converged ["a", "", "c"] "a") { to := "" })).master = "a" :=
  ⟨⟨by decide, by decide, by decide, by decide⟩, by decide +kernel⟩

-- non-vacuity: three servers, every crash point of the 25-step run
private def cfgX : Cfg := { semiSync := true, waitCount := 1, async := false, asyncAllowedLag := 0, priorityChoiceMaxLag := 60 }
example : (runOf cfgX (converged ["a", "b", "c"] "a") { to := "b" }).length = 25 := by decide +kernel
example : (List.range 26).all (fun k =>
    let w1 := applyAll (converged ["a", "b", "c"] "a") ((runOf cfgX (converged ["a", "b", "c"] "a") { to := "b" }).take k)
    let w2 := applyAll w1 (runOf cfgX w1 { to := "b" })
    canonical w2 && w2.master == "b") = true := by decide +kernel

end C07
