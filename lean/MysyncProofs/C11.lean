/-
C11 — Recovery protocol keeps diverged ex-masters out until proven clean.
PROPERTY THEOREMS ONLY (helper lemmas: MysyncProofs/Lemmas/RecoveryLemmas.lean).
Models: MysyncModel/App/Recovery.lean (`checkRecovery`, `SetRecovery`, stale-master repair),
MysyncModel/App/Switchover.lean (marking before promotion), MysyncModel/App/ActiveNodes.lean (exclusion
from the list).  The clearing daemon is "that host's own mysync" by construction: `checkRecovery`
reads and clears only the mark of its own configured hostname (the model has no host parameter).
-/
import MysyncModel.App.Recovery
import MysyncModel.App.Switchover
import MysyncModel.App.ActiveNodes
import MysyncProofs.Lemmas.RecoveryLemmas
import MysyncProofs.Lemmas.GtidLemmas

namespace C11
open NS Gtid

abbrev GSubset (s m : GtidSet) : Prop := GtidLemmas.GSubset s m

/-- the old master could not be confirmed as a clean replica -/
def Unconfirmed (i : Switchover.In) (mostRecent : GtidSet) : Prop :=
  i.oldStatus = .err ∨ i.oldStatus = .notReplica ∨
  ∃ st ex, i.oldStatus = .replica st ex ∧ (st = .error ∨ isSlaveAhead (parseD ex) mostRecent = true)

/-- marking at switchover/failover: whenever the procedure gets as far as resetting the new master's
replication and the old master was not confirmed clean against the most recent position, the old
master has been marked for recovery BEFORE (and the list without it was published first) -/
theorem marked_when_unconfirmed (cfg : Switchover.Cfg) (i : Switchover.In) (ps : List Select.Pos) (mr : Select.Pos)
    (pre post : List Switchover.Step) (h : String) (ok : Bool)
    (hpos : i.positions = some ps) (hmr : Select.findMostRecent ps = .node mr)
    (hsplit : Switchover.performSwitchover cfg i = pre ++ Switchover.Step.resetSlaveAll h ok :: post)
    (hu : Unconfirmed i mr.gtid) :
    Switchover.Step.setRecovery i.oldMaster true ∈ pre := by
  exact SwitchoverLemmas.marked_when_unconfirmed cfg i ps mr pre post h ok hpos hmr hsplit hu

/-- a node found claiming to be master beside the recorded one is made read-only, taken offline, its
semi-sync switched off, re-pointed to the recorded master and marked — in that order, in the same pass -/
theorem stale_master_marked (st : NodeState) (master : String) (h : st.isMaster = true) :
    ∃ pre, Recovery.repairStaleMaster st master = pre ++ [.setOffline, .semiSyncDisable, .changeMaster master, .setRecovery] ∧
      (st.isReadOnly = false → pre = [.setReadOnly]) := by
  unfold Recovery.repairStaleMaster
  rw [h]
  refine ⟨_, rfl, fun hro => ?_⟩
  simp [hro]

theorem not_master_not_marked_here (st : NodeState) (master : String) (h : st.isMaster = false) :
    Recovery.StaleAct.setRecovery ∉ Recovery.repairStaleMaster st master := by
  unfold Recovery.repairStaleMaster
  rw [h]
  cases st.isReadOnly <;> simp

/-- `SetRecovery` removes the host from the published list FIRST and creates the mark only after that
write succeeded -/
theorem set_recovery_list_first (active : List String) (host : String) (setOk markOk : Bool) :
    let r := Recovery.setRecovery (some active) host setOk markOk
    (∀ l, Recovery.Write.setActiveNodes l ∈ r.1 → host ∉ l ∧ ∀ x, x ∈ l ↔ (x ∈ active ∧ x ≠ host)) ∧
    (Recovery.Write.createRecoveryMark host ∈ r.1 → setOk = true ∧
      r.1 = [.setActiveNodes (active.filter (· != host)), .createRecoveryMark host]) := by
  intro r
  have hr : r.1 = _ := RecoveryLemmas.setRecovery_writes active host setOk markOk
  constructor
  · intro l hl
    have : l = active.filter (· != host) := by
      rw [hr] at hl
      cases setOk <;> simpa using hl
    subst this
    exact ⟨fun hc => ((RecoveryLemmas.mem_filter_ne active host host).mp hc).2 rfl,
      fun x => RecoveryLemmas.mem_filter_ne active host x⟩
  · intro hmk
    rw [hr] at hmk ⊢
    cases setOk
    · simp at hmk
    · exact ⟨rfl, rfl⟩

/-- while marked a host is never a member of a list computed by the manager — unless it is itself the
recorded master -/
theorem marked_not_listed (delay : Int) (i : ActiveNodes.CalcIn) (host : String) (node : NodeState) (l : List String)
    (hr : i.recovery = some l) (hm : host ∈ l) (hne : host ≠ i.master) :
    (ActiveNodes.classify delay i host node).1.isMember = false := by
  exact RecoveryLemmas.classify_marked delay i host node l hr hm hne

/-- … and is never promoted by a list mysync wrote: the promoted host is the requested target, which
must be in the published list, or one of the frozen hosts, which are members of the published list -/
theorem promoted_is_listed (cfg : Switchover.Cfg) (i : Switchover.In) (h : String) (ok : Bool)
    (hs : Switchover.Step.setWritable h ok ∈ Switchover.performSwitchover cfg i)
    (hpos : ∀ ps, i.positions = some ps → ∀ p ∈ ps, p.host ∈ Switchover.frozen i) :
    h ∈ i.active := by
  exact SwitchoverLemmas.promoted_is_listed cfg i h ok hs hpos

/-- the mark is cleared only when it exists, no resetup is pending, the node is a read-only replica
whose replication is not in error and whose transactions are contained in the master's -/
theorem clear_only_if_clean (i : Recovery.In) (ok : Bool) (h : Recovery.Act.clearRecovery ok ∈ Recovery.checkRecovery i) :
    i.marked = true ∧ i.resetupFile = false ∧ i.readOnly = some true ∧
    ∃ st ex mg, i.status = .replica st ex ∧ st ≠ .error ∧ i.mgtid = some mg ∧
      isSlaveBehindOrEqual (parseD ex) (parseD mg) = true := by
  obtain ⟨hm, hf, hro, st, ex, mg, _, hs, hg, _, _, _, hpl, _⟩ := RecoveryLemmas.clear_guards i ok h
  obtain ⟨h1, h2⟩ := RecoveryLemmas.permanentlyLost_false hpl
  exact ⟨hm, hf, hro, st, ex, mg, hs, h1, hg, h2⟩

/-- in set terms (for well-formed sets): cleared ⇒ the host's transactions ⊆ the master's -/
theorem clear_means_subset (i : Recovery.In) (ok : Bool) (h : Recovery.Act.clearRecovery ok ∈ Recovery.checkRecovery i)
    (hwf : ∀ t, WF (parseD t)) :
    ∃ st ex mg, i.status = .replica st ex ∧ i.mgtid = some mg ∧ GSubset (parseD ex) (parseD mg) := by
  obtain ⟨_, _, _, st, ex, mg, _, hs, hg, _, _, _, hpl, _⟩ := RecoveryLemmas.clear_guards i ok h
  exact ⟨st, ex, mg, hs, hg,
    RecoveryLemmas.behindOrEqual_subset (hwf ex) (hwf mg) (RecoveryLemmas.permanentlyLost_false hpl).2⟩

/-- if it holds transactions the master lacks or its replication is in error, the resetup marker is
written instead and the mark stays -/
theorem resetup_if_ahead_or_error (i : Recovery.In) (st : ReplState) (ex mg master : String)
    (hm : i.marked = true) (hf : i.resetupFile = false) (hs : i.status = .replica st ex) (hma : i.master = some master)
    (hu : i.updateHostsOk = true) (hr : i.masterRegistered = true) (hg : i.mgtid = some mg) (hst : i.stuck ≠ .yes)
    (hbad : st = .error ∨ isSlaveAhead (parseD ex) (parseD mg) = true) :
    Recovery.Act.writeResetup ∈ Recovery.checkRecovery i ∧ ∀ ok, Recovery.Act.clearRecovery ok ∉ Recovery.checkRecovery i := by
  rw [RecoveryLemmas.resetup_char i st ex mg master hm hf hs hma hu hr hg hst
    (RecoveryLemmas.permanentlyLost_true hbad)]
  simp

/-- nothing at all while a resetup is pending, or when the host is not marked -/
theorem inert_when_unmarked_or_resetup (i : Recovery.In) (h : i.marked = false ∨ i.resetupFile = true) :
    Recovery.checkRecovery i = [] := by
  exact RecoveryLemmas.inert i h

/-- the mark is never cleared together with a resetup request -/
theorem clear_excludes_resetup (i : Recovery.In) (ok : Bool) (h : Recovery.Act.clearRecovery ok ∈ Recovery.checkRecovery i) :
    Recovery.Act.writeResetup ∉ Recovery.checkRecovery i := by
  rw [RecoveryLemmas.clear_char i ok h]
  intro hc
  rcases List.mem_append.mp hc with hc | hc
  · rcases RecoveryLemmas.timerActs_mem i _ hc with h | h <;> cases h
  · simp at hc

-- non-vacuity
private def good : Recovery.In := { marked := true, resetupFile := false, status := .replica .running "", master := some "m",
                                    mgtid := some "", now := 0, localHost := "x" }
-- (evaluated by the compiler, because the GTID text parser does not reduce in the kernel)
#guard Recovery.checkRecovery good = [.cleanStuckTimer, .clearRecovery true]
#guard Recovery.checkRecovery { good with status := .replica .error "" } = [.cleanStuckTimer, .writeResetup]
#guard Recovery.checkRecovery { good with status := .replica .running "00000000-0000-0000-0000-000000000001:1-5" } = [.cleanStuckTimer, .writeResetup]

end C11
