/-
C03 — Exclusive manager: one lock holder, and only the holder acts.
PROPERTY THEOREMS ONLY (helper lemmas: MysyncProofs/Lemmas/LockServer.lean, LockInv.lean, LockLemmas.lean).

(i)  the lock protocol: MysyncModel/Dcs/LockSys.lean — N clients running the SAME programs
     (`Zk.opAcquire`, `Zk.opRelease`) that the replay checks against the real `zkDCS`, one atomic
     server step per primitive, arbitrary interleaving, session expiry, reconnects, cache with any TTL.
     E5 (the server ends a session only after its client noticed the loss and while none of its
     operations is in flight) is the environment assumption of `told_true_means_holder` and
     `release_removes_only_own_lock`; both are FALSE without it (`stale_cache_without_E5`,
     `foreign_lock_removed_without_E5`, kernel-checked counter-models, see DESIGN.md).
(ii) only the holder acts: on the manager model (MysyncModel/App/Manager.lean) an iteration that is not
     told `true` takes no step at all; the two re-confirmations inside the switchover are C01's
     `promotion_order` / `promotion_needs`.  That no other state issues a cluster-wide action is a
     fact about the action alphabet of the real handlers, enforced by the replay monitor
     `C03:cluster-wide-action-without-lock` on every trace of every harness.
-/
import MysyncModel.Dcs.LockSys
import MysyncModel.App.Manager
import MysyncModel.App.Maintenance
import MysyncProofs.Lemmas.LockLemmas

namespace C03
open Zk LockSys

/-- the initial states the theorems start from: distinct non-empty identities, the lock key has a plain
existing parent and does not exist -/
def GoodInit (ids : List String) (lock : Path) (parents : List (Path × ZNode)) : Prop :=
  ids.Nodup ∧ lock ≠ [] ∧ (∀ pn ∈ parents, pn.2.owner = 0) ∧
  (lock.dropLast = [] ∨ ∃ n, (lock.dropLast, n) ∈ parents) ∧ (∀ pn ∈ parents, pn.1 ≠ lock) ∧
  (parents.map (·.1)).Nodup

/-- Every `true` — fresh or from the cache, for any TTL — is given to the process that holds the lock at
that instant: the lock znode exists, carries its identity and belongs to its live session.
(`told` grows by one entry exactly when `AcquireLock` answers `true`.) -/
theorem told_true_means_holder (ids : List String) (lock : Path) (ttl : Int) (parents : List (Path × ZNode))
    (hi : GoodInit ids lock parents) (steps : List Step) (hg : ∀ st ∈ steps, st.guarded = true) (st : Step) (hst : st.guarded = true)
    (i : Nat) (cached : Bool)
    (h : (step (run (init ids lock ttl parents) steps) st).told = (i, cached) :: (run (init ids lock ttl parents) steps).told) :
    holds (step (run (init ids lock ttl parents) steps) st) i = true := by
  have hp : LockLemmas.Par lock parents := ⟨hi.2.1, hi.2.2.1, hi.2.2.2.2.1⟩
  have hinv := LockLemmas.inv_step hp hi.1 (LockLemmas.inv_run hp hi.1 (LockLemmas.inv_init hp ttl) steps hg) st hst
  obtain ⟨c', hc', hcache⟩ := LockLemmas.told_grows_cache _ st i cached h
  rw [LockLemmas.holds_iff, hinv.core.lock_eq]
  exact ⟨c', hc', ((hinv.ok i c' hc').1 hcache).2⟩

/-- at most one process can be the holder at any instant -/
theorem holder_unique (ids : List String) (lock : Path) (ttl : Int) (parents : List (Path × ZNode))
    (hi : GoodInit ids lock parents) (steps : List Step) (hg : ∀ st ∈ steps, st.guarded = true) (i j : Nat)
    (h1 : holds (run (init ids lock ttl parents) steps) i = true) (h2 : holds (run (init ids lock ttl parents) steps) j = true) :
    i = j := by
  have hp : LockLemmas.Par lock parents := ⟨hi.2.1, hi.2.2.1, hi.2.2.2.2.1⟩
  have hinv := LockLemmas.inv_run hp hi.1 (LockLemmas.inv_init hp ttl) steps hg
  rw [LockLemmas.holds_iff, hinv.core.lock_eq] at h1 h2
  obtain ⟨ci, hci, hhi⟩ := h1
  obtain ⟨cj, hcj, hhj⟩ := h2
  exact hinv.core.holder_same hi.1 hci hcj hhi hhj

-- (holds in every state, reachable or not: `hi`, `hg` are not needed)
set_option linter.unusedVariables false in
/-- a process whose session was lost is not told `true` again unless it re-acquired: right after the
(guarded) expiry of its session it neither holds the lock nor has a cache entry, so the next `true` can
only come from a primitive executed on a new session -/
theorem after_expiry_not_holder (ids : List String) (lock : Path) (ttl : Int) (parents : List (Path × ZNode))
    (hi : GoodInit ids lock parents) (steps : List Step) (hg : ∀ st ∈ steps, st.guarded = true) (i : Nat) (c : Client)
    (hc : (run (init ids lock ttl parents) steps).clients[i]? = some c)
    (he : step (run (init ids lock ttl parents) steps) (.expire i) ≠ run (init ids lock ttl parents) steps) :
    let σ' := step (run (init ids lock ttl parents) steps) (.expire i)
    holds σ' i = false ∧ (∀ c', σ'.clients[i]? = some c' → c'.cache = none) := by
  exact LockLemmas.expire_not_holder _ i c hc he

-- (holds in every state, reachable or not: `hi`, `hg` are not needed)
set_option linter.unusedVariables false in
/-- the same when the session ends in the middle of an `AcquireLock` of that process (`Step.expireAcq`, the weaker form
of E5): right after it the process neither holds the lock nor has a cache entry; the `AcquireLock` in flight can only
answer `true` from a primitive executed on a new session (`told_true_means_holder` covers that answer) -/
theorem after_expiry_during_acquire_not_holder (ids : List String) (lock : Path) (ttl : Int) (parents : List (Path × ZNode))
    (hi : GoodInit ids lock parents) (steps : List Step) (hg : ∀ st ∈ steps, st.guarded = true) (i : Nat) (c : Client)
    (hc : (run (init ids lock ttl parents) steps).clients[i]? = some c)
    (he : step (run (init ids lock ttl parents) steps) (.expireAcq i) ≠ run (init ids lock ttl parents) steps) :
    let σ' := step (run (init ids lock ttl parents) steps) (.expireAcq i)
    holds σ' i = false ∧ (∀ c', σ'.clients[i]? = some c' → c'.cache = none) := by
  exact LockLemmas.expireAcq_not_holder _ i c hc he

/-- releasing never removes a lock owned by another process: whenever a `delete` of the lock key is
executed for client i, the znode it removes (if any) carries i's identity -/
theorem release_removes_only_own_lock (ids : List String) (lock : Path) (ttl : Int) (parents : List (Path × ZNode))
    (hi : GoodInit ids lock parents) (steps : List Step) (hg : ∀ st ∈ steps, st.guarded = true) (i : Nat) (c : Client)
    (ver : Int) (k : Resp → Prog Res)
    (hc : (run (init ids lock ttl parents) steps).clients[i]? = some c)
    (hp : c.prog = some (.call (.delete lock ver) k)) :
    lockData (run (init ids lock ttl parents) steps) = some c.id ∨ lockData (run (init ids lock ttl parents) steps) = none := by
  have hp' : LockLemmas.Par lock parents := ⟨hi.2.1, hi.2.2.1, hi.2.2.2.2.1⟩
  have hinv := LockLemmas.inv_run hp' hi.1 (LockLemmas.inv_init hp' ttl) steps hg
  left
  rcases (hinv.ok i c hc).2 with (h2 | h2 | h2 | h2 | ⟨m, h2, _⟩) | ⟨m, ver', _, _, n, hf, hd, _, _⟩
  · rw [h2] at hp; cases hp
  · rw [h2] at hp; cases hp
  · rw [h2] at hp; simp at hp
  · rw [h2] at hp; simp at hp
  · rw [h2] at hp; simp at hp
  · unfold lockData
    rw [hinv.core.lock_eq, hf, ← hd]
    rfl

/-- no lock without asking the server within the TTL: a cached `true` was preceded by a confirmation at
most `ttl` ago — with TTL 0 the cache never answers -/
theorem ttl_zero_never_cached (ids : List String) (lock : Path) (parents : List (Path × ZNode)) (steps : List Step) (i : Nat) :
    (i, true) ∉ (run (init ids lock 0 parents) steps).told := by
  exact (LockLemmas.ttl_run (LockLemmas.ttl_init ids lock parents) steps).2.2 i

/-! ### the role of E5: counter-models without it (both replayed on the real client, see DESIGN.md) -/

def twoClients : Sys := init ["A", "B"] ["ns", "manager"] 30 [(["ns"], { data := "" })]

/-- the server ends A's session before A noticed: B acquires, A is still told `true` from its cache -/
theorem stale_cache_without_E5 :
    let σ := run twoClients [.beginAcquire 0, .prim 0, .prim 0, .expireAny 0, .beginAcquire 1, .prim 1, .prim 1, .tick 1, .beginAcquire 0]
    σ.told.head? = some (0, true) ∧ holds σ 0 = false ∧ holds σ 1 = true := by
  decide

/-- A's session ends between the read and the delete of its `ReleaseLock`; B acquires; A's delete — sent
on A's next session — removes B's lock (lock znodes are never `set`, so their version is always 0) -/
theorem foreign_lock_removed_without_E5 :
    let σ0 := run twoClients [.beginAcquire 0, .prim 0, .prim 0, .beginRelease 0, .prim 0, .expireAny 0, .event 0, .reconnect 0,
                               .beginAcquire 1, .prim 1, .prim 1]
    let σ1 := step σ0 (.prim 0)
    holds σ0 1 = true ∧ lockData σ0 = some "B" ∧ lockData σ1 = none ∧ (σ1.clients[1]?.bind (·.cache)).isSome = true := by
  decide

/-- Why `ReleaseLock` must re-read the owner before EVERY delete attempt (it did not before the `fix:` commit
recorded in known_findings.json — found by this check on the real client): lock znodes are created fresh and
never `set`, so their version is always 0; a delete that was applied but whose reply was lost, re-sent blindly
after another process acquired the lock, removes that process's lock — no session expiry needed. -/
theorem blind_retried_delete_removes_foreign_lock :
    let lock : Path := ["ns", "manager"]
    let s0 : Server := { nodes := [(["ns"], { data := "" })], live := [1, 2] }
    let s1 := (s0.step 1 (.create lock "A" true)).1          -- A holds the lock
    let s2 := (s1.step 1 (.delete lock 0)).1                 -- A releases: applied, reply lost
    let s3 := (s2.step 2 (.create lock "B" true)).1          -- B acquires
    (s3.find? lock).map (·.data) = some "B" ∧
    (s3.step 1 (.delete lock 0)) = (s2, .deleted) := by      -- A's re-sent delete removes B's lock
  decide

/-! ### (ii) only the holder acts -/

/-- an iteration that is not told `true` (or has no connection) does nothing and steps down -/
theorem no_lock_no_action (cfg : Manager.Cfg) (i : Manager.In) (h : i.connected = false ∨ i.lockHeld = false) :
    (Manager.stateManager cfg i).steps = [] ∧ (Manager.stateManager cfg i).next ≠ Manager.State.manager := by
  unfold Manager.stateManager
  rcases h with h | h
  · simp [h]
  · cases hc : i.connected <;> simp [h]

/-- the maintenance handler leaves the mode — i.e. writes the master key, repairs the cluster, rebuilds the active list,
deletes the maintenance record — only if it was told it holds the lock; without the lock it only touches its own
marker file and steps back to candidate -/
theorem leaving_maintenance_needs_the_lock (maintFile : Bool) (maint : Manager.MaintRead) (i : Maintenance.LeaveIn) :
    ∀ a ∈ (Maintenance.stateMaintenance maintFile maint false i).1, a = Maintenance.Act.writeMaintFile ∨ a = Maintenance.Act.removeMaintFile := by
  intro a ha
  unfold Maintenance.stateMaintenance Maintenance.tryLeave at ha
  cases maint <;> cases maintFile <;> simp at ha <;> (try split at ha) <;> simp_all

/-- the candidate and first-run handlers return a state and nothing else: their models have no action at all (their
real counterparts are compared with these models on every run of the maintenance harness, and the simulation's
monitor `C03:cluster-wide-action-without-lock` watches every statement and coordination write of every daemon) -/
theorem candidate_only_changes_state (connected upd lock : Bool) (maint : Manager.MaintRead) :
    Maintenance.stateCandidate connected upd maint lock = Manager.State.manager → lock = true := by
  intro h
  unfold Maintenance.stateCandidate at h
  cases connected <;> cases upd <;> cases lock <;> cases maint <;> simp_all
  all_goals (split at h <;> simp_all)


-- non-vacuity: the guarded system does reach states with a holder, a cache entry and a hand-over
example : holds (run twoClients [.beginAcquire 0, .prim 0, .prim 0]) 0 = true := by decide
example : (run twoClients [.beginAcquire 0, .prim 0, .prim 0, .beginRelease 0, .prim 0, .prim 0, .beginAcquire 1, .prim 1, .prim 1]).told
    = [(1, false), (0, false)] := by decide
-- … and `expireAcq` does fire in the middle of an AcquireLock: A's create was applied (reply lost, A is the server-side holder
-- without knowing), A's session ends, the znode goes with it; B acquires; A's re-sent create on its next session is refused
example :
    let σ0 := run twoClients [.beginAcquire 0, .prim 0, .primLostRetry 0]
    let σ := run σ0 [.expireAcq 0, .beginAcquire 1, .prim 1, .prim 1, .reconnect 0, .prim 0]
    holds σ0 0 = true ∧ lockData (step σ0 (.expireAcq 0)) = none ∧ σ.told = [(1, false)] ∧ holds σ 0 = false ∧ holds σ 1 = true := by
  decide

end C03
