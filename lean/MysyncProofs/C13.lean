/-
C13 — GTID relations and split-brain detection agree with set semantics.
PROPERTY THEOREMS ONLY (helper lemmas live in MysyncProofs/Lemmas/GtidLemmas.lean).
-/
import MysyncModel.Gtid
import MysyncModel.Select
import MysyncProofs.Lemmas.GtidLemmas
import MysyncProofs.Lemmas.NormalizeLemmas

namespace C13
open Gtid Select GtidLemmas

/-- `s ⊆ m` as sets of transactions -/
abbrev GSubset (s m : GtidSet) : Prop := GtidLemmas.GSubset s m

/-- interval level: `Contain` is set inclusion on normalised lists -/
theorem ivContain_iff_subset (s sub : IvList) (hs : Normal s) (hsub : Normal sub) :
    ivContain s sub = true ↔ ∀ x, IvList.Mem x sub → IvList.Mem x s :=
  GtidLemmas.ivContain_iff s sub hs hsub

/-- `m.Contain(s)` holds exactly when `s ⊆ m` -/
theorem contain_iff_subset (m s : GtidSet) (hm : WF m) (hs : WF s) :
    contain m s = true ↔ GSubset s m :=
  GtidLemmas.contain_iff m s hm hs

/-- `Equal` implies equality of the sets of transactions -/
theorem equal_imp_same (m s : GtidSet) (hm : WF m) (hs : WF s) (h : equal m s = true) :
    GSubset s m ∧ GSubset m s :=
  GtidLemmas.equal_imp m s hm hs h

/-- 'behind or equal' holds exactly when the replica's set is a subset of the source's -/
theorem behind_iff_subset (slave master : GtidSet) (hm : WF master) (hs : WF slave) :
    isSlaveBehindOrEqual slave master = true ↔ GSubset slave master := by
  unfold isSlaveBehindOrEqual
  constructor
  · intro h
    rcases Bool.or_eq_true _ _ ▸ h with h | h
    · exact (contain_iff_subset master slave hm hs).mp h
    · exact (equal_imp_same master slave hm hs h).1
  · intro h
    simp [(contain_iff_subset master slave hm hs).mpr h]

/-- … and 'ahead' is its negation -/
theorem ahead_iff_not_subset (slave master : GtidSet) (hm : WF master) (hs : WF slave) :
    isSlaveAhead slave master = true ↔ ¬ GSubset slave master := by
  unfold isSlaveAhead
  rw [← behind_iff_subset slave master hm hs]
  cases isSlaveBehindOrEqual slave master <;> simp

/-- interval subtraction: the result is normalised and denotes the set difference -/
theorem ivMinus_spec (a b : IvList) (ha : Normal a) (hb : Normal b) :
    Normal (ivMinus a b) ∧ ∀ x, IvList.Mem x (ivMinus a b) ↔ (IvList.Mem x a ∧ ¬ IvList.Mem x b) :=
  GtidLemmas.ivMinus_spec a b ha hb

/-- set subtraction: well-formed result denoting the set difference -/
theorem gtidMinus_spec (a b : GtidSet) (ha : WF a) (hb : WF b) :
    WF (gtidMinus a b) ∧ ∀ k x, (gtidMinus a b).Mem k x ↔ (a.Mem k x ∧ ¬ b.Mem k x) :=
  GtidLemmas.gtidMinus_spec a b ha hb

/-- the textual difference names exactly the two set differences: the classification is decided by
which of the two differences is empty, and the two printed sets are those differences -/
theorem gtidDiff_classifies (replica source : GtidSet) (hr : WF replica) (hs : WF source) :
    let (c, dSrc, dRep) := gtidDiff replica source
    (∀ k x, dSrc.Mem k x ↔ (source.Mem k x ∧ ¬ replica.Mem k x)) ∧
    (∀ k x, dRep.Mem k x ↔ (replica.Mem k x ∧ ¬ source.Mem k x)) ∧
    (c = .equal ↔ (GSubset source replica ∧ GSubset replica source)) ∧
    (c = .sourceAhead ↔ (¬ GSubset source replica ∧ GSubset replica source)) ∧
    (c = .replicaAhead ↔ (GSubset source replica ∧ ¬ GSubset replica source)) ∧
    (c = .splitBrain ↔ (¬ GSubset source replica ∧ ¬ GSubset replica source)) :=
  GtidLemmas.gtidDiff_classifies replica source hr hs

/-- a replica whose set is a subset of the master's is never reported split-brained -/
theorem splitbrain_sound (slave master : GtidSet) (u : String) (hm : WF master) (hs : WF slave)
    (h : GSubset slave master) : isSplitBrained slave master u = false :=
  GtidLemmas.splitbrain_sound slave master u hm hs h

/-- a replica holding a transaction that the master lacks and that did not originate on the master
is always reported split-brained -/
theorem splitbrain_complete (slave master : GtidSet) (u : String) (hm : WF master) (hs : WF slave)
    (h : ∃ k x, slave.Mem k x ∧ ¬ master.Mem k x ∧ k.sid ≠ u) : isSplitBrained slave master u = true :=
  GtidLemmas.splitbrain_complete slave master u hm hs h

/-- Choosing the most recent of several nodes returns a node whose set contains all the others', or
reports split brain exactly when no such node exists (and never panics on a non-empty list). -/
theorem mostRecent_is_max_or_splitbrain (ps : List Pos) (hne : ps ≠ []) (hwf : ∀ p ∈ ps, WF p.gtid) :
    match findMostRecent ps with
    | .panic => False
    | .node m => m ∈ ps ∧ ∀ p ∈ ps, GSubset p.gtid m.gtid
    | .splitBrain => ¬ ∃ m ∈ ps, ∀ p ∈ ps, GSubset p.gtid m.gtid :=
  GtidLemmas.mostRecent_spec ps hne hwf

/-- `IntervalSlice.Normalize` (sort, then merge touching or overlapping intervals) keeps exactly the
numbers it was given — for ANY input: unsorted, overlapping, duplicated or empty intervals -/
theorem normalize_same_numbers (l : IvList) (x : Int) : IvList.Mem x (normalize l) ↔ IvList.Mem x l :=
  GtidLemmas.mem_normalize x l

/-- `MysqlGTIDSet.Update` (how executed and retrieved sets are joined into one position) adds, key by
key, exactly the transactions of every entry of its argument and loses none of the receiver -/
theorem update_adds_exactly (s o : GtidSet) (k : Key) (x : Int) :
    (update s o).Mem k x ↔ (s.Mem k x ∨ ∃ l, (k, l) ∈ o ∧ IvList.Mem x l) :=
  GtidLemmas.mem_update s o k x

/-- ... hence it is set union whenever the argument has one entry per key (parser output) -/
theorem update_is_union (s o : GtidSet) (ho : (keys o).Nodup) (k : Key) (x : Int) :
    (update s o).Mem k x ↔ (s.Mem k x ∨ o.Mem k x) :=
  GtidLemmas.update_union s o ho k x

/-- both operands are below the union (what C01 needs of executed ∪ retrieved) -/
theorem update_upper_bound (s o : GtidSet) (ho : (keys o).Nodup) :
    GSubset s (update s o) ∧ GSubset o (update s o) :=
  ⟨fun k x h => (update_is_union s o ho k x).mpr (Or.inl h),
   fun k x h => (update_is_union s o ho k x).mpr (Or.inr h)⟩

/-- `Normalize` of non-empty intervals is the normal form the other theorems assume -/
theorem normalize_is_normal (l : IvList) (h : ∀ j ∈ l, j.start < j.stop) : Normal (normalize l) :=
  GtidLemmas.normal_normalize l h

/-- a joined position is well-formed again, so `Contain`/behind/ahead/split-brain keep their set
meaning on executed ∪ retrieved -/
theorem update_keeps_wf (s o : GtidSet) (hs : WF s) (ho : WF o) : WF (update s o) :=
  GtidLemmas.wf_update s o hs ho.2

/-- corollary: a node is behind-or-equal the join of two sets iff each of its transactions is in one
of them -/
theorem behind_union_iff (slave a b : GtidSet) (hs : WF slave) (ha : WF a) (hb : WF b) :
    isSlaveBehindOrEqual slave (update a b) = true ↔ ∀ k x, slave.Mem k x → (a.Mem k x ∨ b.Mem k x) := by
  rw [behind_iff_subset slave (update a b) (update_keeps_wf a b ha hb) hs]
  constructor
  · intro h k x hm; exact (update_is_union a b hb.1 k x).mp (h k x hm)
  · intro h k x hm; exact (update_is_union a b hb.1 k x).mpr (h k x hm)

/-- the join does not depend on the order of its operands, and joining a set with itself or with a
subset adds nothing (as sets of transactions) -/
theorem update_comm (a b : GtidSet) (ha : WF a) (hb : WF b) (k : Key) (x : Int) :
    (update a b).Mem k x ↔ (update b a).Mem k x := by
  rw [update_is_union a b hb.1, update_is_union b a ha.1]; exact Or.comm

theorem update_absorbs_subset (a b : GtidSet) (hb : WF b) (h : GSubset b a) (k : Key) (x : Int) :
    (update a b).Mem k x ↔ a.Mem k x := by
  rw [update_is_union a b hb.1]
  exact ⟨fun h' => h'.elim id (h k x), Or.inl⟩

-- non-vacuity: concrete well-formed sets, one a strict subset of the other, one diverged
private def u1 : Key := ⟨"00000000-0000-0000-0000-000000000001", ""⟩
private def u2 : Key := ⟨"00000000-0000-0000-0000-000000000002", ""⟩
example : isSlaveBehindOrEqual [(u1, [⟨1, 5⟩])] [(u1, [⟨1, 9⟩]), (u2, [⟨1, 3⟩, ⟨5, 6⟩])] = true := by decide
example : isSplitBrained [(u1, [⟨1, 5⟩]), (u2, [⟨1, 4⟩])] [(u1, [⟨1, 9⟩]), (u2, [⟨1, 3⟩])] u1.sid = true := by decide
example : ivMinus [⟨1, 5⟩, ⟨6, 10⟩] [⟨3, 8⟩] = [⟨1, 3⟩, ⟨8, 10⟩] := by decide
example : Normal [⟨1, 5⟩, ⟨6, 10⟩] ∧ Normal [⟨3, 8⟩] := by decide

example : normalize [⟨6, 10⟩, ⟨1, 5⟩, ⟨5, 6⟩, ⟨2, 3⟩] = [⟨1, 10⟩] := by decide
example : update [(u1, [⟨1, 5⟩])] [(u1, [⟨3, 9⟩]), (u2, [⟨1, 2⟩])] = [(u1, [⟨1, 9⟩]), (u2, [⟨1, 2⟩])] := by decide

end C13
