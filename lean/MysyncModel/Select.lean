/-
Candidate selection (internal/app/util.go): `findMostRecentNodeAndDetectSplitbrain`,
`detectSplitbrain`, `getMostPriorityNode`, `getMostDesirableNode`, `filterOutNodeFromPositions`.

Lags are `float64` seconds in Go; the code only compares and subtracts them, the model uses `Int`
(the harness feeds milliseconds; unknown lag is the code's own 99999999 s).
-/
import MysyncModel.Gtid

namespace Select
open Gtid

structure Pos where
  host : String
  gtid : GtidSet
  lag  : Int
  prio : Int
  deriving Repr, Inhabited

/-- one step of the scan of `findMostRecentNodeAndDetectSplitbrain` (and of the equal-priority
branch of `getMostPriorityNode`): `p` replaces `maxPos` if its set is equal and its lag smaller, or
if its set is different and contains `maxPos`'s -/
def pickBetter (maxPos p : Pos) : Pos :=
  if equal p.gtid maxPos.gtid then (if p.lag < maxPos.lag then p else maxPos)
  else if contain p.gtid maxPos.gtid then p else maxPos

def scanMostRecent (first : Pos) (rest : List Pos) : Pos := rest.foldl pickBetter first

/-- `detectSplitbrain` -/
def detectSplitbrain (ps : List Pos) (sel : Pos) : Bool := ps.any fun n => !contain sel.gtid n.gtid

inductive MostRecent
  | panic                         -- `positions[0]` on an empty slice
  | splitBrain
  | node (p : Pos)
  deriving Repr

/-- `findMostRecentNodeAndDetectSplitbrain` -/
def findMostRecent : List Pos → MostRecent
  | [] => .panic
  | p :: r =>
    let m := scanMostRecent p r
    if detectSplitbrain (p :: r) m then .splitBrain else .node m

def priorityStep (maxPos p : Pos) : Pos :=
  if maxPos.prio < p.prio then p
  else if maxPos.prio == p.prio then pickBetter maxPos p
  else maxPos

/-- `getMostPriorityNode` -/
def mostPriority : List Pos → Option Pos
  | [] => none
  | p :: r => some (r.foldl priorityStep p)

/-- `filterOutNodeFromPositions` -/
def filterOutHost (ps : List Pos) (h : String) : List Pos := ps.filter fun p => p.host != h

inductive Desirable
  | notFound                      -- "destination node not found"
  | outOfFuel                     -- the Go recursion would not have terminated within `fuel` steps
  | node (p : Pos)
  deriving Repr

/-- `getMostDesirableNode`; `fuel` bounds the recursion depth (the theorem `desirable_terminates`
shows that `ps.length + 1` always suffices when `bound ≥ 0`) -/
def mostDesirableFuel (bound : Int) : Nat → List Pos → Desirable
  | 0, _ => .outOfFuel
  | fuel + 1, ps =>
    match mostPriority ps with
    | none => .notFound
    | some top =>
      if top.lag ≤ bound then .node top
      else
        let more := ps.filter fun n => n.lag < top.lag - bound
        if more.isEmpty then .node top
        else mostDesirableFuel bound fuel more

def mostDesirable (bound : Int) (ps : List Pos) : Desirable := mostDesirableFuel bound (ps.length + 1) ps

end Select
