/-
C02 — the safety half as a protocol-level state machine, for histories of any length.

State: the published list, the current master, what every host has received (executed ∪ retrieved), the set
of acknowledged transactions.  Steps:
  * `commit t A`   : the master writes `t`; the replicas in `A` receive and acknowledge it; the client is told.
                     Enabled only under what C04 (a),(b) guarantee for a published list: the acknowledging replicas
                     are list members and there are at least `req l` of them.
  * `replicate h T`: a replica receives transactions the master has.
  * `failover n F` : the frozen set `F` passes the quorum re-count against the published list (C01/C12) and the
                     promoted node `n ∈ F` has caught up with every frozen node (C01) — then `n` is the master.
The list does not change inside this machine: a list change is governed by C04 and — as soon as it is combined
with a second fault — is outside C02's single-fault budget (DESIGN.md §6, C02).
Transactions are natural numbers, hosts are strings, sets are duplicate-free lists (`List.Nodup`).
-/
import MysyncModel.Generated.SwitchHelper

namespace Safety
open Gen.SwitchHelper

abbrev Host := String
abbrev Txn := Nat

structure St where
  l : List Host                      -- published list (contains the master)
  m : Host                           -- current master
  recv : Host → List Txn             -- received by each host
  acked : List Txn

inductive Step
  | commit (t : Txn) (A : List Host)
  | replicate (h : Host) (T : List Txn)
  | failover (n : Host) (F : List Host)

def has (σ : St) (h : Host) (t : Txn) : Bool := (σ.recv h).contains t

def add (σ : St) (hs : List Host) (ts : List Txn) : Host → List Txn :=
  fun h => if hs.contains h then σ.recv h ++ ts else σ.recv h

/-- enabling conditions (what the component properties guarantee) -/
def enabled (sh : SwitchHelper) (σ : St) : Step → Bool
  | .commit _ A =>
    A.all (fun a => σ.l.contains a && a != σ.m) && decide (A.eraseDups.length = A.length) &&
    decide (GetRequiredWaitSlaveCount sh σ.l ≤ (A.length : Int))
  | .replicate h T => h != σ.m && T.all (fun t => has σ σ.m t)
  | .failover n F =>
    F.all (fun f => σ.l.contains f) && decide (F.eraseDups.length = F.length) && F.contains n &&
    decide (GetFailoverQuorum sh σ.l ≤ (F.length : Int)) &&
    F.all (fun f => (σ.recv f).all fun t => has σ n t)

def step (sh : SwitchHelper) (σ : St) (s : Step) : St :=
  if !enabled sh σ s then σ else
  match s with
  | .commit t A => { σ with recv := add σ (σ.m :: A) [t], acked := t :: σ.acked }
  | .replicate h T => { σ with recv := add σ [h] T }
  | .failover n _ => { σ with m := n }

def run (sh : SwitchHelper) (σ : St) (steps : List Step) : St := steps.foldl (step sh) σ

/-- the property: nothing acknowledged is missing on the current master -/
def AckedOnMaster (σ : St) : Prop := ∀ t ∈ σ.acked, has σ σ.m t = true

end Safety
