/-
C02 / C07 — the end-state predicates of the cluster-level properties, over a digest of the servers
(ground truth read off the fake servers by the simulation) and the recorded master.
-/
import MysyncModel.GtidParse

namespace Cluster
open Gtid

structure Srv where
  host : String
  alive : Bool
  readOnly : Bool
  isReplica : Bool
  source : String
  executed : String          -- GTID text
  ha : Bool                  -- registered HA member (not a cascade replica)
  deriving Repr, DecidableEq

/-- exactly one writable master which is the recorded master; every reachable HA replica is read-only and
replicates from it -/
def canonical (recorded : String) (srvs : List Srv) : Bool :=
  match srvs.find? (·.host == recorded) with
  | none => false
  | some m =>
    m.alive && !m.readOnly &&
    srvs.all fun s => s.host == recorded || !s.alive || !s.ha || (s.readOnly && s.isReplica && s.source == recorded)

/-- every acknowledged transaction is present on the recorded master -/
def ackedPreserved (recorded : String) (srvs : List Srv) (acked : String) : Bool :=
  match srvs.find? (·.host == recorded) with
  | none => false
  | some m => contain (parseD m.executed) (parseD acked)

/-- writable servers among the reachable ones -/
def writers (srvs : List Srv) : List String := (srvs.filter fun s => s.alive && !s.readOnly).map (·.host)

end Cluster
