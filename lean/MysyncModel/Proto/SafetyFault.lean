/-
C02 — the safety half as a protocol-level state machine WITH list changes, under the property's single-fault budget.

`Proto/Safety.lean` fixes the published list and lets any quorum-passing set freeze (any number of unreachable hosts).
Here the list changes (hosts are evicted and re-admitted) and at most one host is faulty at a time — the budget C02
speaks about.  State: the registered hosts, the published list, the master, what every host has received, the set of
acknowledged transactions and the faulty host (crashed or cut off: it takes part in nothing until it is healed).

Steps and their enabling conditions (each is what a component property establishes for the code):
  * `commit t A`   : the master (not faulty) writes `t`; the replicas in `A` — listed, not faulty, distinct, at least
                     `GetRequiredWaitSlaveCount l` of them — receive and acknowledge it (C04 a, b).
  * `replicate h T`: a replica that is not faulty receives transactions from a master that is not faulty.
  * `publish l'`   : the manager (needs the master) publishes a new list: it contains the master, only registered hosts,
                     no duplicates; only the faulty host may be dropped; a host is admitted only if it is not faulty and —
                     `joinGuard` — has received every acknowledged transaction.  The code does NOT enforce the join guard
                     (known finding C04 "published-list-counts-a-data-lagging-replica…"): with `joinGuard := false` the
                     machine loses a transaction (`C02Fault.witness_loss_without_join_guard`).
  * `failover n F` : `F` = the frozen hosts: listed, distinct, none faulty, EVERY listed host that is not faulty is in
                     it (single fault: nothing else fails to freeze), the quorum re-count passes (C01 / C12), `n ∈ F` has
                     caught up with every frozen host (C01).  A planned switchover is the same step with the old master in `F`.
  * `die h`        : a host becomes faulty — only when nobody is; the MASTER only when the cluster has converged, i.e. every
                     registered host is back in the list (the property's "starting from a converged cluster").
  * `heal`         : the faulty host is back (with everything it had received).
Transactions are natural numbers, hosts are strings, sets are duplicate-free lists.
-/
import MysyncModel.Generated.SwitchHelper

namespace SafetyF
open Gen.SwitchHelper

abbrev Host := String
abbrev Txn := Nat

structure St where
  hosts : List Host                  -- registered HA hosts
  l : List Host                      -- published list
  m : Host                           -- current master
  recv : Host → List Txn             -- received by each host
  acked : List Txn
  dead : Option Host := none         -- the faulty host

inductive Step
  | commit (t : Txn) (A : List Host)
  | replicate (h : Host) (T : List Txn)
  | publish (l' : List Host)
  | failover (n : Host) (F : List Host)
  | die (h : Host)
  | heal

def has (σ : St) (h : Host) (t : Txn) : Bool := (σ.recv h).contains t
def alive (σ : St) (h : Host) : Bool := σ.dead != some h

def add (σ : St) (hs : List Host) (ts : List Txn) : Host → List Txn :=
  fun h => if hs.contains h then σ.recv h ++ ts else σ.recv h

def nodupB (l : List Host) : Bool := decide (l.eraseDups.length = l.length)

/-- enabling conditions -/
def enabled (sh : SwitchHelper) (joinGuard : Bool) (σ : St) : Step → Bool
  | .commit _ A =>
    alive σ σ.m &&
    A.all (fun a => σ.l.contains a && a != σ.m && alive σ a) && nodupB A &&
    decide (GetRequiredWaitSlaveCount sh σ.l ≤ (A.length : Int))
  | .replicate h T => h != σ.m && alive σ h && alive σ σ.m && T.all (fun t => has σ σ.m t)
  | .publish l' =>
    alive σ σ.m && l'.contains σ.m && l'.all (fun h => σ.hosts.contains h) && nodupB l' &&
    σ.l.all (fun h => l'.contains h || !alive σ h) &&
    l'.all (fun h => σ.l.contains h || (alive σ h && (!joinGuard || σ.acked.all fun t => has σ h t)))
  | .failover n F =>
    F.all (fun f => σ.l.contains f && alive σ f) && nodupB F && F.contains n &&
    σ.l.all (fun h => F.contains h || !alive σ h) &&
    decide (GetFailoverQuorum sh σ.l ≤ (F.length : Int)) &&
    F.all (fun f => (σ.recv f).all fun t => has σ n t)
  | .die h => σ.dead.isNone && σ.hosts.contains h && (h != σ.m || σ.hosts.all fun x => σ.l.contains x)
  | .heal => true

def step (sh : SwitchHelper) (joinGuard : Bool) (σ : St) (s : Step) : St :=
  if !enabled sh joinGuard σ s then σ else
  match s with
  | .commit t A => { σ with recv := add σ (σ.m :: A) [t], acked := t :: σ.acked }
  | .replicate h T => { σ with recv := add σ [h] T }
  | .publish l' => { σ with l := l' }
  | .failover n _ => { σ with m := n }
  | .die h => { σ with dead := some h }
  | .heal => { σ with dead := none }

def run (sh : SwitchHelper) (joinGuard : Bool) (σ : St) (steps : List Step) : St := steps.foldl (step sh joinGuard) σ

/-- the property: nothing acknowledged is missing on the current master -/
def AckedOnMaster (σ : St) : Prop := ∀ t ∈ σ.acked, has σ σ.m t = true

end SafetyF
