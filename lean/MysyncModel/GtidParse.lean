/-
Text form of GTID sets (`ParseMysqlGTIDSet`, library code, T6) — used by the procedure models whose
inputs are the strings mysync reads from servers and from the coordination service.
`parse` returns `none` where the library returns an error (mysync's `ParseGtidSet` panics then).
-/
import MysyncModel.Gtid

namespace Gtid

def isTagStart (c : Char) : Bool := c.isAlpha || c == '_'
def isTagChar (c : Char) : Bool := c.isAlphanum || c == '_'

/-- `tagRegexp` : `^\s*[a-zA-Z_][a-zA-Z0-9_]{0,31}\s*$` -/
def isTag (s : String) : Bool :=
  let t := s.trimAscii.toString.toList
  match t with
  | [] => false
  | c :: r => isTagStart c && r.all isTagChar && r.length ≤ 31

def parseInterval (s : String) : Option Interval :=
  match s.splitOn "-" with
  | [a] => match a.trimAscii.toString.toNat? with
    | some n => if n ≥ 1 then some ⟨n, n + 1⟩ else none
    | none => none
  | [a, b] => match a.trimAscii.toString.toNat?, b.trimAscii.toString.toNat? with
    | some n, some m => if n ≥ 1 ∧ m ≥ n then some ⟨n, m + 1⟩ else none
    | _, _ => none
  | _ => none

def addIv (s : GtidSet) (k : Key) (iv : Interval) : GtidSet :=
  match lookup s k with
  | none => s ++ [(k, [iv])]
  | some _ => s.map fun (k', l) => if k' = k then (k', l ++ [iv]) else (k', l)

/-- one comma-separated part: `uuid[:tag]:interval[:interval…][:tag:interval…]` -/
def parsePart (acc : GtidSet) (part : String) : Option GtidSet :=
  match part.trimAscii.toString.splitOn ":" with
  | [] => none
  | [_] => none
  | sid :: rest =>
    let sid := sid.toLower
    let rec go (acc : GtidSet) (tag : String) : List String → Option GtidSet
      | [] => some acc
      | x :: r =>
        if isTag x then go acc x.trimAscii.toString.toLower r
        else match parseInterval x with
          | some iv => go (addIv acc ⟨sid, tag⟩ iv) tag r
          | none => none
    go acc "" rest

def parse (text : String) : Option GtidSet :=
  let text := (text.replace "\n" "")
  if text.trimAscii.toString == "" then some [] else
  match (text.splitOn ",").foldlM parsePart [] with
  | none => none
  | some s => some (s.map fun (k, l) => (k, normalize l))

/-- parse, with the empty set for unparsable text (only used where the harness guarantees valid text;
the replayer reports unparsable inputs separately) -/
def parseD (text : String) : GtidSet := (parse text).getD []

end Gtid
