/-
Replay of one run of the cluster simulation (kind "simrun"): N real daemons, one fault, healing.
The verdict predicates are the Lean definitions of MysyncModel/Proto/Cluster.lean evaluated on the ground
truth of the fake servers; the GTID containment is the verified one (C13).
-/
import MysyncModel.Replay.Util
import MysyncModel.Proto.Cluster

namespace Replay.Sim
open Lean Cluster

def jStrOr (j : Json) (k : String) (d : String) : String := (jStr j k).toOption.getD d
def jBoolOr (j : Json) (k : String) (d : Bool) : Bool := (jBool j k).toOption.getD d
def jIntOr (j : Json) (k : String) (d : Int) : Int := (jInt j k).toOption.getD d
def strList (j : Json) (k : String) : List String :=
  match j.getObjVal? k with
  | .ok (.arr a) => a.toList.filterMap fun x => x.getStr?.toOption
  | _ => []

def handle : Handler := fun j a => do
  let cfg ← j.getObjVal? "cfg"
  let hosts ← jStrList j "hosts"
  let recorded ← jStr j "master_key"
  let fin ← jArr j "final"
  let srvs : List Srv := fin.toList.map fun d =>
    { host := jStrOr d "host" "", alive := jBoolOr d "alive" false, readOnly := jBoolOr d "ro" false || jBoolOr d "sro" false,
      isReplica := jBoolOr d "is_replica" false, source := jStrOr d "source" "", executed := jStrOr d "executed" "",
      ha := hosts.contains (jStrOr d "host" "") }
  let fault := jStrOr cfg "fault" ""
  let target := jStrOr cfg "target" ""
  let request := jStrOr cfg "request" ""
  let crashAfter := jIntOr cfg "crash_after" 0
  let crashed := jStrOr j "crashed" ""
  let ctx := s!"sim idx={jIntOr j "idx" 0} cfg={cfg.compress} crashed={crashed} crash_call={jStrOr j "crash_call" ""}"
  let mut a := a
  a := a.tag s!"sim:fault:{fault}"
  if request != "" then a := a.tag "sim:request"
  if crashed != "" then a := a.tag "sim:manager-crashed"
  let chaos := jStrOr cfg "chaos" ""
  -- runs with ill-formed contents / hostile environments (C20) do not meet the premises of C02 / C07
  let pid := if chaos != "" then "chaos" else if crashAfter != 0 then "C07" else "C02"
  if chaos != "" then a := a.tag s!"sim:chaos:{chaos}"
  -- the run must start from a converged cluster (otherwise the harness is broken, not the property)
  if !jBoolOr j "warm_ok" false && chaos == "" then
    a := a.mismatch s!"simulation did not reach a converged cluster before the fault: {jStrOr j "warm_why" ""} in {ctx}"
  -- verdicts
  let canon := canonical recorded srvs
  if canon != jBoolOr j "canonical" false then a := a.mismatch s!"harness and Lean disagree on the canonical predicate in {ctx}"
  if !canon then
    a := a.violationSig s!"{pid}:not-canonical-after-healing{if crashed != "" && ((jArr j "samples").toOption.getD #[]).toList.any (fun s => (strList s "acked").any fun h => h != jStrOr s "master_key" "" && h != recorded) then ":promoted-node-was-never-recorded" else ""}" s!"{jStrOr j "why" ""}; writers={writers srvs} recorded={recorded} in {ctx}"
  let acked := jStrOr j "acked_set" ""
  -- the failing history of the known C07 finding, whatever triggered it (death of the manager or loss of its
  -- coordination service between making the new master writable and recording it): a node acknowledged client writes
  -- while it was not the recorded master, and it never became the recorded master
  let samples0 ← jArr j "samples"
  let unrecorded := samples0.toList.any fun s =>
    (strList s "acked").any fun h => h != jStrOr s "master_key" "" && h != recorded
  let sfx := if crashed != "" && unrecorded then ":promoted-node-was-never-recorded" else ""
  if !ackedPreserved recorded srvs acked then
    a := a.violationSig s!"{pid}:acknowledged-transaction-missing-on-the-master{sfx}" s!"lost={(strList j "lost").take 5} ({(strList j "lost").length}) in {ctx}"
  -- one acknowledging node at a time
  let samples ← jArr j "samples"
  let mut prevAck : List String := []
  let mut seq : List String := []
  for s in samples do
    let ack := strList s "acked"
    if ack.length > 1 then
      a := a.violationSig s!"{pid}:two-nodes-acknowledge-client-writes" s!"{ack} at t={jIntOr s "t" 0} in {ctx}"
    match ack with
    | [h] => if seq.getLast? != some h then seq := seq ++ [h]
    | _ => pure ()
    prevAck := ack
  -- A … B … A : the acknowledging node flips back (two nodes take turns)
  let rec flips : List String → Bool
    | x :: y :: rest => rest.contains x || flips (y :: rest)
    | _ => false
  if flips seq && request == "" && fault != "request" then
    a := a.violationSig s!"{pid}:acknowledging-node-flips-back" s!"{seq} in {ctx}"
  if seq.length > 1 then a := a.tag "sim:master-changed"
  -- a pending request must have reached a terminal record
  let keys ← j.getObjVal? "keys"
  if (jStr keys "switch").toOption.isSome then
    a := a.violationSig s!"{pid}:request-still-pending-after-healing" s!"switch={jStrOr keys "switch" ""} in {ctx}"
  -- C03 (ii): cluster-wide actions only by the lock holder (grace: the holder's current iteration)
  let acts ← jArr j "foreign_acts"
  for x in acts do
    let since := jIntOr x "since_owned_ms" 0
    if since == -1 || since > 45000 then
      a := a.violationSig "C03:cluster-wide-action-without-lock" s!"{jStrOr x "by" ""} {jStrOr x "what" ""} owner={jStrOr x "owner" ""} since_owned_ms={since} in {ctx}"
  -- C20: no daemon loop dies
  for p in strList j "panics" do
    let site := ((p.splitOn " @ ").getD 1 "?")
    a := a.violationSig s!"C20:panic:{site}" s!"{p} in {ctx}"
  -- a daemon must not lose the ability to look after its own server: at the end (everything healed, contents sane again)
  -- every running daemon of a registered host reports its reachable server as reachable
  let healthJ := (j.getObjVal? "health").toOption.getD Json.null
  let sane := chaos == "" || chaos == "remove_then_readd_host" || chaos == "move_host_to_cascade_and_back"
  if sane then
    for sv in srvs do
      match (healthJ.getObjVal? sv.host).toOption with
      | some hj =>
        if sv.alive && jBoolOr hj "daemon_alive" false && !(jBoolOr hj "ping_ok" false) then
          a := a.violationSig "C20:daemon-reports-its-reachable-server-as-dead" s!"{sv.host}: {hj.compress} in {ctx}"
      | none => pure ()
  let gb := jIntOr j "goroutines_before" 0
  let ga := jIntOr j "goroutines_after" 0
  if ga > gb + 4 then a := a.violationSig "C20:goroutines-left-behind" s!"{gb} -> {ga} in {ctx}"
  -- goroutines of stopped daemons that are blocked for ever (virtual time cannot wake them): a leak, named by creation site
  let lo := jStrOr j "leftover_goroutines" ""
  if lo != "" then
    let site := (((lo.splitOn "remain ").getD 1 "?").splitOn " x").headD "?"
    a := a.violationSig s!"C20:goroutines-left-behind:{site}" s!"{lo.take 400} in {ctx}"
  let conns ← j.getObjVal? "conns"
  for h in strList j "all" do
    -- every daemon keeps at most 3 connections per server (SetMaxOpenConns(3)); one-shot probes must be closed
    let c := jIntOr conns h 0
    if c > 3 * (strList j "all").length + 3 then
      a := a.violationSig "C20:connections-accumulate" s!"{h}: {c} open connections in {ctx}"
  let _ := target
  pure (a.note (fault != "none" || request != "" || chaos != ""))

end Replay.Sim
