import MysyncModel.Replay.NodeStateJson
import MysyncModel.App.Optimization

namespace Replay.C19
open Lean NS Optimization

def parseRS (j : Json) : RS :=
  match j.getArr? with
  | .ok a => ⟨numToInt (a[0]?.getD Json.null) 1, numToInt (a[1]?.getD Json.null) 1⟩
  | .error _ => safeDefault

def parseEv (j : Json) : Except String Ev := do
  let c ← jStr j "call"
  let h ← jStr j "host"
  let ok ← jBool j "ok"
  let call ← (match c with
    | "restore" => pure (Call.restore h) | "relax" => pure (Call.relax h) | "deregister" => pure (Call.deregister h)
    | "readSettings" => pure (Call.readSettings h) | "register" => pure (Call.register h)
    | o => throw s!"unexpected call {o}" : Except String Call)
  pure ⟨call, ok⟩

def handle : Handler := fun j a => do
  let cj ← j.getObjVal? "cfg"
  -- lags arrive in milliseconds (floats of seconds in the code), the marks in seconds
  let cfg : Cfg := { lowMark := (← jInt cj "low") * lagScale, highMark := (← jInt cj "high") * lagScale }
  let masterRs := parseRS (← j.getObjVal? "master_rs")
  let regA ← jArr j "registry"
  let hosts : List RegHost := regA.toList.map fun r =>
    { name := jStrOr r "name" "", enabled := (jOpt r "enabled").map fun v => v.getBool?.toOption.getD false,
      isMaster := jBoolOr r "is_master" false, lag := (jOpt r "lag").map fun v => numToInt v 0,
      settings := match jOpt r "flush", jOpt r "sync" with | some f, some s => some ⟨numToInt f 1, numToInt s 1⟩ | _, _ => none,
      hasNode := jBoolOr r "has_node" false }
  let curJ ← j.getObjVal? "current"
  let aftJ ← j.getObjVal? "after"
  let failj ← j.getObjVal? "fail"
  let fHost ← jStr failj "host"
  let fOp ← jStr failj "op"
  let trace ← (← jArr j "trace").toList.mapM parseEv
  let panicked ← jStr j "panic"
  let regAfter ← jStrList j "registry_after"
  let replicas ← jStrList j "replicas"
  let fails : Call → Bool := fun c => match c with
    | .restore h => (fOp == "set_flush" || fOp == "set_sync_binlog") && fHost == h
    | .relax h => (fOp == "set_flush" || fOp == "set_sync_binlog") && fHost == h
    | .deregister h => fOp == "delete" && fHost == h
    | .readSettings h => fOp == "get_repl_settings" && fHost == h
    | .register _ => false
  let i : SyncIn := { hosts := hosts, masterRs := masterRs, current := fun h => match jOpt curJ h with | some v => parseRS v | none => safeDefault, fails := fails }
  let mut a := a
  -- an unreadable registry entry of a registered host: the sync gives up before it acts (not part of `sync`, which starts
  -- after the registry has been read)
  let registryUnreadable := fOp == "get_state" && hosts.any (·.name == fHost)
  match (if registryUnreadable then SyncOut.trace [] else sync cfg i) with
  | .panic t =>
    if panicked == "" then a := a.mismatch s!"c19sync model panics (after {repr t}) impl trace={repr trace} on {j.compress}"
    a := a.tag "c19:panic"
  | .trace t =>
    if panicked != "" then a := a.mismatch s!"c19sync impl panics '{panicked}' model trace={repr t} on {j.compress}"
    else if (let norm := fun (l : List Ev) => l.map fun e => match e with
                  | ⟨.relax h, false⟩ => (⟨.restore h, false⟩ : Ev)   -- a failed first statement does not tell the two apart
                  | e => e
             norm t != norm trace) then a := a.mismatch s!"c19sync trace impl={repr trace} model={repr t} on {j.compress}"
  -- ---- monitors on the implementation's own trace ----
  let w0 : World := { registered := hosts.map (·.name), settings := replicas.map fun h => (h, match jOpt curJ h with | some v => parseRS v | none => safeDefault) }
  -- (1) a host is dropped from the registry only after its settings were restored (or it has no node handle any more)
  let mut w := w0
  for e in trace do
    match e with
    | ⟨.deregister h, true⟩ =>
      let has := (hosts.find? (·.name == h)).map (·.hasNode) |>.getD false
      if has && replicas.contains h && !(Gen.ReplSettings.Equal (w.get h) masterRs) then
        a := a.violationSig "C19:dropped-from-registry-before-settings-were-restored" s!"host {h} in {j.compress}"
    | _ => pure ()
    w := w.apply masterRs e
  if registryUnreadable && trace.any (fun e => match e with | ⟨.relax _, true⟩ => true | _ => false) then
    a := a.violationSig "C19:host-relaxed-although-the-registry-could-not-be-read-completely" j.compress
  -- (2) after a fault-free sync at most one REGISTERED replica keeps settings different from the master's
  if fOp == "" && panicked == "" && !(← jBool j "err") then
    let relaxedReg := replicas.filter fun h => regAfter.contains h && !(Gen.ReplSettings.Equal (match jOpt aftJ h with | some v => parseRS v | none => safeDefault) masterRs)
    if relaxedReg.length > 1 then a := a.violationSig "C19:more-than-one-registered-replica-left-relaxed-after-sync" s!"{relaxedReg} in {j.compress}"
    -- (3) lost and converged replicas are restored and dropped
    for h in hosts do
      match classify cfg masterRs h with
      | .cls .malfunctioning | .cls .optimized =>
        if regAfter.contains h.name then a := a.violationSig "C19:lost-or-converged-host-still-registered-after-sync" s!"host {h.name} in {j.compress}"
        if h.hasNode && replicas.contains h.name && !(Gen.ReplSettings.Equal (match jOpt aftJ h.name with | some v => parseRS v | none => safeDefault) masterRs) then
          a := a.violationSig "C19:lost-or-converged-host-left-relaxed-after-sync" s!"host {h.name} in {j.compress}"
      | _ => pure ()
  a := a.note (!trace.isEmpty)
  a := if trace.any (fun e => match e.call with | .relax _ => true | _ => false) then a.tag "c19:relaxed-one" else a
  a := if trace.any (fun e => match e.call with | .deregister _ => true | _ => false) then a.tag "c19:dropped" else a
  a := if fOp != "" then a.tag "c19:failing-call" else a
  a := a.sample j.compress 1
  pure a

end Replay.C19
