import MysyncModel.Replay.NodeStateJson
import MysyncModel.App.Switchover

namespace Replay.C01
open Lean NS Gtid Select Switchover

structure Obs where
  s : String
  host : String := ""
  to : String := ""
  ok : Bool := true
  n : Nat := 0
  deriving Repr, BEq, DecidableEq

def parseObs (j : Json) : Except String Obs := do
  pure { s := ← jStr j "s", host := jStrOr j "host" "", to := jStrOr j "to" "", ok := jBoolOr j "ok" true, n := (jIntOr j "n" 0).toNat }

/-- projection of a model step to the observable vocabulary -/
def project : Step → Option Obs
  | .freezeRO h ok => some { s := "freezeRO", host := h, ok := ok }
  | .rejectInside => some { s := "rejectInside" }
  | .stopIO h ok => some { s := "stopIO", host := h, ok := ok }
  | .lockCheck n ok => some { s := "lockCheck", n := n, ok := ok }
  | .setOnline h ok => some { s := "setOnline", host := h, ok := ok }
  | .changeMaster h to ok => if ok then some { s := "changeMaster", host := h, to := to, ok := ok } else none
  | .setRecovery h ok => if ok then some { s := "setRecovery", host := h, ok := true } else none
  | .stopSlave h ok => if ok then some { s := "stopSlave", host := h, ok := ok } else none
  | .resetSlaveAll h ok => some { s := "resetSlaveAll", host := h, ok := ok }
  | .setWritable h ok => some { s := "setWritable", host := h, ok := ok }
  | .setMasterKey h ok => some { s := "setMasterKey", host := h, ok := ok }
  | .writeEmerge => some { s := "writeEmerge" }
  | _ => none

def obsKey (o : Obs) : String := s!"{o.s}/{o.host}/{o.to}/{o.ok}/{o.n}"

def insSorted (o : Obs) : List Obs → List Obs
  | [] => [o]
  | p :: r => if obsKey o < obsKey p then o :: p :: r else p :: insSorted o r

/-- canonical form: maximal runs of steps of one parallel kind are sorted -/
def canon (l : List Obs) : List Obs :=
  let par := fun (o : Obs) => o.s == "freezeRO" || o.s == "stopIO" || o.s == "changeMaster"
  let rec go (fuel : Nat) (l : List Obs) (run : List Obs) (kind : String) : List Obs :=
    match fuel with
    | 0 => run ++ l
    | f + 1 =>
      match l with
      | [] => run
      | o :: r =>
        if par o && (run.isEmpty || o.s == kind) then go f r (insSorted o run) o.s
        else if par o then run ++ go f r [o] o.s
        else run ++ [o] ++ go f r [] ""
  go (l.length + 1) l [] ""

structure NodeD where
  host : String
  alive : Bool
  ro : Bool
  isReplica : Bool
  source : String
  io : Bool
  sql : Bool
  ioErrno : Int
  sqlErrno : Int
  executed : String
  retrieved : String
  lagS : Option Int := none            -- Seconds_Behind_Source as the server reported it at that moment
  deriving Repr

def parseNodeD (j : Json) : NodeD :=
  { host := jStrOr j "host" "", alive := jBoolOr j "alive" false, ro := jBoolOr j "ro" false, isReplica := jBoolOr j "is_replica" false,
    source := jStrOr j "source" "", io := jBoolOr j "io" false, sql := jBoolOr j "sql" false, ioErrno := jIntOr j "io_errno" 0,
    sqlErrno := jIntOr j "sql_errno" 0, executed := jStrOr j "executed" "", retrieved := jStrOr j "retrieved" "",
    lagS := (jOpt j "lag_s").map fun v => numToInt v 0 }

def totalOf (n : NodeD) : GtidSet :=
  if n.isReplica then update (parseD n.executed) (parseD n.retrieved) else parseD n.executed

def insertEverywhere (x : Pos) : List Pos → List (List Pos)
  | [] => [[x]]
  | y :: r => (x :: y :: r) :: (insertEverywhere x r).map (y :: ·)

/-- all permutations (lists of at most five positions) -/
def perms : List Pos → List (List Pos)
  | [] => [[]]
  | x :: r => (perms r).flatMap (insertEverywhere x)

def handle : Handler := fun j a => do
  let cj ← j.getObjVal? "cfg"
  let cfg : Cfg := { semiSync := ← jBool cj "semi_sync", waitCount := ← jInt cj "wait_count", async := ← jBool cj "async",
                     asyncAllowedLag := ← jInt cj "async_allowed_lag", priorityChoiceMaxLag := ← jInt cj "max_lag" }
  let cs ← parseClusterState j "cs"
  let active ← jStrList j "active"
  let oldMaster ← jStr j "old_master"
  let swj ← j.getObjVal? "sw"
  let sw : Manager.Switch := { from_ := ← jStr swj "from", to := ← jStr swj "to", causeAuto := ← jBool swj "cause_auto", failoverType := ← jBool swj "failover_type" }
  let turbo ← jBool swj "turbo"
  let obsAll ← (← jArr j "steps").toList.mapM parseObs
  -- failed stop/change/start groups leave no reliable trace (a refused connection produces no event at all):
  -- only successful re-pointings are compared, failures show through what is missing afterwards
  let emerge0 ← jBool j "emerge"
  -- the emergency marker is observed through the file; the split-brain test sits between the position reads and the choice
  let obsAll := if emerge0 then
      (let (pre, post) := obsAll.span fun o => o.s == "freezeRO" || o.s == "stopIO" || o.s == "rejectInside" || (o.s == "lockCheck" && o.n == 1)
       pre ++ [({ s := "writeEmerge" } : Obs)] ++ post)
    else obsAll
  let obs := obsAll.filter fun o => o.ok || o.s == "lockCheck"
  let emerge ← jBool j "emerge"
  let panicked ← jStr j "panic"
  let errS ← jStr j "err"
  let snaps := ((jOpt j "snaps").bind fun s => s.getArr?.toOption).getD #[] |>.toList
  let priosJ := jOpt j "prios"
  let prioOf := fun (h : String) => match priosJ with | some p => jIntOr p h 0 | none => 0
  let final := (((jOpt j "final").bind fun s => s.getArr?.toOption).getD #[]).toList.map parseNodeD
  let mut a := a
  -- ---- oracle inputs recovered from the observed results ----
  let find := fun (s h : String) => obs.find? fun o => o.s == s && o.host == h
  let ro := fun h => match find "freezeRO" h with | some o => o.ok | none => false
  let io := fun h => match find "stopIO" h with | some o => o.ok | none => false
  let lock := fun n => match obs.find? fun o => o.s == "lockCheck" && o.n == n with | some o => o.ok | none => true
  let lock1Snap := snaps.find? fun s => jStrOr s "at" "" == "lock1"
  let snapNodes := fun (s : Json) => (((jOpt s "nodes").bind fun n => n.getArr?.toOption).getD #[]).toList.map parseNodeD
  let pre : In := { cs := cs, active := active, sw := sw, oldMaster := oldMaster, turbo := turbo, ro := ro, io := io,
                    lock1 := lock 1, lock2 := lock 2, positions := none, cs2 := cs, repoint := fun _ => true }
  let fr := frozen pre
  -- every reachable member of the work list is ASKED to freeze: a failed request is indistinguishable from a skipped one in
  -- the step comparison (failed steps are projected away), so the raw statement log is consulted
  let evList := (jStrList j "evs").toOption.getD []
  let sawFreeze := obsAll.any fun o => o.s == "freezeRO" || o.s == "stopIO"
  -- the async-lag exception is EVALUATED (the delay query is sent) only for an automatic failover in async mode
  if (evList.any fun e => (e.splitOn ":").getD 1 "" |>.startsWith "calc_replmon_delay") && !(cfg.async && sw.causeAuto && cfg.asyncAllowedLag > 0) then
    a := a.mismatch s!"c01 the async-lag exception was evaluated for a request the model does not grant it to (async={cfg.async} auto={sw.causeAuto}) on {j.compress}"
  let killedHost := match jOpt j "fault" with | some f => jStrOr f "kill" "" | none => ""
  if sawFreeze then
    for h in workList pre do
      -- (a server killed during the procedure refuses the connection: no statement reaches it)
      if pingOk cs h == some true && h != killedHost && !(evList.any fun e => e.startsWith s!"{h}:set_ro") then
        a := a.violationSig "C01:reachable-list-member-never-asked-to-freeze" s!"{h} (work list {workList pre}, old master {oldMaster}) in {j.compress}"
        -- seen from C07: a request taken up again (its `from` is not the recorded master any more) that leaves the recorded
        -- master unexamined and writable and ends with another writable server next to it
        let writableAtEnd := fun (x : String) => final.any fun n => n.host == x && n.alive && !n.ro
        if h == oldMaster && sw.from_ != "" && sw.from_ != oldMaster && writableAtEnd h &&
            (final.any fun n => n.host != h && n.alive && !n.ro && !n.isReplica) then
          a := a.violationSig "C07:resumed-request-ends-with-a-second-writable-master-next-to-the-recorded-one" s!"{h} and another; {j.compress}"
  let posList : List Pos := match lock1Snap with
    | some s =>
      let nodes := snapNodes s
      fr.filterMap fun h => (nodes.find? (·.host == h)).map fun n =>
        -- an unknown lag (NULL) is the code's own 99999999; the lag is the one the host reported when its position was
        -- read (`pos_lag`), which the snapshot taken at the lock re-check only approximates
        let lagNow : Option Int := match (jOpt j "pos_lag").bind fun pl => pl.getObjVal? h |>.toOption with
          | some v => if v.isNull then none else some (numToInt v 0)
          | none => n.lagS
        { host := h, gtid := totalOf n, lag := lagNow.getD 99999999, prio := prioOf h }
    | none => []
  -- second view: reachability at the end approximates the view taken after catch-up (only used for targets)
  let afterLock2 := obsAll.dropWhile fun o => !(o.s == "lockCheck" && o.n == 2)
  let repoint := fun h => !(afterLock2.any fun o => (o.s == "changeMaster" || o.s == "stopReplica") && o.host == h && !o.ok) &&
                          (afterLock2.any fun o => o.s == "changeMaster" && o.host == h && o.ok)
  let newMasterGuess := ((afterLock2.find? fun o => o.s == "setOnline").map (·.host)).getD ""
  let cs2 : ClusterState := cs.map fun (h, st) =>
    let targeted := afterLock2.any fun o => (o.s == "changeMaster" || o.s == "stopReplica") && o.host == h
    (h, { st with pingOk := (h == newMasterGuess) || targeted, pingDubious := false })
  let has := fun (s : String) => obs.any (·.s == s)
  let okOf := fun (s : String) => (obs.filter (·.s == s)).getLast?.map (·.ok) |>.getD true
  let sawLock2 := obs.any fun o => o.s == "lockCheck" && o.n == 2
  let base : In := { pre with
    cs2 := cs2, repoint := repoint,
    oldStatus := if has "setRecovery" then .notReplica else .replica .running "",
    setRecoveryOk := okOf "setRecovery",
    stopSlaveOk := okOf "stopSlave", resetOk := okOf "resetSlaveAll", writableOk := okOf "setWritable",
    eventsOk := has "setMasterKey" || !has "setWritable" || !okOf "setWritable", masterKeyOk := okOf "setMasterKey",
    mostRecentOnlineOk := true, catchUpChangeOk := true,
    catchUp := if sawLock2 then .caught else .timeout,
    rejectOk := true }
  let target := canon obs
  -- candidates: positions readable or not × permutations of the collected positions (tie-breaks depend on arrival order)
  -- × whether the pre-promotion steps failed silently
  let variants : List In :=
    let withPos := (perms posList).map fun ps => { base with positions := some ps }
    let noPos := [{ base with positions := none }]
    let more := fun (i : In) => [i,
      { i with newMasterOnlineOk := false }, { i with mostRecentOnlineOk := false }, { i with catchUpChangeOk := false },
      { i with oldStatus := .notReplica, setRecoveryOk := false },
      { i with cs2 := i.cs2.map fun (h, st) => (h, { st with pingOk := false }) },
      { i with repoint := fun _ => true },
      -- a re-pointing that failed without leaving any event (target refused the connection)
      { i with cs2 := cs.map fun (h, st) => (h, { st with pingOk := (match final.find? (·.host == h) with | some n => n.alive | none => false), pingDubious := false }),
               repoint := fun h => afterLock2.any fun o => o.s == "changeMaster" && o.host == h && o.ok },
      { i with eventsOk := false }, { i with optStopOk := false }, { i with optStop2Ok := false },
      { i with stopSlaveOk := false }, { i with resetOk := false }, { i with writableOk := false }, { i with masterKeyOk := false }]
    let victim := match jOpt j "fault" with | some f => jStrOr f "kill" "" | none => ""
    -- a node killed while its own freeze statement was in flight may or may not have answered
    let noV := fun (i : In) => i.positions.map fun ps => ps.filter (·.host != victim)
    let killed := fun (i : In) => if victim == "" then [i] else
      [i, { i with io := fun h => i.io h && h != victim }, { i with ro := fun h => i.ro h && h != victim },
       -- … and then its position is not among the collected ones
       { i with io := (fun h => i.io h && h != victim), positions := noV i }, { i with ro := (fun h => i.ro h && h != victim), positions := noV i }]
    ((withPos ++ noPos).flatMap killed).flatMap more
  -- unreachable hosts receive no statement in the freeze phases: their (failed) model steps are not observable
  let reach := fun (h : String) => (pingOk cs h == some true)
  let proj := fun (i : In) => canon (((performSwitchover cfg i).filterMap project).filter fun o => (o.ok || o.s == "lockCheck") && !((o.s == "freezeRO" || o.s == "stopIO") && !reach o.host))
  -- the freeze statements of a node that is killed during the procedure are ambiguous evidence: the server may have executed
  -- (and logged) the statement while the client saw the connection die — they are left out of the comparison on both sides
  let victim0 := match jOpt j "fault" with | some f => jStrOr f "kill" "" | none => ""
  let dropV := fun (l : List Obs) => if victim0 == "" then l else l.filter fun o => !((o.s == "freezeRO" || o.s == "stopIO") && o.host == victim0)
  let found := variants.find? fun i => dropV (proj i) == dropV target
  if panicked != "" then
    a := a.tag "c01:panic"
    a := a.mismatch s!"c01 panic '{panicked}' on {j.compress}"
  else match found with
    | none =>
      let m0 := proj { base with positions := some posList }
      a := a.mismatch s!"c01 steps impl={repr (target.map obsKey)} model(best guess)={repr (m0.map obsKey)} frozen={fr} err='{errS}' on {j.compress}"
    | some _ => pure ()
  -- ---- monitors (property C01, also C03/C07/C11 clauses that live in this procedure) ----
  let quorum : Int := if cfg.semiSync then max ((active.length : Int) - min ((active.length : Int) / 2) cfg.waitCount) 1 else 1
  for s in snaps do
    let at_ := jStrOr s "at" ""
    -- C19: optimisation is switched off on every candidate before the freeze — when the first lock re-check is reached
    -- (the freeze is over) no reachable list member carries relaxed settings or is still registered
    if at_ == "lock1" then
      let reg := (jStrList s "opt_registry").toOption.getD []
      for nd in (((jOpt s "nodes").bind fun n => n.getArr?.toOption).getD #[]).toList do
        let h := jStrOr nd "host" ""
        if active.contains h && jBoolOr nd "alive" false && !jBoolOr nd "hang" false &&
            (jIntOr nd "flush_log" 1 != 1 || jIntOr nd "sync_binlog" 1 != 1 || reg.contains h) then
          a := a.violationSig "C19:list-member-frozen-while-relaxed-or-registered" s!"{h} (registry {reg}) in {j.compress}"
    if at_.startsWith "writable:" then
      let h := (at_.drop 9).toString
      if h != oldMaster then
        let nodes := snapNodes s
        match nodes.find? (·.host == h) with
        | none => a := a.violationSig "C01:promotion-of-unknown-host" j.compress
        | some nm =>
          let ex := parseD nm.executed
          let good := active.filter fun f =>
            (ro f && (f == oldMaster || io f)) &&
            (match nodes.find? (·.host == f) with
             | some nf => nf.ro && contain ex (totalOf nf)
             | none => false)
          let asyncEscape := cfg.async && sw.causeAuto && cfg.asyncAllowedLag > 0
          -- "the only exception is the configured allowed lag of async mode during AUTOMATIC failover": a node that is
          -- promoted although a frozen member holds transactions it has not executed used that exception
          -- (a server the scenario killed during the freeze may have executed its freeze statements without the procedure
          -- ever seeing the answers: when it is dead at this moment it is no frozen member the procedure relies on)
          let behind := active.any fun f =>
            (ro f && (f == oldMaster || io f)) &&
            (match nodes.find? (·.host == f) with
             | some nf => f != h && nf.ro && !(f == killedHost && !nf.alive) && !contain ex (totalOf nf)
             | none => false)
          if behind && !asyncEscape then
            a := a.violationSig "C01:promoted-behind-a-frozen-member-outside-the-async-exception" s!"promoted {h} with {nm.executed}; {j.compress}"
          if (good.length : Int) < quorum && !asyncEscape then
            a := a.violationSig "C01:promotion-without-a-frozen-caught-up-quorum" s!"promoted {h}: frozen and contained = {good} of {active}, quorum {quorum}; {j.compress}"
          -- C14: the chosen node is never the host the switch moves away from (whoever the recorded master is by now)
          if sw.from_ != "" && h == sw.from_ then
            a := a.violationSig "C14:promoted-the-host-the-switch-moves-away-from" s!"promoted {h}; {j.compress}"
            -- seen from C07: a request taken up again (its `from` is not the recorded master any more) is neither finished
            -- nor rejected when the host it moves away from is promoted
            a := a.violationSig "C07:resumed-request-promotes-the-host-it-moves-away-from" s!"promoted {h}; {j.compress}"
          -- C19: never promoted while it carries relaxed settings or is still registered as optimising
          let reg := (jStrList s "opt_registry").toOption.getD []
          let flush := jIntOr ((((jOpt s "nodes").bind fun n => n.getArr?.toOption).getD #[]).toList.find? (fun n => jStrOr n "host" "" == h) |>.getD Json.null) "flush_log" 1
          let syncb := jIntOr ((((jOpt s "nodes").bind fun n => n.getArr?.toOption).getD #[]).toList.find? (fun n => jStrOr n "host" "" == h) |>.getD Json.null) "sync_binlog" 1
          if reg.contains h then a := a.violationSig "C19:node-promoted-while-registered-as-optimising" j.compress
          if flush != 1 || syncb != 1 then a := a.violationSig "C19:node-promoted-while-carrying-relaxed-durability-settings" j.compress
          -- lock re-confirmed after freezing and after catch-up
          let before := obs.takeWhile fun o => !(o.s == "setWritable" && o.host == h)
          if !(before.any (fun o => o.s == "lockCheck" && o.n == 1 && o.ok) && before.any (fun o => o.s == "lockCheck" && o.n == 2 && o.ok)) then
            a := a.violationSig "C03:promotion-without-both-lock-reconfirmations" j.compress
          let i1 := before.findIdx? fun o => o.s == "lockCheck" && o.n == 1
          if before.zipIdx.any (fun (o, k) => (o.s == "freezeRO" || o.s == "stopIO") && (match i1 with | some x => k > x | none => true)) then
            a := a.violationSig "C03:lock-not-reconfirmed-after-the-freeze" j.compress
  -- split brain among the frozen positions ⇒ nothing promoted, marker written
  -- (a server the scenario killed during the freeze may have executed its freeze statements without the procedure ever
  -- seeing the answers: it is no frozen member for the procedure, and a dead server's position cannot be read)
  let posSeen := match lock1Snap with
    | some s => posList.filter fun (p : Pos) =>
        !(p.host == killedHost && (((snapNodes s).find? fun (n : NodeD) => n.host == p.host).map fun (n : NodeD) => n.alive) == some false)
    | none => posList
  if !posSeen.isEmpty && obs.any (fun o => o.s == "lockCheck" && o.n == 1 && o.ok) then
    let hasMax := posSeen.any fun m => posSeen.all fun p => contain m.gtid p.gtid
    let positionsRead := has "setOnline" || has "changeMaster" || emerge || sawLock2
    if !hasMax then
      if has "setWritable" || has "resetSlaveAll" then a := a.violationSig "C01:promotion-despite-split-brain" j.compress
      if positionsRead && !emerge then a := a.violationSig "C01:split-brain-without-emergency-marker" j.compress
    if hasMax && emerge then a := a.violationSig "C01:emergency-marker-without-split-brain" j.compress
  -- recorded master is written last and only after the node is writable (C07)
  match obs.findIdx? (·.s == "setMasterKey") with
  | some k =>
    if !(obs.take k).any (fun o => o.s == "setWritable" && o.ok) then a := a.violationSig "C07:master-key-written-before-promotion" j.compress
    if k + 1 != obs.length then a := a.violationSig "C07:master-key-not-written-last" j.compress
  | none => pure ()
  -- the old master is marked for recovery before promotion unless it is a confirmed clean replica (C11)
  if has "resetSlaveAll" && okOf "resetSlaveAll" then
    let promoted := ((obs.filter (·.s == "resetSlaveAll")).getLast?.map (·.host)).getD ""
    if promoted != oldMaster then
      -- what the procedure itself saw before promoting: a replica status row of the old master that names the
      -- promoted host as source (evidence from the event log), and the old master's set (frozen since phase 1)
      -- contained in the most recent position
      let evs := (jStrList j "evs").toOption.getD []
      let beforePromo := evs.takeWhile fun e => !(e.splitOn ":reset_replica_all").length ≥ 2
      let sawCleanRow := beforePromo.any fun e => e.startsWith s!"{oldMaster}:replica_status=row:{promoted}|"
      let mostRecentSet := match posList.find? fun m => posList.all fun p => contain m.gtid p.gtid with | some m => m.gtid | none => []
      let oldSet := match lock1Snap with
        | some s => ((snapNodes s).find? (·.host == oldMaster)).map fun n => parseD n.executed
        | none => none
      let confirmedClean := sawCleanRow && (match oldSet with | some os => contain mostRecentSet os | none => false)
      let iMark := obs.findIdx? fun o => o.s == "setRecovery" && o.host == oldMaster && o.ok
      let iProm := obs.findIdx? fun o => o.s == "resetSlaveAll"
      if !confirmedClean then
        match iMark, iProm with
        | some x, some y => if x > y then a := a.violationSig "C11:old-master-marked-after-promotion" j.compress
        | none, _ => a := a.violationSig "C11:unconfirmed-old-master-not-marked-for-recovery" j.compress
        | _, _ => pure ()
  let promotedOk := obs.any fun o => o.s == "setWritable" && o.ok
  -- C04 / C11: whatever cut the procedure short (a failed or lost coordination call, an error), a host that is marked for
  -- recovery afterwards is not in the published list (unless it is the recorded master): the mark is written AFTER the host
  -- has been taken out of the list
  let marked := match jOpt j "recovery" with
    | some (.obj kv) => kv.toList.filterMap fun ((k, _) : String × Json) =>
        if k.startsWith "recovery/" then some (k.drop 9).toString else none
    | _ => []
  let listedAfter := (jStrList j "active_after").toOption.getD []
  let recordedAfter := jStrOr j "master_after" ""
  for h in marked do
    if listedAfter.contains h && h != recordedAfter then
      a := a.violationSig "C04:host-marked-for-recovery-left-in-the-published-list" s!"{h}: marked {marked}, list {listedAfter} in {j.compress}"
      a := a.violationSig "C11:marked-host-in-published-active-list" s!"{h}: marked {marked}, list {listedAfter} in {j.compress}"
  -- C07 (re-runnable from what the procedure leaves behind): the list the procedure publishes at promotion is computed from
  -- the cluster as it is THEN — in a run without an injected fault every member of the old list that follows the new master
  -- with both threads running is in it (the successor of a manager that dies right after judges the request against this list)
  let noFault := match jOpt j "fault" with | some (.obj kv) => kv.toList.isEmpty | _ => true
  -- (not in async mode: a node promoted under the allowed-lag exception rightly keeps replicas that are ahead of it out)
  if noFault && !cfg.async && promotedOk && (obs.any fun o => o.s == "setMasterKey" && o.ok) then
    let nmH := jStrOr j "master_after" ""
    let activeAfter := (jStrList j "active_after").toOption.getD []
    let hosts := (jStrList j "hosts").toOption.getD []
    for nd in ((jOpt j "final").bind fun n => n.getArr?.toOption).getD #[] do
      let h := jStrOr nd "host" ""
      -- (members of the list the procedure started from: a host outside it joins by `updateActiveNodes`' own rules)
      if hosts.contains h && active.contains h && h != nmH && jBoolOr nd "alive" false && !jBoolOr nd "hang" false && jBoolOr nd "is_replica" false &&
          jStrOr nd "source" "" == nmH && jBoolOr nd "io" false && jBoolOr nd "sql" false && !activeAfter.contains h then
        a := a.violationSig "C07:list-published-at-promotion-omits-a-replica-that-follows-the-new-master" s!"{h} not in {activeAfter}; {j.compress}"
  -- C19: the speed-up phase has ended, with settings restored, before the freeze — nothing the procedure started may act
  -- after it returned (20 s of settling time), and no server is left relaxed without being registered as optimising
  let late := (jStrList j "late").toOption.getD []
  if !late.isEmpty then
    a := a.violationSig "C19:something-the-switchover-started-acts-after-it-ended" s!"{late} in {j.compress}"
  let regAfter := (jStrList j "opt_registry_after").toOption.getD []
  for nd in ((jOpt j "final").bind fun n => n.getArr?.toOption).getD #[] do
    let h := jStrOr nd "host" ""
    if jBoolOr nd "alive" false && (jIntOr nd "flush_log" 1 != 1 || jIntOr nd "sync_binlog" 1 != 1) && !regAfter.contains h then
      a := a.violationSig "C19:server-left-relaxed-and-unregistered-after-the-switchover" s!"{h} in {j.compress}"
  a := a.note (obs.length > 2)
  a := a.tag (if promotedOk then "c01:promoted" else if emerge then "c01:splitbrain" else if obs.isEmpty then "c01:refused-at-once" else "c01:aborted")
  a := if obs.any (fun o => o.s == "setOnline" && sawLock2 && (obs.findIdx? (fun p => p == o)).getD 0 < (obs.findIdx? (fun p => p.s == "lockCheck" && p.n == 2)).getD 0) then a.tag "c01:catch-up-from-most-recent" else a
  a := if sw.to != "" then a.tag "c01:kind:to" else if sw.causeAuto then a.tag "c01:kind:auto" else if sw.failoverType then a.tag "c01:kind:forced-failover" else a.tag "c01:kind:from"
  a := a.sample j.compress 1
  pure a

end Replay.C01
