import MysyncModel.Replay.NodeStateJson
import MysyncModel.App.Observe

namespace Replay.Obs
open Lean NS Observe

def dubiousCodes : List String := ["err:1040", "err:1203"]

def handle : Handler := fun j a => do
  let tj ← j.getObjVal? "truth"
  let fj ← j.getObjVal? "fault"
  let cascade ← jBool j "cascade"
  let real := parseNodeState (← j.getObjVal? "state")
  let isRepl := jBoolOr tj "is_replica" false
  let t : Truth := {
    readOnly := jBoolOr tj "ro" false, superReadOnly := jBoolOr tj "sro" false, offline := jBoolOr tj "offline" false,
    repl := if isRepl then some { source := jStrOr tj "source" "", io := jBoolOr tj "io" false, sql := jBoolOr tj "sql" false,
                                   ioErrno := jIntOr tj "io_errno" 0, sqlErrno := jIntOr tj "sql_errno" 0,
                                   executed := jStrOr tj "executed" "", retrieved := jStrOr tj "retrieved" "",
                                   lag := (jOpt tj "lag").map fun v => numToScaled v 0,
                                   logFile := jStrOr tj "log_file" "", logPos := jIntOr tj "log_pos" 0 } else none,
    executed := jStrOr tj "executed" "", semiMaster := jBoolOr tj "ss_master" false, semiSlave := jBoolOr tj "ss_slave" false,
    waitCount := jIntOr tj "wait_count" 0, flushLog := jIntOr tj "flush_log" 1, syncBinlog := jIntOr tj "sync_binlog" 1 }
  let op := jStrOr fj "op" ""
  let mode := jStrOr fj "mode" ""
  let ping2 := jStrOr fj "ping2" ""
  let failAt : Option Probe := match op with
    | "ping" => some .ping | "is_readonly" => some .isReadOnly | "get_offline" => some .isOffline
    | "replica_status" => some .replicaStatus | "get_repl_settings" => some .replSettings
    | "gtid_executed" => if isRepl then none else some .lagOrGtid      -- a replica's lag needs no statement
    | "ss_status" => some .semiSync | _ => none
  let dub := if op == "ping" then dubiousCodes.contains mode else dubiousCodes.contains ping2
  let m := getNodeState t cascade failAt dub (ping2 == "")
  let mut a := a
  let cmp := fun (what : String) (x y : String) (a : Acc) => if x != y then a.mismatch s!"obs {what}: impl={x} model={y} on {j.compress}" else a
  a := cmp "pingOk" (toString real.pingOk) (toString m.pingOk) a
  a := cmp "pingDubious" (toString real.pingDubious) (toString m.pingDubious) a
  a := cmp "isMaster" (toString real.isMaster) (toString m.isMaster) a
  a := cmp "isReadOnly" (toString real.isReadOnly) (toString m.isReadOnly) a
  a := cmp "isSuperReadOnly" (toString real.isSuperReadOnly) (toString m.isSuperReadOnly) a
  a := cmp "isOffline" (toString real.isOffline) (toString m.isOffline) a
  a := cmp "isCascade" (toString real.isCascade) (toString m.isCascade) a
  a := cmp "masterExecuted" (repr real.masterExecuted |>.pretty) (repr m.masterExecuted |>.pretty) a
  a := cmp "slave" (repr real.slave |>.pretty) (repr m.slave |>.pretty) a
  a := cmp "semiSync" (repr real.semiSync |>.pretty) (repr m.semiSync |>.pretty) a
  a := cmp "replSettings" (repr real.replSettings |>.pretty) (repr m.replSettings |>.pretty) a
  -- C16 / C20: the registry's cascade flag survives every probe failure
  if real.isCascade != cascade then
    a := a.violationSig "C16:cascade-replica-not-recognised-as-such-after-a-failed-probe" j.compress
  a := a.tag s!"obs:fail:{op}"
  pure (a.note (op != "" || isRepl))

end Replay.Obs
