import MysyncModel.Replay.Util
import MysyncModel.Generated.SwitchHelper

namespace Replay.C12
open Lean Gen.SwitchHelper

/-- the property, evaluated on the numbers the *implementation* returned (used to find a concrete
failing input when the proof or the correspondence no longer checks) -/
def monitor (n w : Int) (ss : Bool) (p req quorum : Int) (checkErr : Bool) : Option String :=
  let replicas := max (n - 1) 0
  if req > replicas then some "req exceeds replicas in list"
  else if req < 0 then some "req negative"
  else if (req == 0) != (decide (n ≤ 1) || w == 0) then some "req zero iff no replica or w = 0"
  else if quorum < 1 then some "quorum below one"
  else if quorum + req ≤ replicas then some "quorum + req does not exceed replicas"
  else if ss && (checkErr != decide (p < quorum)) then some "semi-sync check is not (p < quorum)"
  else if !ss && (checkErr != (p == 0)) then some "async check is not (p = 0)"
  else none

def handle : Handler := fun j a => do
  let n ← jNat j "n"
  let w ← jInt j "w"
  let ss ← jBool j "ss"
  let p ← jInt j "p"
  let req ← jInt j "req"
  let quorum ← jInt j "quorum"
  let chk ← jStr j "check"
  let sh : SwitchHelper := { priorityChoiceMaxLag := 0, rplSemiSyncMasterWaitForSlaveCount := w, SemiSync := ss }
  let l := List.replicate n "h"
  let mreq := GetRequiredWaitSlaveCount sh l
  let mq := GetFailoverQuorum sh l
  let mchk := CheckFailoverQuorum sh l p
  let a := if mreq != req || mq != quorum || mchk.isSome != (chk != "")
    then a.mismatch s!"c12 n={n} w={w} ss={ss} p={p}: impl req={req} quorum={quorum} check='{chk}' model req={mreq} quorum={mq} check={mchk}"
    else a
  let a := a.note (decide (n ≥ 2) && decide (w ≥ 1))
  let a := a.tag (if chk != "" then "check:refused" else "check:ok")
  let a := a.sample j.compress
  match monitor n w ss p req quorum (chk != "") with
  | some why => pure (a.violationSig s!"C12:{why}" s!"c12 n={n} w={w} ss={ss} p={p} req={req} quorum={quorum} check='{chk}': {why}")
  | none => pure a

end Replay.C12
