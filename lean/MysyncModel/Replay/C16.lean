import MysyncModel.Replay.NodeStateJson
import MysyncModel.App.Cascade

namespace Replay.C16
open Lean NS Gtid Cascade

def parseTopo (j : Json) (k : String) : Except String Topology := do
  let a ← jArr j k
  a.toList.mapM fun e => do pure (← jStr e "host", ← jStr e "from")

def bsfName : BSF → String
  | .host h => h
  | .panic _ => "PANIC"
  | .outOfFuel => "OUT-OF-FUEL"

def handleBsf : Handler := fun j a => do
  let self ← jStr j "self"
  let cs ← parseClusterState j "cs"
  let master ← jStr j "master"
  let topo ← parseTopo j "topo"
  let reasonable := (← jInt j "reasonable") * lagScale
  let res ← jStr j "res"
  let m := findBestStreamFrom reasonable self cs master topo
  let mut a := a
  if bsfName m != res then a := a.mismatch s!"c16bsf impl={res} model={bsfName m} on {j.compress}"
  -- monitors on the implementation's answer
  if res == self && self != master then a := a.violationSig "C16:source-is-self" j.compress
  let sf := streamFromOf topo self
  let registered := (cs.get? self).isSome && topo.all fun (_, v) => v == "" || (cs.get? v).isSome
  if res == "PANIC" && registered then a := a.violationSig "C16:panic-on-wellformed-topology" j.compress
  if res != "PANIC" && sf != "" && sf != self then
    let healthy := match cs.get? sf with
      | some c => c.pingOk && !c.isOffline && reasonableLag reasonable c
      | none => false
    let already := match cs.get? self with
      | some me => (match me.slave with | some s => s.state == .running && s.masterHost == sf | none => false)
      | none => false
    if (healthy || already) && res != sf then a := a.violationSig "C16:configured-healthy-source-not-chosen" j.compress
    -- "otherwise the nearest HEALTHY ancestor, otherwise the master": an answer that is neither the configured source nor
    -- the master is healthy (the "already streamed from" shortcut is for the configured source only)
    if res != sf && res != master && res != self then
      let resHealthy := match cs.get? res with
        | some c => c.pingOk && !c.isOffline && reasonableLag reasonable c
        | none => false
      if !resHealthy then a := a.violationSig "C16:resolved-to-an-unhealthy-ancestor" j.compress
  a := a.note (sf != "" && sf != master)
  a := a.tag (if res == "PANIC" then "bsf:panic" else if res == master then "bsf:master" else if res == sf then "bsf:configured" else "bsf:ancestor")
  a := a.sample j.compress 1
  pure a

def actName : Act → String
  | .changeMaster to => s!"changeMaster:{to}" | .startSlave => "startSlave" | .stopSlave => "stopSlave"
  | .readFresh => "readFresh" | .readUuid => "readUuid" | .writeEmerge => "writeEmerge"
  | .setLostTimer => "setLostTimer" | .cleanLostTimer => "cleanLostTimer" | .panic _ => "PANIC"

def handleRepair : Handler := fun j a => do
  let host ← jStr j "host"
  let st := parseNodeState (← j.getObjVal? "state")
  let cs ← parseClusterState j "cs"
  let topo ← parseTopo j "topo"
  let master ← jStr j "master"
  let reasonable := (← jInt j "reasonable") * lagScale
  let inj ← j.getObjVal? "in"
  let cand ← jStr j "cand"
  let acts ← jStrList j "acts"
  let tzAfter ← jBool j "timer_zero_after"
  let panicked ← jStr j "panic"
  let freshS ← jStr inj "fresh"
  let fresh : Fresh := if freshS == "err" then .err else if freshS == "norow" then .noRow else .gtid (freshS.drop 5).toString
  let uuidOk ← jBool inj "uuid_ok"
  let uuid ← jStr inj "uuid"
  let tz ← jBool inj "timer_zero"
  let mc := findBestStreamFrom reasonable host cs master topo
  let i : In := { streamFrom := ← jStr inj "stream_from", master := master, lostTimerZero := tz, candidate := mc,
                  changeBlindOk := ← jBool inj "change_ok", stopOk := ← jBool inj "stop_ok", fresh := fresh,
                  uuid := if uuidOk then some uuid else none, changeOk := ← jBool inj "change_ok" }
  -- a cascade record that cannot be read: the repair of cascade replicas is skipped (nothing is done on a partial picture)
  let topoReadFails := jBoolOr j "topo_read_fails" false
  let mActs := if topoReadFails then [] else repairCascade host st cs i
  let mut a := a
  if topoReadFails && !acts.isEmpty then
    a := a.violationSig "C16:cascade-replica-repaired-although-the-topology-could-not-be-read-completely" s!"{acts} in {j.compress}"
  if bsfName mc != cand then a := a.mismatch s!"c16repair candidate impl={cand} model={bsfName mc} on {j.compress}"
  -- compare: timers through the final state, panics through the recovered panic, the rest literally
  let mVisible := (mActs.filter fun x => x != .setLostTimer && x != .cleanLostTimer).map actName
  let implVisible := acts ++ (if panicked != "" then ["PANIC"] else [])
  if mVisible != implVisible then a := a.mismatch s!"c16repair acts impl={implVisible} model={mVisible} on {j.compress}"
  let expTz := if mActs.contains .cleanLostTimer then true else if mActs.contains .setLostTimer then false else tz
  if panicked == "" && !topoReadFails && expTz != tzAfter then a := a.mismatch s!"c16repair timer zero impl={tzAfter} model={expTz} on {j.compress}"
  -- monitors on the implementation's actions
  for x in acts do
    if x.startsWith "changeMaster:" then
      let to := (x.drop 13).toString
      if to == host then a := a.violationSig "C16:pointed-at-itself" j.compress
      if st.slave.isSome then
        -- guarded move: fresh set must be contained in the candidate's snapshot
        let ctext := match cs.get? to with
          | some c => if c.isMaster then c.masterExecuted else c.slave.map (·.executed)
          | none => none
        match fresh, ctext with
        | .gtid mine, some ct =>
          if !isSlaveBehindOrEqual (parseD mine) (parseD ct) then a := a.violationSig "C16:moved-while-ahead-or-diverged" j.compress
        | _, _ => a := a.violationSig "C16:moved-without-comparison" j.compress
    if x.startsWith "FOREIGN" || x.startsWith "OTHER" then a := a.violationSig "C16:unexpected-statement" j.compress
  if acts.contains "writeEmerge" && acts.any (·.startsWith "changeMaster:") then a := a.violationSig "C16:moved-on-splitbrain" j.compress
  a := a.note (!acts.isEmpty)
  a := if acts.any (·.startsWith "changeMaster:") then a.tag "repair:moved" else a
  a := if acts.contains "writeEmerge" then a.tag "repair:splitbrain" else a
  a := if panicked != "" then a.tag "repair:panic" else a
  a := if st.slave.isNone then a.tag "repair:blind" else a
  a := if acts.isEmpty then a.tag "repair:nothing" else a
  a := a.sample j.compress 1
  pure a

end Replay.C16
