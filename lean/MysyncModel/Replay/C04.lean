import MysyncModel.Replay.NodeStateJson
import MysyncModel.App.ActiveNodes

namespace Replay.C04
open Lean NS ActiveNodes

def parseCfg (j : Json) : Except String Cfg := do
  pure { semiSync := ← jBool j "semi_sync", waitCount := ← jInt j "wait_count", inactivationDelay := ← jInt j "delay",
         semiSyncEnableLag := ← jInt j "enable_lag", masterFirst := ← jBool j "master_first" }

def parseTimers (j : Json) (k : String) : Timers :=
  match jOpt j k with
  | some (.obj m) => m.toList.map fun (h, v) => (h, numToInt v 0)
  | _ => []

def parseWorld (j : Json) : Except String World := do
  pure { slaveEnabled := ← jStrList j "slave_enabled", masterEnabled := ← jBool j "master_enabled",
         waitCount := ← jInt j "wait_count", published := ← jStrList j "published" }

def parseEv (j : Json) : Except String Ev := do
  let c ← jStr j "call"
  let h ← jStr j "host"
  let arg ← jStr j "arg"
  let ok ← jBool j "ok"
  let call ← (match c with
    | "pingMaster" => pure Call.pingMaster
    | "pingMasterShrink" => pure Call.pingMasterShrink
    | "ssDisable" => pure (Call.ssDisable h)
    | "ssSetSlave" => pure (Call.ssSetSlave h)
    | "ssSetMaster" => pure (Call.ssSetMaster h)
    | "ssWaitCount" => pure (Call.ssWaitCount h (arg.toInt?.getD 0))
    | "restartIO" => pure (Call.restartIO h)
    | "restartReplica" => pure (Call.restartReplica h)
    | "setDefaultSettings" => pure (Call.setDefaultSettings h)
    | "optEnable" => pure (Call.optEnable h)
    | "publish" => (match Json.parse arg with
        | .ok (.arr a) => pure (Call.publish (a.toList.filterMap fun x => x.getStr?.toOption))
        | .ok .null => pure (Call.publish [])
        | _ => throw s!"bad publish arg {arg}")
    | other => throw s!"unexpected call {other} at {h}" : Except String Call)
  pure ⟨call, ok⟩

def callKind : Call → String
  | .pingMaster => "pingMaster" | .pingMasterShrink => "pingMasterShrink" | .ssDisable _ => "ssDisable" | .ssSetSlave _ => "ssSetSlave"
  | .ssSetMaster _ => "ssSetMaster" | .ssWaitCount _ _ => "ssWaitCount" | .restartIO _ => "restartIO" | .restartReplica _ => "restartReplica"
  | .setDefaultSettings _ => "setDefaultSettings" | .optEnable _ => "optEnable" | .publish _ => "publish"

def callHost : Call → String
  | .ssDisable h | .ssSetSlave h | .ssSetMaster h | .ssWaitCount h _ | .restartIO h | .restartReplica h | .setDefaultSettings h | .optEnable h => h
  | _ => ""

/-- canonical form: the events of the `becomeInactive` block (random Go map order) sorted by host -/
def canon (block : List String) (tr : List Ev) : List Ev :=
  let inBlock := fun (e : Ev) => (match e.call with | .ssDisable h | .restartIO h => block.contains h | _ => false)
  let pre := tr.takeWhile (!inBlock ·)
  let rest := tr.dropWhile (!inBlock ·)
  let mid := rest.takeWhile inBlock
  let post := rest.dropWhile inBlock
  let sorted := block.flatMap fun h => mid.filter fun e => callHost e.call == h
  pre ++ sorted ++ post

def handle : Handler := fun j a => do
  let cfg ← parseCfg (← j.getObjVal? "cfg")
  let cs ← parseClusterState j "cs"
  let dcs ← parseClusterState j "dcs"
  let old ← jStrList j "old"
  let master ← jStr j "master"
  let recovery ← jStrList j "recovery"
  let mgtid ← jStr j "mgtid"
  let muuid ← jStr j "muuid"
  let now ← jInt j "now"
  let dcsFail ← jStr j "dcs_fail"
  let failj ← j.getObjVal? "fail"
  let fHost ← jStr failj "host"
  let fOp ← jStr failj "op"
  let fNth := jIntOr failj "nth" 0
  let world0 ← parseWorld (← j.getObjVal? "world0")
  let final ← parseWorld (← j.getObjVal? "final")
  let reach ← jStrList j "reachable"
  let trace0 ← (← jArr j "trace").toList.mapM parseEv
  -- without semi-sync the only master ping is the one inside canShrinkActiveNodes
  let trace := if cfg.semiSync then trace0 else trace0.map fun e => if e.call == .pingMaster then { e with call := .pingMasterShrink } else e
  let errRet ← jBool j "err"
  let panicked ← jStr j "panic"
  let aheadJ ← j.getObjVal? "ahead"
  let readPos : List (String × String) := match jOpt j "read_pos" with
    | some (.obj m) => m.toList.map fun (h, v) => (h, v.getStr?.toOption.getD "")
    | _ => []
  let binlogs : List (String × Int) := ((jOpt j "binlogs").bind fun b => b.getArr?.toOption).getD #[] |>.toList.filterMap fun p =>
    match p.getArr? with
    | .ok xs => if xs.size == 2 then some (xs[0]!.getStr?.toOption.getD "", numToInt xs[1]! 0) else none
    | .error _ => none
  let ci : CalcIn := { cs := cs, dcs := dcs, oldActive := old, master := master,
                       recovery := if dcsFail == "recovery" then none else some recovery,
                       mgtid := some mgtid, muuid := some muuid, timers := parseTimers j "timers", now := now }
  let fails : Call → Bool := fun c =>
    (match c with
     | .publish _ => dcsFail == "publish"
     | .pingMaster => fOp == "ping" && fNth == 1
     | .pingMasterShrink => fOp == "ping" && (if cfg.semiSync then fNth == 2 else fNth == 1)
     | .ssDisable h => fOp == "ss_disable" && fHost == h
     | .ssSetSlave h => fOp == "ss_set_slave" && fHost == h
     | .ssSetMaster h => fOp == "ss_set_master" && fHost == h
     | .ssWaitCount h _ => fOp == "ss_wait_count" && fHost == h
     | .restartIO h => (fOp == "stop_io" || fOp == "start_io") && fHost == h
     | .restartReplica h => fOp == "stop_replica" && fHost == h
     | .setDefaultSettings h => fOp == "set_flush" && fHost == h
     | .optEnable _ => false)
  let mut a := a
  if panicked != "" then
    a := a.mismatch s!"c04 panic '{panicked}' on {j.compress}"
    return a
  match calcActiveNodes cfg.inactivationDelay ci with
  | none =>
    if !(trace.isEmpty && errRet) then a := a.mismatch s!"c04 model: calc fails, impl trace={repr trace} err={errRet} on {j.compress}"
    a := a.tag "c04:calc-error"
    pure (a.note false)
  | some (active, cls, timers') =>
    let chg := calcChanges cfg cs active old master (some binlogs) readPos
    match chg with
    | none => pure (a.mismatch s!"c04 model changes = none on {j.compress}")
    | some ch =>
      let ui : UpdIn := { cs := cs, master := master, oldActive := old, active := active, changes := ch,
                          ahead := fun h => jBoolOr aheadJ h false, fails := fails }
      let mtr := if cfg.semiSync then updateSemiSync cfg ui else updateAsync ui
      let syncReplicas := (cs.filter fun (_, s) => match s.semiSync with | some ss => ss.slaveEnabled | none => false).map (·.1)
      let block := sortStr (if cfg.semiSync then filterOut syncReplicas active else cs.map (·.1))
      if canon block mtr != canon block trace then
        a := a.mismatch s!"c04 trace impl={repr (canon block trace)} model={repr (canon block mtr)} active={active} changes={repr ch} cls={repr cls} on {j.compress}"
      -- timers
      let tAfter := parseTimers j "timers_after"
      -- a timer started in this iteration is read off the clock somewhere inside it: any instant of the iteration matches
      let nowEnd := (jInt j "now_end").toOption.getD now
      let tBefore := parseTimers j "timers"
      let tAfterN : Timers := tAfter.map fun (h, v) =>
        if (tBefore.lookup h).isNone && timers'.lookup h == some now && now ≤ v && v ≤ nowEnd then (h, now) else (h, v)
      let norm := fun (t : Timers) => sortStr (t.map fun (h, v) => s!"{h}={v}")
      if norm timers' != norm tAfterN then a := a.mismatch s!"c04 timers impl={norm tAfter} model={norm timers'} on {j.compress}"
      -- world conformance of my own fake (harness inconsistency, never a property violation)
      let wEnd := world0.run master trace
      if sortStr wEnd.slaveEnabled != sortStr final.slaveEnabled || wEnd.masterEnabled != final.masterEnabled ||
         (wEnd.masterEnabled && wEnd.waitCount != final.waitCount) || wEnd.published != final.published then
        a := a.mismatch s!"c04 HARNESS INCONSISTENT: Lean world after the trace {repr wEnd} ≠ fake servers {repr final} on {j.compress}"
      -- ---- monitors ----
      -- membership of what was published (judged by the proved classification)
      for e in trace do
        match e.call with
        | .publish l =>
          if e.ok then
            for h in l do
              match cls.lookup h with
              | some m => if !m.isMember then a := a.violationSig s!"C04:published-list-contains-{(repr m).pretty}" s!"host {h} in {j.compress}"
              | none => a := a.violationSig "C04:published-list-contains-unregistered-host" s!"host {h} in {j.compress}"
            -- eviction only after a successful master ping
            let removed := filterOut old l
            if !removed.isEmpty && !(trace.any fun e' => (e'.call == .pingMasterShrink || e'.call == .pingMaster) && e'.ok) then
              a := a.violationSig "C04:eviction-without-master-ping" j.compress
        | _ => pure ()
      -- (a) and (b) on every prefix of the real trace (a crash point is a prefix)
      let a0 := invA reach world0
      let b0 := !cfg.semiSync || invB cfg world0
      let mut w := world0
      let mut okA := a0
      let mut okB := b0
      for e in trace do
        let w' := w.applyEv master e
        let na := invA reach w'
        -- C11: a host marked for recovery is never in a published list (unless it is the recorded master)
        match e.call with
        | .publish l =>
          if e.ok && l.any (fun h => h != master && recovery.contains h) && dcsFail != "recovery" then
            a := a.violationSig "C11:marked-host-in-published-active-list" s!"published {l}, marked {recovery} in {j.compress}"
        -- a replica the iteration itself takes out of the acknowledging set (not listed, or held back by the download-lag
        -- gate) is not made an acker in the same iteration
        | .ssSetSlave h =>
          if e.ok && ch.becomeInactive.contains h then
            a := a.violationSig "C04:semi-sync-enabled-on-a-replica-the-same-iteration-holds-back" s!"{h} in {j.compress}"
        | _ => pure ()
        let nb := !cfg.semiSync || invB cfg w'
        if okA && !na then
          let sig := match e.call with
            | .ssSetSlave h => if !w.published.contains h then "C04:A:crash-window:semi-sync-enabled-on-joining-replica-before-it-is-published" else s!"C04:A-destroyed-by:ssSetSlave:other"
            | .publish l =>
              let culprits := reach.filter fun h => w'.slaveEnabled.contains h && !l.contains h
              if !culprits.isEmpty && culprits.all (fun h => trace.any fun e' => !e'.ok && callHost e'.call == h) then
                "C04:A:failed-call:replica-left-out-of-the-published-list-while-its-semi-sync-flag-stays-on-after-a-failed-call-on-it"
              else "C04:A-destroyed-by:publish:other"
            | c => s!"C04:A-destroyed-by:{callKind c}:other"
          a := a.violationSig sig j.compress
        if okB && !nb then
          let order := if cfg.masterFirst then "master-first" else "legacy"
          let lowers := match e.call with
            | .ssDisable h => h == master
            | .ssWaitCount h n => h == master && n < w.waitCount
            | _ => false
          let sig := match e.call with
            | .publish l =>
              if !ch.dataLag.isEmpty && effWait w' ≥ req cfg (filterOut l ch.dataLag) then
                "C04:B:published-list-counts-a-data-lagging-replica-the-master-does-not-wait-for"
              else if trace.any (fun e' => !e'.ok) then
                "C04:B:failed-call:list-published-after-a-failed-call-left-the-master-ack-count-below-what-the-list-implies"
              else s!"C04:B-destroyed-by:publish:other:{order}"
            | c => if lowers then s!"C04:B:crash-window:master-ack-count-lowered-before-the-smaller-list-is-published:{order}"
                   else s!"C04:B-destroyed-by:{callKind c}:other:{order}"
          a := a.violationSig sig j.compress
        okA := na
        okB := nb
        w := w'
      -- completed, fault-free iteration with a healthy master restores (a) and (b)
      if fOp == "" && dcsFail == "" && !errRet && cfg.semiSync then
        if !invA reach w then a := a.violationSig "C04:complete-iteration-leaves-A-broken" j.compress
        if !invB cfg w then
          if !ch.dataLag.isEmpty && effWait w ≥ req cfg (filterOut w.published ch.dataLag) then
            a := a.violationSig "C04:B:published-list-counts-a-data-lagging-replica-the-master-does-not-wait-for" j.compress
          else
            a := a.violationSig "C04:complete-iteration-leaves-B-broken:other" j.compress
            -- the same fact is C10's clause "bring the master … to the semi-sync setting implied by the active list"
            a := a.violationSig "C10:master-not-brought-to-the-semi-sync-setting-implied-by-the-active-list" j.compress
      a := a.note (!trace.isEmpty)
      a := a.tag (if cfg.semiSync then "c04:semisync" else "c04:async")
      a := if !ch.becomeActive.isEmpty then a.tag "c04:become-active" else a
      a := if !ch.becomeInactive.isEmpty then a.tag "c04:become-inactive" else a
      a := if !ch.dataLag.isEmpty then a.tag "c04:data-lag" else a
      a := if fOp != "" then a.tag "c04:single-failing-call" else a
      a := if filterOut old active != [] then a.tag "c04:eviction" else a
      a := a.sample j.compress 1
      pure a

end Replay.C04
