import MysyncModel.Replay.NodeStateJson
import MysyncModel.App.DiskGuard

namespace Replay.C18
open Lean NS DiskGuard

/-- classify what the implementation did at the master from the statement log -/
def implClass (stmts : List String) : String :=
  let ops := stmts.map fun s => (s.splitOn ":").getD 1 ""
  let core := ops.filter fun o => o != "kill"
  if core.isEmpty then "none"
  else if core.all (· == "set_ro_super") then "ro-super"
  else if core.all (· == "set_ro_nosuper") then "ro-nosuper"
  else if core == ["set_writable"] then "writable"
  else "other:" ++ toString core

def specClass (d : Decision) : String :=
  match d with
  | .setReadOnly true => "ro-super"
  | .setReadOnly false => "ro-nosuper"
  | .setWritable => "writable"
  | _ => "none"

def handle : Handler := fun j a => do
  let cfgj ← j.getObjVal? "cfg"
  let cfg : Cfg := { semiSync := ← jBool cfgj "semi_sync", keepSuperWritable := ← jBool cfgj "keep_super",
                     crit := ← jInt cfgj "crit", notCrit := ← jInt cfgj "not_crit" }
  let master ← jStr j "master"
  let ms := parseNodeState (← j.getObjVal? "ms")
  let dcs ← parseClusterState j "dcs"
  let fault ← jBool j "fault"
  let stmts ← jStrList j "stmts"
  let low ← jStr j "low_space"
  let d := decide_ cfg master ms dcs
  let ic := implClass stmts
  let sc := specClass d
  let mut a := a
  if ic != sc then
    a := a.mismatch s!"c18 impl={ic} model={sc} ({repr d}) on {j.compress}"
    a := a.violationSig s!"C18:impl={ic}:spec={sc}" s!"{j.compress}"
  let expLow := match lowSpaceWrite d (!fault) with | some true => "true" | some false => "false" | none => ""
  if low != expLow then
    a := a.mismatch s!"c18 low_space impl='{low}' model='{expLow}' on {j.compress}"
    a := a.violationSig s!"C18:low_space={low}:spec={expLow}" s!"{j.compress}"
  -- statements must only go to the master
  if stmts.any (fun s => !s.startsWith (master ++ ":")) then
    a := a.violationSig "C18:statement-at-other-host" j.compress
  a := a.note (sc != "none" || dcs.length > 1)
  a := a.tag s!"decision:{sc}"
  a := if fault then a.tag "fault:stmt-fails" else a
  a := (match d with | .greyZone => a.tag "grey-zone" | .alreadyReadOnly => a.tag "already-ro" | _ => a)
  a := a.sample j.compress 2
  pure a

end Replay.C18
