import MysyncModel.Replay.NodeStateJson
import MysyncModel.App.Maintenance

namespace Replay.C09
open Lean NS Manager Maintenance

def actName : Act → Option String
  | .writeMaintFile => some "writeMaintFile" | .removeMaintFile => some "removeMaintFile"
  | .writeEmerge => some "writeEmerge" | .setMasterHost h => some s!"setMasterHost:\"{h}\""
  | .repairCluster => some "repairCluster" | .updateActiveNodes => some "updateActiveNodes"
  | .deleteMaintenance => some "deleteMaintenance"
  | _ => none

def stateName : State → String
  | .manager => "Manager" | .candidate => "Candidate" | .lost => "Lost" | .maintenance => "Maintenance" | .firstRun => "FirstRun"

def handle : Handler := fun j a => do
  let handler ← jStr j "handler"
  let maintCode ← jNat j "maint"
  let lock ← jBool j "lock"
  let connected ← jBool j "connected"
  let fileBefore ← jBool j "file_before"
  let cs ← parseClusterState j "cs"
  let next ← jStr j "next"
  let acts ← jStrList j "acts"
  let mutating ← jStrList j "mutating"
  let writes ← jStrList j "writes"
  let activeAfter ← jStrList j "active_after"
  let masterAfter ← jStr j "master_after"
  let maintAfter ← jBool j "maint_after"
  let panicked ← jStr j "panic"
  let maint : MaintRead := match maintCode with
    | 0 => .absent | 1 => .record false true false | 2 => .record false true true | 3 => .record true true false
    | 4 => .record false false false | 5 => .err false | _ => .record true true true
  let mut a := a
  if panicked != "" then
    a := a.mismatch s!"c09h panic '{panicked}' on {j.compress}"
  else if handler == "maintenance" then
    let li : LeaveIn := { cs := cs, activeAfter := some activeAfter }
    let (mActs, mNext) := stateMaintenance fileBefore maint lock li
    -- when the real leave fails inside the abstract sub-steps the action prefix still has to agree
    -- the marker file is compared through its final state (a write followed by a remove inside one
    -- handler call is invisible from outside)
    let isFile := fun (x : String) => x == "writeMaintFile" || x == "removeMaintFile"
    let mNames := (mActs.filterMap actName).filter (!isFile ·)
    let acts := acts.filter (!isFile ·)
    let expFile := (fileBefore || mActs.contains .writeMaintFile) && !mActs.contains .removeMaintFile
    let fileAfter ← jBool j "file_after"
    if expFile != fileAfter then a := a.mismatch s!"c09h maintenance marker file impl={fileAfter} model={expFile} on {j.compress}"
    if stateName mNext != next then a := a.mismatch s!"c09h maintenance next impl={next} model={stateName mNext} acts impl={acts} model={mNames} on {j.compress}"
    else if mNames != acts then a := a.mismatch s!"c09h maintenance acts impl={acts} model={mNames} on {j.compress}"
  else if handler == "candidate" then
    let m := stateCandidate connected true maint lock
    if stateName m != next then a := a.mismatch s!"c09h candidate next impl={next} model={stateName m} on {j.compress}"
  else
    let m := stateFirstRun connected fileBefore lock
    if stateName m != next then a := a.mismatch s!"c09h firstrun next impl={next} model={stateName m} on {j.compress}"
  -- ---- monitors (property C09) ----
  let paused := maintCode == 1 || maintCode == 5 || maintCode == 3 || maintCode == 4
  if handler == "maintenance" && paused then
    if !mutating.isEmpty then a := a.violationSig "C09:statement-while-paused" j.compress
    if writes.any (fun w => w.startsWith "set:master" || w.startsWith "set:active_nodes" || w.startsWith "delete:active_nodes" || w.startsWith "delete:maintenance") then
      a := a.violationSig "C09:coordination-write-while-paused" j.compress
    if next != "Maintenance" then a := a.violationSig "C09:left-paused-state-without-leave-request" j.compress
  if handler != "maintenance" then
    if !mutating.isEmpty || writes.any (fun w => !w.startsWith "create:optimization_nodes") then
      a := a.violationSig "C09:candidate-or-firstrun-acts" j.compress
  if handler == "candidate" && next == "Maintenance" && !(maintCode == 1 || maintCode == 2) then
    a := a.violationSig "C09:candidate-paused-without-acknowledged-full-maintenance" j.compress
  -- leaving
  let masters := mastersOf cs
  if acts.contains "deleteMaintenance" then
    if masters.length != 1 then a := a.violationSig "C09:left-maintenance-without-exactly-one-master" j.compress
    else
      if masterAfter != masters.headD "" then a := a.violationSig "C09:left-maintenance-with-wrong-recorded-master" j.compress
      if activeAfter.isEmpty then a := a.violationSig "C09:left-maintenance-with-empty-active-list" j.compress
  if handler == "maintenance" && masters.length ≥ 2 && (maintCode == 0 || maintCode == 2 || maintCode == 6) && lock then
    if !acts.contains "writeEmerge" then a := a.violationSig "C09:several-masters-without-emergency-marker" j.compress
    if !maintAfter && maintCode != 0 then a := a.violationSig "C09:left-maintenance-with-several-masters" j.compress
  a := a.note (!acts.isEmpty)
  a := a.tag s!"c09:{handler}:next:{next}"
  a := if acts.contains "deleteMaintenance" then a.tag "c09:left" else a
  a := if acts.contains "writeEmerge" then a.tag "c09:emerge" else a
  a := a.sample j.compress 1
  pure a

end Replay.C09
