/-
Shared plumbing of the replay executable: JSON field access, result accumulation.
Core-only (Lean.Data.Json lives in the toolchain), never imports Mathlib.
-/
import Lean.Data.Json
import Std.Data.HashSet

namespace Replay
open Lean

structure Acc where
  lines      : Nat := 0
  mismatches : Nat := 0          -- model ≠ implementation (correspondence)
  violations : Nat := 0          -- property monitor false on the implementation's own output
  malformed  : Nat := 0
  firstMismatch  : List String := []
  firstViolation : List String := []
  kinds : List (String × Nat) := []
  /-- violation signatures with count and up to three example messages (known-findings are matched on the signature) -/
  sigs : List (String × Nat × List String) := []
  /-- distinct cases seen / how many of them non-trivial by the handler's stated rule; the set of
  seen cases itself is threaded through the main loop (keyed by the hash of the trace line), the
  handler only says whether the case is non-trivial -/
  pendingNt : Option Bool := none
  distinct : Nat := 0
  nontrivial : Nat := 0
  /-- free-form branch / outcome counters (input distribution for the evidence) -/
  tags : List (String × Nat) := []
  samples : List String := []

def Acc.bumpKind (a : Acc) (k : String) : Acc :=
  let rec go : List (String × Nat) → List (String × Nat)
    | [] => [(k, 1)]
    | (k', n) :: r => if k' == k then (k', n + 1) :: r else (k', n) :: go r
  { a with kinds := go a.kinds }

def Acc.mismatch (a : Acc) (msg : String) : Acc :=
  { a with mismatches := a.mismatches + 1,
           firstMismatch := if a.firstMismatch.length < 5 then a.firstMismatch ++ [msg] else a.firstMismatch }

def bumpAssoc (l : List (String × Nat)) (k : String) : List (String × Nat) :=
  match l with
  | [] => [(k, 1)]
  | (k', n) :: r => if k' == k then (k', n + 1) :: r else (k', n) :: bumpAssoc r k

def Acc.violationSig (a : Acc) (sig msg : String) : Acc :=
  let rec go : List (String × Nat × List String) → List (String × Nat × List String)
    | [] => [(sig, 1, [msg])]
    | (s, n, ms) :: r => if s == sig then (s, n + 1, if ms.length < 3 then ms ++ [msg] else ms) :: r else (s, n, ms) :: go r
  { a with violations := a.violations + 1, sigs := go a.sigs,
           firstViolation := if a.firstViolation.length < 5 then a.firstViolation ++ [msg] else a.firstViolation }

def Acc.violation (a : Acc) (msg : String) : Acc := a.violationSig "unclassified" msg

/-- record whether the explored case is non-trivial (distinctness is decided by the main loop) -/
def Acc.note (a : Acc) (nt : Bool) : Acc := { a with pendingNt := some nt }

def Acc.tag (a : Acc) (t : String) : Acc := { a with tags := bumpAssoc a.tags t }

def Acc.sample (a : Acc) (s : String) (max : Nat := 4) : Acc :=
  if a.samples.length < max then { a with samples := a.samples ++ [s] } else a

def jInt (j : Json) (k : String) : Except String Int := do
  let v ← j.getObjVal? k
  v.getInt?

def jNat (j : Json) (k : String) : Except String Nat := do
  let v ← j.getObjVal? k
  v.getNat?

def jBool (j : Json) (k : String) : Except String Bool := do
  let v ← j.getObjVal? k
  v.getBool?

def jStr (j : Json) (k : String) : Except String String := do
  let v ← j.getObjVal? k
  v.getStr?

def jArr (j : Json) (k : String) : Except String (Array Json) := do
  let v ← j.getObjVal? k
  v.getArr?

def jStrList (j : Json) (k : String) : Except String (List String) := do
  let a ← jArr j k
  a.toList.mapM (·.getStr?)

def jIntList (j : Json) (k : String) : Except String (List Int) := do
  let a ← jArr j k
  a.toList.mapM (·.getInt?)

def jOpt (j : Json) (k : String) : Option Json :=
  match j.getObjVal? k with
  | .ok .null => none
  | .ok v => some v
  | .error _ => none

/-- a handler consumes one JSON line of its kind -/
abbrev Handler := Json → Acc → Except String Acc

def summaryJson (a : Acc) : Json :=
  Json.mkObj [
    ("lines", toJson a.lines), ("mismatches", toJson a.mismatches), ("violations", toJson a.violations),
    ("malformed", toJson a.malformed),
    ("first_mismatches", toJson a.firstMismatch), ("first_violations", toJson a.firstViolation),
    ("kinds", Json.mkObj (a.kinds.map fun (k, n) => (k, toJson n))),
    ("distinct", toJson a.distinct), ("nontrivial", toJson a.nontrivial),
    ("tags", Json.mkObj (a.tags.map fun (k, n) => (k, toJson n))),
    ("samples", toJson a.samples),
    ("sigs", Json.arr (a.sigs.map fun (s, n, ms) => Json.mkObj [("sig", toJson s), ("count", toJson n), ("examples", toJson ms)]).toArray)]

end Replay
