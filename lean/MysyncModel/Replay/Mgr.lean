import MysyncModel.Replay.NodeStateJson
import MysyncModel.App.Manager

namespace Replay.Mgr
open Lean NS Manager

def parseCfg (j : Json) : Except String Cfg := do
  pure { failover := ← jBool j "failover", failoverDelay := ← jInt j "failover_delay", failoverCooldown := ← jInt j "failover_cooldown",
         resetupCrashedHosts := ← jBool j "resetup_crashed_hosts", semiSync := ← jBool j "semi_sync", waitCount := ← jInt j "wait_count",
         switchoverTimeout := ← jInt j "switchover_timeout", switchoverMaxAttempts := ← jInt j "switchover_max_attempts" }

def stepName : Step → Option String
  | .writeEmerge => some "writeEmerge"
  | .setMaintPaused ok => some s!"setMaintPaused:{ok}"
  | .enterMaintenance ok => some s!"enterMaintenance:{ok}"
  | .tryLeaveMaintenance => some "tryLeaveMaintenance"
  | .switchTimedOut => some "switchTimedOut"
  | .switchRejected => some "switchRejected"
  | .switchStarted ok => some s!"switchStarted:{ok}"
  | .switchPerformed .ok => some "switchPerformed:ok"
  | .switchPerformed .failed => some "switchPerformed:failed"
  | .switchPerformed .abortedMeanwhile => some "switchPerformed:aborted"
  | .switchPerformed .panicked => some "switchPerformed:panicked"
  | .switchFailed => some "switchFailed"
  | .switchFinished => some "switchFinished"
  | .issueFailover => some "issueFailover"
  | .repairCluster => some "repairCluster"
  | .updateActiveNodes => some "updateActiveNodes"
  | .syncOptimization => some "syncOptimization"
  | .panic _ => some "PANIC"
  -- log-only steps are not observable from outside
  | .failoverSuppressedByLight | .masterFailureSeen | .setFailTimer | .cleanFailTimer | .notApproved _
  | .suspicious | .repairOffline | .crashRecoverySeen => none

def stateName : State → String
  | .manager => "Manager" | .candidate => "Candidate" | .lost => "Lost" | .maintenance => "Maintenance" | .firstRun => "FirstRun"

def parseState (s : String) : State :=
  if s == "Candidate" then .candidate else if s == "Lost" then .lost else if s == "Maintenance" then .maintenance
  else if s == "FirstRun" then .firstRun else .manager

def parseIn (j : Json) (obsPerform : String) (obsNext : String) : Except String In := do
  let maintCode ← jNat j "maint"
  let maint : MaintRead := match maintCode with
    | 0 => .absent | 1 => .record true true false | 2 => .record true false false | 3 => .record true true true
    | 4 => .record false false false | 5 => .record false true false | 6 => .err false | _ => .err true
  let swRead ← jNat j "sw_read"
  let sw : SwitchRead ← (if swRead == 4 then pure SwitchRead.err else
    match jOpt j "sw" with
    | none => pure SwitchRead.absent
    | some s => do
      let f ← jStr s "from"
      let t ← jStr s "to"
      let ca ← jBool s "cause_auto"
      let ft ← jBool s "failover_type"
      let rc ← jInt s "run_count"
      let ia := (jOpt s "initiated_at").map fun v => numToInt v 0
      pure (SwitchRead.record { from_ := f, to := t, causeAuto := ca, failoverType := ft, runCount := rc, initiatedAt := ia }))
  let lastCode ← jNat j "last"
  let last : LastSwitchRead ← (if lastCode == 5 then pure LastSwitchRead.err else
    match jOpt j "last_rec" with
    | none => pure LastSwitchRead.absent
    | some l => do
      let rn ← jBool l "result_nil"
      let ca ← jBool l "cause_auto"
      pure (LastSwitchRead.record rn ca (jIntOr l "finished_at" 0)))
  let fault ← jNat j "dcs_fault"
  pure {
    connected := ← jBool j "connected", lockHeld := ← jBool j "lock_held",
    master := some (← jStr j "master"), activeNodes := ← jStrList j "active_nodes",
    cs := ← parseClusterState j "cs", dcs := ← parseClusterState j "dcs",
    maint := maint, sw := sw, last := last, now := ← jInt j "now",
    failedAt := (jOpt j "failed_at").map fun v => numToInt v 0,
    setPausedOk := fault != 1, enterMaintOk := fault != 1 && jBoolOr j "master_alive" true, startOk := fault != 2,
    perform := if obsPerform == "failed" then .failed else if obsPerform == "aborted" then .abortedMeanwhile
               else if obsPerform == "panicked" then .panicked else .ok,
    tryLeaveNext := parseState obsNext }

/-- C05: the property's gates, written from the property text (not from the code's structure) and
evaluated on what the iteration could observe -/
def gatesOpen (cfg : Cfg) (i : In) (master : String) (timer : Option Int) : Bool :=
  cfg.failover &&
  (i.maint == .absent || i.maint == .err false) &&     -- neither full nor light maintenance is (readably) active
  (i.sw == .absent) &&                                   -- no other request
  (match i.dcs.get? master with
   | none => false
   | some md =>
     let crash := md.daemonCrashRecovery == some true && cfg.resetupCrashedHosts
     let bad := !md.pingOk || md.isFsReadonly
     let running := countRunningHASlaves i.cs
     (bad || crash) &&
     (crash || md.isFsReadonly ||
       (!(running > 0 && running == countHANodes i.cs - 1) &&
        (cfg.failoverDelay ≤ 0 || (match timer with | some t => decide (i.now - t ≥ cfg.failoverDelay) | none => false))))) &&
  (Gen.SwitchHelper.CheckFailoverQuorum (sh cfg) i.activeNodes (countAliveHASlavesWithin i.activeNodes i.cs)).isNone &&
  (match i.last with
   | .absent => true
   | .err => false
   | .record resultNil causeAuto fin => !resultNil && !(causeAuto && decide (i.now - fin < cfg.failoverCooldown)))

def handleTick : Handler := fun j a => do
  let cfg ← parseCfg (← j.getObjVal? "cfg")
  let obs ← j.getObjVal? "obs"
  let prop ← jStr j "prop"
  let perform := jStrOr obs "perform" ""
  let oNext ← jStr obs "next"
  let i ← parseIn (← j.getObjVal? "in") perform oNext
  let oSteps ← jStrList obs "steps"
  let oFailed := jIntOr obs "failed_at" 0
  let mutating ← jStrList obs "mutating"
  let dcsWrites ← jStrList obs "dcs_writes"
  let out := stateManager cfg i
  let mSteps := out.steps.filterMap stepName
  let mut a := a
  let panicked := oSteps.contains "PANIC"
  if mSteps != oSteps then a := a.mismatch s!"mgrtick steps impl={oSteps} model={mSteps} (all model steps {repr out.steps}) on {j.compress}"
  if !panicked && stateName out.next != oNext then a := a.mismatch s!"mgrtick next impl={oNext} model={stateName out.next} on {j.compress}"
  -- the process reads the clock when it notices the failure, i.e. somewhere inside the iteration: a timer the model
  -- starts in this iteration (`some i.now` with no timer before) matches any instant of the iteration
  let nowEnd := ((j.getObjVal? "in").toOption.bind fun ij => (jInt ij "now_end").toOption).getD i.now
  let startedNow := i.failedAt.isNone && out.failedAt == some i.now
  -- the procedure's own `updateActiveNodes` (at promotion) cleans the failure timer of every host that answers — the old
  -- master's too (the timer key is shared with the "replica is failing" bookkeeping of `calcActiveNodes`)
  let cleanedByProcedure := oFailed == 0 && oSteps.any (·.startsWith "switchPerformed")
  if !panicked && out.failedAt.getD 0 != oFailed && !(startedNow && i.now ≤ oFailed && oFailed ≤ nowEnd) && !cleanedByProcedure then a := a.mismatch s!"mgrtick failedAt impl={oFailed} model={out.failedAt} on {j.compress}"
  let master := i.master.getD ""
  -- ---- C05 monitors ----
  if oSteps.contains "issueFailover" then
    -- the timer the approval looked at: set in this very iteration if it was zero
    let timer := match i.failedAt with | some t => some t | none => some i.now
    if !gatesOpen cfg i master timer then a := a.violationSig "C05:failover-filed-with-a-gate-closed" j.compress
    if !(i.connected && i.lockHeld) then a := a.violationSig "C03:cluster-wide-write-without-lock" j.compress
    -- "bad at every evaluation by the current manager for at least the failover delay": measured on the harness's own record
    -- of the health records it published, not on the daemon's timer
    let ij := (j.getObjVal? "in").toOption.getD Json.null
    let badSince := jIntOr ij "bad_since" 0
    let exempt := match i.dcs.get? master with
      | some md => (md.daemonCrashRecovery == some true && cfg.resetupCrashedHosts) || md.isFsReadonly
      | none => false
    if cfg.failoverDelay > 0 && !exempt && !(jBoolOr ij "bad_since_zero" true) && i.now - badSince < cfg.failoverDelay && jIntOr j "tick" 0 ≥ 0 then
      a := a.violationSig "C05:failover-filed-before-the-record-was-bad-for-the-whole-delay" s!"bad for {(i.now - badSince) / 1000000000}s of {cfg.failoverDelay / 1000000000}s in {j.compress}"
  -- suspicious master: unreachable from the manager, own record good => nothing filed, no repair, no statements
  match i.cs.get? master, i.dcs.get? master with
  | some cm, some md =>
    if !cm.pingOk && md.pingOk && !md.isFsReadonly && i.sw == .absent && (i.maint == .absent || i.maint == .err false) then
      if oSteps.contains "issueFailover" then a := a.violationSig "C05:suspicious-master-failover-filed" j.compress
      if oSteps.contains "repairCluster" || oSteps.contains "updateActiveNodes" || !mutating.isEmpty then
        a := a.violationSig "C05:suspicious-master-repair-performed" j.compress
  | _, _ => pure ()
  -- ---- C03-ii monitor: anything cluster-wide only with the lock ----
  if !(i.connected && i.lockHeld) then
    if !mutating.isEmpty || !dcsWrites.isEmpty then a := a.violationSig "C03:action-without-lock" j.compress
  -- ---- C09 monitors: acknowledged full maintenance is inert ----
  if i.maint == .record false true false || i.maint == .record false true true then
    if !mutating.isEmpty || dcsWrites.any (fun w => w.endsWith ":master" || w.endsWith ":active_nodes") then
      a := a.violationSig "C09:action-under-acknowledged-full-maintenance" j.compress
    if oNext != "Maintenance" && i.connected && i.lockHeld then a := a.violationSig "C09:manager-does-not-pause" j.compress
  if (i.maint == .record true true false || i.maint == .record true false false) && oSteps.contains "issueFailover" then
    a := a.violationSig "C09:failover-filed-under-light-maintenance" j.compress
  -- light maintenance suppresses failover, automatic OR operator-forced: a pending failover-type request is left alone
  match i.maint, i.sw with
  | .record true _ _, .record sw =>
    if sw.failoverType && (oSteps.any fun s => s.startsWith "switchStarted" || s.startsWith "switchPerformed" || s == "switchRejected") then
      a := a.violationSig "C09:failover-request-taken-up-under-light-maintenance" j.compress
  | _, _ => pure ()
  -- C09: once the acknowledgement of full maintenance is visible nothing is changed any more — in this very iteration too
  let afterAck := (jStrList obs "after_ack").toOption.getD []
  if !afterAck.isEmpty then
    a := a.violationSig "C09:change-after-the-acknowledgement-of-full-maintenance-was-written" s!"{afterAck} in {j.compress}"
  -- ---- C06 monitors: request lifecycle ----
  let after ← j.getObjVal? "after"
  let swPresentAfter := jBoolOr after "switch_present" false
  let active := i.connected && i.lockHeld && !panicked &&
    (match i.maint with | .absent | .err false => true | .record true _ false => true | _ => false)
  let dcsFault := jIntOr (← j.getObjVal? "in") "dcs_fault" 0
  match i.sw with
  | .record sw =>
    let lightParked := (match i.maint with | .record true _ _ => sw.failoverType | _ => false)
    if active && !lightParked && dcsFault == 0 then
      let timedOut := match sw.initiatedAt with | some t => decide (i.now - t > cfg.switchoverTimeout) | none => false
      if timedOut && swPresentAfter then
        a := a.violationSig "C06:timed-out-request-still-pending" j.compress
      let overLimit := !sw.failoverType && cfg.switchoverMaxAttempts > 0 && sw.runCount ≥ cfg.switchoverMaxAttempts
      if !timedOut && overLimit && swPresentAfter then
        a := a.violationSig "C06:request-pending-past-attempt-limit" j.compress
      if !timedOut && !overLimit && sw.runCount > 0 && oSteps.contains "switchRejected" then
        a := a.violationSig "C06:approved-request-rejudged-on-retry" j.compress
      if oSteps.contains "switchFailed" && jIntOr after "run_count" (-1) != sw.runCount + 1 then
        a := a.violationSig "C06:failed-attempt-not-counted-once" j.compress
    -- exactly one terminal outcome: a request the operator aborted, or the daemon recorded as rejected, in this iteration
    -- must not be pending afterwards
    if jBoolOr after "operator_aborted" false && swPresentAfter && dcsFault == 0 then
      a := a.violationSig "C06:aborted-request-comes-back" j.compress
    if jBoolOr after "rejected_written" false && swPresentAfter && dcsFault == 0 then
      a := a.violationSig "C06:rejected-request-still-pending" j.compress
    if oSteps.contains "issueFailover" && jStrOr obs "create_switch_res" "" == "ok" then
      a := a.violationSig "C06:request-filed-over-pending-one" j.compress
    if oSteps.contains "switchFinished" then
      let mk := jStrOr after "master_key" ""
      let nodes := (jOpt after "nodes").bind (fun n => n.getArr?.toOption) |>.getD #[]
      let promoted := nodes.toList.find? fun n => jStrOr n "host" "" == mk
      let okTarget := (sw.to == "" || mk == sw.to) && (sw.from_ == "" || mk != sw.from_)
      let writable := match promoted with | some n => !(jBoolOr n "ro" true) && !(jBoolOr n "is_replica" true) | none => false
      if !(okTarget && writable) then
        a := a.violationSig "C06:succeeded-but-recorded-master-not-promoted-writable" j.compress
        -- the same fact seen from C07: the request of an attempt that did not reach its end must stay in place for the next
        -- manager (theorem `request_kept_until_terminal`); here it was removed and recorded as done
        a := a.violationSig "C07:unfinished-attempt-recorded-as-finished-and-the-request-removed" j.compress
      if swPresentAfter then a := a.violationSig "C06:succeeded-but-request-still-pending" j.compress
  | _ => pure ()
  -- a request another initiator filed after this iteration had read the (empty) request key is pending afterwards, untouched
  if jBoolOr after "raced" false && !(swPresentAfter && jStrOr after "switch_initiated_by" "" == "op") then
    a := a.violationSig "C06:request-of-another-initiator-overwritten-or-removed" j.compress
  -- ---- bookkeeping ----
  a := a.note (!oSteps.isEmpty)
  a := a.tag s!"{prop}:next:{oNext}"
  for s in oSteps do a := a.tag s!"{prop}:step:{s}"
  a := if out.steps.any (fun s => match s with | .notApproved _ => true | _ => false) then a.tag s!"{prop}:not-approved" else a
  a := if out.steps.contains .suspicious then a.tag s!"{prop}:suspicious" else a
  a := a.sample j.compress 1
  pure a

end Replay.Mgr
