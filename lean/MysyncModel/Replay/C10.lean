import MysyncModel.Replay.NodeStateJson
import MysyncModel.App.Repair

namespace Replay.C10
open Lean NS Repair

def actName : Act → Option String
  | .setReadOnly => some "setReadOnly" | .setOffline => some "setOffline" | .semiSyncDisable => some "semiSyncDisable"
  | .changeMaster to => some s!"changeMaster:{to}" | .setRecovery => some "setRecovery" | .startSlave => some "startSlave"
  | .resetSlaveAlgorithm to => some s!"resetSlaveAlgorithm:{to}" | .cascade => none
  | .createRepairState | .deleteRepairState => none

def parseRS (j : Option Json) : Option RepairState :=
  j.map fun v => { lastAttempt := jIntOr v "last_attempt" 0, startCount := jIntOr v "start" 0, resetCount := jIntOr v "reset" 0 }

def handle : Handler := fun j a => do
  let cj ← j.getObjVal? "cfg"
  let cfg : Cfg := { aggressive := ← jBool cj "aggressive", maxAttempts := ← jInt cj "max_attempts", cooldown := ← jInt cj "cooldown" }
  let cs ← parseClusterState j "cs"
  let master ← jStr j "master"
  let hosts ← jStrList j "hosts"
  let now ← jInt j "now"
  let rb ← j.getObjVal? "repair_before"
  let ra ← j.getObjVal? "repair_after"
  let actsJ ← j.getObjVal? "acts"
  let decoy ← jStrList j "decoy_hits"
  let selfSrc ← jStrList j "self_source"
  let mw ← jStrList j "master_writes"
  let failj ← j.getObjVal? "fault"
  let fHost ← jStr failj "host"
  let panicked ← jStr j "panic"
  let mut a := a
  if panicked != "" then a := a.mismatch s!"c10 panic '{panicked}' on {j.compress}"
  for h in hosts do
    if h != master then
      match cs.get? h with
      | none => pure ()
      | some st =>
        if st.pingOk then
          let before := parseRS (jOpt rb h)
          let after := parseRS (jOpt ra h)
          let obs := (jStrList actsJ h).toOption.getD []
          -- progress of the executed set is not needed: candidates for both values of the unobservable inputs
          let cands := [(true, true), (true, false), (false, true), (false, false)].map fun (c, p) => repairSlave cfg h st master before now c p
          let okc := cands.find? fun (acts, rs') => acts.filterMap actName == obs && rs' == after
          let raw := (jStrList (← j.getObjVal? "raw_ops") h).toOption.getD []
          if fHost == h then
            -- a failing statement cuts a statement group short: the action vocabulary does not apply to this host
            -- in this pass; the safety monitors below work on the raw statements
            pure ()
          else if okc.isNone then
            a := a.mismatch s!"c10 host {h} acts impl={obs} repair state after={repr after} model candidates={repr (cands.map fun (x, r) => (x.filterMap actName, r))} on {j.compress}"
          -- monitors
          -- a reachable stale master is marked for recovery in the same pass, whatever statement failed on it
          if st.isMaster && !obs.contains "setRecovery" && (jStr failj "kind").toOption.getD "" != "dcs" then
            a := a.violationSig "C10:stale-master-not-marked-for-recovery" s!"{h}: {obs} raw={raw} in {j.compress}"
            -- the same clause is part of C11 ("found claiming to be master beside the recorded one ⇒ marked")
            a := a.violationSig "C11:host-claiming-to-be-master-not-marked-for-recovery" s!"{h}: {obs} raw={raw} in {j.compress}"
          if fHost != h && obs.any (·.startsWith "OTHER") then a := a.violationSig "C10:unexpected-statement-in-repair" s!"{h}: {obs} in {j.compress}"
          if obs.any (·.startsWith "resetSlaveAlgorithm") || raw.contains "reset_replica_all" then
            let allowed := cfg.aggressive && (match before with
              | some s => cooldownPassed cfg s now && s.startCount ≥ cfg.maxAttempts && s.resetCount < cfg.maxAttempts
              | none => false) && (match st.slave with | some sl => sl.state == .error | none => false) && !st.permBroken
            if !allowed then a := a.violationSig "C10:replication-configuration-reset-without-entitlement" s!"{h} in {j.compress}"
          if obs.contains s!"changeMaster:{h}" || obs.contains s!"resetSlaveAlgorithm:{h}" || raw.contains s!"change_source:{h}" then
            a := a.violationSig "C10:server-pointed-at-itself" s!"{h} in {j.compress}"
          if raw.any (fun o => o.startsWith "change_source:" && o != s!"change_source:{master}") then
            a := a.violationSig "C10:re-pointed-to-something-else-than-the-recorded-master" s!"{h}: {raw} in {j.compress}"
          for o in obs do
            if (o.startsWith "changeMaster:" && o != s!"changeMaster:{master}") || (o.startsWith "resetSlaveAlgorithm:" && o != s!"resetSlaveAlgorithm:{master}" && o != "resetSlaveAlgorithm:") then
              a := a.violationSig "C10:re-pointed-to-something-else-than-the-recorded-master" s!"{h}: {o} in {j.compress}"
  if !decoy.isEmpty then a := a.violationSig "C10:statement-sent-to-unregistered-host" s!"{decoy} in {j.compress}"
  if !selfSrc.isEmpty then a := a.violationSig "C10:server-pointed-at-itself" j.compress
  if !mw.isEmpty then a := a.violationSig "C10:recorded-master-changed-by-repair" j.compress
  -- C04 / C11: after the pass — whatever failed in it — a host that is marked for recovery is not in the published list
  -- (the mark is written after the host has been taken out of the list)
  let markedAfter := (jStrList j "recovery_after").toOption.getD []
  let listedAfter := (jStrList j "active_after").toOption.getD []
  for h in markedAfter do
    if listedAfter.contains h && h != master then
      a := a.violationSig "C04:host-marked-for-recovery-left-in-the-published-list" s!"{h}: marked {markedAfter}, list {listedAfter} in {j.compress}"
      a := a.violationSig "C11:marked-host-in-published-active-list" s!"{h}: marked {markedAfter}, list {listedAfter} in {j.compress}"
  -- the configuration of a replica is reset at most `max_attempts` times and never twice within the cooldown, counted on
  -- the statements the server executed (whether or not the rest of the attempt succeeded) since the host's repair
  -- bookkeeping was last started
  match jOpt j "resets" with
  | some (.obj kv) =>
    for (h, v) in kv.toList do
      let ts := (v.getArr?.toOption.getD #[]).toList.filterMap fun x => x.getInt?.toOption
      if (ts.length : Int) > cfg.maxAttempts then
        a := a.violationSig "C10:configuration-reset-more-often-than-the-attempt-limit" s!"{h}: {ts.length} resets, limit {cfg.maxAttempts} in {j.compress}"
      if (ts.zip ts.tail).any (fun (x, y) => y - x < cfg.cooldown) then
        a := a.violationSig "C10:configuration-reset-again-within-the-cooldown" s!"{h}: {ts} in {j.compress}"
  | _ => pure ()
  -- convergence on fault-free runs: at the last of >= 5 passes with time passing every reachable HA node is
  -- read-only and a running replica of the master, or in one of the property's sinks
  let pass ← jNat j "pass"
  let passes ← jNat j "passes"
  if pass + 1 == passes && passes ≥ 6 && !(← jBool j "faulty_run") && panicked == "" then
    let nodes := ((jOpt j "nodes_after").bind fun n => n.getArr?.toOption).getD #[] |>.toList
    -- "… and bring the master online, writable": whatever flags it started with (its disk is far from full in these runs)
    match nodes.find? fun nd => jStrOr nd "host" "" == master with
    | some m =>
      if jBoolOr m "alive" false && (jBoolOr m "ro" false || jBoolOr m "sro" false || jBoolOr m "offline" false) then
        a := a.violationSig "C10:master-not-brought-online-and-writable" s!"ro={jBoolOr m "ro" false} sro={jBoolOr m "sro" false} offline={jBoolOr m "offline" false} in {j.compress}"
    | none => pure ()
    for nd in nodes do
      let h := jStrOr nd "host" ""
      -- a host the operator took out of the registry during the run is nobody's business any more
      if hosts.contains h && h != master && jBoolOr nd "alive" false && h != jStrOr j "dropped" "" then
        let ro := jBoolOr nd "ro" false
        let isRep := jBoolOr nd "is_replica" false
        let src := jStrOr nd "source" ""
        let running := jBoolOr nd "io" false && jBoolOr nd "sql" false
        let errno := jIntOr nd "io_errno" 0 != 0 || jIntOr nd "sql_errno" 0 != 0
        if !ro then a := a.violationSig "C10:reachable-node-still-writable-after-repeated-repair" s!"{h} in {j.compress}"
        if !(isRep && src == master && (running || errno)) then
          a := a.violationSig "C10:not-converged-to-replica-of-recorded-master" s!"{h} src={src} running={running} in {j.compress}"
  a := a.note (hosts.any fun h => !((jStrList actsJ h).toOption.getD []).isEmpty)
  a := if hosts.any (fun h => ((jStrList actsJ h).toOption.getD []).any (·.startsWith "resetSlaveAlgorithm")) then a.tag "c10:reset-algorithm" else a
  a := if hosts.any (fun h => ((jStrList actsJ h).toOption.getD []).contains "setRecovery") then a.tag "c10:stale-master" else a
  a := if hosts.any (fun h => ((jStrList actsJ h).toOption.getD []).any (·.startsWith "changeMaster")) then a.tag "c10:re-pointed" else a
  a := a.sample j.compress 1
  pure a

end Replay.C10
