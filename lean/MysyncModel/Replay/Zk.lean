/-
Replay of one history of REAL `zkDCS` clients against the fake ensemble (kind "zkhist").
 * every primitive in server order is applied to the model `Zk.Server`; its answer must equal the answer
   of the fake server (validates the fake against the model: T5), the final trees must agree;
 * every client operation is run as the model `Prog`: the primitives the real client issued must be the
   calls of the program, in order, and the result must be the program's result (correspondence of
   zk.go with MysyncModel/Dcs/Zk.lean), including the lock cache;
 * contract monitors (C15) and lock monitors (C03) on the implementation's own outputs.
-/
import MysyncModel.Replay.Util
import MysyncModel.Dcs.Zk

namespace Replay.ZkH
open Lean
open _root_.Zk

structure Cl where
  name : String
  id : String
  sid : Nat := 0
  prog : Option (Prog Res) := none
  op : String := ""
  full : String := ""
  path : Path := []
  opid : Int := 0
  cache : List (String × Int) := []
  free : Bool := false                      -- `tree` : primitives are applied to the server only
  envAtBegin : Nat := 0
  existedAtBegin : Option ZNode := none
  hadAtBegin : Bool := false
  val : String := ""
  sidAtBegin : Nat := 0
  ephAncestorAtBegin : Bool := false
  lostInOp : Bool := false                  -- a reply of this operation was lost: the retry wrapper re-sent the request

structure St where
  srv : Server := {}
  cls : List Cl := []
  env : Nat := 0                            -- counter of environment events (expiry, raw writes, other clients' primitives)
  prims : Nat := 0

def errName : Err → String
  | .noNode => "noNode" | .nodeExists => "nodeExists" | .badVersion => "badVersion" | .notEmpty => "notEmpty"
  | .noChildrenForEphemerals => "noChildrenForEphemerals" | .connClosed => "connClosed"
  | .sessionExpired => "sessionExpired" | .other => "other"

def errOfName (s : String) : Err :=
  match s with
  | "noNode" => .noNode | "nodeExists" => .nodeExists | "badVersion" => .badVersion | "notEmpty" => .notEmpty
  | "noChildrenForEphemerals" => .noChildrenForEphemerals | "connClosed" => .connClosed
  | "sessionExpired" => .sessionExpired | _ => .other

def insertSorted (x : String) : List String → List String
  | [] => [x]
  | y :: r => if x < y then x :: y :: r else y :: insertSorted x r
def sortStrs (l : List String) : List String := l.foldr insertSorted []

def resName : Res → String
  | .ok => "ok" | .exists_ => "exists" | .notFound => "notfound" | .malformed => "malformed"
  | .notEphemeral => "notephemeral" | .err e => s!"err:{errName e}" | .val d => s!"val:{d}"
  | .children cs => s!"children:{",".intercalate (sortStrs cs)}" | .bool b => toString b | .done => "done"

def validJson (d : String) : Bool := (Json.parse d).toOption.isSome

def getCl (st : St) (c : String) : Option Cl := st.cls.find? (·.name == c)
def setCl (st : St) (c : Cl) : St := { st with cls := st.cls.map fun x => if x.name == c.name then c else x }

def primOfJson (e : Json) : Except String Prim := do
  let op ← jStr e "op"
  let p := pathOf (← jStr e "path")
  let data := (jStr e "data").toOption.getD ""
  let ver := (jInt e "ver").toOption.getD 0
  let eph := (jBool e "eph").toOption.getD false
  match op with
  | "get" => pure (.get p)
  | "create" => pure (.create p data eph)
  | "set" => pure (.set p data ver)
  | "delete" => pure (.delete p ver)
  | "children" => pure (.children p)
  | o => throw s!"unknown primitive {o}"

def respOfJson (e : Json) (op : String) : Resp :=
  let err := (jStr e "err").toOption.getD ""
  if err != "" then .err (errOfName err) else
  match op with
  | "get" => .data ((jStr e "rdata").toOption.getD "") ((jInt e "rver").toOption.getD 0) ((jNat e "rowner").toOption.getD 0)
  | "create" => .created
  | "set" => .stat ((jInt e "rver").toOption.getD 0)
  | "delete" => .deleted
  | "children" => .children ((jStrList e "children").toOption.getD [])
  | _ => .err .other

def normResp : Resp → Resp
  | .children cs => .children (sortStrs cs)
  | r => r

/-- expected `GetTree` value from the tree (spec function; the operation itself is not a `Prog`) -/
partial def treeJson (s : Server) (p : Path) : Json :=
  let cs := sortStrs (s.childrenOf p)
  if cs.isEmpty then
    match s.find? p with
    | none => Json.null
    | some n =>
      if n.data.isEmpty then Json.null
      else match Json.parse n.data with
        | .ok v => v
        | .error _ => Json.str n.data
  else Json.mkObj (cs.map fun c => (c, treeJson s (p ++ [c])))

def mkProg (op : String) (p : Path) (val self : String) (nsPath : Path) : Option (Prog Res) :=
  match op with
  | "create" => some (opCreate p val false)
  | "createEph" => some (opCreate p val true)
  | "set" => some (opSet p val false)
  | "setEph" => some (opSet p val true)
  | "get" => some (opGet validJson p)
  | "delete" => some (opDelete p)
  | "children" => some (opChildren p)
  | "acquire" => some (opAcquire p self)
  | "release" => some (opRelease p self 4)
  | "init" => some (bindErr (makePath nsPath) (.ret .done))
  | _ => none

/-- C15 contract clauses for one operation that ran with nothing else in between -/
def contract (cl : Cl) (res : String) (srv : Server) : List (String × String) :=
  match cl.op with
  | "create" | "createEph" =>
    if (res == "exists") != cl.existedAtBegin.isSome then
      [("C15:create-exists-answer-disagrees-with-existence", s!"{cl.full}: {res}, existed={cl.existedAtBegin.isSome}")] else []
  | "get" =>
    match cl.existedAtBegin with
    | none => if res != "notfound" then [("C15:get-of-missing-key", s!"{cl.full}: {res}")] else []
    | some n =>
      (if validJson n.data && !res.startsWith "val:" then [("C15:get-of-valid-value", s!"{cl.full}: {res}")] else []) ++
      (if !validJson n.data && res != "malformed" then [("C15:get-of-unparsable-value", s!"{cl.full}: {res}")] else [])
  | "delete" =>
    (if cl.existedAtBegin.isNone && res != "ok" then [("C15:delete-not-idempotent", s!"{cl.full}: {res}")] else []) ++
    (if res == "ok" && (srv.find? cl.path).isSome then [("C15:delete-ok-but-key-still-there", s!"{cl.full}")] else [])
  | "children" =>
    if !cl.hadAtBegin && res != "notfound" then [("C15:children-of-missing-key", s!"{cl.full}: {res}")] else []
  | "set" | "setEph" =>
    match cl.existedAtBegin with
    | some n =>
      if cl.op == "setEph" && n.owner == 0 then
        (if res != "notephemeral" || srv.find? cl.path != some n then
          [("C15:plain-key-turned-ephemeral-or-changed", s!"{cl.full}: {res}")] else [])
      else if res == "ok" then
        match srv.find? cl.path with
        | some n' => if n'.data != cl.val || n'.owner != n.owner then
            [("C15:set-did-not-overwrite-or-changed-owner", s!"{cl.full}: {repr n'}")] else []
        | none => [("C15:set-ok-but-key-missing", s!"{cl.full}")]
      else []
    | none =>
      (if res == "ok" && !((List.range (cl.path.length + 1)).all fun k => srv.has (cl.path.take k)) then
        [("C15:set-ok-but-an-ancestor-is-missing", s!"{cl.full}")] else []) ++
      -- set creates missing parents: on a missing key below plain ancestors it must succeed
      (if res != "ok" && !cl.ephAncestorAtBegin && !cl.lostInOp && !(res.startsWith "err:connClosed" || res.startsWith "err:sessionExpired") then
        [("C15:set-did-not-create-the-key-and-its-missing-parents", s!"{cl.full}: {res}")] else [])
  | _ => []

def handle : Handler := fun j a => do
  let ns ← jStr j "ns"
  let ttl ← jInt j "ttl"
  let mode ← jStr j "mode"
  let names ← jStrList j "clients"
  let idsJ ← j.getObjVal? "ids"
  let evs ← jArr j "events"
  let nsPath := pathOf (buildFullPath ns "")
  let cls : List Cl := names.map fun n => { name := n, id := (jStr idsJ n).toOption.getD "" }
  let distinctIds := (cls.map (·.id)).eraseDups.length == cls.length
  let mut st : St := { cls := cls }
  let mut a := a
  let mut nOps := 0
  let mut faults := 0
  let ctx := s!"history idx={(jInt j "idx").toOption.getD 0} mode={mode}"
  for e in evs do
    let kind ← jStr e "e"
    match kind with
    | "session" =>
      let c ← jStr e "c"
      let sid ← jNat e "sid"
      st := { st with srv := st.srv.openSession sid }
      match getCl st c with
      | some cl => st := setCl st { cl with sid := sid }
      | none => pure ()
    | "expire" =>
      let sid ← jNat e "sid"
      st := { st with srv := st.srv.expire sid, env := st.env + 1 }
      faults := faults + 1
    | "ev" =>
      let c ← jStr e "c"
      let state ← jStr e "state"
      if state != "StateHasSession" then
        match getCl st c with
        | some cl => st := setCl st { cl with cache := [] }
        | none => pure ()
    | "putraw" =>
      let full ← jStr e "path"
      let data ← jStr e "data"
      let p := pathOf full
      let n : ZNode := match st.srv.find? p with
        | some n => { n with data := data, version := n.version + 1 }
        | none => { data := data }
      st := { st with srv := st.srv.put p n, env := st.env + 1 }
    | "fate" => faults := faults + 1
    | "mark" => pure ()
    | "begin" =>
      let c ← jStr e "c"
      let op ← jStr e "op"
      let spelled := (jStr e "path").toOption.getD ""
      let now ← jInt e "now"
      let val := (jStr e "val").toOption.getD ""
      nOps := nOps + 1
      match getCl st c with
      | none => a := a.mismatch s!"zk: begin for unknown client {c} in {ctx}"
      | some cl =>
        let full := buildFullPath ns spelled
        let p := pathOf full
        let mut cl := { cl with op := op, full := full, path := p, opid := (jInt e "opid").toOption.getD 0, free := false,
                                lostInOp := false, sidAtBegin := cl.sid, ephAncestorAtBegin := ((List.range p.length).any fun k => match st.srv.find? (p.take k) with | some n => n.owner != 0 | none => false), envAtBegin := st.env, existedAtBegin := st.srv.find? p, hadAtBegin := st.srv.has p, val := val }
        if op == "tree" then
          cl := { cl with free := true, prog := none }
        else if op == "acquire" then
          let fresh := cacheFresh (cl.cache.lookup full) now ttl
          if fresh then cl := { cl with prog := some (.ret (.bool true)) }
          else cl := { cl with cache := cl.cache.filter (·.1 != full), prog := mkProg op p val cl.id nsPath }
          a := a.tag (if fresh then "zk:acquire-cached" else "zk:acquire-asks")
        else if op == "release" then
          cl := { cl with cache := cl.cache.filter (·.1 != full), prog := mkProg op p val cl.id nsPath }
        else
          cl := { cl with prog := mkProg op p val cl.id nsPath }
        st := setCl st cl
    | "prim" =>
      let c ← jStr e "c"
      let op ← jStr e "op"
      let fate := (jStr e "fate").toOption.getD ""
      let sid ← jNat e "sid"
      let pr ← primOfJson e
      let real := normResp (respOfJson e op)
      -- C03 monitor: a delete of a lock key issued by ReleaseLock must remove the caller's own lock
      match getCl st c with
      | some cl =>
        if cl.op == "release" && distinctIds then
          match pr with
          | .delete p _ =>
            match st.srv.find? p with
            | some n =>
              if n.data != cl.id && real == .deleted then
                a := a.violationSig (if cl.sidAtBegin != sid then "C03:release-removed-a-lock-owned-by-another-process:delete-sent-on-a-later-session"
                                     else "C03:release-removed-a-lock-owned-by-another-process") s!"{c} removed {repr p} carrying {n.data} in {ctx}"
            | none => pure ()
          | _ => pure ()
      | none => pure ()
      -- `create` is answered for the attempt that got its reply: with at-least-once retries (reply lost, request
      -- re-sent by the wrapper) 'exists' can be the answer to the caller's own earlier attempt — DESIGN.md, observations
      match getCl st c with
      | some cl =>
        if (cl.op == "create" || cl.op == "createEph") && fate != "lost" then
          st := setCl st { cl with existedAtBegin := st.srv.find? cl.path }
          if fate == "" && (jStr e "err").toOption == some "nodeExists" && cl.envAtBegin == st.env then a := a.tag "zk:create-exists-after-own-lost-attempt"
      | none => pure ()
      -- server model
      let (srv', mresp) := st.srv.step sid pr
      if !st.srv.live.contains sid then a := a.mismatch s!"zk server: primitive {e.compress} served for a session the model considers dead in {ctx}"
      if normResp mresp != real then
        a := a.mismatch s!"zk server: {e.compress}: fake answered {repr real}, model {repr (normResp mresp)} in {ctx}"
      st := { st with srv := srv', prims := st.prims + 1 }
      a := a.tag s!"zk:prim:{op}:{(jStr e "err").toOption.getD ""}"
      -- other clients see an environment change
      st := { st with cls := st.cls.map fun x => if x.name == c then x else { x with envAtBegin := x.envAtBegin + 1000000 } }
      -- client program
      match getCl st c with
      | none => a := a.mismatch s!"zk: primitive of unknown client {c} in {ctx}"
      | some cl =>
        if cl.sid != sid then a := a.mismatch s!"zk: {c} used session {sid}, model expects {cl.sid} in {ctx}"
        if cl.free then pure ()
        else
          -- a request that died with its connection is invisible here: the client saw `connClosed`.  Where the
          -- program handles that itself (ReleaseLock) the next call differs: feed the error until the calls agree;
          -- where the blind retry wrapper re-sends, the same call simply matches again.
          let rec align (p : Prog Res) (fuel : Nat) : Option (Resp → Prog Res) :=
            match p, fuel with
            | .call q k, f + 1 => if q == pr then some k else align (k (.err .connClosed)) f
            | _, _ => none
          match cl.prog with
          | some p =>
            match align p 6 with
            | some k =>
              if fate == "lost" then
                -- the client sees a closed connection: stay at this call (re-sent or handled at the next event)
                st := setCl st { cl with prog := some (.call pr k), lostInOp := true }
              else st := setCl st { cl with prog := some (k real) }
            | none =>
              a := a.mismatch s!"zk client {c} op {cl.op} {cl.full}: real primitive {repr pr} is not what the model program calls next in {ctx}"
              st := setCl st { cl with prog := none, free := true }
          | none => a := a.mismatch s!"zk client {c}: primitive {repr pr} outside any operation in {ctx}"
    | "ret" =>
      let c ← jStr e "c"
      let res ← jStr e "res"
      let now ← jInt e "now"
      match getCl st c with
      | none => a := a.mismatch s!"zk: ret for unknown client {c} in {ctx}"
      | some cl =>
        a := a.tag s!"zk:{cl.op}:{(res.splitOn ":").head!}{if res.startsWith "err:" then ":" ++ ((res.splitOn ":").getD 1 "") else ""}"
        if res.startsWith "PANIC" then a := a.violationSig "C20:panic-in-coordination-layer" s!"{cl.op} {cl.full}: {res} in {ctx}"
        let quiet := st.env == cl.envAtBegin        -- nothing else happened during the operation
        if cl.op == "tree" then
          if quiet && res.startsWith "tree:" then
            let exp := treeJson st.srv cl.path
            match Json.parse (res.drop 5).toString with
            | .ok v => if v != exp then a := a.mismatch s!"zk GetTree {cl.full}: real {v.compress}, expected from the tree {exp.compress} in {ctx}"
            | .error _ => a := a.mismatch s!"zk GetTree {cl.full}: unparsable result {res} in {ctx}"
          if quiet && res == "err:noNode" && st.srv.has cl.path then
            a := a.mismatch s!"zk GetTree {cl.full}: noNode for an existing key in {ctx}"
        else if !cl.free then
          -- a pending call at return time: the retry wrapper gave up with a connection error
          let e := if res.startsWith "err:" then errOfName ((res.splitOn ":").getD 1 "") else Err.connClosed
          let rec drain (p : Prog Res) (fuel : Nat) : Option Res :=
            match p, fuel with
            | .ret r, _ => some r
            | .call _ k, f + 1 => drain (k (.err e)) f
            | .call _ _, 0 => none
          let mres := match cl.prog with
            | some p => drain p 10
            | none => none
          match mres with
          | none => a := a.mismatch s!"zk client {c} op {cl.op} {cl.full}: returned {res}, model program not finished in {ctx}"
          | some r =>
            let ok := if cl.op == "init" then true else resName r == res
            if !ok then a := a.mismatch s!"zk client {c} op {cl.op} {cl.full}: real result {res}, model {resName r} in {ctx}"
        -- cache
        let mut cl := cl
        if cl.op == "acquire" && res == "true" then
          let wasCached := match cl.prog with | some (.ret _) => cl.cache.lookup cl.full |>.isSome | _ => false
          if !wasCached then cl := { cl with cache := (cl.full, now) :: cl.cache.filter (·.1 != cl.full) }
          -- C03 monitor: told true ⇒ holder (the lock znode carries the caller's identity and belongs to its live session)
          if distinctIds then
            let holder := match st.srv.find? cl.path with
              | some n => n.data == cl.id && n.owner == cl.sid && st.srv.live.contains cl.sid
              | none => false
            if !holder then
              a := a.violationSig (if wasCached then "C03:told-true-from-cache-while-not-the-holder" else "C03:told-true-while-not-the-holder")
                s!"{c} told true for {cl.full}; znode {repr (st.srv.find? cl.path)} in {ctx}"
            -- nobody else may believe to hold it
            for o in st.cls do
              if o.name != c then
                if (o.cache.lookup cl.full).isSome && cacheFresh (o.cache.lookup cl.full) now ttl then
                  a := a.violationSig "C03:two-processes-would-be-told-true" s!"{c} told true for {cl.full} while {o.name} has a fresh cache entry in {ctx}"
        -- C15 contract monitors, on operations that ran without anything else in between
        if quiet && faults == 0 || quiet && !(res.startsWith "err:connClosed" || res.startsWith "err:sessionExpired") then
          for (sg, msg) in contract cl res st.srv do
            a := a.violationSig sg s!"{msg} in {ctx}"
        st := setCl st { cl with prog := none, free := false, op := "" }
    | k => a := a.mismatch s!"zk: unknown event {k}"
  -- ephemerals of dead sessions must be gone; final trees must agree
  for (p, n) in st.srv.nodes do
    if n.owner != 0 && !st.srv.live.contains n.owner then
      a := a.violationSig "C15:ephemeral-key-outlived-its-session" s!"{repr p} owner {n.owner} in {ctx}"
  let ft ← j.getObjVal? "final_tree"
  match ft with
  | .obj kvs =>
    let real : List (Path × ZNode) := kvs.toList.map fun (k, v) =>
      (pathOf k, { data := (jStr v "data").toOption.getD "", version := (jInt v "ver").toOption.getD 0, owner := (jNat v "owner").toOption.getD 0 })
    for (p, n) in real do
      if st.srv.find? p != some n then a := a.mismatch s!"zk final tree: {repr p} real {repr n}, model {repr (st.srv.find? p)} in {ctx}"
    if real.length != st.srv.nodes.length then a := a.mismatch s!"zk final tree: {real.length} entries, model {st.srv.nodes.length} in {ctx}"
  | _ => a := a.mismatch "zk: final_tree missing"
  a := a.tag s!"zk:mode:{mode}"
  if !distinctIds then a := a.tag "zk:same-identity"
  pure (a.note (nOps > 3 && st.prims > 5))

end Replay.ZkH
