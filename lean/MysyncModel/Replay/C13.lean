import MysyncModel.Replay.Util
import MysyncModel.Gtid
import MysyncModel.Select

namespace Replay.C13
open Lean Gtid Select

def parseIvList (a : Array Json) : Except String IvList :=
  a.toList.mapM fun p => do
    let xs ← p.getArr?
    if xs.size != 2 then throw "interval must have two numbers"
    let s ← xs[0]!.getInt?
    let e ← xs[1]!.getInt?
    pure ⟨s, e⟩

def parseSet (j : Json) : Except String GtidSet := do
  let a ← j.getArr?
  a.toList.mapM fun e => do
    let sid ← jStr e "sid"
    let tag ← jStr e "tag"
    let iv ← jArr e "iv"
    let l ← parseIvList iv
    pure (⟨sid, tag⟩, l)

def jSet (j : Json) (k : String) : Except String GtidSet := do
  let v ← j.getObjVal? k
  parseSet v

def canon (s : GtidSet) : GtidSet := sortKeys s

def wfB (s : GtidSet) : Bool :=
  s.all (fun (_, l) => decide (Normal l) && !l.isEmpty) && (keys s).eraseDups.length == s.length

/-- c13pair : IsSlaveBehindOrEqual / IsSlaveAhead / IsSplitBrained / GTIDDiff / mysqlGTIDSetMinus /
Contain / Equal / Update on a pair of parsed sets.  For a pure function the proved model *is* the
property's oracle, so a disagreement is reported both as a correspondence mismatch and, when the
harness supplied an independent bitset reference that the implementation contradicts, as a
violation with the pair as the failing input. -/
def handlePair : Handler := fun j a => do
  let sa ← jSet j "a"
  let sb ← jSet j "b"
  let u ← jStr j "uuid"
  let behind ← jBool j "behind"
  let ahead ← jBool j "ahead"
  let split ← jBool j "split"
  let cont ← jBool j "contain"
  let eq ← jBool j "equal"
  let diff ← jStr j "diff"
  let minus ← jSet j "minus"
  let atext ← jStr j "atext"
  let btext ← jStr j "btext"
  let id := s!"a={atext} b={btext} uuid={u}"
  let mut a := a
  if !(wfB sa && wfB sb) then
    a := a.mismatch s!"c13pair {id}: parsed set is not well-formed (model hypothesis WF does not cover what the parser produced)"
  let mBehind := isSlaveBehindOrEqual sa sb
  let mSplit := isSplitBrained sa sb u
  let mDiff := diffText sa sb
  let mMinus := gtidMinus sa sb
  if mBehind != behind then a := a.mismatch s!"c13pair {id}: behind impl={behind} model={mBehind}"
  if isSlaveAhead sa sb != ahead then a := a.mismatch s!"c13pair {id}: ahead impl={ahead} model={isSlaveAhead sa sb}"
  if mSplit != split then a := a.mismatch s!"c13pair {id}: split impl={split} model={mSplit}"
  if contain sb sa != cont then a := a.mismatch s!"c13pair {id}: Contain impl={cont} model={contain sb sa}"
  if equal sb sa != eq then a := a.mismatch s!"c13pair {id}: Equal impl={eq} model={equal sb sa}"
  if mDiff != diff then a := a.mismatch s!"c13pair {id}: diff impl='{diff}' model='{mDiff}'"
  if canon mMinus != canon minus then
    a := a.mismatch s!"c13pair {id}: minus impl={repr (canon minus)} model={repr (canon mMinus)}"
    -- the model's difference IS the set difference (theorem `C13.gtidMinus_spec` on well-formed sets), so an
    -- implementation that answers something else on a well-formed pair does not name the set difference
    if wfB sa && wfB sb then
      a := a.violationSig "C13:set-difference-wrong" s!"{id}: a={toText sa} b={toText sb} impl={repr (canon minus)} expected={repr (canon mMinus)}"
  if toText sa != atext then a := a.mismatch s!"c13pair {id}: String() impl='{atext}' model='{toText sa}'"
  match jOpt j "union" with
  | some uj =>
    let un ← parseSet uj
    if canon (update sa sb) != canon un then a := a.mismatch s!"c13pair {id}: Update impl={repr (canon un)} model={repr (canon (update sa sb))}"
  | none => pure ()
  -- monitors against the independent reference (when present) and internal consistency of the impl
  if ahead == behind then a := a.violationSig "C13:ahead-is-not-negation-of-behind" s!"{id}: behind={behind} ahead={ahead}"
  match jOpt j "ref_subset" with
  | some r =>
    let rs ← r.getBool?
    if rs != behind then a := a.violationSig "C13:behind-differs-from-subset" s!"{id}: subset(reference)={rs} behind={behind}"
    if rs && split then a := a.violationSig "C13:subset-reported-splitbrained" s!"{id}: a ⊆ b yet IsSplitBrained = true"
    let fe ← jBool j "ref_foreign_extra"
    if fe && !split then a := a.violationSig "C13:foreign-extra-not-splitbrained" s!"{id}: a holds a transaction b lacks, not from the master uuid, yet IsSplitBrained = false"
    -- diff classification against the reference
    let want := if rs && contain sa sb then "replica gtid equal" else if rs then "source ahead on" else if contain sa sb then "replica ahead on" else "split brain!"
    if !(diff.startsWith want) then a := a.violationSig "C13:diff-misclassified" s!"{id}: diff='{diff}' expected prefix '{want}'"
    if rs != mBehind then a := a.mismatch s!"c13pair {id}: MODEL contradicts bitset reference (model bug)"
  | none => pure ()
  let nt := !sa.isEmpty && !sb.isEmpty
  a := a.note nt
  a := a.tag (if behind then (if eq then "rel:equal" else "rel:behind") else if contain sa sb then "rel:ahead" else "rel:diverged")
  a := if split then a.tag "split:true" else a
  a := a.sample j.compress 2
  pure a

def ofBits (m : Nat) : IvList :=
  let rec go (i fuel : Nat) (acc : IvList) : IvList :=
    match fuel with
    | 0 => acc.reverse
    | f + 1 =>
      if m.testBit i then
        match acc with
        | last :: r => if last.stop == (i : Int) + 1 then go (i + 1) f (⟨last.start, (i : Int) + 2⟩ :: r) else go (i + 1) f (⟨(i : Int) + 1, (i : Int) + 2⟩ :: acc)
        | [] => go (i + 1) f [⟨(i : Int) + 1, (i : Int) + 2⟩]
      else go (i + 1) f acc
  go 0 32 []

/-- c13iv : intervalSliceMinus and IntervalSlice.Contain on normalised lists over a small universe,
with a bitmask reference -/
def handleIv : Handler := fun j a => do
  let ia ← parseIvList (← jArr j "a")
  let ib ← parseIvList (← jArr j "b")
  let minus ← parseIvList (← jArr j "minus")
  let cont ← jBool j "contain"
  let refMinus ← jNat j "ref_minus"
  let refCont ← jBool j "ref_contain"
  let id := j.compress
  let mut a := a
  let m := ivMinus ia ib
  if m != minus then a := a.mismatch s!"c13iv {id}: minus impl={repr minus} model={repr m}"
  if ivContain ia ib != cont then a := a.mismatch s!"c13iv {id}: contain impl={cont} model={ivContain ia ib}"
  if minus != ofBits refMinus then a := a.violationSig "C13:interval-minus-wrong" s!"{id}: intervalSliceMinus={repr minus} reference={repr (ofBits refMinus)}"
  if cont != refCont then a := a.violationSig "C13:interval-contain-wrong" s!"{id}: Contain={cont} reference={refCont}"
  a := a.note (!ia.isEmpty && !ib.isEmpty)
  pure a

def parsePos (j : Json) : Except String Pos := do
  pure { host := ← jStr j "host", gtid := ← jSet j "set", lag := ← jInt j "lag", prio := ← jInt j "prio" }

/-- c14 : findMostRecentNodeAndDetectSplitbrain, getMostPriorityNode, getMostDesirableNode -/
def handleList : Handler := fun j a => do
  let ps ← (← jArr j "pos").toList.mapM parsePos
  let bound ← jInt j "bound"
  let from_ ← jStr j "from"
  let mrHost ← jStr j "mr_host"
  let mrSplit ← jBool j "mr_split"
  let top ← jStr j "top"
  let res ← jStr j "res"
  let err ← jBool j "err"
  let id := j.compress
  let mut a := a
  -- most recent
  if !ps.isEmpty then
    match findMostRecent ps with
    | .panic => a := a.mismatch s!"c14 {id}: model panics on non-empty list"
    | .splitBrain => if !mrSplit then a := a.mismatch s!"c14 {id}: mostRecent impl={mrHost} model=splitbrain"
    | .node m => if mrSplit || m.host != mrHost then a := a.mismatch s!"c14 {id}: mostRecent impl={mrHost}/{mrSplit} model={m.host}"
    -- monitor (C13 last clause), judged with the proved `contain`
    let hasMax := ps.any fun m => ps.all fun p => contain m.gtid p.gtid
    if mrSplit == hasMax then a := a.violationSig "C13:splitbrain-iff-no-maximum" s!"{id}: split={mrSplit} but a maximal node exists={hasMax}"
    if !mrSplit then
      match ps.find? (·.host == mrHost) with
      | none => a := a.violationSig "C13:most-recent-not-in-list" s!"{id}: returned {mrHost}"
      | some m => if !(ps.all fun p => contain m.gtid p.gtid) then a := a.violationSig "C13:most-recent-not-maximal" s!"{id}: returned {mrHost}"
  -- top priority
  match mostPriority ps with
  | none => if top != "" then a := a.mismatch s!"c14 {id}: top impl={top} model=none"
  | some t => if t.host != top then a := a.mismatch s!"c14 {id}: top impl={top} model={t.host}"
  -- desirable
  let cand := if from_ == "" then ps else filterOutHost ps from_
  match mostDesirable bound cand with
  | .notFound => if !err then a := a.mismatch s!"c14 {id}: desirable impl={res} model=notFound"
  | .outOfFuel => a := a.mismatch s!"c14 {id}: model ran out of fuel"
  | .node r => if err || r.host != res then a := a.mismatch s!"c14 {id}: desirable impl={res}/{err} model={r.host}"
  -- C14 monitors on the implementation's answer
  if err != cand.isEmpty then
    if !(from_ != "" && ps.isEmpty) then a := a.violationSig "C14:error-iff-empty" s!"{id}: err={err}"
  if !err then
    if from_ != "" && res == from_ then a := a.violationSig "C14:returned-from-host" s!"{id}: res={res}"
    match cand.find? (·.host == res), mostPriority cand with
    | none, _ => a := a.violationSig "C14:result-not-offered" s!"{id}: res={res}"
    | some r, some t =>
      if t.lag ≤ bound && r.host != t.host then a := a.violationSig "C14:top-within-bound-not-chosen" s!"{id}: res={res} top={t.host}"
      if !(r.host == t.host || r.lag < t.lag - bound) then a := a.violationSig "C14:neither-top-nor-much-fresher" s!"{id}: res={res} top={t.host}"
      if !(cand.all fun p => p.prio ≤ t.prio) then a := a.violationSig "C14:top-not-max-priority" s!"{id}: top={t.host}"
    | _, _ => pure ()
  a := a.note (decide (ps.length ≥ 2))
  a := a.tag s!"len:{ps.length}"
  a := if mrSplit then a.tag "mostRecent:splitbrain" else a
  a := if !err && top != res then a.tag "desirable:recursed" else a
  a := a.sample j.compress 2
  pure a

end Replay.C13
