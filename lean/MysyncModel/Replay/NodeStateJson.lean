import MysyncModel.Replay.Util
import MysyncModel.NodeState

namespace Replay
open Lean NS

/-- a float with zero fraction such as 5.0 is printed as 5 by Go; anything else is rounded down -/
def numToInt (v : Json) (d : Int) : Int :=
  match v.getInt? with
  | .ok n => n
  | .error _ =>
    match v.getNum? with
    | .ok n => n.mantissa / (10 ^ n.exponent)
    | .error _ => d

/-- replication lag is a float (seconds) in the code; the models compare it with thresholds only, so it is carried in
milliseconds (three decimal places exactly) and every threshold it meets is scaled by the same factor where the
configuration of a trace line is parsed -/
def lagScale : Int := 1000

def numToScaled (v : Json) (d : Int) : Int :=
  match v.getInt? with
  | .ok n => n * lagScale
  | .error _ =>
    match v.getNum? with
    | .ok n => n.mantissa * lagScale / (10 ^ n.exponent)
    | .error _ => d

def jIntOr (j : Json) (k : String) (d : Int) : Int :=
  match jOpt j k with
  | some v => numToInt v d
  | none => d

def jBoolOr (j : Json) (k : String) (d : Bool) : Bool :=
  match jOpt j k with
  | some v => (match v.getBool? with | .ok b => b | .error _ => d)
  | none => d

def jStrOr (j : Json) (k : String) (d : String) : String :=
  match jOpt j k with
  | some v => (match v.getStr? with | .ok b => b | .error _ => d)
  | none => d

def parseReplState (s : String) : ReplState :=
  if s == "running" then .running else if s == "stopped" then .stopped else .error

def parseSlave (j : Json) : SlaveState :=
  { masterHost := jStrOr j "master_host" "", retrieved := jStrOr j "retrieved_gtid_get" "",
    executed := jStrOr j "executed_gtid_set" "",
    lag := (jOpt j "replication_lag").map fun v => numToScaled v 0,
    state := parseReplState (jStrOr j "replication_state" ""),
    logFile := jStrOr j "master_log_file" "", logPos := jIntOr j "master_log_pos" 0,
    ioErrno := jIntOr j "last_io_errno" 0, sqlErrno := jIntOr j "last_sql_errno" 0 }

/-- Go's encoding of `nodestate.NodeState` -/
def parseNodeState (j : Json) : NodeState :=
  { pingOk := jBoolOr j "ping_ok" false, pingDubious := jBoolOr j "ping_dubious" false,
    isMaster := jBoolOr j "is_master" false, isReadOnly := jBoolOr j "is_readonly" false,
    isSuperReadOnly := jBoolOr j "is_super_readonly" false, isOffline := jBoolOr j "is_offline" false,
    isCascade := jBoolOr j "is_cascade" false, isFsReadonly := jBoolOr j "is_file_system_readonly" false,
    disk := (jOpt j "disk_state").map fun d => ⟨(jIntOr d "Used" 0).toNat, (jIntOr d "Total" 0).toNat⟩,
    daemonCrashRecovery := (jOpt j "daemon_state").map fun d => jBoolOr d "crash_recovery" false,
    masterExecuted := (jOpt j "master_state").map fun d => jStrOr d "executed_gtid_set" "",
    slave := (jOpt j "slave_state").map parseSlave,
    semiSync := (jOpt j "semi_sync_state").map fun d =>
      ⟨jBoolOr d "master_enabled" false, jBoolOr d "slave_enabled" false, jIntOr d "wait_slave_count" 0⟩,
    replSettings := (jOpt j "replication_settings").map fun d =>
      ⟨jIntOr d "InnodbFlushLogAtTrxCommit" 0, jIntOr d "SyncBinlog" 0⟩ }

/-- a cluster-state map is sent as a list of `{"host":…, "state":{…}}` in the harness's order -/
def parseClusterState (j : Json) (k : String) : Except String ClusterState := do
  let a ← jArr j k
  a.toList.mapM fun e => do
    let h ← jStr e "host"
    let s ← e.getObjVal? "state"
    pure (h, parseNodeState s)

end Replay
