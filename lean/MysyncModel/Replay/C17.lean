import MysyncModel.Replay.NodeStateJson
import MysyncModel.App.Offline

namespace Replay.C17
open Lean NS Offline

def parseCfg (j : Json) : Except String Cfg := do
  pure { enableLag := (← jInt j "enable_lag") * lagScale, disableLag := (← jInt j "disable_lag") * lagScale, maxOfflinePct := ← jInt j "pct",
         azSeparator := ← jStr j "sep", enableInterval := ← jInt j "interval" }

def actName : Act → String
  | .setDefaultReplSettings => "setDefaultReplSettings" | .setOnline => "setOnline" | .setOffline => "setOffline"
  | .optEnable => "optEnable" | .updateLastShutdown => "updateLastShutdown" | .readResetup => "readResetup"
  | .readStartup => "readStartup" | .readLastShutdown => "readLastShutdown" | .skipCap => "skipCap"

def parseResetup (j : Json) : Except String ResetupInfo :=
  match jOpt j "resetup" with
  | none => pure .statusErr
  | some v =>
    match v.getStr? with
    | .ok "status_err" => pure .statusErr
    | .ok "startup_err" => pure .startupErr
    | .ok s => throw s!"bad resetup {s}"
    | .error _ => do pure (.ok (← jBool v "status") (← jBool v "before"))

/-- one call of `repairSlaveOfflineMode` -/
def handleHost : Handler := fun j a => do
  let cfg ← parseCfg (← j.getObjVal? "cfg")
  let host ← jStr j "host"
  let st := parseNodeState (← j.getObjVal? "state")
  let mro ← jBool j "master_ro"
  let cs ← parseClusterState j "cs"
  let pending ← jInt j "pending_in_az"
  let pendingAfter ← jInt j "pending_after"
  let resetup ← parseResetup j
  let offFault ← jBool j "set_offline_fault"
  let age ← jInt j "last_age"
  let acts ← jStrList j "acts"
  let az ← jStr j "az"
  let i : SlaveIn := { pendingInAZ := pending, resetup := resetup, setOfflineOk := !offFault,
                       lastShutdownAge := if age < 0 then none else some age }
  let (mActs, inc) := slavePass cfg host st mro cs i
  let mNames := (mActs.filter (· != .skipCap)).map actName
  let mut a := a
  if getAZ host cfg.azSeparator != az then
    a := a.mismatch s!"c17host getAvailabilityZone impl='{az}' model='{getAZ host cfg.azSeparator}' host={host} sep='{cfg.azSeparator}'"
  if mNames != acts then
    a := a.mismatch s!"c17host acts impl={acts} model={mNames} on {j.compress}"
  if (pendingAfter - pending == 1) != inc then
    a := a.mismatch s!"c17host pending increment impl={pendingAfter - pending} model={inc} on {j.compress}"
  -- monitors on the implementation's own actions (the property's clauses, evaluated directly)
  let lag := st.slave.bind (·.lag)
  let lagOff := acts.take 1 == ["setOffline"] || (acts.contains "setOffline" && !acts.contains "updateLastShutdown")
  if acts.contains "setOnline" then
    if !(st.isOffline && !st.permBroken && (match lag with | some l => decide (l ≤ cfg.disableLag) | none => false) && resetup == .ok false false) then
      a := a.violationSig "C17:online-without-conditions" j.compress
  if lagOff then
    if !(!st.isOffline && !mro && (match lag with | some l => decide (l > cfg.enableLag) | none => false)) then
      a := a.violationSig "C17:offline-for-lag-without-conditions" j.compress
    else if !canSetOffline cfg host cs pending then
      a := a.violationSig "C17:offline-exceeds-zone-cap" j.compress
  if acts.contains "updateLastShutdown" then
    if !(st.permBroken && !st.isOffline && age > cfg.enableInterval) then
      a := a.violationSig "C17:broken-offline-ignores-rate-limit" j.compress
  if !st.permBroken then
    match lag with
    | some l => if cfg.disableLag < l && l ≤ cfg.enableLag && (acts.contains "setOnline" || acts.contains "setOffline") then
        a := a.violationSig "C17:hysteresis-broken" j.compress
    | none => if !acts.isEmpty then a := a.violationSig "C17:unknown-lag-touched" j.compress
  if acts.any (fun s => s.startsWith "FOREIGN" || s.startsWith "OTHER") then
    a := a.violationSig "C17:unexpected-statement" j.compress
  a := a.note (!acts.isEmpty)
  a := if acts.contains "setOnline" then a.tag "act:online" else a
  a := if lagOff then a.tag "act:offline-lag" else a
  a := if acts.contains "updateLastShutdown" then a.tag "act:offline-broken" else a
  a := if mActs.contains .skipCap then a.tag "act:skip-cap" else a
  a := if acts.isEmpty then a.tag "act:none" else a
  a := a.sample j.compress 1
  pure a

/-- a whole pass through the real loop in Go's map order: order-free monitors -/
def handlePass : Handler := fun j a => do
  let cfg ← parseCfg (← j.getObjVal? "cfg")
  let master ← jStr j "master"
  let cs ← parseClusterState j "cs"
  let offl ← jStrList j "offline"
  let onl ← jStrList j "online"
  let other ← jStrList j "other"
  let marked ← jBool j "master_marked"
  let resetups := jOpt j "resetup"
  let mro := match cs.get? master with | some m => m.isReadOnly | none => false
  let mut a := a
  if !other.isEmpty then a := a.violationSig "C17:unexpected-statement" j.compress
  -- eligible for lag-offline (before the cap)
  let elig := cs.filter fun (h, st) => h != master && st.pingOk && !st.isOffline && !mro &&
    (match st.slave.bind (·.lag) with | some l => decide (l > cfg.enableLag) | none => false)
  -- eligible for the gradual shutdown of permanently broken replicas
  let brokenElig := cs.filter fun (h, st) => h != master && st.pingOk && !st.isOffline && st.permBroken && (st.slave.bind (·.lag)).isSome
  for h in offl do
    if !(elig.any (·.1 == h)) && !(brokenElig.any (·.1 == h)) then a := a.violationSig "C17:offline-for-lag-without-conditions" s!"host {h} in {j.compress}"
  -- "permanently broken replicas are taken offline at most one per configured interval cluster-wide": one pass takes at
  -- most one, and none while the record of the last one is younger than the interval
  let brokenOff := (offl.filter fun h => brokenElig.any (·.1 == h) && !(elig.any (·.1 == h))).eraseDups
  let lastShut := jIntOr j "last_shut" 0
  if brokenOff.length > 1 || jIntOr j "last_updates" 0 > 1 then
    a := a.violationSig "C17:more-than-one-broken-replica-taken-offline-within-the-interval" s!"{brokenOff} in {j.compress}"
  if lastShut == 2 && !brokenOff.isEmpty then
    a := a.violationSig "C17:broken-offline-ignores-rate-limit" s!"{brokenOff} in {j.compress}"
  let offl := offl.filter fun h => elig.any (·.1 == h)
  -- per zone: number taken must be exactly what the accumulating cap allows (order-free because the
  -- filter depends only on the count of earlier same-zone hosts)
  let zones := (elig.map fun (h, _) => getAZ h cfg.azSeparator).eraseDups
  for z in zones do
    let eligZ := elig.filter fun (h, _) => getAZ h cfg.azSeparator == z
    let takenZ := offl.filter fun h => getAZ h cfg.azSeparator == z
    -- greedy count
    let rec greedy (n k : Nat) : Nat := match n with
      | 0 => k
      | n' + 1 => match eligZ.head? with
        | some (h, _) => if canSetOffline cfg h cs k then greedy n' (k + 1) else k
        | none => k
    let allowed := greedy eligZ.length 0
    if takenZ.length > allowed then
      a := a.violationSig "C17:offline-exceeds-zone-cap" s!"zone '{z}' taken={takenZ} allowed={allowed} in {j.compress}"
    else if takenZ.length < allowed then
      a := a.mismatch s!"c17pass zone '{z}' taken={takenZ} but the model takes {allowed} in {j.compress}"
  -- online
  for h in onl do
    if h == master then
      if !((cs.get? master).map (·.isOffline) == some true && !marked) then a := a.violationSig "C17:master-online-while-marked" j.compress
    else
      let st := (cs.get? h).getD {}
      let okRes := match resetups with
        | some r => (match jOpt r h with
          | some v => (match v.getStr? with | .ok _ => false | .error _ => jBoolOr v "status" true == false && jBoolOr v "before" true == false)
          | none => false)
        | none => false
      if !(st.pingOk && st.isOffline && !st.permBroken && (match st.slave.bind (·.lag) with | some l => decide (l ≤ cfg.disableLag) | none => false) && okRes) then
        a := a.violationSig "C17:online-without-conditions" s!"host {h} in {j.compress}"
  -- the master must be brought online when offline and not marked
  match cs.get? master with
  | some m => if m.isOffline && !marked && !onl.contains master then a := a.mismatch s!"c17pass master left offline in {j.compress}"
  | none => pure ()
  a := a.note (!offl.isEmpty || !onl.isEmpty)
  a := if !offl.isEmpty then a.tag "pass:took-offline" else a
  a := if offl.length < elig.length then a.tag "pass:cap-bound" else a
  a := a.sample j.compress 1
  pure a

end Replay.C17
