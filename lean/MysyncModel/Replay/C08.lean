import MysyncModel.Replay.Util
import MysyncModel.Replay.NodeStateJson
import MysyncModel.App.Lost

namespace Replay.C08
open Lean Lost

def actName : Act → String
  | .setReadOnlyForce => "ro" | .setReadOnly => "ro" | .checkWaitingAck => "checkWaitingAck"
  | .setOffline => "setOffline" | .semiSyncDisable => "semiSyncDisable" | .readGtid => "readGtid"

def handle : Handler := fun j a => do
  let cj ← j.getObjVal? "cfg"
  let cfg : Cfg := { semiSync := ← jBool cj "semi_sync", disableSetReadonlyOnLost := ← jBool cj "disable_ro", inactivationDelay := ← jInt cj "delay" }
  let ij ← j.getObjVal? "in"
  let probes := (← jStrList ij "probes").map fun s => if s == "good" then Probe.good else if s == "timeout" then Probe.timeout else Probe.notGood
  let roKind ← jNat ij "ro_kind"
  let ackKind ← jNat ij "ack_kind"
  let stopFault ← jNat ij "stop_fault"
  let ssFails ← jBool ij "ss_status_fails"
  let firstRo : RoOutcome := match roKind with | 2 | 5 => .lockWait1205 | 3 => .deadline | 4 => .other | _ => .ok
  let ack : AckCheck := match ackKind with | 1 | 3 => .waiting | 2 => .err | _ => .notWaiting
  let wc ← jInt ij "wait_count"
  -- second attempt succeeds iff the obstacle was the stuck semi-sync commit (kind 5) — kinds 2/3 keep failing
  let i : In := { connected := ← jBool ij "connected", haCount := ← jNat ij "ha_count", localIsHA := ← jBool ij "local_is_ha",
                  localIsMaster := ← jBool ij "local_is_master", probes := probes,
                  localWaitCount := if ssFails then none else some wc,
                  timer := (jOpt ij "timer").map fun v => numToInt v 0, now := ← jInt ij "now",
                  firstRo := firstRo, ack := ack, stopReplOfflineOk := stopFault != 1, stopReplDisableOk := stopFault != 2,
                  secondRoOk := roKind == 5 }
  let acts ← jStrList j "acts"
  let remote ← jStrList j "remote"
  let next ← jStr j "next"
  let timerAfter := jIntOr j "timer_after" 0
  let panicked ← jStr j "panic"
  let out := stateLost cfg i
  let mActs := out.acts.map actName
  let mut a := a
  if panicked != "" then a := a.mismatch s!"c08 panic {panicked} on {j.compress}"
  -- the local node's own state query can fail when ss_status fails: then IsMaster is reported false
  if !ssFails then
    if mActs != acts then a := a.mismatch s!"c08 acts impl={acts} model={mActs} on {j.compress}"
    if (match out.next with | .candidate => "Candidate" | .lost => "Lost") != next then a := a.mismatch s!"c08 next impl={next} model={repr out.next} on {j.compress}"
    if out.timer.getD 0 != timerAfter then a := a.mismatch s!"c08 timer impl={timerAfter} model={out.timer} on {j.compress}"
  -- ---- monitors (property C08) ----
  if !remote.isEmpty then a := a.violationSig "C08:remote-or-coordination-write-while-lost" j.compress
  if acts.any (·.startsWith "OTHER") then a := a.violationSig "C08:unexpected-local-statement" j.compress
  let roBefore ← jBool j "ro_before"
  let roAfter ← jBool j "ro_after"
  if roBefore && !roAfter then a := a.violationSig "C08:node-unfenced-while-lost" j.compress
  let avail := available probes
  let unreach := unreachable probes
  let safeMaster := i.localIsMaster && !ssFails &&
    (if cfg.semiSync then decide (avail ≥ (jIntOr ij "wait_count" 1)) else decide (avail ≥ (i.haCount : Int) - 1))
  let exempt := i.connected || i.haCount == 1 || !i.localIsHA || cfg.disableSetReadonlyOnLost || safeMaster
  if exempt && !acts.isEmpty then a := a.violationSig "C08:fenced-although-exempt-or-provably-safe" j.compress
  if !exempt && !ssFails then
    -- must fence unless postponed; postponement only while some replica is unreachable, and for at most the delay
    if acts.isEmpty then
      let t := match i.timer with | some t => t | none => i.now
      if !(unreach > 0 && i.now - t ≤ cfg.inactivationDelay) then a := a.violationSig "C08:not-fenced-and-not-entitled-to-postpone" j.compress
  -- a lost master that has to be fenced IS read-only afterwards whenever the server would obey: at once, or — when the
  -- request hangs behind commits that wait for an acknowledgement — after semi-sync has been switched off
  if !exempt && !ssFails && !acts.isEmpty then
    let roKind := jIntOr ij "ro_kind" 0
    let ackKind := jIntOr ij "ack_kind" 0
    let stopFault := jIntOr ij "stop_fault" 0
    let obeys := roKind ≤ 1 || (roKind == 5 && (ackKind == 1 || ackKind == 3) && stopFault == 0)
    if obeys && !roAfter then a := a.violationSig "C08:lost-node-left-writable-although-the-server-would-obey" j.compress
  a := a.note (!acts.isEmpty)
  a := a.tag (if i.connected then "c08:reconnected" else if exempt then "c08:exempt" else if acts.isEmpty then "c08:postponed" else "c08:fenced")
  a := if acts.contains "semiSyncDisable" then a.tag "c08:stuck-commit-handling" else a
  a := a.sample j.compress 1
  pure a

end Replay.C08
