import MysyncModel.Replay.NodeStateJson
import MysyncModel.App.Recovery

namespace Replay.C11
open Lean NS Gtid Recovery

def handle : Handler := fun j a => do
  let ij ← j.getObjVal? "in"
  let statusKind ← jNat ij "status_kind"
  let executed ← jStr ij "executed"
  let masterKind ← jNat ij "master_kind"
  let master ← jStr ij "master"
  let mgErr ← jBool ij "mg_err"
  let stuckKind ← jNat ij "stuck_kind"
  let roErr ← jBool ij "ro_err"
  let mgtidS ← jStr ij "mgtid"
  let roB ← jBool ij "ro"
  let status : LocalStatus := match statusKind with
    | 2 => .replica .stopped executed | 3 => .replica .error executed | 4 => .notReplica | 5 => .err | _ => .replica .running executed
  let i : In := { marked := ← jBool ij "marked", resetupFile := ← jBool ij "resetup_file", status := status,
                  master := if masterKind == 7 then none else some master,
                  masterRegistered := masterKind != 6,
                  mgtid := if mgErr && masterKind != 6 && masterKind != 7 then none else some mgtidS,
                  stuck := match stuckKind with | 3 => .yes | 4 => .err | _ => .no,
                  stuckTimer := (jOpt ij "timer").map fun v => numToInt v 0, now := ← jInt ij "now", localHost := ← jStr ij "local",
                  readOnly := if roErr then none else some roB, clearOk := !(← jBool ij "clear_fail") }
  let acts ← jStrList j "acts"
  let mutating ← jStrList j "mutating"
  let tzAfter ← jBool j "timer_zero_after"
  let panicked ← jStr j "panic"
  let markAfter ← jBool j "mark_after"
  let m := checkRecovery i
  let mVisible := m.filterMap fun x => match x with
    | .writeResetup => some "writeResetup" | .clearRecovery ok => some s!"clearRecovery:{ok}" | .panic _ => some "PANIC" | _ => none
  let implVisible := acts ++ (if panicked != "" then ["PANIC"] else [])
  let mut a := a
  if mVisible != implVisible then a := a.mismatch s!"c11 acts impl={implVisible} model={mVisible} (all {repr m}) on {j.compress}"
  let expZero := match m.filter (fun x => x == .setStuckTimer || x == .cleanStuckTimer) |>.getLast? with
    | some .cleanStuckTimer => true | some .setStuckTimer => false | _ => i.stuckTimer.isNone
  if panicked == "" && expZero != tzAfter then a := a.mismatch s!"c11 stuck timer zero impl={tzAfter} model={expZero} on {j.compress}"
  -- ---- monitors ----
  if !mutating.isEmpty then a := a.violationSig "C11:recovery-check-changes-something-else" j.compress
  if acts.any (·.startsWith "clearRecovery") then
    let clean := i.marked && !i.resetupFile && i.readOnly == some true &&
      (match status with
       | .replica st ex => st != .error && (match i.mgtid with | some mg => isSlaveBehindOrEqual (parseD ex) (parseD mg) | none => false)
       | _ => false)
    if !clean then a := a.violationSig "C11:mark-cleared-although-not-proven-clean" j.compress
    if acts.contains "writeResetup" then a := a.violationSig "C11:cleared-and-resetup-together" j.compress
  if i.marked && !i.resetupFile && panicked == "" then
    match status, i.mgtid, i.master with
    | .replica st ex, some mg, some _ =>
      if i.masterRegistered && i.stuck != .yes && (st == .error || isSlaveAhead (parseD ex) (parseD mg)) then
        if !acts.contains "writeResetup" then a := a.violationSig "C11:ahead-or-broken-without-resetup-marker" j.compress
        if !markAfter then a := a.violationSig "C11:mark-gone-although-ahead-or-broken" j.compress
    | _, _, _ => pure ()
  if (!i.marked || i.resetupFile) && !acts.isEmpty then a := a.violationSig "C11:acts-when-unmarked-or-resetup-pending" j.compress
  a := a.note (!acts.isEmpty)
  a := a.tag (if panicked != "" then "c11:panic" else if acts.contains "writeResetup" then "c11:resetup" else if acts.any (·.startsWith "clearRecovery") then "c11:cleared" else "c11:nothing")
  a := a.sample j.compress 1
  pure a

end Replay.C11
