/-
The manager's per-node snapshot (`internal/app/node_state/node_state.go`) and the slice of
`config.Config` that the modelled decision code reads.  Durations are whole seconds (`Int`), disk
usage is kept as the (Used, Total) pair so that the float comparison `100*Used/Total ≥ pct` can be
decided exactly for integer percentages (T8).
-/
import MysyncModel.Gtid

namespace NS
open Gtid

inductive ReplState | running | stopped | error
  deriving Repr, DecidableEq, Inhabited

structure SlaveState where
  masterHost : String := ""
  retrieved : String := ""
  executed : String := ""
  lag : Option Int := none
  state : ReplState := .stopped
  logFile : String := ""
  logPos : Int := 0
  ioErrno : Int := 0
  sqlErrno : Int := 0
  deriving Repr, Inhabited

structure SemiSyncState where
  masterEnabled : Bool := false
  slaveEnabled : Bool := false
  waitSlaveCount : Int := 0
  deriving Repr, Inhabited, DecidableEq

structure ReplSettings where
  flushLog : Int := 1
  syncBinlog : Int := 1
  deriving Repr, Inhabited, DecidableEq

structure DiskState where
  used : Nat
  total : Nat
  deriving Repr, Inhabited, DecidableEq

structure NodeState where
  pingOk : Bool := false
  pingDubious : Bool := false
  isMaster : Bool := false
  isReadOnly : Bool := false
  isSuperReadOnly : Bool := false
  isOffline : Bool := false
  isCascade : Bool := false
  isFsReadonly : Bool := false
  disk : Option DiskState := none
  /-- `DaemonState != nil` and its `CrashRecovery` flag -/
  daemonCrashRecovery : Option Bool := none
  masterExecuted : Option String := none
  slave : Option SlaveState := none
  semiSync : Option SemiSyncState := none
  replSettings : Option ReplSettings := none
  deriving Repr, Inhabited

/-- a Go `map[string]*NodeState` together with the order in which a `range` visited it -/
abbrev ClusterState := List (String × NodeState)

def ClusterState.get? (cs : ClusterState) (h : String) : Option NodeState :=
  match cs with
  | [] => none
  | (k, v) :: r => if k = h then some v else ClusterState.get? r h

/-- `IsReplicationPermanentlyBroken` -/
def NodeState.permBroken (ns : NodeState) : Bool :=
  match ns.slave with
  | none => false
  | some s => s.sqlErrno == 1146 || s.sqlErrno == 1118 || s.ioErrno == 1236 || s.ioErrno == 13114

/-- `DiskState.Usage() ≥ pct` for an integer percentage, decided exactly -/
def DiskState.usageGe (d : DiskState) (pct : Int) : Bool :=
  if d.total == 0 then decide ((0 : Int) ≥ pct)
  else if d.used > d.total then decide ((100 : Int) ≥ pct)
  else decide ((100 * d.used : Int) ≥ pct * d.total)

/-- `DiskState.Usage() > pct` -/
def DiskState.usageGt (d : DiskState) (pct : Int) : Bool :=
  if d.total == 0 then decide ((0 : Int) > pct)
  else if d.used > d.total then decide ((100 : Int) > pct)
  else decide ((100 * d.used : Int) > pct * d.total)

/-- `countHANodes` -/
def countHANodes (cs : ClusterState) : Int := (cs.filter fun (_, s) => !s.isCascade).length

/-- `countRunningHASlaves` -/
def countRunningHASlaves (cs : ClusterState) : Int :=
  (cs.filter fun (_, s) => s.pingOk && !s.isCascade &&
    (match s.slave with | some sl => sl.state == .running | none => false)).length

/-- `countAliveHASlavesWithinNodes` -/
def countAliveHASlavesWithin (nodes : List String) (cs : ClusterState) : Int :=
  (nodes.filter fun h => match cs.get? h with
    | some s => s.pingOk && s.slave.isSome && !s.isCascade
    | none => false).length

/-- `getDubiousHAHosts` (non-empty?) -/
def dubiousHAHosts (cs : ClusterState) : List String :=
  (cs.filter fun (_, s) => !s.pingOk && s.pingDubious && !s.isCascade).map (·.1)

end NS
