/-
A minimal MySQL node as far as GTID movement is concerned, and the environment steps that can
happen between any two calls of mysync (DESIGN §3.5): replication progress, client commits, node
loss.  Used for the environment lemma E3 ("frozen totals"): a read-only node whose IO thread is
stopped does not grow `executed ∪ retrieved`.
-/
import MysyncModel.Gtid

namespace Env
open Gtid

structure Node where
  readOnly : Bool
  ioRunning : Bool
  sqlRunning : Bool
  executed : GtidSet
  retrieved : GtidSet
  alive : Bool := true

/-- membership in `executed ∪ retrieved` -/
def Node.Total (n : Node) (k : Key) (x : Int) : Prop := n.executed.Mem k x ∨ n.retrieved.Mem k x

/-- one environment step on a node (E1: only mysync changes read_only / replication threads) -/
inductive Step : Node → Node → Prop
  /-- the IO thread downloads more: only while it is running -/
  | download (n : Node) (r' : GtidSet) : n.ioRunning = true → (∀ k x, n.retrieved.Mem k x → r'.Mem k x) →
      Step n { n with retrieved := r' }
  /-- the SQL thread applies downloaded transactions: executed grows inside executed ∪ retrieved -/
  | apply (n : Node) (e' : GtidSet) : n.sqlRunning = true → (∀ k x, n.executed.Mem k x → e'.Mem k x) →
      (∀ k x, e'.Mem k x → n.Total k x) → Step n { n with executed := e' }
  /-- a client commits: only on a writable node -/
  | commit (n : Node) (e' : GtidSet) : n.readOnly = false → (∀ k x, n.executed.Mem k x → e'.Mem k x) →
      Step n { n with executed := e' }
  | die (n : Node) : Step n { n with alive := false }
  | idle (n : Node) : Step n n

inductive Steps : Node → Node → Prop
  | refl (n : Node) : Steps n n
  | tail {a b c : Node} : Steps a b → Step b c → Steps a c

/-- frozen = read-only with the IO thread stopped -/
def Frozen (n : Node) : Prop := n.readOnly = true ∧ n.ioRunning = false

end Env
